//! C18 reference: `kodama-loc-ref <matrix file> <n> <method>...`
//!
//! Reads a file of little-endian f64 words (decoded here, without byteorder), calls
//! `kodama::linkage` on it once per method name and prints one line per method:
//! `ok steps=<c1,c2,bits,size;...>`, `panic`, or `nan-input` (matrix contains NaN: not run).  Method names are matched here, independently of
//! the crate's `FromStr`, by the `Method` enum's own variants.

use std::panic;

fn method(name: &str) -> Option<kodama::Method> {
    Some(match name {
        "single" => kodama::Method::Single,
        "complete" => kodama::Method::Complete,
        "average" => kodama::Method::Average,
        "weighted" => kodama::Method::Weighted,
        "ward" => kodama::Method::Ward,
        "centroid" => kodama::Method::Centroid,
        "median" => kodama::Method::Median,
        _ => return None,
    })
}

fn main() {
    let args: Vec<String> = std::env::args().collect();
    if args.len() < 4 {
        eprintln!("usage: kodama-loc-ref <matrix file> <n> <method>...");
        std::process::exit(2);
    }
    let bytes = std::fs::read(&args[1]).expect("read matrix file");
    let n: usize = args[2].parse().expect("n");
    if bytes.len() % 8 != 0 {
        println!("badlen");
        return;
    }
    let matrix: Vec<f64> = bytes
        .chunks_exact(8)
        .map(|c| {
            let mut w = [0u8; 8];
            w.copy_from_slice(c);
            f64::from_bits(u64::from_le_bytes(w))
        })
        .collect();
    if matrix.iter().any(|x| x.is_nan()) {
        // outside linkage's domain (the generic algorithm need not terminate on NaN)
        for _ in &args[3..] {
            println!("nan-input");
        }
        return;
    }
    panic::set_hook(Box::new(|_| {}));
    for name in &args[3..] {
        let m = match method(name) {
            Some(m) => m,
            None => {
                println!("unknown-method");
                continue;
            }
        };
        let mut data = matrix.clone();
        let r = panic::catch_unwind(move || {
            let d = kodama::linkage(&mut data, n, m);
            d.steps()
                .iter()
                .map(|s| {
                    format!(
                        "{},{},{},{}",
                        s.cluster1,
                        s.cluster2,
                        s.dissimilarity.to_bits(),
                        s.size
                    )
                })
                .collect::<Vec<_>>()
                .join(";")
        });
        match r {
            Ok(s) => println!("ok steps={}", s),
            Err(_) => println!("panic"),
        }
    }
}
