//! Reference for C15: the real Rust `kodama::linkage` on the same bytes the C driver passes to
//! `kodama_linkage_double/float`, printed in the C driver's canonical format.
//!
//! stdin:  `case <id>`                                         -> echoed
//!         `create <h> <double|float> <kodama_method_xxx> <n> <bits...>`
//!                 -> `steps len=<l> obs=<n> c1,c2,<f64 bits>,size;...`  |  `panic`
//! (`obs` is the `n` that was passed in, as the property demands; f32 heights are widened with
//! `as f64`, which is exact.)  Every other line is ignored.
use std::io::{self, BufRead, Write};
use std::panic;

use kodama::{linkage, Method};

fn method(name: &str) -> Option<Method> {
    Some(match name {
        "kodama_method_single" => Method::Single,
        "kodama_method_complete" => Method::Complete,
        "kodama_method_average" => Method::Average,
        "kodama_method_weighted" => Method::Weighted,
        "kodama_method_ward" => Method::Ward,
        "kodama_method_centroid" => Method::Centroid,
        "kodama_method_median" => Method::Median,
        _ => return None,
    })
}

fn fmt(n: usize, steps: Vec<(usize, usize, f64, usize)>) -> String {
    let body: Vec<String> =
        steps.iter().map(|s| format!("{},{},{},{}", s.0, s.1, s.2.to_bits(), s.3)).collect();
    format!("steps len={} obs={} {}", steps.len(), n, body.join(";"))
}

fn main() {
    panic::set_hook(Box::new(|_| {}));
    let stdin = io::stdin();
    let stdout = io::stdout();
    let mut out = io::BufWriter::new(stdout.lock());
    for line in stdin.lock().lines() {
        let line = line.unwrap();
        let mut it = line.split_ascii_whitespace();
        match it.next() {
            Some("case") => {
                writeln!(out, "case {}", it.next().unwrap_or("?")).unwrap();
            }
            Some("create") => {
                let _h = it.next();
                let w = it.next().unwrap_or("");
                let m = it.next().and_then(method);
                let n: usize = it.next().and_then(|x| x.parse().ok()).unwrap_or(0);
                let bits: Vec<u64> = it.map(|x| x.parse().unwrap()).collect();
                let m = match m {
                    Some(m) => m,
                    None => {
                        writeln!(out, "bad-op").unwrap();
                        continue;
                    }
                };
                let r = if w == "double" {
                    let mut d: Vec<f64> = bits.iter().map(|&b| f64::from_bits(b)).collect();
                    panic::catch_unwind(move || {
                        let dend = linkage(&mut d, n, m);
                        dend.steps().iter().map(|s| (s.cluster1, s.cluster2, s.dissimilarity, s.size)).collect::<Vec<_>>()
                    })
                } else {
                    let mut d: Vec<f32> = bits.iter().map(|&b| f32::from_bits(b as u32)).collect();
                    panic::catch_unwind(move || {
                        let dend = linkage(&mut d, n, m);
                        dend.steps().iter().map(|s| (s.cluster1, s.cluster2, s.dissimilarity as f64, s.size)).collect::<Vec<_>>()
                    })
                };
                match r {
                    Ok(steps) => writeln!(out, "{}", fmt(n, steps)).unwrap(),
                    Err(_) => writeln!(out, "panic").unwrap(),
                }
            }
            _ => {}
        }
    }
}
