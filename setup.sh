#!/bin/sh
# Build the framework from files on disk only (offline).
set -e
cd "$(dirname "$0")"
export CARGO_NET_OFFLINE=true
python3 tools/extract.py --repo /repo || true
(cd lean && lake build Kodama kodama-driver kodama-capi-driver kodama-laws)
(cd harness && CARGO_TARGET_DIR=../build/harness RUSTFLAGS="--cfg kodama_verif" cargo build --offline)
(cd harness && CARGO_TARGET_DIR=../build/harness RUSTFLAGS="--cfg kodama_verif" cargo build --offline --release)
