"""
A deliberately small reader for the fragments of Rust (and C/Go, see extract.py)
that the translator turns into Lean.  It is not a Rust front end: it strips
comments, finds items by brace matching, tokenises and parses the arithmetic /
comparison expression subset used in kodama's formulas and guards.  Anything it
does not understand raises TranslateError with file and context, which the
check reports as "translator cannot read the source".
"""
import re


class TranslateError(Exception):
    pass


def strip_comments(src: str) -> str:
    """Remove // and /* */ comments, keeping string/char literals intact and
    keeping newlines (so line numbers survive)."""
    out = []
    i, n = 0, len(src)
    while i < n:
        c = src[i]
        if c == '"':
            j = i + 1
            while j < n and src[j] != '"':
                if src[j] == '\\':
                    j += 1
                j += 1
            out.append(src[i:j + 1])
            i = j + 1
        elif c == "'" and i + 2 < n and (src[i + 2] == "'" or (src[i + 1] == '\\' and i + 3 < n and src[i + 3] == "'")):
            # char literal ('x' or '\n'); lifetimes ('a) fall through
            j = i + (3 if src[i + 2] == "'" else 4)
            out.append(src[i:j])
            i = j
        elif src.startswith('//', i):
            j = src.find('\n', i)
            if j < 0:
                j = n
            i = j
        elif src.startswith('/*', i):
            j = src.find('*/', i + 2)
            if j < 0:
                raise TranslateError('unterminated block comment')
            out.append('\n' * src.count('\n', i, j + 2))
            i = j + 2
        else:
            out.append(c)
            i += 1
    return ''.join(out)


def match_brace(src: str, open_idx: int, open_ch='{', close_ch='}') -> int:
    """Index of the brace matching src[open_idx]."""
    assert src[open_idx] == open_ch, (src[open_idx:open_idx + 20])
    depth = 0
    i, n = open_idx, len(src)
    while i < n:
        c = src[i]
        if c == '"':
            j = i + 1
            while j < n and src[j] != '"':
                if src[j] == '\\':
                    j += 1
                j += 1
            i = j + 1
            continue
        if c == open_ch:
            depth += 1
        elif c == close_ch:
            depth -= 1
            if depth == 0:
                return i
        i += 1
    raise TranslateError('unbalanced braces')


def strip_cfg_items(src: str, cfgs=('test', 'kodama_verif')) -> str:
    """Remove items guarded by #[cfg(test)] / #[cfg(kodama_verif)] (hooks and
    tests are not part of the modelled code)."""
    for cfg in cfgs:
        while True:
            m = re.search(r'#\[cfg\(\s*' + cfg + r'\s*\)\]', src)
            if not m:
                break
            # the guarded item ends at the matching brace of its first '{' or at ';'
            j = m.end()
            k_brace = src.find('{', j)
            k_semi = src.find(';', j)
            if k_brace < 0 and k_semi < 0:
                raise TranslateError('cfg item without body')
            if k_semi >= 0 and (k_brace < 0 or k_semi < k_brace):
                end = k_semi + 1
            else:
                end = match_brace(src, k_brace) + 1
            src = src[:m.start()] + '\n' * src.count('\n', m.start(), end) + src[end:]
    return src


def find_fn(src: str, name: str, start: int = 0):
    """Return (params_text, ret_text, body_text, start_index) of `fn name`."""
    m = re.compile(r'\bfn\s+' + re.escape(name) + r'\s*(<[^>{(]*(?:<[^>]*>[^>{(]*)*>)?\s*\(').search(src, start)
    if not m:
        raise TranslateError(f'fn {name} not found')
    p_open = m.end() - 1
    p_close = match_brace(src, p_open, '(', ')')
    b_open = src.find('{', p_close)
    semi = src.find(';', p_close)
    if b_open < 0 or (0 <= semi < b_open):
        raise TranslateError(f'fn {name} has no body')
    b_close = match_brace(src, b_open)
    ret = src[p_close + 1:b_open].strip()
    return src[p_open + 1:p_close], ret, src[b_open + 1:b_close], m.start()


def find_block(src: str, header_re: str, start: int = 0):
    """Find `header {` and return (body, start, end)."""
    m = re.compile(header_re).search(src, start)
    if not m:
        raise TranslateError(f'block /{header_re}/ not found')
    b_open = src.find('{', m.end() - 1)
    b_close = match_brace(src, b_open)
    return src[b_open + 1:b_close], m.start(), b_close + 1


def split_top(s: str, sep=','):
    """Split on sep at nesting depth 0."""
    parts, depth, cur = [], 0, []
    for ch in s:
        if ch in '([{<' and not (ch == '<' and False):
            depth += ch in '([{'
        if ch in ')]}':
            depth -= 1
        if ch == sep and depth == 0:
            parts.append(''.join(cur))
            cur = []
        else:
            cur.append(ch)
    if ''.join(cur).strip():
        parts.append(''.join(cur))
    return [p.strip() for p in parts]


# ---------------------------------------------------------------------------
# expression tokens / Pratt parser
# ---------------------------------------------------------------------------

TOKEN_RE = re.compile(r'''
    (?P<num>\d+\.\d+|\d+)
  | (?P<id>[A-Za-z_][A-Za-z_0-9]*(?:::[A-Za-z_][A-Za-z_0-9]*)*)
  | (?P<op><=|>=|==|!=|&&|\|\||[-+*/<>()\[\],.;=!&{}])
  | (?P<ws>\s+)
''', re.X)


def tokenize(s: str):
    toks, i = [], 0
    while i < len(s):
        m = TOKEN_RE.match(s, i)
        if not m:
            raise TranslateError(f'cannot tokenise: {s[i:i+30]!r}')
        i = m.end()
        if m.lastgroup == 'ws':
            continue
        toks.append((m.lastgroup, m.group()))
    return toks


BINPREC = {'||': 1, '&&': 2, '==': 3, '!=': 3, '<': 3, '>': 3, '<=': 3, '>=': 3,
           '+': 5, '-': 5, '*': 6, '/': 6}


class Parser:
    def __init__(self, toks):
        self.t = toks
        self.i = 0

    def peek(self):
        return self.t[self.i] if self.i < len(self.t) else ('eof', '')

    def next(self):
        tok = self.peek()
        self.i += 1
        return tok

    def expect(self, val):
        tok = self.next()
        if tok[1] != val:
            raise TranslateError(f'expected {val!r}, got {tok[1]!r}')

    def parse_expr(self, minprec=0):
        lhs = self.parse_unary()
        while True:
            k, v = self.peek()
            if k == 'op' and v in BINPREC and BINPREC[v] >= minprec:
                self.next()
                rhs = self.parse_expr(BINPREC[v] + 1)
                lhs = ('bin', v, lhs, rhs)
            else:
                return lhs

    def parse_unary(self):
        k, v = self.peek()
        if k == 'op' and v == '*':
            self.next()
            return ('deref', self.parse_unary())
        if k == 'op' and v == '&':
            self.next()
            if self.peek() == ('id', 'mut'):
                self.next()
            return ('ref', self.parse_unary())
        if k == 'op' and v == '!':
            self.next()
            return ('not', self.parse_unary())
        if k == 'op' and v == '-':
            self.next()
            return ('neg', self.parse_unary())
        return self.parse_postfix(self.parse_atom())

    def parse_atom(self):
        k, v = self.next()
        if k == 'num':
            return ('num', v)
        if k == 'id' and v == 'if':
            # `if c { e1 } else { e2 }` as an expression
            c = self.parse_expr()
            self.expect('{')
            e1 = self.parse_expr()
            self.expect('}')
            if self.next() != ('id', 'else'):
                raise TranslateError('if-expression without else')
            self.expect('{')
            e2 = self.parse_expr()
            self.expect('}')
            return ('ifexpr', c, e1, e2)
        if k == 'id':
            return ('id', v)
        if k == 'op' and v == '(':
            e = self.parse_expr()
            self.expect(')')
            return ('paren', e)
        raise TranslateError(f'unexpected token {v!r}')

    def parse_args(self, close=')'):
        args = []
        if self.peek()[1] == close:
            self.next()
            return args
        while True:
            args.append(self.parse_expr())
            k, v = self.next()
            if v == close:
                return args
            if v != ',':
                raise TranslateError(f'expected , or {close}, got {v!r}')

    def parse_postfix(self, e):
        while True:
            k, v = self.peek()
            if v == '(':
                self.next()
                e = ('call', e, self.parse_args(')'))
            elif v == '.':
                self.next()
                k2, name = self.next()
                if k2 not in ('id', 'num'):
                    raise TranslateError(f'bad member {name!r}')
                if self.peek()[1] == '(':
                    self.next()
                    e = ('mcall', e, name, self.parse_args(')'))
                else:
                    e = ('field', e, name)
            elif v == '[':
                self.next()
                e = ('index', e, self.parse_args(']'))
            else:
                return e


def parse_expr(s: str):
    p = Parser(tokenize(s))
    e = p.parse_expr()
    if p.peek()[0] != 'eof':
        raise TranslateError(f'trailing tokens in expression {s!r}: {p.peek()}')
    return e


def strip_paren(e):
    while e[0] == 'paren':
        e = e[1]
    return e
