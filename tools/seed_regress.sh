#!/bin/sh
# usage: tools/seed_regress.sh [out] [from-seed-id]  — runs every seeded change through its property's check (sequential; ~1 min each)
out=${1:-/tmp/seed_regress.log}; from=${2:-C00}; [ "$from" = C00 ] && : > $out
for d in /verif/seeded/*/; do
  s=$(basename $d); p=${s%%-*}
  [ "$s" \< "$from" ] && continue
  r=$(/verif/tools/seedtest.sh $d/patch.diff $p 2>&1 | grep -E "VIOLATION|OK property|INFRA|does not apply" | head -1)
  echo "$s: $r" >> $out
done
echo DONE >> $out
