#!/bin/sh
# usage: tools/seed_regress.sh [out]  — runs every seeded change through its property's check (sequential; ~1 min each)
out=${1:-/tmp/seed_regress.log}; : > $out
for d in /verif/seeded/*/; do
  s=$(basename $d); p=${s%%-*}
  r=$(/verif/tools/seedtest.sh $d/patch.diff $p 2>&1 | grep -E "VIOLATION|OK property|INFRA|does not apply" | head -1)
  echo "$s: $r" >> $out
done
echo DONE >> $out
