"""Per-property metadata used by /verif/check: which harness builds to run, what the
theorems do and do not cover (copied into the evidence), the trusted base."""
import json
import os
import subprocess
import sys
sys.path.insert(0, os.path.dirname(os.path.abspath(__file__)))
import run_capi
import run_loc  # runners for C15 / C16 (C driver against libkodama.a, both profiles, sanitizers)

TRUSTED_COMMON = [
    "Lean 4.33.0 kernel; axioms limited to propext, Classical.choice, Quot.sound (audited with #print axioms on every property theorem; no sorry/admit/native_decide/bv_decide/axiom in the import closure)",
    "translator /verif/tools/extract.py: the Lean text it emits for method.rs / condensed.rs / lib.rs tables / reset bodies / capi / headers / Go means what the source fragment means",
    "source fingerprints (tools/extract_bodies.py -> Generated/Bodies.lean, Props/C*Source.lean): a textual tie - the normalised body of every hand-modelled function is pinned by a theorem; it says the text is the one the model was written against, not that the model is right about it",
    "correspondence check (/verif/harness + lean driver): differential testing of the hand-modelled loops and bookkeeping against the real crate, bit patterns compared; bounded by the generated inputs reported here",
    "theorems are over an abstract number type with the laws named in their hypotheses; that non-NaN IEEE floats in the safe magnitude range satisfy those laws is trusted — and TESTED on every run: the executable kodama-laws (lean/Kodama/LawsSample.lean) evaluates every float-facing law-bundle field on grids of ~400 Float and Float32 values (special values, 1-3 ulp neighbours, magnitudes) and a law expected to hold that fails there is reported like a broken obligation (coverage.float_law_samples)",
    "modelled, not verified: slice::sort_by is a stable sort. (find(): the theorems use a model without path compression; Props/C01Compress.lean proves that the faithful compressing model Model/UnionFindC.lean yields the same dendrogram, and the faithful model's parents array is compared with the real LinkageUnionFind after every operation in the uf unit session)",
]

INFO = {}
# every correspondence session runs against BOTH build profiles of the crate: dev (debug assertions +
# overflow checks; model mode chk = true) and release (model mode chk = false)
BOTH = [('dev', '-checked'), ('release', '-unchecked')]


def _p(pid, **kw):
    kw.setdefault('runs', [('dev', '')])
    INFO[pid] = kw


_p('C01', runs=BOTH)
_p('C02', runs=BOTH)
_p('C03', runs=BOTH)
_p('C04', runs=BOTH)
_p('C05', runs=BOTH)
_p('C06', runs=BOTH)
_p('C07', runs=BOTH)
_p('C08', runs=BOTH)
_p('C09', runs=BOTH)
_p('C10', runs=BOTH)
_p('C11', runs=BOTH)
_p('C12', runs=BOTH)
_p('C13', runs=BOTH)
_p('C14', runs=BOTH)
_p('C15', runner=run_capi.runner_c15, driver_exe='kodama-capi-driver', trusted_extra=[
    "C15: clang 14 / cargo build libkodama.a and the C driver faithfully; the Rust reference helper (capi_ref) calls kodama::linkage as any Rust caller would",
])
_p('C16', runner=run_capi.runner_c16, driver_exe='kodama-capi-driver', trusted_extra=[
    "C16: memory validity (no invalid access, no leak, no cross-thread interference) is OBSERVED by AddressSanitizer + LeakSanitizer (thorough: valgrind memcheck) on the generated scripts, not proved; the Rust code is not sanitizer-instrumented (its heap traffic goes through the intercepted malloc/free, all reads of returned storage are made by the instrumented C driver)",
])
def go_method_map(REPO):
    """{Go constant name: C enumerator name passed to the C API}, read from go-kodama/kodama.go and
    go-kodama/kodama.h.  Understands the two shapes seen so far of `func (m Method) enum()`: a switch
    `case MethodX: return C.kodama_method_y`, and a numeric cast `return C.kodama_method(m)` of the iota
    constant.  Used only to SEARCH for a concrete failing call; the theorem side is Props/C17.lean."""
    import re
    go = open(os.path.join(REPO, 'go-kodama', 'kodama.go')).read()
    go_nc = re.sub(r'//[^\n]*', '', go)
    hdr = open(os.path.join(REPO, 'go-kodama', 'kodama.h')).read()
    hdr = re.sub(r'/\*.*?\*/', '', hdr, flags=re.S)
    m = re.search(r'typedef\s+enum\s+\w*\s*\{(.*?)\}\s*kodama_method\s*;', hdr, re.S)
    enumerators, val = [], 0
    for e in [x.strip() for x in m.group(1).split(',') if x.strip()]:
        if '=' in e:
            nm, v = [y.strip() for y in e.split('=')]
            val = int(v, 0)
        else:
            nm = e
        enumerators.append((nm, val))
        val += 1
    consts = {}
    for blk in re.finditer(r'const\s*\((.*?)\n\)', go_nc, re.S):
        if 'iota' not in blk.group(1) or 'Method' not in blk.group(1):
            continue
        i = 0
        for line in blk.group(1).split('\n'):
            w = line.split()
            if not w:
                continue
            if re.match(r'^Method\w+$', w[0]):
                consts[w[0]] = i
            i += 1
    fn = re.search(r'func\s*\(\s*(\w+)\s+Method\s*\)\s*enum\s*\(\s*\)\s*C\.kodama_method\s*\{(.*?)\n\}', go_nc, re.S)
    recv, body = fn.group(1), fn.group(2)
    out = {}
    cases = re.findall(r'case\s+(Method\w+)\s*:\s*return\s+C\.(kodama_method_\w+)', body)
    if cases:
        for g, c in cases:
            out[g] = c
        return out
    if re.search(r'return\s+C\.kodama_method\(\s*%s\s*\)' % recv, body):
        byval = {}
        for nm, v in enumerators:
            byval.setdefault(v, nm)
        for g, v in consts.items():
            out[g] = byval.get(v, 'value %d (no enumerator)' % v)
        return out
    raise ValueError('enum() has a shape not understood')


def runner_c17(pid, tier, seed, driver, BUILD, REPO):
    """C17 is decided entirely by theorems over translated data; the 'cases' are the rows of the
    generated tables (what the theorems quantify over)."""
    import re
    path = os.path.join(os.path.dirname(os.path.abspath(__file__)), '..', 'lean', 'Kodama', 'Generated', 'Abi.lean')
    rows = []
    if os.path.exists(path):
        for line in open(path):
            line = line.strip()
            if line.startswith('def ') or line.startswith('("') or line.startswith('["') or line.startswith('"'):
                rows.append(line[:200])
    rep = {'evaluations': len(rows), 'distinct_nontrivial': len(set(rows)), 'compared_with_model': 0, 'oracle_checked': 0,
           'rule': 'rows of Generated/Abi.lean (enumerators, struct fields, prototypes, Rust FFI items, Go constants/switch/conversions/length formula) re-read from the four source files on this run; every theorem is a decide/rfl over the whole table',
           'samples': rows[:6], 'distribution': {'rows': len(rows)}, 'failures': [], 'notes': ['no Go toolchain in this sandbox: go-kodama is read, never compiled'], 'extra': {}, 'checked_build': False}
    # behavioural cross-check (gives a concrete failing input when a name/enumerator mismatch is real):
    # call every enumerator BY ITS HEADER NAME through libkodama.a, once with each header copy, on a
    # witness matrix on which the seven methods give seven different dendrograms, and compare with
    # Rust `linkage(.., Method::<namesake>)`.
    try:
        import random
        paths, errors = run_capi.build_all(BUILD, REPO, need_ref=True, need_asan=False)
        lib = os.path.join(os.path.dirname(paths[('release', 'plain')]), '') if ('release', 'plain') in paths else None
        exe1 = paths.get(('release', 'plain'))
        exe2 = None
        if exe1:
            import glob as _g
            libs = [a for a in _g.glob(os.path.join(BUILD, 'capi*', 'release', 'libkodama.a'))]
            exe2 = os.path.join(os.path.dirname(exe1), 'cdriver-release-goheader')
            if libs:
                cc = ['clang', '-std=gnu11', '-O1', '-g', '-I', os.path.join(REPO, 'go-kodama'), run_capi.CDRIVER, libs[0], '-o', exe2, '-lpthread', '-ldl', '-lm']
                r = subprocess.run(cc, capture_output=True, text=True)
                if r.returncode != 0:
                    rep['notes'].append('C driver does not compile against go-kodama/kodama.h: ' + r.stderr[-300:])
                    exe2 = None
        names = ['kodama_method_' + x for x in ('single', 'complete', 'average', 'weighted', 'ward', 'centroid', 'median')]
        rng = random.Random(seed)
        if exe1 and 'ref' in paths:
            for attempt in range(20):
                vals = rng.sample(range(1, 60), 15)
                bits = [run_capi.f64bits(float(v)) for v in vals]
                scripts = {k: ['create 0 double %s 6 %s' % (nm, ' '.join(map(str, bits))), 'steps 0', 'free 0'] for k, nm in enumerate(names)}
                inp = ''.join('case %d\n%s\n' % (k, '\n'.join(scripts[k])) for k in scripts)
                ref = subprocess.run([paths['ref']], input=inp, capture_output=True, text=True).stdout
                refl = [l for l in ref.split('\n') if l.startswith('steps')]
                if len(set(refl)) == 7:
                    break
            for tag, exe in (('kodama-capi/include/kodama.h', exe1), ('go-kodama/kodama.h', exe2)):
                if not exe:
                    continue
                out = subprocess.run([exe], input=inp, capture_output=True, text=True).stdout
                got = [l for l in out.split('\n') if l.startswith('steps')]
                rep['evaluations'] += 7
                rep['oracle_checked'] += 7
                for k, nm in enumerate(names):
                    if k >= len(got) or k >= len(refl) or got[k] != refl[k]:
                        rep['failures'].append({'kind': 'oracle', 'what': 'enumerator %s (header %s) does not run the linkage method of the same name: result differs from Rust linkage(Method::%s)' % (nm, tag, nm.split('_')[-1].capitalize()),
                                                'ops': scripts[k], 'impl': [got[k] if k < len(got) else 'no output'], 'model': [refl[k] if k < len(refl) else 'no output']})
            # the Go layer (never compiled here): evaluate, from the SOURCE TEXT, which C enumerator
            # value a Go caller's `MethodX` is turned into by `enum()` (a name-based switch, or a numeric
            # cast of the iota constant), then run THAT enumerator of go-kodama/kodama.h through the C
            # API and compare with Rust `linkage(.., Method::X)`
            try:
                gomap = go_method_map(REPO)
            except Exception as e:  # noqa
                gomap = None
                rep['notes'].append('Go enum() could not be evaluated from the source text: %r' % (e,))
            if gomap and exe2:
                for k, nm in enumerate(names):
                    x = nm.split('_')[-1]
                    gname = 'Method' + x.capitalize()
                    if gname not in gomap:
                        rep['failures'].append({'kind': 'oracle', 'what': 'Go constant %s is missing or not handled by enum()' % gname, 'ops': [gname], 'impl': ['absent'], 'model': [nm]})
                        continue
                    cen = gomap[gname]          # C enumerator NAME the Go call passes
                    rep['evaluations'] += 1
                    rep['oracle_checked'] += 1
                    if cen not in names:
                        rep['failures'].append({'kind': 'oracle', 'what': 'Go %s is converted to %s, which is not an enumerator of go-kodama/kodama.h' % (gname, cen), 'ops': [gname], 'impl': [cen], 'model': [nm]})
                        continue
                    j = names.index(cen)
                    out = subprocess.run([exe2], input=inp, capture_output=True, text=True).stdout
                    got = [l for l in out.split('\n') if l.startswith('steps')]
                    if j >= len(got) or got[j] != refl[k]:
                        rep['failures'].append({'kind': 'oracle', 'what': 'a Go caller asking for %s makes the C API run %s: the result differs from Rust linkage(Method::%s)' % (gname, cen, x.capitalize()),
                                                'ops': ['Go: kodama.Linkage64(matrix, 6, kodama.%s)  ==  C: ' % gname + scripts[j][0]], 'impl': [got[j] if j < len(got) else 'no output'], 'model': [refl[k]]})
    except Exception as e:  # noqa
        rep['notes'].append('behavioural enumerator cross-check could not run: %r' % (e,))
    if tier == 'thorough':
        t = os.path.join(os.path.dirname(os.path.abspath(__file__)), 'test_abi_mutations.py')
        try:
            out = subprocess.run(['python3', t], capture_output=True, text=True, timeout=1800).stdout[-1500:]
        except Exception as e:  # noqa
            out = 'mutation self-test could not run: %r' % (e,)
        rep['notes'].append('translator mutation self-test: ' + out)
    return rep


_p('C17', runner=runner_c17)
_p('C18', runs=[('release', '')], runner=run_loc.runner_c18, trusted_extra=[
    "C18: rayon's ordered-collect contract (flat_map/map/collect into a Vec concatenates per-split results in range order) is modelled, not verified; observed: saved matrix byte-identical for RAYON_NUM_THREADS in {1,2,3,8,16} x repeats",
    "C18: csv/serde (record + number parsing), ryu (shortest round-trip printing), clap, byteorder and the file system are not modelled; the runner parses/prints with Python float()/repr and cross-checks against the tool's own matrix file and a direct Rust call of kodama::linkage (loc_ref)",
    "C18: glibc libm sin/cos/atan and hardware sqrt are shared by the Rust binary and Lean's Float runtime (bit-identical matrices are checked on every run); nothing is proved about haversine's accuracy",
    "C18: the Word64 laws from_bits(to_bits x) = x and to_bits x < 2^64 are hypotheses of C18_save_load (not provable for Lean's opaque Float); observed by save -> load runs",
])
_p('C19')
_p('C20')


def props_header(pid):
    """The leading block comments of Props/<pid>*.lean state what is proved and what is not."""
    import glob
    d = os.path.join(os.path.dirname(os.path.abspath(__file__)), '..', 'lean', 'Kodama', 'Props')
    out = []
    for p in sorted(glob.glob(os.path.join(d, pid + '*.lean'))):
        t = open(p).read()
        a = t.find('/-')
        b = t.find('-/')
        if a < 0 or b < 0:
            continue
        h = t[a + 2:b].strip()
        main = os.path.basename(p) == pid + '.lean'
        out.append('[' + os.path.basename(p) + '] ' + (h if main else h[:1800] + (' …' if len(h) > 1800 else '')))
    return '\n\n'.join(out)


def evidence(pid, tier, seed, pr, sessions, wall, violations, known_hits):
    evaluations = sum(s.get('evaluations', 0) for s in sessions)
    distinct = sum(s.get('distinct_nontrivial', 0) for s in sessions)
    samples = []
    for n in pr.get('theorems', [])[:40]:
        samples.append({'obligation': n})
    for s in sessions:
        for x in s.get('samples', [])[:3]:
            samples.append({'case': x if len(x) < 400 else x[:400] + '…'})
    dist = {}
    for s in sessions:
        tag = 'checked' if s.get('checked_build') else 'unchecked'
        dist[tag] = s.get('distribution', {})
    cov = {
        'obligations': pr['obligations'],
        'discharged': pr['discharged'],
        'checker_cmd': f'cd /verif/lean && lake build Kodama.Props.{pid} && lake env lean <generated Audit_{pid}.lean with #print axioms for every theorem {pid}_*>' + (f' && lake env leanchecker Kodama.Props.{pid}' if tier == 'thorough' else ''),
        'trusted_base': TRUSTED_COMMON + INFO[pid].get('trusted_extra', []),
        'theorems': pr.get('theorems', []),
        'axioms_seen': pr.get('axioms', []),
        'broken_obligations': [{'name': n, 'error': m[:300]} for n, m in pr.get('broken', [])][:20],
        'what_the_theorems_state_and_do_not_cover': props_header(pid),
        'evaluations': evaluations,
        'distinct_nontrivial': distinct,
        'rule': '; '.join(sorted({s.get('rule', '') for s in sessions if s.get('rule')})),
        'samples': samples,
        'traces_validated_against_impl': sum(s.get('compared_with_model', 0) for s in sessions),
        'oracle_checked_on_impl': sum(s.get('oracle_checked', 0) for s in sessions),
        'input_distribution': dist,
        'session_notes': [n for s in sessions for n in s.get('notes', [])],
        'extra': {k: v for s in sessions for k, v in s.get('extra', {}).items()},
        'known_findings_hit': [k['id'] for k, _ in known_hits],
        'lake_build_s': pr.get('build_s'),
        'leanchecker': pr.get('leanchecker'),
        'float_law_samples': pr.get('law_sample'),
    }
    return {
        'property_id': pid,
        'tier': tier,
        'seed': seed,
        'level': 'proof',
        'coverage': cov,
        'assumptions': TRUSTED_COMMON + INFO[pid].get('trusted_extra', []),
        'wall_s': round(wall, 2),
        'violations': violations,
    }


def replay(pid, path, exe, driver):
    if pid in ('C15', 'C16'):
        return run_capi.replay(pid, path, driver)
    if pid == 'C18':
        root = os.path.dirname(os.path.dirname(os.path.abspath(__file__)))
        return run_loc.replay_c18(path, driver, os.path.join(root, 'build'), os.environ.get('VERIF_REPO', '/repo'))
    cmd = [exe, pid, '--replay', path, '--driver', driver or 'none']
    p = subprocess.run(cmd)
    return p.returncode
