#!/usr/bin/env python3
"""
Mutation testing of the SEARCH side of the checks (the Rust oracles of /verif/harness), not of the proofs.

For every syntactic mutant of the library sources (one small operator change at one place) that still
compiles AND still passes the crate's own 36 tests, build the harness against the mutated crate and run the
oracle sessions C01..C14, C19, C20 with `--driver none` (no Lean involved: the translator/proof side can
only ADD detections).  A surviving mutant that no session flags is either equivalent or a gap of the
oracles; the list is written to <out>/survivors.txt for review.

Never touches /repo: works in a scratch worktree and a scratch copy of the harness.

usage: tools/mutants.py [--files a.rs,b.rs] [--max N] [--out DIR] [--seed S]
"""
import argparse, json, os, random, re, shutil, subprocess, sys, time

ROOT = os.path.dirname(os.path.dirname(os.path.abspath(__file__)))
PROPS = ['C01', 'C02', 'C03', 'C04', 'C05', 'C06', 'C07', 'C08', 'C09', 'C10', 'C11', 'C12', 'C13', 'C14', 'C19', 'C20']

# (regex, replacement) mutation operators, applied at ONE match each
OPS = [
    (r' < ', ' <= '), (r' <= ', ' < '), (r' > ', ' >= '), (r' >= ', ' > '),
    (r' == ', ' != '), (r' != ', ' == '),
    (r' \+ 1\b', ' + 2'), (r' - 1\b', ' - 2'), (r' \+ 1\b', ''), (r' - 1\b', ''),
    (r'\.skip\(1\)', ''), (r'\.skip\(1\)', '.skip(2)'),
    (r'range\(\.\.a\)', 'range(..b)'), (r'range\(a\.\.b\)', 'range(a..)'), (r'range\(b\.\.\)', 'range(a..)'),
    (r'\[\[x, a\]\]', '[[x, b]]'), (r'\[\[a, x\]\]', '[[b, x]]'), (r'\[\[x, b\]\]', '[[x, a]]'), (r'\[\[b, x\]\]', '[[a, x]]'),
    (r'size_a', 'size_b'), (r'size_b', 'size_a'),
    (r' && ', ' || '), (r' \|\| ', ' && '),
    (r'\* 2\b', '* 3'), (r'/ 2\b', '/ 3'),
    (r'\bparent\b', 'left'), (r'\bleft\b', 'right'), (r'\bright\b', 'left'),
    (r'0\.5', '0.25'), (r'0\.25', '0.5'),
    (r'\.sqrt\(\)', ''), (r'\bmin\b', 'max'),
    (r'true', 'false'), (r'false', 'true'),
]


def sh(cmd, cwd=None, env=None, timeout=None):
    try:
        p = subprocess.run(cmd, cwd=cwd, env=env, stdout=subprocess.PIPE, stderr=subprocess.STDOUT, text=True, timeout=timeout)
        return p.returncode, p.stdout
    except subprocess.TimeoutExpired:
        return 124, 'timeout'


def code_region(src):
    """Offsets of the non-test, non-comment part: everything before `#[cfg(test)]`."""
    k = src.find('#[cfg(test)]')
    return len(src) if k < 0 else k


def main():
    ap = argparse.ArgumentParser()
    ap.add_argument('--files', default='chain.rs,generic.rs,primitive.rs,spanning.rs,queue.rs,active.rs,union.rs,dendrogram.rs,condensed.rs,method.rs,lib.rs')
    ap.add_argument('--max', type=int, default=150)
    ap.add_argument('--out', default='/tmp/mutants')
    ap.add_argument('--seed', type=int, default=1)
    args = ap.parse_args()
    rng = random.Random(args.seed)
    wt = os.path.join(args.out, 'wt')
    hz = os.path.join(args.out, 'harness')
    tgt = os.path.join(args.out, 'target')
    os.makedirs(args.out, exist_ok=True)
    if not os.path.exists(wt):
        assert sh(['git', '-C', '/repo', 'worktree', 'add', '-q', '--detach', wt, 'HEAD'])[0] == 0
        shutil.copy('/repo/Cargo.lock', wt)
    if os.path.exists(hz):
        shutil.rmtree(hz)
    shutil.copytree(os.path.join(ROOT, 'harness'), hz, ignore=shutil.ignore_patterns('target'))
    ct = open(os.path.join(hz, 'Cargo.toml')).read().replace('path = "/repo"', f'path = "{wt}"')
    open(os.path.join(hz, 'Cargo.toml'), 'w').write(ct)
    env = dict(os.environ, CARGO_NET_OFFLINE='true', CARGO_TARGET_DIR=tgt, VERIF_CORPUS_DIR=os.path.join(ROOT, 'corpus'))
    henv = dict(env, RUSTFLAGS='--cfg kodama_verif')
    # candidate mutants
    cands = []
    for f in args.files.split(','):
        p = os.path.join(wt, 'src', f)
        src = open(p).read()
        lim = code_region(src)
        blocks = [(m.start(), m.end()) for m in re.finditer(r'/\*.*?\*/', src, re.S)]
        for oi, (pat, rep) in enumerate(OPS):
            for m in re.finditer(pat, src[:lim]):
                if any(s <= m.start() < e for s, e in blocks):
                    continue      # inside a block (doc) comment
                line = src.count('\n', 0, m.start()) + 1
                text = src.split('\n')[line - 1]
                if text.strip().startswith('//') or 'assert' in text:
                    continue
                cands.append((f, oi, m.start(), m.end(), line))
    rng.shuffle(cands)
    print(f'{len(cands)} candidate mutants; running up to {args.max}', flush=True)
    res = {'killed_by_build': 0, 'killed_by_tests': 0, 'flagged': 0, 'survived': 0}
    rows, survivors = [], []
    done = 0
    for (f, oi, a, b, line) in cands:
        if done >= args.max:
            break
        p = os.path.join(wt, 'src', f)
        orig = open(p).read()
        pat, rep = OPS[oi]
        mutated = orig[:a] + re.sub(pat, rep, orig[a:b], count=1) + orig[b:]
        if mutated == orig:
            continue
        desc = f'{f}:{line} `{orig[a:b].strip()}` -> `{re.sub(pat, rep, orig[a:b], count=1).strip()}` | {orig.splitlines()[line - 1].strip()[:90]}'
        open(p, 'w').write(mutated)
        try:
            rc, out = sh(['cargo', 'test', '--offline', '--lib', '-q'], cwd=wt, env=env, timeout=300)
            if rc != 0:
                if 'error' in out and 'test result' not in out:
                    res['killed_by_build'] += 1
                else:
                    res['killed_by_tests'] += 1
                continue
            done += 1
            rc, out = sh(['cargo', 'build', '--offline', '-q'], cwd=hz, env=henv, timeout=600)
            if rc != 0:
                rows.append((desc, ['harness-build-failed']))
                res['flagged'] += 1
                continue
            exe = os.path.join(tgt, 'debug', 'kodama-verif-harness')
            flagged = []
            for pid in PROPS:
                rep_file = os.path.join(args.out, 'rep.json')
                if os.path.exists(rep_file):
                    os.remove(rep_file)
                rc, out = sh([exe, pid, '--tier', 'quick', '--seed', '1', '--driver', 'none', '--out', rep_file], env=henv, timeout=400)
                bad = False
                if os.path.exists(rep_file):
                    try:
                        r = json.load(open(rep_file))
                        bad = any(x['kind'] in ('oracle', 'hang') for x in r.get('failures', []))
                    except Exception:
                        bad = True
                else:
                    bad = True   # crashed / timed out without a report
                if bad:
                    flagged.append(pid)
                    if len(flagged) >= 3:
                        break     # enough: the mutant is detected
            rows.append((desc, flagged))
            if flagged:
                res['flagged'] += 1
            else:
                res['survived'] += 1
                survivors.append(desc)
            print(f'[{done}] {"FLAGGED " + ",".join(flagged) if flagged else "SURVIVED"} :: {desc}', flush=True)
        finally:
            open(p, 'w').write(orig)
    json.dump({'summary': res, 'rows': rows}, open(os.path.join(args.out, 'result.json'), 'w'), indent=1)
    open(os.path.join(args.out, 'survivors.txt'), 'w').write('\n'.join(survivors) + '\n')
    print(json.dumps(res))


if __name__ == '__main__':
    main()
