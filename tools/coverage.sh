#!/bin/sh
# Line/region coverage of /repo/src/*.rs under the harness sessions (quick tier, seed 1) — a measurement
# of generator quality, NOT part of any check.  Needs the nightly toolchain's llvm-tools (installed here).
# usage: tools/coverage.sh [outdir]      (scratch output; nothing is kept under /verif)
out=${1:-/tmp/kodama-cov}; mkdir -p "$out"; rm -f "$out"/*.profraw
T=$(dirname "$(rustup +nightly which rustc)")/../lib/rustlib/x86_64-unknown-linux-gnu/bin
cd /verif/harness || exit 2
CARGO_NET_OFFLINE=true CARGO_TARGET_DIR="$out/target" RUSTFLAGS="--cfg kodama_verif -C instrument-coverage" \
  cargo +nightly build --offline >/dev/null 2>&1 || { echo "build failed"; exit 2; }
for p in C01 C02 C03 C04 C05 C06 C07 C08 C09 C10 C11 C12 C13 C14 C19 C20; do
  LLVM_PROFILE_FILE="$out/$p-%p.profraw" "$out/target/debug/kodama-verif-harness" $p --tier quick --seed 1 --out "$out/$p.json" >/dev/null 2>&1
done
"$T/llvm-profdata" merge -sparse "$out"/*.profraw -o "$out/all.profdata"
"$T/llvm-cov" report "$out/target/debug/kodama-verif-harness" -instr-profile="$out/all.profdata" \
  $(ls /repo/src/*.rs | grep -v "verif.rs\|test.rs")
echo "uncovered lines:"
"$T/llvm-cov" show "$out/target/debug/kodama-verif-harness" -instr-profile="$out/all.profdata" \
  $(ls /repo/src/*.rs | grep -v "verif.rs\|test.rs") --show-line-counts 2>/dev/null | grep -E "^/repo|^\s+[0-9]+\|\s+0\|"
