"""Second half of the translator (C API, ABI, reset bodies, purity scan)."""
MORE = []
