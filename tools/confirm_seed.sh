#!/bin/sh
# usage: tools/confirm_seed.sh <seed-id>   — independent confirmation of a seeded change in a scratch worktree:
# (1) compiles, (2) existing suite passes with the change, (3) its demonstration fails with the change, (4) passes without.
id="$1"; d=/verif/seeded/$id; wt=/tmp/confirm_$id
export CARGO_NET_OFFLINE=true CARGO_TARGET_DIR=$wt/target
git -C /repo worktree add -q $wt HEAD || exit 2
cp /repo/Cargo.lock $wt/
demo=$(ls $d/seed_demo_*.rs | head -1); name=$(basename $demo .rs)
mkdir -p $wt/tests && cp $demo $wt/tests/
flags=""; case "$id" in C07-2|C13-2|C19-1) flags="--release";; esac
rf=""; case "$id" in C14-*) rf="--cfg kodama_verif";; esac
cd $wt
git apply $d/patch.diff || { echo "$id: patch does not apply"; exit 2; }
b=$(cargo build --offline --workspace 2>&1 | tail -1)
t=$(cargo test --offline --workspace --lib 2>&1 | grep "test result" | head -1)
RUSTFLAGS="$rf" cargo test --offline $flags --test $name >/dev/null 2>&1; with=$?
git checkout -q -- src kodama-capi kodama-bin go-kodama Cargo.toml 2>/dev/null
RUSTFLAGS="$rf" cargo test --offline $flags --test $name >/dev/null 2>&1; without=$?
echo "$id: build=[$b] suite_with_change=[$t] demo_with_change_rc=$with demo_without_change_rc=$without"
cd /; git -C /repo worktree remove --force $wt
