"""Runners for C15 and C16 (the C API crate kodama-capi).

    runner_c15(pid, tier, seed, driver, BUILD, REPO) -> report dict
    runner_c16(pid, tier, seed, driver, BUILD, REPO) -> report dict

Both build, from REPO's *current working tree*,
  * libkodama.a in the dev profile (debug assertions + overflow checks) and the release profile
    (CARGO_TARGET_DIR=<BUILD>/capi),
  * the C driver cdriver/driver.c against kodama-capi/include/kodama.h, twice per profile: plain and
    with -fsanitize=address (ASan + LeakSanitizer),
  * (C15) the reference helper capi_ref, which calls the real Rust `kodama::linkage`.

C15: generated cases (n 0..200, 7 enumerators by header name, both widths, tie-free and
tie-saturated matrices) are executed through the C API in both profiles and compared
  (i)  with the real Rust `linkage` on the same bytes           -> mismatch = `oracle` failure
  (ii) with the Lean model of the wrapper (`capi` driver op)    -> mismatch = `model` failure
An abort() inside the library is a result (`ABORT`), attributed to the op that was executing.

C16: random create / read / overwrite-and-free-input / free scripts over many live handles, 1..16
threads (plus dendrograms shared read-only between all threads), executed by the ASan build in both
profiles; every line the C driver reads back is compared with the Lean model of the handle table
(`model` failure), and any sanitizer report, leak report, crash or non-zero exit is an `oracle`
failure with the script as `ops`.  Thorough additionally runs scripts under valgrind memcheck.
"""
import hashlib
import os
import random
import re
import shutil
import struct
import subprocess
import time
from concurrent.futures import ThreadPoolExecutor

ROOT = os.path.dirname(os.path.dirname(os.path.abspath(__file__)))
CDRIVER = os.path.join(ROOT, 'cdriver', 'driver.c')
REFSRC = os.path.join(ROOT, 'capi_ref')
PROFILES = [('dev', 'debug', 1), ('release', 'release', 0)]   # name, target subdir, model chk flag
NPROC = min(16, os.cpu_count() or 4)


def sh(cmd, cwd=None, env=None, timeout=None, inp=None):
    e = dict(os.environ)
    e['CARGO_NET_OFFLINE'] = 'true'
    if env:
        e.update(env)
    try:
        p = subprocess.run(cmd, cwd=cwd, env=e, input=inp, stdout=subprocess.PIPE, stderr=subprocess.PIPE,
                           text=True, timeout=timeout)
        return p.returncode, p.stdout, p.stderr
    except subprocess.TimeoutExpired as ex:
        so = ex.stdout.decode() if isinstance(ex.stdout, bytes) else (ex.stdout or '')
        return 124, so, 'TIMEOUT'


# ---------------------------------------------------------------------------
# builds
# ---------------------------------------------------------------------------

def newer(target, deps):
    if not os.path.exists(target):
        return False
    t = os.path.getmtime(target)
    return all(os.path.exists(d) and os.path.getmtime(d) <= t for d in deps)


def build_all(BUILD, REPO, need_ref=True, need_asan=True):
    """Returns (paths, errors).  paths[(profile, 'plain'|'asan')] = driver binary; paths['ref']."""
    paths, errors = {}, []
    # one target directory per checkout: two checkouts sharing one would overwrite each other's
    # libkodama.a while cargo considers both fresh
    suffix = '' if os.path.abspath(REPO) == '/repo' else '-' + hashlib.sha1(os.path.abspath(REPO).encode()).hexdigest()[:8]
    tdir = os.path.join(BUILD, 'capi' + suffix)
    os.makedirs(tdir, exist_ok=True)
    header = os.path.join(REPO, 'kodama-capi', 'include', 'kodama.h')
    for prof, sub, _ in PROFILES:
        cmd = ['cargo', 'build', '--offline', '-p', 'kodama-capi'] + (['--release'] if prof == 'release' else [])
        rc, out, err = sh(cmd, cwd=REPO, env={'CARGO_TARGET_DIR': tdir}, timeout=1800)
        lib = os.path.join(tdir, sub, 'libkodama.a')
        if rc != 0 or not os.path.exists(lib):
            errors.append(f'cargo build -p kodama-capi ({prof}) failed: ' + (err or out)[-1200:])
            continue
        for kind in (['plain', 'asan'] if need_asan else ['plain']):
            exe = os.path.join(tdir, f'cdriver-{prof}-{kind}')
            if not newer(exe, [lib, CDRIVER, header]):
                cc = ['clang', '-std=gnu11', '-O1', '-g', '-Wall', '-I', os.path.dirname(header), CDRIVER, lib, '-o', exe]
                if kind == 'asan':
                    cc[1:1] = ['-fsanitize=address', '-fno-omit-frame-pointer']
                cc += ['-lpthread', '-ldl', '-lm']
                rc, out, err = sh(cc, timeout=600)
                if rc != 0:
                    errors.append(f'clang ({prof}, {kind}) failed: ' + (err or out)[-1200:])
                    continue
            paths[(prof, kind)] = exe
    if need_ref:
        src = os.path.join(BUILD, 'capi_ref_src' + suffix)
        os.makedirs(os.path.join(src, 'src'), exist_ok=True)
        toml = open(os.path.join(REFSRC, 'Cargo.toml.in')).read().replace('@REPO@', os.path.abspath(REPO))
        for rel, text in (('Cargo.toml', toml), ('src/main.rs', open(os.path.join(REFSRC, 'src', 'main.rs')).read())):
            p = os.path.join(src, rel)
            if not os.path.exists(p) or open(p).read() != text:
                with open(p, 'w') as f:
                    f.write(text)
        rdir = os.path.join(BUILD, 'capi_ref' + suffix)
        rc, out, err = sh(['cargo', 'build', '--offline'], cwd=src, env={'CARGO_TARGET_DIR': rdir}, timeout=1800)
        exe = os.path.join(rdir, 'debug', 'kodama-capi-ref')
        if rc != 0 or not os.path.exists(exe):
            errors.append('cargo build of the Rust reference helper failed: ' + (err or out)[-1200:])
        else:
            paths['ref'] = exe
    return paths, errors


def header_enumerators(REPO):
    h = open(os.path.join(REPO, 'kodama-capi', 'include', 'kodama.h')).read()
    h = re.sub(r'/\*.*?\*/', '', h, flags=re.S)
    m = re.search(r'typedef\s+enum\s+kodama_method\s*\{([^}]*)\}', h)
    return [x.strip() for x in m.group(1).split(',') if x.strip()] if m else []


# ---------------------------------------------------------------------------
# matrices
# ---------------------------------------------------------------------------

def f64bits(x):
    return struct.unpack('<Q', struct.pack('<d', x))[0]


def f32bits(x):
    return struct.unpack('<I', struct.pack('<f', x))[0]


CLASSES = ['distinct', 'uniform', 'lattice', 'equal', 'two']
TIED = {'lattice', 'equal', 'two'}


def matrix(rng, cls, n, width):
    m = n * (n - 1) // 2 if n else 0
    if cls == 'distinct':          # tie-free, exactly representable in both widths
        vals = list(range(1, m + 1))
        rng.shuffle(vals)
        vals = [v * 0.25 for v in vals]
    elif cls == 'uniform':
        vals = [rng.random() * 10 + 0.001 for _ in range(m)]
    elif cls == 'lattice':         # tie saturated
        k = rng.choice([2, 3, 5])
        vals = [float(rng.randint(1, k)) for _ in range(m)]
    elif cls == 'equal':
        v = rng.choice([1.0, 0.5, 3.0])
        vals = [v] * m
    else:
        a, b = rng.choice([(1.0, 2.0), (0.5, 0.75), (2.0, 7.0)])
        vals = [rng.choice((a, b)) for _ in range(m)]
    if width == 'double':
        return [f64bits(v) for v in vals]
    return [f32bits(v) for v in vals]


def nbucket(n):
    if n <= 1:
        return f'n={n}'
    if n <= 3:
        return 'n=2..3'
    if n <= 12:
        return 'n=4..12'
    if n <= 40:
        return 'n=13..40'
    if n <= 100:
        return 'n=41..100'
    return 'n=101..200'


# ---------------------------------------------------------------------------
# running the C driver
# ---------------------------------------------------------------------------

ASAN_ENV = {'ASAN_OPTIONS': 'detect_leaks=1:exitcode=77:allocator_may_return_null=0:detect_stack_use_after_return=0',
            'LSAN_OPTIONS': 'exitcode=78'}


def run_cdriver(exe, script, asan=False, wrap=None, timeout=600):
    cmd = (wrap or []) + [exe]
    rc, out, err = sh(cmd, inp=script, env=ASAN_ENV if asan else None, timeout=timeout)
    return rc, out, err


def parse_sections(out):
    """{section name: [lines]}, abort line or None."""
    secs, cur, abort = {}, None, None
    for l in out.split('\n'):
        if l.startswith('== '):
            cur = l[3:]
            secs.setdefault(cur, [])
        elif l.startswith('ABORT '):
            abort = l
        elif cur is not None and l != '':
            secs[cur].append(l)
        elif cur is not None and l == '' and False:
            pass
    return secs, abort


def diag(rc, err):
    """Classify a non-clean exit of the C driver."""
    if 'ERROR: LeakSanitizer' in err:
        m = re.search(r'SUMMARY: AddressSanitizer: (\d+) byte\(s\) leaked in (\d+) allocation', err)
        return 'LeakSanitizer: ' + (f'{m.group(1)} bytes leaked in {m.group(2)} allocations' if m else 'leak report')
    if 'AddressSanitizer' in err:
        m = re.search(r'ERROR: AddressSanitizer: ([\w-]+)', err)
        return 'AddressSanitizer: ' + (m.group(1) if m else 'report')
    if rc == 134 or rc == -6:
        return 'abort() inside the library (panic caught by ffi_fn!)'
    if rc == 124:
        return 'timeout'
    if rc < 0:
        return f'killed by signal {-rc}'
    if rc != 0:
        return f'exit status {rc}'
    return ''


LEAK_RC = 78     # LSAN_OPTIONS=exitcode=78: leaks found at exit, the run itself completed


def run_cases(exe, cases, asan=False, leaks=None):
    """cases: list of (id, [script lines]).  One process per chunk; an abort is attributed to the
    case that was executing and the rest of the chunk is re-run.  Returns {id: [lines] or
    ['ABORT ..'] / ['CRASH ..']}."""
    res = {}

    def run_chunk(chunk):
        local = {}
        todo = list(chunk)
        while todo:
            script = ''.join(f'case {cid}\n' + ''.join(l + '\n' for l in lines) for cid, lines in todo)
            rc, out, err = run_cdriver(exe, script, asan=asan)
            secs, abort = parse_sections(out)
            lines = secs.get('pre', [])
            cur = None
            seen = []
            for l in lines:
                if l.startswith('case '):
                    cur = int(l[5:])
                    seen.append(cur)
                    local[cur] = []
                elif cur is not None:
                    local[cur].append(l)
            if rc == 0:
                return local
            if rc == LEAK_RC and 'ERROR: LeakSanitizer' in err and not abort:
                if leaks is not None:
                    leaks.append(diag(rc, err) + ' :: first case of the chunk: ' + ' / '.join(todo[0][1])[:200])
                return local
            if rc == 134 and abort and seen:
                local[seen[-1]].append('ABORT')
                k = [c for c, _ in todo].index(seen[-1])
                todo = todo[k + 1:]
                continue
            # a crash / sanitizer report that lost the output: isolate by running one case at a time
            if len(todo) == 1:
                local[todo[0][0]] = ['CRASH ' + diag(rc, err) + ' :: ' + err.strip()[-600:]]
                return local
            for c in todo:
                local.update(run_chunk([c]))
            return local
        return local

    nchunks = max(1, min(NPROC, len(cases) // 4 or 1))
    # balance by script size
    order = sorted(cases, key=lambda c: -sum(len(l) for l in c[1]))
    chunks = [[] for _ in range(nchunks)]
    for i, c in enumerate(order):
        chunks[i % nchunks].append(c)
    with ThreadPoolExecutor(max_workers=NPROC) as ex:
        # deterministic shuffle inside a process: calls with n in {0,1} must also come AFTER larger
        # calls on the same thread (a wrapper that caches per-thread state would only show then)
        for loc in ex.map(run_chunk, [sorted(ch, key=lambda c: hashlib.sha1(str(c[0]).encode()).hexdigest()) for ch in chunks if ch]):
            res.update(loc)
    return res


def run_lean(driver, lines, nsplit=NPROC):
    """Feed request lines to the Lean driver (split into independent processes at `capi reset`
    boundaries is the caller's business: here chunks are given as lists of lines)."""
    rc, out, err = sh([driver], inp=''.join(l + '\n' for l in lines), timeout=3000)
    return out.split('\n')[:-1] if out.endswith('\n') else out.split('\n')


# ---------------------------------------------------------------------------
# C15
# ---------------------------------------------------------------------------

def gen_c15_cases(tier, seed, enums):
    rng = random.Random(seed * 1000003 + 15)
    cases = []
    small = 12 if tier == 'quick' else 40
    reps = 1 if tier == 'quick' else 2
    for n in range(0, small + 1):
        for mi in range(len(enums)):
            for w in ('double', 'float'):
                for r in range(reps):
                    cls = CLASSES[(n + mi + (w == 'float') + 2 * r + seed) % len(CLASSES)] if r == 0 else rng.choice(CLASSES)
                    cases.append((n, mi, w, cls))
    nrand = 300 if tier == 'quick' else 2500
    for i in range(nrand):
        if i % 10 == 0:
            n = rng.choice([199, 200, 128, 129])
        elif i % 3 == 0:
            n = rng.randint(small + 1, 200)
        else:
            n = rng.randint(small + 1, 80)
        cases.append((n, rng.randrange(len(enums)), rng.choice(('double', 'float')), rng.choice(CLASSES)))
    out = []
    for i, (n, mi, w, cls) in enumerate(cases):
        bits = matrix(rng, cls, n, w)
        out.append({'id': i, 'n': n, 'mi': mi, 'w': w, 'cls': cls, 'bits': bits})
    return out


def c15_script(c, enums):
    b = ' '.join(map(str, c['bits']))
    create = f"create 0 {c['w']} {enums[c['mi']]} {c['n']}" + (' ' + b if b else '')
    return [create, 'steps 0', 'len 0', 'obs 0', 'free 0']


def c15_lean_lines(c, chk):
    b = ' '.join(map(str, c['bits']))
    return [f"capi {chk} 0 create 0 {c['w']} {c['mi']} {c['n']}" + (' ' + b if b else ''),
            f'capi {chk} 0 steps 0', f'capi {chk} 0 len 0', f'capi {chk} 0 obs 0', f'capi {chk} 0 free 0']


def short(lines, k=300):
    return [l if len(l) <= k else l[:k] + f'…(+{len(l) - k} chars)' for l in lines]


def runner_c15(pid, tier, seed, driver, BUILD, REPO):
    t0 = time.time()
    rep = {'evaluations': 0, 'distinct_nontrivial': 0, 'compared_with_model': 0, 'oracle_checked': 0,
           'rule': 'distinct = distinct create line (width, enumerator, n, bit patterns); non-trivial = n >= 3; every case is executed through the C API in the dev and the release profile',
           'samples': [], 'distribution': {}, 'failures': [], 'notes': [], 'extra': {}, 'checked_build': True}
    paths, errors = build_all(BUILD, REPO, need_ref=True, need_asan=True)
    rep['extra']['capi_build_s'] = round(time.time() - t0, 1)
    enums = header_enumerators(REPO)
    if errors or len(enums) == 0:
        rep['notes'] += errors
        rep['extra']['infra_errors'] = errors
        rep['failures'].append({'kind': 'model', 'what': 'C API build failed (library, C driver or reference helper does not build from the working tree): ' + '; '.join(e[:300] for e in errors),
                                'ops': [], 'impl': [], 'model': []})
        if ('dev', 'plain') not in paths and ('release', 'plain') not in paths:
            return rep
    cases = gen_c15_cases(tier, seed, enums)
    scripts = {c['id']: c15_script(c, enums) for c in cases}
    dist = {'n': {}, 'method': {}, 'width': {}, 'class': {}, 'ties': {'tied': 0, 'tie-free': 0}, 'profile': {}, 'sanitizer': {}}
    seen = set()
    for c in cases:
        for k, v in (('n', nbucket(c['n'])), ('method', enums[c['mi']]), ('width', c['w']), ('class', c['cls'])):
            dist[k][v] = dist[k].get(v, 0) + 1
        dist['ties']['tied' if c['cls'] in TIED and c['n'] >= 3 else 'tie-free'] += 1
        hsh = hashlib.sha1(scripts[c['id']][0].encode()).hexdigest()
        if c['n'] >= 3 and hsh not in seen:
            seen.add(hsh)
    rep['distinct_nontrivial'] = len(seen)
    rep['samples'] = [scripts[i][0] for i in (0, len(cases) // 3, len(cases) // 2) if i < len(cases)]

    # reference: the real Rust linkage
    ref = {}
    if 'ref' in paths:
        rc, out, err = sh([paths['ref']], inp=''.join(f"case {c['id']}\n{scripts[c['id']][0]}\n" for c in cases), timeout=3000)
        cur = None
        for l in out.split('\n'):
            if l.startswith('case '):
                cur = int(l[5:])
            elif cur is not None and l:
                ref[cur] = l
        if rc != 0:
            rep['notes'].append(f'reference helper exited with {rc}: {err[-300:]}')
    # model
    model = {}
    if driver:
        def lean_chunk(args):
            chk, chunk = args
            lines = []
            for c in chunk:
                lines += c15_lean_lines(c, chk)
            out = run_lean(driver, lines)
            r = {}
            for i, c in enumerate(chunk):
                r[(chk, c['id'])] = out[5 * i:5 * i + 5]
            return r
        jobs = []
        order = sorted(cases, key=lambda c: -c['n'])
        for _, _, chk in PROFILES:
            nch = NPROC // 2 or 1
            for k in range(nch):
                ch = order[k::nch]
                if ch:
                    jobs.append((chk, ch))
        with ThreadPoolExecutor(max_workers=NPROC) as ex:
            for r in ex.map(lean_chunk, jobs):
                model.update(r)
    else:
        rep['notes'].append('Lean driver not available: comparison with the model skipped')

    by_id = {c['id']: c for c in cases}
    # the plain build runs everything; the ASan build the small cases (all n <= 12) plus a sample
    asan_ids = [c['id'] for c in cases if c['n'] <= 12 or c['id'] % (7 if tier == 'quick' else 3) == 0]
    for prof, sub, chk in PROFILES:
        for kind in ('plain', 'asan'):
            exe = paths.get((prof, kind))
            if not exe:
                continue
            ids = [c['id'] for c in cases] if kind == 'plain' else asan_ids
            leaks = []
            res = run_cases(exe, [(i, scripts[i]) for i in ids], asan=(kind == 'asan'), leaks=leaks)
            if leaks:
                rep['notes'].append(f'LeakSanitizer reported leaks during the C15 session (profile={prof}): {leaks[0][:300]} -- not a C15 failure (returned values are compared regardless); it is what C16 checks')
            dist['profile'][prof] = dist['profile'].get(prof, 0) + len(ids)
            dist['sanitizer'][kind] = dist['sanitizer'].get(kind, 0) + len(ids)
            for i in ids:
                c = by_id[i]
                got = res.get(i, ['CRASH no output'])
                rep['evaluations'] += 1
                tag = f"n={c['n']} profile={prof} build={kind} width={c['w']} method={enums[c['mi']]} class={c['cls']}"
                ops = list(scripts[i])    # complete: this is the replay
                # (i) oracle: the real Rust linkage, and the shape the property states
                if i in ref:
                    rep['oracle_checked'] += 1
                    r = ref[i]
                    if r == 'panic':
                        want = None
                    else:
                        m = re.match(r'steps len=(\d+) obs=(\d+)', r)
                        want = ['created', r, f'len {m.group(1)}', f"obs {c['n']}", 'freed']
                    if want is not None and got != want:
                        if got and got[-1] == 'ABORT':
                            what = f'kodama_linkage_{c["w"]} aborted where Rust linkage returns a dendrogram ({tag})'
                        elif got and got[0].startswith('CRASH'):
                            what = f'C driver crashed / sanitizer report: {got[0][:200]} ({tag})'
                        else:
                            bad = [k for k in range(min(len(got), len(want))) if got[k] != want[k]]
                            field = ['create', 'steps', 'len', 'obs', 'free'][bad[0]] if bad else 'number of lines'
                            if field == 'steps' and got[1].split(' ')[3:] == want[1].split(' ')[3:]:
                                field = 'observations' if got[1].split(' ')[1] == want[1].split(' ')[1] else 'len'
                            what = f'C API result differs from Rust linkage in `{field}` ({tag})'
                        rep['failures'].append({'kind': 'oracle', 'what': what, 'ops': ops, 'impl': short(got), 'model': short(want)})
                    elif want is None and not (got and got[-1] == 'ABORT'):
                        rep['failures'].append({'kind': 'oracle', 'what': f'Rust linkage panics but the C API returned ({tag})', 'ops': ops, 'impl': short(got), 'model': ['panic']})
                # (ii) model of the wrapper
                mo = model.get((chk, i))
                if mo is not None:
                    rep['compared_with_model'] += 1
                    mo_n = ['ABORT' if l.startswith('abort') else l for l in mo]
                    if mo_n and mo_n[0] == 'ABORT':
                        mo_n = ['ABORT']
                    if got != mo_n:
                        rep['failures'].append({'kind': 'model', 'what': f'C API output differs from the Lean model of the wrapper ({tag})', 'ops': ops, 'impl': short(got), 'model': short(mo)})
    if tier == 'thorough' and ('dev', 'plain') in paths:
        vg = valgrind_batch(paths, [(c['id'], scripts[c['id']]) for c in cases if c['n'] <= 30][:120])
        rep['extra']['valgrind'] = vg['summary']
        rep['failures'] += vg['failures']
    # order failures: smallest n first (the most readable replay)
    rep['failures'].sort(key=lambda f: (f['kind'] != 'oracle', len(' '.join(f['ops']))))
    rep['failures'] = rep['failures'][:50]
    rep['distribution'] = dist
    rep['extra']['c15_session_s'] = round(time.time() - t0, 1)
    rep['notes'].append('C15: every case = create + steps + len + obs + free through the C API; compared with the real Rust linkage (oracle) and the Lean model of the wrapper; dev = overflow checks on, release = off')
    return rep


def valgrind_batch(paths, cases):
    fails = []
    ran = 0
    for prof in ('dev', 'release'):
        exe = paths.get((prof, 'plain'))
        if not exe or not shutil.which('valgrind'):
            continue
        script = ''.join(f'case {cid}\n' + ''.join(l + '\n' for l in lines) for cid, lines in cases)
        rc, out, err = run_cdriver(exe, script, wrap=['valgrind', '-q', '--leak-check=full', '--error-exitcode=99'], timeout=3000)
        ran += len(cases)
        if rc != 0:
            fails.append({'kind': 'oracle', 'what': f'valgrind memcheck reports errors / leaks (profile={prof}, rc={rc}): ' + err.strip()[-500:],
                          'ops': short([l for _, ls in cases[:20] for l in ls], 400), 'impl': err.strip().split('\n')[-25:], 'model': []})
    return {'summary': f'{ran} case executions under valgrind --leak-check=full', 'failures': fails}


# ---------------------------------------------------------------------------
# C16
# ---------------------------------------------------------------------------

MAIN_TID = 16        # handles of the main thread (shared, read-only for the worker threads)
HSTRIDE = 256


def gid(tid, k):
    return tid * HSTRIDE + k


def gen_c16_script(rng, enums, idx, tier):
    """A script: pre (main creates shared dendrograms), k thread sections, post (main frees).
    Every op is (section, text for the C driver, (tid, op, k, create-args))."""
    nthreads = rng.choice([1, 1, 2, 3, 4, 8, 16]) if idx % 5 else 16
    max_live_total = 40
    per_thread_live = max(2, max_live_total // nthreads)
    nops = rng.randint(20, 60) if nthreads > 4 else rng.randint(40, 140)
    nmax = 100 if idx % 4 == 0 else 30

    def mk_create(tid, k):
        r = rng.random()
        n = rng.choice([0, 1, 2, 3]) if r < 0.25 else (rng.randint(4, 16) if r < 0.8 else rng.randint(17, nmax))
        w = rng.choice(('double', 'float'))
        mi = rng.randrange(len(enums))
        cls = rng.choice(CLASSES)
        bits = matrix(rng, cls, n, w)
        return {'tid': tid, 'k': k, 'op': 'create', 'w': w, 'mi': mi, 'n': n, 'bits': bits}

    pre, post, threads = [], [], []
    nshared = rng.randint(0, 4)
    for k in range(nshared):
        pre.append(mk_create(MAIN_TID, k))
        if rng.random() < 0.5:
            pre.append({'tid': MAIN_TID, 'k': k, 'op': 'clobber'})
    for t in range(nthreads):
        ops, live, has_input, nextk = [], [], set(), 0
        for _ in range(nops):
            r = rng.random()
            if (r < 0.3 and len(live) < per_thread_live) or not live:
                # a fresh name, or a name freed earlier (reuse)
                if nextk > 0 and rng.random() < 0.3:
                    cand = [k for k in range(nextk) if k not in live]
                    k = rng.choice(cand) if cand else nextk
                else:
                    k = nextk
                if k == nextk:
                    nextk += 1
                if nextk >= HSTRIDE:
                    break
                ops.append(mk_create(t, k))
                live.append(k)
                has_input.add(k)
            elif r < 0.75:
                # read: own handle, or a shared one
                if nshared and rng.random() < 0.3:
                    ops.append({'tid': MAIN_TID, 'k': rng.randrange(nshared), 'op': rng.choice(['len', 'obs', 'steps', 'steps'])})
                else:
                    ops.append({'tid': t, 'k': rng.choice(live), 'op': rng.choice(['len', 'obs', 'steps', 'steps'])})
            elif r < 0.87:
                cand = [k for k in live if k in has_input]
                if cand:
                    k = rng.choice(cand)
                    has_input.discard(k)
                    ops.append({'tid': t, 'k': k, 'op': 'clobber'})
                    ops.append({'tid': t, 'k': k, 'op': 'steps'})
            else:
                k = rng.choice(live)
                live.remove(k)
                ops.append({'tid': t, 'k': k, 'op': 'free'})
        # leave nothing behind: read once more, then free, in random order
        rng.shuffle(live)
        for k in live:
            ops.append({'tid': t, 'k': k, 'op': 'steps'})
            ops.append({'tid': t, 'k': k, 'op': 'free'})
        threads.append(ops)
    for k in range(nshared):
        post.append({'tid': MAIN_TID, 'k': k, 'op': 'steps'})
        post.append({'tid': MAIN_TID, 'k': k, 'op': 'free'})
    return {'nthreads': nthreads, 'pre': pre, 'threads': threads, 'post': post}


def c_line(o, enums):
    h = gid(o['tid'], o['k'])
    if o['op'] == 'create':
        b = ' '.join(map(str, o['bits']))
        return f"create {h} {o['w']} {enums[o['mi']]} {o['n']}" + (' ' + b if b else '')
    return f"{o['op']} {h}"


def lean_line(o, chk):
    if o['op'] == 'create':
        b = ' '.join(map(str, o['bits']))
        return f"capi {chk} {o['tid']} create {o['k']} {o['w']} {o['mi']} {o['n']}" + (' ' + b if b else '')
    return f"capi {chk} {o['tid']} {o['op']} {o['k']}"


def c16_ctext(s, enums):
    out = [f"threads {s['nthreads']}", 'begin pre'] + [c_line(o, enums) for o in s['pre']] + ['end']
    for t, ops in enumerate(s['threads']):
        out += [f'begin thread {t}'] + [c_line(o, enums) for o in ops] + ['end']
    out += ['begin post'] + [c_line(o, enums) for o in s['post']] + ['end']
    return out


def c16_model(driver, s, chk, rng):
    """Run the model on one (random) interleaving of the thread sections; returns the expected
    output lines per section.  By C16_interleave the choice of interleaving is immaterial; a
    second, different interleaving is run as a consistency check of exactly that."""
    def interleave(r):
        idx = [0] * len(s['threads'])
        order = []
        remaining = [t for t in range(len(s['threads'])) if s['threads'][t]]
        while remaining:
            t = r.choice(remaining)
            order.append((t, idx[t]))
            idx[t] += 1
            if idx[t] == len(s['threads'][t]):
                remaining.remove(t)
        return order
    results = []
    for variant in range(2):
        order = interleave(random.Random(rng.random()))
        lines = ['capi reset'] + [lean_line(o, chk) for o in s['pre']]
        lines += [lean_line(s['threads'][t][i], chk) for t, i in order]
        lines += [lean_line(o, chk) for o in s['post']]
        out = run_lean(driver, lines)
        out = out[1:]
        exp = {'pre': out[:len(s['pre'])]}
        body = out[len(s['pre']):len(s['pre']) + len(order)]
        per = {t: [None] * len(s['threads'][t]) for t in range(len(s['threads']))}
        for (t, i), l in zip(order, body):
            per[t][i] = l
        for t in per:
            exp[f'thread {t}'] = per[t]
        exp['post'] = out[len(s['pre']) + len(order):len(s['pre']) + len(order) + len(s['post'])]
        results.append(exp)
    return results


def c16_fails(exe, s, enums, asan):
    rc, out, err = run_cdriver(exe, ''.join(l + '\n' for l in c16_ctext(s, enums)), asan=asan, timeout=120)
    return rc != 0 or 'Sanitizer' in err


def c16_shrink(exe, s, enums, asan, budget=150):
    """Greedy reduction of a failing script: drop whole threads, then all ops of one handle at a
    time, while the failure (non-zero exit / sanitizer report) persists."""
    cur = {'nthreads': s['nthreads'], 'pre': list(s['pre']), 'threads': [list(t) for t in s['threads']], 'post': list(s['post'])}
    runs = 0
    for t in range(len(cur['threads'])):
        if not cur['threads'][t] or runs >= budget:
            continue
        cand = dict(cur, threads=[([] if i == t else ops) for i, ops in enumerate(cur['threads'])])
        runs += 1
        if c16_fails(exe, cand, enums, asan):
            cur = cand
    handles = []
    for o in cur['pre'] + [o for ops in cur['threads'] for o in ops]:
        if o['op'] == 'create' and (o['tid'], o['k']) not in handles:
            handles.append((o['tid'], o['k']))
    for h in handles:
        if runs >= budget:
            break
        keep = lambda ops: [o for o in ops if (o['tid'], o['k']) != h]
        cand = {'nthreads': cur['nthreads'], 'pre': keep(cur['pre']), 'threads': [keep(t) for t in cur['threads']], 'post': keep(cur['post'])}
        runs += 1
        if c16_fails(exe, cand, enums, asan):
            cur = cand
    # drop trailing empty threads
    while cur['threads'] and not cur['threads'][-1] and len(cur['threads']) > 1:
        cur['threads'].pop()
    cur['nthreads'] = len(cur['threads'])
    return cur


def runner_c16(pid, tier, seed, driver, BUILD, REPO):
    t0 = time.time()
    rep = {'evaluations': 0, 'distinct_nontrivial': 0, 'compared_with_model': 0, 'oracle_checked': 0,
           'rule': 'one evaluation = one op script executed by the ASan+LSan build of the C driver in one profile; distinct = distinct script text; non-trivial = at least 2 creates',
           'samples': [], 'distribution': {}, 'failures': [], 'notes': [], 'extra': {}, 'checked_build': True}
    paths, errors = build_all(BUILD, REPO, need_ref=False, need_asan=True)
    rep['extra']['capi_build_s'] = round(time.time() - t0, 1)
    enums = header_enumerators(REPO)
    if errors or not enums:
        rep['notes'] += errors
        rep['extra']['infra_errors'] = errors
        rep['failures'].append({'kind': 'model', 'what': 'C API build failed (library or C driver does not build from the working tree): ' + '; '.join(e[:300] for e in errors),
                                'ops': [], 'impl': [], 'model': []})
        if not any(k in paths for k in [('dev', 'asan'), ('release', 'asan')]):
            return rep
    rng = random.Random(seed * 1000003 + 16)
    nscripts = 128 if tier == 'quick' else 1200
    scripts = [gen_c16_script(rng, enums, i, tier) for i in range(nscripts)]
    dist = {'threads': {}, 'ops_per_script': {}, 'op': {}, 'n': {}, 'width': {}, 'max_live_handles': {}, 'profile': {}}
    total_ops = 0
    for s in scripts:
        dist['threads'][str(s['nthreads'])] = dist['threads'].get(str(s['nthreads']), 0) + 1
        allops = s['pre'] + [o for ops in s['threads'] for o in ops] + s['post']
        total_ops += len(allops)
        b = f'{(len(allops) // 100) * 100}+'
        dist['ops_per_script'][b] = dist['ops_per_script'].get(b, 0) + 1
        live = 0
        peak = 0
        for o in allops:   # upper bound of simultaneously live handles (sum of per-thread peaks)
            pass
        peaks = 0
        for ops in [s['pre']] + s['threads']:
            live = peak = 0
            for o in ops:
                if o['op'] == 'create':
                    live += 1
                    peak = max(peak, live)
                elif o['op'] == 'free':
                    live -= 1
            peaks += peak
        pb = f'{(peaks // 10) * 10}..{(peaks // 10) * 10 + 9}'
        dist['max_live_handles'][pb] = dist['max_live_handles'].get(pb, 0) + 1
        for o in allops:
            dist['op'][o['op']] = dist['op'].get(o['op'], 0) + 1
            if o['op'] == 'create':
                dist['n'][nbucket(o['n'])] = dist['n'].get(nbucket(o['n']), 0) + 1
                dist['width'][o['w']] = dist['width'].get(o['w'], 0) + 1
    rep['extra']['total_ops'] = total_ops
    ctexts = [c16_ctext(s, enums) for s in scripts]
    rep['distinct_nontrivial'] = len({hashlib.sha1('\n'.join(t).encode()).hexdigest() for t, s in zip(ctexts, scripts)
                                      if sum(1 for ops in [s['pre']] + s['threads'] for o in ops if o['op'] == 'create') >= 2})
    rep['samples'] = [' | '.join(l if len(l) < 60 else l[:60] + '…' for l in ctexts[i][:12]) for i in (0, 1, 2) if i < len(ctexts)]

    # model expectations (per profile flag; identical on valid scripts, computed for both anyway)
    expect = {}
    if driver:
        def job(args):
            i, chk = args
            return (i, chk), c16_model(driver, scripts[i], chk, random.Random(seed * 7919 + i * 2 + chk))
        with ThreadPoolExecutor(max_workers=NPROC) as ex:
            for k, v in ex.map(job, [(i, chk) for i in range(nscripts) for _, _, chk in PROFILES]):
                expect[k] = v
        for (i, chk), (a, b) in expect.items():
            if a != b:
                rep['failures'].append({'kind': 'model', 'what': f'driver error: the Lean model gives different per-thread outputs for two interleavings of script {i} (contradicts C16_interleave: machinery bug)',
                                        'ops': short(ctexts[i], 300), 'impl': [], 'model': []})
    else:
        rep['notes'].append('Lean driver not available: comparison with the model skipped')

    def exec_script(args):
        i, prof, kind = args
        exe = paths.get((prof, kind))
        if not exe:
            return None
        rc, out, err = run_cdriver(exe, ''.join(l + '\n' for l in ctexts[i]), asan=(kind == 'asan'))
        return i, prof, kind, rc, out, err

    jobs = [(i, prof, 'asan') for i in range(nscripts) for prof, _, _ in PROFILES]
    # the plain build as well (different allocator behaviour: the system malloc reuses memory eagerly)
    jobs += [(i, prof, 'plain') for i in range(nscripts) for prof, _, _ in PROFILES]
    chkof = {p: c for p, _, c in PROFILES}
    with ThreadPoolExecutor(max_workers=NPROC) as ex:
        for r in ex.map(exec_script, jobs):
            if r is None:
                continue
            i, prof, kind, rc, out, err = r
            rep['evaluations'] += 1
            dist['profile'][f'{prof}/{kind}'] = dist['profile'].get(f'{prof}/{kind}', 0) + 1
            tag = f'script={i} threads={scripts[i]["nthreads"]} profile={prof} build={kind}'
            secs, abort = parse_sections(out)
            rep['oracle_checked'] += 1
            if rc != 0 or 'Sanitizer' in err:
                last = f' last op: {abort}' if abort else ''
                rep['failures'].append({'kind': 'oracle', 'what': f'{diag(rc, err) or "sanitizer output"} ({tag}){last}',
                                        'ops': list(ctexts[i]), 'impl': err.strip().split('\n')[:40], 'model': [],
                                        '_shrink': (i, prof, kind)})
                continue
            exp = expect.get((i, chkof[prof]))
            if exp is not None:
                rep['compared_with_model'] += 1
                e = exp[0]
                for name in ['pre'] + [f'thread {t}' for t in range(scripts[i]['nthreads'])] + ['post']:
                    g = secs.get(name, [])
                    w = e.get(name, [])
                    if g != w:
                        k = next((j for j in range(min(len(g), len(w))) if g[j] != w[j]), min(len(g), len(w)))
                        sect = {'pre': scripts[i]['pre'], 'post': scripts[i]['post']}.get(name)
                        if sect is None:
                            sect = scripts[i]['threads'][int(name.split()[1])]
                        opname = c_line(sect[k], enums)[:80] if k < len(sect) else '(missing line)'
                        rep['failures'].append({'kind': 'model', 'what': f'what the C driver read differs from the handle-table model in section `{name}` at op {k} `{opname}` ({tag})',
                                                'ops': list(ctexts[i]), 'impl': short(g[k:k + 1]), 'model': short(w[k:k + 1])})
                        break
    if tier == 'thorough':
        fails, ran = [], 0
        for prof in ('dev', 'release'):
            exe = paths.get((prof, 'plain'))
            if not exe or not shutil.which('valgrind'):
                continue

            def vg(i):
                return i, run_cdriver(exe, ''.join(l + '\n' for l in ctexts[i]), wrap=['valgrind', '-q', '--leak-check=full', '--error-exitcode=99'], timeout=3000)
            with ThreadPoolExecutor(max_workers=NPROC) as ex:
                for i, (rc, out, err) in ex.map(vg, range(0, nscripts, 10)):
                    ran += 1
                    if rc != 0:
                        fails.append({'kind': 'oracle', 'what': f'valgrind memcheck reports errors / leaks (script={i} profile={prof}, rc={rc})',
                                      'ops': short(ctexts[i], 400), 'impl': err.strip().split('\n')[-25:], 'model': []})
        rep['extra']['valgrind'] = f'{ran} scripts under valgrind --leak-check=full --error-exitcode=99'
        rep['failures'] += fails
    rep['failures'].sort(key=lambda f: (f['kind'] != 'oracle', len(f['ops'])))
    rep['failures'] = rep['failures'][:50]
    for f in rep['failures'][:1]:
        if f.get('_shrink'):
            i, prof, kind = f['_shrink']
            small = c16_shrink(paths[(prof, kind)], scripts[i], enums, kind == 'asan')
            txt = c16_ctext(small, enums)
            rc, out, err = run_cdriver(paths[(prof, kind)], ''.join(l + '\n' for l in txt), asan=(kind == 'asan'))
            if rc != 0 or 'Sanitizer' in err:
                f['what'] += f' [script reduced from {len(ctexts[i])} to {len(txt)} lines; the failure persists: {diag(rc, err)}]'
                f['ops'] = list(txt)
                f['impl'] = err.strip().split('\n')[:40]
    for f in rep['failures']:
        f.pop('_shrink', None)
    rep['distribution'] = dist
    rep['extra']['c16_session_s'] = round(time.time() - t0, 1)
    rep['notes'].append('C16: memory validity (no invalid access, no leak) is OBSERVED by AddressSanitizer+LeakSanitizer on the C driver linked with libkodama.a (Rust code itself is not instrumented: its heap traffic goes through the intercepted malloc/free; reads are made by the instrumented driver), not proved')
    return rep


# ---------------------------------------------------------------------------
# replay
# ---------------------------------------------------------------------------

def c_to_lean(lines, enums, chk):
    """C driver script -> requests for the Lean driver (sections in order: pre, threads, post;
    by C16_interleave the order between threads does not matter).  Returns (lean lines, labels)."""
    secs = {'pre': [], 'post': []}
    order = ['pre']
    cur = 'pre'
    for l in lines:
        w = l.split(' ')
        if w[0] == 'threads':
            continue
        if w[0] == 'begin':
            cur = ' '.join(w[1:])
            if cur not in secs:
                secs[cur] = []
                order.append(cur)
            continue
        if w[0] == 'end':
            cur = 'pre'
            continue
        secs[cur].append(l)
    order = ['pre'] + [o for o in order if o.startswith('thread')] + ['post']
    out, labels = ['capi reset'], [('', 'reset')]
    for name in order:
        for l in secs[name]:
            w = l.split(' ')
            if w[0] == 'case':
                continue
            g = int(w[1])
            tid, k = g // HSTRIDE, g % HSTRIDE
            if w[0] == 'create':
                mi = enums.index(w[3]) if w[3] in enums else 99
                out.append(f'capi {chk} {tid} create {k} {w[2]} {mi} ' + ' '.join(w[4:]))
            else:
                out.append(f'capi {chk} {tid} {w[0]} {k}')
            labels.append((name, l if len(l) < 70 else l[:70] + '…'))
    return out, labels


def replay(pid, path, driver, BUILD=None, REPO=None):
    """Re-run the ops of a replay file on the implementation (both profiles, plain and ASan
    builds), on the Lean model and (C15) on the real Rust linkage; print the three results.
    Exit status 1 when the recorded failure reproduces."""
    import json
    BUILD = BUILD or os.path.join(ROOT, 'build')
    REPO = REPO or os.environ.get('VERIF_REPO', '/repo')
    r = json.load(open(path))
    ops = r.get('ops', [])
    if not ops:
        print('replay file contains no ops (a broken theorem / translation without failing input):')
        print(json.dumps(r.get('theorems_or_translations_that_no_longer_check', r), indent=1)[:3000])
        return 1
    paths, errors = build_all(BUILD, REPO, need_ref=(pid == 'C15'))
    for e in errors:
        print('BUILD ERROR', e[:500])
    enums = header_enumerators(REPO)
    bad = False
    print(f'# {pid} replay of {path}: {r.get("what", "")[:300]}')
    script = ''.join(l + '\n' for l in ops)
    results = {}
    for prof, _, chk in PROFILES:
        for kind in ('plain', 'asan'):
            exe = paths.get((prof, kind))
            if not exe:
                continue
            rc, out, err = run_cdriver(exe, script, asan=(kind == 'asan'))
            verdict = diag(rc, err) or 'clean exit'
            results[(prof, kind)] = out
            print(f'## implementation, profile={prof} build={kind}: {verdict}')
            for l in out.strip().split('\n'):
                print('   ', l if len(l) < 300 else l[:300] + '…')
            if rc != 0 or 'Sanitizer' in err:
                bad = True
                print('    stderr:', *err.strip().split('\n')[:12], sep='\n      ')
    if driver:
        for prof, _, chk in PROFILES:
            lines, labels = c_to_lean(ops, enums, chk)
            out = run_lean(driver, lines)
            print(f'## Lean model, chk={chk} ({prof})')
            cur = None
            exp = []
            for (name, l), o in zip(labels[1:], out[1:]):
                if name != cur:
                    cur = name
                    print('   ', '== ' + name)
                    exp.append('== ' + name)
                print('   ', o if len(o) < 300 else o[:300] + '…')
                exp.append('ABORT' if o.startswith('abort') else o)
            got = [l for l in results.get((prof, 'plain'), '').strip().split('\n') if l and not l.startswith('case ')]
            got = [('ABORT' if l.startswith('ABORT') else 'undefined' if l == 'bad-handle' else l) for l in got]
            # sections without ops print only their header on the C side
            strip = lambda ls: [l for i, l in enumerate(ls) if not (l.startswith('== ') and (i + 1 == len(ls) or ls[i + 1].startswith('== ')))]
            if strip(got) != strip(exp):
                bad = True
                print('    -> DIFFERS from the implementation (plain build)')
    if pid == 'C15' and 'ref' in paths:
        rc, out, err = sh([paths['ref']], inp=script)
        print('## real Rust linkage on the same input')
        for l in out.strip().split('\n'):
            print('   ', l if len(l) < 300 else l[:300] + '…')
        for prof, _, _ in PROFILES:
            st = [l for l in results.get((prof, 'plain'), '').split('\n') if l.startswith('steps ')]
            rf = [l for l in out.split('\n') if l.startswith('steps ')]
            if st != rf:
                bad = True
                print(f'    -> the C API result (profile={prof}) DIFFERS from Rust linkage')
    print('REPRODUCED' if bad else 'NOT REPRODUCED (all three agree, no sanitizer report)')
    return 1 if bad else 0


if __name__ == '__main__':
    import json
    import sys
    pid = sys.argv[1]
    if len(sys.argv) > 3 and sys.argv[2] == '--replay':
        d = os.path.join(ROOT, 'lean', '.lake', 'build', 'bin', 'kodama-driver')
        sys.exit(replay(pid, sys.argv[3], d if os.path.exists(d) else None))
    tier = sys.argv[2] if len(sys.argv) > 2 else 'quick'
    seed = int(os.environ.get('VERIF_SEED', '1'))
    drv = os.path.join(ROOT, 'lean', '.lake', 'build', 'bin', 'kodama-driver')
    repo = os.environ.get('VERIF_REPO', '/repo')
    build = os.environ.get('VERIF_BUILD', os.path.join(ROOT, 'build'))
    r = (runner_c15 if pid == 'C15' else runner_c16)(pid, tier, seed, drv if os.path.exists(drv) else None, build, repo)
    fs = r.pop('failures')
    print(json.dumps(r, indent=1)[:6000])
    print('failures:', len(fs))
    for f in fs[:8]:
        print(' ', f['kind'], '|', f['what'][:300])
        print('     ops :', [o[:100] for o in f['ops'][:3]])
        print('     impl:', [o[:120] for o in f['impl'][:6]])
        print('     ref :', [o[:120] for o in f['model'][:3]])
