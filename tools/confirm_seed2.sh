#!/bin/sh
id="$1"; d=/verif/seeded/$id; wt=/tmp/confirm_$id
export CARGO_NET_OFFLINE=true CARGO_TARGET_DIR=$wt/target
git -C /repo worktree add -q --detach $wt HEAD || exit 2
cp /repo/Cargo.lock $wt/
demo=$(ls $d/seed_demo_*.rs | head -1); name=$(basename $demo .rs)
case "$id" in C18-*) mkdir -p $wt/kodama-bin/tests; cp $demo $wt/kodama-bin/tests/; pk="-p kodama-bin";; *) mkdir -p $wt/tests; cp $demo $wt/tests/; pk="";; esac
cd $wt
git apply $d/patch.diff || { echo "$id: patch does not apply"; exit 2; }
b=$(cargo build --offline --workspace 2>&1 | tail -1)
t=$(cargo test --offline --workspace --lib 2>&1 | grep "test result" | head -1)
cargo test --offline $pk --test $name >/dev/null 2>&1; with=$?
git checkout -q -- src kodama-capi kodama-bin go-kodama Cargo.toml 2>/dev/null
cargo build --offline --workspace >/dev/null 2>&1
cargo test --offline $pk --test $name >/dev/null 2>&1; without=$?
echo "$id: build=[$b] suite=[$t] demo_with_change_rc=$with demo_without_change_rc=$without"
cd /; git -C /repo worktree remove --force $wt
