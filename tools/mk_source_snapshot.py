#!/usr/bin/env python3
"""
Writes lean/Kodama/Props/C<id>Source.lean: per property, one theorem per hand-modelled function it
depends on, pinning the fingerprint (tools/extract_bodies.py) of the source text the model was
written against.  Run BY HAND after the model has been brought up to date with a source change —
never by a check.
"""
import os, re, sys
sys.path.insert(0, os.path.dirname(os.path.abspath(__file__)))
from extract_bodies import fingerprints

ROOT = os.path.dirname(os.path.dirname(os.path.abspath(__file__)))
DEPS = [
    ('union.rs::LinkageUnionFind::relabel', ['C01', 'C05']),
    ('union.rs::', ['C01']),
    ('dendrogram.rs::', ['C19', 'C01']),
    ('queue.rs::', ['C03', 'C12', 'C09', 'C10']),
    ('active.rs::', ['C03', 'C04', 'C12']),
    ('primitive.rs::', ['C03', 'C06', 'C07', 'C11']),
    ('chain.rs::nnchain', ['C03', 'C06', 'C11', 'C12', 'C14']),
    ('chain.rs::', ['C02', 'C03']),
    ('generic.rs::generic', ['C03', 'C06', 'C09', 'C10', 'C11', 'C12']),
    ('generic.rs::', ['C02', 'C03', 'C12']),
    ('spanning.rs::', ['C04', 'C06', 'C14']),
    ('lib.rs::linkage', ['C06', 'C14']),
    ('lib.rs::LinkageState::merge', ['C01']),
    ('lib.rs::Method::', ['C02']),
    ('condensed.rs::', ['C07']),
    ('locations.rs::', ['C18']),
]

def props_of(key):
    out = []
    for pre, ps in DEPS:
        if key.startswith(pre):
            for p in ps:
                if p not in out:
                    out.append(p)
    return out

def main():
    rows = fingerprints(sys.argv[1] if len(sys.argv) > 1 else '/repo')
    by = {}
    for key, h, _ in rows:
        for p in props_of(key):
            by.setdefault(p, []).append((key, h))
    for p, items in sorted(by.items()):
        lines = ['/-', f'{p} (tie to the source) — fingerprints of the hand-modelled functions this property\'s theorems are about.',
                 '',
                 'The model of these functions is written by hand and tied to the crate by the bit-exact correspondence',
                 'run, which is bounded by the sizes it generates.  `Generated/Bodies.lean` is re-emitted from /repo on',
                 'every run with a fingerprint of each function\'s NORMALISED body (comments, attributes, cfg(test) items',
                 'and whitespace removed; parameters and local bindings alpha-renamed; tools/extract_bodies.py); each',
                 'theorem below pins the fingerprint of the text the model was written against.  A theorem that no longer',
                 'checks names the function that was edited: the model may no longer describe it (for instance on sizes the',
                 'correspondence run does not reach), and `check` searches for a failing input.  Written by',
                 'tools/mk_source_snapshot.py — by hand, after the model has been brought up to date, never by a check.',
                 '-/', 'import Kodama.Generated.Bodies', 'namespace Kodama', '']
        for key, h in items:
            name = re.sub(r'[^A-Za-z0-9]+', '_', key.replace('.rs', '')).strip('_')
            lines.append(f'theorem {p}_source_{name} : Gen.bodyHash "{key}" = some {h} := by decide')
        lines += ['', 'end Kodama', '']
        open(os.path.join(ROOT, 'lean', 'Kodama', 'Props', f'{p}Source.lean'), 'w').write('\n'.join(lines))
        print(p, len(items))

if __name__ == '__main__':
    main()
