#!/bin/sh
# usage: tools/seedtest.sh <patch> <ID> [<ID>...]   — apply a seeded change to /repo, run the checks, undo it.
patch="$1"; shift
cd /verif
bk=$(mktemp -d /tmp/evbk.XXXXXX); cp evidence/*.json "$bk"/ 2>/dev/null   # evidence of seeded runs is never kept
git -C /repo apply "$patch" || { echo "patch does not apply"; exit 2; }
for id in "$@"; do
  out=$(./check "$id" 2>&1 | grep -E "VIOLATION|^OK|KNOWN|INFRA" | head -3)
  echo "$id: $out"
  f=$(echo "$out" | sed -n 's/.*replay=\([^ ]*\).*/\1/p' | head -1)
  if [ -n "$f" ]; then python3 - "$f" <<'PY'
import json,sys
r=json.load(open(sys.argv[1]))
print("   kind:", r.get('kind'), "|", (r.get('what') or '')[:160])
for b in (r.get('broken_obligations') or r.get('theorems_or_translations_that_no_longer_check') or [])[:3]:
    print("   broken:", (b if isinstance(b,list) else [b.get('name'), b.get('error')]) and str(b)[:200])
for c in (r.get('correspondence_that_no_longer_checks') or [])[:1]:
    print("   tie:", c['what'][:150])
PY
  fi
done
git -C /repo checkout -- .
python3 tools/extract.py >/dev/null 2>&1
cp "$bk"/*.json evidence/ 2>/dev/null; rm -rf "$bk"
