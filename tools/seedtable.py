#!/usr/bin/env python3
"""Regenerate the table of DESIGN.md section 12.4 from /verif/seeded/*/meta.json."""
import glob, json, os, re
root = os.path.dirname(os.path.dirname(os.path.abspath(__file__)))
rows = []
def key(p):
    m = re.match(r'C(\d+)-(\d+)', os.path.basename(os.path.dirname(p)))
    return (int(m.group(1)), int(m.group(2)))
for p in sorted(glob.glob(os.path.join(root, 'seeded', '*', 'meta.json')), key=key):
    m = json.load(open(p))
    esc = lambda s: str(s).replace('|', '\\|').replace('\n', ' ')
    rows.append('| %s | %s | %s | %s |' % (m['id'] + (' (r%d)' % m['round'] if m.get('round', 1) > 1 else ''), esc(m['what_the_change_does']), esc(m['needs_to_manifest']), esc(m['detected_by'])))
d = os.path.join(root, 'DESIGN.md')
t = open(d).read()
a = t.index('| seed | change | needs | outcome / mechanism |')
# the table ends at the first line after `a` that is not a table row
lines = t[a:].split('\n')
k = 0
while k < len(lines) and lines[k].startswith('|'):
    k += 1
b = a + len('\n'.join(lines[:k]))
t = t[:a] + '| seed | change | needs | outcome / mechanism |\n|---|---|---|---|\n' + '\n'.join(rows) + t[b:]
open(d, 'w').write(t)
print(len(rows), 'rows')
