#!/usr/bin/env python3
"""
Self-test of the C17 pipeline (translator extract_abi.py + Kodama/Props/C17.lean).

On a scratch COPY of the source files the translator reads, applies one mutation at a time,
regenerates Kodama/Generated/Abi.lean from the copy and runs `lake build Kodama.Props.C17`.
Every mutation marked FAIL must break the build (at a named C17 theorem, or as a
TRANSLATOR-ERROR); the unmutated copy and the mutations marked PASS (ABI-neutral edits: they
guard against false alarms) must build.  Never touches /repo.

Usage: test_abi_mutations.py [--repo /repo] [--work /tmp/w_abi]
Exit 0 iff every expectation is met.
"""
import argparse
import os
import re
import shutil
import subprocess
import sys

FILES = ['kodama-capi/include/kodama.h', 'go-kodama/kodama.h', 'kodama-capi/src/lib.rs',
         'kodama-capi/src/macros.rs', 'go-kodama/kodama.go', 'src/dendrogram.rs']

CAPI_H, GO_H, RS, MAC, GO, CORE = FILES


def swap(a, b):
    def f(t):
        assert a in t and b in t, (a, b)
        return t.replace(a, '\0').replace(b, a).replace('\0', b)
    return f


def sub(a, b, count=1):
    def f(t):
        assert a in t, a
        return t.replace(a, b, count)
    return f


def resub(pat, rep, count=1):
    def f(t):
        t2, n = re.subn(pat, rep, t, count=count, flags=re.S)
        assert n, pat
        return t2
    return f


# (label, expectation, [(file, edit)...])
MUTATIONS = [
    # --- the seven required by the task -----------------------------------------------------
    ('M1 swap enumerators ward/centroid in go-kodama/kodama.h only', 'FAIL',
     [(GO_H, swap('kodama_method_ward,', 'kodama_method_centroid,'))]),
    ('M2 swap fields cluster2/size in kodama-capi/include/kodama.h only', 'FAIL',
     [(CAPI_H, swap('size_t cluster2;', 'size_t size;'))]),
    ('M3 Go `case MethodWard: return C.kodama_method_weighted`', 'FAIL',
     [(GO, resub(r'(case MethodWard:\s*return C\.)kodama_method_ward', r'\1kodama_method_weighted'))]),
    ('M4 `size_t observations` -> `int observations` in one prototype (capi header)', 'FAIL',
     [(CAPI_H, sub('size_t observations', 'int observations'))]),
    ('M5 reorder Go iota constants (MethodWard <-> MethodCentroid)', 'FAIL',
     [(GO, swap('\tMethodWard\n', '\tMethodCentroid\n'))]),
    ('M6 Rust into_method `Ward => Method::Weighted`', 'FAIL',
     [(RS, sub('kodama_method::Ward => Method::Ward', 'kodama_method::Ward => Method::Weighted'))]),
    ('M7 Rust kodama_step field order (cluster2 <-> size)', 'FAIL',
     [(RS, swap('pub cluster2: size_t,', 'pub size: size_t,'))]),
    # --- further mutations -----------------------------------------------------------------
    ('M8 Rust kodama_method constructor order (Ward <-> Centroid)', 'FAIL',
     [(RS, swap('    Ward,\n', '    Centroid,\n'))]),
    ('M9 same enumerator swap in BOTH headers (headers agree, Rust/Go do not)', 'FAIL',
     [(GO_H, swap('kodama_method_ward,', 'kodama_method_centroid,')),
      (CAPI_H, swap('kodama_method_ward,', 'kodama_method_centroid,'))]),
    ('M10 `int observations` in the same prototype of BOTH headers', 'FAIL',
     [(GO_H, sub('size_t observations', 'int observations')),
      (CAPI_H, sub('size_t observations', 'int observations'))]),
    ('M11 both headers: dissimilarity member `double` -> `float`', 'FAIL',
     [(GO_H, sub('double dissimilarity;', 'float dissimilarity;')),
      (CAPI_H, sub('double dissimilarity;', 'float dissimilarity;'))]),
    ('M12 Go expectedLen of Linkage64: (n * (n + 1)) / 2', 'FAIL',
     [(GO, sub('expectedLen := (observations * (observations - 1)) / 2',
               'expectedLen := (observations * (observations + 1)) / 2'))]),
    ('M13 Rust dis_len back to a partial `observations - 1` (kodama_linkage_float)', 'FAIL',
     [(RS, resub(r'(fn kodama_linkage_float.*?)observations\.saturating_sub\(1\)', r'\1(observations - 1)'))]),
    ('M14 Go Steps(): `Cluster1: int(s.cluster2)`', 'FAIL',
     [(GO, sub('Cluster1:      int(s.cluster1)', 'Cluster1:      int(s.cluster2)'))]),
    ('M15 macros.rs: drop #[no_mangle]', 'FAIL',
     [(MAC, sub('#[no_mangle]', ''))]),
    ('M16 Rust kodama_dendrogram_len returns c_double', 'FAIL',
     [(RS, resub(r'(fn kodama_dendrogram_len\(.*?\) -> )size_t', r'\1c_double'))]),
    ('M17 Rust: alias `c_double = f32`', 'FAIL',
     [(RS, sub('pub type c_double = f64;', 'pub type c_double = f32;'))]),
    ('M18 Rust: kodama_step loses #[repr(C)]', 'FAIL',
     [(RS, resub(r'#\[repr\(C\)\]\s*(#\[derive\(Debug\)\]\s*pub struct kodama_step)', r'\1'))]),
    ('M19 Go Linkage32 calls kodama_linkage_double', 'FAIL',
     [(GO, sub('C.kodama_linkage_float(cmat', 'C.kodama_linkage_double(cmat'))]),
    ('M20 Go enum(): MethodMedian case removed', 'FAIL',
     [(GO, resub(r'case MethodMedian:\s*return C\.kodama_method_median\s*', ''))]),
    ('M21 capi header: explicit value `kodama_method_single = 1`', 'FAIL',
     [(CAPI_H, sub('kodama_method_single,', 'kodama_method_single = 1,'))]),
    ('M22 go header: parameter order of kodama_linkage_float (observations before matrix)', 'FAIL',
     [(GO_H, sub('float *condensed_dissimilarity_matrix,\n    size_t observations,',
                 'size_t observations,\n    float *condensed_dissimilarity_matrix,'))]),
    ('M23 Rust float variant copies size from cluster2', 'FAIL',
     [(RS, resub(r'(as c_double,\s*size: step\.)size', r'\1cluster2'))]),
    ('M24 go header: #pragma pack(1) (layout-changing directive -> translator refuses)', 'FAIL',
     [(GO_H, sub('#include <stdlib.h>', '#include <stdlib.h>\n#pragma pack(1)'))]),
    # --- ABI-neutral edits: must NOT raise an alarm -------------------------------------------
    ('N1 comments/whitespace edited in one header', 'PASS',
     [(CAPI_H, sub('/* The label corresponding to the first cluster. */', '/* first label */\n\n'))]),
    ('N2 both headers: `const kodama_step *kodama_dendrogram_steps(..)` (constness only)', 'PASS',
     [(CAPI_H, sub('kodama_step *kodama_dendrogram_steps', 'const kodama_step *kodama_dendrogram_steps')),
      (GO_H, sub('kodama_step *kodama_dendrogram_steps', 'const kodama_step *kodama_dendrogram_steps'))]),
    ('N3 macros.rs: `pub extern "C" fn`', 'PASS',
     [(MAC, sub('pub extern fn', 'pub extern "C" fn'))]),
    ('N5 Rust: struct-literal initialisers of kodama_step listed in another order; into_method arms permuted', 'PASS',
     [(RS, sub('                cluster1: step.cluster1,\n                cluster2: step.cluster2,\n                dissimilarity: step.dissimilarity,\n                size: step.size,',
               '                size: step.size,\n                cluster1: step.cluster1,\n                cluster2: step.cluster2,\n                dissimilarity: step.dissimilarity,')),
      (RS, swap('            kodama_method::Ward => Method::Ward,\n', '            kodama_method::Centroid => Method::Centroid,\n'))]),
    ('N4 Go enum(): case order permuted (Ward clause moved last)', 'PASS',
     [(GO, resub(r'(\tcase MethodWard:\n\t\treturn C\.kodama_method_ward\n)(.*?)(\tdefault:)', r'\2\1\3'))]),
]


def sh(cmd, cwd=None):
    p = subprocess.run(cmd, cwd=cwd, stdout=subprocess.PIPE, stderr=subprocess.STDOUT, text=True)
    return p.returncode, p.stdout


def main():
    ap = argparse.ArgumentParser()
    ap.add_argument('--repo', default='/repo')
    ap.add_argument('--work', default=os.path.dirname(os.path.dirname(os.path.abspath(__file__))))
    ap.add_argument('--only', default=None, help='run only mutations whose label starts with this')
    args = ap.parse_args()
    tools = os.path.join(args.work, 'tools')
    lean = os.path.join(args.work, 'lean')
    copy = os.path.join(args.work, 'repo_copy')
    gen_dir = os.path.join(lean, 'Kodama', 'Generated')
    props = open(os.path.join(lean, 'Kodama', 'Props', 'C17.lean')).read().split('\n')

    def fresh_copy():
        shutil.rmtree(copy, ignore_errors=True)
        for rel in FILES:
            os.makedirs(os.path.dirname(os.path.join(copy, rel)), exist_ok=True)
            shutil.copyfile(os.path.join(args.repo, rel), os.path.join(copy, rel))

    def theorem_at(line):
        for k in range(min(line, len(props)) - 1, -1, -1):
            m = re.match(r'^(?:private\s+)?(theorem|example|def)\s*([\w.]*)', props[k])
            if m:
                return m.group(2) or f'example@{k + 1}'
        return f'line {line}'

    def run(repo):
        """-> (ok, where)"""
        rc, out = sh([sys.executable, os.path.join(tools, 'extract.py'), '--repo', repo, '--out', gen_dir,
                      '--only', 'Abi.lean'])
        if rc != 0:
            m = re.search(r'TRANSLATOR-ERROR[^\n]*', out)
            return False, (m.group(0) if m else f'translator rc={rc}: {out.strip()[-200:]}')
        rc, out = sh(['lake', 'build', 'Kodama.Props.C17'], cwd=lean)
        if rc == 0:
            return True, ''
        where = []
        for m in re.finditer(r'error: (?:\S*?)Kodama/Props/C17\.lean:(\d+):\d+', out):
            t = theorem_at(int(m.group(1)))
            if t not in where:
                where.append(t)
        if not where:
            where = ['(no C17.lean location) ' + out.strip()[-300:]]
        return False, ', '.join(where)

    results, bad = [], 0
    fresh_copy()
    ok, where = run(copy)
    results.append(('unmutated copy', 'PASS', ok, where))
    bad += not ok
    for label, expect, edits in MUTATIONS:
        if args.only and not label.startswith(args.only):
            continue
        fresh_copy()
        for rel, edit in edits:
            p = os.path.join(copy, rel)
            t = open(p).read()
            t2 = edit(t)
            assert t2 != t, f'{label}: edit of {rel} changed nothing'
            open(p, 'w').write(t2)
        ok, where = run(copy)
        met = ok == (expect == 'PASS')
        bad += not met
        results.append((label, expect, ok, where))
    # leave the work tree generated from the real repo, and make sure that still builds
    rc, out = sh([sys.executable, os.path.join(tools, 'extract.py'), '--repo', args.repo, '--out', gen_dir,
                  '--only', 'Abi.lean'])
    rc2, out2 = sh(['lake', 'build', 'Kodama.Props.C17'], cwd=lean)
    results.append((f'regenerated from {args.repo}', 'PASS', rc == 0 and rc2 == 0, (out + out2).strip()[-200:] if rc or rc2 else ''))
    bad += not (rc == 0 and rc2 == 0)

    for label, expect, ok, where in results:
        verdict = 'as expected' if ok == (expect == 'PASS') else '*** UNEXPECTED ***'
        print(f'[{verdict}] {label}: expected {expect}, build {"passed" if ok else "FAILED"}'
              + (f' at {where}' if where else ''))
    print(f'{len(results) - bad}/{len(results)} expectations met')
    sys.exit(1 if bad else 0)


if __name__ == '__main__':
    main()
