#!/usr/bin/env python3
"""Regenerates /verif/MANIFEST.json from the table below (kept in one place so the
manifest stays valid and consistent with what the checks do)."""
import json, os, subprocess
ROOT = os.path.dirname(os.path.dirname(os.path.abspath(__file__)))
props = [json.loads(l) for l in open(os.path.join(ROOT, 'properties.jsonl'))]

# id -> (claimed?, level text, level note, technique)
CLAIMS = {
 'C05': ("Full statement proved for the model: C05_sorted (all entry points, inputs, prior states; OrderLaws+MonoSqrt hypotheses), C05_tables, C05_unsorted_order. requires_sorting table is translated from src/lib.rs on every run; position of sort/relabel/sqrt is hand-modelled and tied by the bit-exact correspondence run; oracle checks exact monotonicity on the real crate.",
         "Lean kernel + {propext, Classical.choice, Quot.sound}; translator for lib.rs tables; sort_by modelled as a stable sort; correspondence harness; floats satisfy OrderLaws/MonoSqrt (true of IEEE incl. NaN).",
         "Lean 4 theorem over executable model + translator + bit-exact correspondence"),
 'C07': ("C07_layout / C07_bij / C07_no_underflow / C07_get / C07_set proved for all n,r,c against the index expression regenerated from src/condensed.rs; the observable-consequence part (first/second step) is checked by probe matrices on the real crate (every slot n<=24 quick / n<=64 thorough) and follows from C03/C04 theorems only where those are proved.",
         "Lean kernel + standard axioms; translator for condensed.rs; uses of dis[[r,c]] hand-modelled and tied by correspondence.",
         "Lean 4 theorem over translated index expression + probe-matrix correspondence"),
 'C13': ("C13_exact (n < 2^32, both build modes), C13_checked_all_n, C13_wrap (exact acceptance condition of wrapping arithmetic), C13_extremes (2^63, 2^64-1), C13_first (guard verdict is the call's verdict for every entry point/prior state) proved against the shape guard regenerated from CondensedMatrix::new; exhaustive (len,n) grid on the real crate in dev and release builds.",
         "Lean kernel + standard axioms; translator for condensed.rs (assert!/assert_eq! and usize arithmetic made explicit); order guard-before-state hand-modelled, tied by correspondence in both build profiles.",
         "Lean 4 theorem over translated guard (explicit 64-bit arithmetic) + exhaustive shape grid in two build profiles"),
 'C08': ("Full statement proved for the model: C08_state_irrelevant (any two prior states/dendrograms incl. those left by panicking calls), C08_history (any sequence of earlier calls), C08_repeat, C08_reset_bodies (reset bodies translated from the source give one canonical value from every prior value), C08_prologue (translated call sites), C08_no_shared_state (translated scan). History correspondence: shared objects vs fresh objects vs model, with panicking calls, run concurrently on all cores.",
         "Lean kernel + standard axioms; translator for the five reset bodies, the _with prologues and the purity scan; soundness of safe Rust for the threads part; what happens between reset and the loops is hand-modelled, tied by the history correspondence.",
         "Lean 4 theorem (reset = fresh for all prior states) over translated reset bodies + history correspondence"),
 'C14': ("C14_mst: mst_with performs EXACTLY n(n-1)/2 index computations for every valid matrix, any comparison behaviour, both build modes, any prior state (hence the bound); C14_small; C14_dispatch (generated table). The nnchain bound is NOT proved: it rests on the exact equality of the model's counter with the kodama_verif hook counter on every generated case plus the oracle checking 10n^2+50n on the real crate on adversarial inputs (sorted, reverse-sorted, all ties, geometric progressions) up to n=400 quick / 2000 thorough.",
         "Lean kernel + standard axioms; Active-list refinement and Mat index lemmas proved; the counter placement in the model is hand-modelled and tied to the hook counter by exact comparison; hook: thread-local counter in matrix_to_condensed_idx under cfg(kodama_verif).",
         "Lean 4 theorem (exact count for mst) + exact counter correspondence with the instrumented crate + bound oracle"),
 'C01': ("C01_relabel (any raw spanning tree -> WellFormed, via union-find refinement + forest lemma 'effective unions are permutation invariant'), C01_mst, C01_primitive (all 7 methods), C01_linkage_single: for every valid matrix (2<=n<2^31), both build modes, every prior state and ANY behaviour of the number operations the returned dendrogram is Spec.WellFormed with observations = n; C01_sizes_pos; n<=1 empty (C12_empty); any greedy-valid dendrogram of the spec is well-formed (C06_wellFormed). C01_generic: generic_with (all 7 methods) under explicit value hypotheses (a set G of non-NaN values below max_value closed under the update; proved closed for single/complete). NOT proved: nnchain's raw steps form a spanning tree (chain invariant, in progress) - there: bit-exact correspondence + independent structural validator on every dendrogram, fresh and reused objects.",
         'Lean kernel + standard axioms; find() modelled without path compression; sort_by modelled as stable mergeSort; correspondence harness for the hand-modelled loops.',
         'Lean 4 theorems (union-find refinement, forest lemma, loop invariants of mst/primitive) + bit-exact correspondence + structural validator'),
 'C02': ("All seven generated Lance-Williams formulas proved equal to the documented criteria over any linearly ordered field (exact arithmetic): C02_single/complete(_criterion), C02_average, C02_weighted(_tree), C02_median(_tree), C02_centroid, C02_ward (+ _recurrence cores), C02_spec_invariant and C02_greedy_heights(_closed): in ANY greedy-valid run of the label-based spec every height is the criterion of the two merged clusters computed from the ORIGINAL matrix. A wrong coefficient / swapped size / Ward dropped from on_squares breaks the build (7 mutations confirmed). NOT proved: the float gap (measured against 1e-9/1e-3 by the criterion oracle on the real crate); that each Rust algorithm's run is greedy-valid (C03).",
         'Lean kernel + standard axioms + Mathlib field tactics; translator for method.rs and the on_squares table; exact-arithmetic theorems (IEEE floats are not a field): tolerance part is measured by the oracle, which recomputes each criterion from the original matrix by its definition.',
         'Lean 4 theorems over translated formulas (ordered field) + criterion oracle from the original matrix + bit-exact correspondence'),
 'C04': ("Spec level, full strength: C04_min_invariant, C04_heights_sorted, C04_of_greedy (for EVERY level h the clusters cut at h are exactly the connected components of the threshold graph), C04_count (number of steps <= h = n - #components: the order-theoretic MST weight multiset characterisation) for any greedy-valid single-linkage dendrogram, using only OrderLaws (true of IEEE floats; ties, +-0 allowed; NaN-free input). NOT yet proved: that each entry point's single-linkage output is greedy-valid (mst: Prim interval lemma; others via C03). Exactness on the real crate: Kruskal oracle with its own DSU, partitions at every distinct height and height multiset compared bit-exactly, all five entry points, n up to 60 quick / 2000 thorough.",
         'Lean kernel + standard axioms; OrderLaws for floats; link from the algorithms to the spec is by correspondence + oracle, not yet by theorem.',
         'Lean 4 theorem on the label-based spec (threshold components) + Kruskal oracle + bit-exact correspondence'),
 'C06': ('C06_unique (two greedy-valid dendrograms of a tie-free input are EQUAL: labels, sizes, heights; uses no number law at all, so it holds verbatim for IEEE floats), C06_unique_from, C06_wellFormed, plus the generated dispatch table (C14_dispatch/C01_linkage_single). NOT proved: that every entry point returns a greedy-valid dendrogram (C03, in progress) - hence agreement of the five algorithms is established by the oracle: all applicable entry points compared with each other and with an independent naive Lance-Williams on margin-certified tie-free inputs (random, Euclidean, clustered, sorted), both widths, n to 40 quick / 200 thorough.',
         'Lean kernel + standard axioms; tie-freeness is certified numerically by the oracle (margin 64*tol*scale).',
         'Lean 4 uniqueness theorem on the spec + cross-algorithm / naive-reference oracle + bit-exact correspondence'),
 'C11': ('C11_spec (greedy validity is equivariant under renumbering: same heights, sizes, and cluster families as sets), C11_spec_unique (with C06_unique: on tie-free input the hierarchy of ANY greedy-valid dendrogram of the permuted matrix is the image of that of the original), C11_lwSymm (symmetry of all seven generated formulas from commutativity of + and x, true of IEEE floats; single/complete need trichotomy). NOT proved: that each entry point is greedy-valid (C03). Oracle: permuted vs unpermuted runs of the real crate on certified tie-free inputs, families as observation sets and heights within tolerance.',
         'Lean kernel + standard axioms; commutativity laws for floats trusted.',
         'Lean 4 equivariance theorem on the spec + permutation oracle + bit-exact correspondence'),
 'C12': ('C12_empty (n<=1, all entry points), C12_mst_total and C12_primitive_total: on every valid matrix (2<=n<2^31), both build modes, any prior state and ANY behaviour of the number operations the call returns normally or stops in the one documented panic (NaN reaching the sort) - no index out of bounds, failed assertion, unwrap on None, usize overflow or exhausted fuel is reachable; C12_mst_loop_total. C12_generic_total / C12_generic_ok: generic_with is total incl. termination of the repair loop within n+2 rounds, under GoodSet/UpdClosed value hypotheses (values non-NaN and strictly below max_value - necessary: with +inf or f64::MAX entries the real crate panics in dev and hangs in release, outside the domain of the property). NOT proved: nnchain totality/termination (in progress); finiteness/non-negativity of heights under rounding. Those: correspondence in BOTH build profiles (model fuel exhaustion = hang), watchdog, finite/non-negative oracle on tie-saturated, zero, negative, 1e+-150, duplicate, collinear inputs.',
         'Lean kernel + standard axioms; Active-list refinement, Mat index lemmas, relabel totality proved; the two harness builds (dev: debug assertions + overflow checks; release).',
         'Lean 4 totality theorems (mst, primitive) + two-profile correspondence + watchdog/finite oracle'),
 'C17': ('Full statement proved over data re-translated from the four source files on every run (finite configuration, decide/rfl over the whole table): C17_enum (+pointwise), C17_struct (names, order, types, computed x86-64 layout 0/8/16/24 size 32), C17_fns (6 prototypes, ABI-level), C17_len (Go expectedLen = Rust dis_len for all n), C17_go_calls, C17_rust_bodies. 23 mutations of headers/Rust/Go confirmed to break a named theorem, 4 ABI-neutral edits confirmed not to.',
         'Lean kernel + standard axioms; translator extract_abi.py; x86-64 SysV layout rules; cgo - NO Go toolchain in this sandbox: go-kodama is read, never compiled.',
         'Lean 4 decide over translated ABI tables'),
 'C19': ('Full statement proved on the container model: C19_push_inv/C19_push (exactly n-1 pushes over ALL op sequences), C19_push_small, C19_reset (translated reset body), C19_norm, C19_size (incl. = number of leaves for any WellFormed dendrogram), C19_eq_step/C19_eq (iff characterisation over any linearly ordered additive group, eps >= 0). Correspondence: random op scripts on the real Dendrogram/Step API vs the Lean driver (500k lines quick), statement-level oracle incl. eps in {pred d, d, succ d} around the computed difference.',
         "Lean kernel + standard axioms + Mathlib ordered-group lemmas; float reading of 'differ by at most eps' is on the rounded difference as the code computes it; that clustering outputs are WellFormed is C01.",
         'Lean 4 theorems on the container model + op-sequence correspondence + statement-level oracle'),
 'C09': ("Full statement proved for the model via ONE naturality theorem (runWith_natural_safe: every model function commutes with a homomorphism of the number operations; all five entry points, seven methods, both build modes, any prior states, panics correspond): C09 - under ScaleLaws s (order preserved; s commutes with + - and with x / by any constant; sqrt(s(s x)) = s(sqrt x): what x2^k satisfies in IEEE arithmetic while nothing over/underflows) labels, sizes and access counts are identical and every height is mapped by s; sentinel hypotheses are the weakest that work (SentinelSafe for generic's max_value, s(inf)=inf for mst) and C09_rescaled_sentinels needs none; C09_formulas, C09_no_constants. Oracle: every case re-run at 2^k, bit compare, on the real crate.",
         'Lean kernel + standard axioms; translator for method.rs (a literal other than 0.5/0.25 becomes an undefined Gen.literal and breaks the build); that IEEE floats satisfy ScaleLaws/SentinelSafe within the safe range is trusted and exercised by the bit-exact oracle.',
         'Lean 4 naturality theorem over the executable model + bit-exact scaling oracle + correspondence'),
 'C10': ('Full statement proved for the model from the same naturality theorem: C10 - for single/complete and ANY order homomorphism g (lt/beq/isNaN preserved) labels and sizes are identical and heights are g(height), on every accepting entry point, under ties, both build modes (C10_formulas: Gen.single/Gen.complete only select). Oracle: affine/cubic/exp/log/rank maps with bit compare; exhaustive weak orderings of the 6 entries for n=4 (1/3 in quick, all 4683 in thorough).',
         'Lean kernel + standard axioms; sentinel hypotheses as in C09; floats: IEEE < and == are preserved by strictly increasing maps on non-NaN values (trusted).',
         'Lean 4 naturality theorem over the executable model + monotone-map oracle (exhaustive n=4) + correspondence'),
 'C20': ("Cost model of every Vec in LinkageState/Dendrogram with std's growth policy (validated exactly against a counting global allocator on every run): C20_peak and C20_total (<= 512n+4096 for all n, capacities, algorithms, widths), C20_no_matrix_sized_request, C20_warm (warm _with: 0 or 1 allocation <= 32(n-1) bytes, capacities unchanged), C20_capacity_monotone, C20_call_makes_warm, C20_warm_after_use, C20_value_independent, C20_in_place (all entry points: returned matrix has the input's size; mst: identical data array), C20_buffers_match_reset (buffer table tied to the translated reset bodies: adding a buffer breaks the build). NOT verified: std's growth policy and sort scratch size (toolchain facts, re-measured every run), the allocator; chain <= n entries under float rounding (exact-count comparison would expose a chain reallocation).",
         'Lean kernel + standard axioms; counting #[global_allocator] in the harness (thread-local counters); rustc 1.95 Vec growth policy and stable-sort scratch policy are modelled, compared exactly on every case.',
         'Lean 4 theorems on an allocation cost model + exact comparison with a counting allocator + direct bound oracle'),
 'C15': ('Full statement proved for the model over the wrapper pieces re-translated from kodama-capi/src/lib.rs on every run: C15_len_ok (dis_len = n(n-1)/2 with NO panic in both build modes for all n < 2^32, in particular n = 0 and 1; false for the pre-fix source), C15_enum, C15_copy (field-for-field, exact widening, observations := n passed in), C15_double/C15_float/C15_full (the C result IS the Rust linkage result mapped field for field, per build mode), C15_nonnull, C15_modes, C15_null, C15_abort. Correspondence: C driver compiled against include/kodama.h (enumerators by header name) linked with libkodama.a built from the working tree in dev AND release, plain and ASan; every case compared with the real Rust linkage (oracle) and with the Lean model. A genuine defect found here (n = 0 aborted in dev builds) was repaired by fix: commit 0456afd and is recorded in known_findings.json.',
         "Lean kernel + standard axioms; translator extract_capi.py; clang/cargo build the library and driver faithfully; mode-independence of linkage itself is C12's business.",
         'Lean 4 theorem over translated wrapper + C-driver correspondence in two build profiles + Rust-linkage oracle'),
 'C16': ("Lifecycle logic proved on a handle-table model for ALL op sequences: C16_frame(_trace) (reads between create and free return exactly what create stored, whatever happens to other handles and to the caller's input), C16_use_after_free, C16_live_iff, C16_no_leak, C16_input_not_retained, C16_commute, C16_interleave, C16_schedule_independent (every interleaving gives each thread the outputs of its sequential run), C16_accessors (translated accessor bodies). Memory validity itself is NOT provable here and is OBSERVED: random create/read/clobber/free scripts over many live handles, 1-16 threads, both widths, both build profiles, executed under AddressSanitizer+LeakSanitizer (thorough: valgrind) and diffed with the model; failing scripts are shrunk.",
         'Lean kernel + standard axioms; translator; sanitizers observe only what the instrumented C driver and the intercepted allocator see (Rust code itself is not instrumented).',
         'Lean 4 theorems on a handle-table model + sanitizer-observed op-sequence correspondence'),
 'C18': ("Modelled logic proved: C18_order / C18_order_jobs (for EVERY split tree and leaf order of the parallel evaluation the matrix is (Spec.pairs n).map dist), C18_layout (slot = C07 layout against the regenerated index expression), C18_bytes (byte-identical across schedules), C18_codec (LE round trip; length not multiple of 8 rejected), C18_method_parse / C18_method (exactly the seven names, via the translated FromStr; unknown => exit 1, no rows; none => single), C18_output(_rows/_records) (rows are exactly linkage's steps in order), C18_saved_bytes, C18_save_load(_rows), C18_load_reject. Observed, not proved: rayon, csv/serde/ryu/clap/byteorder, libm. Correspondence: the real binary built from the working tree, RAYON_NUM_THREADS in {1,2,3,8,16} x repeats, all method names + invalid names, generated and shipped CSVs; saved bytes, stdout rows, save->load and exit statuses compared with the model (bit-exact Haversine) and with an independent Rust linkage call.",
         "Lean kernel + standard axioms; rayon's ordered-collect contract; csv/serde/ryu/clap/byteorder; glibc libm shared with Lean's Float runtime (checked bit-exact every run); Word64 round-trip laws for Float.",
         'Lean 4 theorems on a schedule-parametric model + binary-level correspondence across thread counts + Rust linkage oracle'),
 'C03': ('C03_primitive_argmin_min (argmin returns a global minimum over live pairs), C03_primitive_update_spec (exact effect of the three-range update on the condensed matrix, via injectivity of the regenerated index), C03_primitive_mergeorder (the merges of primitive_with, labelled in merge order, ARE a greedy run of the independent label-based spec Spec.GreedyValid), C03_primitive_unsorted (centroid/median: the RETURNED dendrogram is greedy-valid), C03_primitive_of_monotone / C03_primitive_reducible (sorting methods under a named reducibility hypothesis), C03_primitive_single / C03_primitive_complete (unconditional from OrderLaws + trichotomy). NOT proved: nnchain, generic, mst ⇒ greedy-valid (mst via C04 in progress); reducibility of average/weighted/Ward is a hypothesis (true in exact arithmetic, false under float rounding); float tolerance. Those: bit-exact correspondence + greedy-replay oracle (naive Lance-Williams, minimum over live pairs within tolerance) on tie-saturated inputs, fresh and reused objects, both profiles.',
         'Lean kernel + standard axioms; LwSymm (commutativity of + and x) and NoNaNRun hypotheses; translator for method.rs/condensed.rs; correspondence harness.',
         'Lean 4 simulation theorem (primitive vs label-based spec) + greedy-replay oracle + bit-exact correspondence'),
}
NOT_YET = "check not built yet in this round (build in progress)"

checks, na = [], []
for p in props:
    pid = p['id']
    if pid in CLAIMS:
        text, note, tech = CLAIMS[pid]
        checks.append({
            "property_id": pid,
            "quick_cmd": f"./check {pid} --tier quick",
            "thorough_cmd": f"./check {pid} --tier thorough",
            "evidence_file": f"/verif/evidence/{pid}.json",
            "replay_cmd_template": f"./check {pid} --replay {{path}}",
            "engine": "lean-proof+correspondence",
            "level_claimed": {"category": "proof", "text": text, "design_ref": f"DESIGN.md §6 {pid}"},
            "level_note": note,
            "technique": tech,
        })
    else:
        na.append({"property_id": pid, "reason": NOT_YET})

hook_commits = subprocess.run(['git', '-C', '/repo', 'log', '--format=%H %s'], capture_output=True, text=True).stdout.splitlines()
hook_commits = [l.split()[0] for l in hook_commits if 'verif hook' in l]
m = {
 "version": 1,
 "setup_cmd": "./setup.sh",
 "hooks": {
   "guard": "kodama_verif",
   "enable": "RUSTFLAGS='--cfg kodama_verif' (set by /verif/check when building /verif/harness against /repo)",
   "baseline_off_cmd": "cd /repo && cargo test --workspace --no-fail-fast --offline",
   "source_commits": hook_commits,
   "add_only": True,
 },
 "engines": [
   {"name": "lean-proof+correspondence", "path": "/verif/check", "serves_properties": [c["property_id"] for c in checks],
    "kind_free_text": "Lean 4 model (lean/Kodama) with kernel-checked property theorems; translator tools/extract.py regenerates lean/Kodama/Generated from /repo on every run; Rust harness (harness/) runs the real crate and the compiled Lean driver on the same inputs and compares bit patterns; independent Rust oracles search for failing inputs"}
 ],
 "checks": checks,
 "not_applicable": na,
 "notes": "See DESIGN.md. Every check: translator -> lake build Props.<ID> -> axiom audit -> cargo build harness (hooks on) -> correspondence + oracle -> verdict -> evidence.",
}
json.dump(m, open(os.path.join(ROOT, 'MANIFEST.json'), 'w'), indent=1)
print(len(checks), 'claimed;', len(na), 'not claimed')
