#!/usr/bin/env python3
"""Regenerates /verif/MANIFEST.json from the table below (kept in one place so the
manifest stays valid and consistent with what the checks do)."""
import json, os, subprocess
ROOT = os.path.dirname(os.path.dirname(os.path.abspath(__file__)))
props = [json.loads(l) for l in open(os.path.join(ROOT, 'properties.jsonl'))]

# id -> (claimed?, level text, level note, technique)
CLAIMS = {
 'C05': ("Full statement proved for the model: C05_sorted (all entry points, inputs, prior states; OrderLaws+MonoSqrt hypotheses), C05_tables, C05_unsorted_order. requires_sorting table is translated from src/lib.rs on every run; position of sort/relabel/sqrt is hand-modelled and tied by the bit-exact correspondence run; oracle checks exact monotonicity on the real crate.",
         "Lean kernel + {propext, Classical.choice, Quot.sound}; translator for lib.rs tables; sort_by modelled as a stable sort; correspondence harness; floats satisfy OrderLaws/MonoSqrt (true of IEEE incl. NaN).",
         "Lean 4 theorem over executable model + translator + bit-exact correspondence"),
 'C07': ("C07_layout / C07_bij / C07_no_underflow / C07_get / C07_set proved for all n,r,c against the index expression regenerated from src/condensed.rs; the observable-consequence part (first/second step) is checked by probe matrices on the real crate (every slot n<=24 quick / n<=64 thorough) and follows from C03/C04 theorems only where those are proved.",
         "Lean kernel + standard axioms; translator for condensed.rs; uses of dis[[r,c]] hand-modelled and tied by correspondence.",
         "Lean 4 theorem over translated index expression + probe-matrix correspondence"),
 'C13': ("C13_exact (n < 2^32, both build modes), C13_checked_all_n, C13_wrap (exact acceptance condition of wrapping arithmetic), C13_extremes (2^63, 2^64-1), C13_first (guard verdict is the call's verdict for every entry point/prior state) proved against the shape guard regenerated from CondensedMatrix::new; exhaustive (len,n) grid on the real crate in dev and release builds.",
         "Lean kernel + standard axioms; translator for condensed.rs (assert!/assert_eq! and usize arithmetic made explicit); order guard-before-state hand-modelled, tied by correspondence in both build profiles.",
         "Lean 4 theorem over translated guard (explicit 64-bit arithmetic) + exhaustive shape grid in two build profiles"),
 'C08': ("Full statement proved for the model: C08_state_irrelevant (any two prior states/dendrograms incl. those left by panicking calls), C08_history (any sequence of earlier calls), C08_repeat, C08_reset_bodies (reset bodies translated from the source give one canonical value from every prior value), C08_prologue (translated call sites), C08_no_shared_state (translated scan). History correspondence: shared objects vs fresh objects vs model, with panicking calls, run concurrently on all cores.",
         "Lean kernel + standard axioms; translator for the five reset bodies, the _with prologues and the purity scan; soundness of safe Rust for the threads part; what happens between reset and the loops is hand-modelled, tied by the history correspondence.",
         "Lean 4 theorem (reset = fresh for all prior states) over translated reset bodies + history correspondence"),
 'C14': ("C14_mst: mst_with performs EXACTLY n(n-1)/2 index computations for every valid matrix, any comparison behaviour, both build modes, any prior state (hence the bound); C14_small; C14_dispatch (generated table). The nnchain bound is NOT proved: it rests on the exact equality of the model's counter with the kodama_verif hook counter on every generated case plus the oracle checking 10n^2+50n on the real crate on adversarial inputs (sorted, reverse-sorted, all ties, geometric progressions) up to n=400 quick / 2000 thorough.",
         "Lean kernel + standard axioms; Active-list refinement and Mat index lemmas proved; the counter placement in the model is hand-modelled and tied to the hook counter by exact comparison; hook: thread-local counter in matrix_to_condensed_idx under cfg(kodama_verif).",
         "Lean 4 theorem (exact count for mst) + exact counter correspondence with the instrumented crate + bound oracle"),
}
NOT_YET = "check not built yet in this round (build in progress)"

checks, na = [], []
for p in props:
    pid = p['id']
    if pid in CLAIMS:
        text, note, tech = CLAIMS[pid]
        checks.append({
            "property_id": pid,
            "quick_cmd": f"./check {pid} --tier quick",
            "thorough_cmd": f"./check {pid} --tier thorough",
            "evidence_file": f"/verif/evidence/{pid}.json",
            "replay_cmd_template": f"./check {pid} --replay {{path}}",
            "engine": "lean-proof+correspondence",
            "level_claimed": {"category": "proof", "text": text, "design_ref": f"DESIGN.md §6 {pid}"},
            "level_note": note,
            "technique": tech,
        })
    else:
        na.append({"property_id": pid, "reason": NOT_YET})

hook_commits = subprocess.run(['git', '-C', '/repo', 'log', '--format=%H %s'], capture_output=True, text=True).stdout.splitlines()
hook_commits = [l.split()[0] for l in hook_commits if 'verif hook' in l]
m = {
 "version": 1,
 "setup_cmd": "./setup.sh",
 "hooks": {
   "guard": "kodama_verif",
   "enable": "RUSTFLAGS='--cfg kodama_verif' (set by /verif/check when building /verif/harness against /repo)",
   "baseline_off_cmd": "cd /repo && cargo test --workspace --no-fail-fast --offline",
   "source_commits": hook_commits,
   "add_only": True,
 },
 "engines": [
   {"name": "lean-proof+correspondence", "path": "/verif/check", "serves_properties": [c["property_id"] for c in checks],
    "kind_free_text": "Lean 4 model (lean/Kodama) with kernel-checked property theorems; translator tools/extract.py regenerates lean/Kodama/Generated from /repo on every run; Rust harness (harness/) runs the real crate and the compiled Lean driver on the same inputs and compares bit patterns; independent Rust oracles search for failing inputs"}
 ],
 "checks": checks,
 "not_applicable": na,
 "notes": "See DESIGN.md. Every check: translator -> lake build Props.<ID> -> axiom audit -> cargo build harness (hooks on) -> correspondence + oracle -> verdict -> evidence.",
}
json.dump(m, open(os.path.join(ROOT, 'MANIFEST.json'), 'w'), indent=1)
print(len(checks), 'claimed;', len(na), 'not claimed')
