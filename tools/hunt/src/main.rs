use kodama::{nnchain, MethodChain, Dendrogram};
use std::panic;

struct Rng(u64);
impl Rng {
    fn next(&mut self) -> u64 { self.0 ^= self.0 << 13; self.0 ^= self.0 >> 7; self.0 ^= self.0 << 17; self.0 }
    fn below(&mut self, n: u64) -> u64 { self.next() % n }
}

fn valid<T: kodama::Float>(n: usize, d: &Dendrogram<T>) -> Result<(), String> {
    if d.len() != n - 1 { return Err(format!("len {}", d.len())); }
    let mut used = vec![false; 2 * n - 1];
    let mut size = vec![1usize; 2 * n - 1];
    for (i, s) in d.steps().iter().enumerate() {
        for &c in &[s.cluster1, s.cluster2] {
            if c >= n + i { return Err(format!("step {} label {} not yet created", i, c)); }
            if used[c] { return Err(format!("step {} label {} used twice", i, c)); }
            used[c] = true;
        }
        if s.cluster1 == s.cluster2 { return Err(format!("step {} same label", i)); }
        size[n + i] = size[s.cluster1] + size[s.cluster2];
        if s.size != size[n + i] { return Err(format!("step {} size {} vs {}", i, s.size, size[n + i])); }
        if i > 0 && d.steps()[i - 1].dissimilarity > s.dissimilarity { return Err(format!("step {} unsorted", i)); }
    }
    Ok(())
}

fn gen(rng: &mut Rng, n: usize, w32: bool) -> Vec<f64> {
    if std::env::var("HALLEQ").is_ok() {
        // all entries equal v (random mantissa), optionally a handful jittered by a few ulps
        let v0 = 1.0 + (rng.below(1 << 30) as f64) / (1u64 << 30) as f64;
        let v = if w32 { v0 as f32 as f64 } else { v0 };
        let ulp = if w32 { f32::EPSILON as f64 } else { f64::EPSILON };
        let len = n * (n - 1) / 2;
        let mut out = vec![v; len];
        let j = rng.below(4);
        for _ in 0..j { let i = rng.below(len as u64) as usize; out[i] = v + (rng.below(7) as f64 - 3.0) * ulp; }
        return out;
    }
    // groups
    let g = 2 + rng.below(4) as usize;
    let flat = std::env::var("HG").is_ok() && rng.below(2)==0;
    let eqs = std::env::var("HE").is_ok(); let gs = 1 + rng.below(3) as usize;
    let grp: Vec<usize> = (0..n).map(|i| if eqs { i / gs } else if flat { i } else { rng.below(g as u64) as usize }).collect();
    let mant = 1.0 + (rng.below(1 << 20) as f64) / (1u64 << 20) as f64; // [1,2)
    let v = if rng.below(2) == 0 { mant } else { 1.999 + (rng.below(1000) as f64) * 1e-6 };
    let v = if w32 { v as f32 as f64 } else { v };
    let ulp = if w32 { (f32::EPSILON as f64) * if v >= 1.0 { 1.0 } else { 0.5 } } else { f64::EPSILON };
    let mut out = vec![];
    let spread = 1 + rng.below(3) as i64;
    for i in 0..n { for j in i + 1..n {
        if grp[i] == grp[j] {
            out.push(0.001 * (1.0 + (rng.below(1000) as f64) * 0.001));
        } else {
            let k = if rng.below(3) == 0 { rng.below((2 * spread + 1) as u64) as i64 - spread } else { 0 };
            out.push(v + k as f64 * ulp);
        }
    } }
    out
}

fn main() {
    let seed: u64 = std::env::args().nth(1).map(|s| s.parse().unwrap()).unwrap_or(1);
    let iters: u64 = std::env::args().nth(2).map(|s| s.parse().unwrap()).unwrap_or(1000000);
    let mut rng = Rng(seed.wrapping_mul(0x9E3779B97F4A7C15) | 1);
    panic::set_hook(Box::new(|_| {}));
    let mut found = 0;
    for it in 0..iters {
        let n = if std::env::var("HALLEQ").is_ok() { 4 + rng.below(40) as usize } else { 5 + rng.below(12) as usize };
        let w32 = rng.below(3) != 0;
        let m = match std::env::var("HM").as_deref() { Ok("ward") => MethodChain::Ward, Ok("weighted") => MethodChain::Weighted, _ => MethodChain::Average };
        let vals = gen(&mut rng, n, w32);
        let r = if w32 {
            let mut v: Vec<f32> = vals.iter().map(|&x| x as f32).collect();
            panic::catch_unwind(move || { let d = nnchain(&mut v, n, m); valid(n, &d) })
        } else {
            let mut v = vals.clone();
            panic::catch_unwind(move || { let d = nnchain(&mut v, n, m); valid(n, &d) })
        };
        let bad = match &r { Err(_) => Some("panic".to_string()), Ok(Err(e)) => Some(e.clone()), Ok(Ok(())) => None };
        if let Some(e) = bad {
            found += 1;
            println!("it={} n={} w32={} m={:?} :: {} :: {:?}", it, n, w32, m, e, if w32 { vals.iter().map(|&x| (x as f32).to_bits() as u64).collect::<Vec<_>>() } else { vals.iter().map(|x| x.to_bits()).collect() });
            // shrink: drop observations while still failing
            let mut cur = vals.clone(); let mut cn = n;
            loop {
                let mut improved = false;
                for drop in 0..cn {
                    if cn <= 3 { break; }
                    let mut v2 = vec![];
                    let mut k = 0;
                    for i in 0..cn { for j in i + 1..cn { if i != drop && j != drop { v2.push(cur[k]); } k += 1; } }
                    let nn = cn - 1;
                    let fails = if w32 {
                        let mut v: Vec<f32> = v2.iter().map(|&x| x as f32).collect();
                        !matches!(panic::catch_unwind(move || { let d = nnchain(&mut v, nn, m); valid(nn, &d) }), Ok(Ok(())))
                    } else {
                        let mut v = v2.clone();
                        !matches!(panic::catch_unwind(move || { let d = nnchain(&mut v, nn, m); valid(nn, &d) }), Ok(Ok(())))
                    };
                    if fails { cur = v2; cn = nn; improved = true; break; }
                }
                if !improved { break; }
            }
            println!("  shrunk n={} vals={:?}", cn, cur);
            if found >= 3 { break; }
        }
    }
    println!("done found={}", found);
}
