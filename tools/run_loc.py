"""
C18 correspondence + oracle session for the `locations` tool (kodama-bin/src/locations.rs).

runner_c18(pid, tier, seed, driver, BUILD, REPO) -> report dict (the shape /verif/check expects).

What is run, per generated or shipped CSV:
  * the real binary, built from REPO's working tree (release), with RAYON_NUM_THREADS in
    {1,2,3,8,16} x repeats, all seven method names, no --method, and invalid names;
  * the Lean model (driver ops `loc ...`, Kodama/DriverLoc.lean) on the bit patterns of the parsed
    coordinates;
  * a reference Rust program (<ROOT>/loc_ref, linked against REPO's kodama) that calls
    `kodama::linkage` directly on the matrix file the tool saved.

Checks (failure kind in brackets):
  (i)   --save-dist-to bytes identical across thread counts and repeats [oracle]; equal to the
        model's `encodeLE` bytes / matrix bit patterns [model]; within 1e-9 of an independent
        Python Haversine over the row-major upper triangle, and of the right length [oracle]
  (ii)  stdout rows (heights re-parsed with float(): exact for ryu's shortest output) equal the
        reference `linkage` steps on the saved matrix [oracle] and the model's steps [model];
        stdout byte-identical across thread counts [oracle]
  (iii) --load-dist-from <saved> gives byte-identical stdout, and re-saving gives identical bytes [oracle]
  (iv)  unknown method names: non-zero status and empty stdout [oracle]; status equals the model's [model];
        known names and no --method: status 0 [oracle]
  (v)   a .dist whose length is not a multiple of 8: non-zero status, empty stdout [oracle];
        the model's decodeLE rejects the same bytes [model]
"""
import hashlib
import json
import math
import os
import random
import shlex
import shutil
import struct
import subprocess
import time
from decimal import Decimal

METHODS = ['single', 'complete', 'average', 'weighted', 'ward', 'centroid', 'median']
INVALID = ['Single', 'wards', '', 'WARD', 'sinle', 'average2', 'médian', 'complete-linkage']
THREADS = [1, 2, 3, 8, 16]
TOOL_TIMEOUT = 60
MAX_FAILURES = 40
HEADER = 'City,Region,Country,Latitude,Longitude'
ROOT = os.path.dirname(os.path.dirname(os.path.abspath(__file__)))


def _sh(cmd, cwd=None, env=None, timeout=None):
    e = dict(os.environ)
    e['CARGO_NET_OFFLINE'] = 'true'
    if env:
        e.update(env)
    try:
        p = subprocess.run(cmd, cwd=cwd, env=e, stdout=subprocess.PIPE, stderr=subprocess.STDOUT, text=True, timeout=timeout)
        return p.returncode, p.stdout
    except subprocess.TimeoutExpired as ex:
        so = ex.stdout or ''
        if isinstance(so, bytes):
            so = so.decode('utf-8', 'replace')
        return 124, so + '\nTIMEOUT'


def bits_of(x):
    return struct.unpack('<Q', struct.pack('<d', x))[0]


# ---------------------------------------------------------------------------------------------
# builds

def build_tool(BUILD, REPO):
    real = os.path.realpath(REPO)
    tdir = os.path.join(BUILD, 'bin') if real == '/repo' else os.path.join(BUILD, 'bin_' + hashlib.sha1(real.encode()).hexdigest()[:8])
    rc, out = _sh(['cargo', 'build', '--offline', '--release', '-p', 'kodama-bin'], cwd=REPO, env={'CARGO_TARGET_DIR': tdir}, timeout=1800)
    exe = os.path.join(tdir, 'release', 'locations')
    if rc != 0 or not os.path.exists(exe):
        return None, out[-2500:]
    return exe, ''


def build_ref(BUILD, REPO):
    """Copy <ROOT>/loc_ref to <BUILD>/loc_ref_src with the kodama path set to REPO; build it."""
    src = os.path.join(ROOT, 'loc_ref')
    dst = os.path.join(BUILD, 'loc_ref_src')
    os.makedirs(os.path.join(dst, 'src'), exist_ok=True)
    toml = open(os.path.join(src, 'Cargo.toml')).read().replace('path = "/repo"', 'path = "%s"' % os.path.realpath(REPO))
    old = open(os.path.join(dst, 'Cargo.toml')).read() if os.path.exists(os.path.join(dst, 'Cargo.toml')) else None
    if old != toml:
        open(os.path.join(dst, 'Cargo.toml'), 'w').write(toml)
    main_src = open(os.path.join(src, 'src', 'main.rs')).read()
    mp = os.path.join(dst, 'src', 'main.rs')
    if not os.path.exists(mp) or open(mp).read() != main_src:
        open(mp, 'w').write(main_src)
    real = os.path.realpath(REPO)
    tdir = os.path.join(BUILD, 'loc_ref') if real == '/repo' else os.path.join(BUILD, 'loc_ref_' + hashlib.sha1(real.encode()).hexdigest()[:8])
    rc, out = _sh(['cargo', 'build', '--offline', '--release'], cwd=dst, env={'CARGO_TARGET_DIR': tdir}, timeout=1800)
    exe = os.path.join(tdir, 'release', 'kodama-loc-ref')
    if rc != 0 or not os.path.exists(exe):
        return None, out[-2500:]
    return exe, ''


# ---------------------------------------------------------------------------------------------
# inputs

def fmt_coord(rng, x):
    """One of several decimal spellings of (about) x; the value used is float(spelling)."""
    k = rng.randrange(8)
    if k == 0:
        return repr(x)
    if k == 1:
        return '%.4f' % x
    if k == 2:
        return '%.6f' % x
    if k == 3:
        return '%.2f' % x
    if k == 4:
        return '%.10e' % x
    if k == 5:
        return '%.25f' % x            # more digits than a double holds: exercises correct rounding
    if k == 6:
        return '%d' % int(x)
    return repr(float('%.3f' % x))


def gen_records(rng, n, dist):
    """List of (lat_text, lon_text); `dist` counts the special points drawn."""
    recs = []
    style = rng.choice(['uniform', 'cluster', 'mixed', 'grid'])
    centre = (rng.uniform(-60, 60), rng.uniform(-170, 170))
    for _ in range(n):
        r = rng.random()
        if recs and r < 0.10:
            recs.append(rng.choice(recs)); dist['duplicate'] = dist.get('duplicate', 0) + 1
            continue
        if recs and r < 0.14:
            a, b = rng.choice(recs)        # same point, different spelling
            recs.append(('%.12f' % float(a), '%.12f' % float(b))); dist['duplicate_respelled'] = dist.get('duplicate_respelled', 0) + 1
            continue
        if r < 0.19:
            recs.append((rng.choice(['90', '90.0', '-90', '-90.000']), fmt_coord(rng, rng.uniform(-180, 180)))); dist['pole'] = dist.get('pole', 0) + 1
            continue
        if r < 0.25:
            recs.append((fmt_coord(rng, rng.uniform(-90, 90)), rng.choice(['180', '-180', '180.0', '-180.00', '179.99999999', '-179.99999999']))); dist['antimeridian'] = dist.get('antimeridian', 0) + 1
            continue
        if recs and r < 0.31:
            a, b = rng.choice(recs)
            eps = rng.choice([1e-13, 1e-9, 1e-7, 1e-5])
            la = min(90.0, max(-90.0, float(a) + eps * rng.choice([-1, 0, 1])))
            lo = min(180.0, max(-180.0, float(b) + eps * rng.choice([-1, 1])))
            recs.append((repr(la), repr(lo))); dist['tiny_separation'] = dist.get('tiny_separation', 0) + 1
            continue
        if recs and r < 0.34:
            a, b = rng.choice(recs)        # antipode
            lo = float(b) + 180.0
            lo = lo - 360.0 if lo > 180.0 else lo
            recs.append((repr(-float(a)), repr(lo))); dist['antipode'] = dist.get('antipode', 0) + 1
            continue
        if r < 0.37:
            recs.append((rng.choice(['0', '0.0', '-0.0', '0e0']), rng.choice(['0', '0.0', '-0.0']))); dist['origin'] = dist.get('origin', 0) + 1
            continue
        if style == 'cluster' or (style == 'mixed' and rng.random() < 0.5):
            la = min(90.0, max(-90.0, centre[0] + rng.gauss(0, 0.5)))
            lo = min(180.0, max(-180.0, centre[1] + rng.gauss(0, 0.5)))
        elif style == 'grid':
            la = float(rng.randrange(-9, 10) * 10)
            lo = float(rng.randrange(-18, 19) * 10)
        else:
            la = math.degrees(math.asin(rng.uniform(-1, 1)))
            lo = rng.uniform(-180, 180)
        recs.append((fmt_coord(rng, la), fmt_coord(rng, lo)))
        dist['ordinary'] = dist.get('ordinary', 0) + 1
    return recs


def csv_field(s):
    if any(c in s for c in ',"\n'):
        return '"' + s.replace('"', '""') + '"'
    return s


def write_csv(path, recs, rng):
    with open(path, 'w', newline='') as f:
        f.write(HEADER + '\n')
        for i, (a, b) in enumerate(recs):
            city = rng.choice(['Town%d' % i, 'St. %d, East' % i, 'O"Hare %d' % i, '', 'Zürich %d' % i])
            f.write(','.join([csv_field(city), 'MA', 'US', a, b]) + '\n')


def read_shipped(path):
    """(lat_text, lon_text) of a shipped file, read with a minimal CSV reader (quotes honoured)."""
    import csv as pycsv
    out = []
    with open(path, newline='') as f:
        rd = pycsv.reader(f)
        head = next(rd)
        la, lo = head.index('Latitude'), head.index('Longitude')
        for row in rd:
            out.append((row[la], row[lo]))
    return out


def py_haversine(a, b):
    lat1, lon1, lat2, lon2 = (math.radians(float(a[0])), math.radians(float(a[1])), math.radians(float(b[0])), math.radians(float(b[1])))
    x = math.sin((lat2 - lat1) / 2.0) ** 2 + math.cos(lat1) * math.cos(lat2) * math.sin((lon2 - lon1) / 2.0) ** 2
    return 2.0 * 3958.756 * math.atan(math.sqrt(x))


# ---------------------------------------------------------------------------------------------
# running things

class Tool:
    def __init__(self, exe, scratch):
        self.exe = exe
        self.scratch = scratch
        self.calls = 0
        self.cur_n = 0
        self.distinct = set()

    def run(self, csv, threads, method=None, save=None, load=None, method_eq=False):
        cmd = [self.exe, csv]
        if method is not None:
            cmd += (['--method=' + method] if method_eq else ['--method', method])
        if load:
            cmd += ['--load-dist-from', load]
        if save:
            cmd += ['--save-dist-to', save]
        env = dict(os.environ)
        env['RAYON_NUM_THREADS'] = str(threads)
        self.calls += 1
        if self.cur_n >= 3:
            self.distinct.add((csv, method, method_eq, bool(save), os.path.basename(load) if load else None, threads))
        try:
            p = subprocess.run(cmd, env=env, stdout=subprocess.PIPE, stderr=subprocess.PIPE, timeout=TOOL_TIMEOUT)
            return p.returncode, p.stdout, stderr_gist(p.stderr.decode('utf-8', 'replace')), 'RAYON_NUM_THREADS=%d ' % threads + shlex.join(cmd)
        except subprocess.TimeoutExpired:
            return None, b'', 'TIMEOUT', 'RAYON_NUM_THREADS=%d ' % threads + shlex.join(cmd)


def stderr_gist(se):
    """The informative part of stderr: the error / panic message, not timings or a backtrace."""
    keep = [l for l in se.split('\n') if l and not l.startswith(('load condensed matrix took', 'writing matrix took', 'linkage took'))]
    out = []
    for l in keep:
        if l.startswith('stack backtrace'):
            break
        out.append(l)
    return '\n'.join(out)[:600]


def parse_rows(stdout):
    """stdout CSV -> canonical 'c1,c2,bits,size;...' (None if not parseable)."""
    text = stdout.decode('utf-8', 'replace')
    if text == '':
        return '', []
    lines = text.split('\n')
    if lines[-1] == '':
        lines.pop()
    if lines[0] != 'cluster1,cluster2,dissimilarity,size':
        return None, []
    rows, heights = [], []
    for l in lines[1:]:
        p = l.split(',')
        if len(p) != 4:
            return None, []
        try:
            rows.append('%d,%d,%d,%d' % (int(p[0]), int(p[1]), bits_of(float(p[2])), int(p[3])))
            heights.append(p[2])
        except ValueError:
            return None, []
    return ';'.join(rows), heights


def drive(driver, lines):
    p = subprocess.run([driver], input='\n'.join(lines) + '\n', stdout=subprocess.PIPE, stderr=subprocess.PIPE, text=True, timeout=3000)
    out = p.stdout.split('\n')
    if out and out[-1] == '':
        out.pop()
    if len(out) != len(lines):
        raise RuntimeError('driver returned %d lines for %d requests (rc=%s) %s' % (len(out), len(lines), p.returncode, p.stderr[-300:]))
    return out


def short(s, k=160):
    s = str(s)
    return s if len(s) <= k else s[:k] + '…(%d chars)' % len(s)


def first_diff(a, b):
    n = min(len(a), len(b))
    for i in range(n):
        if a[i] != b[i]:
            return i
    return n if len(a) != len(b) else -1


# ---------------------------------------------------------------------------------------------

def runner_c18(pid, tier, seed, driver, BUILD, REPO):
    t0 = time.time()
    rng = random.Random((seed * 1000003 + 18) & 0xffffffff)
    thorough = tier == 'thorough'
    rep = {'evaluations': 0, 'distinct_nontrivial': 0, 'compared_with_model': 0, 'oracle_checked': 0,
           'rule': 'one evaluation = one run of the locations binary whose status/stdout/saved file was checked; distinct non-trivial = distinct (csv, arguments, thread count) with >= 3 records',
           'samples': [], 'distribution': {}, 'failures': [], 'notes': [], 'extra': {}, 'checked_build': False}
    fails = rep['failures']

    def fail(kind, what, ops, impl, model):
        if len(fails) < 40:
            fails.append({'kind': kind, 'what': what, 'ops': [short(o, 20000 if ' csv-text=' in o else 4000) for o in ops], 'impl': [short(x, 600) for x in impl], 'model': [short(x, 600) for x in model]})
        else:
            rep['extra']['failures_not_listed'] = rep['extra'].get('failures_not_listed', 0) + 1

    exe, err = build_tool(BUILD, REPO)
    if exe is None:
        rep['notes'].append('cargo could not build kodama-bin from the working tree')
        rep['extra']['infrastructure_error'] = err
        fail('model', 'cannot build the locations binary from the working tree (nothing was compared): ' + err[-600:], ['cargo build --offline --release -p kodama-bin'], [], [])
        return rep
    ref, err = build_ref(BUILD, REPO)
    if ref is None:
        rep['notes'].append('cargo could not build the reference helper loc_ref against the working tree')
        rep['extra']['infrastructure_error'] = err
        fail('model', 'cannot build loc_ref against the working tree (nothing was compared): ' + err[-600:], ['cargo build --offline --release (loc_ref)'], [], [])
        return rep
    if not driver:
        rep['notes'].append('no model driver: model comparisons skipped, oracles only')

    scratch = os.path.join(BUILD, 'loc_scratch')
    shutil.rmtree(scratch, ignore_errors=True)
    os.makedirs(scratch)
    tool = Tool(exe, scratch)

    dist = rep['distribution']
    d_n, d_special, d_meth, d_thr, d_src = {}, {}, {}, {}, {}
    dist.update({'record_counts': d_n, 'special_points': d_special, 'methods': d_meth, 'thread_counts': d_thr, 'sources': d_src})
    ryu = {'heights': 0, 'shortest_agrees_with_python_repr': 0}

    # ---- the cases -------------------------------------------------------------------------
    cases = []  # (name, recs, csv_path_or_None)
    max_n = 300 if thorough else 60
    sizes = [0, 1, 2, 3, 4, 5]
    sizes += [rng.randrange(6, max_n + 1) for _ in range(150 if thorough else 30)]
    sizes += [rng.randrange(3, 13) for _ in range(80 if thorough else 12)]
    if thorough:
        sizes += [300, 299, 257, 256]
    else:
        sizes += [60]
    for k, n in enumerate(sizes):
        cases.append(('gen%03d_n%d' % (k, n), gen_records(rng, n, d_special), None))
    ship_dir = os.path.join(REPO, 'data', 'locations')
    ship_limit = 1500 if thorough else 300
    for fn in ['ma-tiny.csv', 'ma-small.csv', 'ma-bench-small.csv', 'ma-bench.csv', 'new-england.csv', 'us-sample.csv', 'ma.csv', 'ma-bench-large.csv']:
        p = os.path.join(ship_dir, fn)
        if not os.path.exists(p):
            rep['notes'].append('shipped file missing: ' + fn)
            continue
        recs = read_shipped(p)
        if len(recs) <= ship_limit:
            cases.append(('shipped:' + fn, recs, p))
        else:
            # a contiguous slice of the file, re-written with the same text fields
            k = rng.randrange(ship_limit // 3, (ship_limit if thorough and fn in ('new-england.csv', 'ma.csv') else ship_limit // 2) + 1)
            off = rng.randrange(0, len(recs) - k)
            cases.append(('shipped-slice:%s[%d:%d]' % (fn, off, off + k), recs[off:off + k], None))

    repeats = 3 if thorough else 2
    for ci, (name, recs, path) in enumerate(cases):
        n = len(recs)
        tool.cur_n = n
        d_n[str(n)] = d_n.get(str(n), 0) + 1
        src = 'generated' if name.startswith('gen') else name.split('[')[0]
        d_src[src] = d_src.get(src, 0) + 1
        if path is None:
            path = os.path.join(scratch, 'case%03d.csv' % ci)
            write_csv(path, recs, rng)
        csv_note = 'csv=%s n=%d' % (path, n) + ((' records=' + ' '.join(a + '/' + b for a, b in recs)) if n <= 12 else '')
        if n <= 40 and not name.startswith('shipped:'):
            csv_note += ' csv-text=' + json.dumps(open(path).read())
        coords = [(float(a), float(b)) for a, b in recs]
        argbits = ' '.join('%d %d' % (bits_of(a), bits_of(b)) for a, b in coords)
        mseed = rng.randrange(1000)
        expected_len = n * (n - 1) // 2 if n >= 2 else 0

        # ---- model ------------------------------------------------------------------------
        model = {}
        if driver:
            reqs = []
            reqs.append(('matrix', 'loc %s %d %d %s' % ('bytes' if n <= 64 else 'matrix', mseed, n, argbits)))
            if n <= 24:
                reqs.append(('matrixord', 'loc matrixord %d %d %s' % (mseed + 1, n, argbits)))
            for m in METHODS + ['-'] + INVALID:
                reqs.append(('run:' + m, 'loc run %s %d %d %s' % (m, mseed + 2, n, argbits)))
            try:
                outs = drive(driver, [r[1] for r in reqs])
                for (k, line), o in zip(reqs, outs):
                    model[k] = o
                    if o == 'bad-op':
                        fail('model', 'model driver answered bad-op for ' + k, [short(line, 300)], [], [o])
            except Exception as ex:  # noqa: BLE001
                fail('model', 'model driver failed: ' + str(ex), [csv_note], [], [])
                model = {}

        # ---- (i) matrix runs: thread counts x repeats, with --save-dist-to ------------------
        saved_first = None
        saved_path = None
        matrix_ok = True
        stdout_by_method = {}
        combos = [(t, r) for t in THREADS for r in range(repeats)]
        meths_cycle = METHODS + [None]
        rng.shuffle(meths_cycle)
        for k, (t, r) in enumerate(combos):
            m = meths_cycle[k % len(meths_cycle)]
            sp = os.path.join(scratch, 'case%03d_t%d_r%d.dist' % (ci, t, r))
            rc, so, se, cmdline = tool.run(path, t, m, save=sp)
            rep['evaluations'] += 1
            d_thr[str(t)] = d_thr.get(str(t), 0) + 1
            d_meth[m or '(none)'] = d_meth.get(m or '(none)', 0) + 1
            if rc is None:
                fail('hang', 'locations did not finish within %d s' % TOOL_TIMEOUT, [cmdline, csv_note], [], [])
                continue
            rep['oracle_checked'] += 1
            if rc != 0:
                fail('oracle', 'valid input and method, but exit status %d' % rc, [cmdline, csv_note], [se], ['exit status 0'])
                continue
            data = open(sp, 'rb').read() if os.path.exists(sp) else None
            if data is None:
                fail('oracle', '--save-dist-to wrote no file', [cmdline, csv_note], [], [])
                continue
            if saved_first is None:
                saved_first, saved_path, saved_cmd = data, sp, cmdline
                # shape + independent Haversine (tolerance) over the row-major upper triangle
                rep['oracle_checked'] += 1
                if len(data) != 8 * expected_len:
                    matrix_ok = False
                    fail('oracle', 'saved matrix has %d bytes, n(n-1)/2 f64 words would be %d' % (len(data), 8 * expected_len), [cmdline, csv_note], [len(data)], [8 * expected_len])
                else:
                    words = struct.unpack('<%dd' % expected_len, data)
                    k2 = 0
                    bad = None
                    for i in range(n):
                        for j in range(i + 1, n):
                            e = py_haversine(recs[i], recs[j])
                            if not abs(words[k2] - e) <= 1e-9 * max(1.0, abs(e)):
                                bad = bad or (k2, i, j, words[k2], e)
                            k2 += 1
                    if bad:
                        matrix_ok = False
                        fail('oracle', 'saved matrix entry %d is not the Haversine distance of records (%d,%d) of the row-major upper triangle' % bad[:3], [cmdline, csv_note], [repr(bad[3])], [repr(bad[4])])
                # model matrix
                if 'matrix' in model and model['matrix'].startswith('ok'):
                    rep['compared_with_model'] += 1
                    if n <= 64:
                        mb = model['matrix'].split('bytes=')[1]
                        if mb != data.hex():
                            d = first_diff(mb, data.hex())
                            fail('model', 'saved matrix bytes differ from the model (encodeLE of the model matrix) at byte %d' % (d // 2), [cmdline, csv_note], [data.hex()[max(0, d - 16):d + 32]], [mb[max(0, d - 16):d + 32]])
                    else:
                        mw = [int(x) for x in model['matrix'].split('bits=')[1].split()]
                        iw = list(struct.unpack('<%dQ' % (len(data) // 8), data)) if len(data) % 8 == 0 else None
                        if mw != iw:
                            d = first_diff(mw, iw or [])
                            fail('model', 'saved matrix words differ from the model at word %d (lengths %d / %d)' % (d, len(iw or []), len(mw)), [cmdline, csv_note], (iw or [])[d:d + 3], mw[d:d + 3])
                    if 'matrixord' in model:
                        mw = [int(x) for x in model['matrixord'].split('bits=')[1].split()] if 'bits=' in model['matrixord'] else None
                        iw = list(struct.unpack('<%dQ' % (len(data) // 8), data)) if len(data) % 8 == 0 else None
                        rep['compared_with_model'] += 1
                        if mw != iw:
                            fail('model', 'saved matrix differs from the model (job-list reading)', [cmdline, csv_note], (iw or [])[:6], (mw or [])[:6])
            elif data != saved_first:
                d = first_diff(data, saved_first)
                fail('oracle', 'saved matrix depends on thread count / run: first difference at byte %d (word %d), lengths %d / %d' % (d, d // 8, len(data), len(saved_first)),
                     [saved_cmd, cmdline, csv_note], [data[max(0, d - 8):d + 16].hex()], [saved_first[max(0, d - 8):d + 16].hex()])
            if data != saved_first:
                pass
            else:
                if sp != saved_path:
                    os.remove(sp)
            # (ii) stdout of this run
            prev = stdout_by_method.get(m)
            if prev is None:
                stdout_by_method[m] = (so, cmdline, data == saved_first)
            elif prev[0] != so and prev[2] and data == saved_first:
                rep['oracle_checked'] += 1
                fail('oracle', 'stdout differs between two runs with the same arguments and the same matrix', [prev[1], cmdline, csv_note], [short(so, 300)], [short(prev[0], 300)])

        if saved_first is None or not matrix_ok or any(f['kind'] == 'hang' for f in fails) or len(fails) >= MAX_FAILURES:
            if saved_first is not None and not matrix_ok:
                rep['notes'].append('%s: the saved matrix failed the shape/Haversine oracle; reference, load and malformed-file checks skipped for this case (a garbage matrix may contain NaN, on which linkage need not terminate)' % name)
            if any(f['kind'] == 'hang' for f in fails) or len(fails) >= MAX_FAILURES:
                rep['notes'].append('stopped after case %d of %d: %d failures%s' % (ci + 1, len(cases), len(fails) + rep['extra'].get('failures_not_listed', 0), ' (a run timed out)' if any(f['kind'] == 'hang' for f in fails) else ''))
                break
            continue

        # ---- (ii) every method (and none) once more without --save, random thread count ------
        ref_lines = {}
        rc, out = _sh([ref, saved_path, str(n)] + METHODS, timeout=120)
        if rc != 0:
            fail('hang' if rc == 124 else 'model', ('kodama::linkage (reference helper) did not finish within 120 s on the saved matrix' if rc == 124 else 'reference helper failed (rc=%d) on the saved matrix' % rc), ['kodama-loc-ref %s %d %s' % (saved_path, n, ' '.join(METHODS)), csv_note], [out[-300:]], [])
            continue
        ro = out.split('\n')
        for m, l in zip(METHODS, ro):
            ref_lines[m] = l
        for m in METHODS + [None]:
            t = rng.choice(THREADS)
            if m in stdout_by_method and rng.random() < 0.5:
                so, cmdline = stdout_by_method[m][0], stdout_by_method[m][1]
                rc = 0
            else:
                rc, so, se, cmdline = tool.run(path, t, m)
                rep['evaluations'] += 1
                d_thr[str(t)] = d_thr.get(str(t), 0) + 1
                d_meth[m or '(none)'] = d_meth.get(m or '(none)', 0) + 1
                if rc is None:
                    fail('hang', 'locations did not finish within %d s' % TOOL_TIMEOUT, [cmdline, csv_note], [], [])
                    continue
                rep['oracle_checked'] += 1
                if rc != 0:
                    fail('oracle', 'valid input and method, but exit status %d' % rc, [cmdline, csv_note], [se], ['exit status 0'])
                    continue
                if m in stdout_by_method and stdout_by_method[m][0] != so and stdout_by_method[m][2]:
                    fail('oracle', 'stdout differs between thread counts / with and without --save-dist-to', [stdout_by_method[m][1], cmdline, csv_note], [short(so, 300)], [short(stdout_by_method[m][0], 300)])
                stdout_by_method.setdefault(m, (so, cmdline, True))
            rows, heights = parse_rows(so)
            want = ref_lines.get(m or 'single', '')
            rep['oracle_checked'] += 1
            if rows is None:
                fail('oracle', 'stdout is not the expected CSV', [cmdline, csv_note], [short(so, 300)], [])
                continue
            if want != 'ok steps=' + rows:
                fail('oracle', 'printed steps are not the steps kodama::linkage returns for the saved matrix (method %s)' % (m or 'none => single'), [cmdline, csv_note, 'kodama-loc-ref %s %d %s' % (saved_path, n, m or 'single')], [short(rows, 500)], [short(want, 500)])
            mk = 'run:' + (m or '-')
            if mk in model:
                rep['compared_with_model'] += 1
                if model[mk] != 'exit=0 steps=' + rows:
                    fail('model', 'printed steps differ from the model (method %s)' % (m or 'none'), [cmdline, csv_note], ['exit=0 steps=' + short(rows, 500)], [short(model[mk], 500)])
            for h in heights:
                ryu['heights'] += 1
                try:
                    if Decimal(h) == Decimal(repr(float(h))):
                        ryu['shortest_agrees_with_python_repr'] += 1
                except Exception:  # noqa: BLE001
                    pass

        # ---- (iii) save -> load ------------------------------------------------------------
        load_methods = (METHODS + [None]) if (thorough or n <= 12) else rng.sample(METHODS, 2) + [None]
        for m in load_methods:
            t = rng.choice(THREADS)
            sp2 = os.path.join(scratch, 'case%03d_resaved.dist' % ci)
            resave = rng.random() < 0.5
            rc, so, se, cmdline = tool.run(path, t, m, save=sp2 if resave else None, load=saved_path)
            rep['evaluations'] += 1
            rep['oracle_checked'] += 1
            if rc is None:
                fail('hang', 'locations did not finish within %d s' % TOOL_TIMEOUT, [cmdline, csv_note], [], [])
                continue
            base = stdout_by_method.get(m)
            if rc != 0 or base is None or so != base[0]:
                fail('oracle', 'save then load does not reproduce the output (status %s)' % rc, [saved_cmd, (base or ('', '?'))[1], cmdline, csv_note], [short(so, 400), se[-200:]], [short((base or (b'',))[0], 400)])
            if resave and rc == 0:
                d2 = open(sp2, 'rb').read() if os.path.exists(sp2) else None
                if d2 != saved_first:
                    fail('oracle', 'load then save does not reproduce the matrix file', [saved_cmd, cmdline, csv_note], [short((d2 or b'').hex(), 200)], [short(saved_first.hex(), 200)])
            if os.path.exists(sp2):
                os.remove(sp2)

        # ---- (iv) invalid method names -----------------------------------------------------
        inv = INVALID if (thorough or ci % 4 == 0) else rng.sample(INVALID, 3)
        for m in inv:
            t = rng.choice(THREADS)
            sp3 = os.path.join(scratch, 'case%03d_inv.dist' % ci)
            with_save = rng.random() < 0.4
            with_load = rng.random() < 0.3
            rc, so, se, cmdline = tool.run(path, t, m, save=sp3 if with_save else None, load=saved_path if with_load else None, method_eq=(m == '' or rng.random() < 0.3))
            rep['evaluations'] += 1
            rep['oracle_checked'] += 1
            d_meth['invalid:' + m] = d_meth.get('invalid:' + m, 0) + 1
            if rc is None:
                fail('hang', 'locations did not finish within %d s' % TOOL_TIMEOUT, [cmdline, csv_note], [], [])
                continue
            if rc == 0 or so != b'':
                fail('oracle', 'unknown method name %r accepted: exit status %d, %d bytes on stdout' % (m, rc, len(so)), [cmdline, csv_note], [short(so, 300)], ['non-zero exit status, empty stdout'])
            mk = 'run:' + m
            if mk in model:
                rep['compared_with_model'] += 1
                wrote = os.path.exists(sp3)
                if model[mk] != 'exit=%d steps=' % rc or wrote:
                    fail('model', 'unknown method name %r: tool status %d%s, model says %s and nothing saved' % (m, rc, ' and a matrix file was written' if wrote else '', model[mk][:40]), [cmdline, csv_note], ['exit=%d' % rc], [short(model[mk], 200)])
            if os.path.exists(sp3):
                os.remove(sp3)

        # ---- (v) malformed .dist files -----------------------------------------------------
        bad_variants = []
        if len(saved_first) >= 8:
            bad_variants.append(('truncated', saved_first[:len(saved_first) - rng.randrange(1, 8)]))
        bad_variants.append(('extra', saved_first + bytes(rng.randrange(256) for _ in range(rng.randrange(1, 8)))))
        for tag, blob in bad_variants:
            bp = os.path.join(scratch, 'case%03d_%s.dist' % (ci, tag))
            open(bp, 'wb').write(blob)
            m = rng.choice(METHODS + [None])
            t = rng.choice(THREADS)
            rc, so, se, cmdline = tool.run(path, t, m, load=bp)
            rep['evaluations'] += 1
            rep['oracle_checked'] += 1
            if rc is None:
                fail('hang', 'locations did not finish within %d s' % TOOL_TIMEOUT, [cmdline, csv_note], [], [])
            elif rc == 0 or so != b'':
                fail('oracle', 'a .dist file of %d bytes (not a multiple of 8) was not rejected: status %d, %d bytes on stdout' % (len(blob), rc, len(so)), [cmdline, csv_note], [short(so, 300)], ['non-zero exit status, empty stdout'])
            if driver and len(blob) <= 4096:
                try:
                    o = drive(driver, ['loc load %s %d %s' % (m or '-', n, blob.hex()), 'loc decode %s' % blob.hex()])
                    rep['compared_with_model'] += 1
                    if rc is not None and (o[0] != 'exit=%d steps=' % rc or o[1] != 'reject'):
                        fail('model', 'malformed .dist: tool status %s, model %s / decodeLE %s' % (rc, o[0][:40], o[1][:20]), [cmdline, csv_note], ['exit=%s' % rc], o)
                except Exception as ex:  # noqa: BLE001
                    fail('model', 'model driver failed: ' + str(ex), [cmdline], [], [])
            os.remove(bp)
        # well-formed file of the wrong size (model: the library's shape assertion -> status 101); model comparison only
        if driver and 3 <= n <= 24 and ci % 3 == 0:
            blob = saved_first[:-8] if rng.random() < 0.5 else saved_first + saved_first[:8]
            bp = os.path.join(scratch, 'case%03d_wrongsize.dist' % ci)
            open(bp, 'wb').write(blob)
            m = rng.choice(METHODS + [None])
            rc, so, se, cmdline = tool.run(path, rng.choice(THREADS), m, load=bp)
            rep['evaluations'] += 1
            try:
                o = drive(driver, ['loc load %s %d %s' % (m or '-', n, blob.hex())])
                rep['compared_with_model'] += 1
                rows, _ = parse_rows(so)
                if o[0] != 'exit=%s steps=%s' % (rc, rows):
                    fail('model', 'well-formed .dist of the wrong size: tool and model disagree', [cmdline, csv_note], ['exit=%s steps=%s' % (rc, short(rows, 200))], [short(o[0], 200)])
            except Exception as ex:  # noqa: BLE001
                fail('model', 'model driver failed: ' + str(ex), [cmdline], [], [])
            os.remove(bp)

        if any(f['kind'] == 'hang' for f in fails) or len(fails) >= MAX_FAILURES:
            rep['notes'].append('stopped after case %d of %d: %d failures' % (ci + 1, len(cases), len(fails) + rep['extra'].get('failures_not_listed', 0)))
            break
        if len(rep['samples']) < 6 and n >= 3:
            rep['samples'].append('%s | %s | threads %s x %d repeats | methods %s + none + invalid %s' % (saved_cmd, short(csv_note, 200), THREADS, repeats, ','.join(METHODS), inv))
        if os.path.exists(saved_path) and not fails:
            os.remove(saved_path)

    # ---- shipped .dist (observation only) ---------------------------------------------------
    sd = os.path.join(ship_dir, 'ma-bench-small.dist')
    sc = os.path.join(ship_dir, 'ma-bench-small.csv')
    if os.path.exists(sd) and os.path.exists(sc):
        sp = os.path.join(scratch, 'shipped_check.dist')
        rc, so, se, cmdline = tool.run(sc, 4, 'average', save=sp)
        rc2, so2, se2, cmdline2 = tool.run(sc, 4, 'average', load=sd)
        rep['evaluations'] += 2
        same_bytes = os.path.exists(sp) and open(sp, 'rb').read() == open(sd, 'rb').read()
        rep['extra']['shipped_ma_bench_small_dist'] = {'bytes_equal_to_recomputed_matrix': same_bytes, 'stdout_equal_when_loaded': (rc == 0 and rc2 == 0 and so == so2)}
        rep['notes'].append('shipped ma-bench-small.dist %s the matrix recomputed now (observation; a file made with another libm may differ in last bits)' % ('equals' if same_bytes else 'differs from'))
        if os.path.exists(sp):
            os.remove(sp)

    rep['distinct_nontrivial'] = len(tool.distinct)
    rep['extra']['ryu_heights_printed'] = ryu
    rep['extra']['tool_invocations'] = tool.calls
    rep['extra']['cases'] = len(cases)
    rep['extra']['binary'] = exe
    rep['extra']['wall_s'] = round(time.time() - t0, 1)
    rep['notes'].append('coordinates reach the model as the bit patterns of Python float(text) (correctly rounded, like Rust\'s parser); the assumption is checked because the model matrix built from them must equal the tool\'s saved matrix bit for bit')
    rep['notes'].append('printed heights are re-parsed with float(text); exact because ryu prints a round-tripping decimal; cross-checked against the reference linkage call on the saved matrix')
    if not fails:
        shutil.rmtree(scratch, ignore_errors=True)
    return rep


def replay_c18(path, driver, BUILD, REPO):
    """Re-run the recorded command lines of a replay file on the binary built from REPO now; print
    status, stdout and the digest of any saved matrix, the reference linkage on that matrix and the
    model's answer for the same records and method."""
    import re
    r = json.load(open(path))
    exe, err = build_tool(BUILD, REPO)
    ref, err2 = build_ref(BUILD, REPO)
    if exe is None or ref is None:
        print('cannot build: ' + (err or err2)[-800:])
        return 2
    ops = r.get('ops', [])
    note = next((o for o in ops if o.startswith('csv=')), '')
    m = re.match(r'csv=(\S+) n=(\d+)', note)
    csvp, n = (m.group(1), int(m.group(2))) if m else (None, 0)
    if ' csv-text=' in note and csvp:
        os.makedirs(os.path.dirname(csvp), exist_ok=True)
        try:
            text = json.loads(note.split(' csv-text=', 1)[1])
        except ValueError:
            text = None
        if text is not None:
            open(csvp, 'w', newline='').write(text)
    if csvp is None or not os.path.exists(csvp):
        print('the CSV of this replay is not available: ' + str(csvp))
        return 2
    recs = read_shipped(csvp)
    argbits = ' '.join('%d %d' % (bits_of(float(a)), bits_of(float(b))) for a, b in recs)
    print('property C18 replay: %s\n  recorded: %s' % (path, r.get('what')))
    for o in ops:
        if not o.startswith('RAYON_NUM_THREADS='):
            continue
        parts = shlex.split(o)
        env = dict(os.environ)
        env['RAYON_NUM_THREADS'] = parts[0].split('=')[1]
        args = parts[2:]
        p = subprocess.run([exe] + args, env=env, stdout=subprocess.PIPE, stderr=subprocess.PIPE, timeout=TOOL_TIMEOUT)
        print('implementation: %s\n  status=%d stdout=%s stderr=%s' % (o, p.returncode, short(p.stdout.decode('utf-8', 'replace'), 600), short(stderr_gist(p.stderr.decode('utf-8', 'replace')), 300)))
        meth = None
        for i, a in enumerate(args):
            if a == '--method' and i + 1 < len(args):
                meth = args[i + 1]
            elif a.startswith('--method='):
                meth = a[len('--method='):]
        sp = args[args.index('--save-dist-to') + 1] if '--save-dist-to' in args else None
        if sp and os.path.exists(sp):
            data = open(sp, 'rb').read()
            print('  saved matrix: %d bytes sha1=%s' % (len(data), hashlib.sha1(data).hexdigest()))
            rc, out = _sh([ref, sp, str(len(recs)), meth or 'single'], timeout=120)
            print('oracle (kodama::linkage on the saved matrix): ' + short(out.strip(), 600))
        if driver and ' ' not in (meth or ''):
            o2 = drive(driver, ['loc run %s 0 %d %s' % ('-' if meth is None else meth, len(recs), argbits)] + (['loc bytes 0 %d %s' % (len(recs), argbits)] if len(recs) <= 64 else []))
            print('model: ' + short(o2[0], 600))
            if len(o2) > 1:
                mb = bytes.fromhex(o2[1].split('bytes=')[1])
                print('  model matrix: %d bytes sha1=%s' % (len(mb), hashlib.sha1(mb).hexdigest()))
    return 0


if __name__ == '__main__':
    import sys
    if len(sys.argv) > 2 and sys.argv[1] == '--replay':
        drv = os.path.join(ROOT, 'lean', '.lake', 'build', 'bin', 'kodama-driver')
        sys.exit(replay_c18(sys.argv[2], drv if os.path.exists(drv) else None, os.path.join(ROOT, 'build'), os.environ.get('VERIF_REPO', '/repo')))
    tier = sys.argv[1] if len(sys.argv) > 1 else 'quick'
    seed = int(sys.argv[2]) if len(sys.argv) > 2 else 1
    repo = sys.argv[3] if len(sys.argv) > 3 else '/repo'
    build = sys.argv[4] if len(sys.argv) > 4 else os.path.join(ROOT, 'build')
    drv = os.path.join(ROOT, 'lean', '.lake', 'build', 'bin', 'kodama-driver')
    r = runner_c18('C18', tier, seed, drv if os.path.exists(drv) else None, build, repo)
    fl = r.pop('failures')
    print(json.dumps(r, indent=1, ensure_ascii=False)[:6000])
    print('FAILURES', len(fl))
    for f in fl[:8]:
        print(json.dumps(f, indent=1, ensure_ascii=False)[:1500])
