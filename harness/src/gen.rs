//! Input generators. Every random choice comes from the `Rng` passed in.
use crate::core::f64_to_bits;
use crate::rng::Rng;

pub const CLASSES: [&str; 18] = [
    "uniform", "lattice", "allequal", "twovalued", "duppoints", "euclid", "geomline", "blobs", "sorted",
    "revsorted", "magnitude", "negmixed", "colmajor", "linewalk", "shrinkline", "ulpties", "signedzeros",
    "ratioblobs",
];

/// Points on a line with strictly growing gaps, observation 0 leftmost, the others numbered so that a
/// nearest-neighbour walk from 0 (Prim's order, the NN chain) visits a DESCENDING block of `l`
/// consecutive indices `a+l-1, …, a` first, then `a+l, …, n-1`, then `1, …, a-1`: drives the active-list
/// range queries through long runs of removed indices (block lengths around powers of two included).
pub fn linewalk(n: usize, a: usize, l: usize) -> Vec<f64> {
    let mut order: Vec<usize> = vec![0];
    let a = a.max(1).min(n.saturating_sub(1).max(1));
    let l = l.min(n.saturating_sub(a));
    for i in (a..a + l).rev() {
        order.push(i);
    }
    for i in a + l..n {
        order.push(i);
    }
    for i in 1..a {
        order.push(i);
    }
    let mut pos = vec![0.0f64; n];
    let (mut x, mut gap) = (0.0f64, 1.0f64);
    for &o in &order {
        pos[o] = x;
        x += gap;
        gap *= 1.03125; // exactly representable growth, gaps stay distinct
    }
    let mut v = Vec::with_capacity(tri(n));
    for i in 0..n {
        for j in i + 1..n {
            v.push((pos[i] - pos[j]).abs());
        }
    }
    v
}

pub fn tri(n: usize) -> usize {
    if n < 2 {
        0
    } else {
        n * (n - 1) / 2
    }
}

fn euclid(pts: &[Vec<f64>]) -> Vec<f64> {
    let n = pts.len();
    let mut v = Vec::with_capacity(tri(n));
    for i in 0..n {
        for j in i + 1..n {
            let mut s = 0.0;
            for k in 0..pts[i].len() {
                let d = pts[i][k] - pts[j][k];
                s += d * d;
            }
            v.push(s.sqrt());
        }
    }
    v
}

/// A matrix of class `class` for `n` observations, as f64 values.
pub fn matrix(rng: &mut Rng, class: &str, n: usize) -> Vec<f64> {
    let len = tri(n);
    match class {
        "uniform" => (0..len).map(|_| rng.unit() * 100.0 + 0.001).collect(),
        "lattice" => {
            let k = rng.range(1, 4) as u64;
            // dyadic units keep every update exact; 0.1 / 1.155 / 1/3 make tied updates ROUND (inversions
            // under rounding, irreducible average/Ward updates)
            let unit = *rng.pick(&[1.0, 0.5, 0.25, 3.0, 0.1, 1.155, 1.0 / 3.0]);
            (0..len).map(|_| (1 + rng.below(k)) as f64 * unit).collect()
        }
        "allequal" => {
            let v = *rng.pick(&[0.0, 1.0, 2.5, 7.0, 1.155, 0.1, 1.16, 1.0 / 3.0, 2.7]);
            vec![v; len]
        }
        "twovalued" => {
            let a = 1.0;
            let b = *rng.pick(&[2.0, 1.5, 0.0, 1.1, 1.155]);
            (0..len).map(|_| if rng.below(2) == 0 { a } else { b }).collect()
        }
        "duppoints" => {
            // integer grid points with duplicates
            let dim = rng.range(1, 2);
            let span = rng.range(1, 3) as u64;
            let pts: Vec<Vec<f64>> = (0..n).map(|_| (0..dim).map(|_| rng.below(span + 1) as f64).collect()).collect();
            euclid(&pts)
        }
        "ratioblobs" => {
            // tight groups far apart: within-group entries ~1e-140, between-group entries ~1e140 (all distinct,
            // clearly separated; squares 1e-280 / 1e280 and their size-weighted sums stay in range).  `to_bits` maps them to 1e-10 / 1e13
            // for f32.  An extreme magnitude RATIO inside one matrix: anything that rescales by the largest
            // entry, or mixes magnitudes in one sum, loses the small entries.
            let g = rng.range(2, 4).min(n.max(1));
            let grp: Vec<usize> = (0..n).map(|i| i % g).collect();
            let mut v = Vec::with_capacity(len);
            let mut c = 0u64;
            for i in 0..n {
                for j in i + 1..n {
                    c += 1;
                    let jitter = 1.0 + (c as f64) * 0.9 / (len as f64 + 1.0) + rng.unit() * 0.001;
                    v.push(if grp[i] == grp[j] { jitter * 1e-140 } else { jitter * 1e140 });
                }
            }
            v
        }
        "euclid" => {
            let dim = rng.range(1, 3);
            let pts: Vec<Vec<f64>> = (0..n).map(|_| (0..dim).map(|_| rng.unit() * 10.0).collect()).collect();
            euclid(&pts)
        }
        "geomline" => {
            // collinear geometric progression: long nearest-neighbour chains
            let ratio: f64 = *rng.pick(&[1.1, 1.3, 2.0, 1.05, 1.6]);
            // keep coordinates below 1e100 so squares stay finite
            let max_exp = (100.0 * std::f64::consts::LN_10 / ratio.ln()).floor() as usize;
            let r = if n > max_exp { (1e100f64).powf(1.0 / n as f64) } else { ratio };
            let mut x = 1.0;
            let mut pts = vec![];
            for _ in 0..n {
                pts.push(vec![x]);
                x *= r;
            }
            if rng.below(2) == 0 {
                pts.reverse();
            }
            euclid(&pts)
        }
        "shrinkline" => {
            // tie-free points on a line whose gaps shrink by a jittered factor: from the wide end the
            // nearest-neighbour chain runs through ALL observations before the first merge (depth n)
            // and is then unwound completely; numbered wide-end-first, narrow-end-first, or in blocks
            let mut x = 0.0f64;
            let mut gap = 1000.0f64;
            let mut pts = vec![];
            for _ in 0..n {
                pts.push(vec![x]);
                x += gap;
                gap *= 0.72 + 0.2 * rng.unit();
            }
            match rng.below(4) {
                0 => pts.reverse(),
                1 => {
                    let k = rng.range(1, n.max(2) - 1).min(n);
                    pts.rotate_left(k % n.max(1));
                }
                _ => {}
            }
            euclid(&pts)
        }
        "ulpties" => {
            // near-ties within a few units in the last place: groups with tiny internal distances
            // (clusters of several sizes form first), every cross-group entry = v + k ulp, |k| <= 3,
            // v with a large mantissa.  This is the structure on which rounding of the average update
            // broke reducibility (corpus/C01.ops); kept as a family so that neighbours of that input
            // are explored on every run.
            let g = 2 + rng.below(4) as usize;
            let flat = rng.below(4) == 0;
            let grp: Vec<usize> = (0..n).map(|i| if flat { i } else { rng.below(g as u64) as usize }).collect();
            let w32ulp = rng.below(3) != 0;
            let v0 = if rng.below(2) == 0 { 1.0 + rng.unit() } else { 1.999 + rng.unit() * 1e-3 };
            let v = if w32ulp { v0 as f32 as f64 } else { v0 };
            let ulp = if w32ulp { f32::EPSILON as f64 } else { f64::EPSILON };
            let spread = 1 + rng.below(3) as i64;
            let mut out = Vec::with_capacity(len);
            for i in 0..n {
                for j in i + 1..n {
                    if grp[i] == grp[j] {
                        out.push(0.001 * (1.0 + rng.below(1000) as f64 * 0.001));
                    } else {
                        let k = if rng.below(3) == 0 { rng.below((2 * spread + 1) as u64) as i64 - spread } else { 0 };
                        out.push(v + k as f64 * ulp);
                    }
                }
            }
            out
        }
        "signedzeros" => {
            // +0.0 and -0.0 are EQUAL values with different bit patterns: anything that orders or
            // hashes by bits instead of by value treats them as different
            let hi = *rng.pick(&[1.0, 2.0, 0.5]);
            (0..len)
                .map(|_| match rng.below(5) {
                    0 => 0.0,
                    1 | 2 => -0.0,
                    3 => hi,
                    _ => 2.0 * hi,
                })
                .collect()
        }
        "neargap" => {
            // a few levels, every entry = level * (1 + k * delta) with small distinct k per level:
            // candidates separated by gaps far above rounding error (>= 1e-11 relative) but below any
            // "reasonable" tolerance (1e-10 .. 1e-8)
            let delta = 10f64.powf(-11.0 + 2.0 * rng.unit());
            let levels = [1.0, 1.5, 2.0, 3.0, 5.0];
            let nl = 1 + rng.below(3) as usize;
            let lv: Vec<usize> = (0..len).map(|_| rng.below(nl as u64) as usize).collect();
            let mut out = vec![0.0; len];
            for l in 0..nl {
                let idx: Vec<usize> = (0..len).filter(|&i| lv[i] == l).collect();
                let mut ks: Vec<u64> = (0..idx.len() as u64).collect();
                rng.shuffle(&mut ks);
                for (j, &i) in idx.iter().enumerate() {
                    out[i] = levels[l] * (1.0 + ks[j] as f64 * delta);
                }
            }
            out
        }
        "blobs" => {
            let k = rng.range(1, 4);
            let centers: Vec<(f64, f64)> = (0..k).map(|_| (rng.unit() * 100.0, rng.unit() * 100.0)).collect();
            let pts: Vec<Vec<f64>> = (0..n)
                .map(|_| {
                    let c = centers[rng.below(k as u64) as usize];
                    vec![c.0 + rng.unit(), c.1 + rng.unit()]
                })
                .collect();
            euclid(&pts)
        }
        "sorted" | "revsorted" => {
            let mut v: Vec<f64> = (0..len).map(|i| 1.0 + i as f64 + if rng.below(4) == 0 { 0.0 } else { rng.unit() * 0.5 }).collect();
            v.sort_by(|a, b| a.partial_cmp(b).unwrap());
            if class == "revsorted" {
                v.reverse();
            }
            v
        }
        "colmajor" => {
            // distinct entries sorted in (reverse) column-major order: every merge invalidates many
            // nearest-neighbour candidates (worst case for lazy repair strategies)
            let rev = rng.below(2) == 0;
            let mut v = Vec::with_capacity(len);
            for i in 0..n {
                for j in i + 1..n {
                    let x = if rev { 1 + (n - j) * n + (n - i) } else { 1 + j * n + i };
                    v.push(x as f64);
                }
            }
            v
        }
        "linewalk" => {
            if n < 4 {
                return (0..len).map(|i| 1.0 + i as f64).collect();
            }
            let l = *rng.pick(&[1usize, 2, 7, 15, 16, 17, 31, 32, 33, 63, 64, 65]).min(&(n - 2));
            let l = if rng.below(3) == 0 { rng.range(1, n - 2) } else { l };
            let a = rng.range(1, (n - l).max(1));
            linewalk(n, a, l)
        }
        "magnitude" => {
            let e = *rng.pick(&[150.0, -150.0, 100.0, -100.0]);
            let s = 10f64.powf(e);
            (0..len).map(|_| (1.0 + rng.below(5) as f64 + if rng.below(2) == 0 { rng.unit() } else { 0.0 }) * s).collect()
        }
        "negmixed" => (0..len)
            .map(|_| {
                let v = rng.below(7) as f64 - 3.0;
                if rng.below(3) == 0 {
                    v + rng.unit()
                } else {
                    v
                }
            })
            .collect(),
        _ => panic!("unknown class {}", class),
    }
}

/// Magnitude classes are rescaled for f32 (1e±18 instead of 1e±150).
pub fn to_bits(class: &str, w32: bool, vals: &[f64]) -> Vec<u64> {
    if w32 && class == "magnitude" {
        let m = vals.iter().fold(0.0f64, |a, &b| a.max(b.abs()));
        // squares (1e30 / 1e-30) keep headroom for the size-weighted sums of Ward/centroid
        let target = if m > 1.0 { 1e15 } else { 1e-15 };
        let f = if m > 0.0 { target / m } else { 1.0 };
        return vals.iter().map(|&x| f64_to_bits(true, x * f)).collect();
    }
    if w32 && class == "ratioblobs" {
        // f32: 1e-10 / 1e13 — the squares (1e-20 / 1e26) AND the size-weighted sums of up to n^2 of them stay
        // inside the range (at 1e17 Ward's sums overflow from n ~ 200 on: inf - inf = NaN, generic spins; outside
        // the safe magnitude range of C12, as for the `magnitude` class)
        return vals.iter().map(|&x| f64_to_bits(true, if x < 1.0 { x * 1e130 } else { x * 1e-127 })).collect();
    }
    if w32 && class == "geomline" {
        // keep squares finite in f32: rescale so that the largest distance is <= 1e15
        let m = vals.iter().fold(0.0f64, |a, &b| a.max(b.abs()));
        let f = if m > 1e14 { 1e14 / m } else { 1.0 };
        return vals.iter().map(|&x| f64_to_bits(true, x * f)).collect();
    }
    vals.iter().map(|&x| f64_to_bits(w32, x)).collect()
}

pub fn has_ties(bits: &[u64]) -> bool {
    let mut v = bits.to_vec();
    v.sort_unstable();
    v.windows(2).any(|w| w[0] == w[1])
}

/// Size distribution: mostly small, some medium, occasionally large.
pub fn size(rng: &mut Rng, max_n: usize) -> usize {
    let r = rng.below(100);
    let n = if r < 6 {
        rng.range(0, 3)
    } else if r < 60 {
        rng.range(3, 12.min(max_n))
    } else if r < 92 {
        rng.range(3, 40.min(max_n))
    } else {
        rng.range(3, max_n)
    };
    n.min(max_n)
}
