//! C20: a counting global allocator (per-thread counters) and the allocation session.
//!
//! `main.rs` must declare
//!     #[global_allocator]
//!     static GLOBAL: alloc::Counting = alloc::Counting;
use std::alloc::{GlobalAlloc, Layout, System};
use std::cell::Cell;

pub struct Counting;

/// What one thread requested from the allocator since its last `begin()`.
/// `live` is relative to the start of the window (frees of older blocks make it negative).
/// A `realloc(old -> new)` is one request of `new` bytes; while it runs both blocks may exist, so it
/// contributes `live + new` to the peak and leaves `live - old + new`.
#[derive(Clone, Copy, Debug, Default, PartialEq, Eq)]
pub struct Counters {
    pub count: u64,
    pub frees: u64,
    pub live: i64,
    pub peak: i64,
    pub largest: u64,
    pub total: u64,
}

thread_local! {
    // const-initialised, no destructor: safe to touch from inside the allocator
    static ON: Cell<bool> = const { Cell::new(false) };
    static C: Cell<Counters> = const { Cell::new(Counters { count: 0, frees: 0, live: 0, peak: 0, largest: 0, total: 0 }) };
}

#[inline]
fn note(f: impl FnOnce(&mut Counters)) {
    let _ = ON.try_with(|on| {
        if on.get() {
            let _ = C.try_with(|c| {
                let mut v = c.get();
                f(&mut v);
                c.set(v);
            });
        }
    });
}

unsafe impl GlobalAlloc for Counting {
    unsafe fn alloc(&self, l: Layout) -> *mut u8 {
        let p = System.alloc(l);
        note(|c| {
            let b = l.size() as u64;
            c.count += 1;
            c.total += b;
            c.largest = c.largest.max(b);
            c.live += b as i64;
            c.peak = c.peak.max(c.live);
        });
        p
    }
    unsafe fn alloc_zeroed(&self, l: Layout) -> *mut u8 {
        let p = System.alloc_zeroed(l);
        note(|c| {
            let b = l.size() as u64;
            c.count += 1;
            c.total += b;
            c.largest = c.largest.max(b);
            c.live += b as i64;
            c.peak = c.peak.max(c.live);
        });
        p
    }
    unsafe fn dealloc(&self, p: *mut u8, l: Layout) {
        System.dealloc(p, l);
        note(|c| {
            c.frees += 1;
            c.live -= l.size() as i64;
        });
    }
    unsafe fn realloc(&self, p: *mut u8, l: Layout, new_size: usize) -> *mut u8 {
        let q = System.realloc(p, l, new_size);
        note(|c| {
            let b = new_size as u64;
            c.count += 1;
            c.total += b;
            c.largest = c.largest.max(b);
            c.peak = c.peak.max(c.live + b as i64);
            c.live += b as i64 - l.size() as i64;
            c.peak = c.peak.max(c.live);
        });
        q
    }
}

/// Start a measurement window on this thread.
pub fn begin() {
    C.with(|c| c.set(Counters::default()));
    ON.with(|o| o.set(true));
}

/// End the window and return what was requested inside it.
pub fn end() -> Counters {
    ON.with(|o| o.set(false));
    C.with(|c| c.get())
}


// ---------------------------------------------------------------------------
// the C20 session
// ---------------------------------------------------------------------------
use std::panic::{self, AssertUnwindSafe};
use std::sync::Arc;
use std::time::Duration;

use kodama::{Dendrogram, LinkageState, Method};

use crate::core::*;
use crate::gen;
use crate::rng::Rng;
use crate::session::*;

#[derive(Clone, Copy, Debug, PartialEq, Eq)]
pub enum Form {
    /// the allocating wrapper (`linkage`, `mst`, ...) on fresh objects
    Wrapper,
    /// the `_with` form on the history's LinkageState / Dendrogram
    With,
    /// replace the history's objects by `LinkageState::new()` and `Dendrogram::new(n)`
    Fresh,
}

impl Form {
    fn name(self) -> &'static str {
        match self {
            Form::Wrapper => "wrapper",
            Form::With => "with",
            Form::Fresh => "fresh",
        }
    }
}

#[derive(Clone, Debug)]
pub struct ACall {
    pub alg: Alg,
    pub method: Method,
    pub n: usize,
    pub form: Form,
    pub class: &'static str,
    pub seed: u64,
}

#[derive(Clone, Debug)]
pub struct AHist {
    pub id: usize,
    pub w32: bool,
    pub pattern: &'static str,
    pub calls: Vec<ACall>,
}

/// Request line for the model (`class` and `seed` are ignored by the driver; they make the line a
/// complete description of the call for the replay).
pub fn op_line_alloc(h: &AHist, c: &ACall) -> String {
    format!(
        "alloc {} {} {} {} {} {} {} {}",
        h.id,
        c.alg.name(),
        method_name(c.method),
        if h.w32 { 32 } else { 64 },
        c.n,
        c.form.name(),
        c.class,
        c.seed
    )
}

/// What was measured around one call; `None` = the call panicked (outside C20's domain).
pub type Meas = Option<Counters>;

fn matrix_for<T: Fl>(c: &ACall) -> Vec<T> {
    let mut rng = Rng::new(c.seed);
    let vals = gen::matrix(&mut rng, c.class, c.n);
    gen::to_bits(c.class, T::W32, &vals).iter().map(|&b| T::from_bits64(b)).collect()
}

fn run_hist_t<T: Fl>(h: &AHist) -> Vec<Meas> {
    let mut st = LinkageState::<T>::new();
    let mut d = Dendrogram::<T>::new(0);
    let mut out = Vec::with_capacity(h.calls.len());
    for c in &h.calls {
        let (alg, m, n) = (c.alg, c.method, c.n);
        match c.form {
            Form::Fresh => {
                begin();
                let nd = Dendrogram::<T>::new(n);
                let ns = LinkageState::<T>::new();
                let k = end();
                d = nd;
                st = ns;
                out.push(Some(k));
            }
            Form::Wrapper => {
                // the matrix exists before the window opens; the dendrogram lives through it
                let mut mat: Vec<T> = matrix_for::<T>(c);
                begin();
                let r = panic::catch_unwind(AssertUnwindSafe(|| match alg {
                    Alg::Primitive => kodama::primitive(&mut mat, n, m),
                    Alg::Nnchain => kodama::nnchain(&mut mat, n, m.into_method_chain().unwrap()),
                    Alg::Generic => kodama::generic(&mut mat, n, m),
                    Alg::Mst => kodama::mst(&mut mat, n),
                    Alg::Linkage => kodama::linkage(&mut mat, n, m),
                }));
                let k = end();
                out.push(if r.is_ok() { Some(k) } else { None });
                drop(r);
            }
            Form::With => {
                let mut mat: Vec<T> = matrix_for::<T>(c);
                begin();
                let r = panic::catch_unwind(AssertUnwindSafe(|| match alg {
                    Alg::Primitive => kodama::primitive_with(&mut st, &mut mat, n, m, &mut d),
                    Alg::Nnchain => kodama::nnchain_with(&mut st, &mut mat, n, m.into_method_chain().unwrap(), &mut d),
                    Alg::Generic => kodama::generic_with(&mut st, &mut mat, n, m, &mut d),
                    Alg::Mst => kodama::mst_with(&mut st, &mut mat, n, &mut d),
                    Alg::Linkage => kodama::linkage_with(&mut st, &mut mat, n, m, &mut d),
                }));
                let k = end();
                if r.is_ok() {
                    out.push(Some(k));
                } else {
                    // capacities after a panic are not modelled: the history ends here
                    out.push(None);
                    break;
                }
            }
        }
    }
    out
}

fn run_hist(h: &AHist) -> Vec<Meas> {
    if h.w32 {
        run_hist_t::<f32>(h)
    } else {
        run_hist_t::<f64>(h)
    }
}

fn ahist_limit(h: &AHist) -> Duration {
    let mut ms: u64 = 20_000;
    for c in &h.calls {
        let n = c.n as u64;
        ms += if c.alg == Alg::Primitive { n * n * n / 2_000 } else { n * n / 50 };
    }
    Duration::from_millis(ms)
}

/// Non-negative classes of `crate::gen` (C20 is about valid inputs; nothing here panics).
const A_CLASSES: [&str; 10] = ["uniform", "lattice", "allequal", "twovalued", "duppoints", "euclid", "geomline", "blobs", "sorted", "revsorted"];

fn pick_alg_method(rng: &mut Rng) -> (Alg, Method) {
    let alg = *rng.pick(&ALGS);
    let mut method = *rng.pick(&METHODS);
    while !alg.accepts(method) {
        method = *rng.pick(&METHODS);
    }
    (alg, method)
}

fn mk_call(rng: &mut Rng, alg: Alg, method: Method, n: usize, form: Form) -> ACall {
    let n = if alg == Alg::Primitive { n.min(150) } else { n };
    // value-dependent classes are only worth their cost on small inputs
    let class = if n > 600 { *rng.pick(&["uniform", "allequal", "sorted", "lattice"]) } else { *rng.pick(&A_CLASSES) };
    ACall { alg, method, n, form, class, seed: rng.next() | 1 }
}

fn small_n(rng: &mut Rng, max_n: usize) -> usize {
    let r = rng.below(100);
    if r < 8 {
        rng.range(0, 2)
    } else if r < 55 {
        rng.range(2, 12)
    } else if r < 85 {
        rng.range(2, 64.min(max_n))
    } else if r < 93 {
        // around the sort's stack-buffer threshold and Vec doubling boundaries
        *rng.pick(&[20, 21, 22, 23, 48, 49, 50, 127, 128, 129, 130, 131, 132, 255, 256, 257, 258])
    } else {
        rng.range(2, max_n)
    }
    .min(max_n)
}

/// A history of calls on one LinkageState / Dendrogram with the given size pattern.
fn gen_hist(rng: &mut Rng, id: usize, max_n: usize) -> AHist {
    let w32 = rng.below(2) == 0;
    let pattern = *rng.pick(&["stay", "shrink", "grow", "growby1", "mixed", "smallrepeat", "presized", "wrappers"]);
    let len = rng.range(3, 9);
    let mut calls = vec![];
    let mut sizes: Vec<usize> = vec![];
    match pattern {
        "stay" => {
            let n = small_n(rng, max_n);
            sizes = vec![n; len];
        }
        "shrink" => {
            let mut n = small_n(rng, max_n).max(8);
            for _ in 0..len {
                sizes.push(n);
                n = if rng.below(3) == 0 { n.saturating_sub(1) } else { n * rng.range(3, 9) / 10 };
            }
        }
        "grow" => {
            let mut n = rng.range(0, 6);
            for _ in 0..len {
                sizes.push(n.min(max_n));
                n = match rng.below(4) {
                    0 => n + 1,
                    1 => 2 * n + rng.range(0, 2),
                    2 => n * 3 / 2 + 1,
                    _ => n + rng.range(1, 40),
                };
            }
        }
        "growby1" => {
            let n = small_n(rng, max_n);
            for k in 0..len {
                sizes.push((n + k).min(max_n));
            }
        }
        "smallrepeat" => {
            for _ in 0..len + 4 {
                sizes.push(rng.range(2, 10));
            }
        }
        _ => {
            for _ in 0..len {
                sizes.push(small_n(rng, max_n));
            }
        }
    }
    if pattern == "presized" {
        // the documented way to amortise: a dendrogram created for the size, a new state
        let n = *sizes.iter().max().unwrap();
        let (alg, method) = pick_alg_method(rng);
        calls.push(mk_call(rng, alg, method, n, Form::Fresh));
    }
    for &n in &sizes {
        let (alg, method) = pick_alg_method(rng);
        let form = if pattern == "wrappers" {
            Form::Wrapper
        } else if rng.below(8) == 0 {
            Form::Wrapper
        } else {
            Form::With
        };
        calls.push(mk_call(rng, alg, method, n, form));
    }
    AHist { id, w32, pattern, calls }
}

fn tri_bytes(n: usize, w32: bool) -> u64 {
    (gen::tri(n) * if w32 { 4 } else { 8 }) as u64
}

struct ModelLine {
    count: u64,
    peak: i64,
    largest: u64,
    total: u64,
    frees: u64,
    scratch: u64,
}

fn parse_model(l: &str) -> Option<ModelLine> {
    let f: Vec<&str> = l.split_whitespace().collect();
    if f.len() < 7 || f[0] != "ok" {
        return None;
    }
    Some(ModelLine {
        count: f[1].parse().ok()?,
        peak: f[2].parse().ok()?,
        largest: f[3].parse().ok()?,
        total: f[4].parse().ok()?,
        frees: f[5].parse().ok()?,
        scratch: f[6].parse().ok()?,
    })
}

fn fmt_meas(k: &Counters) -> String {
    format!("count={} peak={} largest={} total={} frees={}", k.count, k.peak, k.largest, k.total, k.frees)
}

fn build_histories(ctx: &Ctx) -> Vec<AHist> {
    let mut rng = Rng::new(ctx.seed);
    let mut hs: Vec<AHist> = vec![];
    let max_n = if ctx.thorough { 700 } else { 400 };
    let count = ((if ctx.thorough { 30000 } else { 2500 }) as f64 * ctx.scale) as usize;
    for _ in 0..count {
        let id = hs.len();
        hs.push(gen_hist(&mut rng, id, max_n));
    }
    // every n of the quick range, cold wrapper and then the same call warm, all entry points in turn
    let sweep_to = if ctx.thorough { 700 } else { 400 };
    let stride = if ctx.scale < 1.0 { 3 } else { 1 };
    for n in (0..=sweep_to).step_by(stride) {
        for w32 in [false, true] {
            let id = hs.len();
            let mut calls = vec![];
            let alg = ALGS[(n + w32 as usize) % 5];
            let mut method = METHODS[n % 7];
            if !alg.accepts(method) {
                method = Method::Single;
            }
            calls.push(mk_call(&mut rng, alg, method, n, Form::Wrapper));
            calls.push(mk_call(&mut rng, alg, method, n, Form::With));
            let (a2, m2) = pick_alg_method(&mut rng);
            calls.push(mk_call(&mut rng, a2, m2, n, Form::With));
            hs.push(AHist { id, w32, pattern: "sweep", calls });
        }
    }
    // large sizes: every entry point except primitive, both widths, sorted and unsorted methods
    let bigs: Vec<usize> = if ctx.thorough {
        vec![800, 1000, 1500, 2000, 2047, 2048, 2049, 2500, 3000]
    } else if ctx.scale < 1.0 {
        vec![1000]
    } else {
        vec![1000, 3000]
    };
    for &n in &bigs {
        for (k, &alg) in [Alg::Nnchain, Alg::Generic, Alg::Mst, Alg::Linkage, Alg::Primitive].iter().enumerate() {
            for w32 in [false, true] {
                let id = hs.len();
                let method = match alg {
                    Alg::Mst => Method::Single,
                    Alg::Nnchain => [Method::Ward, Method::Complete][w32 as usize],
                    Alg::Generic => [Method::Centroid, Method::Average][w32 as usize],
                    Alg::Primitive => [Method::Median, Method::Weighted][w32 as usize],
                    Alg::Linkage => METHODS[(k + n + w32 as usize) % 7],
                };
                // cold wrapper, cold `_with` growing from nothing, warm repeat, shrink, grow past it
                let mut calls = vec![mk_call(&mut rng, alg, method, n, Form::Wrapper)];
                calls.push(mk_call(&mut rng, alg, method, n, Form::With));
                calls.push(mk_call(&mut rng, alg, method, n, Form::With));
                calls.push(mk_call(&mut rng, alg, method, n / 2, Form::With));
                if ctx.thorough || n <= 1000 {
                    calls.push(mk_call(&mut rng, alg, method, (n + n / 7).min(3000), Form::With));
                }
                hs.push(AHist { id, w32, pattern: "big", calls });
            }
        }
    }
    hs
}

pub fn c20(ctx: &Ctx, rep: &mut Report) {
    rep.rule = "histories of 3-13 calls on one LinkageState/Dendrogram (size patterns stay / shrink / grow / grow-by-1 / mixed / small-repeat / presized / wrappers-only, n 0..400 quick, 0..700 thorough, plus every n of that range cold+warm and n up to 3000 for all entry points; all 5 algorithms x {wrapper, _with}, 7 methods, f32/f64, 10 input classes); a counting global allocator (per-thread counters) records count / peak live bytes / largest request / total bytes / frees around each call (matrix allocated before, dendrogram alive through the window); compared exactly with the Lean cost model's `alloc` request (capacities kept per history), and checked directly: peak <= 512n+4096, largest request < matrix bytes for n >= 64, a `_with` call on objects already used for >= n observations makes <= 1 allocation of <= 64n+1024 bytes; non-trivial = a call with n >= 2; distinct by request line".into();
    let hs = Arc::new(build_histories(ctx));
    let meas = match par_map(hs.clone(), ctx.threads, ahist_limit, run_hist) {
        Ok(v) => v,
        Err(i) => {
            rep.fail("hang", "history did not finish".into(), hs[i].calls.iter().map(|c| op_line_alloc(&hs[i], c)).collect(), vec![], vec![]);
            return;
        }
    };
    // model predictions: one driver process per chunk of whole histories
    let mut model: Vec<Vec<String>> = vec![];
    let have_model = ctx.driver != "none";
    if have_model {
        let per = (hs.len() + ctx.threads - 1) / ctx.threads.max(1);
        let mut handles = vec![];
        for chunk in hs.chunks(per.max(1)) {
            let lines: Vec<String> = chunk.iter().flat_map(|h| h.calls.iter().map(move |c| op_line_alloc(h, c))).collect();
            let d = ctx.driver.clone();
            handles.push(std::thread::spawn(move || run_driver(&d, &lines)));
        }
        let mut flat = vec![];
        let mut ok = true;
        for hd in handles {
            match hd.join().unwrap() {
                Ok(v) => flat.extend(v),
                Err(e) => {
                    rep.fail("model", format!("driver error: {}", e), vec![], vec![], vec![]);
                    ok = false;
                    break;
                }
            }
        }
        if ok {
            let mut p = 0;
            for h in hs.iter() {
                model.push(flat[p..p + h.calls.len()].to_vec());
                p += h.calls.len();
            }
        }
    } else {
        rep.notes.push("model driver unavailable: correspondence skipped, oracle only".into());
    }
    let mut worst_peak = (0.0f64, String::new());
    let mut worst_warm = (0.0f64, String::new());
    let mut worst_largest = (0.0f64, String::new());
    let mut max_n_seen = 0usize;
    // failures of the correspondence are reported after the oracle's: the report keeps only the
    // first 50 failures and a concrete violation of the property's bound is the stronger evidence
    let mut model_fails: Vec<(String, Vec<String>, Vec<String>, Vec<String>)> = vec![];
    let mut model_fail_overflow = 0u64;
    for (hi, h) in hs.iter().enumerate() {
        rep.count(&format!("pattern.{}", h.pattern));
        let ops: Vec<String> = h.calls.iter().map(|c| op_line_alloc(h, c)).collect();
        // the largest observation count the shared objects were used for so far (harness-side,
        // independent of the model: this is the property's own precondition for "warm")
        let mut used: Option<usize> = None;
        let mut model_ok = true;
        for (ci, c) in h.calls.iter().enumerate() {
            let m = match meas[hi].get(ci) {
                Some(m) => m,
                None => break, // after a panicked `_with`
            };
            rep.seen(&ops[ci], c.n >= 2);
            let k = match m {
                Some(k) => *k,
                None => {
                    rep.count("panicked_calls");
                    rep.fail("oracle", format!("a valid input panicked ({} {} n={} class={})", c.alg.name(), method_name(c.method), c.n, c.class), ops[..=ci].to_vec(), vec![], vec![]);
                    break;
                }
            };
            if c.form == Form::Fresh {
                used = None;
                rep.count("form.fresh");
            } else {
                max_n_seen = max_n_seen.max(c.n);
                rep.count(&format!("entry.{}{}", c.alg.name(), if c.form == Form::With { "_with" } else { "" }));
                rep.count(&format!("method.{}", method_name(c.method)));
                rep.count(&format!("width.{}", if h.w32 { "f32" } else { "f64" }));
                rep.count(&format!("class.{}", c.class));
                rep.count(&format!(
                    "n.{}",
                    match c.n {
                        0..=1 => "0-1",
                        2..=12 => "2-12",
                        13..=64 => "13-64",
                        65..=129 => "65-129",
                        130..=400 => "130-400",
                        401..=1000 => "401-1000",
                        _ => "1001-3000",
                    }
                ));
                rep.count(&format!("allocations.{}", k.count));
            }
            let n = c.n as u64;
            // ---- oracle: the property's bounds on the measured numbers ----
            if c.form != Form::Fresh {
                rep.oracle_checked += 1;
                let bound = 512 * n + 4096;
                let ratio = k.peak as f64 / bound as f64;
                if ratio > worst_peak.0 {
                    worst_peak = (ratio, format!("{} peak={} bound={}", ops[ci], k.peak, bound));
                }
                if k.peak > bound as i64 {
                    rep.fail("oracle", format!("peak of {} bytes allocated beyond the matrix exceeds 512n+4096 = {} (n={})", k.peak, bound, c.n), ops[..=ci].to_vec(), vec![fmt_meas(&k)], vec![]);
                }
                if c.n >= 64 {
                    let mb = tri_bytes(c.n, h.w32);
                    let r = k.largest as f64 / mb as f64;
                    if r > worst_largest.0 {
                        worst_largest = (r, format!("{} largest={} matrix={}", ops[ci], k.largest, mb));
                    }
                    if k.largest >= mb {
                        rep.fail("oracle", format!("a single allocation of {} bytes is as large as the matrix ({} bytes, n={}): matrix-sized copy", k.largest, mb, c.n), ops[..=ci].to_vec(), vec![fmt_meas(&k)], vec![]);
                    }
                }
                if c.form == Form::With {
                    let warm = used.map_or(false, |u| u >= c.n);
                    if warm {
                        rep.count("warm_with_calls");
                        rep.count(&format!("warm_allocations.{}", k.count));
                        let wb = 64 * n + 1024;
                        let r = k.total as f64 / wb as f64;
                        if r > worst_warm.0 {
                            worst_warm = (r, format!("{} total={} bound={}", ops[ci], k.total, wb));
                        }
                        if k.count > 1 || k.total > wb {
                            rep.fail(
                                "oracle",
                                format!("`_with` call on objects already used for {} >= {} observations made {} allocations totalling {} bytes (allowed: 1 of <= 64n+1024 = {})", used.unwrap(), c.n, k.count, k.total, wb),
                                ops[..=ci].to_vec(),
                                vec![fmt_meas(&k)],
                                vec![],
                            );
                        }
                    } else {
                        rep.count("cold_with_calls");
                    }
                    used = Some(used.map_or(c.n, |u| u.max(c.n)));
                }
            }
            // ---- correspondence with the cost model ----
            if have_model && model_ok && !model.is_empty() {
                let ml = &model[hi][ci];
                rep.compared_with_model += 1;
                match parse_model(ml) {
                    Some(p) => {
                        let exact = p.count == k.count && p.peak == k.peak && p.largest == k.largest && p.total == k.total && p.frees == k.frees;
                        if !exact {
                            // is the difference confined to the sort's scratch buffer (std-internal policy)?
                            let own_count = p.count - (p.scratch > 0) as u64;
                            let own_total = p.total - p.scratch;
                            let sort_len = (c.n.max(1) - 1) as u64;
                            let only_scratch = c.form != Form::Fresh
                                && (k.count == own_count || k.count == own_count + 1)
                                && k.total >= own_total
                                && k.total - own_total <= 32 * sort_len
                                && (k.count == own_count + 1 || k.total == own_total)
                                && k.total - own_total != p.scratch;
                            let what = if only_scratch {
                                format!("kodama's own buffers as modelled, but the remaining allocation ({} bytes measured, {} bytes modelled for the sort's scratch) differs within the sort-scratch envelope 32*(n-1): std's sort policy changed (toolchain), or one extra allocation of that size ({} {} {} n={})", k.total - own_total, p.scratch, c.form.name(), c.alg.name(), method_name(c.method), c.n)
                            } else {
                                format!("allocations of the call differ from the cost model ({} {} {} n={})", c.form.name(), c.alg.name(), method_name(c.method), c.n)
                            };
                            if model_fails.len() < 50 {
                                model_fails.push((what, ops[..=ci].to_vec(), vec![fmt_meas(&k)], vec![ml.clone()]));
                            } else {
                                model_fail_overflow += 1;
                            }
                            // later calls of the history start from capacities the model no longer knows
                            model_ok = false;
                        }
                    }
                    None => {
                        if model_fails.len() < 50 {
                            model_fails.push((format!("model gave no prediction: {}", ml), ops[..=ci].to_vec(), vec![fmt_meas(&k)], vec![ml.clone()]));
                        } else {
                            model_fail_overflow += 1;
                        }
                        model_ok = false;
                    }
                }
            }
        }
    }
    for (what, ops, i, m) in model_fails {
        rep.fail("model", what, ops, i, m);
    }
    if model_fail_overflow > 0 {
        rep.count_by("failures.model", model_fail_overflow);
    }
    rep.extra.insert("max_n".into(), crate::json::J::Int(max_n_seen as i128));
    rep.extra.insert("worst_peak_over_bound".into(), crate::json::J::Num(worst_peak.0));
    rep.extra.insert("worst_peak_case".into(), crate::json::J::s(&worst_peak.1));
    rep.extra.insert("worst_warm_bytes_over_bound".into(), crate::json::J::Num(worst_warm.0));
    rep.extra.insert("worst_warm_case".into(), crate::json::J::s(&worst_warm.1));
    rep.extra.insert("worst_largest_over_matrix".into(), crate::json::J::Num(worst_largest.0));
    rep.extra.insert("worst_largest_case".into(), crate::json::J::s(&worst_largest.1));
    rep.notes.push("std's Vec growth policy and the stable sort's scratch size are modelled from measurements on the installed toolchain; this run re-validates them (exact comparison)".into());
}

/// Replay recorded `alloc ...` request lines: run them on the implementation (one history per slot
/// id and width) and print measurement and model prediction side by side.
pub fn replay(ctx: &Ctx, lines: &[String]) {
    let mut hists: Vec<AHist> = vec![];
    let mut order: Vec<(usize, usize)> = vec![];
    for l in lines {
        let f: Vec<&str> = l.split_whitespace().collect();
        if f.len() < 7 || f[0] != "alloc" {
            continue;
        }
        let id: usize = f[1].parse().unwrap_or(0);
        let alg = match f[2] {
            "primitive" => Alg::Primitive,
            "nnchain" => Alg::Nnchain,
            "generic" => Alg::Generic,
            "mst" => Alg::Mst,
            _ => Alg::Linkage,
        };
        let method = METHODS.iter().cloned().find(|m| method_name(*m) == f[3]).unwrap_or(Method::Single);
        let w32 = f[4] == "32";
        let n: usize = f[5].parse().unwrap_or(0);
        let form = match f[6] {
            "wrapper" => Form::Wrapper,
            "fresh" => Form::Fresh,
            _ => Form::With,
        };
        let class = f.get(7).and_then(|c| gen::CLASSES.iter().find(|k| *k == c)).copied().unwrap_or("uniform");
        let seed: u64 = f.get(8).and_then(|s| s.parse().ok()).unwrap_or(1);
        let hi = match hists.iter().position(|h| h.id == id && h.w32 == w32) {
            Some(i) => i,
            None => {
                hists.push(AHist { id, w32, pattern: "replay", calls: vec![] });
                hists.len() - 1
            }
        };
        hists[hi].calls.push(ACall { alg, method, n, form, class, seed });
        order.push((hi, hists[hi].calls.len() - 1));
    }
    let meas: Vec<Vec<Meas>> = hists.iter().map(run_hist).collect();
    let ops: Vec<String> = order.iter().map(|&(h, c)| op_line_alloc(&hists[h], &hists[h].calls[c])).collect();
    let model = run_driver(&ctx.driver, &ops).unwrap_or_default();
    for (k, &(h, c)) in order.iter().enumerate() {
        println!("op {}: {}", k, ops[k]);
        match meas[h].get(c) {
            Some(Some(m)) => println!("  impl : {}", fmt_meas(m)),
            Some(None) => println!("  impl : panic"),
            None => println!("  impl : (not run: an earlier call of the history panicked)"),
        }
        println!("  model: {}  (ok count peak largest total frees scratch caps)", model.get(k).cloned().unwrap_or_default());
        let n = hists[h].calls[c].n as u64;
        println!(
            "  bound: peak <= 512n+4096 = {}; matrix = {} bytes (largest request must stay below it for n >= 64); a warm `_with` call may make 1 allocation of <= 64n+1024 = {} bytes",
            512 * n + 4096,
            tri_bytes(n as usize, hists[h].w32),
            64 * n + 1024
        );
    }
}
