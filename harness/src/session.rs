//! Shared machinery of the per-property sessions: parallel execution of the
//! implementation with a hang watchdog, comparison with the model driver, oracle
//! calls, and the JSON report consumed by /verif/check.
use std::collections::{BTreeMap, HashSet};
use std::sync::{Arc, Mutex};
use std::time::{Duration, Instant};

use crate::core::*;
use crate::json::J;

pub struct Failure {
    pub kind: &'static str, // "oracle" (implementation fails the property) | "model" (model and implementation differ) | "hang"
    pub what: String,
    pub ops: Vec<String>,
    pub impl_out: Vec<String>,
    pub model_out: Vec<String>,
}

pub struct Report {
    pub property: String,
    pub tier: String,
    pub seed: u64,
    pub evaluations: u64,
    pub distinct: HashSet<u64>,
    pub samples: Vec<String>,
    pub dist: BTreeMap<String, u64>,
    pub failures: Vec<Failure>,
    pub compared_with_model: u64,
    pub oracle_checked: u64,
    pub notes: Vec<String>,
    pub rule: String,
    pub extra: BTreeMap<String, J>,
}

fn hash_str(s: &str) -> u64 {
    let mut h: u64 = 0xcbf29ce484222325;
    for b in s.bytes() {
        h ^= b as u64;
        h = h.wrapping_mul(0x100000001b3);
    }
    h
}

impl Report {
    pub fn new(property: &str, tier: &str, seed: u64) -> Report {
        Report {
            property: property.to_string(),
            tier: tier.to_string(),
            seed,
            evaluations: 0,
            distinct: HashSet::new(),
            samples: vec![],
            dist: BTreeMap::new(),
            failures: vec![],
            compared_with_model: 0,
            oracle_checked: 0,
            notes: vec![],
            rule: String::new(),
            extra: BTreeMap::new(),
        }
    }
    pub fn count(&mut self, key: &str) {
        *self.dist.entry(key.to_string()).or_insert(0) += 1;
    }
    pub fn count_by(&mut self, key: &str, k: u64) {
        *self.dist.entry(key.to_string()).or_insert(0) += k;
    }
    /// record an explored case; `nontrivial` by the session's rule
    pub fn seen(&mut self, op: &str, nontrivial: bool) {
        self.evaluations += 1;
        if nontrivial {
            self.distinct.insert(hash_str(op));
        }
        if self.samples.len() < 6 && nontrivial && op.len() < 600 {
            self.samples.push(op.to_string());
        }
    }
    pub fn fail(&mut self, kind: &'static str, what: String, ops: Vec<String>, impl_out: Vec<String>, model_out: Vec<String>) {
        // keep a bounded number PER KIND, so that model disagreements never crowd out the
        // concrete oracle failures (which are what a VIOLATION replay is made from)
        if self.failures.iter().filter(|f| f.kind == kind).count() < 20 {
            self.failures.push(Failure { kind, what, ops, impl_out, model_out });
        }
        self.count(&format!("failures.{}", kind));
    }
    pub fn to_json(&self) -> J {
        let mut j = J::obj();
        j.set("property", J::s(&self.property));
        j.set("tier", J::s(&self.tier));
        j.set("seed", J::Int(self.seed as i128));
        j.set("checked_build", J::Bool(checked_build()));
        j.set("evaluations", J::Int(self.evaluations as i128));
        j.set("distinct_nontrivial", J::Int(self.distinct.len() as i128));
        j.set("compared_with_model", J::Int(self.compared_with_model as i128));
        j.set("oracle_checked", J::Int(self.oracle_checked as i128));
        j.set("rule", J::s(&self.rule));
        j.set("samples", J::Arr(self.samples.iter().map(|s| J::s(s)).collect()));
        let mut d = J::obj();
        for (k, v) in &self.dist {
            d.set(k, J::Int(*v as i128));
        }
        j.set("distribution", d);
        j.set("notes", J::Arr(self.notes.iter().map(|s| J::s(s)).collect()));
        let mut fs = vec![];
        for f in &self.failures {
            let mut o = J::obj();
            o.set("kind", J::s(f.kind));
            o.set("what", J::s(&f.what));
            o.set("ops", J::Arr(f.ops.iter().map(|s| J::s(s)).collect()));
            o.set("impl", J::Arr(f.impl_out.iter().map(|s| J::s(s)).collect()));
            o.set("model", J::Arr(f.model_out.iter().map(|s| J::s(s)).collect()));
            fs.push(o);
        }
        j.set("failures", J::Arr(fs));
        let mut e = J::obj();
        for (k, v) in &self.extra {
            e.set(k, v.clone());
        }
        j.set("extra", e);
        j
    }
}

pub struct Ctx {
    pub driver: String,
    pub threads: usize,
    pub tier: String,
    pub seed: u64,
    pub thorough: bool,
    pub scale: f64, // multiplier on case counts (fingerprint escalation)
}

/// Map `f` over `items` on `threads` worker threads with a watchdog: if one item takes longer
/// than `limit(item)`, return Err(index) (the process is then expected to report a hang and exit,
/// since the stuck thread cannot be cancelled).
pub fn par_map<T: Sync + Send + 'static, R: Send + 'static>(
    items: Arc<Vec<T>>,
    threads: usize,
    limit: fn(&T) -> Duration,
    f: fn(&T) -> R,
) -> Result<Vec<R>, usize> {
    let n = items.len();
    let next = Arc::new(Mutex::new(0usize));
    let results: Arc<Mutex<Vec<Option<R>>>> = Arc::new(Mutex::new((0..n).map(|_| None).collect()));
    let current: Arc<Mutex<Vec<Option<(usize, Instant)>>>> = Arc::new(Mutex::new(vec![None; threads]));
    let done = Arc::new(Mutex::new(0usize));
    for t in 0..threads {
        let (items, next, results, current, done) = (items.clone(), next.clone(), results.clone(), current.clone(), done.clone());
        std::thread::Builder::new()
            .stack_size(64 << 20)
            .spawn(move || {
                install_panic_hook();
                loop {
                    let i = {
                        let mut g = next.lock().unwrap();
                        let i = *g;
                        if i >= n {
                            break;
                        }
                        *g += 1;
                        i
                    };
                    current.lock().unwrap()[t] = Some((i, Instant::now()));
                    let r = f(&items[i]);
                    current.lock().unwrap()[t] = None;
                    results.lock().unwrap()[i] = Some(r);
                }
                *done.lock().unwrap() += 1;
            })
            .unwrap();
    }
    loop {
        if *done.lock().unwrap() == threads {
            break;
        }
        std::thread::sleep(Duration::from_millis(20));
        let cur = current.lock().unwrap().clone();
        for c in cur.iter().flatten() {
            if c.1.elapsed() > limit(&items[c.0]) {
                return Err(c.0);
            }
        }
    }
    let mut g = results.lock().unwrap();
    Ok(g.drain(..).map(|x| x.unwrap()).collect())
}

fn case_limit(c: &Case) -> Duration {
    // polynomial budget: generous constant + n^3 term
    let n = c.n.min(20000) as u64;
    Duration::from_millis(5000 + n * n * n / 20_000)
}

/// Run the implementation on all cases (fresh objects), with watchdog.
pub fn run_impl_all(ctx: &Ctx, rep: &mut Report, cases: &Arc<Vec<Case>>) -> Option<Vec<Outcome>> {
    match par_map(cases.clone(), ctx.threads, case_limit, |c| run_fresh(c)) {
        Ok(v) => Some(v),
        Err(i) => {
            let c = &cases[i];
            rep.fail(
                "hang",
                format!("call did not return within {:?} (n={})", case_limit(c), c.n),
                vec![op_line_call(c)],
                vec![],
                vec![],
            );
            None
        }
    }
}

/// Compare implementation outcomes with the model driver's. Returns the model outcomes.
pub fn correspond(ctx: &Ctx, rep: &mut Report, cases: &[Case], impl_out: &[Outcome]) -> Vec<Option<Outcome>> {
    if ctx.driver == "none" {
        if !rep.notes.iter().any(|n| n.starts_with("model driver unavailable")) {
            rep.notes.push("model driver unavailable: correspondence skipped, oracle only".into());
        }
        return vec![None; cases.len()];
    }
    let lines: Vec<String> = cases.iter().map(op_line_call).collect();
    let model_lines = match run_driver_par(&ctx.driver, &lines, ctx.threads) {
        Ok(v) => v,
        Err(e) => {
            rep.fail("model", format!("driver error: {}", e), vec![], vec![], vec![]);
            return vec![None; cases.len()];
        }
    };
    let mut out = vec![];
    for ((c, io), ml) in cases.iter().zip(impl_out).zip(&model_lines) {
        let mo = Outcome::parse(ml).map(|o| canon_outcome(c.w32, o));
        let with_acc = cfg!(kodama_verif) && acc_tracked(c.alg, c.method);
        let same = match (&mo, io) {
            (Some(Outcome::Ok { obs: o1, acc: a1, steps: s1 }), Outcome::Ok { obs: o2, acc: a2, steps: s2 }) => {
                o1 == o2 && s1 == s2 && (!with_acc || a1 == a2)
            }
            (Some(Outcome::Panic(k1)), Outcome::Panic(k2)) => panic_class_eq(k1, k2),
            _ => false,
        };
        rep.compared_with_model += 1;
        if !same {
            rep.fail(
                "model",
                format!("model and implementation differ ({} {} n={} class={})", c.alg.name(), method_name(c.method), c.n, c.class),
                vec![op_line_call(c)],
                vec![io.line(with_acc)],
                vec![ml.clone()],
            );
        }
        out.push(mo);
    }
    out
}

/// Panic classes are compared coarsely: the model distinguishes where the Rust message does not
/// always (e.g. an out-of-range index in an unchecked build vs. the debug assertion in a checked one
/// are both "a panic inside indexing").
pub fn panic_class_eq(a: &str, b: &str) -> bool {
    if a == b {
        return true;
    }
    let idx = ["indexOOB", "debugIndex", "arith", "assertFail", "unwrapNone"];
    idx.contains(&a) && idx.contains(&b)
}

pub fn canon_outcome(w32: bool, o: Outcome) -> Outcome {
    match o {
        Outcome::Ok { obs, acc, steps } => Outcome::Ok {
            obs,
            acc,
            steps: steps.into_iter().map(|s| StepB { bits: canon_bits(w32, s.bits), ..s }).collect(),
        },
        o => o,
    }
}

pub fn vals_of(c: &Case) -> Vec<f64> {
    c.bits.iter().map(|&b| bits_to_f64(c.w32, b)).collect()
}
