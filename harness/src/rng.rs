//! One PRNG (xorshift64*) from which every random choice is derived.
#[derive(Clone)]
pub struct Rng(pub u64);

impl Rng {
    pub fn new(seed: u64) -> Rng {
        let mut r = Rng(seed ^ 0x9E37_79B9_7F4A_7C15);
        if r.0 == 0 {
            r.0 = 0x1234_5678_9ABC_DEF1;
        }
        for _ in 0..4 {
            r.next();
        }
        r
    }
    pub fn next(&mut self) -> u64 {
        let mut x = self.0;
        x ^= x >> 12;
        x ^= x << 25;
        x ^= x >> 27;
        self.0 = x;
        x.wrapping_mul(0x2545_F491_4F6C_DD1D)
    }
    pub fn below(&mut self, n: u64) -> u64 {
        if n == 0 {
            0
        } else {
            self.next() % n
        }
    }
    pub fn range(&mut self, lo: usize, hi: usize) -> usize {
        lo + self.below((hi - lo + 1) as u64) as usize
    }
    /// uniform in [0,1)
    pub fn unit(&mut self) -> f64 {
        (self.next() >> 11) as f64 / (1u64 << 53) as f64
    }
    pub fn pick<'a, T>(&mut self, xs: &'a [T]) -> &'a T {
        &xs[self.below(xs.len() as u64) as usize]
    }
    pub fn shuffle<T>(&mut self, xs: &mut [T]) {
        for i in (1..xs.len()).rev() {
            let j = self.below(i as u64 + 1) as usize;
            xs.swap(i, j);
        }
    }
    pub fn fork(&mut self) -> Rng {
        Rng::new(self.next())
    }
}
