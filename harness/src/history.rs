//! C08: histories of `_with` calls sharing one LinkageState / Dendrogram.
use std::sync::Arc;
use std::time::Duration;

use kodama::{Dendrogram, LinkageState, Method};

use crate::core::*;
use crate::gen;
use crate::rng::Rng;
use crate::session::*;

#[derive(Clone)]
pub struct History {
    pub id: usize,
    pub w32: bool,
    pub calls: Vec<Case>,
}

fn gen_history(rng: &mut Rng, id: usize, max_n: usize) -> History {
    let w32 = rng.below(2) == 0;
    let len = rng.range(2, 12);
    let mut calls: Vec<Case> = vec![];
    for _ in 0..len {
        let alg = *rng.pick(&ALGS);
        let mut method = *rng.pick(&METHODS);
        while !alg.accepts(method) {
            method = *rng.pick(&METHODS);
        }
        let kind = rng.below(100);
        let mut n = match rng.below(10) {
            0 => 0,
            1 => 1,
            2 => 2,
            _ => rng.range(3, max_n),
        };
        let mut class = *rng.pick(&gen::CLASSES);
        // same-size reuse is its own regime (buffers of exactly the right length, nothing resized): one call
        // in three repeats the size of the previous call; right after a call that PANICKED half-way (NaN
        // reaching the sort) usually so, and then on a tie-saturated input, where any leftover order shows
        if let Some(prev) = calls.last() {
            let after_nan = prev.class == "nan";
            if (after_nan && rng.below(10) < 7) || rng.below(3) == 0 {
                n = prev.n;
                if after_nan || rng.below(2) == 0 {
                    class = *rng.pick(&["lattice", "twovalued", "allequal", "duppoints"]);
                }
            }
        }
        let n = if alg == Alg::Primitive { n.min(30) } else { n };
        let vals = gen::matrix(rng, class, n);
        let mut bits = gen::to_bits(class, w32, &vals);
        let mut cls = class;
        if kind < 8 {
            // malformed shape: panics before touching anything
            if rng.below(2) == 0 || bits.is_empty() {
                bits.push(f64_to_bits(w32, 1.0));
            } else {
                bits.pop();
            }
            cls = "badshape";
        } else if kind < 14 && n >= 3 && alg != Alg::Generic && sorted_method(method) && !(alg == Alg::Linkage && !sorted_method(method)) {
            // a NaN entry: reaches the sort and panics there (generic excluded: its repair loop
            // would spin on NaN; outside every property's domain)
            let generic_routed = alg == Alg::Linkage && method.into_method_chain().is_none();
            if !generic_routed {
                let k = rng.below(bits.len() as u64) as usize;
                bits[k] = f64_to_bits(w32, f64::NAN);
                cls = "nan";
            }
        }
        calls.push(Case { alg, method, w32, n, bits, class: cls });
    }
    History { id, w32, calls }
}

pub fn run_history(h: &History) -> Vec<Outcome> {
    let mut out = vec![];
    if h.w32 {
        let mut st = LinkageState::<f32>::new();
        let mut d = Dendrogram::<f32>::new(0);
        for c in &h.calls {
            out.push(run_with_t::<f32>(&mut st, &mut d, c.alg, c.method, c.n, &c.bits));
        }
    } else {
        let mut st = LinkageState::<f64>::new();
        let mut d = Dendrogram::<f64>::new(0);
        for c in &h.calls {
            out.push(run_with_t::<f64>(&mut st, &mut d, c.alg, c.method, c.n, &c.bits));
        }
    }
    out
}

fn run_history_fresh(h: &History) -> Vec<Outcome> {
    h.calls.iter().map(run_fresh).collect()
}

fn hist_limit(_h: &History) -> Duration {
    Duration::from_secs(60)
}

/// outcomes equal as far as C08 speaks: steps + observation count, or both panicked
fn same_result(a: &Outcome, b: &Outcome) -> bool {
    match (a, b) {
        (Outcome::Ok { obs: o1, steps: s1, .. }, Outcome::Ok { obs: o2, steps: s2, .. }) => o1 == o2 && s1 == s2,
        (Outcome::Panic(_), Outcome::Panic(_)) => true,
        _ => false,
    }
}

pub fn c08(ctx: &Ctx, rep: &mut Report) {
    crate::unit::uf_unit(ctx, rep);
    rep.rule = "random histories of 2-12 *_with calls sharing one LinkageState/Dendrogram (sizes 0..60 growing/shrinking, all algorithms/methods, ~8% malformed shapes and ~5% NaN inputs that panic mid-call); each call compared with the model's `with` request, with a fresh-object call, and (histories run concurrently on all threads) with a second sequential run; non-trivial = every history (>= 2 calls); distinct by hash of the concatenated request lines".into();
    let mut rng = Rng::new(ctx.seed);
    let count = ((if ctx.thorough { 20000 } else { 1200 }) as f64 * ctx.scale) as usize;
    let hs: Vec<History> = (0..count).map(|i| gen_history(&mut rng, i, if ctx.thorough { 60 } else { 40 })).collect();
    let hs = Arc::new(hs);
    let shared = match par_map(hs.clone(), ctx.threads, hist_limit, run_history) {
        Ok(v) => v,
        Err(i) => {
            rep.fail("hang", "history did not finish".into(), hs[i].calls.iter().map(|c| op_line_with(i, c)).collect(), vec![], vec![]);
            return;
        }
    };
    let fresh = match par_map(hs.clone(), ctx.threads, hist_limit, run_history_fresh) {
        Ok(v) => v,
        Err(i) => {
            rep.fail("hang", "fresh calls did not finish".into(), hs[i].calls.iter().map(op_line_call).collect(), vec![], vec![]);
            return;
        }
    };
    // sequential re-run of a sample (all in thorough) on this thread
    install_panic_hook();
    let stride = if ctx.thorough { 1 } else { 4 };
    for (i, h) in hs.iter().enumerate() {
        if i % stride != 0 {
            continue;
        }
        let again = run_history(h);
        rep.count("sequential_reruns");
        if again.iter().zip(&shared[i]).any(|(a, b)| !same_result(a, b) || a != b && !a.is_panic()) {
            rep.fail(
                "oracle",
                "history run concurrently with others differs from its sequential re-run".into(),
                h.calls.iter().map(|c| op_line_with(h.id, c)).collect(),
                shared[i].iter().map(|o| o.line(false)).collect(),
                again.iter().map(|o| o.line(false)).collect(),
            );
        }
    }
    // oracle: shared-object result == fresh-object result
    for (i, h) in hs.iter().enumerate() {
        let ops: Vec<String> = h.calls.iter().map(|c| op_line_with(h.id, c)).collect();
        rep.seen(&ops.join("|"), true);
        rep.count(&format!("history_len.{}", h.calls.len()));
        for (c, o) in h.calls.iter().zip(&shared[i]) {
            rep.count(&format!("call.{}", c.alg.name()));
            rep.count(&format!("callclass.{}", c.class));
            if let Outcome::Panic(k) = o {
                rep.count(&format!("panic.{}", k));
            }
        }
        rep.oracle_checked += 1;
        for (k, (a, b)) in shared[i].iter().zip(&fresh[i]).enumerate() {
            if !same_result(a, b) {
                rep.fail(
                    "oracle",
                    format!("call {} of the history differs from the same call on fresh objects", k),
                    ops[..=k].to_vec(),
                    vec![a.line(false)],
                    vec![b.line(false)],
                );
                break;
            }
        }
    }
    // model: the same histories as `with` requests, one slot per history
    if ctx.driver == "none" {
        rep.notes.push("model driver unavailable: correspondence skipped, oracle only".into());
        return;
    }
    let groups: Vec<Vec<String>> = hs.iter().map(|h| h.calls.iter().map(|c| op_line_with(h.id, c)).collect()).collect();
    let per = (groups.len() + ctx.threads - 1) / ctx.threads.max(1);
    let mut handles = vec![];
    for chunk in groups.chunks(per.max(1)) {
        let lines: Vec<String> = chunk.iter().flatten().cloned().collect();
        let d = ctx.driver.clone();
        handles.push(std::thread::spawn(move || run_driver(&d, &lines)));
    }
    let mut model_lines = vec![];
    for hd in handles {
        match hd.join().unwrap() {
            Ok(v) => model_lines.extend(v),
            Err(e) => {
                rep.fail("model", format!("driver error: {}", e), vec![], vec![], vec![]);
                return;
            }
        }
    }
    let mut p = 0;
    for (i, h) in hs.iter().enumerate() {
        for (k, c) in h.calls.iter().enumerate() {
            let ml = &model_lines[p];
            p += 1;
            rep.compared_with_model += 1;
            let mo = Outcome::parse(ml).map(|o| canon_outcome(c.w32, o));
            let io = &shared[i][k];
            let same = match (&mo, io) {
                (Some(m), io) => same_result(m, io) && (!m.is_panic() || matches!((m, io), (Outcome::Panic(a), Outcome::Panic(b)) if panic_class_eq(a, b))),
                _ => false,
            };
            if !same {
                rep.fail(
                    "model",
                    format!("history call {} ({} {} n={}): model and implementation differ", k, c.alg.name(), method_name(c.method), c.n),
                    groups[i][..=k].to_vec(),
                    vec![io.line(false)],
                    vec![ml.clone()],
                );
                break;
            }
        }
    }
    let _ = Method::Single;
}
