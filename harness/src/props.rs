//! Per-property sessions (C01..C14; C15-C20 live in their own modules).
use std::sync::Arc;

use kodama::Method;

use crate::core::*;
use crate::gen;
use crate::oracle;
use crate::rng::Rng;
use crate::session::*;

pub struct GenSpec<'a> {
    pub count: usize,
    pub max_n: usize,
    pub classes: &'a [&'static str],
    pub algs: &'a [Alg],
    pub methods: &'a [Method],
    pub min_n: usize,
}

pub fn gen_cases(rng: &mut Rng, spec: &GenSpec) -> Vec<Case> {
    let mut out = Vec::with_capacity(spec.count);
    while out.len() < spec.count {
        let alg = *rng.pick(spec.algs);
        let method = *rng.pick(spec.methods);
        if !alg.accepts(method) {
            continue;
        }
        let class = *rng.pick(spec.classes);
        let mut n = gen::size(rng, spec.max_n).max(spec.min_n);
        if alg == Alg::Primitive {
            n = n.min(60);
        }
        let w32 = rng.below(2) == 0;
        if spec.count >= 400 && n >= 3 && rng.below(25) == 0 {
            // `nearmax`: f32 entries as large as the UNCHANGED update formulas can take for this method and n
            // without an intermediate overflow (headroom 16): a rewrite that needs more headroom — a product
            // formed before a division, a sum of n^2 terms — overflows here and nowhere else
            let nn = n as f64;
            let top = f32::MAX as f64;
            let dmax = match method {
                Method::Ward => (top / (16.0 * nn * nn)).sqrt(),
                Method::Centroid => (top / (16.0 * nn)).sqrt(),
                Method::Median => (top / 16.0).sqrt(),
                Method::Average => top / (16.0 * nn),
                Method::Weighted => top / 16.0,
                _ => top / 2.0,
            };
            let vals: Vec<f64> = (0..gen::tri(n)).map(|_| (0.5 + 0.5 * rng.unit()) * dmax).collect();
            out.push(Case { alg, method, w32: true, n, bits: vals.iter().map(|&x| f64_to_bits(true, x)).collect(), class: "nearmax" });
            continue;
        }
        let vals = gen::matrix(rng, class, n);
        let bits = gen::to_bits(class, w32, &vals);
        out.push(Case { alg, method, w32, n, bits, class });
    }
    // mid-range sizes (block-size thresholds 64 / 128 of "optimised" code paths lie here); primitive too
    // (cubic, but cheap at these sizes).  Only for sessions that are about whole-matrix inputs.
    if spec.max_n >= 30 && spec.count >= 400 {
        let extra = (spec.count / 40).max(30);
        let mut k = 0;
        while k < extra {
            let alg = *rng.pick(spec.algs);
            let method = *rng.pick(spec.methods);
            if !alg.accepts(method) {
                continue;
            }
            let class = *rng.pick(spec.classes);
            // a few beyond 256 observations (cluster sizes, labels and chain depths past one byte)
            let n = if alg == Alg::Primitive { rng.range(61, 140) } else if k % 8 == 0 { rng.range(257, 330) } else { rng.range(61, 200) };
            let w32 = rng.below(2) == 0;
            let vals = gen::matrix(rng, class, n);
            let bits = gen::to_bits(class, w32, &vals);
            out.push(Case { alg, method, w32, n, bits, class });
            k += 1;
        }
    }
    out
}

fn tally(rep: &mut Report, c: &Case, o: &Outcome) {
    rep.count(&format!("alg.{}", c.alg.name()));
    rep.count(&format!("method.{}", method_name(c.method)));
    rep.count(&format!("class.{}", c.class));
    rep.count(if c.w32 { "width.f32" } else { "width.f64" });
    rep.count(&format!(
        "n.{}",
        match c.n {
            0..=2 => "0-2",
            3..=9 => "3-9",
            10..=39 => "10-39",
            40..=199 => "40-199",
            _ => "200+",
        }
    ));
    if gen::has_ties(&c.bits) {
        rep.count("with_ties");
    }
    if let Outcome::Panic(k) = o {
        rep.count(&format!("panic.{}", k));
    }
}

/// The common shape: generated cases -> implementation -> model comparison -> oracle.
pub fn generic_session(
    ctx: &Ctx,
    rep: &mut Report,
    cases: Vec<Case>,
    oracle_fn: &dyn Fn(&Case, &Outcome) -> Result<(), String>,
) {
    let cases = Arc::new(cases);
    let impl_out = match run_impl_all(ctx, rep, &cases) {
        Some(v) => v,
        None => return,
    };
    for (c, o) in cases.iter().zip(&impl_out) {
        rep.seen(&op_line_call(c), c.n >= 3);
        tally(rep, c, o);
    }
    correspond(ctx, rep, &cases, &impl_out);
    for (c, o) in cases.iter().zip(&impl_out) {
        rep.oracle_checked += 1;
        if let Err(e) = oracle_fn(c, o) {
            rep.fail("oracle", e, vec![op_line_call(c)], vec![o.line(false)], vec![]);
        }
    }
    if rep.property == "C01" {
        spec_wf_pass(ctx, rep, &cases, &impl_out, "");
    }
    // The property quantifies over every entry point INCLUDING the `_with` forms on objects that
    // were used before: run the same cases again in chunks that share one LinkageState/Dendrogram
    // per float width and apply the oracle to those results as well.
    let chunks: Vec<Vec<Case>> = cases.chunks(6).map(|c| c.to_vec()).collect();
    let chunks = Arc::new(chunks);
    let reused = match par_map(chunks.clone(), ctx.threads, |_| std::time::Duration::from_secs(120), |chunk: &Vec<Case>| {
        let mut st64 = kodama::LinkageState::<f64>::new();
        let mut d64 = kodama::Dendrogram::<f64>::new(0);
        let mut st32 = kodama::LinkageState::<f32>::new();
        let mut d32 = kodama::Dendrogram::<f32>::new(0);
        chunk
            .iter()
            .map(|c| {
                if c.w32 {
                    run_with_t::<f32>(&mut st32, &mut d32, c.alg, c.method, c.n, &c.bits)
                } else {
                    run_with_t::<f64>(&mut st64, &mut d64, c.alg, c.method, c.n, &c.bits)
                }
            })
            .collect::<Vec<Outcome>>()
    }) {
        Ok(v) => v,
        Err(i) => {
            rep.fail("hang", "reused-state chunk did not finish".into(), chunks[i].iter().enumerate().map(|(k, c)| op_line_with(k, c)).collect(), vec![], vec![]);
            return;
        }
    };
    if rep.property == "C01" {
        let flat_c: Vec<Case> = chunks.iter().flat_map(|c| c.iter().cloned()).collect();
        let flat_o: Vec<Outcome> = reused.iter().flat_map(|o| o.iter().cloned()).collect();
        spec_wf_pass(ctx, rep, &flat_c, &flat_o, "on a reused LinkageState/Dendrogram: ");
    }
    for (chunk, outs) in chunks.iter().zip(&reused) {
        for (k, (c, o)) in chunk.iter().zip(outs).enumerate() {
            rep.count("reused_state_calls");
            rep.oracle_checked += 1;
            if let Err(e) = oracle_fn(c, o) {
                rep.fail(
                    "oracle",
                    format!("on a reused LinkageState/Dendrogram (call {} of a shared-object chunk): {}", k, e),
                    chunk[..=k].iter().map(|c| op_line_with(0, c)).collect(),
                    vec![o.line(false)],
                    vec![],
                );
            }
        }
    }
}

/// The predicate of the C01 THEOREMS (`Spec.WellFormed`, through its proved-equivalent executable form
/// `Spec.wellFormedB`) evaluated by the Lean driver on the step lists the REAL crate returned.
pub fn spec_wf_pass(ctx: &Ctx, rep: &mut Report, cases: &[Case], outs: &[Outcome], what: &str) {
    if ctx.driver == "none" {
        return;
    }
    let mut idx = vec![];
    let mut lines = vec![];
    for (i, (c, o)) in cases.iter().zip(outs).enumerate() {
        if c.n < 2 {
            continue;
        }
        if let Some(steps) = o.steps() {
            let body = if steps.is_empty() { "-".to_string() } else { steps.iter().map(|s| format!("{},{},{}", s.c1, s.c2, s.size)).collect::<Vec<_>>().join(";") };
            lines.push(format!("spec wf {} {}", c.n, body));
            idx.push(i);
        }
    }
    let res = match crate::core::run_driver_par(&ctx.driver, &lines, ctx.threads) {
        Ok(v) => v,
        Err(e) => {
            rep.fail("model", format!("driver error (spec wf): {}", e), vec![], vec![], vec![]);
            return;
        }
    };
    for ((&i, line), r) in idx.iter().zip(&lines).zip(&res) {
        rep.count("lean_spec_wellformed_evaluated_on_impl_output");
        if r != "ok true" {
            rep.fail(
                "oracle",
                format!("{}Lean Spec.WellFormed (the predicate of the C01 theorems, evaluated by the driver) is FALSE on the step list the implementation returned: {}", what, r),
                vec![op_line_call(&cases[i]), line.clone()],
                vec![outs[i].line(false)],
                vec![r.clone()],
            );
        }
    }
}

/// EVERY matrix over a small value set for the smallest sizes: all tie patterns, zeros and (optionally)
/// negative entries for n = 3, 4 (three values) and n = 5 (two values), each through every accepting
/// (entry point, method) pair — 3^3 + 2 * 3^6 + 2^10 matrices.  Deterministic; the random tie classes
/// sample this space, this family exhausts it.
pub fn exhaustive_small_cases(ctx: &Ctx, negatives: bool) -> Vec<Case> {
    let mut out = vec![];
    let mut sets: Vec<(usize, Vec<f64>)> = vec![(3, vec![0.0, 1.0, 2.0]), (4, vec![0.0, 1.0, 2.0]), (5, vec![1.0, 2.0])];
    if negatives {
        sets.push((3, vec![-1.0, 0.0, 1.0]));
        sets.push((4, vec![-1.0, 0.0, 1.0]));
    }
    let mut k = 0usize;
    for (n, vals) in sets {
        let len = gen::tri(n);
        let base = vals.len();
        let total = base.pow(len as u32);
        for code in 0..total {
            let mut c = code;
            let m: Vec<f64> = (0..len).map(|_| { let v = vals[c % base]; c /= base; v }).collect();
            // in the quick tier one (entry point, method) pair per matrix, rotating; all pairs in thorough
            let mut pairs = vec![];
            for alg in ALGS {
                for method in METHODS {
                    if alg.accepts(method) {
                        pairs.push((alg, method));
                    }
                }
            }
            let chosen: Vec<(Alg, Method)> = if ctx.thorough { pairs } else { vec![pairs[k % pairs.len()], pairs[(k * 7 + 3) % pairs.len()]] };
            for (alg, method) in chosen {
                let w32 = k % 2 == 0;
                out.push(Case { alg, method, w32, n, bits: m.iter().map(|&x| f64_to_bits(w32, x)).collect(), class: "exhaustive" });
                k += 1;
            }
        }
    }
    out
}

fn n_cases(ctx: &Ctx, quick: usize, thorough: usize) -> usize {
    let base = if ctx.thorough { thorough } else { quick };
    ((base as f64) * ctx.scale) as usize
}

const TIE_CLASSES: [&str; 8] = ["lattice", "allequal", "twovalued", "duppoints", "uniform", "euclid", "negmixed", "sorted"];

fn expect_ok(c: &Case, o: &Outcome) -> Result<(), String> {
    match o {
        Outcome::Panic(k) => Err(format!(
            "{} {} n={} panicked ({}: {})",
            c.alg.name(),
            method_name(c.method),
            c.n,
            k,
            last_panic_detail()
        )),
        _ => Ok(()),
    }
}

// ---------------------------------------------------------------------------

pub fn c01(ctx: &Ctx, rep: &mut Report) {
    crate::unit::uf_unit(ctx, rep);
    rep.rule = "random (alg, method, width, class, n) with valid shape; non-trivial = n >= 3; distinct by hash of the request line".into();
    let mut rng = Rng::new(ctx.seed);
    let mut cases = crate::core::corpus_cases("C01");
    rep.count_by("corpus_cases", cases.len() as u64);
    cases.extend(gen_cases(
        &mut rng,
        &GenSpec { count: n_cases(ctx, 3000, 60000), max_n: if ctx.thorough { 300 } else { 48 }, classes: &gen::CLASSES, algs: &ALGS, methods: &METHODS, min_n: 0 },
    ));
    cases.extend(exhaustive_small_cases(ctx, true));
    generic_session(ctx, rep, cases, &|c, o| {
        expect_ok(c, o)?;
        if let Outcome::Ok { obs, steps, .. } = o {
            // n <= 1: the Rust dendrogram reports 0 observations (normalised) and no steps
            oracle::wellformed(c.n, if c.n <= 1 { *obs } else { *obs }, steps)?;
        }
        Ok(())
    });
}

pub fn c02(ctx: &Ctx, rep: &mut Report) {
    rep.rule = "random valid cases in the safe magnitude range, n >= 2 counted non-trivial from n >= 3; oracle: criterion recomputed from the original matrix".into();
    let mut rng = Rng::new(ctx.seed);
    let classes: Vec<&'static str> = gen::CLASSES.iter().cloned().filter(|c| *c != "geomline").collect();
    let cases = gen_cases(
        &mut rng,
        &GenSpec { count: n_cases(ctx, 2500, 40000), max_n: if ctx.thorough { 120 } else { 40 }, classes: &classes, algs: &ALGS, methods: &METHODS, min_n: 2 },
    );
    generic_session(ctx, rep, cases, &|c, o| {
        expect_ok(c, o)?;
        let steps = o.steps().unwrap();
        oracle::wellformed(c.n, c.n, steps)?;
        oracle::criterion(c.method, c.w32, c.n, &vals_of(c), steps).map(|_| ())
    });
}

pub fn c03(ctx: &Ctx, rep: &mut Report) {
    crate::unit::heap_unit(ctx, rep);
    crate::unit::active_unit(ctx, rep);
    rep.rule = "tie-saturated and generic valid cases; oracle: replay of the returned steps with naive Lance-Williams, merged pair must be a minimum over live pairs".into();
    let mut rng = Rng::new(ctx.seed);
    let cases = gen_cases(
        &mut rng,
        &GenSpec { count: n_cases(ctx, 2500, 40000), max_n: if ctx.thorough { 100 } else { 36 }, classes: &TIE_CLASSES, algs: &ALGS, methods: &METHODS, min_n: 2 },
    );
    let mut cases = cases;
    cases.extend(exhaustive_small_cases(ctx, true));
    generic_session(ctx, rep, cases, &|c, o| {
        expect_ok(c, o)?;
        let steps = o.steps().unwrap();
        oracle::wellformed(c.n, c.n, steps)?;
        oracle::greedy_valid(c.method, c.w32, c.n, &vals_of(c), steps).map(|_| ())
    });
}

pub fn c04(ctx: &Ctx, rep: &mut Report) {
    rep.rule = "Method::Single on all five entry points, any magnitude/sign/ties; oracle: Kruskal with own DSU (partitions at every height, height multiset), bit-exact".into();
    let mut rng = Rng::new(ctx.seed);
    let mut cases = gen_cases(
        &mut rng,
        &GenSpec { count: n_cases(ctx, 2500, 30000), max_n: if ctx.thorough { 400 } else { 60 }, classes: &gen::CLASSES, algs: &ALGS, methods: &[Method::Single], min_n: 2 },
    );
    // deterministic boundary family for the active-list range queries (see gen::linewalk)
    for &l in &[15usize, 16, 17, 31, 32, 33, 63, 64, 65] {
        for &a in &[1usize, 2, 5] {
            let n = a + l + 3;
            for alg in [Alg::Mst, Alg::Linkage, Alg::Nnchain, Alg::Generic, Alg::Primitive] {
                let w32 = (l + a) % 2 == 0;
                let vals = gen::linewalk(n, a, l);
                cases.push(Case { alg, method: Method::Single, w32, n, bits: gen::to_bits("linewalk", w32, &vals), class: "linewalk" });
            }
        }
    }
    // subnormal entries (single linkage does no arithmetic: every finite value is in the domain)
    for n in [3usize, 5, 8, 13, 21, 40] {
        for alg in [Alg::Mst, Alg::Linkage, Alg::Nnchain, Alg::Generic, Alg::Primitive] {
            for w32 in [false, true] {
                let unit = if w32 { f32::from_bits(1) as f64 } else { f64::from_bits(1) };
                let vals: Vec<f64> = (0..gen::tri(n)).map(|_| (rng.below(60) as f64 - 8.0) * unit).collect();
                cases.push(Case { alg, method: Method::Single, w32, n, bits: vals.iter().map(|&x| f64_to_bits(w32, x)).collect(), class: "subnormal" });
            }
        }
    }
    crate::unit::active_unit(ctx, rep);
    if ctx.thorough {
        for n in [1000usize, 2000] {
            for class in ["lattice", "uniform", "euclid"] {
                for alg in [Alg::Mst, Alg::Linkage, Alg::Nnchain, Alg::Generic] {
                    let vals = gen::matrix(&mut rng, class, n);
                    cases.push(Case { alg, method: Method::Single, w32: false, n, bits: gen::to_bits(class, false, &vals), class });
                }
            }
        }
    }
    generic_session(ctx, rep, cases, &|c, o| {
        expect_ok(c, o)?;
        let steps = o.steps().unwrap();
        oracle::wellformed(c.n, c.n, steps)?;
        oracle::single_exact(c.w32, c.n, &c.bits, steps)
    });
}

pub fn c05(ctx: &Ctx, rep: &mut Report) {
    rep.rule = "five reducible methods on every accepting entry point, incl. ties and non-metric inputs; oracle: heights non-decreasing, exact".into();
    let mut rng = Rng::new(ctx.seed);
    let ms = [Method::Single, Method::Complete, Method::Average, Method::Weighted, Method::Ward];
    let cases = gen_cases(
        &mut rng,
        &GenSpec { count: n_cases(ctx, 3000, 60000), max_n: if ctx.thorough { 300 } else { 48 }, classes: &gen::CLASSES, algs: &ALGS, methods: &ms, min_n: 2 },
    );
    generic_session(ctx, rep, cases, &|c, o| {
        expect_ok(c, o)?;
        oracle::sorted_heights(c.w32, o.steps().unwrap())
    });
    // centroid / median: emitted in merge order = model order (correspondence only)
    let mut rng2 = rng.fork();
    let cases = gen_cases(
        &mut rng2,
        &GenSpec { count: n_cases(ctx, 500, 5000), max_n: 40, classes: &gen::CLASSES, algs: &[Alg::Primitive, Alg::Generic, Alg::Linkage], methods: &[Method::Centroid, Method::Median], min_n: 2 },
    );
    generic_session(ctx, rep, cases, &|c, o| expect_ok(c, o));
}

// ---------------------------------------------------------------------------
// C06: all algorithms agree on certified tie-free inputs
// ---------------------------------------------------------------------------

fn heights_close(w32: bool, scale: f64, a: f64, b: f64) -> bool {
    (a - b).abs() <= oracle::tol_for(w32) * scale
}

pub fn c06(ctx: &Ctx, rep: &mut Report) {
    rep.rule = "margin-certified tie-free matrices (gap between best and second-best candidate > 64*tol*scale at every step of an f64 naive run); all applicable entry points compared with each other and with an independent naive Lance-Williams; non-trivial = n >= 3".into();
    let mut rng = Rng::new(ctx.seed);
    let count = n_cases(ctx, 400, 6000);
    let max_n = if ctx.thorough { 200 } else { 40 };
    let mut cases: Vec<Case> = vec![];
    let mut groups: Vec<(usize, usize)> = vec![]; // (start, len) per input
    let mut rejected = 0u64;
    let mut tried = 0;
    while groups.len() < count && tried < count * 20 {
        tried += 1;
        let class = *rng.pick(&["uniform", "euclid", "blobs", "sorted", "revsorted", "negmixed", "shrinkline", "geomline", "neargap", "neargap", "ratioblobs"]);
        let mut n = gen::size(&mut rng, max_n).max(2);
        if class == "shrinkline" && rng.below(3) > 0 {
            n = rng.range(18.min(max_n), max_n.min(90));
        }
        if class == "neargap" && rng.below(3) > 0 {
            n = rng.range(3, 12);
        }
        if class == "ratioblobs" {
            n = rng.range(5, 13);
        }
        let mut method = *rng.pick(&METHODS);
        let mut w32 = rng.below(2) == 0;
        if class == "ratioblobs" && rng.below(2) == 0 {
            // the regime this class is for: squares of entries 1e23 apart in one f32 matrix
            method = *rng.pick(&[Method::Ward, Method::Centroid, Method::Median]);
            w32 = true;
        }
        let vals0 = gen::matrix(&mut rng, class, n);
        // rescale by an exact power of two: tie-freeness is a relative notion, so inputs of very
        // small or large magnitude are as much in the property's domain as unit-scale ones
        let k = if class == "ratioblobs" { 0 } else { *rng.pick(&[0i32, 0, -20, -40, 20, if w32 { -30 } else { -60 }]) };
        let vals0: Vec<f64> = vals0.iter().map(|x| x * 2f64.powi(k)).collect();
        rep.count(&format!("scale.2^{}", k));
        let bits = gen::to_bits(class, w32, &vals0);
        let vals: Vec<f64> = bits.iter().map(|&b| bits_to_f64(w32, b)).collect();
        let nv = oracle::naive_cluster(method, n, &vals);
        let certified = if class == "ratioblobs" { nv.rel_margin > 4.0 * oracle::safe_margin(w32, method, n) } else { nv.margin > oracle::safe_margin(w32, method, n) };
        if !certified {
            rejected += 1;
            continue;
        }
        let start = cases.len();
        for alg in ALGS {
            if alg.accepts(method) && !(alg == Alg::Primitive && n > 60) {
                cases.push(Case { alg, method, w32, n, bits: bits.clone(), class });
            }
        }
        groups.push((start, cases.len() - start));
    }
    rep.count_by("rejected_not_tie_free", rejected);
    let cases = Arc::new(cases);
    let impl_out = match run_impl_all(ctx, rep, &cases) {
        Some(v) => v,
        None => return,
    };
    for (c, o) in cases.iter().zip(&impl_out) {
        rep.seen(&op_line_call(c), c.n >= 3);
        tally(rep, c, o);
    }
    correspond(ctx, rep, &cases, &impl_out);
    // second pass: the same calls through the `_with` forms on ONE LinkageState/Dendrogram per width
    // shared by the whole sequence (the property speaks about every entry point, not only fresh objects)
    let mut reused_out: Vec<Outcome> = Vec::with_capacity(cases.len());
    {
        let mut st64 = kodama::LinkageState::<f64>::new();
        let mut d64 = kodama::Dendrogram::<f64>::new(0);
        let mut st32 = kodama::LinkageState::<f32>::new();
        let mut d32 = kodama::Dendrogram::<f32>::new(0);
        for c in cases.iter() {
            reused_out.push(if c.w32 {
                run_with_t::<f32>(&mut st32, &mut d32, c.alg, c.method, c.n, &c.bits)
            } else {
                run_with_t::<f64>(&mut st64, &mut d64, c.alg, c.method, c.n, &c.bits)
            });
        }
    }
    for pass in 0..2 {
    let impl_out: &Vec<Outcome> = if pass == 0 { &impl_out } else { &reused_out };
    for &(start, len) in &groups {
        let c0 = &cases[start];
        let vals = vals_of(c0);
        let scale = oracle::scale_of(&vals);
        let nv = oracle::naive_cluster(c0.method, c0.n, &vals);
        rep.oracle_checked += 1;
        for k in start..start + len {
            let c = &cases[k];
            let o = &impl_out[k];
            let r: Result<(), String> = (|| {
                expect_ok(c, o)?;
                let steps = o.steps().unwrap();
                if steps.len() != nv.steps.len() {
                    return Err("step count differs from naive reference".into());
                }
                for (i, (s, r)) in steps.iter().zip(&nv.steps).enumerate() {
                    let h = bits_to_f64(c.w32, s.bits);
                    if s.c1 != r.0 || s.c2 != r.1 || s.size != r.3 || !heights_close(c.w32, scale, h, r.2) {
                        return Err(format!(
                            "{} step {}: ({},{},{},{}) but naive reference has ({},{},{},{})",
                            c.alg.name(), i, s.c1, s.c2, h, s.size, r.0, r.1, r.2, r.3
                        ));
                    }
                }
                Ok(())
            })();
            if let Err(e) = r {
                let e = if pass == 1 { format!("on reused LinkageState/Dendrogram (sequence of all cases of this run): {}", e) } else { e };
                rep.fail("oracle", e, vec![op_line_call(c)], vec![o.line(false)], vec![]);
            }
        }
    }
    }
}

// ---------------------------------------------------------------------------
// C07: condensed layout probes
// ---------------------------------------------------------------------------

fn pair_of_slot(n: usize, k: usize) -> (usize, usize) {
    // by counting, not by formula
    let mut c = 0;
    for i in 0..n {
        for j in i + 1..n {
            if c == k {
                return (i, j);
            }
            c += 1;
        }
    }
    unreachable!()
}

pub fn c07(ctx: &Ctx, rep: &mut Report) {
    rep.rule = "probe matrices: all ones, slot k = 0.25, slot k2 = 0.5; quick: every slot k for n <= 24 (k2 random), thorough: every slot for n <= 64; all five entry points on structured (row starts/ends, 32-column block boundaries, last column) and random slots for n in 32..130; random slots for n up to 3000 (mst, linkage); first step must merge pair(k) at 0.25, under single the second step joins the clusters of pair(k2) at 0.5".into();
    let mut rng = Rng::new(ctx.seed);
    let mut cases = vec![];
    let mut meta: Vec<(usize, usize)> = vec![];
    let max_full = if ctx.thorough { 64 } else { 24 };
    let push = |cases: &mut Vec<Case>, meta: &mut Vec<(usize, usize)>, rng: &mut Rng, n: usize, k: usize, all_algs: bool| {
        let len = gen::tri(n);
        let mut k2 = rng.below(len as u64) as usize;
        if len > 1 {
            while k2 == k {
                k2 = rng.below(len as u64) as usize;
            }
        }
        let w32 = rng.below(2) == 0;
        let mut vals = vec![1.0f64; len];
        if len > 1 {
            vals[k2] = 0.5;
        }
        vals[k] = 0.25;
        let bits: Vec<u64> = vals.iter().map(|&x| f64_to_bits(w32, x)).collect();
        let algs: Vec<(Alg, Method)> = if all_algs {
            vec![
                (Alg::Mst, Method::Single),
                (Alg::Linkage, *rng.pick(&METHODS)),
                (Alg::Nnchain, *rng.pick(&[Method::Single, Method::Complete, Method::Average, Method::Weighted, Method::Ward])),
                (Alg::Generic, *rng.pick(&METHODS)),
                (Alg::Primitive, *rng.pick(&METHODS)),
            ]
        } else {
            vec![(Alg::Mst, Method::Single), (Alg::Linkage, *rng.pick(&METHODS))]
        };
        for (alg, method) in algs {
            if alg == Alg::Primitive && n > 40 {
                continue;
            }
            cases.push(Case { alg, method, w32, n, bits: bits.clone(), class: "probe" });
            meta.push((k, k2));
        }
    };
    for n in 2..=max_full {
        for k in 0..gen::tri(n) {
            push(&mut cases, &mut meta, &mut rng, n, k, n <= 12 || k % 7 == 0);
        }
    }
    // mid-range sizes around block boundaries (32, 64, 128 entries per row / observations), ALL entry
    // points: row ends, row starts, last column, first and last slots, and random slots
    for &n in &[31usize, 32, 33, 34, 40, 50, 63, 64, 65, 66, 70, 97, 127, 128, 129, 130] {
        if !ctx.thorough && (n == 31 || n == 63 || n == 66 || n == 127 || n == 130) {
            continue;
        }
        let len = gen::tri(n);
        let mut slots: Vec<usize> = vec![0, 1, len - 1, len - 2, n - 2, n - 1];
        // slots (0, c) for a spread of columns, (r, r+1) and (r, n-1) for a spread of rows
        let mut off = 0usize;
        for r in 0..n - 1 {
            let row_len = n - 1 - r;
            if r < 3 || r % 9 == 0 || r + 3 >= n {
                slots.push(off);
                slots.push(off + row_len - 1);
                slots.push(off + row_len / 2);
                if row_len > 32 {
                    slots.push(off + 31);
                    slots.push(off + 32);
                    slots.push(off + 32 * (row_len / 32));
                    slots.push(off + 32 * (row_len / 32) - 1);
                }
            }
            off += row_len;
        }
        for _ in 0..(if ctx.thorough { 200 } else { 40 }) {
            slots.push(rng.below(len as u64) as usize);
        }
        slots.sort_unstable();
        slots.dedup();
        for k in slots {
            if k < len {
                push(&mut cases, &mut meta, &mut rng, n, k, true);
            }
        }
    }
    // memory: a case holds its whole matrix (n = 3000: 36 MB), so the very large sizes are few
    let big = if ctx.thorough { 162 } else { 30 };
    for i in 0..big {
        let n = if !ctx.thorough { rng.range(65, 300) } else if i < 150 { rng.range(65, 1000) } else { rng.range(1000, 3000) };
        let k = rng.below(gen::tri(n) as u64) as usize;
        push(&mut cases, &mut meta, &mut rng, n, k, false);
    }
    // very large n (index arithmetic beyond 2^23 slots: f32 precision, 32-bit truncation): both widths,
    // row-end / row-start / last slots; the quadratic entry points in both profiles, the cubic
    // `primitive` only in the release-profile run (one case, ~20 s on one core while the rest proceeds)
    {
        let huge: &[usize] = if ctx.thorough { &[4098, 4100, 5000, 6500] } else { &[4100] };
        for &n in huge {
            let len = gen::tri(n);
            let r = rng.range(1, 40);
            let off_r: usize = (0..r).map(|i| n - 1 - i).sum();
            let slots = [n - 2, off_r + (n - 1 - r) - 1, len - 1, off_r, rng.below(len as u64) as usize];
            for (si, &k) in slots.iter().enumerate() {
                for w32 in [true, false] {
                    if !ctx.thorough && !w32 && si > 1 {
                        continue;
                    }
                    let mut vals = vec![1.0f64; len];
                    let mut k2 = rng.below(len as u64) as usize;
                    while k2 == k {
                        k2 = rng.below(len as u64) as usize;
                    }
                    vals[k2] = 0.5;
                    vals[k] = 0.25;
                    let bits: Vec<u64> = vals.iter().map(|&x| f64_to_bits(w32, x)).collect();
                    let mut algs: Vec<(Alg, Method)> = match si % 3 {
                        0 => vec![(Alg::Mst, Method::Single), (Alg::Generic, *rng.pick(&METHODS))],
                        1 => vec![(Alg::Nnchain, *rng.pick(&[Method::Single, Method::Complete, Method::Average, Method::Weighted, Method::Ward])), (Alg::Generic, Method::Single)],
                        _ => vec![(Alg::Linkage, *rng.pick(&METHODS))],
                    };
                    if si == 0 && w32 && n <= 4100 && !crate::core::checked_build() {
                        algs.push((Alg::Primitive, *rng.pick(&[Method::Single, Method::Complete, Method::Average])));
                    }
                    for (alg, method) in algs {
                        cases.push(Case { alg, method, w32, n, bits: bits.clone(), class: "probe" });
                        meta.push((k, k2));
                    }
                }
            }
        }
    }
    let meta = Arc::new(meta);
    let cases = Arc::new(cases);
    let impl_out = match run_impl_all(ctx, rep, &cases) {
        Some(v) => v,
        None => return,
    };
    for (c, o) in cases.iter().zip(&impl_out) {
        rep.seen(&format!("{} {} w{} n={} probe", c.alg.name(), method_name(c.method), if c.w32 { 32 } else { 64 }, c.n), c.n >= 3);
        tally(rep, c, o);
    }
    spec_pair_pass(ctx, rep, &cases, &meta);
    // correspondence on a subsample of the large ones (all of the small ones)
    let idx: Vec<usize> = (0..cases.len()).filter(|&i| cases[i].n <= 40 || (i % 5 == 0 && cases[i].n <= 3000)).collect();
    let sub: Vec<Case> = idx.iter().map(|&i| cases[i].clone()).collect();
    let sub_out: Vec<Outcome> = idx.iter().map(|&i| impl_out[i].clone()).collect();
    correspond(ctx, rep, &sub, &sub_out);
    for (i, (c, o)) in cases.iter().zip(&impl_out).enumerate() {
        let (k, k2) = meta[i];
        rep.oracle_checked += 1;
        if let Err(e) = c07_probe(c, o, k, k2) {
            rep.fail("oracle", e, vec![op_line_call(c)], vec![o.line(false)], vec![]);
        }
    }
    // the probes once more through the `_with` forms on REUSED objects, sizes mixed (growing and shrinking
    // from one call to the next): anything a LinkageState caches about the layout for one n must not be
    // used for another. Sessions of 12 calls per float width, n <= 130.
    let small: Vec<usize> = (0..cases.len()).filter(|&i| cases[i].n <= 130).collect();
    let m = small.len().max(1);
    let mixed: Vec<usize> = (0..small.len()).map(|j| small[(j * 7919 + ctx.seed as usize) % m]).collect(); // 7919 is prime: a permutation unless m is a multiple of it
    let mut sessions: Vec<crate::history::History> = vec![];
    let mut members: Vec<Vec<usize>> = vec![];
    for w32 in [false, true] {
        let idx: Vec<usize> = mixed.iter().cloned().filter(|&i| cases[i].w32 == w32).collect();
        let take = if ctx.thorough { idx.len() } else { idx.len().min(6000) };
        for chunk in idx[..take].chunks(12) {
            sessions.push(crate::history::History { id: sessions.len(), w32, calls: chunk.iter().map(|&i| cases[i].clone()).collect() });
            members.push(chunk.to_vec());
        }
    }
    rep.count_by("reused_state_sessions", sessions.len() as u64);
    let sessions = Arc::new(sessions);
    let shared = match par_map(sessions.clone(), ctx.threads, |_h| std::time::Duration::from_secs(120), crate::history::run_history) {
        Ok(v) => v,
        Err(i) => {
            rep.fail("hang", "session of `_with` probe calls on reused objects did not finish".into(), sessions[i].calls.iter().map(|c| op_line_with(0, c)).collect(), vec![], vec![]);
            return;
        }
    };
    for ((h, outs), mem) in sessions.iter().zip(&shared).zip(&members) {
        for (j, &i) in mem.iter().enumerate() {
            let (k, k2) = meta[i];
            rep.oracle_checked += 1;
            rep.count("reused_state_probes");
            if let Err(e) = c07_probe(&h.calls[j], &outs[j], k, k2) {
                rep.fail(
                    "oracle",
                    format!("on reused objects (call {} of a `_with` session, previous sizes {:?}): {}", j, h.calls[..j].iter().map(|c| c.n).collect::<Vec<_>>(), e),
                    h.calls[..j + 1].iter().map(|c| op_line_with(0, c)).collect(),
                    vec![outs[j].line(false)],
                    vec![],
                );
                break;
            }
        }
    }
}

/// C07 for one probe: slot `k` holds the smallest entry, slot `k2` the second smallest.
fn c07_probe(c: &Case, o: &Outcome, k: usize, k2: usize) -> Result<(), String> {
    expect_ok(c, o)?;
    let steps = o.steps().unwrap();
    let (pi, pj) = pair_of_slot(c.n, k);
    let s0 = &steps[0];
    let q = f64_to_bits(c.w32, 0.25);
    if s0.c1 != pi || s0.c2 != pj || s0.bits != q || s0.size != 2 {
        return Err(format!("slot {} of n={} is pair ({},{}) but first step is ({},{},{},{})", k, c.n, pi, pj, s0.c1, s0.c2, bits_to_f64(c.w32, s0.bits), s0.size));
    }
    if let Method::Single = c.method {
        if c.n >= 3 {
            let (qi, qj) = pair_of_slot(c.n, k2);
            let s1 = &steps[1];
            let lab = |x: usize| if x == pi || x == pj { c.n } else { x };
            let (mut e1, mut e2) = (lab(qi), lab(qj));
            if e1 > e2 {
                std::mem::swap(&mut e1, &mut e2);
            }
            if s1.c1 != e1 || s1.c2 != e2 || s1.bits != f64_to_bits(c.w32, 0.5) {
                return Err(format!("second-smallest slot {} is pair ({},{}); expected second step ({},{}) at 0.5, got ({},{},{})", k2, qi, qj, e1, e2, s1.c1, s1.c2, bits_to_f64(c.w32, s1.bits)));
            }
        }
    }
    Ok(())
}


/// The oracle's slot -> pair map against the SPECIFICATION of C07 (`Spec.pairs n`, the row-major
/// enumeration by two nested ranges that `C07_layout` is stated against), evaluated by the Lean driver.
fn spec_pair_pass(ctx: &Ctx, rep: &mut Report, cases: &[Case], meta: &[(usize, usize)]) {
    if ctx.driver == "none" {
        return;
    }
    let mut seen = std::collections::HashSet::new();
    let mut want = vec![];
    let mut lines = vec![];
    for (c, &(k, k2)) in cases.iter().zip(meta) {
        if c.n > 400 {
            continue;
        }
        for kk in [k, k2] {
            if kk < gen::tri(c.n) && seen.insert((c.n, kk)) {
                let (i, j) = pair_of_slot(c.n, kk);
                lines.push(format!("spec pair {} {}", c.n, kk));
                want.push(format!("ok {} {}", i, j));
            }
        }
    }
    let res = match crate::core::run_driver_par(&ctx.driver, &lines, ctx.threads) {
        Ok(v) => v,
        Err(e) => {
            rep.fail("model", format!("driver error (spec pair): {}", e), vec![], vec![], vec![]);
            return;
        }
    };
    for ((l, w), r) in lines.iter().zip(&want).zip(&res) {
        rep.count("lean_spec_pairs_evaluated");
        if w != r {
            rep.fail("model", "the oracle's slot->pair map disagrees with Spec.pairs (the specification C07_layout is stated against)".into(), vec![l.clone()], vec![w.clone()], vec![r.clone()]);
            return;
        }
    }
}

// ---------------------------------------------------------------------------
// C09 / C10 / C11: transformed inputs
// ---------------------------------------------------------------------------

fn scale_bits(w32: bool, b: u64, k: i32) -> Option<u64> {
    let x = bits_to_f64(w32, b);
    let y = x * 2f64.powi(k);
    let yb = f64_to_bits(w32, y);
    // exact and normal (or zero)
    let back = bits_to_f64(w32, yb);
    if back != y || !(y == 0.0 || y.abs() >= if w32 { 1e-30 } else { 1e-290 }) || !y.is_finite() {
        return None;
    }
    Some(yb)
}

pub fn c09(ctx: &Ctx, rep: &mut Report) {
    rep.rule = "valid cases incl. ties; each run again with every entry multiplied by 2^k (k in +-1,+-7,+-20 f32 / +-100 f64, only when exact and squares stay normal); labels/sizes identical, heights x 2^k bit for bit".into();
    let mut rng = Rng::new(ctx.seed);
    let classes = ["uniform", "lattice", "allequal", "twovalued", "duppoints", "euclid", "blobs", "sorted", "negmixed", "signedzeros"];
    let base = gen_cases(
        &mut rng,
        &GenSpec { count: n_cases(ctx, 1200, 20000), max_n: if ctx.thorough { 150 } else { 36 }, classes: &classes, algs: &ALGS, methods: &METHODS, min_n: 2 },
    );
    let mut cases = vec![];
    let mut ks = vec![];
    for c in base {
        let kk: &[i32] = if c.w32 { &[1, -1, 7, -7, 20, -20] } else { &[1, -1, 7, -7, 100, -100] };
        let k = *rng.pick(kk);
        // squares must stay in range too: check 2k on the squares
        let ok = c.bits.iter().all(|&b| {
            scale_bits(c.w32, b, k).is_some() && {
                let x = bits_to_f64(c.w32, b);
                let sq = f64_to_bits(c.w32, x * x);
                let sqv = bits_to_f64(c.w32, sq);
                sqv == 0.0 && x == 0.0 || (sqv != 0.0 && scale_bits(c.w32, sq, 2 * k).is_some() && sqv.abs() >= if c.w32 { 1e-25 } else { 1e-200 } && sqv.abs() <= if c.w32 { 1e25 } else { 1e200 })
            }
        });
        if !ok {
            rep.count("skipped_scale_not_exact");
            continue;
        }
        let scaled: Vec<u64> = c.bits.iter().map(|&b| scale_bits(c.w32, b, k).unwrap()).collect();
        let mut c2 = c.clone();
        c2.bits = scaled;
        cases.push(c);
        cases.push(c2);
        ks.push(k);
    }
    let cases = Arc::new(cases);
    let impl_out = match run_impl_all(ctx, rep, &cases) {
        Some(v) => v,
        None => return,
    };
    for (c, o) in cases.iter().zip(&impl_out) {
        rep.seen(&op_line_call(c), c.n >= 3);
        tally(rep, c, o);
    }
    correspond(ctx, rep, &cases, &impl_out);
    for (p, &k) in ks.iter().enumerate() {
        let (c, o1, o2) = (&cases[2 * p], &impl_out[2 * p], &impl_out[2 * p + 1]);
        rep.oracle_checked += 1;
        if let Err(e) = c09_pair(c, &cases[2 * p + 1], o1, o2, k) {
            rep.fail("oracle", e, vec![op_line_call(c), op_line_call(&cases[2 * p + 1])], vec![o1.line(false), o2.line(false)], vec![]);
        }
    }
    run_pairs_reused(ctx, rep, &cases, ks.len(), &|p, c, c2, o1, o2| c09_pair(c, c2, o1, o2, ks[p]));
}

/// C09 for one pair: the run on `2^k M` has the labels and sizes of the run on `M` and heights `2^k height`.
fn c09_pair(c: &Case, c2: &Case, o1: &Outcome, o2: &Outcome, k: i32) -> Result<(), String> {
    expect_ok(c, o1)?;
    expect_ok(c2, o2)?;
    let (s1, s2) = (o1.steps().unwrap(), o2.steps().unwrap());
    for (i, (a, b)) in s1.iter().zip(s2).enumerate() {
        let exp = scale_bits(c.w32, a.bits, k);
        // equal as VALUES (an image may be +0 where the run reports -0: the same number)
        let height_ok = match exp {
            Some(e) => e == b.bits || bits_to_f64(c.w32, e) == bits_to_f64(c.w32, b.bits),
            None => false,
        };
        if a.c1 != b.c1 || a.c2 != b.c2 || a.size != b.size || !height_ok {
            // heights that are subnormal/overflowing after scaling are outside the safe range
            if exp.is_none() {
                return Ok(());
            }
            return Err(format!(
                "x2^{}: step {} ({},{},{},{}) became ({},{},{},{})",
                k, i, a.c1, a.c2, bits_to_f64(c.w32, a.bits), a.size, b.c1, b.c2, bits_to_f64(c.w32, b.bits), b.size
            ));
        }
    }
    Ok(())
}

fn mono_map(kind: usize, x: f64) -> f64 {
    match kind {
        0 => 3.0 * x + 7.0,
        1 => x * x * x + 3.0,
        2 => (x / 8.0).exp(),
        3 => (x + 200.0).ln(),
        // shrink to magnitudes where distinct values differ by less than machine epsilon in
        // absolute terms (an absolute tolerance anywhere in the code would conflate them)
        5 => x * 2f64.powi(-60),
        6 => x * 2f64.powi(-24),
        _ => x,
    }
}

/// all weak orderings of `m` items as rank vectors (ranks 0..k-1 all used)
fn weak_orderings(m: usize) -> Vec<Vec<usize>> {
    fn rec(m: usize, cur: &mut Vec<usize>, out: &mut Vec<Vec<usize>>) {
        if cur.len() == m {
            let k = cur.iter().max().map(|x| x + 1).unwrap_or(0);
            let mut seen = vec![false; k];
            for &c in cur.iter() {
                seen[c] = true;
            }
            if seen.iter().all(|&b| b) {
                out.push(cur.clone());
            }
            return;
        }
        for r in 0..m {
            cur.push(r);
            rec(m, cur, out);
            cur.pop();
        }
    }
    let mut out = vec![];
    rec(m, &mut vec![], &mut out);
    out
}

pub fn c10(ctx: &Ctx, rep: &mut Report) {
    rep.rule = "single/complete on every accepting entry point; each case run again through a strictly increasing map g (affine, cubic, exp-like, log-like, rank transform) applied when injective on the values; labels/sizes identical and heights = g(height) bit for bit; plus all 4683 weak orderings of the 6 entries for n = 4 (thorough: n = 5 sampled exhaustively by rank patterns up to 541*... see distribution)".into();
    let mut rng = Rng::new(ctx.seed);
    let classes = ["uniform", "lattice", "allequal", "twovalued", "duppoints", "euclid", "blobs", "sorted", "negmixed", "signedzeros"];
    let base = gen_cases(
        &mut rng,
        &GenSpec { count: n_cases(ctx, 1200, 20000), max_n: if ctx.thorough { 150 } else { 36 }, classes: &classes, algs: &ALGS, methods: &[Method::Single, Method::Complete], min_n: 2 },
    );
    let mut cases = vec![];
    let mut maps: Vec<Vec<(u64, u64)>> = vec![];
    let add_pair = |cases: &mut Vec<Case>, maps: &mut Vec<Vec<(u64, u64)>>, c: Case, table: Vec<(u64, u64)>| {
        let mut c2 = c.clone();
        c2.bits = c.bits.iter().map(|b| table.iter().find(|t| t.0 == *b).unwrap().1).collect();
        cases.push(c);
        cases.push(c2);
        maps.push(table);
    };
    for c in base {
        let kind = rng.below(7) as usize;
        // distinct input values sorted
        let mut vs: Vec<u64> = c.bits.clone();
        vs.sort_by(|a, b| bits_to_f64(c.w32, *a).partial_cmp(&bits_to_f64(c.w32, *b)).unwrap());
        vs.dedup();
        // -0 and +0 may both be present: they are ONE value with two bit patterns; g is a function of
        // the value, so both are sent to g(0) (checked below: images equal exactly where values are)
        let fv: Vec<f64> = vs.iter().map(|&b| bits_to_f64(c.w32, b)).collect();
        let both_zeros = fv.windows(2).any(|w| w[0] == w[1]);
        if both_zeros {
            rep.count("signed_zero_pair_present");
        }
        let table: Vec<(u64, u64)> = if kind == 4 {
            vs.iter().enumerate().map(|(i, &b)| (b, f64_to_bits(c.w32, (i + 1) as f64))).collect()
        } else {
            vs.iter().map(|&b| (b, f64_to_bits(c.w32, mono_map(kind, bits_to_f64(c.w32, b))))).collect()
        };
        let gv: Vec<f64> = table.iter().map(|t| bits_to_f64(c.w32, t.1)).collect();
        let order_kept = fv.windows(2).zip(gv.windows(2)).all(|(f, g)| if f[0] == f[1] { g[0] == g[1] } else { g[0] < g[1] });
        if !order_kept || gv.iter().any(|x| !x.is_finite()) || (both_zeros && kind == 4) {
            rep.count("skipped_map_not_injective");
            continue;
        }
        rep.count(&format!("map.{}", ["affine", "cubic", "exp", "log", "rank", "tiny60", "tiny24"][kind]));
        add_pair(&mut cases, &mut maps, c, table);
    }
    // exhaustive weak orderings, n = 4 (6 entries): original = ranks, image = cubic map of ranks
    let wo = weak_orderings(6);
    rep.count_by("weak_orderings_n4", wo.len() as u64);
    let stride = if ctx.thorough { 1 } else { 3 };
    for (wi, ranks) in wo.iter().enumerate() {
        if wi % stride != (ctx.seed as usize % stride) {
            continue;
        }
        for &method in &[Method::Single, Method::Complete] {
            for alg in ALGS {
                if !alg.accepts(method) {
                    continue;
                }
                let w32 = (wi + alg as usize) % 2 == 0;
                let bits: Vec<u64> = ranks.iter().map(|&r| f64_to_bits(w32, (r + 1) as f64)).collect();
                let mut vs = bits.clone();
                vs.sort();
                vs.dedup();
                // alternate the image: cubic, or shrunk to 2^-60 / 2^-24 (f32) magnitudes
                let table: Vec<(u64, u64)> = if wi % 2 == 0 {
                    vs.iter().map(|&b| (b, f64_to_bits(w32, mono_map(1, bits_to_f64(w32, b)) * 0.5))).collect()
                } else {
                    vs.iter().map(|&b| (b, f64_to_bits(w32, mono_map(if w32 { 6 } else { 5 }, bits_to_f64(w32, b))))).collect()
                };
                add_pair(&mut cases, &mut maps, Case { alg, method, w32, n: 4, bits, class: "weakorder" }, table);
            }
        }
    }
    if ctx.thorough {
        // n = 5: 10 entries; sample rank patterns exhaustively over weak orderings with <= 3 levels
        fn rec(m: usize, levels: usize, cur: &mut Vec<usize>, out: &mut Vec<Vec<usize>>) {
            if cur.len() == m {
                out.push(cur.clone());
                return;
            }
            for r in 0..levels {
                cur.push(r);
                rec(m, levels, cur, out);
                cur.pop();
            }
        }
        let mut pats = vec![];
        rec(10, 3, &mut vec![], &mut pats);
        rep.count_by("rank_patterns_n5_3levels", pats.len() as u64);
        for (pi, ranks) in pats.iter().enumerate() {
            let method = if pi % 2 == 0 { Method::Single } else { Method::Complete };
            let alg = ALGS[pi % 5];
            if !alg.accepts(method) {
                continue;
            }
            let w32 = pi % 3 == 0;
            let bits: Vec<u64> = ranks.iter().map(|&r| f64_to_bits(w32, (r + 1) as f64)).collect();
            let mut vs = bits.clone();
            vs.sort();
            vs.dedup();
            let table: Vec<(u64, u64)> = vs.iter().map(|&b| (b, f64_to_bits(w32, mono_map(0, bits_to_f64(w32, b))))).collect();
            add_pair(&mut cases, &mut maps, Case { alg, method, w32, n: 5, bits, class: "weakorder" }, table);
        }
    }
    let cases = Arc::new(cases);
    let impl_out = match run_impl_all(ctx, rep, &cases) {
        Some(v) => v,
        None => return,
    };
    for (c, o) in cases.iter().zip(&impl_out) {
        rep.seen(&op_line_call(c), c.n >= 3);
        tally(rep, c, o);
    }
    correspond(ctx, rep, &cases, &impl_out);
    for (p, table) in maps.iter().enumerate() {
        let (c, o1, o2) = (&cases[2 * p], &impl_out[2 * p], &impl_out[2 * p + 1]);
        rep.oracle_checked += 1;
        if let Err(e) = c10_pair(c, &cases[2 * p + 1], o1, o2, table) {
            rep.fail("oracle", e, vec![op_line_call(c), op_line_call(&cases[2 * p + 1])], vec![o1.line(false), o2.line(false)], vec![]);
        }
    }
    run_pairs_reused(ctx, rep, &cases, maps.len(), &|p, c, c2, o1, o2| c10_pair(c, c2, o1, o2, &maps[p]));
}

/// The pairs `(cases[2p], cases[2p+1])` once more through the `_with` forms on objects that are REUSED:
/// sessions of up to 8 pairs (M, g(M), M', g'(M'), ...) of one float width share one LinkageState /
/// Dendrogram, as the crate's documentation recommends; whatever an earlier call left behind must not
/// reach a later result, so `check` must accept each pair exactly as it does on fresh objects.
fn run_pairs_reused(ctx: &Ctx, rep: &mut Report, cases: &[Case], npairs: usize, check: &dyn Fn(usize, &Case, &Case, &Outcome, &Outcome) -> Result<(), String>) {
    let mut sessions: Vec<crate::history::History> = vec![];
    let mut session_pairs: Vec<Vec<usize>> = vec![];
    for w32 in [false, true] {
        let idx: Vec<usize> = (0..npairs).filter(|&p| cases[2 * p].w32 == w32).collect();
        for chunk in idx.chunks(8) {
            let mut calls = vec![];
            for &p in chunk {
                calls.push(cases[2 * p].clone());
                calls.push(cases[2 * p + 1].clone());
            }
            sessions.push(crate::history::History { id: sessions.len(), w32, calls });
            session_pairs.push(chunk.to_vec());
        }
    }
    rep.count_by("reused_state_sessions", sessions.len() as u64);
    let sessions = Arc::new(sessions);
    let shared = match par_map(sessions.clone(), ctx.threads, |_h| std::time::Duration::from_secs(120), crate::history::run_history) {
        Ok(v) => v,
        Err(i) => {
            rep.fail("hang", "session of `_with` calls on reused objects did not finish".into(), sessions[i].calls.iter().map(|c| op_line_with(0, c)).collect(), vec![], vec![]);
            return;
        }
    };
    for ((h, outs), pairs) in sessions.iter().zip(&shared).zip(&session_pairs) {
        for (k, &p) in pairs.iter().enumerate() {
            rep.oracle_checked += 1;
            rep.count("reused_state_pairs");
            let (c, c2, o1, o2) = (&h.calls[2 * k], &h.calls[2 * k + 1], &outs[2 * k], &outs[2 * k + 1]);
            if let Err(e) = check(p, c, c2, o1, o2) {
                rep.fail(
                    "oracle",
                    format!("on reused objects (call {} and {} of a `_with` session): {}", 2 * k, 2 * k + 1, e),
                    h.calls[..2 * k + 2].iter().map(|c| op_line_with(0, c)).collect(),
                    vec![o1.line(false), o2.line(false)],
                    vec![],
                );
                break;
            }
        }
    }
}

/// C10 for one pair: the run on `g(M)` has the labels and sizes of the run on `M` and heights `g(height)`.
fn c10_pair(c: &Case, c2: &Case, o1: &Outcome, o2: &Outcome, table: &[(u64, u64)]) -> Result<(), String> {
    expect_ok(c, o1)?;
    expect_ok(c2, o2)?;
    let (s1, s2) = (o1.steps().unwrap(), o2.steps().unwrap());
    for (i, (a, b)) in s1.iter().zip(s2).enumerate() {
        // heights are input values (single/complete only select): look up by value
        let av = bits_to_f64(c.w32, a.bits);
        let exp = table.iter().find(|t| bits_to_f64(c.w32, t.0) == av).map(|t| t.1);
        // equal as VALUES: with both zeros present the image of the height may be +0 where the run
        // reports -0 (the same number)
        let height_ok = match exp {
            Some(e) => e == b.bits || bits_to_f64(c.w32, e) == bits_to_f64(c.w32, b.bits),
            None => false,
        };
        if a.c1 != b.c1 || a.c2 != b.c2 || a.size != b.size || !height_ok {
            return Err(format!(
                "g: step {} ({},{},{},{}) became ({},{},{},{}) expected height bits {:?}",
                i, a.c1, a.c2, av, a.size, b.c1, b.c2, bits_to_f64(c.w32, b.bits), b.size, exp
            ));
        }
    }
    Ok(())
}

fn permute_matrix(n: usize, vals: &[u64], perm: &[usize]) -> Vec<u64> {
    // new observation i is old observation perm[i]
    let mut full = vec![vec![0u64; n]; n];
    let mut k = 0;
    for i in 0..n {
        for j in i + 1..n {
            full[i][j] = vals[k];
            full[j][i] = vals[k];
            k += 1;
        }
    }
    let mut out = vec![];
    for i in 0..n {
        for j in i + 1..n {
            out.push(full[perm[i]][perm[j]]);
        }
    }
    out
}

pub fn c11(ctx: &Ctx, rep: &mut Report) {
    rep.rule = "margin-certified tie-free matrices, n >= 3; observations permuted (random, reversal, rotation, swap first/last); cluster families as observation sets and heights (tolerance) must coincide after mapping back".into();
    let mut rng = Rng::new(ctx.seed);
    let count = n_cases(ctx, 500, 8000);
    let max_n = if ctx.thorough { 200 } else { 36 };
    let mut cases = vec![];
    let mut perms: Vec<Vec<usize>> = vec![];
    let mut tried = 0;
    while perms.len() < count && tried < count * 20 {
        tried += 1;
        let class = *rng.pick(&["uniform", "euclid", "blobs", "sorted", "revsorted", "shrinkline", "geomline", "neargap", "ratioblobs"]);
        let mut n = gen::size(&mut rng, max_n).max(3);
        if class == "shrinkline" && rng.below(3) > 0 {
            // deep nearest-neighbour chains need many observations
            n = rng.range(18.min(max_n), max_n.min(90));
        }
        // mid-range sizes (row lengths beyond 64 / 128: block thresholds of "optimised" scans), one case in ten
        let mid = tried % 10 == 0 && class != "shrinkline";
        if mid {
            n = rng.range(61, 150);
        }
        let method = *rng.pick(&METHODS);
        let alg = *rng.pick(&ALGS);
        if !alg.accepts(method) || (alg == Alg::Primitive && n > if mid { 110 } else { 60 }) {
            continue;
        }
        let w32 = rng.below(2) == 0;
        let vals0 = gen::matrix(&mut rng, class, n);
        // exact power-of-two rescaling: tie-freeness is relative, small/large units are in the domain
        let k = if class == "ratioblobs" { 0 } else { *rng.pick(&[0i32, 0, -20, -40, 20, if w32 { -30 } else { -60 }]) };
        let vals0: Vec<f64> = vals0.iter().map(|x| x * 2f64.powi(k)).collect();
        rep.count(&format!("scale.2^{}", k));
        let bits = gen::to_bits(class, w32, &vals0);
        let vals: Vec<f64> = bits.iter().map(|&b| bits_to_f64(w32, b)).collect();
        let nv = oracle::naive_cluster(method, n, &vals);
        let certified = if class == "ratioblobs" { nv.rel_margin > 4.0 * oracle::safe_margin(w32, method, n) } else { nv.margin > oracle::safe_margin(w32, method, n) };
        if !certified {
            rep.count("rejected_not_tie_free");
            continue;
        }
        let mut perm: Vec<usize> = (0..n).collect();
        match rng.below(4) {
            0 => rng.shuffle(&mut perm),
            1 => perm.reverse(),
            2 => perm.rotate_left(rng.range(1, n - 1)),
            _ => perm.swap(0, n - 1),
        }
        let pb = permute_matrix(n, &bits, &perm);
        cases.push(Case { alg, method, w32, n, bits, class });
        cases.push(Case { alg, method, w32, n, bits: pb, class });
        perms.push(perm);
    }
    let cases = Arc::new(cases);
    let impl_out = match run_impl_all(ctx, rep, &cases) {
        Some(v) => v,
        None => return,
    };
    for (c, o) in cases.iter().zip(&impl_out) {
        rep.seen(&op_line_call(c), true);
        tally(rep, c, o);
    }
    correspond(ctx, rep, &cases, &impl_out);
    // second pass: the whole sequence (D, then P(D), then the next pair …) through the `_with` forms on
    // ONE LinkageState/Dendrogram per width
    let mut reused_out: Vec<Outcome> = Vec::with_capacity(cases.len());
    {
        let mut st64 = kodama::LinkageState::<f64>::new();
        let mut d64 = kodama::Dendrogram::<f64>::new(0);
        let mut st32 = kodama::LinkageState::<f32>::new();
        let mut d32 = kodama::Dendrogram::<f32>::new(0);
        for c in cases.iter() {
            reused_out.push(if c.w32 {
                run_with_t::<f32>(&mut st32, &mut d32, c.alg, c.method, c.n, &c.bits)
            } else {
                run_with_t::<f64>(&mut st64, &mut d64, c.alg, c.method, c.n, &c.bits)
            });
        }
    }
    for pass in 0..2 {
    let impl_out: &Vec<Outcome> = if pass == 0 { &impl_out } else { &reused_out };
    for (p, perm) in perms.iter().enumerate() {
        let (c, o1, o2) = (&cases[2 * p], &impl_out[2 * p], &impl_out[2 * p + 1]);
        rep.oracle_checked += 1;
        let r: Result<(), String> = (|| {
            expect_ok(c, o1)?;
            expect_ok(&cases[2 * p + 1], o2)?;
            let (s1, s2) = (o1.steps().unwrap(), o2.steps().unwrap());
            let scale = oracle::scale_of(&vals_of(c));
            let m1 = oracle::members(c.n, s1);
            let m2 = oracle::members(c.n, s2);
            let mut f1: Vec<(Vec<usize>, f64)> = s1.iter().enumerate().map(|(i, s)| (m1[c.n + i].clone(), bits_to_f64(c.w32, s.bits))).collect();
            let mut f2: Vec<(Vec<usize>, f64)> = s2
                .iter()
                .enumerate()
                .map(|(i, s)| {
                    let mut v: Vec<usize> = m2[c.n + i].iter().map(|&x| perm[x]).collect();
                    v.sort_unstable();
                    (v, bits_to_f64(c.w32, s.bits))
                })
                .collect();
            f1.sort_by(|a, b| a.0.cmp(&b.0));
            f2.sort_by(|a, b| a.0.cmp(&b.0));
            for (a, b) in f1.iter().zip(&f2) {
                if a.0 != b.0 {
                    return Err(format!("cluster families differ: {:?} vs {:?}", a.0, b.0));
                }
                if !heights_close(c.w32, scale, a.1, b.1) {
                    return Err(format!("cluster {:?}: height {} vs {}", a.0, a.1, b.1));
                }
            }
            Ok(())
        })();
        if let Err(e) = r {
            let e = if pass == 1 { format!("on reused LinkageState/Dendrogram (sequence of all cases of this run): {}", e) } else { e };
            rep.fail("oracle", e, vec![op_line_call(c), op_line_call(&cases[2 * p + 1])], vec![o1.line(false), o2.line(false)], vec![]);
        }
    }
    }
}

// ---------------------------------------------------------------------------
// C12: totality / finiteness (run in both builds by /verif/check)
// ---------------------------------------------------------------------------

pub fn c12(ctx: &Ctx, rep: &mut Report) {
    crate::unit::heap_unit(ctx, rep);
    crate::unit::active_unit(ctx, rep);
    rep.rule = "valid finite matrices in the safe magnitude range incl. tie-saturated, all-zero, negative, 1e+-150, duplicate and collinear points; n from 0; this binary's build profile is recorded in checked_build; oracle: returns normally within the polynomial watchdog, heights finite, >= 0 for non-negative inputs".into();
    let mut rng = Rng::new(ctx.seed);
    let cases = gen_cases(
        &mut rng,
        &GenSpec { count: n_cases(ctx, 3000, 60000), max_n: if ctx.thorough { 300 } else { 48 }, classes: &gen::CLASSES, algs: &ALGS, methods: &METHODS, min_n: 0 },
    );
    let mut cases = cases;
    cases.extend(exhaustive_small_cases(ctx, true));
    generic_session(ctx, rep, cases, &|c, o| {
        expect_ok(c, o)?;
        let nonneg = c.bits.iter().all(|&b| bits_to_f64(c.w32, b) >= 0.0);
        for (i, s) in o.steps().unwrap().iter().enumerate() {
            let h = bits_to_f64(c.w32, s.bits);
            if !h.is_finite() {
                return Err(format!("step {}: height {} not finite", i, h));
            }
            if nonneg && !(h >= 0.0) {
                return Err(format!("step {}: height {} negative for non-negative input", i, h));
            }
        }
        if c.n <= 1 {
            if !o.steps().unwrap().is_empty() {
                return Err("n <= 1 but steps present".into());
            }
        }
        Ok(())
    });
}

// ---------------------------------------------------------------------------
// C13: malformed shapes
// ---------------------------------------------------------------------------

pub fn c13(ctx: &Ctx, rep: &mut Report) {
    rep.rule = "every (len, n) with len <= L and n <= 64 (quick L = 120, thorough L = 2000; exhaustive), each on a rotating entry point, wrapper and _with form; expectation len == n(n-1)/2 computed in 128-bit arithmetic; plus extreme n through the _with forms; non-trivial = malformed shape".into();
    let lmax = if ctx.thorough { 2000 } else { 120 };
    let mut cases = vec![];
    let mut k = 0usize;
    for len in 0..=lmax {
        for n in 0..=64usize {
            let algm = [
                (Alg::Primitive, Method::Single),
                (Alg::Nnchain, Method::Ward),
                (Alg::Generic, Method::Centroid),
                (Alg::Mst, Method::Single),
                (Alg::Linkage, Method::Average),
                (Alg::Linkage, Method::Single),
                (Alg::Linkage, Method::Median),
            ];
            let valid = (n <= 1 && len == 0) || (n >= 2 && (n as u128 * (n as u128 - 1)) / 2 == len as u128);
            // valid shapes with big n are slow on primitive; they are covered elsewhere
            let (alg, method) = algm[k % algm.len()];
            k += 1;
            if valid && len > 300 {
                continue;
            }
            let w32 = k % 2 == 0;
            let bits: Vec<u64> = (0..len).map(|i| f64_to_bits(w32, 1.0 + (i % 7) as f64)).collect();
            cases.push(Case { alg, method, w32, n, bits, class: "shape" });
        }
    }
    rep.extra.insert("exhaustive_len_max".into(), crate::json::J::Int(lmax as i128));
    let cases = Arc::new(cases);
    let impl_out = match run_impl_all(ctx, rep, &cases) {
        Some(v) => v,
        None => return,
    };
    for (c, o) in cases.iter().zip(&impl_out) {
        let valid = (c.n <= 1 && c.bits.is_empty()) || (c.n >= 2 && c.n * (c.n - 1) / 2 == c.bits.len());
        rep.seen(&format!("{} {} len={} n={}", c.alg.name(), method_name(c.method), c.bits.len(), c.n), !valid);
        rep.count(if valid { "valid_shape" } else { "malformed_shape" });
        rep.oracle_checked += 1;
        match (valid, o) {
            (false, Outcome::Ok { .. }) => rep.fail("oracle", format!("len={} n={} accepted and clustered", c.bits.len(), c.n), vec![op_line_call(c)], vec![o.line(false)], vec![]),
            (true, Outcome::Panic(k)) => rep.fail("oracle", format!("valid shape len={} n={} panicked ({})", c.bits.len(), c.n, k), vec![op_line_call(c)], vec![o.line(false)], vec![]),
            (false, Outcome::Panic(k)) if k != "shape" => {
                rep.count(&format!("malformed_panic_class.{}", k));
            }
            _ => {}
        }
    }
    correspond(ctx, rep, &cases, &impl_out);
    // _with forms and extremes: state untouched before the guard => a later valid call still works
    let mut st = kodama::LinkageState::<f64>::new();
    let mut d = kodama::Dendrogram::<f64>::new(0);
    let ext: [(usize, usize); 6] = [(usize::MAX, 1), (usize::MAX, 0), (1 << 63, 3), (1 << 63, 0), ((1 << 32) + 1, 6), (usize::MAX - 1, 3)];
    for (n, len) in ext {
        for alg in ALGS {
            let m = if alg == Alg::Mst { Method::Single } else { Method::Average };
            let bits: Vec<u64> = (0..len).map(|i| (1.0 + i as f64).to_bits()).collect();
            let o = run_with_t::<f64>(&mut st, &mut d, alg, m, n, &bits);
            rep.seen(&format!("with {} extreme n={} len={}", alg.name(), n, len), true);
            rep.oracle_checked += 1;
            if !o.is_panic() {
                rep.fail("oracle", format!("extreme n={} len={} accepted", n, len), vec![format!("with 0 {} {} 64 _ {} ...", alg.name(), method_name(m), n)], vec![o.line(false)], vec![]);
            }
            let ok = run_with_t::<f64>(&mut st, &mut d, alg, m, 3, &[1.0f64.to_bits(), 2.0f64.to_bits(), 0.5f64.to_bits()]);
            if ok.is_panic() {
                rep.fail("oracle", "valid call after a rejected shape panicked".into(), vec![], vec![ok.line(false)], vec![]);
            }
        }
    }
}

// ---------------------------------------------------------------------------
// C14: quadratic work
// ---------------------------------------------------------------------------

pub fn c14(ctx: &Ctx, rep: &mut Report) {
    rep.rule = "mst / nnchain / linkage with the five methods on adversarial inputs (sorted, reverse-sorted, all ties, geometric progressions) n 8..N; hook counter compared exactly with the model's and against 10 n^2 + 50 n".into();
    if !cfg!(kodama_verif) {
        rep.fail("model", "harness built without --cfg kodama_verif: no access counter".into(), vec![], vec![], vec![]);
        return;
    }
    let mut rng = Rng::new(ctx.seed);
    let ms = [Method::Single, Method::Complete, Method::Average, Method::Weighted, Method::Ward];
    let classes = ["sorted", "revsorted", "allequal", "lattice", "geomline", "twovalued", "uniform", "euclid", "colmajor"];
    let mut cases = gen_cases(
        &mut rng,
        &GenSpec { count: n_cases(ctx, 1500, 20000), max_n: if ctx.thorough { 300 } else { 60 }, classes: &classes, algs: &[Alg::Mst, Alg::Nnchain, Alg::Linkage], methods: &ms, min_n: 8 },
    );
    // deterministic adversarial families: collinear geometric progressions with growing AND decaying
    // gaps (long nearest-neighbour chains), all five methods, through linkage and nnchain
    for &n in (if ctx.thorough { &[64usize, 128, 256, 512][..] } else { &[64usize, 128, 256][..] }) {
        for &ratio in &[0.9f64, 0.7, 1.1, 1.5] {
            for &m in &ms {
                for alg in [Alg::Linkage, Alg::Nnchain] {
                    let mut x = 1.0f64;
                    let mut gap = 1.0f64;
                    let mut pts = vec![];
                    for _ in 0..n {
                        pts.push(x);
                        x += gap;
                        gap *= ratio;
                        if gap > 1e60 { gap = 1e60; }
                    }
                    let mut vals = vec![];
                    for i in 0..n {
                        for j in i + 1..n {
                            vals.push((pts[j] - pts[i]).abs());
                        }
                    }
                    let w32 = false;
                    cases.push(Case { alg, method: m, w32, n, bits: gen::to_bits("uniform", w32, &vals), class: "geomgap" });
                }
            }
        }
        for &m in &ms {
            for w32 in [false, true] {
                let mut r2 = rng.fork();
                let vals = gen::matrix(&mut r2, "colmajor", n);
                cases.push(Case { alg: Alg::Linkage, method: m, w32, n, bits: gen::to_bits("colmajor", w32, &vals), class: "colmajor" });
            }
        }
    }
    // ultrametric combs ("staircases"): every row constant, so after each merge the new cluster is exactly
    // as far from the chain's predecessor as the merged pair was — exact ties ALONG a chain of depth n
    // (all-equal inputs tie too, but their chains stay short)
    for &n in (if ctx.thorough { &[64usize, 128, 256, 512][..] } else { &[64usize, 128, 200][..] }) {
        for variant in 0..4 {
            let mut vals = vec![];
            for i in 0..n {
                for j in i + 1..n {
                    vals.push(match variant {
                        0 => (n - i) as f64,           // n - min(i,j)
                        1 => (j + 1) as f64,           // max(i,j) + 1
                        2 => (n - i) as f64 * 0.1,     // non-dyadic steps
                        _ => ((n - i + 1) / 2) as f64, // steps of width two (ties inside each level)
                    });
                }
            }
            for &m in &ms {
                for alg in [Alg::Linkage, Alg::Nnchain] {
                    let w32 = variant % 2 == 1;
                    cases.push(Case { alg, method: m, w32, n, bits: gen::to_bits("uniform", w32, &vals), class: "staircase" });
                }
            }
        }
    }
    // paths at the top of the range: consecutive observations at strictly decreasing huge distances, every
    // other pair at T::MAX (finite): average / weighted updates overflow to +inf (never NaN), the chain is as
    // deep as n.  The bound is stated for EVERY input, so these are in its domain.
    for &n in (if ctx.thorough { &[64usize, 128, 256, 512][..] } else { &[64usize, 128, 200][..] }) {
        for w32 in [false, true] {
            let (unit, top) = if w32 { (1e33f64, f32::MAX as f64) } else { (1e300f64, f64::MAX) };
            let mut vals = vec![];
            for i in 0..n {
                for j in i + 1..n {
                    vals.push(if j == i + 1 { (2 * n - i) as f64 * unit / (2 * n) as f64 } else { top });
                }
            }
            for &m in &[Method::Single, Method::Complete, Method::Average, Method::Weighted] {
                for alg in [Alg::Linkage, Alg::Nnchain] {
                    cases.push(Case { alg, method: m, w32, n, bits: vals.iter().map(|&x| f64_to_bits(w32, x)).collect(), class: "maxpath" });
                }
            }
        }
    }
    let bigs: &[usize] = if ctx.thorough { &[500, 1000, 2000] } else { &[200, 400] };
    for &n in bigs {
        for class in ["sorted", "revsorted", "allequal", "geomline", "lattice", "colmajor"] {
            for &m in &ms {
                let alg = if let Method::Single = m { *rng.pick(&[Alg::Mst, Alg::Nnchain, Alg::Linkage]) } else { *rng.pick(&[Alg::Nnchain, Alg::Linkage]) };
                let w32 = rng.below(2) == 0;
                let vals = gen::matrix(&mut rng, class, n);
                cases.push(Case { alg, method: m, w32, n, bits: gen::to_bits(class, w32, &vals), class });
            }
        }
    }
    let mut worst = 0.0f64;
    let worst_cell = std::cell::RefCell::new((0.0f64, String::new()));
    generic_session(ctx, rep, cases, &|c, o| {
        expect_ok(c, o)?;
        if let Outcome::Ok { acc, .. } = o {
            let n = c.n as u64;
            let bound = 10 * n * n + 50 * n;
            let ratio = *acc as f64 / (n * n).max(1) as f64;
            let mut w = worst_cell.borrow_mut();
            if ratio > w.0 {
                *w = (ratio, format!("{} {} {} n={} acc={}", c.alg.name(), method_name(c.method), c.class, c.n, acc));
            }
            if *acc > bound {
                return Err(format!("{} index computations for n={} exceed 10n^2+50n = {}", acc, c.n, bound));
            }
        }
        Ok(())
    });
    let w = worst_cell.borrow();
    worst = worst.max(w.0);
    rep.extra.insert("worst_acc_over_n2".into(), crate::json::J::Num(worst));
    rep.extra.insert("worst_case".into(), crate::json::J::s(&w.1));
}
