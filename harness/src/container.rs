//! C19: the `Dendrogram` / `Step` container contract.
//!
//! Every case is a *script*: a sequence of ops on a few dendrogram slots of one float width.
//! A script is (1) executed on the real `kodama::Dendrogram` / `kodama::Step` API, each op under
//! `catch_unwind`, giving one canonical output line per op; (2) sent to the Lean driver
//! (`dend <slot> <w> <op> …`), whose lines must be identical ("model" failures); (3) checked
//! against the expectation the generator computed from the property statement alone on a
//! reference model in this file (`RefD`, `spec_*`) ("oracle" failures: the implementation
//! violates C19 itself).  Where the statement is silent (out-of-range index, NaN heights,
//! negative epsilon) there is no expectation and only the model comparison applies.
use std::panic::{self, AssertUnwindSafe};

use kodama::{Dendrogram, Method, Step};

use crate::core::*;
use crate::gen;
use crate::rng::Rng;
use crate::session::*;

const SLOTS: usize = 3;

#[derive(Clone, Debug)]
enum Op {
    New(usize),
    Reset(usize),
    Push(usize, usize, u64, usize),
    Len,
    IsEmpty,
    Obs,
    Get(usize),
    CSize(usize),
    SetC(usize, usize, usize),
    EqEps(usize, u64),
}

impl Op {
    fn name(&self) -> &'static str {
        match self {
            Op::New(_) => "new",
            Op::Reset(_) => "reset",
            Op::Push(..) => "push",
            Op::Len => "len",
            Op::IsEmpty => "isempty",
            Op::Obs => "obs",
            Op::Get(_) => "get",
            Op::CSize(_) => "csize",
            Op::SetC(..) => "setc",
            Op::EqEps(..) => "eqeps",
        }
    }
    fn words(&self) -> String {
        match self {
            Op::New(n) => format!("new {}", n),
            Op::Reset(n) => format!("reset {}", n),
            Op::Push(a, b, x, s) => format!("push {} {} {} {}", a, b, x, s),
            Op::Len => "len".into(),
            Op::IsEmpty => "isempty".into(),
            Op::Obs => "obs".into(),
            Op::Get(i) => format!("get {}", i),
            Op::CSize(l) => format!("csize {}", l),
            Op::SetC(i, a, b) => format!("setc {} {} {}", i, a, b),
            Op::EqEps(j, e) => format!("eqeps {} {}", j, e),
        }
    }
}

struct Line {
    slot: usize,
    op: Op,
    /// output required by the property statement (None: the statement is silent)
    expect: Option<String>,
    /// sub-kind for the distribution (e.g. which epsilon of a sweep)
    tag: &'static str,
}

struct Script {
    w32: bool,
    kind: &'static str,
    lines: Vec<Line>,
}

impl Script {
    fn request(&self, k: usize) -> String {
        let l = &self.lines[k];
        format!("dend {} {} {}", l.slot, if self.w32 { 32 } else { 64 }, l.op.words())
    }
}

// ---------------------------------------------------------------------------
// float helpers on bit patterns (width given by `w32`)
// ---------------------------------------------------------------------------

fn is_nan(w32: bool, b: u64) -> bool {
    if w32 {
        f32::from_bits(b as u32).is_nan()
    } else {
        f64::from_bits(b).is_nan()
    }
}

/// next representable value up / down
fn next(w32: bool, b: u64, up: bool) -> u64 {
    if w32 {
        let x = f32::from_bits(b as u32);
        (if up { x.next_up() } else { x.next_down() }).to_bits() as u64
    } else {
        let x = f64::from_bits(b);
        (if up { x.next_up() } else { x.next_down() }).to_bits()
    }
}

fn ulps(w32: bool, mut b: u64, k: i32) -> u64 {
    for _ in 0..k.abs() {
        b = next(w32, b, k > 0);
    }
    b
}

/// δ = |fl(a − b)| in the width's own arithmetic
fn absdiff(w32: bool, a: u64, b: u64) -> u64 {
    if w32 {
        (f32::from_bits(a as u32) - f32::from_bits(b as u32)).abs().to_bits() as u64
    } else {
        (f64::from_bits(a) - f64::from_bits(b)).abs().to_bits()
    }
}

fn le(w32: bool, a: u64, b: u64) -> bool {
    if w32 {
        f32::from_bits(a as u32) <= f32::from_bits(b as u32)
    } else {
        f64::from_bits(a) <= f64::from_bits(b)
    }
}

fn fb(w32: bool, x: f64) -> u64 {
    f64_to_bits(w32, x)
}

fn qnan(w32: bool) -> u64 {
    canon_bits(w32, fb(w32, f64::NAN))
}

// ---------------------------------------------------------------------------
// reference model: the property statement, nothing else
// ---------------------------------------------------------------------------

type RStep = (usize, usize, u64, usize);

#[derive(Clone, Default)]
struct RefD {
    obs: usize,
    steps: Vec<RStep>,
}

fn fmt_step(s: &RStep) -> String {
    format!("{},{},{},{}", s.0, s.1, s.2, s.3)
}

fn fmt_dump(obs: usize, steps: &[RStep]) -> String {
    let v: Vec<String> = steps.iter().map(fmt_step).collect();
    format!("ok obs={} steps={}", obs, v.join(";"))
}

/// "true exactly when both have the same length and every pair of corresponding steps has
/// identical labels and size and dissimilarities differing by at most epsilon", the difference
/// evaluated as `|fl(a−b)|`.  None outside the stated domain (NaN involved, epsilon < 0).
fn spec_eq(w32: bool, a: &[RStep], b: &[RStep], eps: u64) -> Option<bool> {
    if is_nan(w32, eps) || !le(w32, fb(w32, 0.0), eps) {
        return None;
    }
    if a.len() != b.len() {
        return Some(false);
    }
    let mut all = true;
    for (s, t) in a.iter().zip(b) {
        if is_nan(w32, s.2) || is_nan(w32, t.2) {
            return None;
        }
        let d = absdiff(w32, s.2, t.2);
        if is_nan(w32, d) {
            return None; // inf − inf
        }
        if !(s.0 == t.0 && s.1 == t.1 && s.3 == t.3 && le(w32, d, eps)) {
            all = false;
        }
    }
    Some(all)
}

struct Builder {
    w32: bool,
    kind: &'static str,
    refs: Vec<RefD>,
    lines: Vec<Line>,
}

impl Builder {
    fn new(w32: bool, kind: &'static str) -> Builder {
        Builder { w32, kind, refs: vec![RefD::default(); SLOTS], lines: vec![] }
    }
    fn emit(&mut self, slot: usize, op: Op) {
        self.emit_tag(slot, op, "")
    }
    /// Append an op; the expectation comes from the statement, the reference state follows it.
    fn emit_tag(&mut self, slot: usize, op: Op, tag: &'static str) {
        let w32 = self.w32;
        let expect = match &op {
            Op::New(n) | Op::Reset(n) => {
                self.refs[slot] = RefD { obs: *n, steps: vec![] };
                Some(fmt_dump(*n, &[]))
            }
            Op::Push(a, b, x, sz) => {
                let r = &mut self.refs[slot];
                if r.steps.len() < r.obs.saturating_sub(1) {
                    r.steps.push((*a.min(b), *a.max(b), *x, *sz));
                    Some(fmt_dump(r.obs, &r.steps))
                } else {
                    Some("panic assertFail".to_string())
                }
            }
            Op::Len => Some(format!("ok {}", self.refs[slot].steps.len())),
            Op::IsEmpty => Some(format!("ok {}", self.refs[slot].steps.is_empty())),
            Op::Obs => Some(format!("ok {}", self.refs[slot].obs)),
            Op::Get(i) => self.refs[slot].steps.get(*i).map(|s| format!("ok {}", fmt_step(s))),
            Op::CSize(l) => {
                let r = &self.refs[slot];
                if *l < r.obs {
                    Some("ok 1".to_string())
                } else {
                    r.steps.get(*l - r.obs).map(|s| format!("ok {}", s.3))
                }
            }
            Op::SetC(i, a, b) => {
                let r = &mut self.refs[slot];
                if *i < r.steps.len() {
                    r.steps[*i].0 = *a.min(b);
                    r.steps[*i].1 = *a.max(b);
                    Some(fmt_dump(r.obs, &r.steps))
                } else {
                    None
                }
            }
            Op::EqEps(j, eps) => spec_eq(w32, &self.refs[slot].steps, &self.refs[*j].steps, *eps).map(|b| format!("ok {}", b)),
        };
        self.lines.push(Line { slot, op, expect, tag });
    }
    /// Put every slot into a definite state (scripts share the driver's slots one after another;
    /// `reset` must give the same value whatever was there before).
    fn init(&mut self, rng: &mut Rng, ns: &[usize]) {
        for k in 0..SLOTS {
            let n = ns[k % ns.len()];
            if rng.below(2) == 0 {
                self.emit(k, Op::New(n));
            } else {
                self.emit(k, Op::Reset(n));
            }
        }
    }
    /// Make `dst` hold exactly `steps` for `obs` observations.
    fn load(&mut self, rng: &mut Rng, dst: usize, obs: usize, steps: &[RStep]) {
        if rng.below(2) == 0 {
            self.emit(dst, Op::New(obs));
        } else {
            self.emit(dst, Op::Reset(obs));
        }
        for s in steps {
            // either order: `Step::new` normalises
            if rng.below(2) == 0 {
                self.emit(dst, Op::Push(s.0, s.1, s.2, s.3));
            } else {
                self.emit(dst, Op::Push(s.1, s.0, s.2, s.3));
            }
        }
    }
    fn finish(self) -> Script {
        Script { w32: self.w32, kind: self.kind, lines: self.lines }
    }
}

// ---------------------------------------------------------------------------
// running a script on the real crate
// ---------------------------------------------------------------------------

fn impl_step<T: Fl>(s: &Step<T>) -> String {
    format!("{},{},{},{}", s.cluster1, s.cluster2, canon_bits(T::W32, s.dissimilarity.to_bits64()), s.size)
}

fn impl_dump<T: Fl>(d: &Dendrogram<T>) -> String {
    let v: Vec<String> = d.steps().iter().map(impl_step).collect();
    format!("ok obs={} steps={}", d.observations(), v.join(";"))
}

fn exec_op<T: Fl>(slots: &mut Vec<Dendrogram<T>>, k: usize, op: &Op) -> String {
    let r = panic::catch_unwind(AssertUnwindSafe(|| match op {
        Op::New(n) => {
            slots[k] = Dendrogram::new(*n);
            impl_dump(&slots[k])
        }
        Op::Reset(n) => {
            slots[k].reset(*n);
            impl_dump(&slots[k])
        }
        Op::Push(a, b, x, sz) => {
            slots[k].push(Step::new(*a, *b, T::from_bits64(*x), *sz));
            impl_dump(&slots[k])
        }
        Op::Len => format!("ok {}", slots[k].len()),
        Op::IsEmpty => format!("ok {}", slots[k].is_empty()),
        Op::Obs => format!("ok {}", slots[k].observations()),
        Op::Get(i) => format!("ok {}", impl_step(&slots[k][*i])),
        Op::CSize(l) => format!("ok {}", slots[k].cluster_size(*l)),
        Op::SetC(i, a, b) => {
            slots[k][*i].set_clusters(*a, *b);
            impl_dump(&slots[k])
        }
        Op::EqEps(j, eps) => format!("ok {}", slots[k].eq_with_epsilon(&slots[*j], T::from_bits64(*eps))),
    }));
    match r {
        Ok(s) => s,
        Err(_) => format!("panic {}", classify_panic()),
    }
}

fn exec_t<T: Fl>(sc: &Script) -> Vec<String> {
    let mut slots: Vec<Dendrogram<T>> = (0..SLOTS).map(|_| Dendrogram::new(0)).collect();
    sc.lines.iter().map(|l| exec_op(&mut slots, l.slot, &l.op)).collect()
}

fn exec(sc: &Script) -> Vec<String> {
    if sc.w32 {
        exec_t::<f32>(sc)
    } else {
        exec_t::<f64>(sc)
    }
}

// ---------------------------------------------------------------------------
// generators
// ---------------------------------------------------------------------------

fn height(rng: &mut Rng, w32: bool, wild: bool) -> u64 {
    let one = fb(w32, 1.0);
    let r = rng.below(if wild { 14 } else { 10 });
    match r {
        0 => fb(w32, 0.0),
        1 => one,
        2 => next(w32, one, true),
        3 => ulps(w32, one, 2),
        4 => next(w32, one, false),
        5 => fb(w32, 2.5),
        6 => fb(w32, -1.0),
        7 => fb(w32, rng.unit() * 10.0),
        8 => fb(w32, (rng.below(4) + 1) as f64 * 0.25),
        9 => fb(w32, 1e-30),
        10 => fb(w32, -0.0),
        11 => fb(w32, f64::INFINITY),
        12 => qnan(w32),
        _ => if w32 { 1 } else { 1 }, // smallest subnormal
    }
}

fn epsilon(rng: &mut Rng, w32: bool, wild: bool, a: &[RStep], b: &[RStep]) -> u64 {
    let r = rng.below(if wild { 12 } else { 9 });
    // around an actual difference when there is one
    if r < 4 && !a.is_empty() && !b.is_empty() {
        let i = rng.below(a.len().min(b.len()) as u64) as usize;
        let d = absdiff(w32, a[i].2, b[i].2);
        if !is_nan(w32, d) {
            return match r {
                0 => d,
                1 => next(w32, d, true),
                2 => if d != 0 { next(w32, d, false) } else { d },
                _ => ulps(w32, d, 2),
            };
        }
    }
    match r {
        0..=4 => fb(w32, 0.0),
        5 => next(w32, fb(w32, 0.0), true),
        6 => fb(w32, 0.5),
        7 => fb(w32, 100.0),
        8 => fb(w32, f64::INFINITY),
        9 => fb(w32, -1.0),
        10 => fb(w32, -0.0),
        _ => qnan(w32),
    }
}

fn small_n(rng: &mut Rng, max_n: usize) -> usize {
    match rng.below(10) {
        0 => 0,
        1 => 1,
        2 => 2,
        _ => rng.range(0, max_n),
    }
}

/// A far out-of-range index / label.
fn far(rng: &mut Rng, base: usize) -> usize {
    match rng.below(4) {
        0 => base,
        1 => base + 1,
        2 => base + rng.range(2, 40),
        _ => 1usize << rng.range(20, 62),
    }
}

/// Random op sequences.  `wild = false`: every index / label in range, pushes only while there
/// is room, finite heights, epsilon >= 0.  `wild = true`: the malformed stream.
fn gen_random(rng: &mut Rng, max_n: usize, wild: bool) -> Script {
    let w32 = rng.below(2) == 0;
    let mut b = Builder::new(w32, if wild { "malformed" } else { "random" });
    let ns: Vec<usize> = (0..SLOTS).map(|_| small_n(rng, max_n)).collect();
    b.init(rng, &ns);
    let len = rng.range(8, 60);
    for _ in 0..len {
        let k = rng.below(SLOTS as u64) as usize;
        let (obs, cur) = (b.refs[k].obs, b.refs[k].steps.len());
        let full = cur >= obs.saturating_sub(1);
        let r = rng.below(100);
        if r < 38 {
            if full && !wild && rng.below(8) != 0 {
                // no room: a valid stream resets instead (rarely: one push too many)
                let n = small_n(rng, max_n);
                b.emit(k, Op::Reset(n));
                continue;
            }
            let hi = (2 * obs).max(2) as u64;
            let (c1, c2) = (rng.below(hi) as usize, rng.below(hi) as usize);
            let (c1, c2) = if wild && rng.below(6) == 0 { (far(rng, c1), c2) } else { (c1, c2) };
            let sz = rng.range(1, obs.max(2));
            let h = height(rng, w32, wild);
            b.emit(k, Op::Push(c1, c2, h, sz));
            if wild && full && rng.below(2) == 0 {
                // keep hammering a full dendrogram
                b.emit(k, Op::Push(c2, c1, h, sz));
                b.emit(k, Op::Len);
            }
        } else if r < 44 {
            b.emit(k, Op::Len);
        } else if r < 48 {
            b.emit(k, Op::IsEmpty);
        } else if r < 52 {
            b.emit(k, Op::Obs);
        } else if r < 62 {
            let i = if wild && rng.below(2) == 0 || cur == 0 { far(rng, cur) } else { rng.below(cur as u64) as usize };
            if cur == 0 && !wild {
                b.emit(k, Op::IsEmpty);
            } else {
                b.emit(k, Op::Get(i));
            }
        } else if r < 76 {
            let top = obs + cur;
            let l = if wild && rng.below(2) == 0 || top == 0 {
                far(rng, top)
            } else if rng.below(3) == 0 && cur > 0 {
                obs + rng.below(cur as u64) as usize // a merged cluster (incl. label == n)
            } else {
                rng.below(top as u64) as usize
            };
            if top == 0 && !wild {
                b.emit(k, Op::Obs);
            } else {
                b.emit(k, Op::CSize(l));
            }
        } else if r < 85 {
            let i = if wild && rng.below(2) == 0 || cur == 0 { far(rng, cur) } else { rng.below(cur as u64) as usize };
            let hi = (2 * obs).max(2) as u64;
            let (x, y) = (rng.below(hi) as usize, rng.below(hi) as usize);
            if cur == 0 && !wild {
                b.emit(k, Op::Len);
            } else {
                b.emit(k, Op::SetC(i, x, y));
            }
        } else if r < 92 {
            let j = rng.below(SLOTS as u64) as usize;
            let eps = epsilon(rng, w32, wild, &b.refs[k].steps.clone(), &b.refs[j].steps.clone());
            b.emit(k, Op::EqEps(j, eps));
        } else if r < 95 {
            // copy another slot (possibly with one height moved by a few ulps), then compare
            let j = (k + 1 + rng.below(SLOTS as u64 - 1) as usize) % SLOTS;
            let src = b.refs[j].clone();
            let mut steps = src.steps.clone();
            if !steps.is_empty() && rng.below(2) == 0 {
                let i = rng.below(steps.len() as u64) as usize;
                if !is_nan(w32, steps[i].2) {
                    steps[i].2 = ulps(w32, steps[i].2, *rng.pick(&[-3, -2, -1, 1, 2, 3]));
                }
            }
            b.load(rng, k, src.obs, &steps);
            let eps = epsilon(rng, w32, wild, &steps, &src.steps);
            b.emit(k, Op::EqEps(j, eps));
            b.emit(j, Op::EqEps(k, eps));
        } else if r < 98 {
            let n = small_n(rng, max_n);
            b.emit(k, Op::Reset(n));
        } else {
            let n = small_n(rng, max_n);
            b.emit(k, Op::New(n));
        }
    }
    b.finish()
}

/// Capacity: from `new n` and from `reset n` (of a used dendrogram), push until well past the
/// limit with read-only ops and `set_clusters` in between.
fn gen_capacity(rng: &mut Rng, n: usize, w32: bool, via_reset: bool) -> Script {
    let mut b = Builder::new(w32, "capacity");
    let ns: Vec<usize> = (0..SLOTS).map(|_| small_n(rng, 12)).collect();
    b.init(rng, &ns);
    if via_reset {
        // dirty the slot first
        let m = rng.range(2, 12);
        b.emit(0, Op::New(m));
        for _ in 0..rng.range(0, m - 1) {
            let h = height(rng, w32, false);
            b.emit(0, Op::Push(0, 1, h, 2));
        }
        b.emit(0, Op::Reset(n));
    } else {
        b.emit(0, Op::New(n));
    }
    b.emit(0, Op::Len);
    b.emit(0, Op::Obs);
    b.emit(0, Op::IsEmpty);
    for t in 0..n + 3 {
        let hi = (2 * n).max(2) as u64;
        let h = height(rng, w32, false);
        b.emit_tag(0, Op::Push(rng.below(hi) as usize, rng.below(hi) as usize, h, rng.range(1, n.max(1))), if t + 1 < n { "push.room" } else { "push.full" });
        match rng.below(5) {
            0 => b.emit(0, Op::Len),
            1 => b.emit(0, Op::CSize(rng.below((n + t + 1) as u64) as usize)),
            2 => b.emit(0, Op::SetC(rng.below((t + 1) as u64) as usize, rng.below(hi) as usize, rng.below(hi) as usize)),
            3 => b.emit(0, Op::EqEps(0, fb(w32, 0.0))),
            _ => {}
        }
    }
    b.emit(0, Op::Len);
    b.finish()
}

fn call_entry<T: Fl>(alg: Alg, m: Method, n: usize, bits: &[u64]) -> Option<Dendrogram<T>> {
    let mut mat: Vec<T> = bits.iter().map(|&b| T::from_bits64(b)).collect();
    panic::catch_unwind(AssertUnwindSafe(|| match alg {
        Alg::Primitive => kodama::primitive(&mut mat, n, m),
        Alg::Nnchain => kodama::nnchain(&mut mat, n, m.into_method_chain().expect("nnchain method")),
        Alg::Generic => kodama::generic(&mut mat, n, m),
        Alg::Mst => kodama::mst(&mut mat, n),
        Alg::Linkage => kodama::linkage(&mut mat, n, m),
    }))
    .ok()
}

/// Number of distinct observations beneath every label, from the labels alone (the recorded
/// sizes are not read).  Err if the steps do not form a forest over `0..obs`.
fn leaf_counts(obs: usize, steps: &[RStep]) -> Result<Vec<usize>, String> {
    let mut members: Vec<Vec<bool>> = (0..obs)
        .map(|i| {
            let mut v = vec![false; obs];
            v[i] = true;
            v
        })
        .collect();
    for (i, s) in steps.iter().enumerate() {
        if s.0 >= obs + i || s.1 >= obs + i {
            return Err(format!("step {} refers to label not yet created ({},{})", i, s.0, s.1));
        }
        let v: Vec<bool> = members[s.0].iter().zip(&members[s.1]).map(|(a, b)| *a || *b).collect();
        members.push(v);
    }
    Ok(members.iter().map(|v| v.iter().filter(|x| **x).count()).collect())
}

/// The oracle on a dendrogram returned by a clustering entry point, evaluated on the object
/// itself: `cluster_size(l)` = number of observations beneath `l` for every label.
fn entry_oracle<T: Fl>(d: &Dendrogram<T>, n: usize) -> Result<(usize, Vec<RStep>, Vec<usize>), String> {
    let obs = d.observations();
    let steps: Vec<RStep> =
        d.steps().iter().map(|s| (s.cluster1, s.cluster2, canon_bits(T::W32, s.dissimilarity.to_bits64()), s.size)).collect();
    if d.len() != n.saturating_sub(1) {
        return Err(format!("{} steps for n={}", d.len(), n));
    }
    let counts = leaf_counts(obs, &steps)?;
    for (l, &c) in counts.iter().enumerate() {
        let got = panic::catch_unwind(AssertUnwindSafe(|| d.cluster_size(l))).map_err(|_| format!("cluster_size({}) panicked ({})", l, classify_panic()))?;
        if got != c {
            return Err(format!("cluster_size({}) = {} but {} observations lie beneath that label (n={})", l, got, c, obs));
        }
    }
    // rebuilding through the public API gives an equal value (derived PartialEq)
    let mut r = Dendrogram::<T>::new(obs);
    for s in d.steps() {
        r.push(Step::new(s.cluster2, s.cluster1, s.dissimilarity, s.size));
    }
    if steps.iter().all(|s| !is_nan(T::W32, s.2)) && r != *d {
        return Err("dendrogram rebuilt with new + push(Step::new(..)) differs from the returned one".into());
    }
    Ok((obs, steps, counts))
}

struct EntryCase {
    alg: Alg,
    method: Method,
    w32: bool,
    n: usize,
    bits: Vec<u64>,
}

fn gen_entry_case(rng: &mut Rng, max_n: usize, classes: &[&'static str]) -> EntryCase {
    loop {
        let alg = *rng.pick(&ALGS);
        let method = *rng.pick(&METHODS);
        if !alg.accepts(method) {
            continue;
        }
        let class = *rng.pick(classes);
        let n = match rng.below(12) {
            0 => rng.range(0, 2),
            _ => rng.range(2, max_n),
        };
        let w32 = rng.below(2) == 0;
        let vals = gen::matrix(rng, class, n);
        let bits = gen::to_bits(class, w32, &vals);
        return EntryCase { alg, method, w32, n, bits };
    }
}

fn run_entry(c: &EntryCase) -> Option<Result<(usize, Vec<RStep>, Vec<usize>), String>> {
    if c.w32 {
        call_entry::<f32>(c.alg, c.method, c.n, &c.bits).map(|d| entry_oracle(&d, c.n))
    } else {
        call_entry::<f64>(c.alg, c.method, c.n, &c.bits).map(|d| entry_oracle(&d, c.n))
    }
}

/// Script for a returned dendrogram: rebuild it, ask `cluster_size` of every label (expected:
/// the leaf count) and of the first absent one.
fn gen_entry_script(rng: &mut Rng, w32: bool, obs: usize, steps: &[RStep], counts: &[usize]) -> Script {
    let mut b = Builder::new(w32, "entry");
    b.init(rng, &[0]);
    b.load(rng, 0, obs, steps);
    b.emit(0, Op::Len);
    for (l, c) in counts.iter().enumerate() {
        b.emit_tag(0, Op::CSize(l), if l < obs { "csize.leaf" } else { "csize.merged" });
        // the statement's second half: the number of observations beneath the label
        b.lines.last_mut().unwrap().expect = Some(format!("ok {}", c));
    }
    b.emit(0, Op::CSize(counts.len()));
    b.emit(0, Op::EqEps(0, fb(w32, 0.0)));
    b.finish()
}

/// Pairs of dendrograms that are equal / differ in one or two heights by a few ulps / in a
/// label / in a size / in length / in `observations` only; epsilon swept around the computed δ.
fn gen_eq_script(rng: &mut Rng, w32: bool, obs: usize, base: &[RStep], variant: &'static str) -> Script {
    let mut b = Builder::new(w32, "eq");
    b.init(rng, &[0]);
    let zero = fb(w32, 0.0);
    let mut var: Vec<RStep> = base.to_vec();
    let mut vobs = obs;
    let mut deltas: Vec<u64> = vec![];
    let mut tags: (&'static str, &'static str, &'static str) = ("eq.other", "eq.other", "eq.other");
    match variant {
        "equal" => {}
        "height" | "height2" => {
            let cnt = if variant == "height2" { 2 } else { 1 };
            for _ in 0..cnt {
                let i = rng.below(var.len() as u64) as usize;
                let k = *rng.pick(&[-4, -3, -2, -1, 1, 2, 3, 4]);
                var[i].2 = ulps(w32, var[i].2, k);
            }
            for (s, t) in base.iter().zip(&var) {
                let d = absdiff(w32, s.2, t.2);
                if d != zero {
                    deltas.push(d);
                }
            }
            if variant == "height" {
                tags = ("eq.pred", "eq.delta", "eq.succ");
            }
        }
        "label" => {
            let i = rng.below(var.len() as u64) as usize;
            if rng.below(2) == 0 {
                var[i].1 += 1;
            } else if var[i].0 > 0 {
                var[i].0 -= 1;
            } else {
                var[i].1 += 2;
            }
        }
        "size" => {
            let i = rng.below(var.len() as u64) as usize;
            var[i].3 += 1;
        }
        "length" => {
            var.pop();
        }
        "obs" => {
            vobs += 1;
        }
        _ => unreachable!(),
    }
    b.load(rng, 0, obs, base);
    b.load(rng, 1, vobs, &var);
    if variant == "label" && rng.below(2) == 0 {
        // the same difference produced by set_clusters instead of by construction
        let i = rng.below(base.len() as u64) as usize;
        let (x, y) = (base[i].1 + 1, base[i].0);
        b.load(rng, 1, vobs, base);
        b.emit(1, Op::SetC(i, x, y));
    }
    let mut sweep: Vec<(u64, &'static str)> = vec![(zero, "eq.zero")];
    for d in &deltas {
        if *d != 0 {
            sweep.push((next(w32, *d, false), tags.0));
        }
        sweep.push((*d, tags.1));
        if !is_nan(w32, next(w32, *d, true)) {
            sweep.push((next(w32, *d, true), tags.2));
        }
    }
    if deltas.is_empty() {
        sweep.push((next(w32, zero, true), "eq.other"));
        sweep.push((fb(w32, 1.0), "eq.other"));
        sweep.push((fb(w32, f64::INFINITY), "eq.other"));
    }
    for (eps, tag) in sweep {
        b.emit_tag(0, Op::EqEps(1, eps), tag);
        b.emit_tag(1, Op::EqEps(0, eps), tag);
    }
    b.emit(0, Op::EqEps(0, zero));
    b.emit(1, Op::EqEps(1, zero));
    b.finish()
}

/// `Step::new` / `set_clusters` on the real type: smaller label first, nothing else touched.
fn step_oracle<T: Fl>(rng: &mut Rng, count: usize, rep: &mut Report) {
    for _ in 0..count {
        let pickl = |rng: &mut Rng| -> usize {
            match rng.below(4) {
                0 => rng.below(4) as usize,
                1 => rng.below(1000) as usize,
                2 => usize::MAX - rng.below(3) as usize,
                _ => rng.next() as usize,
            }
        };
        let (a, b0) = (pickl(rng), pickl(rng));
        let b = if rng.below(8) == 0 { a } else { b0 };
        let x = height(rng, T::W32, true);
        let sz = rng.next() as usize;
        let s: Step<T> = Step::new(a, b, T::from_bits64(x), sz);
        rep.oracle_checked += 1;
        rep.count("oracle.step_new");
        let same_bits = |y: T| canon_bits(T::W32, y.to_bits64()) == canon_bits(T::W32, x);
        if !(s.cluster1 == a.min(b) && s.cluster2 == a.max(b) && same_bits(s.dissimilarity) && s.size == sz) {
            rep.fail("oracle", format!("Step::new({}, {}, bits {}, {}) = {:?}", a, b, x, sz, s), vec![], vec![], vec![]);
        }
        let (c, d) = (pickl(rng), pickl(rng));
        let mut t = s.clone();
        t.set_clusters(c, d);
        rep.oracle_checked += 1;
        rep.count("oracle.set_clusters");
        rep.count(if d < c { "oracle.set_clusters.swapped" } else { "oracle.set_clusters.kept" });
        if !(t.cluster1 == c.min(d) && t.cluster2 == c.max(d) && same_bits(t.dissimilarity) && t.size == sz) {
            rep.fail("oracle", format!("set_clusters({}, {}) on {:?} gave {:?}", c, d, s, t), vec![], vec![], vec![]);
        }
    }
}

// ---------------------------------------------------------------------------
// the session
// ---------------------------------------------------------------------------

pub fn c19(ctx: &Ctx, rep: &mut Report) {
    rep.rule = "scripts of ops on 3 Dendrogram slots (new/reset/push/len/is_empty/observations/index/cluster_size/set_clusters/eq_with_epsilon): random mostly-valid streams, a malformed stream (out-of-range index/label, pushes on a full dendrogram, NaN/inf heights, negative/NaN epsilon), capacity scripts for every n, dendrograms returned by all five entry points, and equal/perturbed pairs with epsilon in {pred d, d, succ d}; every op compared with the Lean driver (kind model) and, where the statement speaks, with the expectation computed from the statement (kind oracle); non-trivial = script with >= 6 ops; distinct by hash of the request lines".into();
    install_panic_hook();
    let mut rng = Rng::new(ctx.seed);
    let sc = |q: usize, t: usize| -> usize { (((if ctx.thorough { t } else { q }) as f64) * ctx.scale) as usize };
    let max_n = if ctx.thorough { 24 } else { 12 };
    let mut scripts: Vec<Script> = vec![];

    // capacity: every n, both widths, from new and from reset
    for _ in 0..sc(3, 20).max(1) {
        for n in 0..=max_n {
            for w32 in [false, true] {
                for via_reset in [false, true] {
                    scripts.push(gen_capacity(&mut rng, n, w32, via_reset));
                }
            }
        }
    }
    for _ in 0..sc(6000, 60000) {
        scripts.push(gen_random(&mut rng, max_n, false));
    }
    for _ in 0..sc(2500, 25000) {
        scripts.push(gen_random(&mut rng, max_n, true));
    }

    // dendrograms returned by the clustering functions
    let all_classes: Vec<&'static str> = gen::CLASSES.to_vec();
    let finite_classes: Vec<&'static str> = gen::CLASSES.iter().cloned().filter(|c| *c != "magnitude" && *c != "geomline").collect();
    let entry_max = if ctx.thorough { 120 } else { 24 };
    for _ in 0..sc(1500, 15000) {
        let c = gen_entry_case(&mut rng, entry_max, &all_classes);
        rep.count(&format!("entry.alg.{}", c.alg.name()));
        rep.count(&format!("entry.method.{}", method_name(c.method)));
        match run_entry(&c) {
            None => rep.count("entry.call_panicked"),
            Some(Err(e)) => {
                rep.oracle_checked += 1;
                let case = Case { alg: c.alg, method: c.method, w32: c.w32, n: c.n, bits: c.bits.clone(), class: "c19" };
                rep.fail("oracle", format!("{} {} n={}: {}", c.alg.name(), method_name(c.method), c.n, e), vec![op_line_call(&case)], vec![], vec![]);
            }
            Some(Ok((obs, steps, counts))) => {
                rep.oracle_checked += 1;
                rep.count_by("oracle.cluster_size_labels", counts.len() as u64);
                scripts.push(gen_entry_script(&mut rng, c.w32, obs, &steps, &counts));
            }
        }
    }

    // eq_with_epsilon pairs: half on returned dendrograms, half on arbitrary step lists
    let variants = ["equal", "height", "height", "height", "height2", "label", "size", "length", "obs"];
    let mut made = 0;
    let want = sc(3000, 30000);
    let mut tries = 0;
    while made < want && tries < want * 4 {
        tries += 1;
        let (w32, obs, base): (bool, usize, Vec<RStep>) = if rng.below(2) == 0 {
            let c = gen_entry_case(&mut rng, 14, &finite_classes);
            match run_entry(&c) {
                Some(Ok((obs, steps, _))) => (c.w32, obs, steps),
                _ => continue,
            }
        } else {
            let w32 = rng.below(2) == 0;
            let obs = rng.range(2, max_n);
            let len = rng.range(1, obs - 1);
            let steps = (0..len)
                .map(|_| {
                    let (x, y) = (rng.below(2 * obs as u64) as usize, rng.below(2 * obs as u64) as usize);
                    (x.min(y), x.max(y), height(&mut rng, w32, false), rng.range(1, obs))
                })
                .collect();
            (w32, obs, steps)
        };
        if base.is_empty() || base.iter().any(|s| is_nan(w32, s.2) || is_nan(w32, absdiff(w32, s.2, s.2))) {
            continue;
        }
        let v = *rng.pick(&variants);
        rep.count(&format!("eq.variant.{}", v));
        scripts.push(gen_eq_script(&mut rng, w32, obs, &base, v));
        made += 1;
    }

    step_oracle::<f64>(&mut rng, sc(2000, 50000), rep);
    step_oracle::<f32>(&mut rng, sc(2000, 50000), rep);

    // --- run the implementation, check the expectations ---------------------------------------
    let impl_out: Vec<Vec<String>> = scripts.iter().map(exec).collect();
    for (s, out) in scripts.iter().zip(&impl_out) {
        let reqs: Vec<String> = (0..s.lines.len()).map(|k| s.request(k)).collect();
        rep.seen(&reqs.join("\n"), s.lines.len() >= 6);
        rep.count(&format!("kind.{}", s.kind));
        rep.count(if s.w32 { "width.f32" } else { "width.f64" });
        let mut failed = false;
        for (k, (l, o)) in s.lines.iter().zip(out).enumerate() {
            rep.count(&format!("op.{}", l.op.name()));
            if !l.tag.is_empty() {
                let short = match o.split(' ').nth(1) {
                    Some("true") => "true",
                    Some("false") => "false",
                    _ if o.starts_with("panic") => "panic",
                    _ => "ok",
                };
                rep.count(&format!("tag.{}.{}", l.tag, short));
            }
            if let Some(k) = o.strip_prefix("panic ") {
                rep.count(&format!("panic.{}", k));
                rep.count(&format!("panic.{}.{}", l.op.name(), k));
            }
            match &l.op {
                Op::New(n) | Op::Reset(n) => rep.count(&format!("n.{}", n)),
                Op::EqEps(..) => rep.count(&format!("eqeps.{}", o.trim_start_matches("ok "))),
                _ => {}
            }
            match &l.expect {
                None => rep.count("expectation.none(model only)"),
                Some(e) => {
                    rep.count("expectation.checked");
                    rep.oracle_checked += 1;
                    if e != o && !failed {
                        failed = true;
                        let lo = 0;
                        rep.fail(
                            "oracle",
                            format!("{} script, op {} `{}`: the statement requires `{}`, the implementation gave `{}`", s.kind, k, reqs[k], e, o),
                            reqs[lo..=k].to_vec(),
                            out[lo..=k].to_vec(),
                            vec![],
                        );
                    }
                }
            }
        }
    }

    // --- the model ------------------------------------------------------------------------------
    if ctx.driver == "none" {
        rep.notes.push("model driver unavailable: correspondence skipped, oracle only".into());
        return;
    }
    let groups = ctx.threads.max(1);
    let per = (scripts.len() + groups - 1) / groups.max(1);
    let mut handles = vec![];
    let mut bounds = vec![];
    let mut start = 0;
    while start < scripts.len() {
        let end = (start + per.max(1)).min(scripts.len());
        let mut lines: Vec<String> = vec![];
        for s in &scripts[start..end] {
            for k in 0..s.lines.len() {
                lines.push(s.request(k));
            }
        }
        let drv = ctx.driver.clone();
        handles.push(std::thread::spawn(move || run_driver(&drv, &lines)));
        bounds.push((start, end));
        start = end;
    }
    for (h, (a, b)) in handles.into_iter().zip(bounds) {
        let res = match h.join() {
            Ok(Ok(v)) => v,
            Ok(Err(e)) => {
                rep.fail("model", format!("driver error: {}", e), vec![], vec![], vec![]);
                continue;
            }
            Err(_) => {
                rep.fail("model", "driver thread panicked".into(), vec![], vec![], vec![]);
                continue;
            }
        };
        let mut pos = 0;
        for si in a..b {
            let s = &scripts[si];
            let out = &impl_out[si];
            let m = &res[pos..pos + s.lines.len()];
            pos += s.lines.len();
            rep.compared_with_model += s.lines.len() as u64;
            if let Some(k) = (0..s.lines.len()).find(|&k| m[k] != out[k]) {
                let lo = 0;
                let reqs: Vec<String> = (lo..=k).map(|i| s.request(i)).collect();
                rep.fail(
                    "model",
                    format!("{} script, op {} `{}`: model and implementation differ", s.kind, k, s.request(k)),
                    reqs,
                    out[lo..=k].to_vec(),
                    m[lo..=k].to_vec(),
                );
            }
        }
    }
}

/// Re-run recorded `dend …` request lines on implementation and model and print both
/// (for `--replay`; the lines of one failure start at a point where all slots are defined by
/// the preceding lines of the same script, or at the script's start).
pub fn replay_dend(ctx: &Ctx, ops: &[String]) {
    let parse = |s: &str| -> Option<(usize, bool, Op)> {
        let f: Vec<&str> = s.split_whitespace().collect();
        if f.len() < 4 || f[0] != "dend" {
            return None;
        }
        let u = |i: usize| -> Option<usize> { f.get(i)?.parse().ok() };
        let op = match f[3] {
            "new" => Op::New(u(4)?),
            "reset" => Op::Reset(u(4)?),
            "push" => Op::Push(u(4)?, u(5)?, f.get(6)?.parse().ok()?, u(7)?),
            "len" => Op::Len,
            "isempty" => Op::IsEmpty,
            "obs" => Op::Obs,
            "get" => Op::Get(u(4)?),
            "csize" => Op::CSize(u(4)?),
            "setc" => Op::SetC(u(4)?, u(5)?, u(6)?),
            "eqeps" => Op::EqEps(u(4)?, f.get(5)?.parse().ok()?),
            _ => return None,
        };
        Some((u(1)?, f[2] == "32", op))
    };
    let parsed: Vec<(usize, bool, Op)> = ops.iter().filter_map(|s| parse(s)).collect();
    if parsed.is_empty() {
        return;
    }
    let w32 = parsed[0].1;
    let sc = Script { w32, kind: "replay", lines: parsed.into_iter().map(|(slot, _, op)| Line { slot: slot % SLOTS, op, expect: None, tag: "" }).collect() };
    let out = exec(&sc);
    let reqs: Vec<String> = (0..sc.lines.len()).map(|k| sc.request(k)).collect();
    let model = run_driver(&ctx.driver, &reqs).unwrap_or_default();
    for k in 0..reqs.len() {
        println!("op {}: {}", k, reqs[k]);
        println!("  impl : {}", out[k]);
        println!("  model: {}", model.get(k).cloned().unwrap_or_default());
    }
}
