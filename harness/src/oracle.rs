//! Oracles: the properties evaluated directly on the implementation's output by
//! code written independently of kodama (no condensed index formula, no shared
//! union-find, no shared update loops).
use crate::core::{bits_to_f64, on_squares, sorted_method, StepB};
use kodama::Method;

/// Full symmetric matrix from a condensed one, by *counting* pairs (not by formula).
pub fn full_matrix(n: usize, vals: &[f64]) -> Vec<Vec<f64>> {
    let mut d = vec![vec![0.0; n]; n];
    let mut k = 0;
    for i in 0..n {
        for j in i + 1..n {
            d[i][j] = vals[k];
            d[j][i] = vals[k];
            k += 1;
        }
    }
    d
}

pub fn tol_for(w32: bool) -> f64 {
    if w32 {
        1e-3
    } else {
        1e-9
    }
}

/// The margin (gap between best and second-best candidate, relative to the input scale; for the
/// methods on squares relative to scale^2) above which the ORDER of merges cannot depend on rounding:
/// every table value is the result of at most ~3 rounded operations per merge along a chain of at most
/// n merges (relative error <= 3n eps); for the methods on squares the values grow up to n * scale^2.
/// 64x that bound.
pub fn safe_margin(w32: bool, m: Method, n: usize) -> f64 {
    let eps = if w32 { f32::EPSILON as f64 } else { f64::EPSILON };
    let nn = n.max(2) as f64;
    64.0 * 8.0 * eps * if on_squares(m) { nn * nn } else { nn }
}

pub fn scale_of(vals: &[f64]) -> f64 {
    vals.iter().fold(0.0f64, |a, &b| a.max(b.abs())).max(f64::MIN_POSITIVE)
}

// ---------------------------------------------------------------------------
// C01: structural validator
// ---------------------------------------------------------------------------

pub fn wellformed(n: usize, obs: usize, steps: &[StepB]) -> Result<(), String> {
    if n <= 1 {
        if !steps.is_empty() {
            return Err(format!("n={} but {} steps", n, steps.len()));
        }
        return Ok(());
    }
    if obs != n {
        return Err(format!("observations()={} for n={}", obs, n));
    }
    if steps.len() != n - 1 {
        return Err(format!("{} steps for n={}", steps.len(), n));
    }
    let mut used = vec![false; 2 * n - 1];
    let mut size = vec![1usize; 2 * n - 1];
    for (i, s) in steps.iter().enumerate() {
        if !(s.c1 < s.c2) {
            return Err(format!("step {}: labels not strictly ordered ({},{})", i, s.c1, s.c2));
        }
        if s.c2 >= n + i {
            return Err(format!("step {}: label {} not yet created", i, s.c2));
        }
        if used[s.c1] || used[s.c2] {
            return Err(format!("step {}: label reused ({},{})", i, s.c1, s.c2));
        }
        used[s.c1] = true;
        used[s.c2] = true;
        let sz = size[s.c1] + size[s.c2];
        if s.size != sz {
            return Err(format!("step {}: size {} != {}+{}", i, s.size, size[s.c1], size[s.c2]));
        }
        size[n + i] = sz;
    }
    // consequences (checked, not assumed)
    for l in 0..2 * n - 2 {
        if !used[l] {
            return Err(format!("label {} never consumed", l));
        }
    }
    if steps[n - 2].size != n {
        return Err("last size != n".into());
    }
    Ok(())
}

/// members of every label, as sorted observation lists
pub fn members(n: usize, steps: &[StepB]) -> Vec<Vec<usize>> {
    let mut m: Vec<Vec<usize>> = (0..n).map(|i| vec![i]).collect();
    for s in steps {
        let mut v = m[s.c1].clone();
        v.extend(m[s.c2].iter().cloned());
        v.sort_unstable();
        m.push(v);
    }
    m
}

// ---------------------------------------------------------------------------
// C05: no inversions
// ---------------------------------------------------------------------------

pub fn sorted_heights(w32: bool, steps: &[StepB]) -> Result<(), String> {
    for i in 1..steps.len() {
        let a = bits_to_f64(w32, steps[i - 1].bits);
        let b = bits_to_f64(w32, steps[i].bits);
        if !(a <= b) {
            return Err(format!("inversion at step {}: {} > {}", i, a, b));
        }
    }
    Ok(())
}

// ---------------------------------------------------------------------------
// Lance-Williams in f64, written independently (dense label x label table)
// ---------------------------------------------------------------------------

pub fn lw(m: Method, dax: f64, dbx: f64, dab: f64, sa: f64, sb: f64, sx: f64) -> f64 {
    match m {
        Method::Single => dax.min(dbx),
        Method::Complete => dax.max(dbx),
        Method::Average => (sa * dax + sb * dbx) / (sa + sb),
        Method::Weighted => 0.5 * (dax + dbx),
        Method::Ward => ((sa + sx) * dax + (sb + sx) * dbx - sx * dab) / (sa + sb + sx),
        Method::Centroid => (sa * dax + sb * dbx) / (sa + sb) - sa * sb * dab / ((sa + sb) * (sa + sb)),
        Method::Median => 0.5 * dax + 0.5 * dbx - 0.25 * dab,
    }
}

fn unsq(m: Method, x: f64) -> f64 {
    if on_squares(m) {
        x.max(0.0).sqrt()
    } else {
        x
    }
}

/// C03: replay the returned steps with naive bookkeeping; the merged pair must attain the
/// minimum over all live pairs up to tolerance. Returns the worst relative excess seen.
pub fn greedy_valid(m: Method, w32: bool, n: usize, vals: &[f64], steps: &[StepB]) -> Result<f64, String> {
    if n < 2 {
        return Ok(0.0);
    }
    let scale = scale_of(vals);
    let tol = tol_for(w32) * scale;
    let total = 2 * n - 1;
    let mut d = vec![vec![f64::NAN; total]; total];
    let f = full_matrix(n, vals);
    for i in 0..n {
        for j in 0..n {
            if i != j {
                d[i][j] = if on_squares(m) { f[i][j] * f[i][j] } else { f[i][j] };
            }
        }
    }
    let mut live: Vec<usize> = (0..n).collect();
    let mut size = vec![1.0f64; total];
    let mut worst: f64 = 0.0;
    for (i, s) in steps.iter().enumerate() {
        let (a, b) = (s.c1, s.c2);
        if !live.contains(&a) || !live.contains(&b) || a == b {
            return Err(format!("step {}: labels ({},{}) not live", i, a, b));
        }
        let dab = d[a][b];
        let mut best = f64::INFINITY;
        for (p, &x) in live.iter().enumerate() {
            for &y in &live[p + 1..] {
                if d[x][y] < best {
                    best = d[x][y];
                }
            }
        }
        let excess = unsq(m, dab) - unsq(m, best);
        // squared methods: also accept closeness on the squared scale (sqrt amplifies near 0)
        let ok = excess <= tol || (on_squares(m) && (dab - best) <= tol_for(w32) * scale * scale);
        if !ok {
            return Err(format!(
                "step {}: merged ({},{}) at {} but a live pair has {} (excess {:e}, tol {:e})",
                i, a, b, unsq(m, dab), unsq(m, best), excess, tol
            ));
        }
        worst = worst.max(excess / scale);
        // reported height must be the pair's dissimilarity
        let h = bits_to_f64(w32, s.bits);
        let hd = (h - unsq(m, dab)).abs();
        let okh = hd <= tol || (on_squares(m) && (h * h - dab).abs() <= tol_for(w32) * scale * scale);
        if !okh {
            return Err(format!("step {}: height {} but replayed dissimilarity {}", i, h, unsq(m, dab)));
        }
        let new = n + i;
        live.retain(|&x| x != a && x != b);
        for &x in &live {
            let v = lw(m, d[a][x], d[b][x], dab, size[a], size[b], size[x]);
            d[new][x] = v;
            d[x][new] = v;
        }
        size[new] = size[a] + size[b];
        live.push(new);
    }
    Ok(worst)
}

// ---------------------------------------------------------------------------
// C02: the criterion computed from the original matrix by its definition
// ---------------------------------------------------------------------------

struct Tree<'a> {
    n: usize,
    steps: &'a [StepB],
    f: &'a Vec<Vec<f64>>,
    memo: std::collections::HashMap<(usize, usize), f64>,
    method: Method,
}

impl<'a> Tree<'a> {
    /// weighted / median: recursion over the merge trees; the later-created side is split.
    /// Values are on the squared scale for median.
    fn rec(&mut self, u: usize, v: usize) -> f64 {
        let (u, v) = if u < v { (u, v) } else { (v, u) };
        if v < self.n {
            let x = self.f[u][v];
            return if on_squares(self.method) { x * x } else { x };
        }
        if let Some(&x) = self.memo.get(&(u, v)) {
            return x;
        }
        // v is the later-created label (labels are created in increasing order)
        let s = &self.steps[v - self.n];
        let (a, b) = (s.c1, s.c2);
        let x = match self.method {
            Method::Weighted => 0.5 * (self.rec(a, u) + self.rec(b, u)),
            Method::Median => 0.5 * self.rec(a, u) + 0.5 * self.rec(b, u) - 0.25 * self.rec(a, b),
            _ => unreachable!(),
        };
        self.memo.insert((u, v), x);
        x
    }
}

/// Returns the worst deviation relative to the input scale.
pub fn criterion(m: Method, w32: bool, n: usize, vals: &[f64], steps: &[StepB]) -> Result<f64, String> {
    if n < 2 {
        return Ok(0.0);
    }
    let scale = scale_of(vals);
    let tolr = tol_for(w32);
    let f = full_matrix(n, vals);
    let mem = members(n, steps);
    let mut tree = Tree { n, steps, f: &f, memo: Default::default(), method: m };
    let mut worst: f64 = 0.0;
    for (i, s) in steps.iter().enumerate() {
        let (a, b) = (&mem[s.c1], &mem[s.c2]);
        let h = bits_to_f64(w32, s.bits);
        // expected value; for squared methods `sq` holds the squared criterion
        let (exp, sq): (f64, Option<f64>) = match m {
            Method::Single => {
                let mut v = f64::INFINITY;
                for &x in a {
                    for &y in b {
                        v = v.min(f[x][y]);
                    }
                }
                (v, None)
            }
            Method::Complete => {
                let mut v = f64::NEG_INFINITY;
                for &x in a {
                    for &y in b {
                        v = v.max(f[x][y]);
                    }
                }
                (v, None)
            }
            Method::Average => {
                let (mut sum, mut c) = (0.0f64, 0.0f64);
                for &x in a {
                    for &y in b {
                        // Kahan
                        let yy = f[x][y] - c;
                        let t = sum + yy;
                        c = (t - sum) - yy;
                        sum = t;
                    }
                }
                (sum / (a.len() * b.len()) as f64, None)
            }
            Method::Weighted => (tree.rec(s.c1, s.c2), None),
            Method::Median => {
                let q = tree.rec(s.c1, s.c2);
                (q.max(0.0).sqrt(), Some(q))
            }
            Method::Centroid | Method::Ward => {
                let (na, nb) = (a.len() as f64, b.len() as f64);
                let mut cross = 0.0;
                for &x in a {
                    for &y in b {
                        cross += f[x][y] * f[x][y];
                    }
                }
                let mut wa = 0.0;
                for (p, &x) in a.iter().enumerate() {
                    for &y in &a[p + 1..] {
                        wa += f[x][y] * f[x][y];
                    }
                }
                let mut wb = 0.0;
                for (p, &x) in b.iter().enumerate() {
                    for &y in &b[p + 1..] {
                        wb += f[x][y] * f[x][y];
                    }
                }
                let c2 = cross / (na * nb) - wa / (na * na) - wb / (nb * nb);
                let q = if let Method::Ward = m { 2.0 * na * nb / (na + nb) * c2 } else { c2 };
                (q.max(0.0).sqrt(), Some(q))
            }
        };
        let dev = (h - exp).abs();
        let mut ok = dev <= tolr * scale;
        if let Some(q) = sq {
            if (h * h - q).abs() <= tolr * scale * scale {
                ok = true;
            }
        }
        if !ok || !h.is_finite() {
            return Err(format!(
                "step {} ({},{}): height {} but criterion from the original matrix is {} (dev {:e}, tol {:e})",
                i, s.c1, s.c2, h, exp, dev, tolr * scale
            ));
        }
        worst = worst.max(dev / scale);
    }
    Ok(worst)
}

// ---------------------------------------------------------------------------
// C04: Kruskal with its own DSU
// ---------------------------------------------------------------------------

struct Dsu(Vec<usize>);
impl Dsu {
    fn find(&mut self, x: usize) -> usize {
        let mut r = x;
        while self.0[r] != r {
            r = self.0[r];
        }
        let mut c = x;
        while self.0[c] != r {
            let nx = self.0[c];
            self.0[c] = r;
            c = nx;
        }
        r
    }
    fn union(&mut self, a: usize, b: usize) -> bool {
        let (ra, rb) = (self.find(a), self.find(b));
        if ra == rb {
            return false;
        }
        self.0[ra.max(rb)] = ra.min(rb);
        true
    }
    fn canon(&mut self, n: usize) -> Vec<usize> {
        (0..n).map(|i| self.find(i)).collect()
    }
}

/// bits compared as floats of the given width; `bits` of input are the raw patterns.
pub fn single_exact(w32: bool, n: usize, in_bits: &[u64], steps: &[StepB]) -> Result<(), String> {
    if n < 2 {
        return Ok(());
    }
    // edges sorted by value
    let mut edges: Vec<(f64, usize, usize)> = vec![];
    let mut k = 0;
    for i in 0..n {
        for j in i + 1..n {
            edges.push((bits_to_f64(w32, in_bits[k]), i, j));
            k += 1;
        }
    }
    edges.sort_by(|a, b| a.0.partial_cmp(&b.0).unwrap());
    // MST weights
    let mut dsu = Dsu((0..n).collect());
    let mut mstw: Vec<f64> = vec![];
    for &(w, i, j) in &edges {
        if dsu.union(i, j) {
            mstw.push(w);
        }
    }
    let hs: Vec<f64> = steps.iter().map(|s| bits_to_f64(w32, s.bits)).collect();
    let mut hs_sorted = hs.clone();
    hs_sorted.sort_by(|a, b| a.partial_cmp(b).unwrap());
    if hs_sorted.len() != mstw.len() {
        return Err("height count != MST edge count".into());
    }
    for (a, b) in hs_sorted.iter().zip(&mstw) {
        // compare numerically equal and same zero sign class ignored: -0 == +0 as values
        if a != b {
            return Err(format!("height multiset differs from MST weights: {} vs {}", a, b));
        }
    }
    // partitions at every distinct height
    let mem = members(n, steps);
    let mut distinct = hs.clone();
    distinct.sort_by(|a, b| a.partial_cmp(b).unwrap());
    distinct.dedup();
    for &h in &distinct {
        let mut g = Dsu((0..n).collect());
        for &(w, i, j) in &edges {
            if w <= h {
                g.union(i, j);
            } else {
                break;
            }
        }
        let mut t = Dsu((0..n).collect());
        for s in steps {
            if bits_to_f64(w32, s.bits) <= h {
                let a = mem[s.c1][0];
                let b = mem[s.c2][0];
                t.union(a, b);
            }
        }
        if g.canon(n) != t.canon(n) {
            return Err(format!("partition at height {} differs from threshold-graph components", h));
        }
    }
    Ok(())
}

// ---------------------------------------------------------------------------
// C06: independent naive clustering with margin certification
// ---------------------------------------------------------------------------

pub struct Naive {
    pub steps: Vec<(usize, usize, f64, usize)>,
    /// smallest gap between best and second-best candidate, relative to scale
    pub margin: f64,
    /// the same gaps relative to the LARGER OF THE TWO VALUES COMPARED (for inputs that mix magnitudes:
    /// candidates of one magnitude are never blurred by the rounding of another magnitude's arithmetic)
    pub rel_margin: f64,
}

/// Greedy O(n^3) Lance-Williams on a label table; SciPy labelling for sorted methods
/// requires sorting by height afterwards (stable), as the documented output order.
pub fn naive_cluster(m: Method, n: usize, vals: &[f64]) -> Naive {
    let scale = scale_of(vals);
    let f = full_matrix(n, vals);
    let total = 2 * n - 1;
    let mut d = vec![vec![f64::NAN; total]; total];
    for i in 0..n {
        for j in 0..n {
            if i != j {
                d[i][j] = if on_squares(m) { f[i][j] * f[i][j] } else { f[i][j] };
            }
        }
    }
    // raw merges on "slot" ids, relabelled afterwards
    let mut live: Vec<usize> = (0..n).collect();
    let mut size = vec![1.0f64; total];
    let mut raw: Vec<(usize, usize, f64)> = vec![];
    let mut margin = f64::INFINITY;
    let mut rel_margin = f64::INFINITY;
    for i in 0..n - 1 {
        let (mut best, mut bx, mut by) = (f64::INFINITY, 0, 0);
        let mut second = f64::INFINITY;
        for (p, &x) in live.iter().enumerate() {
            for &y in &live[p + 1..] {
                let v = d[x][y];
                if v < best {
                    second = best;
                    best = v;
                    bx = x;
                    by = y;
                } else if v < second {
                    second = v;
                }
            }
        }
        if second.is_finite() {
            let g = unsq(m, second) - unsq(m, best);
            let g2 = if on_squares(m) { ((second - best) / (scale * scale)).min(g / scale) } else { g / scale };
            margin = margin.min(g2);
            rel_margin = rel_margin.min((second - best) / second.abs().max(best.abs()).max(f64::MIN_POSITIVE));
        }
        let new = n + i;
        live.retain(|&x| x != bx && x != by);
        for &x in &live {
            let v = lw(m, d[bx][x], d[by][x], best, size[bx], size[by], size[x]);
            d[new][x] = v;
            d[x][new] = v;
        }
        size[new] = size[bx] + size[by];
        live.push(new);
        raw.push((bx, by, best));
    }
    // heights must also be separated from each other for the sort to be decided by margin
    let mut order: Vec<usize> = (0..raw.len()).collect();
    if sorted_method(m) {
        order.sort_by(|&a, &b| raw[a].2.partial_cmp(&raw[b].2).unwrap());
        for w in order.windows(2) {
            let g = unsq(m, raw[w[1]].2) - unsq(m, raw[w[0]].2);
            let g2 = if on_squares(m) { ((raw[w[1]].2 - raw[w[0]].2) / (scale * scale)).min(g / scale) } else { g / scale };
            margin = margin.min(g2);
            let (lo, hi) = (raw[w[0]].2, raw[w[1]].2);
            rel_margin = rel_margin.min((hi - lo) / hi.abs().max(lo.abs()).max(f64::MIN_POSITIVE));
        }
    }
    // relabel: slot id -> current label, by an observation-set representative map
    let mut rep: Vec<usize> = (0..total).collect(); // raw id -> one observation in it
    for (i, r) in raw.iter().enumerate() {
        rep[n + i] = rep[r.0];
    }
    let mut label_of_obs: Vec<usize> = (0..n).collect(); // observation -> current output label (via root obs)
    let mut root = Dsu((0..n).collect());
    let mut sizes_out = vec![1usize; total];
    let mut steps = vec![];
    for (k, &ri) in order.iter().enumerate() {
        let r = raw[ri];
        let oa = root.find(rep[r.0]);
        let ob = root.find(rep[r.1]);
        let (la, lb) = (label_of_obs[oa], label_of_obs[ob]);
        let (c1, c2) = if la < lb { (la, lb) } else { (lb, la) };
        let sz = sizes_out[la] + sizes_out[lb];
        sizes_out[n + k] = sz;
        root.union(oa, ob);
        let nr = root.find(oa);
        label_of_obs[nr] = n + k;
        steps.push((c1, c2, unsq(m, r.2), sz));
    }
    Naive { steps, margin, rel_margin }
}
