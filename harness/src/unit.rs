//! Unit-level correspondence for the crate-private `Active` list through the `kodama_verif` hook:
//! random reset / remove / iter / range / contains sequences compared with the abstract view the
//! Lean refinement theorem (`Lemmas/ActiveRefine.lean`: `Active.Rep`) relates the model to — a
//! strictly increasing list of the live indices.
use crate::rng::Rng;
use crate::session::{Ctx, Report};

#[cfg(kodama_verif)]
pub fn active_unit(ctx: &Ctx, rep: &mut Report) {
    use std::panic::{self, AssertUnwindSafe};
    let mut rng = Rng::new(ctx.seed ^ 0xAC71);
    let rounds = if ctx.thorough { 4000 } else { 400 };
    for round in 0..rounds {
        let n = rng.range(1, if round % 5 == 0 { 300 } else { 90 });
        let mut a = kodama::verif::VActive::new();
        a.reset(n);
        let mut live: Vec<bool> = vec![true; n];
        let mut log: Vec<String> = vec![format!("active reset {}", n)];
        let nops = rng.range(3, 40);
        for _ in 0..nops {
            match rng.below(5) {
                0 | 1 => {
                    // remove a contiguous block (long runs of removed indices), or a single index
                    let l = if rng.below(2) == 0 { *rng.pick(&[1usize, 2, 15, 16, 17, 31, 32, 33, 63, 64, 65]) } else { rng.range(1, 70) };
                    let s = rng.range(0, n - 1);
                    log.push(format!("remove block {}..{}", s, (s + l).min(n)));
                    for i in s..(s + l).min(n) {
                        a.remove(i);
                        live[i] = false;
                    }
                }
                2 => {
                    let i = rng.range(0, n - 1);
                    log.push(format!("remove {}", i));
                    a.remove(i);
                    live[i] = false;
                }
                _ => {}
            }
            // queries
            let lo = if rng.below(3) == 0 { None } else { Some(rng.range(0, n)) };
            let hi = if rng.below(3) == 0 { None } else { Some(rng.range(0, n)) };
            let want: Vec<usize> = (0..n).filter(|&i| live[i] && lo.map_or(true, |l| i >= l) && hi.map_or(true, |h| i < h)).collect();
            let got = panic::catch_unwind(AssertUnwindSafe(|| a.range(lo, hi)));
            rep.count("active_unit_queries");
            let q = format!("range {:?}..{:?}", lo, hi);
            match got {
                Ok(g) if g == want => {}
                Ok(g) => {
                    let mut ops = log.clone();
                    ops.push(q);
                    rep.fail("model", format!("Active::range disagrees with the sorted list of live indices (n={})", n), ops, vec![format!("{:?}", g)], vec![format!("{:?}", want)]);
                    return;
                }
                Err(_) => {
                    let mut ops = log.clone();
                    ops.push(q);
                    rep.fail("model", format!("Active::range panicked (n={})", n), ops, vec!["panic".into()], vec![format!("{:?}", want)]);
                    return;
                }
            }
            let all: Vec<usize> = (0..n).filter(|&i| live[i]).collect();
            if a.iter() != all {
                rep.fail("model", "Active::iter disagrees with the sorted list of live indices".into(), log.clone(), vec![format!("{:?}", a.iter())], vec![format!("{:?}", all)]);
                return;
            }
            let i = rng.range(0, n - 1);
            if a.contains(i) != live[i] {
                rep.fail("model", format!("Active::contains({}) wrong", i), log.clone(), vec![], vec![]);
                return;
            }
        }
    }
}

#[cfg(not(kodama_verif))]
pub fn active_unit(_ctx: &Ctx, rep: &mut Report) {
    rep.notes.push("built without --cfg kodama_verif: Active unit-level session skipped".into());
}

// ---------------------------------------------------------------------------
// LinkageHeap: op sequences on the real heap (hook `VHeap`) vs the Lean model's heap
// ---------------------------------------------------------------------------

#[cfg(kodama_verif)]
fn parse_dump(d: &str) -> String {
    // "VHeap(LinkageHeap { heap: [..], observations: [..], priorities: [..], removed: [..] })"
    let field = |name: &str| -> String {
        let k = d.find(&format!("{}: [", name)).map(|i| i + name.len() + 3).unwrap_or(0);
        let e = d[k..].find(']').map(|j| k + j).unwrap_or(k);
        d[k..e].split(',').map(|s| s.trim()).filter(|s| !s.is_empty()).map(|s| match s { "false" => "0".to_string(), "true" => "1".to_string(), x => x.to_string() }).collect::<Vec<_>>().join(",")
    };
    format!("heap={} obs={} removed={}", field("heap"), field("observations"), field("removed"))
}

#[cfg(kodama_verif)]
pub fn heap_unit(ctx: &Ctx, rep: &mut Report) {
    use crate::core::{checked_build, classify_panic, f64_to_bits, run_driver};
    use std::panic::{self, AssertUnwindSafe};
    if ctx.driver == "none" {
        return;
    }
    let mut rng = Rng::new(ctx.seed ^ 0x4EA9);
    let rounds = if ctx.thorough { 3000 } else { 300 };
    let chk = if checked_build() { 1 } else { 0 };
    let mut lines: Vec<String> = vec![];
    let mut impl_out: Vec<String> = vec![];
    for round in 0..rounds {
        // mostly small heaps; one round in six is large (thresholds of "optimised" sift paths: 32, 64)
        let n = if round % 6 == 5 { rng.range(25, 90) } else { rng.range(0, 24) };
        let tie_heavy = rng.below(2) == 0;
        let val = |rng: &mut Rng| -> f64 { if tie_heavy { (rng.below(4) + 1) as f64 } else { rng.unit() * 100.0 } };
        let mut h = kodama::verif::VHeap::<f64>::new();
        let id = round;
        let mut push = |line: String, out: String, lines: &mut Vec<String>, impl_out: &mut Vec<String>| {
            lines.push(line);
            impl_out.push(out);
        };
        h.reset(n);
        push(format!("heap {} 64 {} reset {}", id, chk, n), format!("ok {}", parse_dump(&h.dump())), &mut lines, &mut impl_out);
        let prios: Vec<f64> = (0..n).map(|_| val(&mut rng)).collect();
        let r = panic::catch_unwind(AssertUnwindSafe(|| h.heapify(&prios)));
        let pl: Vec<String> = prios.iter().map(|&x| f64_to_bits(false, x).to_string()).collect();
        push(format!("heap {} 64 {} heapify {}", id, chk, pl.join(" ")), match r { Ok(()) => format!("ok {}", parse_dump(&h.dump())), Err(_) => format!("panic {}", classify_panic()) }, &mut lines, &mut impl_out);
        let nops = if n > 24 { rng.range(20, 2 * n) } else { rng.range(2, 30) };
        for _ in 0..nops {
            match rng.below(6) {
                0 | 1 => {
                    let r = panic::catch_unwind(AssertUnwindSafe(|| h.pop()));
                    let out = match r {
                        Ok(Some(o)) => format!("ok some {} {}", o, parse_dump(&h.dump())),
                        Ok(None) => format!("ok none {}", parse_dump(&h.dump())),
                        Err(_) => format!("panic {}", classify_panic()),
                    };
                    push(format!("heap {} 64 {} pop", id, chk), out, &mut lines, &mut impl_out);
                }
                2 => {
                    let out = match h.peek() { Some(o) => format!("ok some {}", o), None => "ok none".to_string() };
                    push(format!("heap {} 64 {} peek", id, chk), out, &mut lines, &mut impl_out);
                }
                3 => {
                    let o = rng.range(0, n.max(1) + 1);
                    let r = panic::catch_unwind(AssertUnwindSafe(|| h.priority(o)));
                    let out = match r { Ok(v) => format!("ok {}", f64_to_bits(false, v)), Err(_) => format!("panic {}", classify_panic()) };
                    push(format!("heap {} 64 {} prio {}", id, chk, o), out, &mut lines, &mut impl_out);
                }
                _ => {
                    let o = rng.range(0, n.max(1));
                    let p = val(&mut rng);
                    let r = panic::catch_unwind(AssertUnwindSafe(|| h.set_priority(o, p)));
                    let out = match r { Ok(()) => format!("ok {}", parse_dump(&h.dump())), Err(_) => format!("panic {}", classify_panic()) };
                    push(format!("heap {} 64 {} setprio {} {}", id, chk, o, f64_to_bits(false, p)), out, &mut lines, &mut impl_out);
                }
            }
        }
    }
    crate::core::install_panic_hook();
    let model = match run_driver(&ctx.driver, &lines) {
        Ok(v) => v,
        Err(e) => {
            rep.fail("model", format!("driver error: {}", e), vec![], vec![], vec![]);
            return;
        }
    };
    for (k, (m, i)) in model.iter().zip(&impl_out).enumerate() {
        rep.count("heap_unit_ops");
        // the model also prints priorities; the hook's Debug dump is compared without them
        let m_cmp = match m.find(" prio=") { Some(p) => m[..p].to_string(), None => m.clone() };
        let same = if m_cmp.starts_with("panic") && i.starts_with("panic") { true } else { &m_cmp == i };
        if !same {
            // the op sequence of this heap up to here
            let id = lines[k].split(' ').nth(1).unwrap_or("").to_string();
            let ops: Vec<String> = lines[..=k].iter().filter(|l| l.split(' ').nth(1) == Some(id.as_str())).cloned().collect();
            rep.fail("model", "LinkageHeap (hook VHeap) and the model's heap differ after this op sequence".into(), ops, vec![i.clone()], vec![m.clone()]);
            return;
        }
    }
}

#[cfg(not(kodama_verif))]
pub fn heap_unit(_ctx: &Ctx, rep: &mut Report) {
    rep.notes.push("built without --cfg kodama_verif: heap unit-level session skipped".into());
}

// ---------------------------------------------------------------------------
// LinkageUnionFind: op sequences on the real union-find (hook `VUnionFind`) vs the Lean model's
// FAITHFUL union-find (`Model/UnionFindC.lean`, path compression included): the whole `parents`
// array and `next_parent` are compared after every operation.
// ---------------------------------------------------------------------------

#[cfg(kodama_verif)]
fn parse_uf_dump(d: &str) -> String {
    // "VUnionFind(LinkageUnionFind { parents: [..], next_parent: k })"
    let k = d.find("parents: [").map(|i| i + 10).unwrap_or(0);
    let e = d[k..].find(']').map(|j| k + j).unwrap_or(k);
    let parents = d[k..e].split(',').map(|s| s.trim()).filter(|s| !s.is_empty()).collect::<Vec<_>>().join(",");
    let np = d.find("next_parent: ").map(|i| i + 13).unwrap_or(0);
    let next: String = d[np..].chars().take_while(|c| c.is_ascii_digit()).collect();
    format!("parents={} next={}", parents, next)
}

#[cfg(kodama_verif)]
pub fn uf_unit(ctx: &Ctx, rep: &mut Report) {
    use crate::core::{classify_panic, run_driver};
    use std::panic::{self, AssertUnwindSafe};
    if ctx.driver == "none" {
        return;
    }
    let mut rng = Rng::new(ctx.seed ^ 0x0F1D);
    let rounds = if ctx.thorough { 3000 } else { 300 };
    let mut lines: Vec<String> = vec![];
    let mut impl_out: Vec<String> = vec![];
    for round in 0..rounds {
        let id = round % 7; // objects are reused across rounds (reset on stale content)
        let mut u = kodama::verif::VUnionFind::new();
        // replay the history of this slot so that the real object carries the same stale content
        // as the model's slot: simpler — use a fresh id per round but start with a garbage phase
        let id = round * 8 + id;
        let n0 = rng.range(0, 12);
        u.reset(n0);
        lines.push(format!("uf {} reset {}", id, n0));
        impl_out.push(format!("ok {}", parse_uf_dump(&format!("{:?}", u))));
        // garbage phase: a few unions on the first size, then reset to the size under test
        let mut next = n0;
        for _ in 0..rng.below(4) {
            if next >= 2 && next < 2 * n0.max(1) - 1 {
                let a = rng.range(0, next - 1);
                let b = rng.range(0, next - 1);
                let r = panic::catch_unwind(AssertUnwindSafe(|| u.union(a, b)));
                lines.push(format!("uf {} union {} {}", id, a, b));
                impl_out.push(match r { Ok(()) => format!("ok {}", parse_uf_dump(&format!("{:?}", u))), Err(_) => format!("panic {}", classify_panic()) });
                next = parse_uf_dump(&format!("{:?}", u)).rsplit('=').next().unwrap().parse().unwrap_or(next);
            }
        }
        let n = rng.range(0, if round % 4 == 0 { 40 } else { 14 });
        u.reset(n);
        lines.push(format!("uf {} reset {}", id, n));
        impl_out.push(format!("ok {}", parse_uf_dump(&format!("{:?}", u))));
        let size = if n == 0 { 0 } else { 2 * n - 1 };
        let mut next = n;
        let nops = rng.range(2, 4 * n.max(1) + 4);
        for _ in 0..nops {
            match rng.below(5) {
                0 | 1 => {
                    // find of an existing label, occasionally of an untouched / out-of-range one
                    let x = match rng.below(12) { 0 => rng.range(0, size + 1), _ => if next > 0 { rng.range(0, next - 1) } else { 0 } };
                    let r = panic::catch_unwind(AssertUnwindSafe(|| u.find(x)));
                    lines.push(format!("uf {} find {}", id, x));
                    impl_out.push(match r { Ok(v) => format!("ok {} {}", v, parse_uf_dump(&format!("{:?}", u))), Err(_) => format!("panic {}", classify_panic()) });
                }
                _ => {
                    if next == 0 {
                        continue;
                    }
                    // labels below next_parent only: larger ones would let `parents` point downwards and a
                    // later find of the real code could spin forever (never done by relabel)
                    let mut a = rng.range(0, next - 1);
                    let mut b = rng.range(0, next - 1);
                    if rng.below(3) != 0 {
                        // as relabel does: union of two roots
                        let ra = u.find(a);
                        lines.push(format!("uf {} find {}", id, a));
                        impl_out.push(format!("ok {} {}", ra, parse_uf_dump(&format!("{:?}", u))));
                        let rb = u.find(b);
                        lines.push(format!("uf {} find {}", id, b));
                        impl_out.push(format!("ok {} {}", rb, parse_uf_dump(&format!("{:?}", u))));
                        a = ra;
                        b = rb;
                    }
                    let r = panic::catch_unwind(AssertUnwindSafe(|| u.union(a, b)));
                    lines.push(format!("uf {} union {} {}", id, a, b));
                    impl_out.push(match r { Ok(()) => format!("ok {}", parse_uf_dump(&format!("{:?}", u))), Err(_) => format!("panic {}", classify_panic()) });
                    next = parse_uf_dump(&format!("{:?}", u)).rsplit('=').next().unwrap().parse().unwrap_or(next);
                }
            }
        }
    }
    crate::core::install_panic_hook();
    let model = match run_driver(&ctx.driver, &lines) {
        Ok(v) => v,
        Err(e) => {
            rep.fail("model", format!("driver error: {}", e), vec![], vec![], vec![]);
            return;
        }
    };
    for (k, (m, i)) in model.iter().zip(&impl_out).enumerate() {
        rep.count("uf_unit_ops");
        let same = if m.starts_with("panic") && i.starts_with("panic") { true } else { m == i };
        if !same {
            let id = lines[k].split(' ').nth(1).unwrap_or("").to_string();
            let ops: Vec<String> = lines[..=k].iter().filter(|l| l.split(' ').nth(1) == Some(id.as_str())).cloned().collect();
            rep.fail("model", "LinkageUnionFind (hook VUnionFind) and the model's compressing union-find differ after this op sequence".into(), ops, vec![i.clone()], vec![m.clone()]);
            return;
        }
    }
}

#[cfg(not(kodama_verif))]
pub fn uf_unit(_ctx: &Ctx, rep: &mut Report) {
    rep.notes.push("built without --cfg kodama_verif: union-find unit-level session skipped".into());
}
