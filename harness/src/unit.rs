//! Unit-level correspondence for the crate-private `Active` list through the `kodama_verif` hook:
//! random reset / remove / iter / range / contains sequences compared with the abstract view the
//! Lean refinement theorem (`Lemmas/ActiveRefine.lean`: `Active.Rep`) relates the model to — a
//! strictly increasing list of the live indices.
use crate::rng::Rng;
use crate::session::{Ctx, Report};

#[cfg(kodama_verif)]
pub fn active_unit(ctx: &Ctx, rep: &mut Report) {
    use std::panic::{self, AssertUnwindSafe};
    let mut rng = Rng::new(ctx.seed ^ 0xAC71);
    let rounds = if ctx.thorough { 4000 } else { 400 };
    for round in 0..rounds {
        let n = rng.range(1, if round % 5 == 0 { 300 } else { 90 });
        let mut a = kodama::verif::VActive::new();
        a.reset(n);
        let mut live: Vec<bool> = vec![true; n];
        let mut log: Vec<String> = vec![format!("active reset {}", n)];
        let nops = rng.range(3, 40);
        for _ in 0..nops {
            match rng.below(5) {
                0 | 1 => {
                    // remove a contiguous block (long runs of removed indices), or a single index
                    let l = if rng.below(2) == 0 { *rng.pick(&[1usize, 2, 15, 16, 17, 31, 32, 33, 63, 64, 65]) } else { rng.range(1, 70) };
                    let s = rng.range(0, n - 1);
                    log.push(format!("remove block {}..{}", s, (s + l).min(n)));
                    for i in s..(s + l).min(n) {
                        a.remove(i);
                        live[i] = false;
                    }
                }
                2 => {
                    let i = rng.range(0, n - 1);
                    log.push(format!("remove {}", i));
                    a.remove(i);
                    live[i] = false;
                }
                _ => {}
            }
            // queries
            let lo = if rng.below(3) == 0 { None } else { Some(rng.range(0, n)) };
            let hi = if rng.below(3) == 0 { None } else { Some(rng.range(0, n)) };
            let want: Vec<usize> = (0..n).filter(|&i| live[i] && lo.map_or(true, |l| i >= l) && hi.map_or(true, |h| i < h)).collect();
            let got = panic::catch_unwind(AssertUnwindSafe(|| a.range(lo, hi)));
            rep.count("active_unit_queries");
            let q = format!("range {:?}..{:?}", lo, hi);
            match got {
                Ok(g) if g == want => {}
                Ok(g) => {
                    let mut ops = log.clone();
                    ops.push(q);
                    rep.fail("model", format!("Active::range disagrees with the sorted list of live indices (n={})", n), ops, vec![format!("{:?}", g)], vec![format!("{:?}", want)]);
                    return;
                }
                Err(_) => {
                    let mut ops = log.clone();
                    ops.push(q);
                    rep.fail("model", format!("Active::range panicked (n={})", n), ops, vec!["panic".into()], vec![format!("{:?}", want)]);
                    return;
                }
            }
            let all: Vec<usize> = (0..n).filter(|&i| live[i]).collect();
            if a.iter() != all {
                rep.fail("model", "Active::iter disagrees with the sorted list of live indices".into(), log.clone(), vec![format!("{:?}", a.iter())], vec![format!("{:?}", all)]);
                return;
            }
            let i = rng.range(0, n - 1);
            if a.contains(i) != live[i] {
                rep.fail("model", format!("Active::contains({}) wrong", i), log.clone(), vec![], vec![]);
                return;
            }
        }
    }
}

#[cfg(not(kodama_verif))]
pub fn active_unit(_ctx: &Ctx, rep: &mut Report) {
    rep.notes.push("built without --cfg kodama_verif: Active unit-level session skipped".into());
}
