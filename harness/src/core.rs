//! Cases, running the real crate, canonical result lines, and the pipe to the
//! Lean driver.
use std::cell::RefCell;
use std::io::Write;
use std::panic::{self, AssertUnwindSafe};
use std::process::{Command, Stdio};

use kodama::{Dendrogram, LinkageState, Method, MethodChain};

#[derive(Clone, Copy, Debug, PartialEq, Eq, Hash)]
pub enum Alg {
    Primitive,
    Nnchain,
    Generic,
    Mst,
    Linkage,
}

pub const ALGS: [Alg; 5] = [Alg::Primitive, Alg::Nnchain, Alg::Generic, Alg::Mst, Alg::Linkage];
pub const METHODS: [Method; 7] = [
    Method::Single,
    Method::Complete,
    Method::Average,
    Method::Weighted,
    Method::Ward,
    Method::Centroid,
    Method::Median,
];

impl Alg {
    pub fn name(self) -> &'static str {
        match self {
            Alg::Primitive => "primitive",
            Alg::Nnchain => "nnchain",
            Alg::Generic => "generic",
            Alg::Mst => "mst",
            Alg::Linkage => "linkage",
        }
    }
    pub fn accepts(self, m: Method) -> bool {
        match self {
            Alg::Mst => matches!(m, Method::Single),
            Alg::Nnchain => m.into_method_chain().is_some(),
            _ => true,
        }
    }
}

pub fn method_name(m: Method) -> &'static str {
    match m {
        Method::Single => "single",
        Method::Complete => "complete",
        Method::Average => "average",
        Method::Weighted => "weighted",
        Method::Ward => "ward",
        Method::Centroid => "centroid",
        Method::Median => "median",
    }
}

pub fn on_squares(m: Method) -> bool {
    matches!(m, Method::Ward | Method::Centroid | Method::Median)
}

pub fn sorted_method(m: Method) -> bool {
    !matches!(m, Method::Centroid | Method::Median)
}

/// One clustering call. `bits`: f64 bit patterns, or f32 bit patterns (low 32 bits) when `w32`.
#[derive(Clone, Debug)]
pub struct Case {
    pub alg: Alg,
    pub method: Method,
    pub w32: bool,
    pub n: usize,
    pub bits: Vec<u64>,
    pub class: &'static str,
}

#[derive(Clone, Debug, PartialEq, Eq)]
pub struct StepB {
    pub c1: usize,
    pub c2: usize,
    pub bits: u64,
    pub size: usize,
}

#[derive(Clone, Debug, PartialEq, Eq)]
pub enum Outcome {
    Ok { obs: usize, acc: u64, steps: Vec<StepB> },
    Panic(String),
}

impl Outcome {
    pub fn line(&self, with_acc: bool) -> String {
        match self {
            Outcome::Ok { obs, acc, steps } => {
                let s: Vec<String> = steps
                    .iter()
                    .map(|s| format!("{},{},{},{}", s.c1, s.c2, s.bits, s.size))
                    .collect();
                if with_acc {
                    format!("ok obs={} acc={} steps={}", obs, acc, s.join(";"))
                } else {
                    format!("ok obs={} steps={}", obs, s.join(";"))
                }
            }
            Outcome::Panic(k) => format!("panic {}", k),
        }
    }
    pub fn parse(line: &str) -> Option<Outcome> {
        let line = line.trim();
        if let Some(k) = line.strip_prefix("panic ") {
            return Some(Outcome::Panic(k.to_string()));
        }
        let rest = line.strip_prefix("ok obs=")?;
        let mut it = rest.splitn(3, ' ');
        let obs: usize = it.next()?.parse().ok()?;
        let acc: u64 = it.next()?.strip_prefix("acc=")?.parse().ok()?;
        let st = it.next()?.strip_prefix("steps=")?;
        let mut steps = vec![];
        if !st.is_empty() {
            for s in st.split(';') {
                let f: Vec<&str> = s.split(',').collect();
                if f.len() != 4 {
                    return None;
                }
                steps.push(StepB {
                    c1: f[0].parse().ok()?,
                    c2: f[1].parse().ok()?,
                    bits: f[2].parse().ok()?,
                    size: f[3].parse().ok()?,
                });
            }
        }
        Some(Outcome::Ok { obs, acc, steps })
    }
    pub fn steps(&self) -> Option<&Vec<StepB>> {
        match self {
            Outcome::Ok { steps, .. } => Some(steps),
            _ => None,
        }
    }
    pub fn is_panic(&self) -> bool {
        matches!(self, Outcome::Panic(_))
    }
}

pub fn checked_build() -> bool {
    cfg!(debug_assertions)
}

// ---------------------------------------------------------------------------
// panic classification
// ---------------------------------------------------------------------------

thread_local! {
    static LAST_PANIC: RefCell<Option<(String, String)>> = RefCell::new(None);
}

pub fn install_panic_hook() {
    panic::set_hook(Box::new(|info| {
        let msg = if let Some(s) = info.payload().downcast_ref::<&str>() {
            s.to_string()
        } else if let Some(s) = info.payload().downcast_ref::<String>() {
            s.clone()
        } else {
            "?".to_string()
        };
        let loc = info.location().map(|l| format!("{}:{}", l.file(), l.line())).unwrap_or_default();
        LAST_PANIC.with(|p| *p.borrow_mut() = Some((msg, loc)));
    }));
}

pub fn classify_panic() -> String {
    let (msg, loc) = LAST_PANIC.with(|p| p.borrow_mut().take()).unwrap_or_default();
    let k = if msg.contains("NaNs not allowed") {
        "nanInSort"
    } else if loc.contains("condensed.rs") && (msg.contains("row < column") || msg.contains("column < self.observations")) {
        "debugIndex"
    } else if loc.contains("condensed.rs") && msg.contains("assertion") {
        "shape"
    } else if msg.contains("attempt to") && msg.contains("overflow") {
        "arith"
    } else if msg.contains("index out of bounds") || msg.contains("out of range") {
        "indexOOB"
    } else if msg.contains("Option::unwrap()") || msg.contains("at least one active") {
        "unwrapNone"
    } else if msg.contains("assertion") {
        "assertFail"
    } else if msg.contains("capacity overflow") || msg.contains("alloc") {
        "alloc"
    } else {
        "other"
    };
    format!("{}", k)
}

pub fn last_panic_detail() -> String {
    LAST_PANIC.with(|p| p.borrow().clone()).map(|(m, l)| format!("{} @ {}", m, l)).unwrap_or_default()
}

// ---------------------------------------------------------------------------
// running the implementation
// ---------------------------------------------------------------------------

#[cfg(kodama_verif)]
fn counter_reset() {
    kodama::verif::reset_index_count()
}
#[cfg(kodama_verif)]
fn counter_get() -> u64 {
    kodama::verif::index_count()
}
#[cfg(not(kodama_verif))]
fn counter_reset() {}
#[cfg(not(kodama_verif))]
fn counter_get() -> u64 {
    0
}

pub trait Fl: kodama::Float + std::fmt::Debug + Send + Sync + 'static {
    fn from_bits64(b: u64) -> Self;
    fn to_bits64(self) -> u64;
    fn to_f64x(self) -> f64;
    const W32: bool;
}
impl Fl for f64 {
    fn from_bits64(b: u64) -> f64 {
        f64::from_bits(b)
    }
    fn to_bits64(self) -> u64 {
        self.to_bits()
    }
    fn to_f64x(self) -> f64 {
        self
    }
    const W32: bool = false;
}
impl Fl for f32 {
    fn from_bits64(b: u64) -> f32 {
        f32::from_bits(b as u32)
    }
    fn to_bits64(self) -> u64 {
        self.to_bits() as u64
    }
    fn to_f64x(self) -> f64 {
        self as f64
    }
    const W32: bool = true;
}

fn chain_method(m: Method) -> MethodChain {
    m.into_method_chain().expect("nnchain method")
}

/// All NaNs are one value for the comparison (sign/payload of a NaN produced by `inf - inf`
/// is not specified by Rust or by Lean's C back end); NaN heights only occur outside the valid domain.
pub fn canon_bits(w32: bool, b: u64) -> u64 {
    if w32 {
        if f32::from_bits(b as u32).is_nan() { 0x7FC0_0000 } else { b }
    } else if f64::from_bits(b).is_nan() {
        0x7FF8_0000_0000_0000
    } else {
        b
    }
}

pub fn dend_outcome<T: Fl>(d: &Dendrogram<T>, acc: u64) -> Outcome {
    Outcome::Ok {
        obs: d.observations(),
        acc,
        steps: d
            .steps()
            .iter()
            .map(|s| StepB { c1: s.cluster1, c2: s.cluster2, bits: canon_bits(T::W32, s.dissimilarity.to_bits64()), size: s.size })
            .collect(),
    }
}

/// Allocating wrapper on a fresh copy of the matrix.
pub fn run_fresh_t<T: Fl>(alg: Alg, m: Method, n: usize, bits: &[u64]) -> Outcome {
    let mut mat: Vec<T> = bits.iter().map(|&b| T::from_bits64(b)).collect();
    counter_reset();
    let r = panic::catch_unwind(AssertUnwindSafe(|| match alg {
        Alg::Primitive => kodama::primitive(&mut mat, n, m),
        Alg::Nnchain => kodama::nnchain(&mut mat, n, chain_method(m)),
        Alg::Generic => kodama::generic(&mut mat, n, m),
        Alg::Mst => kodama::mst(&mut mat, n),
        Alg::Linkage => kodama::linkage(&mut mat, n, m),
    }));
    let acc = counter_get();
    match r {
        Ok(d) => dend_outcome(&d, acc),
        Err(_) => Outcome::Panic(classify_panic()),
    }
}

pub fn run_fresh(c: &Case) -> Outcome {
    if c.w32 {
        run_fresh_t::<f32>(c.alg, c.method, c.n, &c.bits)
    } else {
        run_fresh_t::<f64>(c.alg, c.method, c.n, &c.bits)
    }
}

/// `_with` form on caller-provided objects.
pub fn run_with_t<T: Fl>(
    st: &mut LinkageState<T>,
    d: &mut Dendrogram<T>,
    alg: Alg,
    m: Method,
    n: usize,
    bits: &[u64],
) -> Outcome {
    let mut mat: Vec<T> = bits.iter().map(|&b| T::from_bits64(b)).collect();
    counter_reset();
    let r = panic::catch_unwind(AssertUnwindSafe(|| match alg {
        Alg::Primitive => kodama::primitive_with(st, &mut mat, n, m, d),
        Alg::Nnchain => kodama::nnchain_with(st, &mut mat, n, chain_method(m), d),
        Alg::Generic => kodama::generic_with(st, &mut mat, n, m, d),
        Alg::Mst => kodama::mst_with(st, &mut mat, n, d),
        Alg::Linkage => kodama::linkage_with(st, &mut mat, n, m, d),
    }));
    let acc = counter_get();
    match r {
        Ok(()) => dend_outcome(d, acc),
        Err(_) => Outcome::Panic(classify_panic()),
    }
}

pub fn op_line_call(c: &Case) -> String {
    let mut s = format!(
        "call {} {} {} {} {}",
        c.alg.name(),
        method_name(c.method),
        if c.w32 { 32 } else { 64 },
        if checked_build() { 1 } else { 0 },
        c.n
    );
    for b in &c.bits {
        s.push(' ');
        s.push_str(&b.to_string());
    }
    s
}

pub fn op_line_with(slot: usize, c: &Case) -> String {
    let mut s = format!(
        "with {} {} {} {} {} {}",
        slot,
        c.alg.name(),
        method_name(c.method),
        if c.w32 { 32 } else { 64 },
        if checked_build() { 1 } else { 0 },
        c.n
    );
    for b in &c.bits {
        s.push(' ');
        s.push_str(&b.to_string());
    }
    s
}

/// Whether `acc` is compared for this algorithm (the model threads the counter only
/// through mst and nnchain, the algorithms C14 bounds).
pub fn acc_tracked(alg: Alg, m: Method) -> bool {
    match alg {
        Alg::Mst | Alg::Nnchain => true,
        Alg::Linkage => sorted_method(m),
        _ => false,
    }
}

// ---------------------------------------------------------------------------
// the Lean driver
// ---------------------------------------------------------------------------

/// Run the driver on the given request lines; returns one output line per request.
pub fn run_driver(driver: &str, lines: &[String]) -> Result<Vec<String>, String> {
    let parts: Vec<&str> = driver.split_whitespace().collect();
    if parts.is_empty() {
        return Err("no driver command".into());
    }
    let mut child = Command::new(parts[0])
        .args(&parts[1..])
        .stdin(Stdio::piped())
        .stdout(Stdio::piped())
        .stderr(Stdio::inherit())
        .spawn()
        .map_err(|e| format!("cannot start driver {}: {}", driver, e))?;
    let mut stdin = child.stdin.take().unwrap();
    let payload: String = lines.iter().map(|l| format!("{}\n", l)).collect();
    let writer = std::thread::spawn(move || {
        let _ = stdin.write_all(payload.as_bytes());
    });
    let out = child.wait_with_output().map_err(|e| format!("driver failed: {}", e))?;
    let _ = writer.join();
    if !out.status.success() {
        return Err(format!("driver exited with {:?}", out.status));
    }
    let text = String::from_utf8_lossy(&out.stdout);
    let res: Vec<String> = text.lines().map(|s| s.to_string()).collect();
    if res.len() != lines.len() {
        return Err(format!("driver returned {} lines for {} requests", res.len(), lines.len()));
    }
    Ok(res)
}

/// Run the driver in parallel chunks.
pub fn run_driver_par(driver: &str, lines: &[String], threads: usize) -> Result<Vec<String>, String> {
    if lines.len() < 64 || threads <= 1 {
        return run_driver(driver, lines);
    }
    let chunk = (lines.len() + threads - 1) / threads;
    let mut handles = vec![];
    for ch in lines.chunks(chunk) {
        let ch: Vec<String> = ch.to_vec();
        let d = driver.to_string();
        handles.push(std::thread::spawn(move || run_driver(&d, &ch)));
    }
    let mut out = vec![];
    for h in handles {
        out.extend(h.join().map_err(|_| "driver thread panicked".to_string())??);
    }
    Ok(out)
}

pub fn bits_to_f64(w32: bool, b: u64) -> f64 {
    if w32 {
        f32::from_bits(b as u32) as f64
    } else {
        f64::from_bits(b)
    }
}

pub fn f64_to_bits(w32: bool, x: f64) -> u64 {
    if w32 {
        (x as f32).to_bits() as u64
    } else {
        x.to_bits()
    }
}

/// Minimised past failures (`/verif/corpus/<pid>.ops`, one `call` line each): they run first.
pub fn corpus_cases(pid: &str) -> Vec<Case> {
    let dir = std::env::var("VERIF_CORPUS_DIR").unwrap_or_else(|_| concat!(env!("CARGO_MANIFEST_DIR"), "/../corpus").to_string());
    let text = match std::fs::read_to_string(format!("{}/{}.ops", dir, pid)) {
        Ok(t) => t,
        Err(_) => return vec![],
    };
    let mut out = vec![];
    for line in text.lines() {
        let f: Vec<&str> = line.split(' ').collect();
        if f.len() < 6 || f[0] != "call" {
            continue;
        }
        let alg = match f[1] { "primitive" => Alg::Primitive, "nnchain" => Alg::Nnchain, "generic" => Alg::Generic, "mst" => Alg::Mst, _ => Alg::Linkage };
        let method = match METHODS.iter().cloned().find(|m| method_name(*m) == f[2]) { Some(m) => m, None => continue };
        let w32 = f[3] == "32";
        let n: usize = match f[5].parse() { Ok(n) => n, Err(_) => continue };
        let bits: Vec<u64> = f[6..].iter().filter_map(|x| x.parse().ok()).collect();
        out.push(Case { alg, method, w32, n, bits, class: "corpus" });
    }
    out
}
