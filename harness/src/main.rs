mod alloc;
mod container;
mod core;
mod gen;
mod history;
mod json;
mod oracle;
mod props;
mod rng;
mod session;
mod unit;

use session::{Ctx, Report};

#[global_allocator]
static GLOBAL: alloc::Counting = alloc::Counting;

fn main() {
    let args: Vec<String> = std::env::args().collect();
    if args.len() < 2 {
        eprintln!("usage: harness <property> [--tier quick|thorough] [--seed N] [--driver CMD] [--out FILE] [--scale X] [--replay FILE]");
        std::process::exit(2);
    }
    let prop = args[1].clone();
    let mut tier = "quick".to_string();
    let mut seed: u64 = 1;
    let mut driver = "/verif/lean/.lake/build/bin/kodama-driver".to_string();
    let mut out = String::new();
    let mut scale = 1.0f64;
    let mut replay = String::new();
    let mut i = 2;
    while i + 1 < args.len() + 1 && i < args.len() {
        match args[i].as_str() {
            "--tier" => { tier = args[i + 1].clone(); i += 2; }
            "--seed" => { seed = args[i + 1].parse().unwrap_or(1); i += 2; }
            "--driver" => { driver = args[i + 1].clone(); i += 2; }
            "--out" => { out = args[i + 1].clone(); i += 2; }
            "--scale" => { scale = args[i + 1].parse().unwrap_or(1.0); i += 2; }
            "--replay" => { replay = args[i + 1].clone(); i += 2; }
            _ => { i += 1; }
        }
    }
    core::install_panic_hook();
    let threads = std::thread::available_parallelism().map(|n| n.get()).unwrap_or(4).min(16);
    let ctx = Ctx { driver, threads, thorough: tier == "thorough", tier: tier.clone(), seed, scale };
    let mut rep = Report::new(&prop, &tier, seed);
    let t0 = std::time::Instant::now();
    if !replay.is_empty() {
        replay_ops(&ctx, &mut rep, &replay);
    } else {
        match prop.as_str() {
            "C01" => props::c01(&ctx, &mut rep),
            "C02" => props::c02(&ctx, &mut rep),
            "C03" => props::c03(&ctx, &mut rep),
            "C04" => props::c04(&ctx, &mut rep),
            "C05" => props::c05(&ctx, &mut rep),
            "C06" => props::c06(&ctx, &mut rep),
            "C07" => props::c07(&ctx, &mut rep),
            "C08" => history::c08(&ctx, &mut rep),
            "C09" => props::c09(&ctx, &mut rep),
            "C10" => props::c10(&ctx, &mut rep),
            "C11" => props::c11(&ctx, &mut rep),
            "C12" => props::c12(&ctx, &mut rep),
            "C13" => props::c13(&ctx, &mut rep),
            "C14" => props::c14(&ctx, &mut rep),
            "C19" => container::c19(&ctx, &mut rep),
            "C20" => alloc::c20(&ctx, &mut rep),
            _ => {
                eprintln!("unknown property {}", prop);
                std::process::exit(2);
            }
        }
    }
    let mut j = rep.to_json();
    j.set("wall_s", json::J::Num(t0.elapsed().as_secs_f64()));
    let text = j.to_string();
    if out.is_empty() {
        println!("{}", text);
    } else {
        std::fs::write(&out, text).expect("write report");
    }
    let hang = rep.failures.iter().any(|f| f.kind == "hang");
    if hang {
        // a stuck worker thread cannot be joined
        std::process::exit(if rep.failures.is_empty() { 0 } else { 1 });
    }
    std::process::exit(if rep.failures.is_empty() { 0 } else { 1 });
}

/// Re-run recorded request lines (`call ..` / `with ..`) on implementation and model and print both.
fn replay_ops(ctx: &Ctx, rep: &mut Report, path: &str) {
    let text = std::fs::read_to_string(path).expect("read replay");
    // the replay file is JSON with an "ops" array of strings; extract them crudely
    let mut ops: Vec<String> = vec![];
    let mut dend_ops: Vec<String> = vec![];
    let mut alloc_ops: Vec<String> = vec![];
    if let Some(p) = text.find("\"ops\"") {
        let rest = &text[p..];
        if let (Some(a), Some(b)) = (rest.find('['), rest.find(']')) {
            for part in rest[a + 1..b].split("\",") {
                let s = part.trim().trim_matches('"').trim_matches('\n').trim();
                let s = s.trim_start_matches('"');
                if s.starts_with("call ") || s.starts_with("with ") {
                    ops.push(s.to_string());
                }
                if s.starts_with("alloc ") {
                    alloc_ops.push(s.to_string());
                }
                if s.starts_with("dend ") {
                    dend_ops.push(s.to_string());
                }
            }
        }
    }
    if !alloc_ops.is_empty() {
        alloc::replay(ctx, &alloc_ops);
        rep.seen(&alloc_ops.join("\n"), true);
        return;
    }
    if !dend_ops.is_empty() {
        container::replay_dend(ctx, &dend_ops);
        rep.seen(&dend_ops.join("\n"), true);
        return;
    }
    let model = core::run_driver(&ctx.driver, &ops).unwrap_or_default();
    let mut st64 = kodama::LinkageState::<f64>::new();
    let mut d64 = kodama::Dendrogram::<f64>::new(0);
    let mut st32 = kodama::LinkageState::<f32>::new();
    let mut d32 = kodama::Dendrogram::<f32>::new(0);
    for (k, op) in ops.iter().enumerate() {
        let f: Vec<&str> = op.split(' ').collect();
        let with = f[0] == "with";
        let o = if with { 1 } else { 0 };
        let alg = match f[1 + o] { "primitive" => core::Alg::Primitive, "nnchain" => core::Alg::Nnchain, "generic" => core::Alg::Generic, "mst" => core::Alg::Mst, _ => core::Alg::Linkage };
        let method = core::METHODS.iter().cloned().find(|m| core::method_name(*m) == f[2 + o]).unwrap();
        let w32 = f[3 + o] == "32";
        let n: usize = f[5 + o].parse().unwrap();
        let bits: Vec<u64> = f[6 + o..].iter().filter_map(|x| x.parse().ok()).collect();
        let out = if with {
            if w32 { core::run_with_t::<f32>(&mut st32, &mut d32, alg, method, n, &bits) } else { core::run_with_t::<f64>(&mut st64, &mut d64, alg, method, n, &bits) }
        } else {
            core::run_fresh(&core::Case { alg, method, w32, n, bits, class: "replay" })
        };
        println!("op {}: {}", k, if op.len() > 200 { &op[..200] } else { op });
        println!("  impl : {}", out.line(true));
        println!("  model: {}", model.get(k).cloned().unwrap_or_default());
        rep.seen(op, true);
    }
}
