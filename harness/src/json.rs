//! Minimal JSON value + writer (no external crates are available offline).
use std::collections::BTreeMap;

#[derive(Clone, Debug)]
pub enum J {
    Null,
    Bool(bool),
    Int(i128),
    Num(f64),
    Str(String),
    Arr(Vec<J>),
    Obj(BTreeMap<String, J>),
}

impl J {
    pub fn obj() -> J {
        J::Obj(BTreeMap::new())
    }
    pub fn set(&mut self, k: &str, v: J) -> &mut J {
        if let J::Obj(m) = self {
            m.insert(k.to_string(), v);
        }
        self
    }
    pub fn s(x: &str) -> J {
        J::Str(x.to_string())
    }
    pub fn i<T: Into<i128>>(x: T) -> J {
        J::Int(x.into())
    }
    pub fn write(&self, out: &mut String) {
        match self {
            J::Null => out.push_str("null"),
            J::Bool(b) => out.push_str(if *b { "true" } else { "false" }),
            J::Int(i) => out.push_str(&i.to_string()),
            J::Num(x) => {
                if x.is_finite() {
                    out.push_str(&format!("{}", x))
                } else {
                    out.push_str("null")
                }
            }
            J::Str(s) => {
                out.push('"');
                for c in s.chars() {
                    match c {
                        '"' => out.push_str("\\\""),
                        '\\' => out.push_str("\\\\"),
                        '\n' => out.push_str("\\n"),
                        '\t' => out.push_str("\\t"),
                        '\r' => out.push_str("\\r"),
                        c if (c as u32) < 0x20 => out.push_str(&format!("\\u{:04x}", c as u32)),
                        c => out.push(c),
                    }
                }
                out.push('"');
            }
            J::Arr(a) => {
                out.push('[');
                for (i, v) in a.iter().enumerate() {
                    if i > 0 {
                        out.push(',');
                    }
                    v.write(out);
                }
                out.push(']');
            }
            J::Obj(m) => {
                out.push('{');
                for (i, (k, v)) in m.iter().enumerate() {
                    if i > 0 {
                        out.push(',');
                    }
                    J::Str(k.clone()).write(out);
                    out.push(':');
                    v.write(out);
                }
                out.push('}');
            }
        }
    }
    pub fn to_string(&self) -> String {
        let mut s = String::new();
        self.write(&mut s);
        s
    }
}
