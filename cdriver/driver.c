/*
 * C driver for properties C15 / C16: executes an op script against the kodama C API
 * (kodama-capi/include/kodama.h, libkodama.a) and prints one canonical line per op.
 *
 * Script (stdin), one op per line; floats travel as decimal bit patterns:
 *
 *   threads <k>                      optional, first line
 *   begin pre | begin thread <t> | begin post ... end
 *                                    sections; ops outside any section belong to `pre`.
 *                                    `pre` runs on the main thread, then all `thread` sections run
 *                                    concurrently (one pthread each), then `post` on the main thread.
 *   case <id>                        -> case <id>                 (marker, echoed)
 *   create <h> <double|float> <kodama_method_xxx> <n> <bits...>
 *                                    -> created | null | bad-op | bad-handle
 *        mallocs the input matrix, fills it, calls kodama_linkage_double/float, files the returned
 *        pointer under handle <h> (an index into a global table) together with the input buffer
 *   len <h>     -> len <k>           kodama_dendrogram_len
 *   obs <h>     -> obs <k>           kodama_dendrogram_observations
 *   steps <h>   -> steps len=<l> obs=<o> c1,c2,<double bits>,size;...
 *                                    reads exactly len entries of kodama_dendrogram_steps
 *   clobber <h> -> clobbered         overwrite the input buffer passed to `create <h>` with
 *                                    garbage, then free it
 *   free <h>    -> freed             kodama_dendrogram_free
 *
 * Output: `== pre`, its lines, `== thread <t>` ... in thread order, `== post`, its lines.
 * If the library aborts (a Rust panic caught by ffi_fn!), the SIGABRT handler dumps what was
 * printed so far plus `ABORT section=<name> op=<index> <op line prefix>` and exits with 134.
 */
#include <pthread.h>
#include <signal.h>
#include <stdint.h>
#include <stdio.h>
#include <stdlib.h>
#include <string.h>
#include <unistd.h>

#include "kodama.h"

#define MAXH 65536
#define MAXT 64

typedef struct {
    kodama_dendrogram *d;
    void *input;
    size_t input_bytes;
    /* the pointer returned by the FIRST kodama_dendrogram_steps call on this dendrogram: the property
     * says the array stays readable and unchanged until kodama_dendrogram_free, so every later
     * `steps` op reads through this HELD pointer (whatever other API calls happened in between)
     * and cross-checks it against a fresh call */
    const kodama_step *held;
} slot_t;

static slot_t slots[MAXH];

typedef struct {
    char name[32];
    char **lines;
    size_t nlines, caplines;
    char *out;
    size_t outlen, outcap;
    volatile size_t cur; /* index of the op being executed */
    volatile int running;
} section_t;

static section_t sec_pre, sec_post, sec_thr[MAXT];
static int nthreads = 0;
static __thread section_t *cur_sec = NULL;

static const struct {
    const char *name;
    kodama_method m;
} METHODS[] = {
    {"kodama_method_single", kodama_method_single},
    {"kodama_method_complete", kodama_method_complete},
    {"kodama_method_average", kodama_method_average},
    {"kodama_method_weighted", kodama_method_weighted},
    {"kodama_method_ward", kodama_method_ward},
    {"kodama_method_centroid", kodama_method_centroid},
    {"kodama_method_median", kodama_method_median},
};

static void out_reserve(section_t *s, size_t extra) {
    if (s->outlen + extra + 1 > s->outcap) {
        size_t nc = s->outcap ? s->outcap * 2 : 4096;
        while (nc < s->outlen + extra + 1) nc *= 2;
        s->out = realloc(s->out, nc);
        if (!s->out) _exit(3);
        s->outcap = nc;
    }
}

static void out_str(section_t *s, const char *t) {
    size_t l = strlen(t);
    out_reserve(s, l);
    memcpy(s->out + s->outlen, t, l);
    s->outlen += l;
    s->out[s->outlen] = 0;
}

static void out_u64(section_t *s, uint64_t v) {
    char b[32];
    snprintf(b, sizeof b, "%llu", (unsigned long long)v);
    out_str(s, b);
}

static void add_line(section_t *s, char *l) {
    if (s->nlines == s->caplines) {
        s->caplines = s->caplines ? s->caplines * 2 : 64;
        s->lines = realloc(s->lines, s->caplines * sizeof(char *));
        if (!s->lines) _exit(3);
    }
    s->lines[s->nlines++] = l;
}

static void wr(const char *p, size_t n) {
    while (n) {
        ssize_t k = write(1, p, n);
        if (k <= 0) return;
        p += k;
        n -= (size_t)k;
    }
}

static void dump_section(section_t *s) {
    wr("== ", 3);
    wr(s->name, strlen(s->name));
    wr("\n", 1);
    if (s->outlen) wr(s->out, s->outlen);
    if (s->outlen && s->out[s->outlen - 1] != '\n') wr("\n", 1);
}

static void dump_all(void) {
    dump_section(&sec_pre);
    for (int t = 0; t < nthreads; t++) dump_section(&sec_thr[t]);
    dump_section(&sec_post);
}

static void on_abort(int sig) {
    (void)sig;
    char b[256];
    dump_all();
    section_t *s = cur_sec;
    if (s) {
        const char *l = s->cur < s->nlines ? s->lines[s->cur] : "";
        int k = snprintf(b, sizeof b, "ABORT section=%s op=%lu %.80s\n", s->name, (unsigned long)s->cur, l);
        wr(b, (size_t)k);
    } else {
        wr("ABORT section=? op=0\n", 21);
    }
    _exit(134);
}

static int parse_handle(const char *w) {
    char *e;
    long v = strtol(w, &e, 10);
    if (*e || v < 0 || v >= MAXH) return -1;
    return (int)v;
}

static void exec_op(section_t *s, char *line) {
    /* tokenise in place on a private copy of the head (the bit patterns are parsed from the tail) */
    char *save = NULL;
    char *op = strtok_r(line, " \n", &save);
    if (!op) return;
    if (!strcmp(op, "case")) {
        char *id = strtok_r(NULL, " \n", &save);
        out_str(s, "case ");
        out_str(s, id ? id : "?");
        out_str(s, "\n");
        return;
    }
    char *hw = strtok_r(NULL, " \n", &save);
    int h = hw ? parse_handle(hw) : -1;
    if (h < 0) {
        out_str(s, "bad-op\n");
        return;
    }
    slot_t *sl = &slots[h];
    if (!strcmp(op, "create")) {
        char *w = strtok_r(NULL, " \n", &save);
        char *mn = strtok_r(NULL, " \n", &save);
        char *ns = strtok_r(NULL, " \n", &save);
        if (!w || !mn || !ns) {
            out_str(s, "bad-op\n");
            return;
        }
        int is_float = !strcmp(w, "float");
        if (!is_float && strcmp(w, "double")) {
            out_str(s, "bad-op\n");
            return;
        }
        int mi = -1;
        for (size_t i = 0; i < sizeof METHODS / sizeof METHODS[0]; i++)
            if (!strcmp(mn, METHODS[i].name)) mi = (int)i;
        if (mi < 0) {
            out_str(s, "bad-op\n");
            return;
        }
        size_t n = (size_t)strtoull(ns, NULL, 10);
        size_t need = n ? n * (n - 1) / 2 : 0;
        size_t esz = is_float ? sizeof(float) : sizeof(double);
        /* exactly `need` entries are allocated (at least one byte so that the pointer is never
           NULL): a library read beyond the matrix is a heap overflow visible to the sanitizer */
        size_t bytes = need * esz;
        void *buf = malloc(bytes ? bytes : 1);
        if (!buf) _exit(3);
        size_t cnt = 0;
        char *tok;
        while ((tok = strtok_r(NULL, " \n", &save)) != NULL) {
            uint64_t b = strtoull(tok, NULL, 10);
            if (cnt < need) {
                if (is_float) {
                    uint32_t b32 = (uint32_t)b;
                    memcpy((char *)buf + cnt * esz, &b32, 4);
                } else {
                    memcpy((char *)buf + cnt * esz, &b, 8);
                }
            }
            cnt++;
        }
        if (cnt != need) {
            free(buf);
            out_str(s, "bad-op\n");
            return;
        }
        if (sl->d) {
            free(buf);
            out_str(s, "bad-handle\n");
            return;
        }
        kodama_dendrogram *d = is_float ? kodama_linkage_float((float *)buf, n, METHODS[mi].m)
                                        : kodama_linkage_double((double *)buf, n, METHODS[mi].m);
        if (sl->input) free(sl->input); /* a buffer left over from an earlier use of this name */
        sl->input = buf;
        sl->input_bytes = bytes;
        if (!d) {
            out_str(s, "null\n");
            return;
        }
        sl->d = d;
        sl->held = NULL;
        out_str(s, "created\n");
        return;
    }
    if (!strcmp(op, "clobber")) {
        if (sl->input) {
            memset(sl->input, 0xA5, sl->input_bytes);
            free(sl->input);
            sl->input = NULL;
            sl->input_bytes = 0;
        }
        out_str(s, "clobbered\n");
        return;
    }
    if (!sl->d) {
        out_str(s, "bad-handle\n");
        return;
    }
    if (!strcmp(op, "len")) {
        out_str(s, "len ");
        out_u64(s, kodama_dendrogram_len(sl->d));
        out_str(s, "\n");
    } else if (!strcmp(op, "obs")) {
        out_str(s, "obs ");
        out_u64(s, kodama_dendrogram_observations(sl->d));
        out_str(s, "\n");
    } else if (!strcmp(op, "steps")) {
        size_t len = kodama_dendrogram_len(sl->d);
        size_t obs = kodama_dendrogram_observations(sl->d);
        const kodama_step *fresh = kodama_dendrogram_steps(sl->d);
        if (!sl->held) sl->held = fresh;
        const kodama_step *st = sl->held;
        if (len && fresh != st && memcmp(fresh, st, len * sizeof(kodama_step)) != 0) {
            out_str(s, "steps-changed: the array obtained earlier no longer equals the dendrogram's steps\n");
            return;
        }
        out_str(s, "steps len=");
        out_u64(s, len);
        out_str(s, " obs=");
        out_u64(s, obs);
        out_str(s, " ");
        for (size_t i = 0; i < len; i++) {
            uint64_t bits;
            memcpy(&bits, &st[i].dissimilarity, 8);
            if (i) out_str(s, ";");
            out_u64(s, st[i].cluster1);
            out_str(s, ",");
            out_u64(s, st[i].cluster2);
            out_str(s, ",");
            out_u64(s, bits);
            out_str(s, ",");
            out_u64(s, st[i].size);
        }
        out_str(s, "\n");
    } else if (!strcmp(op, "free")) {
        kodama_dendrogram_free(sl->d);
        sl->d = NULL;
        sl->held = NULL;
        out_str(s, "freed\n");
    } else {
        out_str(s, "bad-op\n");
    }
}

static void *run_section(void *arg) {
    section_t *s = arg;
    cur_sec = s;
    s->running = 1;
    for (size_t i = 0; i < s->nlines; i++) {
        s->cur = i;
        /* keep the original text for the abort message: execute on a copy */
        char *copy = strdup(s->lines[i]);
        if (!copy) _exit(3);
        exec_op(s, copy);
        free(copy);
    }
    s->cur = s->nlines;
    s->running = 0;
    return NULL;
}

int main(void) {
    strcpy(sec_pre.name, "pre");
    strcpy(sec_post.name, "post");
    for (int t = 0; t < MAXT; t++) snprintf(sec_thr[t].name, sizeof sec_thr[t].name, "thread %d", t);
    signal(SIGABRT, on_abort);

    char *line = NULL;
    size_t cap = 0;
    ssize_t got;
    section_t *cur = &sec_pre;
    while ((got = getline(&line, &cap, stdin)) > 0) {
        if (got && line[got - 1] == '\n') line[got - 1] = 0;
        if (!line[0]) continue;
        if (!strncmp(line, "threads ", 8)) {
            nthreads = atoi(line + 8);
            if (nthreads < 0 || nthreads > MAXT) return 2;
            continue;
        }
        if (!strncmp(line, "begin ", 6)) {
            if (!strcmp(line + 6, "pre")) cur = &sec_pre;
            else if (!strcmp(line + 6, "post")) cur = &sec_post;
            else if (!strncmp(line + 6, "thread ", 7)) {
                int t = atoi(line + 13);
                if (t < 0 || t >= MAXT) return 2;
                if (t >= nthreads) nthreads = t + 1;
                cur = &sec_thr[t];
            } else return 2;
            continue;
        }
        if (!strcmp(line, "end")) {
            cur = &sec_pre;
            continue;
        }
        add_line(cur, strdup(line));
    }
    free(line);

    run_section(&sec_pre);
    pthread_t th[MAXT];
    for (int t = 0; t < nthreads; t++)
        if (pthread_create(&th[t], NULL, run_section, &sec_thr[t])) return 3;
    for (int t = 0; t < nthreads; t++) pthread_join(th[t], NULL);
    run_section(&sec_post);

    dump_all();

    /* the driver's own storage: input buffers that were not clobbered, script text, output.
       Dendrograms still live are deliberately NOT freed here (a script that forgets one shows
       up as a leak, as it should). */
    for (int h = 0; h < MAXH; h++) {
        if (slots[h].input) free(slots[h].input);
        slots[h].input = NULL;
        slots[h].d = NULL; /* forget, do not free: whatever is still allocated is now unreachable */
    }
    section_t *all[MAXT + 2];
    int na = 0;
    all[na++] = &sec_pre;
    for (int t = 0; t < nthreads; t++) all[na++] = &sec_thr[t];
    all[na++] = &sec_post;
    for (int i = 0; i < na; i++) {
        for (size_t k = 0; k < all[i]->nlines; k++) free(all[i]->lines[k]);
        free(all[i]->lines);
        free(all[i]->out);
    }
    return 0;
}
