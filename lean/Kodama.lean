-- This module serves as the root of the `Kodama` library.
-- Import modules here that should be built as part of the library.
import Kodama.Basic
