import Kodama.DriverCApi
/-! Separate driver executable for the C-API ops (C15/C16), so that a change in kodama-capi that the
translator cannot read only affects the checks that depend on `Generated/CApi.lean`. -/
partial def loopC (h : IO.FS.Stream) (out : IO.FS.Stream) (s : Kodama.CApiState) : IO Unit := do
  let line ← h.getLine
  if line.isEmpty then return ()
  match line.trimAscii.toString.splitOn " " with
  | "capi" :: rest =>
    let (s', o) := Kodama.stepCApi s rest
    out.putStrLn o
    loopC h out s'
  | _ =>
    out.putStrLn "bad-op"
    loopC h out s

def main : IO Unit := do
  let out ← IO.getStdout
  loopC (← IO.getStdin) out {}
  out.flush
