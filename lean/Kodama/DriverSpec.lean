/-
Driver ops that evaluate SPECIFICATION predicates (not the model) on data sent by the harness — i.e. on
what the REAL crate returned:

* `spec wf <n> <c1,c2,size;…>`   `Spec.wellFormedB` (proved equivalent to `Spec.WellFormed`, the
  predicate of the C01 theorems, `Spec/WellFormedB.lean`) on a returned step list;
* `spec pair <n> <k>`            the `k`-th pair of the row-major enumeration `Spec.pairs n` (the
  specification of C07, defined by two nested ranges and no formula).
-/
import Kodama.Spec.WellFormedB
import Kodama.Spec.Pairs
namespace Kodama.DriverSpec

def parseStep (w : String) : Option (Step Unit) :=
  match w.splitOn "," with
  | [a, b, c] =>
    match a.toNat?, b.toNat?, c.toNat? with
    | some a, some b, some c => some ⟨a, b, (), c⟩
    | _, _, _ => none
  | _ => none

def parseSteps (w : String) : Option (List (Step Unit)) :=
  if w == "-" then some [] else (w.splitOn ";").mapM parseStep

def stepSpec : List String → String
  | ["wf", n, steps] =>
    match n.toNat?, parseSteps steps with
    | some n, some l => if Spec.wellFormedB n l then "ok true" else "ok false"
    | _, _ => "bad-op"
  | ["pair", n, k] =>
    match n.toNat?, k.toNat? with
    | some n, some k =>
      match (Spec.pairs n)[k]? with
      | some (i, j) => s!"ok {i} {j}"
      | none => "ok none"
    | _, _ => "bad-op"
  | _ => "bad-op"

end Kodama.DriverSpec
