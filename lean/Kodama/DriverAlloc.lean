/-
Driver side of C20: the allocation cost model as a line-protocol request.

  alloc <slot> <alg> <method> <32|64> <n> <wrapper|with|fresh> [ignored words]
    -> ok <count> <peak> <largest> <total> <frees> <scratch> caps=<c0,...,c11>

`count` allocation requests (alloc + realloc), `peak` the highest number of bytes live beyond
what the objects held on entry, `largest` the largest single request, `total` the bytes requested,
`frees` the number of frees, `scratch` the bytes of the sort's scratch buffer contained in those
numbers (0 = none), `caps` the capacities left behind (order of `Buf.all`).

`with` requests keep the capacities of their slot (one table per float width, like the `with`
requests of the clustering model), so a sequence of requests replays a history of calls on one
`LinkageState` / `Dendrogram`.  `wrapper` requests do not touch the slot; `fresh` replaces the
slot's objects by `LinkageState::new()` and `Dendrogram::new(n)` (algorithm and method ignored).
Words after the form (the harness appends input class and seed) are ignored: the prediction does
not depend on the matrix.
-/
import Kodama.Model.Alloc
import Kodama.Model.Linkage
namespace Kodama

/-- Per-slot capacities: key = (slot id, width is 32?). -/
structure AllocState where
  tab : List ((Nat × Bool) × List Nat) := []

namespace AllocState

def get (s : AllocState) (k : Nat × Bool) : Alloc.Caps :=
  match s.tab.find? (·.1 == k) with
  | some (_, l) => Alloc.Caps.ofList l
  | none => Alloc.Caps.empty

def put (s : AllocState) (k : Nat × Bool) (c : Alloc.Caps) : AllocState :=
  ⟨(k, c.toList) :: s.tab.filter (·.1 != k)⟩

end AllocState

def parseAlgA : String → Option Alg
  | "primitive" => some .primitive | "nnchain" => some .nnchain | "generic" => some .generic
  | "mst" => some .mst | "linkage" => some .linkage | _ => none

def parseWidth : String → Option Alloc.Width
  | "32" => some .f32 | "64" => some .f64 | _ => none

def fmtAlloc (w : Alloc.Width) (base : Nat) (alg : Alg) (meth : Method) (n : Nat)
    (r : Alloc.Caps × List Alloc.Ev) : String :=
  let es := r.2
  let scratch :=
    if (Alloc.relabelMethod alg meth).requiresSorting
    then Alloc.sortScratchBytes (Alloc.Buf.steps.elem w) (Alloc.normObs n - 1) else 0
  let caps := ",".intercalate (r.1.toList.map toString)
  s!"ok {Alloc.count es} {Alloc.peakFrom base es - base} {Alloc.largest es} {Alloc.total es} {Alloc.frees es} {scratch} caps={caps}"

/-- One `alloc` request (the words after `alloc`). -/
def stepAlloc (s : AllocState) (ws : List String) : AllocState × String :=
  match ws with
  | slot :: alg :: meth :: w :: n :: form :: _ =>
    match slot.toNat?, parseAlgA alg, Method.parse meth, parseWidth w, n.toNat? with
    | some slot, some alg, some meth, some w, some n =>
      if !(alg.accepts meth) then (s, "bad-op") else
      if form == "wrapper" then
        (s, fmtAlloc w 0 alg meth n (Alloc.call true Alloc.Caps.empty alg meth w n))
      else if form == "with" then
        let k := (slot, w == .f32)
        let c := s.get k
        let r := Alloc.call false c alg meth w n
        (s.put k r.1, fmtAlloc w (c.bytes w) alg meth n r)
      else if form == "fresh" then
        -- `LinkageState::new()` and `Dendrogram::new(n)` replace the slot's objects
        let d := Alloc.withCapacity (Alloc.Buf.steps.elem w) n
        let c := Alloc.Caps.empty.set .steps d.1
        (s.put (slot, w == .f32) c,
         s!"ok {Alloc.count d.2} {Alloc.peakFrom 0 d.2} {Alloc.largest d.2} {Alloc.total d.2} 0 0 caps={",".intercalate (c.toList.map toString)}")
      else (s, "bad-op")
    | _, _, _, _, _ => (s, "bad-op")
  | _ => (s, "bad-op")

end Kodama
