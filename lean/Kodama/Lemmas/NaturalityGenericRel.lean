/-
Naturality, part 9: `generic_with` under a homomorphism that need not fix `T::max_value()`
(`SentinelSafe`), observable form.  Priorities and running minima are related by `VR`; matrix,
dendrogram, `nearest`, the heap shape and the active list are identical / images as before.
-/
import Kodama.Lemmas.NaturalityHeapRel
set_option linter.unusedSectionVars false
namespace Kodama
variable {α β : Type} [Num α] [Num β]

/-! ## generic, relationally -/

/-- The state on the mapped side: everything as in `st`, `min_dists` mapped by `hd`, priorities `p'`. -/
def mkSt (hd : α → β) (st : State α) (p' : Array β) : State β :=
  ⟨st.sizes, st.active, st.minDists.map hd, st.set, st.chain, reprio p' st.queue, st.nearest⟩

@[simp] theorem mkSt_sizes (hd : α → β) (st : State α) (p' : Array β) :
    (mkSt hd st p').sizes = st.sizes := rfl
@[simp] theorem mkSt_active (hd : α → β) (st : State α) (p' : Array β) :
    (mkSt hd st p').active = st.active := rfl
@[simp] theorem mkSt_set (hd : α → β) (st : State α) (p' : Array β) :
    (mkSt hd st p').set = st.set := rfl
@[simp] theorem mkSt_queue (hd : α → β) (st : State α) (p' : Array β) :
    (mkSt hd st p').queue = reprio p' st.queue := rfl
@[simp] theorem mkSt_nearest (hd : α → β) (st : State α) (p' : Array β) :
    (mkSt hd st p').nearest = st.nearest := rfl

def StR (hd h : α → β) (st : State α) (st' : State β) : Prop :=
  ∃ p', AR h st.queue.prio p' ∧ st' = mkSt hd st p'

def IR (h : α → β) (a : Array α × Array Nat) (a' : Array β × Array Nat) : Prop :=
  AR h a.1 a'.1 ∧ a'.2 = a.2

theorem genericInitRow_rel {h : α → β} (H : OrdHom h) (chk : Bool) (M : Mat α) (n : Nat)
    (s : Array α × Array Nat) (s' : Array β × Array Nat) (row : Nat) (rs : IR h s s') :
    RelR (IR h) (genericInitRow chk M n s row) (genericInitRow chk (mapMat h M) n s' row) := by
  obtain ⟨d, nr⟩ := s
  obtain ⟨d', nr'⟩ := s'
  obtain ⟨rd, e⟩ := rs
  simp only at rd e
  subst e
  unfold genericInitRow
  simp only
  refine RelR.bind_eq h (Mat.get_nat ..) (fun v0 => ?_)
  refine RelR.bind_eq (mapPair h)
    (foldlM_nat (mapPair h) _ _ (fun acc col => ?_) _ (row + 1, v0)) (fun r => ?_)
  · refine bind_nat h _ (Mat.get_nat ..) (fun v => ?_)
    simp only [mapPair, H.lt, map_pure]
    split <;> rfl
  · simp only [mapPair]
    refine RelR.bind (aset_rel rd row (VR.of_map h r.2)) (fun dists dists' rdists => ?_)
    refine RelR.bind_same (fun nearest => ?_)
    exact RelR.pure ⟨rdists, rfl⟩

/-- `(min, nearest)` of the repair scan. -/
def LR (h : α → β) (a : α × Array Nat) (a' : β × Array Nat) : Prop := VR h a.1 a'.1 ∧ a'.2 = a.2

theorem genericRepair_rel {h : α → β} (H : OrdHom h) (S : SentinelSafe h) (hd : α → β)
    (chk : Bool) (M : Mat α) (fuel : Nat) (st : State α) (p' : Array β)
    (r : AR h st.queue.prio p') :
    RelR (StR hd h) (genericRepair chk M fuel st)
      (genericRepair chk (mapMat h M) fuel (mkSt hd st p')) := by
  induction fuel generalizing st p' with
  | zero => rfl
  | succ fuel ih =>
    unfold genericRepair
    simp only [mkSt_queue, mkSt_nearest, mkSt_active]
    refine RelR.bind_same (fun a => ?_)
    refine RelR.bind_same (fun na => ?_)
    refine RelR.bind_eq h (Mat.get_nat ..) (fun v => ?_)
    refine RelR.bind (Heap.priority_rel st.queue p' r a) (fun p pp rp => ?_)
    rw [VR.beq_cell H S v rp]
    refine RelR.ite (RelR.pure ⟨p', r, rfl⟩) ?_
    refine RelR.bind_same (fun rg => ?_)
    refine RelR.bind (foldlM_rel (LR h) _ _ (fun acc acc' x racc => ?_) _
      (Num.maxValue, st.nearest) (Num.maxValue, st.nearest) ⟨VR.max h, rfl⟩)
      (fun res res' rres => ?_)
    · obtain ⟨a1, a2⟩ := acc
      obtain ⟨a1', a2'⟩ := acc'
      obtain ⟨r1, e⟩ := racc
      simp only at r1 e
      subst e
      refine RelR.bind_eq h (Mat.get_nat ..) (fun v => ?_)
      simp only
      rw [VR.lt H S (VR.of_map h v) r1]
      refine RelR.ite ?_ (RelR.pure ⟨r1, rfl⟩)
      refine RelR.bind_same (fun nearest => ?_)
      exact RelR.pure ⟨VR.of_map h v, rfl⟩
    · obtain ⟨m1, n1⟩ := res
      obtain ⟨m1', n1'⟩ := res'
      obtain ⟨r1, e⟩ := rres
      simp only at r1 e
      subst e
      refine RelR.bind (Heap.setPriority_rel H S chk st.queue p' r a r1) (fun q1 q1' hq1 => ?_)
      obtain ⟨p1', rp1, rfl⟩ := hq1
      exact ih { st with nearest := n1', queue := q1 } p1' rp1


def SMR (hd h : α → β) (a : State α × Mat α) (a' : State β × Mat β) : Prop :=
  StR hd h a.1 a'.1 ∧ a'.2 = mapMat h a.2

/-- The `if v < priority(x) { set_priority(x, v); nearest[x] = b }` block shared by the loops. -/
theorem lower_rel {h : α → β} (H : OrdHom h) (S : SentinelSafe h) (hd : α → β) (chk : Bool)
    (st : State α) (p' : Array β) (r : AR h st.queue.prio p') (M : Mat α) (x b : Nat)
    (els : R (State α × Mat α)) (els' : R (State β × Mat β))
    (hels : RelR (SMR hd h) els els') :
    RelR (SMR hd h)
      (do
        let v ← M.get chk x b
        let p ← st.queue.priority x
        if Num.lt v p then do
          let queue ← st.queue.setPriority chk x v
          let nearest ← aset st.nearest x b
          pure ({ st with queue := queue, nearest := nearest }, M)
        else els)
      (do
        let v ← (mapMat h M).get chk x b
        let p ← (reprio p' st.queue).priority x
        if Num.lt v p then do
          let queue ← (reprio p' st.queue).setPriority chk x v
          let nearest ← aset st.nearest x b
          pure ({ mkSt hd st p' with queue := queue, nearest := nearest }, mapMat h M)
        else els') := by
  refine RelR.bind_eq h (Mat.get_nat ..) (fun v => ?_)
  refine RelR.bind (Heap.priority_rel st.queue p' r x) (fun p pp rp => ?_)
  rw [VR.lt H S (VR.of_map h v) rp]
  refine RelR.ite ?_ hels
  refine RelR.bind (Heap.setPriority_rel H S chk st.queue p' r x (VR.of_map h v))
    (fun q1 q1' hq1 => ?_)
  obtain ⟨p1', rp1, rfl⟩ := hq1
  refine RelR.bind_same (fun nearest => ?_)
  exact RelR.pure ⟨⟨p1', rp1, rfl⟩, rfl⟩

theorem genericL1_rel {h : α → β} (H : OrdHom h) (S : SentinelSafe h) (hd : α → β) (chk : Bool)
    (mode : L1Mode) (upd : Nat → α → α → R α) (upd' : Nat → β → β → R β)
    (hu : ∀ x a b, upd' x (h a) (h b) = h <$> upd x a b) (a b : Nat)
    (s : State α × Mat α) (s' : State β × Mat β) (x : Nat) (rs : SMR hd h s s') :
    RelR (SMR hd h) (genericL1 chk mode upd a b s x) (genericL1 chk mode upd' a b s' x) := by
  obtain ⟨st, M⟩ := s
  obtain ⟨st', M'⟩ := s'
  obtain ⟨⟨p', r, e1⟩, e2⟩ := rs
  simp only at r e1 e2
  subst e1 e2
  unfold genericL1
  simp only
  refine RelR.bind_eq (mapMat h) (Mat.update_nat h chk M upd upd' hu ..) (fun M => ?_)
  have fixr : RelR (SMR hd h)
      (do
        let nx ← aget st.nearest x
        if nx = a then do
          let nearest ← aset st.nearest x b
          pure ({ st with nearest := nearest }, M)
        else pure (st, M))
      (do
        let nx ← aget st.nearest x
        if nx = a then do
          let nearest ← aset st.nearest x b
          pure ({ mkSt hd st p' with nearest := nearest }, mapMat h M)
        else pure (mkSt hd st p', mapMat h M)) := by
    refine RelR.bind_same (fun nx => ?_)
    refine RelR.ite ?_ (RelR.pure ⟨⟨p', r, rfl⟩, rfl⟩)
    refine RelR.bind_same (fun nearest => ?_)
    exact RelR.pure ⟨⟨p', r, rfl⟩, rfl⟩
  cases mode
  · exact fixr
  · exact lower_rel H S hd chk st p' r M x b _ _ fixr

theorem genericL2_rel {h : α → β} (H : OrdHom h) (S : SentinelSafe h) (hd : α → β) (chk : Bool)
    (track : Bool) (upd : Nat → α → α → R α) (upd' : Nat → β → β → R β)
    (hu : ∀ x a b, upd' x (h a) (h b) = h <$> upd x a b) (a b : Nat)
    (s : State α × Mat α) (s' : State β × Mat β) (x : Nat) (rs : SMR hd h s s') :
    RelR (SMR hd h) (genericL2 chk track upd a b s x) (genericL2 chk track upd' a b s' x) := by
  obtain ⟨st, M⟩ := s
  obtain ⟨st', M'⟩ := s'
  obtain ⟨⟨p', r, e1⟩, e2⟩ := rs
  simp only at r e1 e2
  subst e1 e2
  unfold genericL2
  simp only
  refine RelR.bind_eq (mapMat h) (Mat.update_nat h chk M upd upd' hu ..) (fun M => ?_)
  refine RelR.ite (RelR.pure ⟨⟨p', r, rfl⟩, rfl⟩) ?_
  exact lower_rel H S hd chk st p' r M x b _ _ (RelR.pure ⟨⟨p', r, rfl⟩, rfl⟩)

def SMmR (hd h : α → β) (track : Bool) (a : State α × Mat α × α) (a' : State β × Mat β × β) :
    Prop :=
  StR hd h a.1 a'.1 ∧ a'.2.1 = mapMat h a.2.1 ∧ (track = true → VR h a.2.2 a'.2.2)

theorem genericL3_rel {h : α → β} (H : OrdHom h) (S : SentinelSafe h) (hd : α → β) (chk : Bool)
    (track : Bool) (upd : Nat → α → α → R α) (upd' : Nat → β → β → R β)
    (hu : ∀ x a b, upd' x (h a) (h b) = h <$> upd x a b) (a b : Nat)
    (s : State α × Mat α × α) (s' : State β × Mat β × β) (x : Nat) (rs : SMmR hd h track s s') :
    RelR (SMmR hd h track) (genericL3 chk track upd a b s x) (genericL3 chk track upd' a b s' x) := by
  obtain ⟨st, M, min⟩ := s
  obtain ⟨st', M', min'⟩ := s'
  obtain ⟨⟨p', r, e1⟩, e2, rmin⟩ := rs
  simp only at r e1 e2 rmin
  subst e1 e2
  unfold genericL3
  simp only
  refine RelR.bind_eq (mapMat h) (Mat.update_nat h chk M upd upd' hu ..) (fun M => ?_)
  cases track
  · exact RelR.pure ⟨⟨p', r, rfl⟩, rfl, fun e => by cases e⟩
  · have rmin := rmin rfl
    simp only [Bool.not_true, Bool.false_eq_true, if_false, mkSt_queue, mkSt_nearest]
    refine RelR.bind_eq h (Mat.get_nat ..) (fun v => ?_)
    rw [VR.lt H S (VR.of_map h v) rmin]
    refine RelR.ite ?_ (RelR.pure ⟨⟨p', r, rfl⟩, rfl, fun _ => rmin⟩)
    refine RelR.bind (Heap.setPriority_rel H S chk st.queue p' r b (VR.of_map h v))
      (fun q1 q1' hq1 => ?_)
    obtain ⟨p1', rp1, rfl⟩ := hq1
    refine RelR.bind_same (fun nearest => ?_)
    exact RelR.pure ⟨⟨p1', rp1, rfl⟩, rfl, fun _ => VR.of_map h v⟩


theorem genericUpdate_rel {h : α → β} (H : OrdHom h) (S : SentinelSafe h) {m : Method}
    (U : UpdHom m h) (hd : α → β) (chk : Bool) (st : State α) (p' : Array β)
    (r : AR h st.queue.prio p') (a b : Nat) (M : Mat α) :
    RelR (SMR hd h) (genericUpdate chk m st a b M)
      (genericUpdate chk m (mkSt hd st p') a b (mapMat h M)) := by
  unfold genericUpdate
  cases m <;> simp only [mkSt_sizes, mkSt_active, tracksPriorities, l1Mode, ↓reduceIte,
    Bool.false_eq_true]
  all_goals
    refine RelR.bind_same (fun sa => ?_)
    refine RelR.bind_same (fun sb => ?_)
    first
      | refine RelR.bind_eq h (Mat.get_nat ..) (fun dist => ?_)
        have hu := updFn_nat U st.sizes sa sb dist
      | refine RelR.bind_eq (fun _ => (Num.infinity : β)) rfl (fun dist => ?_)
        have hu := updFn_nat' U rfl st.sizes sa sb dist (Num.infinity : β)
    refine RelR.bind_same (fun r1 => ?_)
    refine RelR.bind (foldlM_rel (SMR hd h) _ _
      (fun s s' x rs => genericL1_rel H S hd chk _ _ _ hu a b s s' x rs) _ (st, M)
      (mkSt hd st p', mapMat h M) ⟨⟨p', r, rfl⟩, rfl⟩) (fun s1 s1' rs1 => ?_)
    obtain ⟨st1, M1⟩ := s1
    obtain ⟨st1', M1'⟩ := s1'
    obtain ⟨⟨p1', rp1, e1⟩, e2⟩ := rs1
    simp only at rp1 e1 e2
    subst e1 e2
    simp only [mkSt_active]
    refine RelR.bind_same (fun r2 => ?_)
    refine RelR.bind (foldlM_rel (SMR hd h) _ _
      (fun s s' x rs => genericL2_rel H S hd chk _ _ _ hu a b s s' x rs) _ (st1, M1)
      (mkSt hd st1 p1', mapMat h M1) ⟨⟨p1', rp1, rfl⟩, rfl⟩) (fun s2 s2' rs2 => ?_)
    obtain ⟨st2, M2⟩ := s2
    obtain ⟨st2', M2'⟩ := s2'
    obtain ⟨⟨p2', rp2, e1⟩, e2⟩ := rs2
    simp only at rp2 e1 e2
    subst e1 e2
    simp only [mkSt_active, mkSt_queue]
    first
      | refine RelR.bind (Heap.priority_rel st2.queue p2' rp2 b) (fun min min' rmin => ?_)
        refine RelR.bind_same (fun r3 => ?_)
        refine RelR.bind (foldlM_rel (SMmR hd h true) _ _
          (fun s s' x rs => genericL3_rel H S hd chk true _ _ hu a b s s' x rs) _ (st2, M2, min)
          (mkSt hd st2 p2', mapMat h M2, min') ⟨⟨p2', rp2, rfl⟩, rfl, fun _ => rmin⟩)
          (fun s3 s3' rs3 => ?_)
        exact RelR.pure ⟨rs3.1, rs3.2.1⟩
      | refine RelR.bind_eq (fun _ => (Num.infinity : β)) rfl (fun min => ?_)
        refine RelR.bind_same (fun r3 => ?_)
        refine RelR.bind (foldlM_rel (SMmR hd h false) _ _
          (fun s s' x rs => genericL3_rel H S hd chk false _ _ hu a b s s' x rs) _ (st2, M2, min)
          (mkSt hd st2 p2', mapMat h M2, Num.infinity)
          ⟨⟨p2', rp2, rfl⟩, rfl, fun e => by cases e⟩)
          (fun s3 s3' rs3 => ?_)
        exact RelR.pure ⟨rs3.1, rs3.2.1⟩

theorem State.merge_rel (hd h : α → β) (chk : Bool) (st : State α) (p' : Array β)
    (dend : Dendrogram α) (c1 c2 : Nat) (d : α) :
    RelR (fun r r' => r.1.queue = st.queue ∧ r' = (mkSt hd r.1 p', mapDend h r.2))
      (st.merge chk dend c1 c2 d) ((mkSt hd st p').merge chk (mapDend h dend) c1 c2 (h d)) := by
  unfold State.merge
  simp only [mkSt_sizes, mkSt_active]
  refine RelR.bind_same (fun s1 => ?_)
  refine RelR.bind_same (fun s2 => ?_)
  refine RelR.bind_same (fun sum => ?_)
  refine RelR.bind_same (fun sizes => ?_)
  refine RelR.bind_same (fun active => ?_)
  rw [Step.new_nat]
  refine RelR.bind_eq (mapDend h) (Dendrogram.push_nat ..) (fun dend => ?_)
  exact RelR.pure ⟨rfl, rfl⟩

def TR (hd h : α → β) (a : State α × Dendrogram α × Mat α) (a' : State β × Dendrogram β × Mat β) :
    Prop :=
  StR hd h a.1 a'.1 ∧ a'.2.1 = mapDend h a.2.1 ∧ a'.2.2 = mapMat h a.2.2

theorem genericIter_rel {h : α → β} (H : OrdHom h) (S : SentinelSafe h) {m : Method}
    (U : UpdHom m h) (hd : α → β) (chk : Bool)
    (s : State α × Dendrogram α × Mat α) (s' : State β × Dendrogram β × Mat β)
    (rs : TR hd h s s') :
    RelR (TR hd h) (genericIter chk m s) (genericIter chk m s') := by
  obtain ⟨st, dend, M⟩ := s
  obtain ⟨st', dend', M'⟩ := s'
  obtain ⟨⟨p', r, e1⟩, e2, e3⟩ := rs
  simp only at r e1 e2 e3
  subst e1 e2 e3
  unfold genericIter
  simp only [mapMat_n]
  refine RelR.bind (genericRepair_rel H S hd chk M _ st p' r) (fun st1 st1' rst1 => ?_)
  obtain ⟨p1', rp1, rfl⟩ := rst1
  simp only [mkSt_queue, mkSt_nearest]
  refine RelR.bind (Heap.pop_rel H S chk st1.queue p1' rp1) (fun po po' rpo => ?_)
  obtain ⟨oa, q2⟩ := po
  obtain ⟨oa', q2'⟩ := po'
  obtain ⟨e1, e2, e3⟩ := rpo
  simp only at e1 e2 e3
  subst e1 e3
  refine RelR.bind_same (fun a => ?_)
  refine RelR.bind_same (fun b => ?_)
  refine RelR.bind_eq h (Mat.get_nat ..) (fun dist => ?_)
  refine RelR.bind (genericUpdate_rel H S U hd chk { st1 with queue := q2 } p1' (e2 ▸ rp1) a b M)
    (fun sm sm' rsm => ?_)
  obtain ⟨st3, M3⟩ := sm
  obtain ⟨st3', M3'⟩ := sm'
  obtain ⟨⟨p3', rp3, e1⟩, e2⟩ := rsm
  simp only at rp3 e1 e2
  subst e1 e2
  refine RelR.bind (State.merge_rel hd h chk st3 p3' dend a b dist) (fun mr mr' rmr => ?_)
  obtain ⟨e1, rfl⟩ := rmr
  exact RelR.pure ⟨⟨p3', e1 ▸ rp3, rfl⟩, rfl, rfl⟩


theorem AR.replicate_max (h : α → β) (n : Nat) :
    AR h (Array.replicate n (Num.maxValue : α)) (Array.replicate n (Num.maxValue : β)) :=
  ⟨by simp, fun i h1 h2 => by simp only [Array.getElem_replicate]; exact VR.max h⟩

/-- Dendrogram and matrix of the results are images; the states are unrelated here. -/
def OutR (h h₂ : α → β) (r : State α × Dendrogram α × Mat α) (r' : State β × Dendrogram β × Mat β) :
    Prop :=
  r'.2.1 = mapDend h r.2.1 ∧ r'.2.2 = mapMat h₂ r.2.2

theorem genericWith_rel {h h₂ : α → β} {m : Method} (H : OrdHom h₂) (S : SentinelSafe h₂)
    (U : UpdHom m h₂) (Q : SqHom m h h₂) (chk : Bool) (st : State α) (st' : State β)
    (d : Dendrogram α) (d' : Dendrogram β) (data : Array α) (n : Nat) :
    RelR (OutR h h₂) (genericWith chk m st d data n) (genericWith chk m st' d' (data.map h) n) := by
  unfold genericWith
  simp only [squareData_nat m Q.sq Q.same]
  refine RelR.bind_eq (mapMat h₂) (Mat.new_nat ..) (fun M => ?_)
  simp only [mapMat_n, dendrogramReset_eq, State.reset_eq_fresh]
  split
  · exact RelR.pure ⟨(mapDend_new h _).symm, rfl⟩
  · let hd : α → β := fun _ => Num.infinity
    have e0 : (State.fresh M.n : State β)
        = mkSt hd (State.fresh M.n : State α) (Array.replicate M.n Num.maxValue) := by
      simp [State.fresh, mkSt, reprio, Heap.fresh, hd]
    rw [e0, ← mapDend_new h₂]
    simp only [mkSt_queue, mkSt_nearest, reprio_prio, heapReset_eq_fresh]
    have r0 : AR h₂ (State.fresh M.n : State α).queue.prio (Array.replicate M.n Num.maxValue) :=
      AR.replicate_max h₂ M.n
    refine RelR.bind (foldlM_rel (IR h₂) _ _
      (fun s s' row rs => genericInitRow_rel H chk M M.n s s' row rs) _ (_, _) (_, _) ⟨?_, rfl⟩)
      (fun init init' rinit => ?_)
    · have : (State.fresh M.n : State α).queue.prio.size = M.n := by
        simp [State.fresh, Heap.fresh]
      simp only [this, Heap.fresh, Array.size_replicate]
      exact AR.replicate_max h₂ _
    obtain ⟨i1, i2⟩ := init
    obtain ⟨i1', i2'⟩ := init'
    obtain ⟨ri, e⟩ := rinit
    simp only at ri e
    subst e
    refine RelR.bind (Heap.heapifyWith_rel H S chk (State.fresh M.n : State α).queue _
      (by simp [State.fresh, Heap.fresh]) i1 i1' ri) (fun q q' rq => ?_)
    obtain ⟨p1', rp1, rfl⟩ := rq
    refine RelR.bind (iterM_rel (TR hd h₂) _ _
      (fun s s' rs => genericIter_rel H S U hd chk s s' rs) _
      ({ (State.fresh M.n : State α) with queue := q, nearest := i2' }, Dendrogram.new M.n, M)
      (_, _, _) ⟨⟨p1', rp1, rfl⟩, rfl, rfl⟩) (fun s s' rs => ?_)
    obtain ⟨st1, d1, M1⟩ := s
    obtain ⟨st1', d1', M1'⟩ := s'
    obtain ⟨⟨p2', rp2, e1⟩, e2, e3⟩ := rs
    simp only at rp2 e1 e2 e3
    subst e1 e2 e3
    simp only [mkSt_set]
    refine RelR.bind_eq (fun r : UF × Dendrogram α => (r.1, mapDend h₂ r.2))
      (relabel_nat H _ _ _) (fun r => ?_)
    exact RelR.pure ⟨sqrtSteps_nat m Q.sqrt Q.same r.2, rfl⟩

theorem RelR.out_eq {h h₂ : α → β} {e : R (State α × Dendrogram α × Mat α)}
    {e' : R (State β × Dendrogram β × Mat β)} (r : RelR (OutR h h₂) e e') :
    out <$> e' = mapOut h h₂ <$> (out <$> e) := by
  cases e with
  | error p =>
    cases e' with
    | error p' => cases r; rfl
    | ok a' => exact r.elim
  | ok a =>
    cases e' with
    | error p' => exact r.elim
    | ok a' =>
      obtain ⟨r1, r2⟩ := r
      simp only [map_ok', out, mapOut, r1, r2]

end Kodama
