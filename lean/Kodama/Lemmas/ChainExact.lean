/-
In EXACT arithmetic (a linearly ordered field `K` whose `Num K` instance computes the field
operations — `FieldLaws K` — and has no NaN) every one of the five chain methods is `ChainReducible`,
and `<` satisfies `OrderLaws`.  So over such a `K` (e.g. `fieldNum ℚ`) the nnchain theorems hold for
average / weighted / Ward too.  IEEE floats do NOT satisfy `FieldLaws` (and `ChainReducible` is false
for them for the unguarded weighted), which is why it stays a hypothesis in the float-facing statements.
For average and Ward the clamps of the repaired `method::average` / `method::ward` are no-ops here
(`FieldLaws.average_eq_mean`, `Lemmas/AverageExact.lean`; `FieldLaws.ward_eq_formula`,
`Lemmas/WardExact.lean`) and make `ChainReducible α .average` / `.ward` theorems for every ordered
number type (`chainReducible_average`, `chainReducible_ward`, `Lemmas/ChainIter.lean`).
-/
import Kodama.Lemmas.ChainIter
import Kodama.Lemmas.FieldNum
import Kodama.Lemmas.AverageExact
import Kodama.Lemmas.WardExact
import Mathlib.Tactic.Ring
import Mathlib.Tactic.Linarith
namespace Kodama
variable {K : Type} [Field K] [LinearOrder K] [IsStrictOrderedRing K] [Num K]

omit [IsStrictOrderedRing K] in
theorem orderLaws_of_fieldLaws (F : FieldLaws K) : OrderLaws K where
  asymm := by
    intro a b h
    rw [F.lt] at h ⊢
    simp only [decide_eq_true_eq, decide_eq_false_iff_not] at h ⊢
    exact lt_asymm h
  cotrans := by
    intro a b c _ h
    rw [F.lt] at h
    rw [F.lt, F.lt]
    simp only [decide_eq_true_eq] at h ⊢
    rcases lt_or_ge a b with h1 | h1
    · exact Or.inl h1
    · exact Or.inr (lt_of_le_of_lt h1 h)

omit [IsStrictOrderedRing K] in
private theorem le_of_lt_false (F : FieldLaws K) {a b : K} (h : Num.lt a b = false) : b ≤ a := by
  rw [F.lt] at h
  simpa using h

omit [IsStrictOrderedRing K] in
private theorem lt_false_of_le (F : FieldLaws K) {a b : K} (h : b ≤ a) : Num.lt a b = false := by
  rw [F.lt]
  simpa using h

theorem average_ge (F : FieldLaws K) (sa sb : Nat) (hsa : 0 < sa) (va vb t : K)
    (h1 : t ≤ va) (h2 : t ≤ vb) : t ≤ Gen.average va vb sa sb := by
  rw [F.average_eq_mean va vb sa sb (by omega)]
  have ha : (0 : K) < (sa : K) := by exact_mod_cast hsa
  have hb : (0 : K) ≤ (sb : K) := by exact_mod_cast Nat.zero_le sb
  have hpos : (0 : K) < (sa : K) + (sb : K) := by linarith
  rw [le_div_iff₀ hpos]
  have e1 : (sa : K) * t ≤ (sa : K) * va := mul_le_mul_of_nonneg_left h1 (le_of_lt ha)
  have e2 : (sb : K) * t ≤ (sb : K) * vb := mul_le_mul_of_nonneg_left h2 hb
  have : t * ((sa : K) + (sb : K)) = (sa : K) * t + (sb : K) * t := by ring
  linarith

theorem weighted_ge (F : FieldLaws K) (va vb t : K) (h1 : t ≤ va) (h2 : t ≤ vb) :
    t ≤ Gen.weighted va vb := by
  simp only [Gen.weighted, F.add, F.mul, F.half]
  linarith

theorem ward_ge (F : FieldLaws K) (sa sb sx : Nat) (hsa : 0 < sa) (va vb dab t : K)
    (h0 : dab ≤ t) (h1 : t ≤ va) (h2 : t ≤ vb) : t ≤ Gen.ward va vb dab sa sb sx := by
  rw [F.ward_eq_formula_pos va vb dab sa sb sx hsa]
  have ha : (0 : K) < (sa : K) := by exact_mod_cast hsa
  have hb : (0 : K) ≤ (sb : K) := by exact_mod_cast Nat.zero_le sb
  have hx : (0 : K) ≤ (sx : K) := by exact_mod_cast Nat.zero_le sx
  have hpos : (0 : K) < (sa : K) + (sb : K) + (sx : K) := by linarith
  rw [le_div_iff₀ hpos]
  have e1 : ((sx : K) + (sa : K)) * t ≤ ((sx : K) + (sa : K)) * va :=
    mul_le_mul_of_nonneg_left h1 (by linarith)
  have e2 : ((sx : K) + (sb : K)) * t ≤ ((sx : K) + (sb : K)) * vb :=
    mul_le_mul_of_nonneg_left h2 (by linarith)
  have e3 : (sx : K) * dab ≤ (sx : K) * t := mul_le_mul_of_nonneg_left h0 hx
  have : t * ((sa : K) + (sb : K) + (sx : K))
      = ((sx : K) + (sa : K)) * t + ((sx : K) + (sb : K)) * t - (sx : K) * t := by ring
  linarith

/-- In exact arithmetic without NaN all five chain methods are reducible. -/
theorem chainReducible_exact (F : FieldLaws K) (hnan : ∀ x : K, Num.isNaN x = false)
    (m : MethodChain) : ChainReducible K m := by
  cases m with
  | single => exact chainReducible_single
  | complete => exact chainReducible_complete
  | average =>
    refine ⟨?_, fun _ _ _ _ _ _ _ v _ _ _ _ _ _ _ _ => hnan v⟩
    intro sizes sa sb dab x va vb v t hsa _ _ _ _ _ _ h1 h2 h
    simp only [chainUpdFn, updFn, pure, Except.pure, Except.ok.injEq] at h
    subst h
    exact lt_false_of_le F (average_ge F sa sb hsa va vb t (le_of_lt_false F h1) (le_of_lt_false F h2))
  | weighted =>
    refine ⟨?_, fun _ _ _ _ _ _ _ v _ _ _ _ _ _ _ _ => hnan v⟩
    intro sizes sa sb dab x va vb v t _ _ _ _ _ _ _ h1 h2 h
    simp only [chainUpdFn, updFn, pure, Except.pure, Except.ok.injEq] at h
    subst h
    exact lt_false_of_le F (weighted_ge F va vb t (le_of_lt_false F h1) (le_of_lt_false F h2))
  | ward =>
    refine ⟨?_, fun _ _ _ _ _ _ _ v _ _ _ _ _ _ _ _ => hnan v⟩
    intro sizes sa sb dab x va vb v t hsa _ _ _ _ _ h0 h1 h2 h
    simp only [chainUpdFn, updFn, bind_ok, pure_ok] at h
    obtain ⟨sx, _, rfl⟩ := h
    exact lt_false_of_le F
      (ward_ge F sa sb sx hsa va vb dab t (le_of_lt_false F h0) (le_of_lt_false F h1)
        (le_of_lt_false F h2))

/-- Non-vacuity: the rationals with their field operations. -/
example : @ChainReducible ℚ (fieldNum ℚ) .ward :=
  @chainReducible_exact ℚ _ _ _ (fieldNum ℚ) (fieldNum_laws ℚ) (fun _ => rfl) .ward

end Kodama
