/-
Uniqueness of the greedy run from a common state when one of the two runs never meets a tie.
No number law is used: the strict minimum of run 1 (`TieFreeFrom`) and the "nothing strictly
closer" clause of run 2 (`Admissible`) contradict each other directly unless the pairs coincide.
-/
import Kodama.Lemmas.SpecReplay
namespace Kodama.Spec
variable {α : Type} [Num α]

/-- Two admissible steps in the same state, the first being the strict minimum, are equal. -/
theorem admissible_unique {m : Method} {s : NState α} {st1 st2 : Step α}
    (h1 : Admissible m s st1) (h2 : Admissible m s st2)
    (ht : ∀ x ∈ s.live, ∀ y ∈ s.live, x < y → (x, y) ≠ (st1.c1, st1.c2) →
        Num.lt (s.D st1.c1 st1.c2) (s.D x y) = true) :
    st1 = st2 := by
  obtain ⟨a1, b1, o1, _, d1, z1⟩ := h1
  obtain ⟨a2, b2, o2, min2, d2, z2⟩ := h2
  have hp : (st2.c1, st2.c2) = (st1.c1, st1.c2) := by
    by_cases hp : (st2.c1, st2.c2) = (st1.c1, st1.c2)
    · exact hp
    · have ht' := ht st2.c1 a2 st2.c2 b2 o2 hp
      have hm := min2 st1.c1 a1 st1.c2 b1 (by omega)
      rw [hm] at ht'; cases ht'
  have e1 : st2.c1 = st1.c1 := congrArg Prod.fst hp
  have e2 : st2.c2 = st1.c2 := congrArg Prod.snd hp
  cases st1; cases st2
  simp only at e1 e2 d1 d2 z1 z2
  subst e1 e2
  simp [d1, d2, z1, z2]

/-- Uniqueness from an arbitrary common state. -/
theorem greedyFrom_unique {m : Method} (s : NState α) (l1 l2 : List (Step α))
    (hlen : l1.length = l2.length)
    (h1 : GreedyFrom m s l1) (h2 : GreedyFrom m s l2) (ht : TieFreeFrom m s l1) : l1 = l2 := by
  induction l1 generalizing s l2 with
  | nil =>
    cases l2 with
    | nil => rfl
    | cons _ _ => simp at hlen
  | cons st1 r1 ih =>
    cases l2 with
    | nil => simp at hlen
    | cons st2 r2 =>
      obtain ⟨a1, g1⟩ := h1
      obtain ⟨a2, g2⟩ := h2
      obtain ⟨t1, tr⟩ := ht
      have e := admissible_unique a1 a2 t1
      subst e
      rw [ih _ r2 (by simpa using hlen) g1 g2 tr]

end Kodama.Spec
