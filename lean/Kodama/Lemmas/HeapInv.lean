/-
Invariants of the indexed binary min-heap `Heap` (model of `LinkageHeap`, src/queue.rs).
Part 1: well-formedness `WF`, keys, heap order `Ordered`, `fresh`, `swap`, `priority`, `peek_min`.

All lookups are stated through `a[i]?` so that no dependent index proofs appear; bracket-form
corollaries are at the end of `HeapInvOps.lean`.
-/
import Kodama.Model.Heap
import Kodama.Laws
import Kodama.Lemmas.Except
set_option linter.unusedSectionVars false
set_option linter.unusedSimpArgs false
namespace Kodama
namespace Heap
variable {α : Type} [Num α]

/-- `o` is a live observation: it sits somewhere in the `heap` array. -/
def Live (h : Heap α) (o : Nat) : Prop := ∃ i : Nat, h.heap[i]? = some o

/-- Structural well-formedness.  `N = h.prio.size` is the number of observations. -/
structure WF (h : Heap α) : Prop where
  obs_size : h.obs.size = h.prio.size
  removed_size : h.removed.size = h.prio.size
  heap_le : h.heap.size ≤ h.prio.size
  /-- `obs` is the inverse of `heap` on the live part (implies `heap[i] < N` and no duplicates). -/
  heap_obs : ∀ i o : Nat, h.heap[i]? = some o → h.obs[o]? = some i
  /-- `removed[o] = false` exactly for the live observations. -/
  removed_iff : ∀ o : Nat, o < h.prio.size → (h.removed[o]? = some false ↔ h.Live o)
  /-- `2*i+2` never overflows a `usize`. -/
  small : h.prio.size < 2 ^ 62

/-- The priority stored at heap position `i` (total: junk `maxValue` out of range). -/
def key (h : Heap α) (i : Nat) : α := (h.prio[(h.heap[i]?).getD 0]?).getD Num.maxValue

/-- Heap order: every non-root node is `≥` its parent (`¬ child < parent`). -/
def Ordered (h : Heap α) : Prop :=
  ∀ i, 1 ≤ i → i < h.heap.size → Num.lt (h.key i) (h.key ((i - 1) / 2)) = false

/-- All keys at live positions are non-NaN. -/
def KeysOK (h : Heap α) : Prop := ∀ i, i < h.heap.size → Num.isNaN (h.key i) = false

/-- All priorities of live observations are non-NaN. -/
def NoNaN (h : Heap α) : Prop :=
  ∀ o a, h.Live o → h.prio[o]? = some a → Num.isNaN a = false

theorem live_iff_mem (h : Heap α) (o : Nat) : h.Live o ↔ o ∈ h.heap := by
  unfold Live
  rw [Array.mem_iff_getElem?]

namespace WF
variable {h : Heap α} (hw : WF h)
include hw

theorem lt_of_heap {i o : Nat} (hi : h.heap[i]? = some o) : o < h.prio.size := by
  have h1 := hw.heap_obs i o hi
  have h2 : o < h.obs.size := by
    have := Array.getElem?_eq_some_iff.mp h1
    exact this.1
  rw [← hw.obs_size]; exact h2

theorem pos_lt {i o : Nat} (hi : h.heap[i]? = some o) : i < h.heap.size :=
  (Array.getElem?_eq_some_iff.mp hi).1

theorem heap_inj {i j o : Nat} (hi : h.heap[i]? = some o) (hj : h.heap[j]? = some o) : i = j := by
  have h1 := hw.heap_obs i o hi
  have h2 := hw.heap_obs j o hj
  rw [h1] at h2; exact Option.some.inj h2

theorem exists_heap {i : Nat} (hi : i < h.heap.size) : ∃ o, h.heap[i]? = some o :=
  ⟨h.heap[i], by simp [hi]⟩

theorem exists_prio {i o : Nat} (hi : h.heap[i]? = some o) : ∃ a, h.prio[o]? = some a := by
  have := hw.lt_of_heap hi
  exact ⟨h.prio[o], by simp [this]⟩

theorem key_eq {i o : Nat} {a : α} (hi : h.heap[i]? = some o) (ha : h.prio[o]? = some a) :
    h.key i = a := by
  simp [key, hi, ha]

theorem live_lt {o : Nat} (hl : h.Live o) : o < h.prio.size := by
  obtain ⟨i, hi⟩ := hl; exact hw.lt_of_heap hi

theorem live_obs {o : Nat} (hl : h.Live o) : ∃ i, h.obs[o]? = some i ∧ h.heap[i]? = some o := by
  obtain ⟨i, hi⟩ := hl; exact ⟨i, hw.heap_obs i o hi, hi⟩

theorem keysOK_of_noNaN (hn : h.NoNaN) : h.KeysOK := by
  intro i hi
  obtain ⟨o, ho⟩ := hw.exists_heap hi
  obtain ⟨a, ha⟩ := hw.exists_prio ho
  rw [hw.key_eq ho ha]
  exact hn o a ⟨i, ho⟩ ha

theorem noNaN_of_keysOK (hk : h.KeysOK) : h.NoNaN := by
  intro o a ⟨i, hi⟩ ha
  have := hk i (hw.pos_lt hi)
  rwa [hw.key_eq hi ha] at this

end WF

/-! ### `fresh` -/

theorem fresh_WF (n : Nat) (hn : n < 2 ^ 62) : WF (fresh n : Heap α) := by
  refine ⟨by simp [fresh], by simp [fresh], by simp [fresh], ?_, ?_, by simpa [fresh] using hn⟩
  · intro i o hi
    simp only [fresh] at hi ⊢
    rw [Array.getElem?_eq_some_iff] at hi ⊢
    obtain ⟨h1, h2⟩ := hi
    simp at h1 h2
    subst h2
    exact ⟨by simpa using h1, by simp⟩
  · intro o ho
    simp only [fresh, Array.size_replicate] at ho
    constructor
    · intro _
      exact ⟨o, by simp [fresh, ho]⟩
    · intro _
      simp [fresh, ho]

theorem fresh_prio (n : Nat) : (fresh n : Heap α).prio = Array.replicate n Num.maxValue := rfl

theorem fresh_live (n o : Nat) : (fresh n : Heap α).Live o ↔ o < n := by
  unfold Live fresh
  constructor
  · rintro ⟨i, hi⟩
    rw [Array.getElem?_eq_some_iff] at hi
    obtain ⟨h1, h2⟩ := hi
    simp at h1 h2; omega
  · intro ho; exact ⟨o, by simp [ho]⟩

theorem fresh_key (n i : Nat) (hi : i < n) : (fresh n : Heap α).key i = Num.maxValue := by
  simp [key, fresh, hi]

/-- `fresh` is ordered as soon as `maxValue < maxValue` is false (e.g. from `OrderLaws.irrefl`). -/
theorem fresh_Ordered (n : Nat) (hirr : Num.lt (Num.maxValue : α) Num.maxValue = false) :
    Ordered (fresh n : Heap α) := by
  intro i h1 h2
  have hn : i < n := by simpa [fresh] using h2
  rw [fresh_key n i hn, fresh_key n ((i - 1) / 2) (by omega)]
  exact hirr

/-! ### `swap` -/

theorem aswap_ok {β : Type} (a : Array β) (i j : Nat) (x y : β)
    (hi : a[i]? = some x) (hj : a[j]? = some y) :
    ∃ b, aswap a i j = .ok b ∧ b.size = a.size ∧
      ∀ k, b[k]? = if k = j then some x else if k = i then some y else a[k]? := by
  have hi' := Array.getElem?_eq_some_iff.mp hi
  have hj' := Array.getElem?_eq_some_iff.mp hj
  obtain ⟨hi1, hi2⟩ := hi'
  obtain ⟨hj1, hj2⟩ := hj'
  refine ⟨(a.set i y hi1).set j x (by simpa using hj1), ?_, by simp, ?_⟩
  · simp [aswap, aget, hi, hj, aset, hi1, hj1, bind, Except.bind]
    simp [hi2, hj2]
  · intro k
    simp only [Array.getElem?_set]
    by_cases h1 : k = j
    · subst h1; simp [hj1]
    · by_cases h2 : k = i
      · subst h2
        have : ¬ j = k := fun e => h1 e.symm
        simp [this, hi1, h1]
      · have e1 : ¬ j = k := fun e => h1 e.symm
        have e2 : ¬ i = k := fun e => h2 e.symm
        simp [e1, e2, h1, h2]

/-- Functional description of `swap` on two live observations (given by their positions). -/
theorem swap_spec {h : Heap α} (hw : WF h) {i j o1 o2 : Nat}
    (h1 : h.heap[i]? = some o1) (h2 : h.heap[j]? = some o2) :
    ∃ h', h.swap o1 o2 = .ok h' ∧ h'.prio = h.prio ∧ h'.removed = h.removed ∧
      h'.heap.size = h.heap.size ∧ h'.obs.size = h.obs.size ∧
      (∀ k, h'.heap[k]? = if k = j then some o1 else if k = i then some o2 else h.heap[k]?) ∧
      (∀ o, h'.obs[o]? = if o = o2 then some i else if o = o1 then some j else h.obs[o]?) := by
  have e1 := hw.heap_obs i o1 h1
  have e2 := hw.heap_obs j o2 h2
  obtain ⟨hp, hp1, hp2, hp3⟩ := aswap_ok h.heap i j o1 o2 h1 h2
  obtain ⟨ob, ob1, ob2, ob3⟩ := aswap_ok h.obs o1 o2 i j e1 e2
  refine ⟨{ h with heap := hp, obs := ob }, ?_, rfl, rfl, hp2, ob2, hp3, ob3⟩
  simp [swap, aget, e1, e2, hp1, ob1, bind, Except.bind, pure, Except.pure]

/-- The properties of a state obtained from `h` by exchanging heap positions `i` and `j`. -/
structure Swapped (h h' : Heap α) (i j : Nat) : Prop where
  prio : h'.prio = h.prio
  removed : h'.removed = h.removed
  size : h'.heap.size = h.heap.size
  wf : WF h'
  key : ∀ k, h'.key k = if k = j then h.key i else if k = i then h.key j else h.key k
  heap : ∀ k, h'.heap[k]? = if k = j then h.heap[i]? else if k = i then h.heap[j]? else h.heap[k]?
  live : ∀ o, h'.Live o ↔ h.Live o

theorem swap_swapped {h : Heap α} (hw : WF h) {i j o1 o2 : Nat}
    (h1 : h.heap[i]? = some o1) (h2 : h.heap[j]? = some o2) :
    ∃ h', h.swap o1 o2 = .ok h' ∧ Swapped h h' i j := by
  obtain ⟨h', hs, hp, hr, hsz, hosz, hh, ho⟩ := swap_spec hw h1 h2
  have hheap : ∀ k, h'.heap[k]? =
      if k = j then h.heap[i]? else if k = i then h.heap[j]? else h.heap[k]? := by
    intro k; rw [hh k, h1, h2]
  have hlive : ∀ o, h'.Live o ↔ h.Live o := by
    intro o
    constructor
    · rintro ⟨k, hk⟩
      rw [hheap k] at hk
      split at hk
      · exact ⟨i, hk⟩
      · split at hk
        · exact ⟨j, hk⟩
        · exact ⟨k, hk⟩
    · rintro ⟨k, hk⟩
      by_cases e1 : k = i
      · subst e1
        refine ⟨j, ?_⟩
        rw [hheap j]; simp [hk]
      · by_cases e2 : k = j
        · subst e2
          by_cases e3 : i = k
          · subst e3; exact absurd rfl e1
          · refine ⟨i, ?_⟩
            rw [hheap i]; simp [e3, hk]
        · refine ⟨k, ?_⟩
          rw [hheap k]; simp [e1, e2, hk]
  have hwf : WF h' := by
    refine ⟨by rw [hosz, hp, hw.obs_size], by rw [hr, hp, hw.removed_size],
      by rw [hsz, hp]; exact hw.heap_le, ?_, ?_, by rw [hp]; exact hw.small⟩
    · intro k o hk
      rw [hh k] at hk
      rw [ho o]
      by_cases e1 : k = j
      · subst e1
        simp only [if_true] at hk
        have : o1 = o := Option.some.inj hk
        subst this
        by_cases e2 : o1 = o2
        · subst e2
          have := hw.heap_inj h1 h2
          simp [this]
        · simp [e2]
      · simp only [e1, if_false] at hk
        by_cases e2 : k = i
        · subst e2
          simp only [if_true] at hk
          have : o2 = o := Option.some.inj hk
          subst this
          simp
        · simp only [e2, if_false] at hk
          have n1 : o ≠ o2 := by
            intro e; subst e; exact e1 (hw.heap_inj hk h2)
          have n2 : o ≠ o1 := by
            intro e; subst e; exact e2 (hw.heap_inj hk h1)
          simp only [n1, n2, if_false]
          exact hw.heap_obs k o hk
    · intro o hlt
      rw [hp] at hlt
      rw [hr, hlive o]
      exact hw.removed_iff o hlt
  have hkey : ∀ k, h'.key k = if k = j then h.key i else if k = i then h.key j else h.key k := by
    intro k
    unfold Heap.key
    rw [hheap k, hp]
    by_cases e1 : k = j
    · simp [e1]
    · by_cases e2 : k = i
      · subst e2
        simp [e1]
      · simp [e1, e2]
  exact ⟨h', hs, hp, hr, hsz, hwf, hkey, hheap, hlive⟩

/-- `swap` on two live observations cannot panic and keeps `WF`. -/
theorem swap_WF {h : Heap α} (hw : WF h) {o1 o2 : Nat} (l1 : h.Live o1) (l2 : h.Live o2) :
    ∃ h', h.swap o1 o2 = .ok h' ∧ WF h' ∧ h'.prio = h.prio ∧ h'.removed = h.removed ∧
      (∀ o, h'.Live o ↔ h.Live o) := by
  obtain ⟨i, hi⟩ := l1
  obtain ⟨j, hj⟩ := l2
  obtain ⟨h', hs, sw⟩ := swap_swapped hw hi hj
  exact ⟨h', hs, sw.wf, sw.prio, sw.removed, sw.live⟩

theorem Swapped.keysOK {h h' : Heap α} {i j : Nat} (sw : Swapped h h' i j)
    (hi : i < h.heap.size) (hj : j < h.heap.size) (hk : h.KeysOK) : h'.KeysOK := by
  intro k hk'
  rw [sw.size] at hk'
  rw [sw.key k]
  split
  · exact hk i hi
  · split
    · exact hk j hj
    · exact hk k hk'

/-! ### `priority`, `peek` -/

theorem priority_ok {h : Heap α} (hw : WF h) {o : Nat} (hl : h.Live o) :
    ∃ a, h.prio[o]? = some a ∧ h.priority o = .ok a := by
  have hlt := hw.live_lt hl
  have hr := (hw.removed_iff o hlt).mpr hl
  refine ⟨h.prio[o], by simp [hlt], ?_⟩
  have hp : h.prio[o]? = some h.prio[o] := by simp [hlt]
  simp [priority, aget, hr, hp, guard', bind, Except.bind]

theorem peek_live {h : Heap α} {o : Nat} (hp : h.peek = some o) : h.Live o := ⟨0, hp⟩

theorem peek_none {h : Heap α} : h.peek = none ↔ h.heap.size = 0 := by
  simp [peek]

/-- Every key is `≥` the root key. -/
theorem root_le_key (L : OrderLaws α) {h : Heap α} (ho : Ordered h) (hk : KeysOK h) :
    ∀ i, i < h.heap.size → Num.lt (h.key i) (h.key 0) = false := by
  intro i
  induction i using Nat.strongRecOn with
  | _ i ih =>
    intro hi
    by_cases h0 : i = 0
    · subst h0; exact L.irrefl _
    · have hp : (i - 1) / 2 < i := by omega
      have h1 := ih _ hp (by omega)
      have h2 := ho i (by omega) hi
      exact L.le_trans _ _ _ (hk _ (by omega)) h1 h2

/-- `peek` returns an observation of minimal priority among the live ones. -/
theorem peek_min (L : OrderLaws α) {h : Heap α} (hw : WF h) (ho : Ordered h) (hn : NoNaN h)
    {o : Nat} (hp : h.peek = some o) :
    ∀ o' a a', h.Live o' → h.prio[o]? = some a → h.prio[o']? = some a' → Num.lt a' a = false := by
  intro o' a a' ⟨i, hi⟩ ha ha'
  have := root_le_key L ho (hw.keysOK_of_noNaN hn) i (hw.pos_lt hi)
  rwa [hw.key_eq hi ha', hw.key_eq (i := 0) hp ha] at this

end Heap
end Kodama
