/-
`nnchainWith` as a whole: under `OrderLaws`, non-NaN (squared) input and `ChainReducible α m` the main
loop is total, leaves a spanning tree with non-NaN heights, and has counted at most
`7·n(n+1) − 10` index computations; `nnchainWith` IS that loop followed by `relabel` and `sqrt`.
-/
import Kodama.Lemmas.ChainIter
import Kodama.Lemmas.PrimRun
namespace Kodama
open Spec
variable {α : Type} [Num α]

/-- No entry of the array is NaN. -/
def NoNaNData (a : Array α) : Prop := ∀ (i : Nat) (h : i < a.size), Num.isNaN a[i] = false

/-- What the main loop of `nnchainWith` leaves behind. -/
structure ChainLoopResult (n : Nat) (dend : Dendrogram α) (M : Mat α) : Prop where
  obs : dend.obs = n
  steps_sz : dend.steps.size = n - 1
  raw : RawTree n (rawOf dend)
  heights : ∀ s ∈ dend.steps.toList, Num.isNaN s.d = false
  mn : M.n = n
  acc : M.acc + 10 ≤ 7 * (n * (n + 1))

theorem chainInv_init (data : Array α) (n : Nat) (h2 : 2 ≤ n) (hs : n < 2147483648)
    (hl : 2 * data.size = n * (n - 1)) (hnan : NoNaNData data) :
    ChainInv n 0 (List.range n) ({ (State.fresh n : State α) with chain := #[] })
      (Dendrogram.new n) ({ data := data, n := n, acc := 0 } : Mat α) where
  prim :=
    { rep := Active.rep_fresh n
      llen := by simp
      sizes_sz := by simp [State.fresh]
      sizes_sum := by
        unfold sumOver
        have : ∀ k, k ≤ n →
            ((List.range k).map (fun x => (State.fresh n : State α).sizes.getD x 0)).sum = k := by
          intro k
          induction k with
          | zero => intro _; rfl
          | succ k ih =>
            intro hk
            have hk' : k < n := by omega
            rw [List.range_succ, List.map_append, List.sum_append, ih (by omega)]
            simp [State.fresh, Array.getD, hk']
        exact this n (Nat.le_refl n)
      obs := rfl
      steps_sz := rfl
      mvalid := ⟨h2, hs, hl⟩
      mn := rfl
      eff := by simp [rawOf, Dendrogram.new, AllEff]
      inRange := by simp [rawOf, Dendrogram.new]
      comp := by intro x _ y _ hxy; simpa [rawOf, Dendrogram.new] using hxy }
  sizes_pos := by
    intro x hx
    have hx' : x < n := List.mem_range.mp hx
    simp [State.fresh, Array.getD, hx']
  nonan := by
    intro x hx y hy hxy
    have hx' : x < n := List.mem_range.mp hx
    have hy' : y < n := List.mem_range.mp hy
    have h1 := idxN_lt n (min x y) (max x y) (by omega) (by omega)
    have hlt : Gen.idxN n (min x y) (max x y) < data.size := by omega
    unfold Mat.dval
    simp only [Array.getD, hlt, dite_true]
    exact hnan _ hlt
  chain := by intro h; simp at h
  chain_sz := by simp
  heights := by intro s hs; simp [Dendrogram.new] at hs
  work := by simp

/-- The loop of `nnchain_with` on a valid matrix without NaN, for a reducible method. -/
theorem chainLoop_ok (L : OrderLaws α) (chk : Bool) (m : MethodChain) (hred : ChainReducible α m)
    (data : Array α) (n : Nat) (h2 : 2 ≤ n) (hs : n < 2147483648)
    (hl : 2 * data.size = n * (n - 1)) (hnan : NoNaNData data) :
    ∃ s1 : ChainSt α,
      iterM (chainIter chk m) (n - 1)
        ⟨{ (State.fresh n : State α) with chain := #[] }, Dendrogram.new n,
          { data := data, n := n, acc := 0 }⟩ = .ok s1 ∧
      ChainLoopResult n s1.dend s1.M := by
  have hinv0 := chainInv_init data n h2 hs hl hnan
  have key := iterM_ok
    (fun j (s : ChainSt α) => ∃ live, ChainInv n j live s.st s.dend s.M)
    (chainIter chk m) (n - 1) 0
    ⟨{ (State.fresh n : State α) with chain := #[] }, Dendrogram.new n,
      { data := data, n := n, acc := 0 }⟩
    (by
      intro j s hj ⟨live, hinv⟩
      obtain ⟨st, dend, M⟩ := s
      simp only [Nat.zero_add] at hinv ⊢
      obtain ⟨st', dend', M', a, b, e, _, _, _, hinv'⟩ :=
        chainIter_ok L chk m hred n j live st dend M (by omega) hinv
      exact ⟨⟨st', dend', M'⟩, e, _, hinv'⟩)
    ⟨List.range n, by simpa using hinv0⟩
  obtain ⟨s1, e, live, hinv⟩ := key
  simp only [Nat.zero_add] at hinv
  refine ⟨s1, e, ?_⟩
  have hll := hinv.prim.llen
  have hlen1 : live.length = 1 := by omega
  have hw := hinv.work
  have hcs := hinv.chain_sz
  rw [hlen1] at hw hcs
  exact
    { obs := hinv.prim.obs
      steps_sz := hinv.prim.steps_sz
      raw := ⟨by simp [rawOf, hinv.prim.steps_sz], hinv.prim.inRange, hinv.prim.eff⟩
      heights := hinv.heights
      mn := hinv.prim.mn
      acc := by omega }

/-- `nnchainWith` on a valid matrix is the (total) loop followed by `relabel` and `sqrt`. -/
theorem nnchainWith_eq (L : OrderLaws α) (chk : Bool) (m : MethodChain) (hred : ChainReducible α m)
    (st : State α) (d : Dendrogram α) (data : Array α) (n : Nat) (h2 : 2 ≤ n)
    (hs : n < 2147483648) (hl : 2 * data.size = n * (n - 1))
    (hnan : NoNaNData (squareData m.intoMethod data)) :
    ∃ s1 : ChainSt α, ChainLoopResult n s1.dend s1.M ∧
      nnchainWith chk m st d data n =
        (relabel m.intoMethod s1.st.set s1.dend >>= fun r =>
          pure ({ s1.st with set := r.1 }, sqrtSteps m.intoMethod r.2, s1.M)) := by
  have hl' : 2 * (squareData m.intoMethod data).size = n * (n - 1) := by
    rw [squareData_size]; exact hl
  obtain ⟨s1, hloop, hres⟩ :=
    chainLoop_ok L chk m hred (squareData m.intoMethod data) n h2 hs hl' hnan
  refine ⟨s1, hres, ?_⟩
  unfold nnchainWith
  simp only []
  rw [Mat.new_ok chk (squareData m.intoMethod data) n h2 hs hl']
  have hn0 : ¬ n = 0 := by omega
  simp only [bind, Except.bind, hn0, if_false, State.reset_eq_fresh, dendrogramReset_eq, hloop]

end Kodama
