/- The common tail of every `_with`: the returned dendrogram is `sqrtSteps (relabel raw)`, or empty. -/
import Kodama.Model.Linkage
import Kodama.Lemmas.Except
namespace Kodama
variable {α : Type} [Num α]

/-- What every entry point's result looks like. -/
def TailShape (m : Method) (d' : Dendrogram α) : Prop :=
  d'.steps = #[] ∨ ∃ raw uf0 uf rel, relabel m uf0 raw = .ok (uf, rel) ∧ d' = sqrtSteps m rel

theorem primitiveWith_tail (chk : Bool) (m : Method) (st : State α) (d : Dendrogram α)
    (data : Array α) (n : Nat) (st' : State α) (d' : Dendrogram α) (M' : Mat α)
    (h : primitiveWith chk m st d data n = .ok (st', d', M')) : TailShape m d' := by
  unfold primitiveWith at h
  simp only [bind_ok] at h
  obtain ⟨M, _, h⟩ := h
  split at h
  · simp only [pure_ok, Prod.mk.injEq] at h
    left; rw [← h.2.1]; rfl
  · simp only [bind_ok, pure_ok] at h
    obtain ⟨⟨st1, d1, M1⟩, _, ⟨uf, rel⟩, hrel, heq⟩ := h
    right
    refine ⟨d1, _, uf, rel, hrel, ?_⟩
    simp only [Prod.mk.injEq] at heq
    exact heq.2.1.symm

theorem genericWith_tail (chk : Bool) (m : Method) (st : State α) (d : Dendrogram α)
    (data : Array α) (n : Nat) (st' : State α) (d' : Dendrogram α) (M' : Mat α)
    (h : genericWith chk m st d data n = .ok (st', d', M')) : TailShape m d' := by
  unfold genericWith at h
  simp only [bind_ok] at h
  obtain ⟨M, _, h⟩ := h
  split at h
  · simp only [pure_ok, Prod.mk.injEq] at h
    left; rw [← h.2.1]; rfl
  · simp only [bind_ok, pure_ok] at h
    obtain ⟨_, _, _, _, ⟨st1, d1, M1⟩, _, ⟨uf, rel⟩, hrel, heq⟩ := h
    right
    refine ⟨d1, _, uf, rel, hrel, ?_⟩
    simp only [Prod.mk.injEq] at heq
    exact heq.2.1.symm

theorem mstWith_tail (chk : Bool) (st : State α) (d : Dendrogram α)
    (data : Array α) (n : Nat) (st' : State α) (d' : Dendrogram α) (M' : Mat α)
    (h : mstWith chk st d data n = .ok (st', d', M')) : TailShape .single d' := by
  unfold mstWith at h
  simp only [bind_ok] at h
  obtain ⟨M, _, h⟩ := h
  split at h
  · simp only [pure_ok, Prod.mk.injEq] at h
    left; rw [← h.2.1]; rfl
  · simp only [bind_ok, pure_ok] at h
    obtain ⟨_, _, ⟨st1, d1, M1, c1⟩, _, ⟨uf, rel⟩, hrel, heq⟩ := h
    right
    refine ⟨d1, _, uf, rel, hrel, ?_⟩
    simp only [Prod.mk.injEq] at heq
    rw [← heq.2.1]; rfl

theorem nnchainWith_tail (chk : Bool) (mc : MethodChain) (st : State α) (d : Dendrogram α)
    (data : Array α) (n : Nat) (st' : State α) (d' : Dendrogram α) (M' : Mat α)
    (h : nnchainWith chk mc st d data n = .ok (st', d', M')) : TailShape mc.intoMethod d' := by
  unfold nnchainWith at h
  simp only [bind_ok] at h
  obtain ⟨M, _, h⟩ := h
  split at h
  · simp only [pure_ok, Prod.mk.injEq] at h
    left; rw [← h.2.1]; rfl
  · simp only [bind_ok, pure_ok] at h
    obtain ⟨s, _, ⟨uf, rel⟩, hrel, heq⟩ := h
    right
    refine ⟨s.dend, _, uf, rel, hrel, ?_⟩
    simp only [Prod.mk.injEq] at heq
    exact heq.2.1.symm

/-- The method whose tables govern the tail of a call: `mst` always relabels as `single`,
`nnchain` as `intoMethodChain.intoMethod` (= the method itself, by the generated tables). -/
theorem intoMethodChain_roundtrip (m : Method) (mc : MethodChain) (h : m.intoMethodChain = some mc) :
    mc.intoMethod = m := by
  cases m <;> cases mc <;> simp [Method.intoMethodChain, MethodChain.intoMethod] at h ⊢

theorem runWith_tail (chk : Bool) (alg : Alg) (m : Method) (st : State α) (d : Dendrogram α)
    (data : Array α) (n : Nat) (st' : State α) (d' : Dendrogram α) (M' : Mat α)
    (h : runWith chk alg m st d data n = .ok (st', d', M')) : TailShape m d' := by
  have hC : ∀ mc, m.intoMethodChain = some mc →
      nnchainWith chk mc st d data n = .ok (st', d', M') → TailShape m d' := by
    intro mc hmc h
    have := nnchainWith_tail chk mc st d data n st' d' M' h
    rwa [intoMethodChain_roundtrip m mc hmc] at this
  cases alg <;> simp only [runWith] at h
  · exact primitiveWith_tail chk m st d data n st' d' M' h
  · cases hm : m.intoMethodChain with
    | none => simp [hm] at h
    | some mc => simp only [hm] at h; exact hC mc hm h
  · exact genericWith_tail chk m st d data n st' d' M' h
  · split at h
    · next hs => subst hs; exact mstWith_tail chk st d data n st' d' M' h
    · cases h
  · unfold linkageWith at h
    cases hd : dispatch m with
    | mst =>
      have : m = .single := by cases m <;> simp [dispatch, Method.intoMethodChain] at hd ⊢
      subst this
      simp only [hd] at h
      exact mstWith_tail chk st d data n st' d' M' h
    | nnchain =>
      simp only [hd] at h
      cases hm : m.intoMethodChain with
      | none => simp [hm] at h
      | some mc => simp only [hm] at h; exact hC mc hm h
    | generic => simp only [hd] at h; exact genericWith_tail chk m st d data n st' d' M' h
    | primitive => simp only [hd] at h; exact primitiveWith_tail chk m st d data n st' d' M' h
    | linkage => simp [hd] at h

end Kodama
