/-
C03 for `generic_with`, part 2: the method-specific update `genericUpdate` (the three ranges of
`single(..)` … `median(..)` in src/generic.rs)
* keeps the lower-bound invariant `LB` (`genericL1_lb`, `genericL2_lb`, `genericL3_lb`), and
* changes the matrix exactly as `updateRows` (the update of `primitive`) does
  (`genericL1_mat` …, `genericUpdate_lb`), so that `updateRows_spec` can be reused.

Where the lower bound comes from, per range (row `x`, merged pair `a < b`, new entry `v`):
* range 1 (`x < a`), `L1Mode.lower` (centroid, median): the code lowers `priority(x)` to `v` if
  `v < priority(x)`;  `L1Mode.fix` (the other five): the priority is kept, `LBClosed` is needed.
* range 2 (`a < x < b`) and range 3 (row `b`): the tracking methods lower the priority; `complete`
  does not, but `max(va, vb) ≥ vb ≥ priority` (`noTrack_mono`).
-/
import Kodama.Lemmas.GenericGreedyLB
set_option linter.unusedSectionVars false
set_option linter.unusedSimpArgs false
set_option linter.unusedVariables false
namespace Kodama
open Spec
variable {α : Type} [Num α]

/-- The only method that does not track priorities in ranges 2 and 3 is `complete`, whose update
`max(va, vb)` is not below `vb`. -/
theorem noTrack_mono {G : α → Prop} (L : OrderLaws α) (gs : GoodSet G) (m : Method)
    (hm : tracksPriorities m = false) (sizes : Array Nat) (sa sb : Nat) (dist : α) (x : Nat)
    (va vb v p : α) (gva : G va) (gvb : G vb) (h : updFn m sizes sa sb dist x va vb = .ok v)
    (h1 : Num.lt vb p = false) : Num.lt v p = false := by
  cases m <;> first | (simp [tracksPriorities] at hm; done) | skip
  simp only [updFn, Gen.complete, pure, Except.pure, Except.ok.injEq] at h
  subst h
  split
  · next hlt => exact L.le_trans p vb va (gs.notNaN _ gvb) h1 (L.asymm _ _ hlt)
  · exact h1

section
variable {G : α → Prop} {n : Nat} {live full : List Nat} {sizes : Array Nat} {act : Active}
  {B : Nat → Nat → Prop}

/-- Range 1 step keeps `LB` (over the rows/columns `full ⊇ live ∪ {a}`). -/
theorem genericL1_lb (L : OrderLaws α) (gs : GoodSet G) (chk : Bool) (mode : L1Mode)
    (upd : Nat → α → α → R α) (a b x : Nat) (st st' : State α) (M M' : Mat α)
    (hupd : ∀ va vb, M.get chk x a = .ok va → M.get chk x b = .ok vb →
      ∃ v, upd x va vb = .ok v ∧ G v)
    (hclosed : mode = .fix → ∀ va vb v p, st.queue.prio[x]? = some p → G va → G vb → G p →
      upd x va vb = .ok v → Num.lt va p = false → Num.lt vb p = false → Num.lt v p = false)
    (han : a < n) (ha : a ∈ full) (hb : b ∈ live) (hab : a < b) (hx : x ∈ live) (hxa : x < a)
    (hsub : ∀ z ∈ live, z ∈ full) (hfl : ∀ z ∈ full, z < n)
    (h : UInv G n live B sizes act st M) (hlb : LB chk M full st.queue.prio)
    (e : genericL1 chk mode upd a b (st, M) x = .ok (st', M')) :
    LB chk M' full st'.queue.prio ∧ (mode = .fix → st'.queue = st.queue) := by
  have hbn : b < n := h.q.lt_n hb
  have hxb : x < b := by omega
  have hMn : M.n = n := h.m.mn
  obtain ⟨M1, hM1, gM1⟩ := h.m.update chk upd x x a x b hupd hxa han hxb hbn
  obtain ⟨va, vb, v, hva, hvb, hv, _, _, hget⟩ := Mat.update_spec chk M M1 h.m.valid upd x x a x b
    hxb (by rw [hMn]; exact hbn) hM1
  rw [hMn] at hget
  obtain ⟨va', hva', gva⟩ := h.m.get chk x a hxa han
  rw [hva] at hva'; cases hva'
  obtain ⟨vb', hvb', gvb⟩ := h.m.get chk x b hxb hbn
  rw [hvb] at hvb'; cases hvb'
  obtain ⟨v', hv', gv⟩ := hupd va vb hva hvb
  rw [hv] at hv'; cases hv'
  obtain ⟨p, hp, hprio⟩ := Heap.priority_ok h.q.inv.wf ((h.q.qlive x).mpr hx)
  obtain ⟨p', hp', gp⟩ := h.q.pgood x hx b hb hxb
  rw [hp] at hp'; cases hp'
  have hxf := hsub x hx
  have hbf := hsub b hb
  -- the `fixNearest` exits: the priority is kept
  have hfix : Num.lt v p = false → ∀ st'' M'', fixNearest st M1 x a b = .ok (st'', M'') →
      LB chk M'' full st''.queue.prio ∧ st''.queue = st.queue := by
    intro hvp st'' M'' e'
    obtain ⟨e1, e2, _⟩ := fixNearest_spec st st'' M1 M'' x a b e'
    subst e2
    rw [e1]
    refine ⟨?_, rfl⟩
    apply LB.keep x b v hget hfl hlb hxf
    intro p1 hp1
    rw [hp] at hp1; cases hp1
    exact hvp
  rw [genericL1_eq] at e
  simp only [bind, Except.bind, hM1] at e
  cases mode with
  | fix =>
    simp only [] at e
    have hvp : Num.lt v p = false :=
      hclosed rfl va vb v p hp gva gvb gp hv (hlb x hxf a ha hxa p va hp hva)
        (hlb x hxf b hbf hxb p vb hp hvb)
    obtain ⟨r1, r2⟩ := hfix hvp st' M' e
    exact ⟨r1, fun _ => r2⟩
  | lower =>
    simp only [] at e
    have hv1 : M1.get chk x b = .ok v := by rw [hget x b hxb hbn]; simp
    simp only [hv1, hprio] at e
    refine ⟨?_, fun hm => by cases hm⟩
    by_cases hlt : Num.lt v p = true
    · rw [if_pos hlt] at e
      obtain ⟨q', hset, _, hprio'⟩ := h.q.setPrio L gs chk hx hb hxb gv
      have hxn : x < st.nearest.size := by rw [h.q.nsz]; exact h.q.lt_n hx
      simp only [hset, aset, hxn, dite_true, pure, Except.pure] at e
      injection e with e
      injection e with e1 e2
      subst e1 e2
      simp only [hprio']
      exact LB.lower L x b v p hget hfl hlb hxf hp (gs.notNaN p gp) hlt
    · rw [if_neg hlt] at e
      exact (hfix (by simpa using hlt) st' M' e).1

/-- Range 2 step keeps `LB`. -/
theorem genericL2_lb (L : OrderLaws α) (gs : GoodSet G) (chk : Bool) (track : Bool)
    (upd : Nat → α → α → R α) (a b x : Nat) (st st' : State α) (M M' : Mat α)
    (hupd : ∀ va vb, M.get chk a x = .ok va → M.get chk x b = .ok vb →
      ∃ v, upd x va vb = .ok v ∧ G v)
    (hmono : track = false → ∀ va vb v p, G va → G vb → upd x va vb = .ok v →
      Num.lt vb p = false → Num.lt v p = false)
    (hb : b ∈ live) (hx : x ∈ live) (hax : a < x) (hxb : x < b)
    (hsub : ∀ z ∈ live, z ∈ full) (hfl : ∀ z ∈ full, z < n)
    (h : UInv G n live (fun _ _ => False) sizes act st M) (hlb : LB chk M full st.queue.prio)
    (e : genericL2 chk track upd a b (st, M) x = .ok (st', M')) :
    LB chk M' full st'.queue.prio := by
  have hbn : b < n := h.q.lt_n hb
  have hMn : M.n = n := h.m.mn
  obtain ⟨M1, hM1, gM1⟩ := h.m.update chk upd x a x x b hupd hax (by omega) hxb hbn
  obtain ⟨va, vb, v, hva, hvb, hv, _, _, hget⟩ := Mat.update_spec chk M M1 h.m.valid upd x a x x b
    hxb (by rw [hMn]; exact hbn) hM1
  rw [hMn] at hget
  obtain ⟨va', hva', gva⟩ := h.m.get chk a x hax (by omega)
  rw [hva] at hva'; cases hva'
  obtain ⟨vb', hvb', gvb⟩ := h.m.get chk x b hxb hbn
  rw [hvb] at hvb'; cases hvb'
  obtain ⟨v', hv', gv⟩ := hupd va vb hva hvb
  rw [hv] at hv'; cases hv'
  obtain ⟨p, hp, hprio⟩ := Heap.priority_ok h.q.inv.wf ((h.q.qlive x).mpr hx)
  obtain ⟨p', hp', gp⟩ := h.q.pgood x hx b hb hxb
  rw [hp] at hp'; cases hp'
  have hxf := hsub x hx
  have hbf := hsub b hb
  unfold genericL2 at e
  simp only [bind, Except.bind, hM1] at e
  cases track with
  | false =>
    simp only [Bool.not_false, if_true, pure, Except.pure] at e
    injection e with e
    injection e with e1 e2
    subst e1 e2
    apply LB.keep x b v hget hfl hlb hxf
    intro p1 hp1
    rw [hp] at hp1; cases hp1
    exact hmono rfl va vb v p gva gvb hv (hlb x hxf b hbf hxb p vb hp hvb)
  | true =>
    simp only [Bool.not_true, Bool.false_eq_true, if_false] at e
    have hv1 : M1.get chk x b = .ok v := by rw [hget x b hxb hbn]; simp
    simp only [hv1, hprio] at e
    by_cases hlt : Num.lt v p = true
    · rw [if_pos hlt] at e
      obtain ⟨q', hset, _, hprio'⟩ := h.q.setPrio L gs chk hx hb hxb gv
      have hxn : x < st.nearest.size := by rw [h.q.nsz]; exact h.q.lt_n hx
      simp only [hset, aset, hxn, dite_true, pure, Except.pure] at e
      injection e with e
      injection e with e1 e2
      subst e1 e2
      simp only [hprio']
      exact LB.lower L x b v p hget hfl hlb hxf hp (gs.notNaN p gp) hlt
    · rw [if_neg hlt] at e
      simp only [pure, Except.pure] at e
      injection e with e
      injection e with e1 e2
      subst e1 e2
      apply LB.keep x b v hget hfl hlb hxf
      intro p1 hp1
      rw [hp] at hp1; cases hp1
      simpa using hlt

/-- Range 3 step keeps `LB` and `min = priority(b)`. -/
theorem genericL3_lb (L : OrderLaws α) (gs : GoodSet G) (chk : Bool) (track : Bool)
    (upd : Nat → α → α → R α) (a b x : Nat) (st st' : State α) (M M' : Mat α) (mn mn' : α)
    (hupd : ∀ va vb, M.get chk a x = .ok va → M.get chk b x = .ok vb →
      ∃ v, upd x va vb = .ok v ∧ G v)
    (hmono : track = false → ∀ va vb v p, G va → G vb → upd x va vb = .ok v →
      Num.lt vb p = false → Num.lt v p = false)
    (hab : a < b) (hb : b ∈ live) (hx : x ∈ live) (hbx : b < x)
    (hsub : ∀ z ∈ live, z ∈ full) (hfl : ∀ z ∈ full, z < n)
    (h : UInv G n live (fun _ _ => False) sizes act st M) (hlb : LB chk M full st.queue.prio)
    (hmn : track = true → st.queue.prio[b]? = some mn)
    (e : genericL3 chk track upd a b (st, M, mn) x = .ok (st', M', mn')) :
    LB chk M' full st'.queue.prio ∧ (track = true → st'.queue.prio[b]? = some mn') := by
  have hxn' : x < n := h.q.lt_n hx
  have hMn : M.n = n := h.m.mn
  obtain ⟨M1, hM1, gM1⟩ := h.m.update chk upd x a x b x hupd (by omega) hxn' hbx hxn'
  obtain ⟨va, vb, v, hva, hvb, hv, _, _, hget⟩ := Mat.update_spec chk M M1 h.m.valid upd x a x b x
    hbx (by rw [hMn]; exact hxn') hM1
  rw [hMn] at hget
  obtain ⟨va', hva', gva⟩ := h.m.get chk a x (by omega) hxn'
  rw [hva] at hva'; cases hva'
  obtain ⟨vb', hvb', gvb⟩ := h.m.get chk b x hbx hxn'
  rw [hvb] at hvb'; cases hvb'
  obtain ⟨v', hv', gv⟩ := hupd va vb hva hvb
  rw [hv] at hv'; cases hv'
  obtain ⟨p, hp, gp⟩ := h.q.pgood b hb x hx hbx
  have hxf := hsub x hx
  have hbf := hsub b hb
  unfold genericL3 at e
  simp only [bind, Except.bind, hM1] at e
  cases track with
  | false =>
    simp only [Bool.not_false, if_true, pure, Except.pure] at e
    injection e with e
    injection e with e1 e2
    injection e2 with e2 e3
    subst e1 e2 e3
    refine ⟨?_, fun ht => by cases ht⟩
    apply LB.keep b x v hget hfl hlb hbf
    intro p1 hp1
    rw [hp] at hp1; cases hp1
    exact hmono rfl va vb v p gva gvb hv (hlb b hbf x hxf hbx p vb hp hvb)
  | true =>
    simp only [Bool.not_true, Bool.false_eq_true, if_false] at e
    have hpm : p = mn := by
      have := hmn rfl
      rw [hp] at this; injection this
    subst hpm
    have hv1 : M1.get chk b x = .ok v := by rw [hget b x hbx hxn']; simp
    simp only [hv1] at e
    by_cases hlt : Num.lt v p = true
    · rw [if_pos hlt] at e
      obtain ⟨q', hset, _, hprio'⟩ := h.q.setPrio L gs chk hb hx hbx gv
      have hbn : b < st.nearest.size := by rw [h.q.nsz]; exact h.q.lt_n hb
      simp only [hset, aset, hbn, dite_true, pure, Except.pure] at e
      injection e with e
      injection e with e1 e2
      injection e2 with e2 e3
      subst e1 e2 e3
      simp only [hprio']
      refine ⟨LB.lower L b x v p hget hfl hlb hbf hp (gs.notNaN p gp) hlt, fun _ => ?_⟩
      have hbp : b < st.queue.prio.size := (Array.getElem?_eq_some_iff.mp hp).1
      rw [Array.getElem?_setIfInBounds]
      simp [hbp]
    · rw [if_neg hlt] at e
      simp only [pure, Except.pure] at e
      injection e with e
      injection e with e1 e2
      injection e2 with e2 e3
      subst e1 e2 e3
      refine ⟨?_, fun _ => hp⟩
      apply LB.keep b x v hget hfl hlb hbf
      intro p1 hp1
      rw [hp] at hp1; cases hp1
      simpa using hlt

end

/-! ### The matrix component of the three ranges is `updateRows` -/

/-- Projection of a fold: if every step of `f` is a step of `g` on the projected state, the fold of
`f` is a fold of `g`. -/
theorem foldlM_proj {σ τ β : Type} (f : σ → β → R σ) (g : τ → β → R τ) (π : σ → τ)
    (hstep : ∀ s x s', f s x = .ok s' → g (π s) x = .ok (π s')) :
    ∀ (l : List β) (s s' : σ), l.foldlM f s = .ok s' → l.foldlM g (π s) = .ok (π s') := by
  intro l
  induction l with
  | nil =>
    intro s s' h
    have : s = s' := by simpa [List.foldlM, pure, Except.pure] using h
    subst this; rfl
  | cons x xs ih =>
    intro s s' h
    simp only [List.foldlM] at h ⊢
    obtain ⟨s1, h1, h2⟩ := bind_ok.mp h
    exact bind_ok.mpr ⟨π s1, hstep s x s1 h1, ih s1 s' h2⟩

/-- **The update keeps `LB` and is `updateRows` on the matrix.**  Same hypotheses as
`genericUpdate_ok'` (run-dependent: `UpdGoodAt` instead of closure), plus `LB` before, `LBClosed` for
the five `L1Mode.fix` methods, and the fact (from `generic_pop_min`) that every live priority is
`≥ d0 = dis[[a, b]]`. -/
theorem genericUpdate_lb' {G : α → Prop} {n : Nat} (L : OrderLaws α) (gs : GoodSet G) (chk : Bool)
    (m : Method) (hlbc : l1Mode m = .fix → LBClosed G m)
    (live : List Nat) (st : State α) (M : Mat α)
    (hrep : st.active.Rep live n) (hsz : st.sizes.size = n)
    (hpos : ∀ i (h : i < st.sizes.size), 0 < st.sizes[i])
    (a b : Nat) (ha : a ∈ live) (hb : b ∈ live) (hab : a < b)
    (hq : QInvB G n (live.filter (· ≠ a))
      (fun y c => c = a ∧ y ∈ live.filter (fun x => decide (x < a))) st.queue st.nearest)
    (hM : MGood G n M) (hgood : UpdGoodAt G chk m st.sizes M live a b)
    (hlb : LB chk M live st.queue.prio)
    (d0 : α) (hd0 : M.get chk a b = .ok d0)
    (hge : ∀ x ∈ live, ∀ px, st.queue.prio[x]? = some px → Num.lt px d0 = false) :
    ∃ st' M' sa sb dist, genericUpdate chk m st a b M = .ok (st', M') ∧
      QInv G n (live.filter (· ≠ a)) st'.queue st'.nearest ∧ MGood G n M' ∧
      st'.sizes = st.sizes ∧ st'.active = st.active ∧
      LB chk M' live st'.queue.prio ∧
      (usesSizes m = true → sa = st.sizes.getD a 0 ∧ sb = st.sizes.getD b 0) ∧
      (usesDist m = true → dist = d0) ∧
      updateRows chk st.active (updFn m st.sizes sa sb dist) a b M = .ok M' := by
  have hs := hrep.sorted
  have hlt := hrep.lt_n
  have hnd : live.Nodup := hrep.nodup
  have han : a < n := hlt a ha
  have hbn : b < n := hlt b hb
  have hmem' : ∀ x, x ∈ live.filter (· ≠ a) ↔ x ∈ live ∧ x ≠ a := by
    intro x; simp [List.mem_filter]
  have hsub : ∀ z ∈ live.filter (· ≠ a), z ∈ live := fun z hz => ((hmem' z).mp hz).1
  have hb' : b ∈ live.filter (· ≠ a) := (hmem' b).mpr ⟨hb, by omega⟩
  -- the parameters of the update
  have has : a < st.sizes.size := by rw [hsz]; exact han
  have hbs : b < st.sizes.size := by rw [hsz]; exact hbn
  have esa := optM_ok (usesSizes m) (aget st.sizes a) 0 st.sizes[a] (by simp [aget, has])
  have esb := optM_ok (usesSizes m) (aget st.sizes b) 0 st.sizes[b] (by simp [aget, hbs])
  obtain ⟨d0', hd0', gd0⟩ := hM.get chk a b hab hbn
  rw [hd0] at hd0'; cases hd0'
  have edist := optM_ok (usesDist m) (M.get chk a b) Num.infinity d0 hd0
  generalize hsa : (if usesSizes m = true then st.sizes[a] else 0) = sa at esa
  generalize hsb : (if usesSizes m = true then st.sizes[b] else 0) = sb at esb
  generalize hdist : (if usesDist m = true then d0 else Num.infinity) = dist at edist
  have hsab : usesSizes m = true → sa = st.sizes.getD a 0 ∧ sb = st.sizes.getD b 0 := by
    intro hu
    rw [← hsa, ← hsb]
    simp [hu, Array.getD, has, hbs]
  have hdd : usesDist m = true → dist = d0 := by
    intro hu; rw [← hdist]; simp [hu]
  have hsabpos : usesSizes m = true → 0 < sa ∧ 0 < sb := by
    intro hu
    rw [← hsa, ← hsb]
    simp only [hu, if_true]
    exact ⟨hpos a has, hpos b hbs⟩
  -- what row `x` writes, in terms of the matrix before the update
  have hupd0 : ∀ x ∈ live, x ≠ a → x ≠ b → ∀ va vb, mget chk M x a = .ok va →
      mget chk M x b = .ok vb → ∃ v, updFn m st.sizes sa sb dist x va vb = .ok v ∧ G v := by
    intro x hx hxa hxb va vb hva hvb
    exact ⟨_, updFn_eq_lw m st.sizes sa sb dist d0 _ _ hsab hdd x va vb (by rw [hsz]; exact hlt x hx),
      hgood x hx hxa hxb va vb d0 hva hvb hd0⟩
  have hupdF : ∀ (Mc : Mat α) (T : Nat → Prop), Frame chk n b M Mc T → ∀ x ∈ live, T x → x ≠ a →
      x ≠ b → ∀ va vb, mget chk Mc x a = .ok va → mget chk Mc x b = .ok vb →
      ∃ v, updFn m st.sizes sa sb dist x va vb = .ok v ∧ G v := by
    intro Mc T hfr x hx hTx hxa hxb va vb hva hvb
    obtain ⟨r1, r2⟩ := hfr.reads hTx hxa hxb (by omega) (hlt x hx) han hbn
    rw [r1] at hva; rw [r2] at hvb
    exact hupd0 x hx hxa hxb va vb hva hvb
  have hmono : tracksPriorities m = false → ∀ x va vb v p, G va → G vb →
      updFn m st.sizes sa sb dist x va vb = .ok v → Num.lt vb p = false → Num.lt v p = false :=
    fun ht x va vb v p gva gvb hv h1 =>
      noTrack_mono L gs m ht st.sizes sa sb dist x va vb v p gva gvb hv h1
  -- the three ranges
  have hr1 := hrep.range none (some a) (by simp) (by intro u hu; cases hu; omega)
  have hr2 := hrep.range (some a) (some b) (by intro l hl; cases hl; omega)
    (by intro u hu; cases hu; omega)
  have hr3 := hrep.range_from b hb
  have hr3' := hrep.range (some b) none (by intro l hl; cases hl; omega) (by simp)
  simp only [Option.getD_none, Option.getD_some, Nat.zero_le, decide_true, Bool.true_and]
    at hr1 hr2 hr3'
  have hw := sorted_window_drop live hs a b ha
  have hw3 := sorted_filter_ge_drop live hs b hb
  rw [genericUpdate_eq]
  simp only [bind, Except.bind, esa, esb, edist, hr1]
  -- range 1
  obtain ⟨⟨st1, M1⟩, e1, _, u1, f1, lb1, _⟩ := foldlM_ok_rem
    (fun rem (s : State α × Mat α) => rem.Nodup ∧
      UInv G n (live.filter (· ≠ a)) (fun y c => c = a ∧ y ∈ rem) st.sizes st.active s.1 s.2 ∧
        Frame chk n b M s.2 (fun y => y ∈ rem ∨ a < y) ∧
        LB chk s.2 live s.1.queue.prio ∧ (l1Mode m = .fix → s.1.queue = st.queue))
    (genericL1 chk (l1Mode m) (updFn m st.sizes sa sb dist) a b)
    (live.filter (fun x => decide (x < a))) (st, M)
    (by
      intro x rest s hx ⟨hnd', hu, hfr, hl, hqe⟩
      obtain ⟨s1, s2⟩ := s
      have hx' := List.mem_filter.mp hx
      have hxa : x < a := by simpa using hx'.2
      have hxn := hlt x hx'.1
      rw [List.nodup_cons] at hnd'
      have hxl : x ∈ live.filter (· ≠ a) := (hmem' x).mpr ⟨hx'.1, by omega⟩
      have hupdx : ∀ va vb, s2.get chk x a = .ok va → s2.get chk x b = .ok vb →
          ∃ v, updFn m st.sizes sa sb dist x va vb = .ok v ∧ G v := by
        intro va vb hva hvb
        rw [← mget_of_lt chk s2 hxa] at hva
        rw [← mget_of_lt chk s2 (by omega : x < b)] at hvb
        exact hupdF s2 _ hfr x hx'.1 (Or.inl List.mem_cons_self) (by omega) (by omega) va vb
          hva hvb
      obtain ⟨st', M', e, u⟩ := genericL1_ok L gs chk (l1Mode m) _ a b x rest s1 s2
        hupdx han hb' hab hxl hxa hu
      obtain ⟨l', q'⟩ := genericL1_lb L gs chk (l1Mode m) _ a b x s1 st' s2 M'
        hupdx
        (by
          intro hfixm va vb v p hp gva gvb gp hv h1 h2
          have hqe' := hqe hfixm
          simp only [] at hqe' hp
          rw [hqe'] at hp
          exact hlbc hfixm st.sizes sa sb dist x va vb v p hpos hsabpos
            (fun hu => by rw [hdd hu]; exact ⟨gd0, hge x hx'.1 p hp⟩) gva gvb gp hv h1 h2)
        han ha hb' hab hxl hxa hsub hlt hu hl e
      refine ⟨(st', M'), e, hnd'.2, u, ?_, l', fun hfixm => (q' hfixm).trans (hqe hfixm)⟩
      refine hfr.step hu.m.valid hu.m.mn _ x x a x b (by simp only [Prod.mk.injEq]; omega)
        (by omega) hbn ?_ (genericL1_mat chk _ _ a b s1 st' s2 M' x e).1
      intro y hy
      rcases hy with hy | hy
      · exact ⟨Or.inl (List.mem_cons_of_mem _ hy), fun e' => hnd'.1 (e' ▸ hy)⟩
      · exact ⟨Or.inr hy, by omega⟩)
    ⟨hnd.filter _, ⟨hq, hM, rfl, rfl⟩, Frame.refl chk n b M _, hlb, fun _ => rfl⟩
  simp only [e1]
  have u1' : UInv G n (live.filter (· ≠ a)) (fun _ _ => False) st.sizes st.active st1 M1 :=
    ⟨u1.q.weaken _ (by intro y c' _ _ _ ⟨_, e⟩; cases e), u1.m, u1.sizes_eq, u1.active_eq⟩
  -- range 2
  rw [u1'.active_eq]
  simp only [hr2]
  obtain ⟨⟨st2, M2⟩, e2, _, u2, f2, lb2⟩ := foldlM_ok_rem
    (fun rem (s : State α × Mat α) => rem.Nodup ∧
      UInv G n (live.filter (· ≠ a)) (fun _ _ => False) st.sizes st.active s.1 s.2 ∧
        Frame chk n b M s.2 (fun y => y ∈ rem ∨ b < y) ∧
        LB chk s.2 live s.1.queue.prio)
    (genericL2 chk (tracksPriorities m) (updFn m st.sizes sa sb dist) a b)
    ((live.filter (fun x => decide (a ≤ x) && decide (x < b))).drop 1) (st1, M1)
    (by
      intro x rest s hx ⟨hnd', hu, hfr, hl⟩
      obtain ⟨s1, s2⟩ := s
      have hx' := hw x hx
      have hxn := hlt x hx'.2.2
      rw [List.nodup_cons] at hnd'
      have hxl : x ∈ live.filter (· ≠ a) := (hmem' x).mpr ⟨hx'.2.2, by omega⟩
      have hupdx : ∀ va vb, s2.get chk a x = .ok va → s2.get chk x b = .ok vb →
          ∃ v, updFn m st.sizes sa sb dist x va vb = .ok v ∧ G v := by
        intro va vb hva hvb
        rw [← mget_of_gt chk s2 hx'.1] at hva
        rw [← mget_of_lt chk s2 hx'.2.1] at hvb
        exact hupdF s2 _ hfr x hx'.2.2 (Or.inl List.mem_cons_self) (by omega) (by omega) va vb
          hva hvb
      obtain ⟨st', M', e, u⟩ := genericL2_ok L gs chk (tracksPriorities m) _ a b x s1 s2
        hupdx hb' hxl hx'.1 hx'.2.1 hu
      have l' := genericL2_lb L gs chk (tracksPriorities m) _ a b x s1 st' s2 M'
        hupdx (fun ht => hmono ht x) hb' hxl hx'.1 hx'.2.1 hsub hlt hu hl e
      refine ⟨(st', M'), e, hnd'.2, u, ?_, l'⟩
      refine hfr.step hu.m.valid hu.m.mn _ x a x x b (by simp only [Prod.mk.injEq]; omega)
        (by omega) hbn ?_ (genericL2_mat chk _ _ a b s1 st' s2 M' x e).1
      intro y hy
      rcases hy with hy | hy
      · exact ⟨Or.inl (List.mem_cons_of_mem _ hy), fun e' => hnd'.1 (e' ▸ hy)⟩
      · exact ⟨Or.inr hy, by omega⟩)
    ⟨(hnd.filter _).sublist (List.drop_sublist 1 _), u1', f1.mono (by
      intro y hy
      rcases hy with hy | hy
      · exact Or.inr (hw y hy).1
      · exact Or.inr (by omega)), lb1⟩
  simp only [e2]
  -- the initial `min`
  obtain ⟨p, hpb, hprio⟩ := Heap.priority_ok u2.q.inv.wf ((u2.q.qlive b).mpr hb')
  have emin := optM_ok (tracksPriorities m) (st2.queue.priority b) Num.infinity p hprio
  simp only [emin]
  -- range 3
  rw [u2.active_eq]
  simp only [hr3]
  obtain ⟨⟨st3, M3, mn3⟩, e3, _, u3, _, lb3, _⟩ := foldlM_ok_rem
    (fun rem (s : State α × Mat α × α) => rem.Nodup ∧
      UInv G n (live.filter (· ≠ a)) (fun _ _ => False) st.sizes st.active s.1 s.2.1 ∧
        Frame chk n b M s.2.1 (fun y => y ∈ rem) ∧
        LB chk s.2.1 live s.1.queue.prio ∧
        (tracksPriorities m = true → s.1.queue.prio[b]? = some s.2.2))
    (genericL3 chk (tracksPriorities m) (updFn m st.sizes sa sb dist) a b)
    ((live.filter (fun x => decide (b ≤ x))).drop 1)
    (st2, M2, if tracksPriorities m = true then p else Num.infinity)
    (by
      intro x rest s hx ⟨hnd', hu, hfr, hl, hmn⟩
      obtain ⟨s1, s2, s3⟩ := s
      have hx' := hw3.2 x hx
      have hxn := hlt x hx'.2
      rw [List.nodup_cons] at hnd'
      have hxl : x ∈ live.filter (· ≠ a) := (hmem' x).mpr ⟨hx'.2, by omega⟩
      have hupdx : ∀ va vb, s2.get chk a x = .ok va → s2.get chk b x = .ok vb →
          ∃ v, updFn m st.sizes sa sb dist x va vb = .ok v ∧ G v := by
        intro va vb hva hvb
        rw [← mget_of_gt chk s2 (by omega : a < x)] at hva
        rw [← mget_of_gt chk s2 hx'.1] at hvb
        exact hupdF s2 _ hfr x hx'.2 List.mem_cons_self (by omega) (by omega) va vb hva hvb
      obtain ⟨st', M', mn', e, u⟩ := genericL3_ok L gs chk (tracksPriorities m) _ a b x s1 s2 s3
        hupdx hab hb' hxl hx'.1 hu
      obtain ⟨l', m'⟩ := genericL3_lb L gs chk (tracksPriorities m) _ a b x s1 st' s2 M' s3 mn'
        hupdx (fun ht => hmono ht x) hab hb' hxl hx'.1 hsub hlt hu hl hmn e
      refine ⟨(st', M', mn'), e, hnd'.2, u, ?_, l', m'⟩
      refine hfr.step hu.m.valid hu.m.mn _ x a x b x (by simp only [Prod.mk.injEq]; omega)
        hx'.1 hxn ?_ (genericL3_mat chk _ _ a b s1 st' s2 M' s3 mn' x e).1
      intro y hy
      exact ⟨List.mem_cons_of_mem _ hy, fun e' => hnd'.1 (e' ▸ hy)⟩)
    ⟨(hnd.filter _).sublist (List.drop_sublist 1 _), u2, f2.mono (by
      intro y hy
      exact Or.inr (hw3.2 y hy).1), lb2, fun ht => by simp only [ht, if_true]; exact hpb⟩
  simp only [e3, pure, Except.pure]
  refine ⟨st3, M3, sa, sb, dist, rfl, u3.q, u3.m, u3.sizes_eq, u3.active_eq, lb3, hsab, hdd, ?_⟩
  -- the matrix is the one `updateRows` computes
  have p1 := foldlM_proj (genericL1 chk (l1Mode m) (updFn m st.sizes sa sb dist) a b)
    (fun (M : Mat α) x => M.update chk (updFn m st.sizes sa sb dist) x x a x b) (fun s => s.2)
    (fun s x s' h => (genericL1_mat chk _ _ a b s.1 s'.1 s.2 s'.2 x h).1) _ _ _ e1
  have p2 := foldlM_proj (genericL2 chk (tracksPriorities m) (updFn m st.sizes sa sb dist) a b)
    (fun (M : Mat α) x => M.update chk (updFn m st.sizes sa sb dist) x a x x b) (fun s => s.2)
    (fun s x s' h => (genericL2_mat chk _ _ a b s.1 s'.1 s.2 s'.2 x h).1) _ _ _ e2
  have p3 := foldlM_proj (genericL3 chk (tracksPriorities m) (updFn m st.sizes sa sb dist) a b)
    (fun (M : Mat α) x => M.update chk (updFn m st.sizes sa sb dist) x a x b x) (fun s => s.2.1)
    (fun s x s' h => (genericL3_mat chk _ _ a b s.1 s'.1 s.2.1 s'.2.1 s.2.2 s'.2.2 x h).1) _ _ _ e3
  have e3f : live.filter (fun x => decide (b ≤ x) && decide (x < n))
      = live.filter (fun x => decide (b ≤ x)) := by
    apply List.filter_congr
    intro x hx
    have := hlt x hx
    simp [this]
  unfold updateRows
  simp only [bind, Except.bind, hr1, hr2, hr3', e3f]
  simp only [] at p1 p2 p3
  simp only [p1, p2, p3]

/-- The closure form (a corollary of `genericUpdate_lb'`). -/
theorem genericUpdate_lb {G : α → Prop} {n : Nat} (L : OrderLaws α) (gs : GoodSet G) (chk : Bool)
    (m : Method) (hcl : UpdClosed G m) (hlbc : l1Mode m = .fix → LBClosed G m)
    (live : List Nat) (st : State α) (M : Mat α)
    (hrep : st.active.Rep live n) (hsz : st.sizes.size = n)
    (hpos : ∀ i (h : i < st.sizes.size), 0 < st.sizes[i])
    (a b : Nat) (ha : a ∈ live) (hb : b ∈ live) (hab : a < b)
    (hq : QInvB G n (live.filter (· ≠ a))
      (fun y c => c = a ∧ y ∈ live.filter (fun x => decide (x < a))) st.queue st.nearest)
    (hM : MGood G n M) (hlb : LB chk M live st.queue.prio)
    (d0 : α) (hd0 : M.get chk a b = .ok d0)
    (hge : ∀ x ∈ live, ∀ px, st.queue.prio[x]? = some px → Num.lt px d0 = false) :
    ∃ st' M' sa sb dist, genericUpdate chk m st a b M = .ok (st', M') ∧
      QInv G n (live.filter (· ≠ a)) st'.queue st'.nearest ∧ MGood G n M' ∧
      st'.sizes = st.sizes ∧ st'.active = st.active ∧
      LB chk M' live st'.queue.prio ∧
      (usesSizes m = true → sa = st.sizes.getD a 0 ∧ sb = st.sizes.getD b 0) ∧
      (usesDist m = true → dist = d0) ∧
      updateRows chk st.active (updFn m st.sizes sa sb dist) a b M = .ok M' :=
  genericUpdate_lb' L gs chk m hlbc live st M hrep hsz hpos a b ha hb hab hq hM
    (updGoodAt_of_updClosed chk hcl hsz hpos hM live hrep.lt_n a b ha hb hab) hlb d0 hd0 hge

end Kodama
