/-
The clamped average-linkage update (`method::average` after the `fix:` commit of the crate):

    mean  := (sa·a + sb·b) / (sa + sb)
    least := if a < b then a else b
    *b    := if mean < least then least else mean

Order-only facts about the generated formula `Gen.average` (`Kodama/Generated/Method.lean`), for ANY
number type; no field law, no rounding model, Mathlib-free.

* `Gen.averageMean`, `Gen.averageLeast`   names for the two `let`s of the generated code
* `Gen.average_eq_clamp`                  `Gen.average` is the clamp of the two (by `rfl`)
* `Gen.average_of_not_lt`                 when `¬ mean < least` the clamp is a no-op: the value is `mean`
* `Gen.average_cases`                     the value is `a`, `b`, or `mean` with `¬ mean < least`
* `Gen.average_not_lt` (`OrderLaws`)      REDUCIBILITY: if `a`, `b` are not NaN and `¬ a < t`, `¬ b < t`
                                          then `¬ average a b sa sb < t` — whatever `+ × /` compute (the
                                          mean may be rounded, infinite, or NaN).  Before the fix this was
                                          FALSE of IEEE floats (the rounded mean can be one ulp below both
                                          arguments).
* `Gen.average_isNaN_of_mean`             the value is not NaN when `a`, `b` and the mean are not NaN
* `Gen.average_hom`                       naturality: a map preserving `<` that commutes with the mean
                                          commutes with the clamped average
* `Gen.average_comm` (`OrderLaws`, trichotomy, `add_comm`)
                                          symmetry in `(a, sa) ↔ (b, sb)`.  `least` is a minimum written with
                                          one `<`, so (exactly as for `Gen.single`) swapping the arguments
                                          needs "incomparable ⇒ equal", which is false for `±0` and NaN.

The exact-arithmetic statement "the clamp is a no-op" is `FieldLaws.average_eq_mean`
(`Kodama/Lemmas/AverageExact.lean`).
-/
import Kodama.Generated.Method
import Kodama.Laws
namespace Kodama.Gen
variable {α : Type} [Num α]

/-- The (possibly rounded) size-weighted mean `(sa·a + sb·b)/(sa + sb)`: the `mean` of the code. -/
def averageMean (a b : α) (sa sb : Nat) : α :=
  Num.div (Num.add (Num.mul (Num.ofNat sa) a) (Num.mul (Num.ofNat sb) b))
    (Num.add (Num.ofNat sa) (Num.ofNat sb))

/-- `if a < b then a else b`: the `least` of the code. -/
def averageLeast (a b : α) : α := if Num.lt a b then a else b

theorem average_eq_clamp (a b : α) (sa sb : Nat) :
    average a b sa sb =
      if Num.lt (averageMean a b sa sb) (averageLeast a b) then averageLeast a b
      else averageMean a b sa sb := rfl

/-- The clamp does nothing when the mean is not below the smaller argument. -/
theorem average_of_not_lt {a b : α} {sa sb : Nat}
    (h : Num.lt (averageMean a b sa sb) (averageLeast a b) = false) :
    average a b sa sb = averageMean a b sa sb := by
  rw [average_eq_clamp, h]; rfl

theorem averageLeast_cases (a b : α) : averageLeast a b = a ∨ averageLeast a b = b := by
  unfold averageLeast; split
  · exact Or.inl rfl
  · exact Or.inr rfl

/-- The value is one of the arguments, or the mean and then the mean is not below `least`. -/
theorem average_cases (a b : α) (sa sb : Nat) :
    average a b sa sb = a ∨ average a b sa sb = b ∨
      (average a b sa sb = averageMean a b sa sb ∧
        Num.lt (averageMean a b sa sb) (averageLeast a b) = false) := by
  rw [average_eq_clamp]
  cases h : Num.lt (averageMean a b sa sb) (averageLeast a b)
  · exact Or.inr (Or.inr ⟨by simp, rfl⟩)
  · rcases averageLeast_cases a b with e | e
    · exact Or.inl (by simp [e])
    · exact Or.inr (Or.inl (by simp [e]))

/-- **Reducibility of the clamped average, any ordered number type.**  A common lower bound `t` of the
two (non-NaN) arguments is a lower bound of the result.  Only `OrderLaws` is used: when the clamp
fires the result is an argument; otherwise `¬ mean < least` and `¬ least < t` chain through the
non-NaN middle element `least`.  Nothing is assumed about `+ × /` (the mean may even be NaN). -/
theorem average_not_lt (L : OrderLaws α) {a b t : α} (sa sb : Nat)
    (na : Num.isNaN a = false) (nb : Num.isNaN b = false)
    (ha : Num.lt a t = false) (hb : Num.lt b t = false) :
    Num.lt (average a b sa sb) t = false := by
  have hl : Num.lt (averageLeast a b) t = false := by
    rcases averageLeast_cases a b with e | e <;> rw [e] <;> assumption
  have nl : Num.isNaN (averageLeast a b) = false := by
    rcases averageLeast_cases a b with e | e <;> rw [e] <;> assumption
  rw [average_eq_clamp]
  cases h : Num.lt (averageMean a b sa sb) (averageLeast a b)
  · simpa using L.le_trans t (averageLeast a b) (averageMean a b sa sb) nl hl h
  · simpa using hl

/-- The value is at least the smaller argument (`¬ average < least`). -/
theorem average_not_lt_least (L : OrderLaws α) {a b : α} (sa sb : Nat) :
    Num.lt (average a b sa sb) (averageLeast a b) = false := by
  rw [average_eq_clamp]
  cases h : Num.lt (averageMean a b sa sb) (averageLeast a b)
  · simpa using h
  · simpa using L.irrefl _

/-- No NaN out of the clamp when neither the arguments nor the mean is NaN. -/
theorem average_isNaN_of_mean {a b : α} {sa sb : Nat}
    (na : Num.isNaN a = false) (nb : Num.isNaN b = false)
    (nm : Num.isNaN (averageMean a b sa sb) = false) :
    Num.isNaN (average a b sa sb) = false := by
  rcases average_cases a b sa sb with e | e | ⟨e, -⟩ <;> rw [e] <;> assumption

/-- `least` is symmetric under trichotomy (the same argument as for `Gen.single`). -/
theorem averageLeast_comm (L : OrderLaws α)
    (T : ∀ a b : α, Num.lt a b = false → Num.lt b a = false → a = b) (a b : α) :
    averageLeast a b = averageLeast b a := by
  unfold averageLeast
  cases h1 : Num.lt a b
  · cases h2 : Num.lt b a
    · simpa using (T a b h1 h2).symm
    · simp
  · simp [L.asymm a b h1]

/-- Symmetry of the clamped average in `(a, sa) ↔ (b, sb)`: `add_comm` for the mean (numerator and
denominator), `OrderLaws.asymm` + trichotomy for `least`. -/
theorem average_comm (L : OrderLaws α)
    (T : ∀ a b : α, Num.lt a b = false → Num.lt b a = false → a = b)
    (hadd : ∀ a b : α, Num.add a b = Num.add b a) (a b : α) (sa sb : Nat) :
    average a b sa sb = average b a sb sa := by
  have hm : averageMean a b sa sb = averageMean b a sb sa := by
    unfold averageMean
    rw [hadd (Num.mul (Num.ofNat sa) a), hadd (Num.ofNat sa : α)]
  rw [average_eq_clamp, average_eq_clamp, hm, averageLeast_comm L T a b]

/-- **Naturality.**  A map that preserves `<` and commutes with the mean commutes with the clamped
average (the clamp only compares and selects).  Used for C09 (scaling by a power of two). -/
theorem average_hom {β : Type} [Num β] {h : α → β}
    (hlt : ∀ a b : α, Num.lt (h a) (h b) = Num.lt a b) (a b : α) (sa sb : Nat)
    (hmean : h (averageMean a b sa sb) = averageMean (h a) (h b) sa sb) :
    h (average a b sa sb) = average (h a) (h b) sa sb := by
  have hl : h (averageLeast a b) = averageLeast (h a) (h b) := by
    unfold averageLeast; rw [hlt]; split <;> rfl
  rw [average_eq_clamp, average_eq_clamp, ← hmean, ← hl, hlt]
  split <;> rfl

end Kodama.Gen
