/-
Rounding-error analysis of WEIGHTED linkage (WPGMA, `Gen.weighted a b = half·(a + b)`) along merge
trees — tree level.

Setting as in `Lemmas/RoundTree.lean`, but the base dissimilarities are STRICTLY POSITIVE, in
`[dlo, dhi]` (`BaseOkW`): the recursively halved mean `Crit.wdist` weights the pair `(i, j)` by
`2^-(depth i + depth j)`, so with zero entries allowed its non-zero values could be as small as
`dlo/2ⁿ` and genuinely underflow; with positive entries `dlo ≤ wdist ≤ dhi`.  Range conditions
(`RangeOkW`): `2·lo ≤ dlo·(1−u)^(2n+1)`, `2·dhi ≤ hi·(1−u)^(2n+1)`.

* `RWgt … s t v`      `v` is finite and `val v` is within `2·(|s| + |t| − 2)` rounding factors of
                      `Crit.wdist d s t` (two operations per update: `+`, `× half`).
* `lwCompat_RWgt`     `RWgt` is propagated by the weighted update (`Crit.LWCompat .weighted`).
* `WgtComputed`, `wgtComputed_near`   THE TREE-LEVEL THEOREM: any value obtained from the input
                      entries by iterating `Gen.weighted` along two disjoint merge trees is within
                      `2·(|s|+|t|−2)` factors of the recursively halved mean of the ORIGINAL entries.

The link to `nnchain_with` is `C02_nnchain_weighted_rounded` (`Props/C02Rounding.lean`).  The chain
algorithm needs reducibility (`ChainGe α .weighted`: `half·(a+b) ≥ min(a,b)`), which follows from
MONOTONICITY of IEEE rounding but not from the standard model (an adversarial `δ` may push `half·(a+a)`
below `a`); unlike `method::average`, `method::weighted` has no clamp — so that theorem takes
`ChainGeOn ok .weighted` (reducibility on a domain `ok` containing the values of the run;
`Lemmas/RoundChain.lean`, obtainable from `HalfAddLaws`, `Lemmas/WeightedMono.lean`) as an explicit
hypothesis.
-/
import Kodama.Lemmas.RoundTree
set_option linter.unusedSectionVars false
namespace Kodama.Round
open Finset Crit MTree

variable {K : Type} [Field K] [LinearOrder K] [IsStrictOrderedRing K]

/-- Strictly positive base dissimilarities. -/
structure BaseOkW (n : Nat) (d : Nat → Nat → K) (dlo dhi : K) : Prop where
  symm : ∀ i j, d i j = d j i
  dlo_pos : 0 < dlo
  entry : ∀ i j, i < n → j < n → i ≠ j → dlo ≤ d i j ∧ d i j ≤ dhi

/-- No intermediate result of a weighted update underflows or overflows. -/
structure RangeOkW (u lo hi : K) (n : Nat) (dlo dhi : K) : Prop where
  lo : lo * 2 ≤ dlo * (1 - u) ^ (2 * n + 1)
  hi : 2 * dhi ≤ hi * (1 - u) ^ (2 * n + 1)

section base
variable {n : Nat} {d : Nat → Nat → K} {dlo dhi : K}

theorem BaseOkW.wdistLeaf_mem (B : BaseOkW n d dlo dhi) {i : Nat} (hi : i < n) :
    ∀ t : MTree Nat, (∀ j ∈ t.leaves, j < n) → i ∉ t.leaves →
      dlo ≤ wdistLeaf d i t ∧ wdistLeaf d i t ≤ dhi := by
  intro t
  induction t with
  | leaf j =>
    intro hj hij
    simp only [leaves_leaf, mem_singleton] at hj hij
    exact B.entry i j hi (hj j rfl) hij
  | node l r ihl ihr =>
    intro hj hij
    simp only [leaves_node, mem_union, not_or] at hj hij
    obtain ⟨a1, a2⟩ := ihl (fun j h => hj j (Or.inl h)) hij.1
    obtain ⟨b1, b2⟩ := ihr (fun j h => hj j (Or.inr h)) hij.2
    show dlo ≤ (wdistLeaf d i l + wdistLeaf d i r) / 2 ∧ (wdistLeaf d i l + wdistLeaf d i r) / 2 ≤ dhi
    constructor
    · rw [le_div_iff₀ (by norm_num : (0 : K) < 2)]; linarith
    · rw [div_le_iff₀ (by norm_num : (0 : K) < 2)]; linarith

/-- The recursively halved mean of positive entries stays in `[dlo, dhi]`. -/
theorem BaseOkW.wdist_mem (B : BaseOkW n d dlo dhi) :
    ∀ s t : MTree Nat, (∀ i ∈ s.leaves, i < n) → (∀ j ∈ t.leaves, j < n) →
      Disjoint s.leaves t.leaves → dlo ≤ wdist d s t ∧ wdist d s t ≤ dhi := by
  intro s
  induction s with
  | leaf i =>
    intro t hs ht hd
    simp only [leaves_leaf, mem_singleton] at hs
    simp only [leaves_leaf, disjoint_singleton_left] at hd
    exact B.wdistLeaf_mem (hs i rfl) t ht hd
  | node l r ihl ihr =>
    intro t hs ht hd
    simp only [leaves_node, mem_union] at hs
    rw [leaves_node, disjoint_union_left] at hd
    obtain ⟨a1, a2⟩ := ihl t (fun j h => hs j (Or.inl h)) ht hd.1
    obtain ⟨b1, b2⟩ := ihr t (fun j h => hs j (Or.inr h)) ht hd.2
    rw [wdist_node_left]
    constructor
    · rw [le_div_iff₀ (by norm_num : (0 : K) < 2)]; linarith
    · rw [div_le_iff₀ (by norm_num : (0 : K) < 2)]; linarith

end base

variable {α : Type} [Num α]

/-- **The approximate criterion relation for weighted linkage.** -/
structure RWgt (val : α → K) (fin : α → Prop) (u : K) (n : Nat) (d : Nat → Nat → K)
    (s t : MTree Nat) (v : α) : Prop where
  ls : ∀ i ∈ s.leaves, i < n
  lt : ∀ i ∈ t.leaves, i < n
  disj : Disjoint s.leaves t.leaves
  fin : fin v
  near : Near u (2 * (s.leaves.card + t.leaves.card - 2)) (wdist d s t) (val v)

section rwgt
variable {val : α → K} {fin : α → Prop} {u lo hi dlo dhi : K} {N n : Nat} {d : Nat → Nat → K}

/-- Every `RWgt`-related value of two disjoint trees lies in
`[dlo·(1−u)^(2n), dhi/(1−u)^(2n)]`. -/
theorem RWgt.range (h0 : 0 ≤ u) (hu : u < 1) (B : BaseOkW n d dlo dhi) {s t : MTree Nat} {v : α}
    (h : RWgt val fin u n d s t v) :
    dlo * (1 - u) ^ (2 * n) ≤ val v ∧ val v ≤ dhi / (1 - u) ^ (2 * n) := by
  have hst := h.disj
  have cst : s.leaves.card + t.leaves.card ≤ n := by
    have : (s.leaves ∪ t.leaves).card ≤ n :=
      card_le_of_lt (fun i hi => by
        rcases mem_union.mp hi with h' | h'
        · exact h.ls i h'
        · exact h.lt i h')
    rwa [card_union_of_disjoint hst] at this
  have hk : 2 * (s.leaves.card + t.leaves.card - 2) ≤ 2 * n := by omega
  obtain ⟨a1, a2⟩ := B.wdist_mem s t h.ls h.lt hst
  have hA : 0 ≤ wdist d s t := le_trans B.dlo_pos.le a1
  have hnear := h.near.mono h0 hu hA hk
  have hp := pow_w_pos hu (2 * n)
  refine ⟨le_trans (mul_le_mul_of_nonneg_right a1 hp.le) hnear.1, ?_⟩
  rw [le_div_iff₀ hp]
  exact le_trans hnear.2 a2

theorem RWgt.symm (B : BaseOkW n d dlo dhi) {s t : MTree Nat} {v : α}
    (h : RWgt val fin u n d s t v) : RWgt val fin u n d t s v where
  ls := h.lt
  lt := h.ls
  disj := h.disj.symm
  fin := h.fin
  near := by
    rw [wdist_symm B.symm, Nat.add_comm]
    exact h.near

theorem RWgt.leaf {i j : Nat} (hi : i < n) (hj : j < n) (hij : i ≠ j) {v : α} (fv : fin v)
    (hv : val v = d i j) : RWgt val fin u n d (leaf i) (leaf j) v where
  ls := by intro x hx; rw [leaves_leaf, mem_singleton] at hx; omega
  lt := by intro x hx; rw [leaves_leaf, mem_singleton] at hx; omega
  disj := by rw [leaves_leaf, leaves_leaf, disjoint_singleton]; exact hij
  fin := fv
  near := by
    simp only [leaves_leaf, card_singleton, wdist_leaf_leaf]
    rw [hv]
    exact Near.refl u _

/-- **`RWgt` is propagated by the weighted update.** -/
theorem RWgt.step (RM : Model val fin u lo hi N) (B : BaseOkW n d dlo dhi)
    (Rg : RangeOkW u lo hi n dlo dhi) {ta tb tx : MTree Nat} {va vb : α}
    (hab : Disjoint ta.leaves tb.leaves) (hax : Disjoint ta.leaves tx.leaves)
    (hbx : Disjoint tb.leaves tx.leaves)
    (ha : RWgt val fin u n d ta tx va) (hb : RWgt val fin u n d tb tx vb) :
    RWgt val fin u n d (node ta tb) tx (Gen.weighted va vb) := by
  have h0 := RM.u_nonneg
  have hu := RM.u_lt_one
  have hw := RM.w_pos
  have pa := ta.leaves_nonempty.card_pos
  have pb := tb.leaves_nonempty.card_pos
  have px := tx.leaves_nonempty.card_pos
  have hls : ∀ i ∈ (node ta tb).leaves, i < n := by
    intro i hi
    rw [leaves_node] at hi
    rcases mem_union.mp hi with h' | h'
    · exact ha.ls i h'
    · exact hb.ls i h'
  obtain ⟨a1, a2⟩ := B.wdist_mem ta tx ha.ls ha.lt hax
  obtain ⟨b1, b2⟩ := B.wdist_mem tb tx hb.ls hb.lt hbx
  have hA : 0 ≤ wdist d ta tx := le_trans B.dlo_pos.le a1
  have hB : 0 ≤ wdist d tb tx := le_trans B.dlo_pos.le b1
  obtain ⟨ra1, ra2⟩ := ha.range h0 hu B
  obtain ⟨rb1, rb2⟩ := hb.range h0 hu B
  have hp := pow_w_pos hu (2 * n)
  have hl : 0 < dlo * (1 - u) ^ (2 * n) := mul_pos B.dlo_pos hp
  have hlh : dlo * (1 - u) ^ (2 * n) ≤ dhi / (1 - u) ^ (2 * n) := le_trans ra1 ra2
  have e1 : dlo * (1 - u) ^ (2 * n) * (1 - u) = dlo * (1 - u) ^ (2 * n + 1) := by
    rw [pow_succ]; ring
  obtain ⟨fr, nr⟩ := RM.weighted_near ha.fin hb.fin hA hB ha.near hb.near hl hlh
    (Or.inr ⟨ra1, ra2⟩) (Or.inr ⟨rb1, rb2⟩) (by rw [e1]; exact Rg.lo) (by
      have e : 2 * (dhi / (1 - u) ^ (2 * n)) = 2 * dhi / (1 - u) ^ (2 * n) := by ring
      rw [e, div_le_iff₀ hp]
      have e2 : hi * (1 - u) * (1 - u) ^ (2 * n) = hi * (1 - u) ^ (2 * n + 1) := by
        rw [pow_succ]; ring
      rw [e2]; exact Rg.hi)
  refine ⟨hls, ha.lt, by rw [leaves_node]; exact disjoint_union_left.mpr ⟨hax, hbx⟩, fr, ?_⟩
  rw [wdist_node_left, leaves_node, card_union_of_disjoint hab]
  have hmean : 0 ≤ (wdist d ta tx + wdist d tb tx) / 2 := by positivity
  refine nr.mono h0 hu hmean ?_
  omega

/-- The interface of `Lemmas/RnnState.lean`. -/
theorem lwCompat_RWgt (RM : Model val fin u lo hi N) (B : BaseOkW n d dlo dhi)
    (Rg : RangeOkW u lo hi n dlo dhi) : LWCompat .weighted (RWgt val fin u n d) where
  symm := fun _ _ _ h => h.symm B
  step := fun _ _ _ _ _ _ hab hax hbx ha hb _ => RWgt.step RM B Rg hab hax hbx ha hb

end rwgt

/-- `v` is obtained from the entries `D i j` by iterating the weighted update along the merge trees
`s` and `t`. -/
inductive WgtComputed (n : Nat) (D : Nat → Nat → α) : MTree Nat → MTree Nat → α → Prop
  | leaf (i j : Nat) : i < n → j < n → i ≠ j → WgtComputed n D (leaf i) (leaf j) (D i j)
  | symm {s t : MTree Nat} {v : α} : WgtComputed n D s t v → WgtComputed n D t s v
  | step {ta tb tx : MTree Nat} {va vb : α} :
      Disjoint ta.leaves tb.leaves → Disjoint ta.leaves tx.leaves → Disjoint tb.leaves tx.leaves →
      WgtComputed n D ta tx va → WgtComputed n D tb tx vb →
      WgtComputed n D (node ta tb) tx (Gen.weighted va vb)

/-- **Tree-level rounding-error theorem for weighted linkage.** -/
theorem wgtComputed_near {val : α → K} {fin : α → Prop} {u lo hi dlo dhi : K} {N n : Nat}
    (RM : Model val fin u lo hi N) (D : Nat → Nat → α)
    (B : BaseOkW n (fun i j => val (D i j)) dlo dhi) (Rg : RangeOkW u lo hi n dlo dhi)
    (hfin : ∀ i j, i < n → j < n → i ≠ j → fin (D i j))
    {s t : MTree Nat} {v : α} (h : WgtComputed n D s t v) :
    RWgt val fin u n (fun i j => val (D i j)) s t v := by
  induction h with
  | leaf i j hi hj hij => exact RWgt.leaf hi hj hij (hfin i j hi hj hij) rfl
  | symm _ ih => exact ih.symm B
  | step hab hax hbx _ _ iha ihb => exact RWgt.step RM B Rg hab hax hbx iha ihb

end Kodama.Round
