/-
The guarded, clamped Ward update (`method::ward` after the second `fix:` commit of the crate):

    numerator := (sx+sa)·a + (sx+sb)·b − sx·c
    denom     := sa + sb + sx
    value     := numerator / denom
    least     := if a < b then a else b
    *b        := if !(least < c) && value < least then least else value

(`c = merged_dist = d(A,B)`, `a = d(A,X)`, `b = d(B,X)`.)  The GUARD `!(least < c)` says "the merged
pair is at least as close as either is to `x`"; this is the situation of every merge the algorithms
perform on reducible data, and exactly there the exact Ward value is `≥ least`.  Outside the guard the
function is the unrepaired quotient.

Order-only facts about the generated formula `Gen.ward` (`Kodama/Generated/Method.lean`), for ANY
number type; no field law, no rounding model, Mathlib-free.

* `Gen.wardValue`, `Gen.wardLeast`       names for the two `let`s of the generated code
* `Gen.ward_eq_clamp`                    `Gen.ward` is the guarded clamp of the two (by `rfl`)
* `Gen.ward_of_lt_merged`                guard false (`least < c`): the value is `wardValue`
* `Gen.ward_of_not_lt`                   `¬ value < least`: the clamp is a no-op, the value is `wardValue`
* `Gen.ward_of_guard`                    guard true and `value < least`: the value is `least`
* `Gen.ward_cases`                       the value is `a`, `b` (and then the guard holds), or `wardValue`
* `Gen.ward_not_lt` (`OrderLaws`)        REDUCIBILITY: if `a`, `b`, `c`, `t` are not NaN, `¬ t < c`
                                         (`c ≤ t`), `¬ a < t`, `¬ b < t` then `¬ ward a b c sa sb sx < t`
                                         — whatever `+ − × /` compute (the quotient may be rounded,
                                         infinite, or NaN).  Before the fix this was FALSE of IEEE
                                         floats (the rounded quotient can be below both arguments
                                         although `c ≤ min a b`).
* `Gen.ward_not_lt_least` (`OrderLaws`)  under the guard the value is not below `least`
* `Gen.ward_isNaN_of_value`              the value is not NaN when `a`, `b` and the quotient are not NaN
* `Gen.ward_hom`                         naturality: a map preserving `<` that commutes with the quotient
                                         commutes with the clamped Ward update (C09)
* `Gen.ward_comm` (`OrderLaws`, trichotomy, `add_comm`)
                                         symmetry in `(a, sa) ↔ (b, sb)`.  `least` is a minimum written
                                         with one `<`, so (exactly as for `Gen.single`, `Gen.average`)
                                         swapping the arguments needs "incomparable ⇒ equal", which is
                                         false for `±0` and NaN.

The exact-arithmetic statement "the clamp is a no-op" is `FieldLaws.ward_eq_formula`
(`Kodama/Lemmas/WardExact.lean`).
-/
import Kodama.Generated.Method
import Kodama.Laws
import Kodama.Lemmas.AverageClamp
namespace Kodama.Gen
variable {α : Type} [Num α]

/-- The (possibly rounded) Lance–Williams quotient
`((sx+sa)·a + (sx+sb)·b − sx·c)/(sa+sb+sx)`: the `value` of the code. -/
def wardValue (a b c : α) (sa sb sx : Nat) : α :=
  Num.div
    (Num.sub
      (Num.add (Num.mul (Num.add (Num.ofNat sx) (Num.ofNat sa)) a)
        (Num.mul (Num.add (Num.ofNat sx) (Num.ofNat sb)) b))
      (Num.mul (Num.ofNat sx) c))
    (Num.add (Num.add (Num.ofNat sa) (Num.ofNat sb)) (Num.ofNat sx))

/-- `if a < b then a else b`: the `least` of the code. -/
def wardLeast (a b : α) : α := if Num.lt a b then a else b

theorem wardLeast_eq_averageLeast (a b : α) : wardLeast a b = averageLeast a b := rfl

theorem ward_eq_clamp (a b c : α) (sa sb sx : Nat) :
    ward a b c sa sb sx =
      if (!(Num.lt (wardLeast a b) c)) && Num.lt (wardValue a b c sa sb sx) (wardLeast a b)
      then wardLeast a b else wardValue a b c sa sb sx := rfl

/-- Outside the guard (`least < c`) the function is the unrepaired quotient. -/
theorem ward_of_lt_merged {a b c : α} {sa sb sx : Nat}
    (h : Num.lt (wardLeast a b) c = true) :
    ward a b c sa sb sx = wardValue a b c sa sb sx := by
  rw [ward_eq_clamp, h]; rfl

/-- The clamp does nothing when the quotient is not below the smaller argument. -/
theorem ward_of_not_lt {a b c : α} {sa sb sx : Nat}
    (h : Num.lt (wardValue a b c sa sb sx) (wardLeast a b) = false) :
    ward a b c sa sb sx = wardValue a b c sa sb sx := by
  rw [ward_eq_clamp, h, Bool.and_false]; rfl

/-- Guard true and quotient below `least`: the clamp fires. -/
theorem ward_of_guard {a b c : α} {sa sb sx : Nat}
    (hg : Num.lt (wardLeast a b) c = false)
    (h : Num.lt (wardValue a b c sa sb sx) (wardLeast a b) = true) :
    ward a b c sa sb sx = wardLeast a b := by
  rw [ward_eq_clamp, hg, h]; rfl

theorem wardLeast_cases (a b : α) : wardLeast a b = a ∨ wardLeast a b = b := by
  unfold wardLeast; split
  · exact Or.inl rfl
  · exact Or.inr rfl

/-- The value is `least` (guard true, quotient below `least`), or the quotient. -/
theorem ward_cases' (a b c : α) (sa sb sx : Nat) :
    (ward a b c sa sb sx = wardLeast a b ∧ Num.lt (wardLeast a b) c = false ∧
        Num.lt (wardValue a b c sa sb sx) (wardLeast a b) = true) ∨
      (ward a b c sa sb sx = wardValue a b c sa sb sx ∧
        (Num.lt (wardLeast a b) c = true ∨
          Num.lt (wardValue a b c sa sb sx) (wardLeast a b) = false)) := by
  cases hg : Num.lt (wardLeast a b) c
  · cases h : Num.lt (wardValue a b c sa sb sx) (wardLeast a b)
    · exact Or.inr ⟨ward_of_not_lt h, Or.inr rfl⟩
    · exact Or.inl ⟨ward_of_guard hg h, rfl, rfl⟩
  · exact Or.inr ⟨ward_of_lt_merged hg, Or.inl rfl⟩

/-- The value is one of the arguments, or the quotient. -/
theorem ward_cases (a b c : α) (sa sb sx : Nat) :
    ward a b c sa sb sx = a ∨ ward a b c sa sb sx = b ∨
      ward a b c sa sb sx = wardValue a b c sa sb sx := by
  rcases ward_cases' a b c sa sb sx with ⟨e, -, -⟩ | ⟨e, -⟩
  · rcases wardLeast_cases a b with e' | e'
    · exact Or.inl (e.trans e')
    · exact Or.inr (Or.inl (e.trans e'))
  · exact Or.inr (Or.inr e)

/-- **Reducibility of the clamped Ward update, any ordered number type.**  If the merged pair is at
least as close as the bound (`¬ t < c`) and `t` is a common lower bound of the two (non-NaN)
arguments, then `t` is a lower bound of the result.  Only `OrderLaws` is used: `least ∈ {a, b}` so
`¬ least < t`; with `¬ t < c` this gives `¬ least < c`, i.e. the GUARD IS TRUE; when the clamp fires
the result is `least`, otherwise `¬ value < least` and `¬ least < t` chain through the non-NaN middle
element `least`.  Nothing is assumed about `+ − × /` (the quotient may even be NaN). -/
theorem ward_not_lt (L : OrderLaws α) {a b c t : α} (sa sb sx : Nat)
    (na : Num.isNaN a = false) (nb : Num.isNaN b = false) (nt : Num.isNaN t = false)
    (hc : Num.lt t c = false) (ha : Num.lt a t = false) (hb : Num.lt b t = false) :
    Num.lt (ward a b c sa sb sx) t = false := by
  have hl : Num.lt (wardLeast a b) t = false := by
    rcases wardLeast_cases a b with e | e <;> rw [e] <;> assumption
  have nl : Num.isNaN (wardLeast a b) = false := by
    rcases wardLeast_cases a b with e | e <;> rw [e] <;> assumption
  have hg : Num.lt (wardLeast a b) c = false := L.le_trans c t (wardLeast a b) nt hc hl
  cases h : Num.lt (wardValue a b c sa sb sx) (wardLeast a b)
  · rw [ward_of_not_lt h]
    exact L.le_trans t (wardLeast a b) (wardValue a b c sa sb sx) nl hl h
  · rw [ward_of_guard hg h]; exact hl

/-- Under the guard (`¬ least < c`) the value is at least the smaller argument. -/
theorem ward_not_lt_least (L : OrderLaws α) {a b c : α} (sa sb sx : Nat)
    (hg : Num.lt (wardLeast a b) c = false) :
    Num.lt (ward a b c sa sb sx) (wardLeast a b) = false := by
  cases h : Num.lt (wardValue a b c sa sb sx) (wardLeast a b)
  · rw [ward_of_not_lt h]; exact h
  · rw [ward_of_guard hg h]; exact L.irrefl _

/-- No NaN out of the clamp when neither the arguments nor the quotient is NaN. -/
theorem ward_isNaN_of_value {a b c : α} {sa sb sx : Nat}
    (na : Num.isNaN a = false) (nb : Num.isNaN b = false)
    (nv : Num.isNaN (wardValue a b c sa sb sx) = false) :
    Num.isNaN (ward a b c sa sb sx) = false := by
  rcases ward_cases a b c sa sb sx with e | e | e <;> rw [e] <;> assumption

/-- `least` is symmetric under trichotomy (the same argument as for `Gen.single`). -/
theorem wardLeast_comm (L : OrderLaws α)
    (T : ∀ a b : α, Num.lt a b = false → Num.lt b a = false → a = b) (a b : α) :
    wardLeast a b = wardLeast b a := averageLeast_comm L T a b

/-- Symmetry of the clamped Ward update in `(a, sa) ↔ (b, sb)`: `add_comm` for the quotient (outer
sum of the numerator, `sa + sb` of the denominator), `OrderLaws.asymm` + trichotomy for `least`. -/
theorem ward_comm (L : OrderLaws α)
    (T : ∀ a b : α, Num.lt a b = false → Num.lt b a = false → a = b)
    (hadd : ∀ a b : α, Num.add a b = Num.add b a) (a b c : α) (sa sb sx : Nat) :
    ward a b c sa sb sx = ward b a c sb sa sx := by
  have hv : wardValue a b c sa sb sx = wardValue b a c sb sa sx := by
    unfold wardValue
    rw [hadd (Num.mul (Num.add (Num.ofNat sx) (Num.ofNat sa)) a),
      hadd (Num.ofNat sa : α) (Num.ofNat sb)]
  rw [ward_eq_clamp, ward_eq_clamp, hv, wardLeast_comm L T a b]

/-- **Naturality.**  A map that preserves `<` and commutes with the quotient commutes with the
clamped Ward update (guard and clamp only compare and select).  Used for C09 (scaling by a power of
two). -/
theorem ward_hom {β : Type} [Num β] {h : α → β}
    (hlt : ∀ a b : α, Num.lt (h a) (h b) = Num.lt a b) (a b c : α) (sa sb sx : Nat)
    (hval : h (wardValue a b c sa sb sx) = wardValue (h a) (h b) (h c) sa sb sx) :
    h (ward a b c sa sb sx) = ward (h a) (h b) (h c) sa sb sx := by
  have hl : h (wardLeast a b) = wardLeast (h a) (h b) := by
    unfold wardLeast; rw [hlt]; split <;> rfl
  rw [ward_eq_clamp, ward_eq_clamp, ← hval, ← hl, hlt, hlt]
  split <;> rfl

end Kodama.Gen
