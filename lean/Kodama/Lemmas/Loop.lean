/- Generic loop lemmas: totality of `foldlM` / `iterM` under an invariant. -/
import Kodama.Model.Primitive
import Kodama.Lemmas.Except
namespace Kodama

/-- `foldlM` succeeds and re-establishes an index-dependent invariant. -/
theorem foldlM_ok_idx {σ β : Type} (P : Nat → σ → Prop) (f : σ → β → R σ) :
    ∀ (l : List β) (i : Nat) (s : σ),
      (∀ j s x, l[j]? = some x → P (i + j) s → ∃ s', f s x = .ok s' ∧ P (i + j + 1) s') →
      P i s → ∃ s', l.foldlM f s = .ok s' ∧ P (i + l.length) s' := by
  intro l
  induction l with
  | nil => intro i s _ hs; exact ⟨s, rfl, by simpa using hs⟩
  | cons x xs ih =>
    intro i s hstep hs
    obtain ⟨s1, h1, hp1⟩ := hstep 0 s x (by simp) (by simpa using hs)
    have := ih (i + 1) s1 (by
      intro j s x' hx' hp
      have := hstep (j + 1) s x' (by simpa using hx') (by
        have : i + (j + 1) = i + 1 + j := by omega
        rw [this]; exact hp)
      have e : i + (j + 1) + 1 = i + 1 + j + 1 := by omega
      rw [e] at this; exact this) (by simpa using hp1)
    obtain ⟨s2, h2, hp2⟩ := this
    refine ⟨s2, ?_, ?_⟩
    · simp only [List.foldlM, bind, Except.bind, h1]; exact h2
    · have : i + (x :: xs).length = i + 1 + xs.length := by simp; omega
      rw [this]; exact hp2

/-- `foldlM` succeeds and preserves an invariant. -/
theorem foldlM_ok {σ β : Type} (P : σ → Prop) (f : σ → β → R σ) (l : List β)
    (hstep : ∀ s x, x ∈ l → P s → ∃ s', f s x = .ok s' ∧ P s') :
    ∀ s, P s → ∃ s', l.foldlM f s = .ok s' ∧ P s' := by
  intro s hs
  have := foldlM_ok_idx (fun _ s => P s) f l 0 s
    (fun j s x hx hp => hstep s x (List.mem_of_getElem? hx) hp) hs
  exact this

/-- `iterM` succeeds and advances an index-dependent invariant. -/
theorem iterM_ok {σ : Type} (P : Nat → σ → Prop) (f : σ → R σ) :
    ∀ (k i : Nat) (s : σ),
      (∀ j s, j < k → P (i + j) s → ∃ s', f s = .ok s' ∧ P (i + j + 1) s') →
      P i s → ∃ s', iterM f k s = .ok s' ∧ P (i + k) s' := by
  intro k
  induction k with
  | zero => intro i s _ hs; exact ⟨s, rfl, by simpa using hs⟩
  | succ k ih =>
    intro i s hstep hs
    obtain ⟨s1, h1, hp1⟩ := hstep 0 s (by omega) (by simpa using hs)
    obtain ⟨s2, h2, hp2⟩ := ih (i + 1) s1 (by
      intro j s hj hp
      have := hstep (j + 1) s (by omega) (by
        have : i + (j + 1) = i + 1 + j := by omega
        rw [this]; exact hp)
      have e : i + (j + 1) + 1 = i + 1 + j + 1 := by omega
      rw [e] at this; exact this) (by simpa using hp1)
    refine ⟨s2, ?_, ?_⟩
    · simp only [iterM, bind, Except.bind, h1]; exact h2
    · have : i + (k + 1) = i + 1 + k := by omega
      rw [this]; exact hp2

end Kodama
