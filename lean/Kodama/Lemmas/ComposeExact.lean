/-
Exact-arithmetic discharge of the hypotheses of the `generic_with` theorems (`Props/C03.lean`,
section `Generic`), for the composition files `Props/C03Generic.lean`, `C06All.lean`,
`C11Generic.lean`, `C02Generic.lean`.

`K` is a linearly ordered field whose `Num K` instance computes the field operations and has no NaN
(`ExactLaws K`, `Lemmas/FieldInstances.lean`).  `ExactLaws` deliberately leaves `==`, `sqrt`, `abs`
and the two sentinels `T::max_value()`, `T::infinity()` UNCONSTRAINED, but `generic_with` exits its
repair loop on `==` and compares matrix entries with `T::max_value()`, and `mst_with` compares them
with `T::infinity()`.  What `ExactLaws` cannot give is therefore kept as explicit, named hypotheses:

* `BeqExact K`            `Num.beq a b = decide (a = b)` (true of `fieldNum K`, `fieldNumWith K sq`).
* `GenericSafe m data`    there is a set `G` of values, all strictly below `T::max_value()`, closed
                          under the update of method `m` (`UpdClosed G m`) and containing the
                          (squared, for the methods on squares) input entries.
* `InfSafe n data`        no off-diagonal entry exceeds `T::infinity()` (for `mst_with`).

Derived here from `ExactLaws K` (+ `BeqExact K`):
* `BeqExact.beqLe`, `goodSet_exact`   `BeqLe K`, `GoodSet G` for every `G` below the sentinel.
* `lbClosed_exact`        `LBClosed G m` for single / complete / average / weighted / Ward and EVERY `G`
                          (the update of two values `≥ p` is `≥ p`; Ward: given `p ≥` merged distance).
* `genericSafe_of_lt_max` for the four methods that do not read the merged distance (single,
                          complete, average, weighted — the update is a convex combination) the set
                          `{v | v < max_value}` is closed, so `GenericSafe m data` follows from
                          "every input entry is `< max_value`".
* `infSafe_infTop`        `InfSafe` gives `InfTop`.

NOT derived (and false in general): `GenericSafe m data` for Ward / centroid / median from a bound on
the input.  `UpdClosed G m` quantifies over ALL arguments in `G`, and in an Archimedean field the
closure of a non-constant (Ward), resp. non-zero (centroid, median), set under these three formulas
is unbounded (e.g. median: `(a,a,d) ↦ a − d/4`), so a bounded closed `G` exists only for constant /
all-zero matrices.  A run-dependent bound ("every table value of the greedy run is `< max_value`")
is the right hypothesis: `Spec.RunGood` (`Lemmas/SpecRunGood.lean`); the simulation proof of
`generic_with` now takes it (`genericWith_sim_run`, `Lemmas/GenericGreedySim.lean`) and the theorems are
in `Props/C03GenericRun.lean`, `C01Generic.lean`, `C12Generic.lean`.
-/
import Kodama.Lemmas.GenericGreedySpec
import Kodama.Lemmas.FieldInstances
import Kodama.Lemmas.MstPrimInv
namespace Kodama
open Spec

section defs
variable {K : Type} [Field K] [LinearOrder K] [Num K]

/-- `==` of the instance is equality (not part of `ExactLaws`, which leaves `beq` unconstrained). -/
def BeqExact (K : Type) [Field K] [LinearOrder K] [Num K] : Prop :=
  ∀ a b : K, Num.beq a b = decide (a = b)

/-- The sentinel hypothesis of `generic_with` in exact arithmetic: a set of values below
`T::max_value()`, closed under the update of `m`, containing the (squared) input. -/
def GenericSafe (m : Method) (data : Array K) : Prop :=
  ∃ G : K → Prop, (∀ v, G v → v < (Num.maxValue : K)) ∧ UpdClosed G m ∧
    ∀ i (h : i < (squareData m data).size), G (squareData m data)[i]

/-- The sentinel hypothesis of `mst_with` in exact arithmetic: no off-diagonal entry exceeds
`T::infinity()`. -/
def InfSafe (n : Nat) (data : Array K) : Prop :=
  ∀ u v, u < n → v < n → u ≠ v → entry n data Num.infinity u v ≤ (Num.infinity : K)

theorem beqExact_fieldNumWith (K : Type) [Field K] [LinearOrder K] (sq : K → K) :
    @BeqExact K _ _ (fieldNumWith K sq) := fun _ _ => rfl

theorem BeqExact.beqLe (B : BeqExact K) (E : ExactLaws K) : BeqLe K := by
  intro a b h
  rw [B, decide_eq_true_eq] at h
  subst h
  exact E.field.lt_false.2 le_rfl

theorem goodSet_exact (B : BeqExact K) (E : ExactLaws K) {G : K → Prop}
    (hG : ∀ v, G v → v < (Num.maxValue : K)) : GoodSet G where
  notNaN v _ := E.noNaN v
  ltMax v hv := E.field.lt_true.2 (hG v hv)
  beqRefl v _ := by rw [B]; simp

theorem infSafe_infTop (E : ExactLaws K) {n : Nat} {data : Array K} (h : InfSafe n data) :
    InfTop n data :=
  ⟨E.noNaN _, fun u v hu hv huv => E.field.lt_false.2 (h u v hu hv huv)⟩

end defs

/-- The call `r` returned normally and the returned dendrogram has exactly the steps `steps`
(labels, heights and sizes). -/
def ReturnsSteps {α : Type} (r : R (State α × Dendrogram α × Mat α)) (steps : List (Step α)) :
    Prop :=
  ∃ st' d' M', r = .ok (st', d', M') ∧ d'.steps.toList = steps

section field
variable {K : Type} [Field K] [LinearOrder K] [IsStrictOrderedRing K] [Num K]

/-- average: a weighted mean (positive weights) of two values `≥ p` is `≥ p`. -/
theorem lbClosed_average_exact (E : ExactLaws K) (G : K → Prop) : LBClosed G .average := by
  intro sizes sa sb dist x va vb v p _ hs _ _ _ _ h h1 h2
  obtain ⟨hsa, hsb⟩ := hs rfl
  simp only [updFn, pure, Except.pure, Except.ok.injEq] at h
  subst h
  exact E.field.reduciblePos_average va vb p sa sb 1 hsa hsb Nat.one_pos (E.noNaN _) (E.noNaN _)
    (E.noNaN _) h1 h2

/-- weighted: the mean of two values `≥ p` is `≥ p`. -/
theorem lbClosed_weighted_exact (E : ExactLaws K) (G : K → Prop) : LBClosed G .weighted := by
  intro sizes sa sb dist x va vb v p _ _ _ _ _ _ h h1 h2
  simp only [updFn, pure, Except.pure, Except.ok.injEq] at h
  subst h
  exact E.field.reducible_weighted va vb p sa sb 0 (E.noNaN _) (E.noNaN _) (E.noNaN _) h1 h2

/-- Ward: `((sx+sa)·a + (sx+sb)·b − sx·dist)/(sa+sb+sx) ≥ p` when `a, b ≥ p ≥ dist`, sizes
positive. -/
theorem lbClosed_ward_exact (E : ExactLaws K) (G : K → Prop) : LBClosed G .ward := by
  intro sizes sa sb dist x va vb v p hpos hs hd _ _ _ h h1 h2
  obtain ⟨hsa, hsb⟩ := hs rfl
  obtain ⟨-, hdp⟩ := hd rfl
  simp only [updFn, bind, Except.bind] at h
  cases hx : aget sizes x with
  | error e => rw [hx] at h; cases h
  | ok sx =>
    rw [hx] at h
    simp only [pure, Except.pure, Except.ok.injEq] at h
    subst h
    obtain ⟨hlt, rfl⟩ := aget_ok.1 hx
    have hsx : 0 < sizes[x] := hpos x hlt
    have L := E.field
    rw [L.lt_false] at h1 h2 hdp ⊢
    rw [L.ward_eq_formula va vb dist sa sb sizes[x] (by omega)]
    have ha : (0 : K) < (sa : K) := Nat.cast_pos.mpr hsa
    have hb : (0 : K) < (sb : K) := Nat.cast_pos.mpr hsb
    have hx' : (0 : K) < (sizes[x] : K) := Nat.cast_pos.mpr hsx
    rw [le_div_iff₀ (by linarith)]
    have e1 := mul_le_mul_of_nonneg_left h1 (by linarith : (0 : K) ≤ (sizes[x] : K) + sa)
    have e2 := mul_le_mul_of_nonneg_left h2 (by linarith : (0 : K) ≤ (sizes[x] : K) + sb)
    have e3 := mul_le_mul_of_nonneg_left hdp hx'.le
    linarith

/-- `LBClosed G m` for the five sorted methods (exactly those with `l1Mode m = .fix`), every `G`. -/
theorem lbClosed_exact (E : ExactLaws K) (G : K → Prop) (m : Method)
    (hm : m.requiresSorting = true) : LBClosed G m := by
  cases m with
  | single => exact lbClosed_single G
  | complete => exact lbClosed_complete G
  | average => exact lbClosed_average_exact E G
  | weighted => exact lbClosed_weighted_exact E G
  | ward => exact lbClosed_ward_exact E G
  | centroid => exact absurd hm (by decide)
  | median => exact absurd hm (by decide)

/-- `LBClosed` wherever the `generic_with` theorems ask for it. -/
theorem lbClosed_exact_of_fix (E : ExactLaws K) (G : K → Prop) (m : Method) :
    l1Mode m = .fix → LBClosed G m := by
  intro h
  apply lbClosed_exact E G m
  cases m <;> first | rfl | (simp [l1Mode] at h)

/-- `{v | v < max_value}` is closed under the update of average (a convex combination). -/
theorem updClosed_ltMax_average (E : ExactLaws K) :
    UpdClosed (fun v : K => v < (Num.maxValue : K)) .average := by
  intro sizes sa sb dist x va vb v _ hs _ ha hb h
  obtain ⟨hsa, hsb⟩ := hs rfl
  simp only [updFn, pure, Except.pure, Except.ok.injEq] at h
  subst h
  have L := E.field
  rw [L.average_eq_mean va vb sa sb (by omega)]
  have ha' : (0 : K) < (sa : K) := Nat.cast_pos.mpr hsa
  have hb' : (0 : K) < (sb : K) := Nat.cast_pos.mpr hsb
  rw [div_lt_iff₀ (by linarith)]
  have e1 := mul_lt_mul_of_pos_left ha ha'
  have e2 := mul_lt_mul_of_pos_left hb hb'
  linarith

/-- `{v | v < max_value}` is closed under the update of weighted (the mean). -/
theorem updClosed_ltMax_weighted (E : ExactLaws K) :
    UpdClosed (fun v : K => v < (Num.maxValue : K)) .weighted := by
  intro sizes sa sb dist x va vb v _ _ _ ha hb h
  simp only [updFn, pure, Except.pure, Except.ok.injEq] at h
  subst h
  have L := E.field
  simp only [Gen.weighted, L.add, L.mul, L.half]
  linarith

/-- For single, complete, average, weighted: inputs below `max_value` suffice. -/
theorem genericSafe_of_lt_max (E : ExactLaws K) (m : Method) (hm : usesDist m = false)
    (data : Array K) (hin : ∀ v ∈ data.toList, v < (Num.maxValue : K)) : GenericSafe m data := by
  have hsq : m.onSquares = false := by cases m <;> first | rfl | (simp [usesDist] at hm)
  refine ⟨fun v => v < (Num.maxValue : K), fun _ h => h, ?_, ?_⟩
  · cases m with
    | single => exact updClosed_single _
    | complete => exact updClosed_complete _
    | average => exact updClosed_ltMax_average E
    | weighted => exact updClosed_ltMax_weighted E
    | ward => simp [usesDist] at hm
    | centroid => simp [usesDist] at hm
    | median => simp [usesDist] at hm
  · refine squareData_good (G := fun v => v < (Num.maxValue : K)) m data ?_
    intro v hv
    rw [hsq]
    exact hin v hv

end field
end Kodama
