/-
From "pairwise minimum on component maps" to `Spec.GreedyValid .single`.

* `wf_stateAt`        replaying ANY well-formed step list (`Spec.WellFormed`) from the initial state:
                      before step `i` the live labels are the labels `< n+i` not yet used, they are
                      distinct, `n - i` in number, and the table sizes are `Spec.sz` (no number law,
                      any method).
* `greedy_of_pairMin` let `os` be a well-formed list whose label `n+k` has beneath it the component
                      of the `k`-th edge of `ps` after `k+1` edges and whose heights are those of `ps`
                      (`OutOf`: what `relabel_leaves` says).  If, for every `i`, no entry between two
                      different components after `i` edges is below `ps[i].d` and some entry between
                      the components of the endpoints of `ps[i]` is not above it, then `os` is a greedy
                      run of the single-linkage specification.

                      Without further laws the conclusion is `Spec.GreedyValidUpTo` (recorded
                      height order-equivalent to the table value, `OutOf.greedyValidUpTo`); with
                      `LtTrichotomy` it is `Spec.GreedyValid` (`OutOf.greedyValid`): the spec demands
                      `st.d = D c1 c2` as an EQUALITY, the argument gives order-equivalence.

Number laws: `OrderLaws` (+ `LtTrichotomy` for the last step), input hypothesis `NoNaN`.
-/
import Kodama.Lemmas.MstGreedyUpTo
import Kodama.Lemmas.MstPrimExact
namespace Kodama
open Spec
variable {α : Type} [Num α]

namespace Spec

/-- `merge_StInv` needs only that the two merged labels are distinct live labels. -/
theorem merge_StInv' {m : Method} {n i : Nat} {s : NState α} {a b : Nat} (hi : StInv n i s)
    (h1 : a ∈ s.live) (h2 : b ∈ s.live) (h3 : a ≠ b) : StInv n (i + 1) (merge m s a b) := by
  refine ⟨?_, ?_, ?_, ?_⟩
  · simp [hi.next]; omega
  · intro l hl
    rcases (mem_merge_live m s _ _ l).1 hl with ⟨h, -, -⟩ | h
    · have := hi.lt l h; simp; omega
    · simp [h]
  · show ((s.live.filter _) ++ [s.next]).Nodup
    rw [List.nodup_append]
    refine ⟨hi.nodup.filter _, by simp, ?_⟩
    intro a ha b hb
    have ha' : a ∈ s.live := (List.mem_filter.1 ha).1
    have := hi.lt a ha'
    simp at hb
    omega
  · show ((s.live.filter _) ++ [s.next]).length + (i + 1) = n
    have := filter_two_length s.live a b hi.nodup h1 h2 h3
    have := hi.len
    simp only [List.length_append, List.length_singleton]
    omega

omit [Num α] in
theorem usedBefore_succ {os : List (Step α)} {i l : Nat} {st : Step α} (hst : os[i]? = some st) :
    UsedBefore os (i + 1) l ↔ UsedBefore os i l ∨ st.c1 = l ∨ st.c2 = l := by
  constructor
  · rintro ⟨j, s, hj, hs, hu⟩
    by_cases hji : j < i
    · exact Or.inl ⟨j, s, hji, hs, hu⟩
    · have : j = i := by omega
      subst this
      rw [hst] at hs
      cases hs
      exact Or.inr hu
  · rintro (⟨j, s, hj, hs, hu⟩ | hu)
    · exact ⟨j, s, by omega, hs, hu⟩
    · exact ⟨i, st, Nat.lt_succ_self i, hst, hu⟩

/-- Bookkeeping of the replay of a well-formed list, before step `i`. -/
structure WInv (n : Nat) (os : List (Step α)) (i : Nat) (s : NState α) : Prop where
  st : StInv n i s
  live : ∀ l, l ∈ s.live ↔ l < n + i ∧ ¬ UsedBefore os i l
  size : ∀ l, l < n + i → s.size l = sz n os l

/-- Replaying a well-formed step list: live labels and sizes before every step. -/
theorem wf_stateAt (m : Method) {n : Nat} {data : Array α} {os : List (Step α)}
    (W : WellFormed n os) : ∀ i, i ≤ os.length →
      WInv n os i (stateAt m (init m n data) os i) := by
  intro i
  induction i with
  | zero =>
    intro _
    rw [stateAt_zero]
    refine ⟨init_StInv m n data, ?_, ?_⟩
    · intro l
      simp only [init, List.mem_range, Nat.add_zero]
      constructor
      · intro hl
        refine ⟨hl, ?_⟩
        rintro ⟨j, s, hj, -⟩
        omega
      · exact fun h => h.1
    · intro l hl
      have : l < n := by omega
      simp [init, sz, this]
  | succ i ih =>
    intro hi
    have hi' : i < os.length := by omega
    have hst : os[i]? = some os[i] := by simp [hi']
    generalize os[i] = st at hst
    have hw := ih (by omega)
    rw [stateAt_succ _ _ _ _ _ hst]
    generalize stateAt m (init m n data) os i = s at hw
    have hord := W.ordered i st hst
    have hfresh := W.fresh i st hst
    have hc1 : st.c1 ∈ s.live := (hw.live _).mpr ⟨by omega, hfresh.1⟩
    have hc2 : st.c2 ∈ s.live := (hw.live _).mpr ⟨by omega, hfresh.2⟩
    have hnext : s.next = n + i := hw.st.next
    refine ⟨merge_StInv' hw.st hc1 hc2 (by omega), ?_, ?_⟩
    · intro l
      rw [mem_merge_live, usedBefore_succ hst, hnext, hw.live]
      constructor
      · rintro (⟨⟨h1, h2⟩, h3, h4⟩ | rfl)
        · refine ⟨by omega, ?_⟩
          rintro (h | h | h)
          · exact h2 h
          · exact h3 h.symm
          · exact h4 h.symm
        · refine ⟨by omega, ?_⟩
          rintro (⟨j, s', hj, hs', hu⟩ | h | h)
          · have := W.ordered j s' hs'
            omega
          · omega
          · omega
      · rintro ⟨h1, h2⟩
        by_cases hl : l = n + i
        · exact Or.inr hl
        · left
          exact ⟨⟨by omega, fun h => h2 (Or.inl h)⟩, fun h => h2 (Or.inr (Or.inl h.symm)),
            fun h => h2 (Or.inr (Or.inr h.symm))⟩
    · intro l hl
      rw [merge_size, hnext]
      by_cases hl' : l = n + i
      · subst hl'
        have : ¬ n + i < n := by omega
        simp only [if_true, sz, this, if_false, Nat.add_sub_cancel_left, hst]
        rw [W.size i st hst, hw.size _ (by omega), hw.size _ (by omega)]
      · simp only [hl', if_false]
        exact hw.size l (by omega)

end Spec

/-- The step list `os` carries the heights of `ps`, and beneath its label `n + k` lies the component
of the `k`-th edge of `ps` after `k + 1` edges (what `relabel_wellFormed` and `relabel_leaves` say
about the output of `relabel`). -/
structure OutOf (n : Nat) (ps os : List (Step α)) : Prop where
  wf : WellFormed n os
  len : os.length = ps.length
  raw : RawTree n (edgesOf ps)
  out : ∀ (k : Nat) (st : Step α), os[k]? = some st → ∃ s0, ps[k]? = some s0 ∧ st.d = s0.d ∧
    ∀ y, y ∈ leaves n os os.length (n + k) ↔
      (y < n ∧ compAt (edgesOf ps) (k + 1) y = compAt (edgesOf ps) (k + 1) s0.c1)

omit [Num α] in
theorem edgesOf_at {ps : List (Step α)} {k : Nat} {s0 : Step α} (hs0 : ps[k]? = some s0) :
    (edgesOf ps)[k]? = some (s0.c1, s0.c2) := by simp [edgesOf, hs0]

section
variable {n : Nat} {ps os : List (Step α)} (O : OutOf n ps os)
include O

omit [Num α] in
theorem OutOf.under_new_iff {k : Nat} {s0 : Step α} (hs0 : ps[k]? = some s0) (u : Nat) :
    Under n os u (n + k) ↔
      (u < n ∧ compAt (edgesOf ps) (k + 1) u = compAt (edgesOf ps) (k + 1) s0.c1) := by
  have hk : k < os.length := by rw [O.len]; exact (List.getElem?_eq_some_iff.mp hs0).1
  obtain ⟨s0', hs0', -, hmem⟩ := O.out k os[k] (by simp [hk])
  rw [hs0] at hs0'
  cases hs0'
  rw [← mem_leaves_iff O.wf.ordered os.length (n + k) (by omega)]
  exact hmem u

omit [Num α] in
/-- Two observations beneath one live label are in one component. -/
theorem OutOf.under_same_comp {i : Nat} {s : NState α} (hst : StInv n i s) {x : Nat}
    (hx : x ∈ s.live) {u v : Nat} (hu : Under n os u x) (hv : Under n os v x) :
    compAt (edgesOf ps) i u = compAt (edgesOf ps) i v := by
  have hxi : x < n + i := by have := hst.lt x hx; have := hst.next; omega
  by_cases hxn : x < n
  · rw [hu.eq_of_lt hxn, hv.eq_of_lt hxn]
  · obtain ⟨k, rfl⟩ : ∃ k, x = n + k := ⟨x - n, by omega⟩
    have hk : k < ps.length := by
      have := hu.index_lt (by omega)
      rw [← O.len]; omega
    have hs0 : ps[k]? = some ps[k] := by simp [hk]
    have h1 := ((O.under_new_iff hs0 u).mp hu).2
    have h2 := ((O.under_new_iff hs0 v).mp hv).2
    exact compAt_mono _ (h1.trans h2.symm) i (by omega)

/-- Two observations of one component are beneath one live label. -/
theorem OutOf.comp_same_under {data : Array α} {i : Nat} {s : NState α}
    (hs : SInv n data os i s) {u v : Nat} (hu : u < n) (hv : v < n)
    (hc : compAt (edgesOf ps) i u = compAt (edgesOf ps) i v) :
    ∃ x ∈ s.live, Under n os u x ∧ Under n os v x := by
  by_cases huv : u = v
  · subst huv
    obtain ⟨x, hx, hux⟩ := hs.cover u hu
    exact ⟨x, hx, hux, hux⟩
  · obtain ⟨k, e, hk, he, h1, h2⟩ := compAt_first_join (edgesOf ps) huv i hc
    obtain ⟨s0, hs0, rfl⟩ := edgesOf_getElem? he
    have hU1 := (O.under_new_iff hs0 u).mpr ⟨hu, h1⟩
    have hU2 := (O.under_new_iff hs0 v).mpr ⟨hv, h2⟩
    obtain ⟨x, hx, hsub⟩ := hs.sub (n + k) (by omega)
    exact ⟨x, hx, hsub u hU1, hsub v hU2⟩

variable {data : Array α} (L : OrderLaws α) (hnan : NoNaN n data)
  (hnn : ∀ s ∈ ps, Num.isNaN s.d = false)
  (hlb : ∀ (i : Nat) (s0 : Step α), ps[i]? = some s0 → ∀ u v, u < n → v < n →
    compAt (edgesOf ps) i u ≠ compAt (edgesOf ps) i v →
    Num.lt (entry n data Num.infinity u v) s0.d = false)
  (hatt : ∀ (i : Nat) (s0 : Step α), ps[i]? = some s0 → ∃ u v, u < n ∧ v < n ∧
    compAt (edgesOf ps) i u = compAt (edgesOf ps) i s0.c1 ∧
    compAt (edgesOf ps) i v = compAt (edgesOf ps) i s0.c2 ∧
    Num.lt s0.d (entry n data Num.infinity u v) = false)
include L hnan hnn hlb hatt

/-- Step `i` of `os` is an admissible greedy move, with height up to order-equivalence, in any
state satisfying the bookkeeping and the single-linkage invariants. -/
theorem OutOf.admissibleUpTo {i : Nat} {st : Step α} {s : NState α} (hst : os[i]? = some st)
    (hw : WInv n os i s) (hs : SInv n data os i s) : AdmissibleUpTo .single s st := by
  obtain ⟨s0, hs0, hd, -⟩ := O.out i st hst
  have hord := O.wf.ordered i st hst
  have hfresh := O.wf.fresh i st hst
  have hc1 : st.c1 ∈ s.live := (hw.live _).mpr ⟨by omega, hfresh.1⟩
  have hc2 : st.c2 ∈ s.live := (hw.live _).mpr ⟨by omega, hfresh.2⟩
  have hne12 : st.c1 ≠ st.c2 := by omega
  have he := edgesOf_at hs0
  have hs0n : Num.isNaN s0.d = false := hnn s0 (List.mem_of_getElem? hs0)
  -- no live pair is below the weight of the processed edge
  have hA : ∀ x ∈ s.live, ∀ y ∈ s.live, x ≠ y → Num.lt (s.D x y) s0.d = false := by
    intro x hx y hy hxy
    obtain ⟨u, v, hu, hv, e⟩ := hs.att x hx y hy hxy
    rw [e]
    apply hlb i s0 hs0 u v hu.lt_n hv.lt_n
    intro hc
    obtain ⟨z, hz, huz, hvz⟩ := O.comp_same_under hs hu.lt_n hv.lt_n hc
    exact hxy ((hs.disj x hx z hz u hu huz).trans (hs.disj y hy z hz v hv hvz).symm)
  -- the endpoints of the processed edge lie beneath the two merged labels, one each
  have hrange := O.raw.inRange (s0.c1, s0.c2) (List.mem_of_getElem? he)
  simp only at hrange
  have hU1 : Under n os s0.c1 (n + i) := (O.under_new_iff hs0 _).mpr ⟨hrange.1, rfl⟩
  have hU2 : Under n os s0.c2 (n + i) :=
    (O.under_new_iff hs0 _).mpr ⟨hrange.2, (compAt_edge _ he (Nat.lt_succ_self i)).symm⟩
  have hcne : compAt (edgesOf ps) i s0.c1 ≠ compAt (edgesOf ps) i s0.c2 :=
    compAt_ne O.raw.eff he
  have hside : (Under n os s0.c1 st.c1 ∧ Under n os s0.c2 st.c2) ∨
      (Under n os s0.c1 st.c2 ∧ Under n os s0.c2 st.c1) := by
    rcases hU1.node hst with a1 | a1 <;> rcases hU2.node hst with a2 | a2
    · exact absurd (O.under_same_comp hw.st hc1 a1 a2) hcne
    · exact Or.inl ⟨a1, a2⟩
    · exact Or.inr ⟨a1, a2⟩
    · exact absurd (O.under_same_comp hw.st hc2 a1 a2) hcne
  -- the table value of the merged pair is not above the weight
  have hB : Num.lt s0.d (s.D st.c1 st.c2) = false := by
    obtain ⟨u, v, hu, hv, hcu, hcv, hle⟩ := hatt i s0 hs0
    obtain ⟨z1, hz1, hu1, hz1'⟩ := O.comp_same_under hs hu hrange.1 hcu
    obtain ⟨z2, hz2, hv2, hz2'⟩ := O.comp_same_under hs hv hrange.2 hcv
    rcases hside with ⟨a1, a2⟩ | ⟨a1, a2⟩
    · have e1 : z1 = st.c1 := hs.disj z1 hz1 _ hc1 s0.c1 hz1' a1
      have e2 : z2 = st.c2 := hs.disj z2 hz2 _ hc2 s0.c2 hz2' a2
      rw [e1] at hu1
      rw [e2] at hv2
      have huv : u ≠ v := fun e => hne12 (hs.disj _ hc1 _ hc2 u hu1 (e ▸ hv2))
      exact L.le_trans _ _ _ (hnan u v hu hv huv) (hs.lb _ hc1 _ hc2 hne12 u v hu1 hv2) hle
    · have e1 : z1 = st.c2 := hs.disj z1 hz1 _ hc2 s0.c1 hz1' a1
      have e2 : z2 = st.c1 := hs.disj z2 hz2 _ hc1 s0.c2 hz2' a2
      rw [e1] at hu1
      rw [e2] at hv2
      have hvu : v ≠ u := fun e => hne12 (hs.disj _ hc1 _ hc2 v hv2 (e ▸ hu1))
      exact L.le_trans _ _ _ (hnan v u hv hu hvu) (hs.lb _ hc1 _ hc2 hne12 v u hv2 hu1)
        (by rw [entry_symm]; exact hle)
  refine ⟨hc1, hc2, hord.1, ?_, ⟨?_, ?_⟩, ?_⟩
  · intro x hx y hy hxy
    exact L.le_trans _ _ _ hs0n hB (hA x hx y hy hxy)
  · rw [hd]; exact hB
  · rw [hd]; exact hA _ hc1 _ hc2 hne12
  · rw [O.wf.size i st hst, hw.size _ (by omega), hw.size _ (by omega)]

/-- **Replay, up to order-equivalence of the heights** (no trichotomy). -/
theorem OutOf.greedyValidUpTo : GreedyValidUpTo .single n data os := by
  refine ⟨O.wf.len, (greedyFromUpTo_iff _ _ _).2 ?_⟩
  have hW := wf_stateAt .single (data := data) O.wf
  have hS : ∀ i, i ≤ os.length →
      SInv n data os i (stateAt .single (init .single n data) os i) := by
    intro i
    induction i with
    | zero => intro _; simpa using init_SInv L n data os
    | succ j ih =>
      intro hj
      have hj' : j < os.length := by omega
      have hst : os[j]? = some os[j] := by simp [hj']
      rw [stateAt_succ _ _ _ _ _ hst]
      have ha := O.admissibleUpTo L hnan hnn hlb hatt hst (hW j (by omega)) (ih (by omega))
      exact merge_SInv' L hnan hst (hW j (by omega)).st (ih (by omega)) ha.1 ha.2.1 ha.2.2.1
  intro i st hst
  have hi : i < os.length := (List.getElem?_eq_some_iff.mp hst).1
  exact O.admissibleUpTo L hnan hnn hlb hatt hst (hW i (by omega)) (hS i (by omega))

/-- **Replay.**  Where incomparable values are equal, `os` is a greedy run of the single-linkage
specification. -/
theorem OutOf.greedyValid (T : LtTrichotomy α) : GreedyValid .single n data os :=
  (greedyValidUpTo_iff L T _ _ _ _).1 (O.greedyValidUpTo L hnan hnn hlb hatt)

end

end Kodama
