/-
Invariants for `genericWith` (Müllner's generic algorithm, src/generic.rs), part 1:
the value hypotheses (`GoodSet`, `UpdClosed`), matrices whose entries are all good (`MGood`),
and the heap / `nearest[]` invariant `QInvB` with its preservation lemmas.

Value hypotheses (all explicit, never axioms):
* `GoodSet G`  : `G` is a user-chosen set of "good" numbers: every `G v` is non-NaN, strictly below
                 `T::max_value()` and satisfies `v == v`.
* `UpdClosed G m` : `G` is closed under the Lance–Williams update of method `m` as `generic.rs`
                 calls it (positive cluster sizes; merged distance in `G` where the method reads it).
                 Proved outright for `single` and `complete` (`updClosed_single/complete`).
                 NOT needed by the invariants any more: the update lemmas (`genericUpdate_ok'`,
                 `genericUpdate_lb'`) ask only that the values THIS update writes are good
                 (`UpdGoodAt`, `Lemmas/GenericInvUpdate.lean`); `UpdClosed` implies that
                 (`updGoodAt_of_updClosed`), as do the run-dependent hypotheses `Spec.RunGood`
                 (`Lemmas/SpecRunGood.lean`) and `GenericRunGood` (`Lemmas/GenericRun.lean`).
-/
import Kodama.Model.Generic
import Kodama.Lemmas.PrimInv
import Kodama.Lemmas.HeapInvOps
set_option linter.unusedSectionVars false
set_option linter.unusedSimpArgs false
set_option linter.unusedVariables false
namespace Kodama
open Spec
variable {α : Type} [Num α]

/-! ### Value hypotheses -/

/-- `G` is a set of good values: non-NaN, strictly below the sentinel `maxValue`, `v == v`. -/
structure GoodSet (G : α → Prop) : Prop where
  notNaN : ∀ v, G v → Num.isNaN v = false
  ltMax : ∀ v, G v → Num.lt v Num.maxValue = true
  beqRefl : ∀ v, G v → Num.beq v v = true

/-- The methods whose update reads `size_a`, `size_b` (`let (size_a, size_b) = ..`). -/
def usesSizes : Method → Bool
  | .average | .ward | .centroid => true
  | _ => false

/-- The methods whose update reads the merged distance (`let dist = dis[[a, b]]`). -/
def usesDist : Method → Bool
  | .ward | .centroid | .median => true
  | _ => false

/-- `G` is closed under the update of method `m`, as called by `generic.rs`: the size table is
positive, `size_a`, `size_b` are positive where the method reads them, and the merged distance is
good where the method reads it. -/
def UpdClosed (G : α → Prop) (m : Method) : Prop :=
  ∀ (sizes : Array Nat) (sa sb : Nat) (dist : α) (x : Nat) (va vb v : α),
    (∀ i (h : i < sizes.size), 0 < sizes[i]) →
    (usesSizes m = true → 0 < sa ∧ 0 < sb) → (usesDist m = true → G dist) →
    G va → G vb → updFn m sizes sa sb dist x va vb = .ok v → G v

theorem updClosed_single (G : α → Prop) : UpdClosed G .single := by
  intro sizes sa sb dist x va vb v _ _ _ ha hb h
  simp only [updFn, Gen.single, pure, Except.pure, Except.ok.injEq] at h
  subst h
  split
  · exact ha
  · exact hb

theorem updClosed_complete (G : α → Prop) : UpdClosed G .complete := by
  intro sizes sa sb dist x va vb v _ _ _ ha hb h
  simp only [updFn, Gen.complete, pure, Except.pure, Except.ok.injEq] at h
  subst h
  split
  · exact ha
  · exact hb

/-! ### A `foldlM` rule whose invariant sees the not yet processed suffix -/

theorem foldlM_ok_rem {σ β : Type} (P : List β → σ → Prop) (f : σ → β → R σ) :
    ∀ (l : List β) (s : σ),
      (∀ x rest s, x ∈ l → P (x :: rest) s → ∃ s', f s x = .ok s' ∧ P rest s') →
      P l s → ∃ s', l.foldlM f s = .ok s' ∧ P [] s' := by
  intro l
  induction l with
  | nil => intro s _ hs; exact ⟨s, rfl, hs⟩
  | cons x xs ih =>
    intro s hstep hs
    obtain ⟨s1, h1, hp1⟩ := hstep x xs s List.mem_cons_self hs
    obtain ⟨s2, h2, hp2⟩ := ih s1
      (fun y rest s hy hp => hstep y rest s (List.mem_cons_of_mem _ hy) hp) hp1
    refine ⟨s2, ?_, hp2⟩
    simp only [List.foldlM, bind, Except.bind, h1]; exact h2

/-- `active.range(a..)` on a live `a`. -/
theorem Active.Rep.range_from {s : Active} {live : List Nat} {n : Nat} (h : s.Rep live n)
    (r : Nat) (hr : r ∈ live) :
    s.range (some r) none = .ok (live.filter (fun x => decide (r ≤ x))) := by
  have := h.range (some r) none (by intro l hl; cases hl; exact Nat.le_of_lt (h.lt_n r hr))
    (by simp)
  simp only [Option.getD_none, Option.getD_some] at this
  rw [this]
  congr 1
  apply List.filter_congr
  intro x hx
  have := h.lt_n x hx
  simp [this]

/-! ### Matrices with good entries -/

/-- A valid matrix over `n` observations all of whose entries are good. -/
structure MGood (G : α → Prop) (n : Nat) (M : Mat α) : Prop where
  valid : M.Valid
  mn : M.n = n
  good : ∀ i (h : i < M.data.size), G M.data[i]

theorem MGood.get {G : α → Prop} {n : Nat} {M : Mat α} (chk : Bool) (hM : MGood G n M)
    (r c : Nat) (hrc : r < c) (hcn : c < n) : ∃ v, M.get chk r c = .ok v ∧ G v := by
  have hcn' : c < M.n := by rw [hM.mn]; exact hcn
  unfold Mat.get
  rw [Mat.idx_ok chk M r c hrc hcn' hM.valid.small]
  have h1 := idxN_lt M.n r c hrc hcn'
  have h2 := hM.valid.size
  have hlt : Gen.idxN M.n r c < M.data.size := by omega
  refine ⟨M.data[Gen.idxN M.n r c], ?_, hM.good _ hlt⟩
  simp [bind, Except.bind, aget, hlt]

theorem MGood.update {G : α → Prop} {n : Nat} {M : Mat α} (chk : Bool) (hM : MGood G n M)
    (upd : Nat → α → α → R α) (x ra ca rb cb : Nat)
    (hupd : ∀ va vb, M.get chk ra ca = .ok va → M.get chk rb cb = .ok vb →
      ∃ v, upd x va vb = .ok v ∧ G v)
    (h1 : ra < ca) (h2 : ca < n) (h3 : rb < cb) (h4 : cb < n) :
    ∃ M', M.update chk upd x ra ca rb cb = .ok M' ∧ MGood G n M' := by
  obtain ⟨va, hva, gva⟩ := hM.get chk ra ca h1 h2
  obtain ⟨vb, hvb, gvb⟩ := hM.get chk rb cb h3 h4
  obtain ⟨v, hv, gv⟩ := hupd va vb hva hvb
  have h4' : cb < M.n := by rw [hM.mn]; exact h4
  have i1 := idxN_lt M.n rb cb h3 h4'
  have i2 := hM.valid.size
  have hlt : Gen.idxN M.n rb cb < M.data.size := by omega
  have hset : M.set chk rb cb v = .ok { M with data := M.data.set (Gen.idxN M.n rb cb) v hlt } := by
    unfold Mat.set
    rw [Mat.idx_ok chk M rb cb h3 h4' hM.valid.small]
    simp [bind, Except.bind, aset, hlt, pure, Except.pure]
  refine ⟨({ M with data := M.data.set (Gen.idxN M.n rb cb) v hlt } : Mat α).tick 2, ?_, ?_⟩
  · unfold Mat.update
    simp only [bind, Except.bind, hva, hvb, hv, hset, pure, Except.pure]
  · refine ⟨hM.valid.of_eq rfl (by simp [Mat.tick]), hM.mn, ?_⟩
    intro i hi
    simp only [Mat.tick, Array.getElem_set]
    split
    · exact gv
    · exact hM.good i (by simpa [Mat.tick] using hi)

/-! ### The heap / `nearest[]` invariant -/

/-- Invariant tying the priority queue and the candidate array to the live set `live`.
`B x c` is an allowed exception for `nearest[x] = c` (used while range 1 of the update is still
redirecting candidates away from the cluster just popped). -/
structure QInvB (G : α → Prop) (n : Nat) (live : List Nat) (B : Nat → Nat → Prop)
    (q : Heap α) (nr : Array Nat) : Prop where
  inv : Heap.Inv q
  psz : q.prio.size = n
  qlive : ∀ o, q.Live o ↔ o ∈ live
  nsz : nr.size = n
  /-- a live row with a larger live neighbour has a live, larger candidate -/
  near : ∀ x ∈ live, ∀ y ∈ live, x < y → ∃ c, nr[x]? = some c ∧ x < c ∧ (c ∈ live ∨ B x c)
  /-- … and a good priority -/
  pgood : ∀ x ∈ live, ∀ y ∈ live, x < y → ∃ p, q.prio[x]? = some p ∧ G p
  /-- the largest live row keeps the sentinel priority -/
  plast : ∀ x ∈ live, (∀ y ∈ live, y ≤ x) → q.prio[x]? = some Num.maxValue

/-- The invariant between the phases: no exceptions. -/
abbrev QInv (G : α → Prop) (n : Nat) (live : List Nat) (q : Heap α) (nr : Array Nat) : Prop :=
  QInvB G n live (fun _ _ => False) q nr

namespace QInvB
variable {G : α → Prop} {n : Nat} {live : List Nat} {B : Nat → Nat → Prop} {q : Heap α}
  {nr : Array Nat}

theorem lt_n (h : QInvB G n live B q nr) {x : Nat} (hx : x ∈ live) : x < n := by
  rw [← h.psz]; exact h.inv.wf.live_lt ((h.qlive x).mpr hx)

theorem peek_some (h : QInvB G n live B q nr) {x : Nat} (hx : x ∈ live) :
    ∃ a, q.peek = some a ∧ a ∈ live := by
  obtain ⟨i, hi⟩ := (h.qlive x).mpr hx
  have hpos : 0 < q.heap.size := by
    have := h.inv.wf.pos_lt hi; omega
  have hp : q.peek = some q.heap[0] := by simp [Heap.peek, hpos]
  exact ⟨q.heap[0], hp, (h.qlive _).mp (Heap.peek_live hp)⟩

/-- While at least two rows are live, the top of the heap is never the largest live row. -/
theorem peek_has_larger (L : OrderLaws α) (gs : GoodSet G) (h : QInvB G n live B q nr)
    (h2 : 2 ≤ live.length) (hnd : live.Nodup) {a : Nat} (hp : q.peek = some a) :
    a ∈ live ∧ ∃ y ∈ live, a < y := by
  have ha : a ∈ live := (h.qlive a).mp (Heap.peek_live hp)
  refine ⟨ha, ?_⟩
  by_cases hex : ∃ y ∈ live, a < y
  · exact hex
  · exfalso
    have hall : ∀ y ∈ live, y ≤ a := by
      intro y hy
      by_cases hya : y ≤ a
      · exact hya
      · exact absurd ⟨y, hy, by omega⟩ hex
    have hpa := h.plast a ha hall
    -- another live element
    obtain ⟨x, hx, hxa⟩ : ∃ x ∈ live, x ≠ a := by
      match live, h2, hnd with
      | u :: v :: rest, _, hnd =>
        have huv : u ≠ v := by
          intro e; subst e
          exact (List.nodup_cons.mp hnd).1 List.mem_cons_self
        by_cases hu : u = a
        · exact ⟨v, by simp, by intro e; exact huv (hu.trans e.symm)⟩
        · exact ⟨u, by simp, hu⟩
    have hxlt : x < a := by have := hall x hx; omega
    obtain ⟨p, hpx, gp⟩ := h.pgood x hx a ha hxlt
    have hmin := h.inv.peek_min L hp x Num.maxValue p ((h.qlive x).mpr hx) hpa hpx
    rw [gs.ltMax p gp] at hmin
    cases hmin

/-- Changing `nearest[x]` to a live, larger candidate (extensional form). -/
theorem changeNear (h : QInvB G n live B q nr) {x c : Nat} (nr' : Array Nat) (hsz : nr'.size = n)
    (hother : ∀ z, z ≠ x → nr'[z]? = nr[z]?) (hx : nr'[x]? = some c) (hc : c ∈ live) (hxc : x < c)
    (B' : Nat → Nat → Prop) (hB : ∀ y c', y ≠ x → nr[y]? = some c' → B y c' → B' y c') :
    QInvB G n live B' q nr' := by
  refine ⟨h.inv, h.psz, h.qlive, hsz, ?_, h.pgood, h.plast⟩
  intro z hz y hy hzy
  by_cases e : z = x
  · subst e
    exact ⟨c, hx, hxc, Or.inl hc⟩
  · obtain ⟨c', h1, h2, h3⟩ := h.near z hz y hy hzy
    refine ⟨c', by rw [hother z e]; exact h1, h2, ?_⟩
    rcases h3 with h3 | h3
    · exact Or.inl h3
    · exact Or.inr (hB z c' e h1 h3)

/-- `nearest[x] = c` for a live, larger `c`. -/
theorem setNear (h : QInvB G n live B q nr) {x c : Nat} (hxn : x < nr.size) (hc : c ∈ live)
    (hxc : x < c) (B' : Nat → Nat → Prop)
    (hB : ∀ y c', y ≠ x → nr[y]? = some c' → B y c' → B' y c') :
    QInvB G n live B' q (nr.set x c hxn) := by
  apply h.changeNear (nr.set x c hxn) (by simp [h.nsz]) ?_ (by simp) hc hxc B' hB
  intro z hz
  rw [Array.getElem?_set]
  have : ¬ x = z := fun e => hz e.symm
  simp [this]

/-- Weakening / strengthening of the exception set (aware of the current candidates). -/
theorem weaken (h : QInvB G n live B q nr) (B' : Nat → Nat → Prop)
    (hB : ∀ y c', y ∈ live → nr[y]? = some c' → y < c' → B y c' → c' ∈ live ∨ B' y c') :
    QInvB G n live B' q nr := by
  refine ⟨h.inv, h.psz, h.qlive, h.nsz, ?_, h.pgood, h.plast⟩
  intro z hz y hy hzy
  obtain ⟨c', h1, h2, h3⟩ := h.near z hz y hy hzy
  refine ⟨c', h1, h2, ?_⟩
  rcases h3 with h3 | h3
  · exact Or.inl h3
  · exact hB z c' hz h1 h2 h3

/-- `set_priority(x, v)` with a good `v` on a live row that has a larger live neighbour. -/
theorem setPrio (L : OrderLaws α) (gs : GoodSet G) (chk : Bool) (h : QInvB G n live B q nr)
    {x y : Nat} (hx : x ∈ live) (hy : y ∈ live) (hxy : x < y) {v : α} (hv : G v) :
    ∃ q', q.setPriority chk x v = .ok q' ∧ QInvB G n live B q' nr ∧
      q'.prio = q.prio.setIfInBounds x v := by
  obtain ⟨q', e, inv', hprio, _, _, hlive⟩ :=
    Heap.setPriority_Inv L chk h.inv ((h.qlive x).mpr hx) (gs.notNaN v hv)
  have hxn : x < q.prio.size := by rw [h.psz]; exact h.lt_n hx
  refine ⟨q', e, ⟨inv', by rw [hprio]; simp [h.psz], fun o => (hlive o).trans (h.qlive o), h.nsz,
    h.near, ?_, ?_⟩, hprio⟩
  · intro z hz w hw hzw
    by_cases e' : z = x
    · subst e'
      exact ⟨v, by rw [hprio]; simp [hxn], hv⟩
    · obtain ⟨p, h1, h2⟩ := h.pgood z hz w hw hzw
      refine ⟨p, ?_, h2⟩
      rw [hprio, Array.getElem?_setIfInBounds]
      have : ¬ x = z := fun e'' => e' e''.symm
      simp [this, h1]
  · intro z hz hall
    have hne : ¬ x = z := by
      intro e'; subst e'
      have := hall y hy; omega
    rw [hprio, Array.getElem?_setIfInBounds]
    simp [hne, h.plast z hz hall]

end QInvB
end Kodama
