/-
Replay machinery for the label-based specification `Kodama/Spec/Naive.lean`:
the state reached after `i` steps (`stateAt`), `GreedyFrom`/`TieFreeFrom` as statements about all
indices, elementary facts about `merge`, `init`, `entry`, and the structural invariant of a greedy
run (`next = n + i`, live labels `< next`, distinct, `n - i` of them).
Core Lean only.  No number laws are used anywhere in this file.
-/
import Kodama.Spec.Naive
import Kodama.Spec.WellFormed
namespace Kodama.Spec
variable {α : Type} [Num α]

/-! ### replay -/

/-- State after merging the pairs named by `steps`, in order, from `s` (no admissibility check). -/
def replay (m : Method) : NState α → List (Step α) → NState α
  | s, [] => s
  | s, st :: rest => replay m (merge m s st.c1 st.c2) rest

theorem replay_append (m : Method) (s : NState α) (l1 l2 : List (Step α)) :
    replay m s (l1 ++ l2) = replay m (replay m s l1) l2 := by
  induction l1 generalizing s with
  | nil => rfl
  | cons st r ih => simp [replay, ih]

/-- State before step `i` of `steps` (replayed from `s`). -/
def stateAt (m : Method) (s : NState α) (steps : List (Step α)) (i : Nat) : NState α :=
  replay m s (steps.take i)

@[simp] theorem stateAt_zero (m : Method) (s : NState α) (steps : List (Step α)) :
    stateAt m s steps 0 = s := by simp [stateAt, replay]

theorem stateAt_cons_succ (m : Method) (s : NState α) (st : Step α) (r : List (Step α)) (j : Nat) :
    stateAt m s (st :: r) (j + 1) = stateAt m (merge m s st.c1 st.c2) r j := by
  simp [stateAt, replay]

theorem stateAt_succ (m : Method) (s : NState α) (steps : List (Step α)) (i : Nat) (st : Step α)
    (h : steps[i]? = some st) :
    stateAt m s steps (i + 1) = merge m (stateAt m s steps i) st.c1 st.c2 := by
  unfold stateAt
  rw [List.take_add_one, h]
  simp [replay_append, replay]

theorem greedyFrom_iff (m : Method) (s : NState α) (steps : List (Step α)) :
    GreedyFrom m s steps ↔
      ∀ (i : Nat) (st : Step α), steps[i]? = some st → Admissible m (stateAt m s steps i) st := by
  induction steps generalizing s with
  | nil => simp [GreedyFrom]
  | cons st r ih =>
    simp only [GreedyFrom]
    constructor
    · rintro ⟨h0, hr⟩ i st' hi
      cases i with
      | zero => simp at hi; subst hi; simpa using h0
      | succ j =>
        rw [stateAt_cons_succ]
        exact (ih _).1 hr j st' (by simpa using hi)
    · intro h
      refine ⟨by simpa using h 0 st (by simp), (ih _).2 ?_⟩
      intro j st' hj
      have := h (j + 1) st' (by simpa using hj)
      rwa [stateAt_cons_succ] at this

/-- Step `st` attains the strict minimum over the live pairs of `s`. -/
def StrictMin (s : NState α) (st : Step α) : Prop :=
  ∀ x ∈ s.live, ∀ y ∈ s.live, x < y → (x, y) ≠ (st.c1, st.c2) →
    Num.lt (s.D st.c1 st.c2) (s.D x y) = true

theorem tieFreeFrom_iff (m : Method) (s : NState α) (steps : List (Step α)) :
    TieFreeFrom m s steps ↔
      ∀ (i : Nat) (st : Step α), steps[i]? = some st → StrictMin (stateAt m s steps i) st := by
  induction steps generalizing s with
  | nil => simp [TieFreeFrom]
  | cons st r ih =>
    simp only [TieFreeFrom]
    constructor
    · rintro ⟨h0, hr⟩ i st' hi
      cases i with
      | zero => simp at hi; subst hi; simpa [StrictMin] using h0
      | succ j =>
        rw [stateAt_cons_succ]
        exact (ih _).1 hr j st' (by simpa using hi)
    · intro h
      refine ⟨by simpa [StrictMin] using h 0 st (by simp), (ih _).2 ?_⟩
      intro j st' hj
      have := h (j + 1) st' (by simpa using hj)
      rwa [stateAt_cons_succ] at this

/-! ### `merge`, `init`, `entry` -/

theorem mem_merge_live (m : Method) (s : NState α) (a b x : Nat) :
    x ∈ (merge m s a b).live ↔ (x ∈ s.live ∧ x ≠ a ∧ x ≠ b) ∨ x = s.next := by
  simp [merge]

@[simp] theorem merge_next (m : Method) (s : NState α) (a b : Nat) :
    (merge m s a b).next = s.next + 1 := rfl

theorem merge_size (m : Method) (s : NState α) (a b x : Nat) :
    (merge m s a b).size x = if x = s.next then s.size a + s.size b else s.size x := rfl

theorem merge_D (m : Method) (s : NState α) (a b x y : Nat) :
    (merge m s a b).D x y =
      if x = s.next then lw m (s.D a y) (s.D b y) (s.D a b) (s.size a) (s.size b) (s.size y)
      else if y = s.next then lw m (s.D a x) (s.D b x) (s.D a b) (s.size a) (s.size b) (s.size x)
      else s.D x y := rfl

omit [Num α] in
/-- `entry` is symmetric by construction (the pair is normalised before the lookup). -/
theorem entry_symm (n : Nat) (data : Array α) (dflt : α) (i j : Nat) :
    entry n data dflt i j = entry n data dflt j i := by
  unfold entry
  by_cases h1 : i < j
  · have h2 : ¬ j < i := by omega
    simp [h1, h2]
  · by_cases h2 : j < i
    · simp [h1, h2]
    · have : i = j := by omega
      subst this; rfl

/-- The table is symmetric. -/
def DSymm (s : NState α) : Prop := ∀ x y, s.D x y = s.D y x

theorem init_DSymm (m : Method) (n : Nat) (data : Array α) : DSymm (init m n data) := by
  intro x y
  simp only [init]
  rw [entry_symm]

theorem merge_DSymm (m : Method) (s : NState α) (a b : Nat) (h : DSymm s) :
    DSymm (merge m s a b) := by
  intro x y
  rw [merge_D, merge_D]
  by_cases hx : x = s.next
  · by_cases hy : y = s.next
    · rw [hx, hy]
    · simp [hx, hy]
  · by_cases hy : y = s.next
    · simp [hx, hy]
    · simp [hx, hy, h x y]

/-! ### structural invariant of a run -/

/-- Structural invariant of the state before step `i` of a run on `n` observations. -/
structure StInv (n i : Nat) (s : NState α) : Prop where
  next : s.next = n + i
  lt : ∀ l ∈ s.live, l < s.next
  nodup : s.live.Nodup
  len : s.live.length + i = n

theorem init_StInv (m : Method) (n : Nat) (data : Array α) : StInv n 0 (init m n data) where
  next := rfl
  lt := by intro l hl; simpa [init] using hl
  nodup := by simp [init, List.nodup_range]
  len := by simp [init]

theorem filter_ne_length (l : List Nat) (a : Nat) (hn : l.Nodup) (ha : a ∈ l) :
    (l.filter (fun x => decide (x ≠ a))).length + 1 = l.length := by
  induction l with
  | nil => cases ha
  | cons x r ih =>
    rw [List.nodup_cons] at hn
    obtain ⟨hx, hr⟩ := hn
    rcases List.mem_cons.1 ha with rfl | ha'
    · have : r.filter (fun x => decide (x ≠ a)) = r := by
        apply List.filter_eq_self.2
        intro z hz
        have hza : z ≠ a := by intro h; apply hx; rw [← h]; exact hz
        simp [hza]
      rw [List.filter_cons_of_neg (by simp), this]
      rfl
    · have hxa : x ≠ a := by intro h; apply hx; rw [h]; exact ha'
      have := ih hr ha'
      rw [List.filter_cons_of_pos (by simp [hxa])]
      simp only [List.length_cons]
      omega

theorem filter_two_length (l : List Nat) (a b : Nat) (hn : l.Nodup) (ha : a ∈ l) (hb : b ∈ l)
    (hab : a ≠ b) : (l.filter (fun x => decide (x ≠ a ∧ x ≠ b))).length + 2 = l.length := by
  have e : l.filter (fun x => decide (x ≠ a ∧ x ≠ b))
      = (l.filter (fun x => decide (x ≠ a))).filter (fun x => decide (x ≠ b)) := by
    rw [List.filter_filter]
    congr 1
    funext x
    simp [Bool.and_comm]
  rw [e]
  have h1 := filter_ne_length l a hn ha
  have hb' : b ∈ l.filter (fun x => decide (x ≠ a)) := by
    simp [hb]; exact fun h => hab h.symm
  have h2 := filter_ne_length _ b (hn.filter _) hb'
  omega

theorem merge_StInv {m : Method} {n i : Nat} {s : NState α} {st : Step α}
    (hi : StInv n i s) (ha : Admissible m s st) : StInv n (i + 1) (merge m s st.c1 st.c2) := by
  obtain ⟨h1, h2, h3, -⟩ := ha
  refine ⟨?_, ?_, ?_, ?_⟩
  · simp [hi.next]; omega
  · intro l hl
    rcases (mem_merge_live m s _ _ l).1 hl with ⟨h, -, -⟩ | h
    · have := hi.lt l h; simp; omega
    · simp [h]
  · show ((s.live.filter _) ++ [s.next]).Nodup
    rw [List.nodup_append]
    refine ⟨hi.nodup.filter _, by simp, ?_⟩
    intro a ha b hb
    have ha' : a ∈ s.live := (List.mem_filter.1 ha).1
    have := hi.lt a ha'
    simp at hb
    omega
  · show ((s.live.filter _) ++ [s.next]).length + (i + 1) = n
    have := filter_two_length s.live st.c1 st.c2 hi.nodup h1 h2 (by omega)
    have := hi.len
    simp only [List.length_append, List.length_singleton]
    omega

/-- The structural invariant holds at every index of a greedy run started in a state satisfying it. -/
theorem stateAt_StInv {m : Method} {n i0 : Nat} {s : NState α} {steps : List (Step α)}
    (h0 : StInv n i0 s) (hg : GreedyFrom m s steps) (i : Nat) (hi : i ≤ steps.length) :
    StInv n (i0 + i) (stateAt m s steps i) := by
  induction i with
  | zero => simpa using h0
  | succ j ih =>
    have hj : j < steps.length := by omega
    have hst : steps[j]? = some steps[j] := by simp [hj]
    rw [stateAt_succ m s steps j _ hst]
    have := merge_StInv (ih (by omega)) ((greedyFrom_iff m s steps).1 hg j _ hst)
    rwa [Nat.add_assoc] at this

end Kodama.Spec
