/-
Naturality, part 4: `LinkageHeap`.  Every comparison is `Num.lt` on two priorities, so an order
homomorphism on the priorities leaves positions, the removal flags and every swap unchanged.
-/
import Kodama.Lemmas.NaturalityChain
set_option linter.unusedSectionVars false
namespace Kodama
variable {α β : Type} [Num α] [Num β]

/-! ## The heap -/

def mapPair (h : α → β) (p : Nat × α) : Nat × β := (p.1, h p.2)


theorem Heap.swap_nat (hp : α → β) (q : Heap α) (o1 o2 : Nat) :
    (mapHeap hp q).swap o1 o2 = mapHeap hp <$> q.swap o1 o2 := by
  unfold Heap.swap
  simp only [mapHeap_obs, mapHeap_heap]
  refine bind_same _ (fun p1 => ?_)
  refine bind_same _ (fun p2 => ?_)
  refine bind_same _ (fun heap => ?_)
  refine bind_same _ (fun obs => rfl)

theorem Heap.siftDown_nat {hp : α → β} (H : OrdHom hp) (chk : Bool) (fuel : Nat) (q : Heap α)
    (o : Nat) :
    Heap.siftDown chk fuel (mapHeap hp q) o = mapHeap hp <$> Heap.siftDown chk fuel q o := by
  induction fuel generalizing q with
  | zero => rfl
  | succ fuel ih =>
    unfold Heap.siftDown
    simp only [mapHeap_obs, mapHeap_heap, mapHeap_prio]
    refine bind_same _ (fun i => ?_)
    refine bind_same _ (fun t1 => ?_)
    refine bind_same _ (fun li => ?_)
    refine bind_same _ (fun t2 => ?_)
    refine bind_same _ (fun ri => ?_)
    refine bind_nat hp _ (aget_nat ..) (fun po => ?_)
    have pick : ∀ (l o' : Nat) (a b : α),
        (pure (if Num.lt (hp a) (hp b) = true then (l, hp a) else (o', hp b)) : R (Nat × β))
          = mapPair hp <$> pure (if Num.lt a b = true then (l, a) else (o', b)) := by
      intro l o' a b; rw [H.lt]; split <;> rfl
    cases q.heap[li]?
    case' some l =>
      simp only
      refine bind_nat hp _ (aget_nat ..) (fun pl => ?_)
      refine bind_nat (mapPair hp) _ (pick ..) ?second
    case' none =>
      simp only
      refine bind_nat (mapPair hp) _ (rfl : pure (mapPair hp (o, po)) = _) ?second
    all_goals
      intro x
      cases q.heap[ri]?
      case' some r =>
        simp only
        refine bind_nat hp _ (aget_nat ..) (fun pr => ?_)
        refine bind_nat (mapPair hp) _ (pick r x.1 pr x.2) ?third
      case' none =>
        simp only
        refine bind_nat (mapPair hp) _ (rfl : pure (mapPair hp (x.1, x.2)) = _) ?third
    all_goals
      intro y
      refine ite_nat _ rfl ?_
      exact bind_nat (mapHeap hp) _ (Heap.swap_nat ..) (fun q => ih q)


theorem Heap.siftUp_nat {hp : α → β} (H : OrdHom hp) (chk : Bool) (fuel : Nat) (q : Heap α)
    (o : Nat) :
    Heap.siftUp chk fuel (mapHeap hp q) o = mapHeap hp <$> Heap.siftUp chk fuel q o := by
  induction fuel generalizing q with
  | zero => rfl
  | succ fuel ih =>
    unfold Heap.siftUp
    simp only [mapHeap_obs, mapHeap_heap, mapHeap_prio]
    refine bind_same _ (fun i => ?_)
    refine ite_nat _ rfl ?_
    refine bind_same _ (fun po => ?_)
    refine bind_nat hp _ (aget_nat ..) (fun ppo => ?_)
    refine bind_nat hp _ (aget_nat ..) (fun pp => ?_)
    rw [H.lt]
    refine ite_nat _ rfl ?_
    exact bind_nat (mapHeap hp) _ (Heap.swap_nat ..) (fun q => ih q)

theorem Heap.pop_nat {hp : α → β} (H : OrdHom hp) (chk : Bool) (q : Heap α) :
    (mapHeap hp q).pop chk = (fun r => (r.1, mapHeap hp r.2)) <$> q.pop chk := by
  unfold Heap.pop
  simp only [mapHeap_heap]
  refine ite_nat _ rfl ?_
  refine ite_nat _ ?g1 ?g2
  case' g1 =>
    refine bind_same _ (fun first => ?_)
    refine bind_same _ (fun last => ?_)
    refine bind_nat (mapHeap hp) _ (Heap.swap_nat ..) ?t1
  case' g2 =>
    refine bind_nat (mapHeap hp) _ (rfl : pure (mapHeap hp q) = _) ?t2
  all_goals
    intro q
    simp only [mapHeap_heap, mapHeap_removed]
    refine bind_same _ (fun last => ?_)
    refine bind_same _ (fun removed => ?_)
    refine ite_nat _ ?_ rfl
    refine bind_same _ (fun first => ?_)
    exact bind_nat (mapHeap hp) _
      (Heap.siftDown_nat H chk _ { q with heap := q.heap.pop, removed := removed } first)
      (fun q => rfl)

theorem Heap.heapifyLoop_nat {hp : α → β} (H : OrdHom hp) (chk : Bool) (q : Heap α)
    (l : List Nat) :
    Heap.heapifyLoop chk (mapHeap hp q) l = mapHeap hp <$> Heap.heapifyLoop chk q l := by
  induction l generalizing q with
  | nil => rfl
  | cons i is ih =>
    unfold Heap.heapifyLoop
    simp only [mapHeap_heap]
    refine bind_same _ (fun o => ?_)
    exact bind_nat (mapHeap hp) _ (Heap.siftDown_nat H chk _ q o) (fun q => ih q)

theorem Heap.priority_nat (hp : α → β) (q : Heap α) (o : Nat) :
    (mapHeap hp q).priority o = hp <$> q.priority o := by
  unfold Heap.priority
  simp only [mapHeap_removed, mapHeap_prio]
  refine bind_same _ (fun r => ?_)
  refine bind_same _ (fun _ => ?_)
  exact aget_nat ..

theorem Heap.setPriority_nat {hp : α → β} (H : OrdHom hp) (chk : Bool) (q : Heap α) (o : Nat)
    (p : α) :
    (mapHeap hp q).setPriority chk o (hp p) = mapHeap hp <$> q.setPriority chk o p := by
  unfold Heap.setPriority
  simp only [mapHeap_removed, mapHeap_prio]
  refine bind_same _ (fun r => ?_)
  refine bind_same _ (fun _ => ?_)
  refine bind_nat hp _ (aget_nat ..) (fun old => ?_)
  refine bind_nat (Array.map hp) _ (aset_nat ..) (fun prio => ?_)
  simp only [H.lt]
  refine ite_nat _ (Heap.siftUp_nat H chk _ { q with prio := prio } o) ?_
  refine ite_nat _ (Heap.siftDown_nat H chk _ { q with prio := prio } o) rfl

theorem Heap.heapifyWith_nat {hp : α → β} (H : OrdHom hp) (chk : Bool) (q : Heap α)
    (np : Array α → R (Array α)) (np' : Array β → R (Array β))
    (hnp : ∀ p p', np' p' = Array.map hp <$> np p) :
    (mapHeap hp q).heapifyWith chk np' = mapHeap hp <$> q.heapifyWith chk np := by
  unfold Heap.heapifyWith
  simp only [mapHeap_prio, Array.size_map, heapReset_eq_fresh]
  refine bind_nat (Array.map hp) _ (hnp ..) (fun prio => ?_)
  exact Heap.heapifyLoop_nat H chk { (Heap.fresh q.prio.size : Heap α) with prio := prio } _

end Kodama
