/-
Naturality of the model under a homomorphism `h : α → β` of the number interface
(the one theorem behind C09 and C10).

Files
  Naturality.lean            vocabulary (`OrdHom`, `NumHom`, `UpdHom`; `mapStep`, `mapDend`, `mapMat`,
                             `mapHeap`, `mapState`), combinators (`bind_nat`, `foldlM_nat`, `iterM_nat`),
                             and the functions shared by all algorithms (`aget`, `aset`, `Mat.*`, `updFn`,
                             `Mat.update`, `updateRows`, `State.merge`, the sort, `relabel`, `sqrtSteps`,
                             `squareData`)
  NaturalityMst.lean         `mst_with`, `primitive_with`; `SqHom`
  NaturalityChain.lean       `nnchain_with`
  NaturalityHeap.lean        `LinkageHeap`
  NaturalityGeneric.lean     `generic_with`
  NaturalityRun.lean         `runWith` (all five entry points): `runWith_nat`, `runWith_natural`,
                             `runWith_natural_out`
  NaturalityRel.lean, NaturalityHeapRel.lean, NaturalityGenericRel.lean
                             `generic_with` again, relationally, for maps that do not fix
                             `T::max_value()` (`SentinelSafe`)
  NaturalitySafe.lean        `runWith_natural_safe`, the form C09/C10 use

Every functional `_nat` lemma has the shape
    `f (map h x) = φ <$> f x`
where `φ <$> ·` on `R = Except Panic` is `Except.map`: it maps the value and keeps the panic class;
hence panics correspond as well.  One lemma per model function; loops by `foldlM_nat` / `iterM_nat`
or induction on the fuel.  Functions that never touch a value (`Active.*`, `UF.*`) need no lemma:
`mapState` leaves those fields unchanged, so they are the same term on both sides.
-/
import Kodama.Model.Linkage
import Kodama.Lemmas.Except
import Kodama.Lemmas.Reset
set_option linter.unusedSectionVars false
namespace Kodama

section Hom
variable {α β : Type} [Num α] [Num β]

/-! ## Homomorphisms -/

/-- `h` preserves every *decision* the code can take on values. -/
structure OrdHom (h : α → β) : Prop where
  lt : ∀ a b, Num.lt (h a) (h b) = Num.lt a b
  beq : ∀ a b, Num.beq (h a) (h b) = Num.beq a b
  isNaN : ∀ a, Num.isNaN (h a) = Num.isNaN a

/-- `OrdHom` that also fixes the two sentinels (`T::max_value()` is the initial minimum and the
initial heap priority in `generic`; `T::infinity()` is the initial `min_dists` entry in `mst`). -/
structure NumHom (h : α → β) : Prop extends OrdHom h where
  maxValue : h Num.maxValue = Num.maxValue
  infinity : h Num.infinity = Num.infinity

/-- `h` commutes with the generated update formula of method `m` (sizes are `Nat`s and are the
same on both sides). -/
def UpdHom (m : Method) (h : α → β) : Prop :=
  match m with
  | .single => ∀ a b, h (Gen.single a b) = Gen.single (h a) (h b)
  | .complete => ∀ a b, h (Gen.complete a b) = Gen.complete (h a) (h b)
  | .average => ∀ a b sa sb, h (Gen.average a b sa sb) = Gen.average (h a) (h b) sa sb
  | .weighted => ∀ a b, h (Gen.weighted a b) = Gen.weighted (h a) (h b)
  | .ward => ∀ a b d sa sb sx, h (Gen.ward a b d sa sb sx) = Gen.ward (h a) (h b) (h d) sa sb sx
  | .centroid => ∀ a b d sa sb, h (Gen.centroid a b d sa sb) = Gen.centroid (h a) (h b) (h d) sa sb
  | .median => ∀ a b d, h (Gen.median a b d) = Gen.median (h a) (h b) (h d)

/-- `Gen.single` only selects, so every order homomorphism commutes with it. -/
theorem OrdHom.single {h : α → β} (H : OrdHom h) (a b : α) :
    h (Gen.single a b) = Gen.single (h a) (h b) := by
  simp only [Gen.single, H.lt]; split <;> rfl

theorem OrdHom.complete {h : α → β} (H : OrdHom h) (a b : α) :
    h (Gen.complete a b) = Gen.complete (h a) (h b) := by
  simp only [Gen.complete, H.lt]; split <;> rfl

theorem UpdHom.of_single {h : α → β} (H : OrdHom h) : UpdHom .single h := H.single
theorem UpdHom.of_complete {h : α → β} (H : OrdHom h) : UpdHom .complete h := H.complete

end Hom

variable {α β : Type}

/-! ## Structure maps -/

def mapStep (h : α → β) (s : Step α) : Step β := ⟨s.c1, s.c2, h s.d, s.size⟩

def mapDend (h : α → β) (d : Dendrogram α) : Dendrogram β := ⟨d.steps.map (mapStep h), d.obs⟩

/-- Maps the cells; `n` and the access counter are unchanged. -/
def mapMat (h : α → β) (M : Mat α) : Mat β := ⟨M.data.map h, M.n, M.acc⟩

/-- Maps the priorities; heap order, positions and removal flags are unchanged. -/
def mapHeap (h : α → β) (q : Heap α) : Heap β := ⟨q.heap, q.obs, q.prio.map h, q.removed⟩

/-- `hd` on `min_dists`, `hp` on the heap priorities; every other field is `Nat`/`Bool` data and
is *the same* on both sides.  (Two maps because an algorithm that never reads one of the buffers
is natural for every map on it — this is how `primitive`/`nnchain` avoid sentinel hypotheses.) -/
def mapState (hd hp : α → β) (st : State α) : State β :=
  ⟨st.sizes, st.active, st.minDists.map hd, st.set, st.chain, mapHeap hp st.queue, st.nearest⟩

@[simp] theorem mapStep_c1 (h : α → β) (s : Step α) : (mapStep h s).c1 = s.c1 := rfl
@[simp] theorem mapStep_c2 (h : α → β) (s : Step α) : (mapStep h s).c2 = s.c2 := rfl
@[simp] theorem mapStep_d (h : α → β) (s : Step α) : (mapStep h s).d = h s.d := rfl
@[simp] theorem mapStep_size (h : α → β) (s : Step α) : (mapStep h s).size = s.size := rfl
@[simp] theorem mapDend_steps (h : α → β) (d : Dendrogram α) :
    (mapDend h d).steps = d.steps.map (mapStep h) := rfl
@[simp] theorem mapDend_obs (h : α → β) (d : Dendrogram α) : (mapDend h d).obs = d.obs := rfl
@[simp] theorem mapMat_data (h : α → β) (M : Mat α) : (mapMat h M).data = M.data.map h := rfl
@[simp] theorem mapMat_n (h : α → β) (M : Mat α) : (mapMat h M).n = M.n := rfl
@[simp] theorem mapMat_acc (h : α → β) (M : Mat α) : (mapMat h M).acc = M.acc := rfl
@[simp] theorem mapHeap_heap (h : α → β) (q : Heap α) : (mapHeap h q).heap = q.heap := rfl
@[simp] theorem mapHeap_obs (h : α → β) (q : Heap α) : (mapHeap h q).obs = q.obs := rfl
@[simp] theorem mapHeap_prio (h : α → β) (q : Heap α) : (mapHeap h q).prio = q.prio.map h := rfl
@[simp] theorem mapHeap_removed (h : α → β) (q : Heap α) : (mapHeap h q).removed = q.removed := rfl
@[simp] theorem mapState_sizes (hd hp : α → β) (st : State α) :
    (mapState hd hp st).sizes = st.sizes := rfl
@[simp] theorem mapState_active (hd hp : α → β) (st : State α) :
    (mapState hd hp st).active = st.active := rfl
@[simp] theorem mapState_minDists (hd hp : α → β) (st : State α) :
    (mapState hd hp st).minDists = st.minDists.map hd := rfl
@[simp] theorem mapState_set (hd hp : α → β) (st : State α) : (mapState hd hp st).set = st.set := rfl
@[simp] theorem mapState_chain (hd hp : α → β) (st : State α) :
    (mapState hd hp st).chain = st.chain := rfl
@[simp] theorem mapState_queue (hd hp : α → β) (st : State α) :
    (mapState hd hp st).queue = mapHeap hp st.queue := rfl
@[simp] theorem mapState_nearest (hd hp : α → β) (st : State α) :
    (mapState hd hp st).nearest = st.nearest := rfl

@[simp] theorem mapMat_tick (h : α → β) (M : Mat α) (k : Nat) :
    (mapMat h M).tick k = mapMat h (M.tick k) := rfl

/-! ## `Except` plumbing -/

@[simp] theorem map_ok' {A B : Type} (f : A → B) (a : A) :
    f <$> (Except.ok a : R A) = Except.ok (f a) := rfl
@[simp] theorem map_error' {A B : Type} (f : A → B) (p : Panic) :
    f <$> (Except.error p : R A) = Except.error p := rfl

/-- The workhorse: naturality of `>>=`. -/
theorem bind_nat {A A' B B' : Type} (φ : A → A') (ψ : B → B') {e : R A} {e' : R A'}
    {f : A → R B} {f' : A' → R B'} (he : e' = φ <$> e) (hf : ∀ a, f' (φ a) = ψ <$> f a) :
    (e' >>= f') = ψ <$> (e >>= f) := by
  subst he
  cases e with
  | error p => rfl
  | ok a => exact hf a

/-- Both sides start with the same (value-free) computation. -/
theorem bind_same {A B B' : Type} (ψ : B → B') {e : R A}
    {f : A → R B} {f' : A → R B'} (hf : ∀ a, f' a = ψ <$> f a) :
    (e >>= f') = ψ <$> (e >>= f) := by
  cases e with
  | error p => rfl
  | ok a => exact hf a

theorem ite_nat {B B' : Type} {c : Prop} [Decidable c] (ψ : B → B') {x y : R B} {x' y' : R B'}
    (hx : x' = ψ <$> x) (hy : y' = ψ <$> y) :
    (if c then x' else y') = ψ <$> (if c then x else y) := by
  split <;> assumption

theorem foldlM_nat {σ σ' X : Type} (φ : σ → σ') (f : σ → X → R σ) (f' : σ' → X → R σ')
    (hf : ∀ s x, f' (φ s) x = φ <$> f s x) (l : List X) (s : σ) :
    l.foldlM f' (φ s) = φ <$> l.foldlM f s := by
  induction l generalizing s with
  | nil => rfl
  | cons x xs ih =>
    simp only [List.foldlM]
    exact bind_nat φ φ (hf s x) (fun a => ih a)

theorem iterM_nat {σ σ' : Type} (φ : σ → σ') (f : σ → R σ) (f' : σ' → R σ')
    (hf : ∀ s, f' (φ s) = φ <$> f s) (k : Nat) (s : σ) :
    iterM f' k (φ s) = φ <$> iterM f k s := by
  induction k generalizing s with
  | zero => rfl
  | succ k ih =>
    simp only [iterM]
    exact bind_nat φ φ (hf s) (fun a => ih a)

/-! ## Arrays -/

theorem aget_nat (h : α → β) (a : Array α) (i : Nat) : aget (a.map h) i = h <$> aget a i := by
  unfold aget
  rw [Array.getElem?_map]
  cases a[i]? <;> rfl

theorem aset_nat (h : α → β) (a : Array α) (i : Nat) (v : α) :
    aset (a.map h) i (h v) = Array.map h <$> aset a i v := by
  unfold aset
  by_cases hi : i < a.size
  · have hi' : i < (a.map h).size := by simpa using hi
    simp only [hi, hi', dite_true, map_ok', Array.map_set]
  · have hi' : ¬ i < (a.map h).size := by simpa using hi
    simp only [hi, hi', dite_false, map_error']

/-! ## Matrix, update formulas, `merge` -/

theorem Mat.idx_nat (h : α → β) (chk : Bool) (M : Mat α) (r c : Nat) :
    (mapMat h M).idx chk r c = M.idx chk r c := rfl

theorem Mat.get_nat (h : α → β) (chk : Bool) (M : Mat α) (r c : Nat) :
    (mapMat h M).get chk r c = h <$> M.get chk r c := by
  unfold Mat.get
  exact bind_same h (fun i => aget_nat h _ _)

theorem Mat.set_nat (h : α → β) (chk : Bool) (M : Mat α) (r c : Nat) (v : α) :
    (mapMat h M).set chk r c (h v) = mapMat h <$> M.set chk r c v := by
  unfold Mat.set
  refine bind_same _ (fun i => ?_)
  exact bind_nat (Array.map h) _ (aset_nat h _ _ _) (fun d => rfl)

theorem Mat.new_nat (h : α → β) (chk : Bool) (data : Array α) (n : Nat) :
    Mat.new chk (data.map h) n = mapMat h <$> Mat.new chk data n := by
  unfold Mat.new
  rw [Array.size_map]
  exact bind_same _ (fun n => rfl)

variable [Num α] [Num β]

theorem updFn_nat {m : Method} {h : α → β} (U : UpdHom m h) (sizes : Array Nat) (sa sb : Nat)
    (dist : α) (x : Nat) (va vb : α) :
    updFn m sizes sa sb (h dist) x (h va) (h vb) = h <$> updFn m sizes sa sb dist x va vb := by
  cases m <;> simp only [updFn, UpdHom] at U ⊢
  all_goals first
    | (simp only [map_pure, U])
    | (refine bind_same _ (fun sx => ?_); simp only [map_pure, U])

/-- `single`, `complete`, `average`, `weighted` do not read the merge distance. -/
def Method.readsDist : Method → Bool
  | .ward => true | .centroid => true | .median => true | _ => false

theorem updFn_dist_irrel (m : Method) (hm : m.readsDist = false) (sizes : Array Nat) (sa sb : Nat)
    (d d' : α) : updFn m sizes sa sb d = updFn m sizes sa sb d' := by
  cases m <;> first | rfl | cases hm

theorem Mat.update_nat (h : α → β) (chk : Bool) (M : Mat α) (upd : Nat → α → α → R α)
    (upd' : Nat → β → β → R β) (hu : ∀ x a b, upd' x (h a) (h b) = h <$> upd x a b)
    (x ra ca rb cb : Nat) :
    (mapMat h M).update chk upd' x ra ca rb cb = mapMat h <$> M.update chk upd x ra ca rb cb := by
  unfold Mat.update
  refine bind_nat h _ (Mat.get_nat ..) (fun va => ?_)
  refine bind_nat h _ (Mat.get_nat ..) (fun vb => ?_)
  refine bind_nat h _ (hu ..) (fun v => ?_)
  refine bind_nat (mapMat h) _ (Mat.set_nat ..) (fun M => rfl)

theorem updateRows_nat (h : α → β) (chk : Bool) (act : Active) (upd : Nat → α → α → R α)
    (upd' : Nat → β → β → R β) (hu : ∀ x a b, upd' x (h a) (h b) = h <$> upd x a b)
    (a b : Nat) (M : Mat α) :
    updateRows chk act upd' a b (mapMat h M) = mapMat h <$> updateRows chk act upd a b M := by
  unfold updateRows
  refine bind_same _ (fun r1 => ?_)
  refine bind_nat (mapMat h) _
    (foldlM_nat _ _ _ (fun M x => Mat.update_nat h chk M upd upd' hu ..) _ _) (fun M => ?_)
  refine bind_same _ (fun r2 => ?_)
  refine bind_nat (mapMat h) _
    (foldlM_nat _ _ _ (fun M x => Mat.update_nat h chk M upd upd' hu ..) _ _) (fun M => ?_)
  refine bind_same _ (fun r3 => ?_)
  exact foldlM_nat _ _ _ (fun M x => Mat.update_nat h chk M upd upd' hu ..) _ _

omit [Num α] [Num β] in
theorem Step.new_nat (h : α → β) (c1 c2 : Nat) (d : α) (s : Nat) :
    Step.new c1 c2 (h d) s = mapStep h (Step.new c1 c2 d s) := by
  unfold Step.new; split <;> rfl

omit [Num α] [Num β] in
theorem Dendrogram.push_nat (h : α → β) (d : Dendrogram α) (s : Step α) :
    (mapDend h d).push (mapStep h s) = mapDend h <$> d.push s := by
  unfold Dendrogram.push
  simp only [mapDend_steps, mapDend_obs, Array.size_map]
  refine bind_same _ (fun _ => ?_)
  simp only [map_pure, mapDend, Array.map_push]

theorem State.merge_nat (hd hp h : α → β) (chk : Bool) (st : State α) (dend : Dendrogram α)
    (c1 c2 : Nat) (d : α) :
    (mapState hd hp st).merge chk (mapDend h dend) c1 c2 (h d)
      = (fun r => (mapState hd hp r.1, mapDend h r.2)) <$> st.merge chk dend c1 c2 d := by
  unfold State.merge
  simp only [mapState_sizes, mapState_active]
  refine bind_same _ (fun s1 => ?_)
  refine bind_same _ (fun s2 => ?_)
  refine bind_same _ (fun sum => ?_)
  refine bind_same _ (fun sizes => ?_)
  refine bind_same _ (fun active => ?_)
  rw [Step.new_nat]
  refine bind_nat (mapDend h) _ (Dendrogram.push_nat ..) (fun dend => rfl)


/-! ## Sort, relabel, square / sqrt -/

theorem stepLe_nat {h : α → β} (H : OrdHom h) (s t : Step α) :
    stepLe (mapStep h s) (mapStep h t) = stepLe s t := by
  simp only [stepLe, mapStep_d, H.lt]

theorem sortSteps_nat {h : α → β} (H : OrdHom h) (steps : Array (Step α)) :
    sortSteps (steps.map (mapStep h)) = Array.map (mapStep h) <$> sortSteps steps := by
  have e1 : ((fun s : Step β => Num.isNaN s.d) ∘ mapStep h) = fun s : Step α => Num.isNaN s.d := by
    funext s; simp only [Function.comp, mapStep_d, H.isNaN]
  have e2 : ((steps.map (mapStep h)).toList.mergeSort stepLe).toArray
      = Array.map (mapStep h) (steps.toList.mergeSort stepLe).toArray := by
    rw [Array.toList_map, ← List.map_mergeSort (r := stepLe)]
    · simp
    · intro a _ b _; exact (stepLe_nat H a b).symm
  have e3 : (steps.map (mapStep h)).any (fun s => Num.isNaN s.d)
      = steps.any (fun s => Num.isNaN s.d) := by rw [Array.any_map, e1]
  unfold sortSteps
  rw [e3, Array.size_map, e2]
  split <;> rfl

omit [Num α] [Num β] in
theorem clusterSizeOf_nat (h : α → β) (obs : Nat) (steps : Array (Step α)) (label : Nat) :
    Dendrogram.clusterSizeOf obs (steps.map (mapStep h)) label
      = Dendrogram.clusterSizeOf obs steps label := by
  unfold Dendrogram.clusterSizeOf
  split
  · rfl
  · rw [aget_nat, bind_map_left]; rfl

omit [Num α] [Num β] in
theorem relabelStep_nat (h : α → β) (obs : Nat) (uf : UF) (steps : Array (Step α)) (i : Nat) :
    relabelStep obs (uf, steps.map (mapStep h)) i
      = (fun p => (p.1, p.2.map (mapStep h))) <$> relabelStep obs (uf, steps) i := by
  unfold relabelStep
  simp only [clusterSizeOf_nat]
  refine bind_nat (mapStep h) _ (aget_nat ..) (fun s => ?_)
  simp only [mapStep_c1, mapStep_c2]
  refine bind_same _ (fun r1 => ?_)
  refine bind_same _ (fun r2 => ?_)
  refine bind_same _ (fun uf => ?_)
  refine bind_same _ (fun s1 => ?_)
  refine bind_same _ (fun s2 => ?_)
  refine bind_nat (Array.map (mapStep h)) _ ?_ (fun st => rfl)
  rw [← aset_nat]
  congr 1
  unfold Step.setClusters; split <;> rfl

theorem relabel_nat {h : α → β} (H : OrdHom h) (m : Method) (uf0 : UF) (d : Dendrogram α) :
    relabel m uf0 (mapDend h d) = (fun r => (r.1, mapDend h r.2)) <$> relabel m uf0 d := by
  unfold relabel
  simp only [mapDend_obs, mapDend_steps]
  have key : ∀ steps : Array (Step α),
      ((List.range (steps.map (mapStep h)).size).foldlM (relabelStep d.obs)
          (Gen.ufReset uf0 d.obs, steps.map (mapStep h)) >>= fun x =>
        (pure (x.1, ({ steps := x.2, obs := d.obs } : Dendrogram β)) : R _))
      = (fun r => (r.1, mapDend h r.2)) <$>
        ((List.range steps.size).foldlM (relabelStep d.obs) (Gen.ufReset uf0 d.obs, steps)
          >>= fun x => (pure (x.1, ({ steps := x.2, obs := d.obs } : Dendrogram α)) : R _)) := by
    intro steps
    rw [Array.size_map]
    exact bind_nat (fun p : UF × Array (Step α) => (p.1, p.2.map (mapStep h))) _
      (foldlM_nat _ _ _ (fun s x => relabelStep_nat h d.obs s.1 s.2 x) _ (_, steps)) (fun p => rfl)
  split
  · exact bind_nat (Array.map (mapStep h)) _ (sortSteps_nat H _) key
  · exact key d.steps

theorem sqrtSteps_nat {h h₂ : α → β} (m : Method)
    (hsq : m.onSquares = true → ∀ x, Num.sqrt (h₂ x) = h (Num.sqrt x))
    (hns : m.onSquares = false → h₂ = h) (d : Dendrogram α) :
    sqrtSteps m (mapDend h₂ d) = mapDend h (sqrtSteps m d) := by
  unfold sqrtSteps
  split
  · next ho =>
    simp only [mapDend, Array.map_map]
    congr 1
    apply Array.map_congr_left
    intro s _
    simp only [Function.comp, mapStep, hsq ho]
  · next ho =>
    have := hns (by simpa using ho); subst this; rfl

theorem squareData_nat {h h₂ : α → β} (m : Method)
    (hsq : m.onSquares = true → ∀ x, h₂ (Num.mul x x) = Num.mul (h x) (h x))
    (hns : m.onSquares = false → h₂ = h) (data : Array α) :
    squareData m (data.map h) = (squareData m data).map h₂ := by
  unfold squareData
  split
  · next ho =>
    simp only [Array.map_map]
    apply Array.map_congr_left
    intro x _
    simp only [Function.comp, hsq ho]
  · next ho =>
    have := hns (by simpa using ho); subst this; rfl


end Kodama
