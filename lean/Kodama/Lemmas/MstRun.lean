/- `mstWith` as a whole: the main loop is total, counts exactly, and leaves a spanning tree. -/
import Kodama.Lemmas.MstInv
import Kodama.Lemmas.Reset
namespace Kodama
open Spec
variable {α : Type} [Num α]

/-- A correctly sized matrix for `2 ≤ n < 2^31` observations passes the (generated) shape guard. -/
theorem shapeM_ok (chk : Bool) (len n : Nat) (h2 : 2 ≤ n) (hs : n < 2147483648)
    (hl : 2 * len = n * (n - 1)) : Gen.shapeM chk len n = .ok n := by
  have hmul : n * (n - 1) < usizeMod := by
    unfold usizeMod
    have h1 : n - 1 < 2147483648 := by omega
    calc n * (n - 1) ≤ 2147483648 * (n - 1) := Nat.mul_le_mul_right _ (by omega)
      _ < 2147483648 * 2147483648 := Nat.mul_lt_mul_of_pos_left h1 (by omega)
      _ < 18446744073709551616 := by decide
  have hge : 2 ≤ n * (n - 1) := by
    calc 2 = 2 * 1 := rfl
      _ ≤ n * (n - 1) := Nat.mul_le_mul h2 (by omega)
  have hl0 : ¬ len = 0 := by omega
  have h1' : 1 ≤ n := by omega
  have hdiv : n * (n - 1) / 2 = len := by omega
  unfold Gen.shapeM
  simp [hl0, guard', h2, usub, umul, udiv, h1', hmul, bind, Except.bind, pure, Except.pure, hdiv]

theorem Mat.new_ok (chk : Bool) (data : Array α) (n : Nat) (h2 : 2 ≤ n) (hs : n < 2147483648)
    (hl : 2 * data.size = n * (n - 1)) :
    Mat.new chk data n = .ok { data := data, n := n, acc := 0 } := by
  unfold Mat.new
  rw [shapeM_ok chk data.size n h2 hs hl]
  rfl

/-- What the main loop of `mstWith` leaves behind. -/
structure MstLoopResult (n : Nat) (data : Array α) (st : State α) (dend : Dendrogram α)
    (M : Mat α) : Prop where
  obs : dend.obs = n
  steps_sz : dend.steps.size = n - 1
  raw : RawTree n (rawOf dend)
  data_eq : M.data = data
  mn : M.n = n
  acc : 2 * M.acc = n * (n - 1)

/-- The loop of `mst_with` on a valid matrix: total (for ANY comparison results), exact count,
spanning tree. -/
theorem mstLoop_ok (chk : Bool) (data : Array α) (n : Nat) (h2 : 2 ≤ n) (hs : n < 2147483648)
    (hl : 2 * data.size = n * (n - 1)) :
    ∃ act0, (State.fresh n : State α).active.remove chk 0 = .ok act0 ∧
    ∃ st1 dend1 M1 c1,
      iterM (mstIter chk) (n - 1)
        ({ (State.fresh n : State α) with active := act0 }, Dendrogram.new n,
          { data := data, n := n, acc := 0 }, 0) = .ok (st1, dend1, M1, c1) ∧
      MstLoopResult n data st1 dend1 M1 := by
  have hrep0 : (State.fresh n : State α).active.Rep (List.range n) n := Active.rep_fresh n
  obtain ⟨act0, hrem, hrep1⟩ := hrep0.remove chk 0 (by omega)
  refine ⟨act0, hrem, ?_⟩
  let live0 := (List.range n).filter (· ≠ 0)
  let st0 : State α := { (State.fresh n : State α) with active := act0 }
  let M0 : Mat α := { data := data, n := n, acc := 0 }
  have hlen0 : live0.length + 1 = n := by
    have := filter_ne_length 0 (List.range n) List.nodup_range (by simp; omega)
    simpa [live0] using this
  have hinv0 : MstInv n 0 live0 st0 (Dendrogram.new n) M0 0 :=
    { rep := hrep1
      llen := by omega
      cl_lt := by omega
      cl_not := by simp [live0]
      sizes_sz := by simp [st0, State.fresh]
      sizes_live := by
        intro x hx
        have : x < n := by
          have := (List.mem_filter.mp hx).1; simpa using this
        simp [st0, State.fresh, this]
      sizes_cl := by
        have : 0 < n := by omega
        simp [st0, State.fresh, this]
      md_sz := by simp [st0, State.fresh]
      obs := rfl
      steps_sz := rfl
      mvalid := ⟨h2, hs, hl⟩
      mn := rfl
      acc := by
        have : live0.length = n - 1 := by omega
        rw [this]
        have : n - 1 + 1 = n := by omega
        rw [this]; simp only [M0, Nat.mul_zero, Nat.zero_add]; exact Nat.mul_comm _ _
      eff := by simp [rawOf, Dendrogram.new, AllEff]
      inRange := by simp [rawOf, Dendrogram.new]
      comp := ⟨0, by simp [live0], by omega,
        by
          intro x hx hnot
          simp only [rawOf, Dendrogram.new, List.map_nil, compAfter_nil, id]
          by_cases h0 : x = 0
          · exact h0
          · exfalso; apply hnot; simp [live0, hx, h0],
        by intro x _; simp [rawOf, Dendrogram.new]⟩ }
  have key := iterM_ok
    (fun j (s : State α × Dendrogram α × Mat α × Nat) =>
      ∃ live, MstInv n j live s.1 s.2.1 s.2.2.1 s.2.2.2 ∧ s.2.2.1.data = data)
    (mstIter chk) (n - 1) 0 (st0, Dendrogram.new n, M0, 0)
    (by
      intro j s hj ⟨live, hinv, hd⟩
      obtain ⟨st, dend, M, cl⟩ := s
      simp only [Nat.zero_add] at hinv ⊢
      obtain ⟨st', dend', M', cl', live', e, hinv', hd'⟩ :=
        mstIter_ok chk n j live st dend M cl (by omega) hinv
      exact ⟨(st', dend', M', cl'), e, live', hinv', by simpa [hd'] using hd⟩)
    ⟨live0, by simpa using hinv0, rfl⟩
  obtain ⟨⟨st1, dend1, M1, c1⟩, e, live, hinv, hd⟩ := key
  simp only [Nat.zero_add] at hinv hd
  refine ⟨st1, dend1, M1, c1, e, ?_⟩
  have hl0 : live.length = 0 := by have := hinv.llen; omega
  exact
    { obs := hinv.obs
      steps_sz := hinv.steps_sz
      raw := ⟨by simp [rawOf, hinv.steps_sz], hinv.inRange, hinv.eff⟩
      data_eq := hd
      mn := hinv.mn
      acc := by have := hinv.acc; rw [hl0] at this; simpa using this }

/-- `mstWith` on a valid matrix is the loop followed by `relabel`. -/
theorem mstWith_eq (chk : Bool) (st : State α) (d : Dendrogram α) (data : Array α) (n : Nat)
    (h2 : 2 ≤ n) (hs : n < 2147483648) (hl : 2 * data.size = n * (n - 1)) :
    ∃ st1 dend1 M1, MstLoopResult n data st1 dend1 M1 ∧
      mstWith chk st d data n =
        (relabel .single st1.set dend1 >>= fun r => pure ({ st1 with set := r.1 }, r.2, M1)) := by
  obtain ⟨act0, hrem, st1, dend1, M1, c1, hloop, hres⟩ := mstLoop_ok chk data n h2 hs hl
  refine ⟨st1, dend1, M1, hres, ?_⟩
  unfold mstWith
  rw [Mat.new_ok chk data n h2 hs hl]
  have hn0 : ¬ n = 0 := by omega
  simp only [bind, Except.bind, hn0, if_false, State.reset_eq_fresh, dendrogramReset_eq, hrem,
    hloop]

end Kodama
