/-
Equivariance of the label-based greedy specification (`Kodama/Spec/Naive.lean`) under a
renumbering of the observations.

`π` (with inverse `ρ`, `IsPerm n π ρ`) renumbers the observations `0 … n-1`; `σ π n` extends it to
all labels by fixing the internal labels `≥ n`.  If the matrix `data'` is the matrix `data` with
rows and columns renumbered (`entry data' i j = entry data (π i) (π j)`), then every greedy run on
`data'` is mapped, step by step (`mapStep (σ π n)`: relabel the two children, smaller label
first), to a greedy run on `data` with the same heights and sizes, and the leaf set of every label
is mapped by `σ π n` (as a list: up to `List.Perm`, because the two children may swap).

The only number fact used is `LwSymm α m` (the update formula is symmetric in the two merged
clusters; `Kodama/Lemmas/SpecLaws.lean`), needed because relabelling may swap which child is
"`a`" and which is "`b`".  Core Lean only.
-/
import Kodama.Lemmas.SpecReplay
import Kodama.Lemmas.SpecLaws
namespace Kodama.Spec

/-! ### permutations of the observations, label maps, step maps (no numbers involved) -/

section Labels
variable {α : Type}

/-- `π` is a permutation of `{0, …, n-1}` with inverse `ρ` (nothing is said outside the range). -/
structure IsPerm (n : Nat) (π ρ : Nat → Nat) : Prop where
  lt : ∀ i, i < n → π i < n
  lt' : ∀ i, i < n → ρ i < n
  left : ∀ i, i < n → ρ (π i) = i
  right : ∀ i, i < n → π (ρ i) = i

/-- The label map of a renumbering: observations are renumbered, internal labels are fixed. -/
def σ (π : Nat → Nat) (n l : Nat) : Nat := if l < n then π l else l

/-- What the proofs use of a label map. -/
structure LabelMap (n : Nat) (f : Nat → Nat) : Prop where
  fix : ∀ l, n ≤ l → f l = l
  lt : ∀ l, l < n → f l < n
  inj : ∀ a b, f a = f b → a = b
  surj : ∀ l, l < n → ∃ l', l' < n ∧ f l' = l

theorem σ_labelMap {n : Nat} {π ρ : Nat → Nat} (h : IsPerm n π ρ) : LabelMap n (σ π n) where
  fix l hl := by unfold σ; rw [if_neg (by omega)]
  lt l hl := by unfold σ; rw [if_pos hl]; exact h.lt l hl
  inj a b hab := by
    unfold σ at hab
    by_cases ha : a < n <;> by_cases hb : b < n
    · rw [if_pos ha, if_pos hb] at hab
      have := congrArg ρ hab
      rwa [h.left a ha, h.left b hb] at this
    · rw [if_pos ha, if_neg hb] at hab
      have := h.lt a ha; omega
    · rw [if_neg ha, if_pos hb] at hab
      have := h.lt b hb; omega
    · rw [if_neg ha, if_neg hb] at hab; exact hab
  surj l hl := ⟨ρ l, h.lt' l hl, by unfold σ; rw [if_pos (h.lt' l hl)]; exact h.right l hl⟩

theorem σ_of_lt (π : Nat → Nat) {n l : Nat} (h : l < n) : σ π n l = π l := by
  unfold σ; rw [if_pos h]

theorem σ_of_ge (π : Nat → Nat) {n l : Nat} (h : n ≤ l) : σ π n l = l := by
  unfold σ; rw [if_neg (by omega)]

theorem LabelMap.lt_iff {n : Nat} {f : Nat → Nat} (hf : LabelMap n f) (l : Nat) :
    f l < n ↔ l < n := by
  constructor
  · intro h
    by_cases hl : l < n
    · exact hl
    · rw [hf.fix l (by omega)] at h; exact h
  · exact hf.lt l

/-- Relabel the two children of a step, smaller label first; height and size are kept. -/
def mapStep (f : Nat → Nat) (st : Step α) : Step α :=
  if f st.c2 < f st.c1 then ⟨f st.c2, f st.c1, st.d, st.size⟩
  else ⟨f st.c1, f st.c2, st.d, st.size⟩

@[simp] theorem mapStep_d (f : Nat → Nat) (st : Step α) : (mapStep f st).d = st.d := by
  unfold mapStep; split <;> rfl

@[simp] theorem mapStep_size (f : Nat → Nat) (st : Step α) : (mapStep f st).size = st.size := by
  unfold mapStep; split <;> rfl

theorem mapStep_of_le (f : Nat → Nat) (st : Step α) (h : f st.c1 ≤ f st.c2) :
    (mapStep f st).c1 = f st.c1 ∧ (mapStep f st).c2 = f st.c2 := by
  unfold mapStep; rw [if_neg (by omega)]; exact ⟨rfl, rfl⟩

theorem mapStep_of_lt (f : Nat → Nat) (st : Step α) (h : f st.c2 < f st.c1) :
    (mapStep f st).c1 = f st.c2 ∧ (mapStep f st).c2 = f st.c1 := by
  unfold mapStep; rw [if_pos h]; exact ⟨rfl, rfl⟩

theorem mapStep_cases (f : Nat → Nat) (st : Step α) :
    ((mapStep f st).c1 = f st.c1 ∧ (mapStep f st).c2 = f st.c2 ∧ f st.c1 ≤ f st.c2) ∨
    ((mapStep f st).c1 = f st.c2 ∧ (mapStep f st).c2 = f st.c1 ∧ f st.c2 < f st.c1) := by
  by_cases h : f st.c2 < f st.c1
  · right; exact ⟨(mapStep_of_lt f st h).1, (mapStep_of_lt f st h).2, h⟩
  · left
    have h' : f st.c1 ≤ f st.c2 := by omega
    exact ⟨(mapStep_of_le f st h').1, (mapStep_of_le f st h').2, h'⟩

/-- Heights and sizes of the mapped steps are those of the original steps. -/
theorem heights_sizes_mapStep (f : Nat → Nat) (steps : List (Step α)) :
    (steps.map (mapStep f)).map (·.d) = steps.map (·.d) ∧
    (steps.map (mapStep f)).map (·.size) = steps.map (·.size) := by
  constructor
  · rw [List.map_map]; apply List.map_congr_left; intro st _; exact mapStep_d f st
  · rw [List.map_map]; apply List.map_congr_left; intro st _; exact mapStep_size f st

/-! ### leaves -/

/-- Leaves are observations (unconditionally). -/
theorem leaves_lt (n : Nat) (steps : List (Step α)) (fuel l : Nat) :
    ∀ u ∈ leaves n steps fuel l, u < n := by
  induction fuel generalizing l with
  | zero =>
    intro u hu
    unfold leaves at hu
    by_cases hl : l < n
    · rw [if_pos hl] at hu; simp at hu; omega
    · rw [if_neg hl] at hu; cases hu
  | succ k ih =>
    intro u hu
    unfold leaves at hu
    by_cases hl : l < n
    · rw [if_pos hl] at hu; simp at hu; omega
    · rw [if_neg hl] at hu
      cases hst : steps[l - n]? with
      | none => rw [hst] at hu; cases hu
      | some st =>
        rw [hst] at hu
        rcases List.mem_append.1 hu with h | h
        · exact ih _ u h
        · exact ih _ u h

/-- The leaves beneath the image of a label are the images of the leaves beneath the label, up to
order (the two children of a step may be swapped by `mapStep`).  No well-formedness needed. -/
theorem leaves_mapStep_gen {n : Nat} {f : Nat → Nat} (hf : LabelMap n f) (steps : List (Step α))
    (fuel l : Nat) :
    (leaves n (steps.map (mapStep f)) fuel (f l)).Perm ((leaves n steps fuel l).map f) := by
  induction fuel generalizing l with
  | zero =>
    unfold leaves
    by_cases hl : l < n
    · rw [if_pos hl, if_pos (hf.lt l hl)]; exact List.Perm.refl _
    · rw [if_neg hl, if_neg (fun h => hl ((hf.lt_iff l).1 h))]; exact List.Perm.refl _
  | succ k ih =>
    unfold leaves
    by_cases hl : l < n
    · rw [if_pos hl, if_pos (hf.lt l hl)]; exact List.Perm.refl _
    · rw [if_neg hl, if_neg (fun h => hl ((hf.lt_iff l).1 h)), hf.fix l (by omega),
        List.getElem?_map]
      cases hst : steps[l - n]? with
      | none => exact List.Perm.refl _
      | some st =>
        simp only [Option.map_some, List.map_append]
        rcases mapStep_cases f st with ⟨e1, e2, _⟩ | ⟨e1, e2, _⟩
        · rw [e1, e2]; exact (ih st.c1).append (ih st.c2)
        · rw [e1, e2]
          exact ((ih st.c2).append (ih st.c1)).trans List.perm_append_comm

theorem leaves_mapStep {n : Nat} {π ρ : Nat → Nat} (hπ : IsPerm n π ρ) (steps : List (Step α))
    (fuel l : Nat) :
    (leaves n (steps.map (mapStep (σ π n))) fuel (σ π n l)).Perm
      ((leaves n steps fuel l).map (σ π n)) :=
  leaves_mapStep_gen (σ_labelMap hπ) steps fuel l

/-- On leaf lists `σ π n` is `π`. -/
theorem leaves_map_σ (π : Nat → Nat) (n : Nat) (steps : List (Step α)) (fuel l : Nat) :
    (leaves n steps fuel l).map (σ π n) = (leaves n steps fuel l).map π := by
  apply List.map_congr_left
  intro u hu
  exact σ_of_lt π (leaves_lt n steps fuel l u hu)

end Labels

/-! ### the simulation relation between the two runs -/

variable {α : Type} [Num α]

/-- Swapping the two merged labels does not change the merged state, when the update formula and
the table are symmetric. -/
theorem merge_comm {m : Method} (hS : LwSymm α m) {t : NState α} (ht : DSymm t) (a b : Nat) :
    merge m t b a = merge m t a b := by
  have hl : t.live.filter (fun x => decide (x ≠ b ∧ x ≠ a))
      = t.live.filter (fun x => decide (x ≠ a ∧ x ≠ b)) := by
    congr 1; funext x; simp only [and_comm]
  have hd : ∀ x, lw m (t.D b x) (t.D a x) (t.D b a) (t.size b) (t.size a) (t.size x)
      = lw m (t.D a x) (t.D b x) (t.D a b) (t.size a) (t.size b) (t.size x) := by
    intro x; rw [hS, ht b a]
  simp only [merge, hl, hd, Nat.add_comm (t.size b) (t.size a)]

theorem merge_mapStep {m : Method} (hS : LwSymm α m) {t : NState α} (ht : DSymm t)
    (f : Nat → Nat) (st : Step α) :
    merge m t (mapStep f st).c1 (mapStep f st).c2 = merge m t (f st.c1) (f st.c2) := by
  rcases mapStep_cases f st with ⟨e1, e2, _⟩ | ⟨e1, e2, _⟩
  · rw [e1, e2]
  · rw [e1, e2]; exact merge_comm hS ht _ _

/-- State `s` (of the run on the renumbered matrix) and state `t` (of the run on the original
matrix) correspond through the label map `f`.  Only membership in `live` is related (the orders of
the lists differ) and only off-diagonal table entries (`D c c` after a merge is junk). -/
structure Rel (n : Nat) (f : Nat → Nat) (s t : NState α) : Prop where
  next : t.next = s.next
  le : n ≤ s.next
  live : ∀ l, l ∈ t.live ↔ ∃ l' ∈ s.live, f l' = l
  D : ∀ x ∈ s.live, ∀ y ∈ s.live, x ≠ y → t.D (f x) (f y) = s.D x y
  size : ∀ x ∈ s.live, t.size (f x) = s.size x
  symS : DSymm s
  symT : DSymm t
  lt : ∀ l ∈ s.live, l < s.next

theorem rel_init {n : Nat} {π ρ : Nat → Nat} (hπ : IsPerm n π ρ) (m : Method)
    (data data' : Array α)
    (hperm : ∀ i j, i < n → j < n →
      entry n data' Num.infinity i j = entry n data Num.infinity (π i) (π j)) :
    Rel n (σ π n) (init m n data') (init m n data) where
  next := rfl
  le := Nat.le_refl n
  live l := by
    simp only [init, List.mem_range]
    constructor
    · intro hl
      obtain ⟨l', h1, h2⟩ := (σ_labelMap hπ).surj l hl
      exact ⟨l', h1, h2⟩
    · rintro ⟨l', h1, rfl⟩
      exact (σ_labelMap hπ).lt l' h1
  D x hx y hy _ := by
    have hx' : x < n := by simpa [init] using hx
    have hy' : y < n := by simpa [init] using hy
    simp only [init]
    rw [σ_of_lt π hx', σ_of_lt π hy', hperm x y hx' hy']
  size _ _ := rfl
  symS := init_DSymm m n data'
  symT := init_DSymm m n data
  lt l hl := by simpa [init] using hl

theorem rel_merge {n : Nat} {f : Nat → Nat} {m : Method} (hf : LabelMap n f) {s t : NState α}
    (hr : Rel n f s t) {a b : Nat} (ha : a ∈ s.live) (hb : b ∈ s.live) (hab : a ≠ b) :
    Rel n f (merge m s a b) (merge m t (f a) (f b)) := by
  have hc : f s.next = s.next := hf.fix _ hr.le
  have hfc : ∀ x, f x = s.next ↔ x = s.next := by
    intro x; constructor
    · intro h; exact hf.inj _ _ (h.trans hc.symm)
    · intro h; rw [h]; exact hc
  have hne : ∀ x ∈ s.live, x ≠ s.next := by
    intro x hx h; have := hr.lt x hx; omega
  refine ⟨?_, ?_, ?_, ?_, ?_, merge_DSymm _ _ _ _ hr.symS, merge_DSymm _ _ _ _ hr.symT, ?_⟩
  · simp [hr.next]
  · have := hr.le; simp; omega
  · intro l
    rw [mem_merge_live]
    constructor
    · rintro (⟨hl, hla, hlb⟩ | hl)
      · obtain ⟨l', hl', rfl⟩ := (hr.live l).1 hl
        refine ⟨l', (mem_merge_live _ _ _ _ _).2 (Or.inl ⟨hl', ?_, ?_⟩), rfl⟩
        · rintro rfl; exact hla rfl
        · rintro rfl; exact hlb rfl
      · refine ⟨s.next, (mem_merge_live _ _ _ _ _).2 (Or.inr rfl), ?_⟩
        rw [hc, hl, hr.next]
    · rintro ⟨l', hl', rfl⟩
      rcases (mem_merge_live _ _ _ _ _).1 hl' with ⟨h1, h2, h3⟩ | h
      · left
        exact ⟨(hr.live _).2 ⟨l', h1, rfl⟩, fun e => h2 (hf.inj _ _ e), fun e => h3 (hf.inj _ _ e)⟩
      · right; rw [h, hc, hr.next]
  · intro x hx y hy hxy
    rw [merge_D, merge_D, hr.next]
    simp only [hfc]
    rcases (mem_merge_live _ _ _ _ _).1 hx with ⟨hx1, hxa, hxb⟩ | hx1
    · rcases (mem_merge_live _ _ _ _ _).1 hy with ⟨hy1, hya, hyb⟩ | hy1
      · rw [if_neg (hne x hx1), if_neg (hne y hy1), if_neg (hne x hx1), if_neg (hne y hy1)]
        exact hr.D x hx1 y hy1 hxy
      · rw [if_neg (hne x hx1), if_pos hy1, if_neg (hne x hx1), if_pos hy1,
          hr.D a ha x hx1 (Ne.symm hxa), hr.D b hb x hx1 (Ne.symm hxb), hr.D a ha b hb hab,
          hr.size a ha, hr.size b hb, hr.size x hx1]
    · have hy1 : y ∈ s.live ∧ y ≠ a ∧ y ≠ b := by
        rcases (mem_merge_live _ _ _ _ _).1 hy with h | h
        · exact h
        · exact absurd (hx1.trans h.symm) hxy
      obtain ⟨hy1, hya, hyb⟩ := hy1
      rw [if_pos hx1, if_pos hx1,
        hr.D a ha y hy1 (Ne.symm hya), hr.D b hb y hy1 (Ne.symm hyb), hr.D a ha b hb hab,
        hr.size a ha, hr.size b hb, hr.size y hy1]
  · intro x hx
    rw [merge_size, merge_size, hr.next]
    simp only [hfc]
    rcases (mem_merge_live _ _ _ _ _).1 hx with ⟨hx1, -, -⟩ | hx1
    · rw [if_neg (hne x hx1), if_neg (hne x hx1)]; exact hr.size x hx1
    · rw [if_pos hx1, if_pos hx1, hr.size a ha, hr.size b hb]
  · intro l hl
    rcases (mem_merge_live _ _ _ _ _).1 hl with ⟨h, -, -⟩ | h
    · have := hr.lt l h; simp; omega
    · simp [h]

omit [Num α] in
/-- The table value of the mapped pair is the table value of the pair. -/
theorem rel_D_mapStep {n : Nat} {f : Nat → Nat} {s t : NState α} (hr : Rel n f s t)
    {st : Step α} (ha : st.c1 ∈ s.live) (hb : st.c2 ∈ s.live) (hne : st.c1 ≠ st.c2) :
    t.D (mapStep f st).c1 (mapStep f st).c2 = s.D st.c1 st.c2 := by
  rcases mapStep_cases f st with ⟨e1, e2, _⟩ | ⟨e1, e2, _⟩
  · rw [e1, e2]; exact hr.D _ ha _ hb hne
  · rw [e1, e2, hr.symT]; exact hr.D _ ha _ hb hne

theorem admissible_rel {n : Nat} {f : Nat → Nat} {m : Method} (hf : LabelMap n f)
    {s t : NState α} (hr : Rel n f s t) {st : Step α} (h : Admissible m s st) :
    Admissible m t (mapStep f st) := by
  obtain ⟨ha, hb, hab, hmin, hd, hsz⟩ := h
  have hne : st.c1 ≠ st.c2 := by omega
  have hfne : f st.c1 ≠ f st.c2 := fun e => hne (hf.inj _ _ e)
  have hD := rel_D_mapStep (f := f) hr ha hb hne
  refine ⟨?_, ?_, ?_, ?_, ?_, ?_⟩
  · rcases mapStep_cases f st with ⟨e1, _, _⟩ | ⟨e1, _, _⟩ <;> rw [e1]
    · exact (hr.live _).2 ⟨_, ha, rfl⟩
    · exact (hr.live _).2 ⟨_, hb, rfl⟩
  · rcases mapStep_cases f st with ⟨_, e2, _⟩ | ⟨_, e2, _⟩ <;> rw [e2]
    · exact (hr.live _).2 ⟨_, hb, rfl⟩
    · exact (hr.live _).2 ⟨_, ha, rfl⟩
  · rcases mapStep_cases f st with ⟨e1, e2, h⟩ | ⟨e1, e2, h⟩ <;> rw [e1, e2] <;> omega
  · intro x' hx' y' hy' hxy'
    obtain ⟨x, hx, rfl⟩ := (hr.live _).1 hx'
    obtain ⟨y, hy, rfl⟩ := (hr.live _).1 hy'
    have hxy : x ≠ y := by rintro rfl; exact hxy' rfl
    rw [hD, hr.D x hx y hy hxy]
    exact hmin x hx y hy hxy
  · rw [mapStep_d, hD]; exact hd
  · rw [mapStep_size, hsz]
    rcases mapStep_cases f st with ⟨e1, e2, _⟩ | ⟨e1, e2, _⟩
    · rw [e1, e2, hr.size _ ha, hr.size _ hb]
    · rw [e1, e2, hr.size _ ha, hr.size _ hb, Nat.add_comm]

/-- The strict-minimum (tie-freeness) clause transfers in both directions. -/
theorem strictMin_rel {n : Nat} {f : Nat → Nat} (hf : LabelMap n f) {s t : NState α}
    (hr : Rel n f s t) {st : Step α} (ha : st.c1 ∈ s.live) (hb : st.c2 ∈ s.live)
    (hab : st.c1 < st.c2) : StrictMin s st ↔ StrictMin t (mapStep f st) := by
  have hne : st.c1 ≠ st.c2 := by omega
  have hD := rel_D_mapStep (f := f) hr ha hb hne
  constructor
  · intro hs x' hx' y' hy' hlt' hne'
    obtain ⟨x, hx, rfl⟩ := (hr.live _).1 hx'
    obtain ⟨y, hy, rfl⟩ := (hr.live _).1 hy'
    have hxy : x ≠ y := by rintro rfl; omega
    rw [hD, hr.D x hx y hy hxy]
    rcases Nat.lt_or_gt_of_ne hxy with hlt | hlt
    · apply hs x hx y hy hlt
      intro e
      obtain ⟨rfl, rfl⟩ := Prod.mk.inj e
      obtain ⟨e1, e2⟩ := mapStep_of_le f st (by omega)
      exact hne' (by rw [e1, e2])
    · rw [hr.symS x y]
      apply hs y hy x hx hlt
      intro e
      obtain ⟨rfl, rfl⟩ := Prod.mk.inj e
      obtain ⟨e1, e2⟩ := mapStep_of_lt f st hlt'
      exact hne' (by rw [e1, e2])
  · intro ht x hx y hy hlt hne'
    have hxy : x ≠ y := by omega
    have hfxy : f x ≠ f y := fun e => hxy (hf.inj _ _ e)
    have hx' : f x ∈ t.live := (hr.live _).2 ⟨x, hx, rfl⟩
    have hy' : f y ∈ t.live := (hr.live _).2 ⟨y, hy, rfl⟩
    rw [← hD, ← hr.D x hx y hy hxy]
    rcases Nat.lt_or_gt_of_ne hfxy with h | h
    · apply ht (f x) hx' (f y) hy' h
      intro e
      obtain ⟨e1, e2⟩ := Prod.mk.inj e
      rcases mapStep_cases f st with ⟨c1, c2, _⟩ | ⟨c1, c2, _⟩
      · rw [c1] at e1; rw [c2] at e2
        exact hne' (by rw [hf.inj _ _ e1, hf.inj _ _ e2])
      · rw [c1] at e1; rw [c2] at e2
        have := hf.inj _ _ e1; have := hf.inj _ _ e2; omega
    · rw [hr.symT (f x) (f y)]
      apply ht (f y) hy' (f x) hx' h
      intro e
      obtain ⟨e1, e2⟩ := Prod.mk.inj e
      rcases mapStep_cases f st with ⟨c1, c2, _⟩ | ⟨c1, c2, _⟩
      · rw [c1] at e1; rw [c2] at e2
        have := hf.inj _ _ e1; have := hf.inj _ _ e2; omega
      · rw [c1] at e1; rw [c2] at e2
        exact hne' (by rw [hf.inj _ _ e1, hf.inj _ _ e2])

/-- A greedy run from `s` is mapped to a greedy run from any related `t`; tie-freeness of the two
runs is equivalent. -/
theorem greedyFrom_rel {n : Nat} {f : Nat → Nat} {m : Method} (hf : LabelMap n f)
    (hS : LwSymm α m) (steps : List (Step α)) {s t : NState α} (hr : Rel n f s t)
    (hg : GreedyFrom m s steps) :
    GreedyFrom m t (steps.map (mapStep f)) ∧
      (TieFreeFrom m s steps ↔ TieFreeFrom m t (steps.map (mapStep f))) := by
  induction steps generalizing s t with
  | nil => simp [GreedyFrom, TieFreeFrom]
  | cons st r ih =>
    obtain ⟨ha, hg'⟩ := hg
    have hr' := rel_merge (m := m) hf hr ha.1 ha.2.1 (Nat.ne_of_lt ha.2.2.1)
    rw [← merge_mapStep hS hr.symT f st] at hr'
    obtain ⟨ih1, ih2⟩ := ih hr' hg'
    have hsm := strictMin_rel hf hr ha.1 ha.2.1 ha.2.2.1
    simp only [List.map_cons, GreedyFrom, TieFreeFrom]
    refine ⟨⟨admissible_rel hf hr ha, ih1⟩, ?_, ?_⟩
    · rintro ⟨h1, h2⟩; exact ⟨hsm.1 h1, ih2.1 h2⟩
    · rintro ⟨h1, h2⟩; exact ⟨hsm.2 h1, ih2.2 h2⟩

/-! ### exported statements -/

/-- Renumbering the observations maps greedy-valid dendrograms to greedy-valid dendrograms. -/
theorem greedyValid_perm {n : Nat} {π ρ : Nat → Nat} {m : Method} {data data' : Array α}
    {steps : List (Step α)} (hπ : IsPerm n π ρ) (hS : LwSymm α m)
    (hperm : ∀ i j, i < n → j < n →
      entry n data' Num.infinity i j = entry n data Num.infinity (π i) (π j))
    (h : GreedyValid m n data' steps) :
    GreedyValid m n data (steps.map (mapStep (σ π n))) := by
  refine ⟨by rw [List.length_map]; exact h.1, ?_⟩
  exact (greedyFrom_rel (σ_labelMap hπ) hS steps (rel_init hπ m data data' hperm) h.2).1

/-- Tie-freeness of the run on the renumbered matrix and of the mapped run are equivalent. -/
theorem tieFreeFrom_perm {n : Nat} {π ρ : Nat → Nat} {m : Method} {data data' : Array α}
    {steps : List (Step α)} (hπ : IsPerm n π ρ) (hS : LwSymm α m)
    (hperm : ∀ i j, i < n → j < n →
      entry n data' Num.infinity i j = entry n data Num.infinity (π i) (π j))
    (h : GreedyValid m n data' steps) :
    TieFreeFrom m (init m n data') steps ↔
      TieFreeFrom m (init m n data) (steps.map (mapStep (σ π n))) :=
  (greedyFrom_rel (σ_labelMap hπ) hS steps (rel_init hπ m data data' hperm) h.2).2

end Kodama.Spec
