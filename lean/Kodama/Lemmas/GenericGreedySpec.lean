/-
C03 for `generic_with`, part 5 (specification side): the value hypotheses of the `generic_with`
theorems (`GoodSet G`, `UpdClosed G m`, inputs in `G`) imply `Spec.NoNaNRun` — every table reached
by ANY greedy run of the specification has good (hence non-NaN) entries at live pairs.  So the
theorems about the sorted methods need no separate `NoNaNRun` hypothesis.
-/
import Kodama.Lemmas.GenericGreedySim
set_option linter.unusedSectionVars false
set_option linter.unusedSimpArgs false
set_option linter.unusedVariables false
namespace Kodama
open Spec
variable {α : Type} [Num α]

/-- All live off-diagonal table entries are good. -/
def TableGood (G : α → Prop) (s : NState α) : Prop :=
  ∀ x ∈ s.live, ∀ y ∈ s.live, x ≠ y → G (s.D x y)

/-- All live clusters have positive size. -/
def LiveSizePos (s : NState α) : Prop := ∀ x ∈ s.live, 0 < s.size x

theorem lw_good {G : α → Prop} {m : Method} (hcl : UpdClosed G m) (va vb dab : α)
    (sa sb sx : Nat) (ha : 0 < sa) (hb : 0 < sb) (hx : 0 < sx) (g1 : G va) (g2 : G vb)
    (g3 : G dab) : G (lw m va vb dab sa sb sx) := by
  have e := updFn_eq m #[sx] sa sb dab 0 va vb (by simp)
  have : (#[sx] : Array Nat).getD 0 0 = sx := rfl
  rw [this] at e
  refine hcl #[sx] sa sb dab 0 va vb _ ?_ (fun _ => ⟨ha, hb⟩) (fun _ => g3) g1 g2 e
  intro i hi
  have hi0 : i = 0 := by simpa using hi
  subst hi0
  simpa using hx

theorem merge_TableGood {G : α → Prop} {m : Method} (hcl : UpdClosed G m) {s : NState α}
    {a b : Nat} (ha : a ∈ s.live) (hb : b ∈ s.live) (hab : a ≠ b)
    (hlt : ∀ l ∈ s.live, l < s.next) (ht : TableGood G s) (hp : LiveSizePos s) :
    TableGood G (merge m s a b) := by
  intro x hx y hy hxy
  rw [merge_D]
  rcases (mem_merge_live m s a b x).1 hx with ⟨hx1, hx2, hx3⟩ | hx1
  · have hxn : x ≠ s.next := by have := hlt x hx1; omega
    rcases (mem_merge_live m s a b y).1 hy with ⟨hy1, hy2, hy3⟩ | hy1
    · have hyn : y ≠ s.next := by have := hlt y hy1; omega
      rw [if_neg hxn, if_neg hyn]
      exact ht x hx1 y hy1 hxy
    · rw [if_neg hxn, if_pos hy1]
      exact lw_good hcl _ _ _ _ _ _ (hp a ha) (hp b hb) (hp x hx1)
        (ht a ha x hx1 (Ne.symm hx2)) (ht b hb x hx1 (Ne.symm hx3)) (ht a ha b hb hab)
  · rcases (mem_merge_live m s a b y).1 hy with ⟨hy1, hy2, hy3⟩ | hy1
    · rw [if_pos hx1]
      exact lw_good hcl _ _ _ _ _ _ (hp a ha) (hp b hb) (hp y hy1)
        (ht a ha y hy1 (Ne.symm hy2)) (ht b hb y hy1 (Ne.symm hy3)) (ht a ha b hb hab)
    · exact absurd (hx1.trans hy1.symm) hxy

theorem merge_LiveSizePos {m : Method} {s : NState α} {a b : Nat} (ha : a ∈ s.live)
    (hp : LiveSizePos s) : LiveSizePos (merge m s a b) := by
  intro x hx
  rw [merge_size]
  rcases (mem_merge_live m s a b x).1 hx with ⟨hx1, _, _⟩ | hx1
  · split
    · have := hp a ha; omega
    · exact hp x hx1
  · rw [if_pos hx1]
    have := hp a ha; omega

/-- Good inputs (squared where the method works on squares) give a good initial table. -/
theorem init_TableGood {G : α → Prop} (m : Method) (data : Array α) (n : Nat) (h2 : 2 ≤ n)
    (hs : n < 2147483648) (hl : 2 * data.size = n * (n - 1))
    (hin : ∀ i (h : i < (squareData m data).size), G (squareData m data)[i]) :
    TableGood G (init m n data) := by
  have hl' : 2 * (squareData m data).size = n * (n - 1) := by rw [squareData_size]; exact hl
  have hM0 : MGood G n ({ data := squareData m data, n := n, acc := 0 } : Mat α) :=
    ⟨⟨h2, hs, hl'⟩, rfl, hin⟩
  have key : ∀ x y, x < y → y < n → G ((init m n data).D x y) := by
    intro x y hxy hyn
    obtain ⟨v, hv, gv⟩ := hM0.get true x y hxy hyn
    rw [init_get true m data n hs hl x y hxy hyn] at hv
    injection hv with hv
    rw [hv]; exact gv
  intro x hx y hy hxy
  have hx' : x < n := by simpa [init] using hx
  have hy' : y < n := by simpa [init] using hy
  by_cases c : x < y
  · exact key x y c hy'
  · rw [init_DSymm m n data x y]
    exact key y x (by omega) hx'

/-- **The closure hypothesis implies the run-dependent one** (`Spec.RunGood`, the hypothesis of the
`_run` theorems): a set closed under the update that contains the inputs contains every table value
of every greedy run. -/
theorem runGood_of_updClosed {G : α → Prop} {m : Method} (hcl : UpdClosed G m)
    {n : Nat} {data : Array α} (h0 : TableGood G (init m n data)) : RunGood G m n data := by
  have key : ∀ (l : List (Step α)) (s : NState α) (i : Nat), StInv n i s → TableGood G s →
      LiveSizePos s → GreedyFrom m s l → TableGood G (replay m s l) := by
    intro l
    induction l with
    | nil => intro s i _ ht _ _; exact ht
    | cons st r ih =>
      intro s i hi ht hp hg
      obtain ⟨ha, hr⟩ := hg
      simp only [replay]
      exact ih _ (i + 1) (merge_StInv hi ha)
        (merge_TableGood hcl ha.1 ha.2.1 (by have := ha.2.2.1; omega) hi.lt ht hp)
        (merge_LiveSizePos ha.1 hp) hr
  intro l hg x hx y hy hxy
  exact key l _ 0 (init_StInv m n data) h0 (by intro z _; simp [init]) hg x hx y hy hxy

/-- **`NoNaNRun` from the value hypotheses of `generic_with`.** -/
theorem noNaNRun_of_updClosed {G : α → Prop} (gs : GoodSet G) {m : Method} (hcl : UpdClosed G m)
    {n : Nat} {data : Array α} (h0 : TableGood G (init m n data)) : NoNaNRun m n data := by
  have key : ∀ (l : List (Step α)) (s : NState α) (i : Nat), StInv n i s → TableGood G s →
      LiveSizePos s → GreedyFrom m s l → TableGood G (replay m s l) := by
    intro l
    induction l with
    | nil => intro s i _ ht _ _; exact ht
    | cons st r ih =>
      intro s i hi ht hp hg
      obtain ⟨ha, hr⟩ := hg
      simp only [replay]
      exact ih _ (i + 1) (merge_StInv hi ha)
        (merge_TableGood hcl ha.1 ha.2.1 (by have := ha.2.2.1; omega) hi.lt ht hp)
        (merge_LiveSizePos ha.1 hp) hr
  intro l hg x hx y hy hxy
  exact gs.notNaN _ (key l _ 0 (init_StInv m n data) h0
    (by intro z _; simp [init]) hg x hx y hy hxy)

end Kodama
