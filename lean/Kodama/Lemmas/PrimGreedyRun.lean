/-
C03 (primitive), assembling the stages: the whole main loop (`primSim_loop`), `primitiveWith` as
loop ; `relabel` ; `sqrtSteps` with the simulation result attached (`primitiveWith_sim`), and the
returned steps when `relabel` processes the raw steps in the order given (`relabel_greedy`).
-/
import Kodama.Lemmas.PrimGreedySim
import Kodama.Lemmas.PrimGreedyRelabel
import Kodama.Lemmas.SpecWellFormed
namespace Kodama
open Spec
variable {α : Type} [Num α]

namespace Spec

theorem greedyFrom_take (m : Method) : ∀ (l : List (Step α)) (s : NState α) (i : Nat),
    GreedyFrom m s l → GreedyFrom m s (l.take i) := by
  intro l
  induction l with
  | nil => intro s i _; simp [GreedyFrom]
  | cons st r ih =>
    intro s i h
    cases i with
    | zero => simp [GreedyFrom]
    | succ j =>
      simp only [List.take_succ_cons, GreedyFrom]
      exact ⟨h.1, ih _ j h.2⟩

/-- Under `NoNaNRun` no raw height of a greedy run from the initial state is NaN. -/
theorem rawHeights_noNaN {m : Method} {n : Nat} {data : Array α} (hnn : NoNaNRun m n data)
    (l : List (Step α)) (hg : GreedyFrom m (init m n data) l) :
    ∀ v ∈ rawHeights m (init m n data) l, Num.isNaN v = false := by
  intro v hv
  obtain ⟨i, hi, hvi⟩ := List.getElem_of_mem hv
  have hil : i < l.length := by rw [rawHeights_length] at hi; exact hi
  have hst : l[i]? = some l[i] := by simp [hil]
  have hget := rawHeights_get m (init m n data) l i _ hst
  have hvi' : (rawHeights m (init m n data) l)[i]? = some v := by
    rw [List.getElem?_eq_some_iff]; exact ⟨hi, hvi⟩
  rw [hvi'] at hget
  injection hget with hget
  rw [hget]
  have ha := (greedyFrom_iff m _ l).1 hg i _ hst
  exact hnn (l.take i) (greedyFrom_take m l _ i hg) _ ha.1 _ ha.2.1 (by have := ha.2.2.1; omega)

end Spec

/-- What the main loop of `primitive_with` leaves behind, in terms of the greedy specification. -/
structure PrimGreedyResult (m : Method) (n : Nat) (data : Array α) (dend : Dendrogram α)
    (M : Mat α) : Prop where
  res : PrimLoopResult n dend M
  trace : MergeTrace n (rawOf dend)
  valid : GreedyValid m n data (mergeOrder m n dend.steps.toList)
  hts : dend.steps.toList.map (·.d)
    = rawHeights m (init m n data) (mergeOrder m n dend.steps.toList)

/-- **Stage 3, whole loop.**  The main loop is total and its raw dendrogram, relabelled in merge
order, is a greedy run of the specification from the initial state. -/
theorem primSim_loop (L : OrderLaws α) (chk : Bool) (m : Method) (hsym : LwSymm α m)
    (data : Array α) (n : Nat) (h2 : 2 ≤ n) (hs : n < 2147483648)
    (hl : 2 * data.size = n * (n - 1)) (hnn : NoNaNRun m n data) :
    ∃ st1 dend1 M1,
      iterM (primitiveIter chk m) (n - 1)
        ((State.fresh n : State α), Dendrogram.new n,
          ({ data := squareData m data, n := n, acc := 0 } : Mat α))
        = .ok (st1, dend1, M1) ∧ PrimGreedyResult m n data dend1 M1 := by
  have hl' : 2 * (squareData m data).size = n * (n - 1) := by rw [squareData_size]; exact hl
  have hinv0 : PrimInv n 0 (List.range n) (State.fresh n : State α) (Dendrogram.new n)
      ({ data := squareData m data, n := n, acc := 0 } : Mat α) :=
    { rep := Active.rep_fresh n
      llen := by simp
      sizes_sz := by simp [State.fresh]
      sizes_sum := by
        unfold sumOver
        have : ∀ k, k ≤ n → ((List.range k).map (fun x => (State.fresh n : State α).sizes.getD x 0)).sum = k := by
          intro k
          induction k with
          | zero => intro _; rfl
          | succ k ih =>
            intro hk
            have hk' : k < n := by omega
            rw [List.range_succ, List.map_append, List.sum_append, ih (by omega)]
            simp [State.fresh, Array.getD, hk']
        exact this n (Nat.le_refl n)
      obs := rfl
      steps_sz := rfl
      mvalid := ⟨h2, hs, hl'⟩
      mn := rfl
      eff := by simp [rawOf, Dendrogram.new, AllEff]
      inRange := by simp [rawOf, Dendrogram.new]
      comp := by intro x _ y _ hxy; simpa [rawOf, Dendrogram.new] using hxy }
  have hsim0 := primSim_init chk m data n hs hl hinv0
  have key := iterM_ok
    (fun j (t : State α × Dendrogram α × Mat α) =>
      ∃ live s mo, PrimSim chk m n data j live t.1 t.2.1 t.2.2 s mo)
    (primitiveIter chk m) (n - 1) 0 ((State.fresh n : State α), Dendrogram.new n, _)
    (by
      intro j t hj ⟨live, s, mo, hsim⟩
      obtain ⟨st, dend, M⟩ := t
      simp only [Nat.zero_add] at hsim ⊢
      obtain ⟨st', dend', M', live', s', mo', e, hsim'⟩ :=
        primSim_step L chk m hsym n data hnn j live st dend M s mo (by omega) hsim
      exact ⟨(st', dend', M'), e, live', s', mo', hsim'⟩)
    ⟨List.range n, init m n data, [], by simpa using hsim0⟩
  obtain ⟨⟨st1, dend1, M1⟩, e, live, s, mo, hsim⟩ := key
  simp only [Nat.zero_add] at hsim
  have hinv := hsim.inv
  have hmo : mo = mergeOrder m n dend1.steps.toList := by
    apply List.ext_getElem?
    intro i
    rw [mergeOrder_get]
    cases hi : dend1.steps.toList[i]? with
    | none =>
      simp only [Option.map_none]
      apply List.getElem?_eq_none_iff.mpr
      have := List.getElem?_eq_none_iff.mp hi
      rw [hsim.mo_len]
      simpa [hinv.steps_sz] using this
    | some stp =>
      simp only [Option.map_some]
      exact hsim.mo_get i stp hi
  refine ⟨st1, dend1, M1, e, ?_⟩
  exact
    { res :=
        { obs := hinv.obs
          steps_sz := hinv.steps_sz
          raw := ⟨by simp [rawOf, hinv.steps_sz], hinv.inRange, hinv.eff⟩
          mn := hinv.mn }
      trace := hsim.trace
      valid := by rw [← hmo]; exact ⟨hsim.mo_len, hsim.greedy⟩
      hts := by rw [← hmo]; exact hsim.hts }

/-- `primitiveWith` on a valid matrix: the (total) loop with its greedy-run certificate, followed by
`relabel` and `sqrt`. -/
theorem primitiveWith_sim (L : OrderLaws α) (chk : Bool) (m : Method) (hsym : LwSymm α m)
    (st : State α) (d : Dendrogram α) (data : Array α) (n : Nat) (h2 : 2 ≤ n)
    (hs : n < 2147483648) (hl : 2 * data.size = n * (n - 1)) (hnn : NoNaNRun m n data) :
    ∃ (st1 : State α) (dend1 : Dendrogram α) (M1 : Mat α),
      iterM (primitiveIter chk m) (n - 1)
        ((State.fresh n : State α), Dendrogram.new n,
          ({ data := squareData m data, n := n, acc := 0 } : Mat α))
        = .ok (st1, dend1, M1) ∧
      PrimGreedyResult m n data dend1 M1 ∧
      primitiveWith chk m st d data n =
        (relabel m st1.set dend1 >>= fun r =>
          pure ({ st1 with set := r.1 }, sqrtSteps m r.2, M1)) := by
  have hl' : 2 * (squareData m data).size = n * (n - 1) := by rw [squareData_size]; exact hl
  obtain ⟨st1, dend1, M1, hloop, hres⟩ := primSim_loop L chk m hsym data n h2 hs hl hnn
  refine ⟨st1, dend1, M1, hloop, hres, ?_⟩
  unfold primitiveWith
  simp only []
  rw [Mat.new_ok chk (squareData m data) n h2 hs hl']
  have hn0 : ¬ n = 0 := by omega
  simp only [bind, Except.bind, hn0, if_false, State.reset_eq_fresh, dendrogramReset_eq, hloop]

/-- The raw heights left by the loop are not NaN. -/
theorem PrimGreedyResult.noNaN {m : Method} {n : Nat} {data : Array α} {dend : Dendrogram α}
    {M : Mat α} (h : PrimGreedyResult m n data dend M) (hnn : NoNaNRun m n data) :
    ∀ s ∈ dend.steps.toList, Num.isNaN s.d = false := by
  intro s hs
  have : s.d ∈ dend.steps.toList.map (·.d) := List.mem_map.mpr ⟨s, hs, rfl⟩
  rw [h.hts] at this
  exact rawHeights_noNaN hnn _ h.valid.2 _ this

/-- **Stage 4.**  If `relabel` processes the raw steps left by the loop in the order given (no
sort, or a sort that changes nothing), it succeeds and the steps returned after `sqrtSteps` are the
merge-order relabelling, hence greedy-valid. -/
theorem relabel_greedy {m : Method} {n : Nat} {data : Array α} {dend : Dendrogram α} {M : Mat α}
    (h : PrimGreedyResult m n data dend M) (hnn : NoNaNRun m n data) (h2 : 2 ≤ n) (uf0 : UF)
    (hproc : processed m dend.steps = dend.steps) :
    ∃ uf d', relabel m uf0 dend = .ok (uf, d') ∧
      (sqrtSteps m d').steps.toList = mergeOrder m n dend.steps.toList ∧
      GreedyValid m n data (sqrtSteps m d').steps.toList := by
  have hraw : RawTree n (dend.steps.toList.map (fun s => (s.c1, s.c2))) := h.res.raw
  obtain ⟨⟨uf, d'⟩, hr⟩ := relabel_total m uf0 dend n h2 h.res.obs hraw
    (Or.inr (Or.inr (h.noNaN hnn)))
  have heq := relabel_eq_mergeOrder m uf0 uf dend d' n h2 h.res.obs hraw h.trace hproc
    (greedyValid_wellFormed h.valid) hr
  exact ⟨uf, d', hr, heq, by rw [heq]; exact h.valid⟩

/-- Non-decreasing raw heights make the stable sort of `relabel` the identity. -/
theorem processed_of_pairwise (m : Method) (steps : Array (Step α))
    (h : steps.toList.Pairwise (fun s t => Num.lt t.d s.d = false)) :
    processed m steps = steps := by
  unfold processed
  split
  · rw [List.mergeSort_of_pairwise]
    apply h.imp
    intro s t hst
    simp [stepLe, hst]
  · rfl

theorem processed_of_unsorted (m : Method) (steps : Array (Step α))
    (h : m.requiresSorting = false) : processed m steps = steps := by
  unfold processed; simp [h]

end Kodama
