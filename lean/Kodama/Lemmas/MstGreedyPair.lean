/-
The greedy property of a stably sorted Prim path, stated on component maps (no labels yet).

`rs` is a Prim path (`PrimRun`), `ps` the same steps stably sorted by weight (`StableSorted`),
`es = edgesOf ps`, `compAt es i` the components after the first `i` sorted edges.  For the `i`-th
sorted step `s0` of weight `h = s0.d`:

* `mst_pair_lb`   every entry between two DIFFERENT components of `compAt es i` is `≥ h`
                  (an entry `< h` would connect its endpoints at a level all of whose path edges are
                  strictly lighter than `h`, hence already processed: interval lemma + sortedness);
* `mst_pair_att`  some entry between the components of the two endpoints of `s0` is `≤ h`
                  (the tree vertex `u` at which the minimum crossing weight is reached is joined to
                  the previously added vertex by EARLIER path edges of weight `≤ h`, which a STABLE
                  sort has put before `s0`: interval lemma + stability).
-/
import Kodama.Lemmas.MstPrimExact
import Kodama.Lemmas.MstGreedySort
namespace Kodama
open Spec
variable {α : Type} [Num α]

/-- `ps` is `rs` stably sorted by weight. -/
structure StableSorted (rs ps : List (Step α)) : Prop where
  perm : ps.Perm rs
  sorted : ps.Pairwise (fun a b => Num.lt b.d a.d = false)
  stable : ∀ {t' t j i : Nat} {s s' : Step α}, t' < t → rs[t']? = some s → rs[t]? = some s' →
    Num.lt s'.d s.d = false → ps[j]? = some s → ps[i]? = some s' → j < i

/-- What `relabel .single` processes is the stable sort of the raw steps. -/
theorem processed_stableSorted (L : OrderLaws α) (steps : Array (Step α))
    (hnn : ∀ s ∈ steps.toList, Num.isNaN s.d = false) (hnd : steps.toList.Nodup) :
    StableSorted steps.toList (processed .single steps).toList where
  perm := processed_perm .single steps
  sorted := processed_sorted L steps hnn
  stable := by
    intro t' t j i s s' ht hs hs' hle hj hi
    rw [processed_single] at hj hi
    refine mergeSort_stable_index (stepLe (α := α)) steps.toList hnd ?_ ?_ ht hs hs' ?_ hj hi
    · intro a _ b hb c _ h1 h2
      simp only [stepLe, Bool.not_eq_true'] at h1 h2 ⊢
      exact L.le_trans a.d b.d c.d (hnn b hb) h1 h2
    · intro a _ b _
      simp only [stepLe, Bool.or_eq_true, Bool.not_eq_true']
      exact L.le_total a.d b.d
    · simp [stepLe, hle]

section
variable {n : Nat} {data : Array α} {ord : List Nat} {rs : List (Step α)}

/-- The raw steps of a Prim run are pairwise different (their edges are). -/
theorem PrimRun.steps_inj (run : PrimRun n data ord rs) {t t' : Nat} {s : Step α}
    (h : rs[t]? = some s) (h' : rs[t']? = some s) : t = t' := by
  obtain ⟨a, b, ha, hb, hor, -⟩ := run.steps t s h
  obtain ⟨a', b', ha', hb', hor', -⟩ := run.steps t' s h'
  have inj : ∀ {i j : Nat} {x : Nat}, ord[i]? = some x → ord[j]? = some x → i = j := by
    intro i j x hi hj
    have hlt : i < ord.length := (List.getElem?_eq_some_iff.mp hi).1
    exact (List.getElem?_inj hlt run.nodup).mp (by rw [hi, hj])
  rcases hor with ⟨e1, e2⟩ | ⟨e1, e2⟩ <;> rcases hor' with ⟨e1', e2'⟩ | ⟨e1', e2'⟩
  · exact inj ha (by rw [ha', ← e1', e1])
  · have h1 := inj ha (by rw [hb', ← e1', e1])
    have h2 := inj hb (by rw [ha', ← e2', e2])
    omega
  · have h1 := inj ha (by rw [hb', ← e2', e2])
    have h2 := inj hb (by rw [ha', ← e1', e1])
    omega
  · exact inj ha (by rw [ha', ← e2', e2])

theorem PrimRun.steps_nodup (run : PrimRun n data ord rs) : rs.Nodup := by
  unfold List.Nodup
  rw [List.pairwise_iff_getElem]
  intro i j hi hj hij e
  have := run.steps_inj (t := i) (t' := j) (s := rs[i]) (by simp [hi]) (by simp [hj, e])
  omega

theorem PrimRun.nn (run : PrimRun n data ord rs) {s : Step α} (hs : s ∈ rs) :
    Num.isNaN s.d = false := by
  obtain ⟨t, ht⟩ := List.mem_iff_getElem?.mp hs
  obtain ⟨_, _, _, _, _, mc⟩ := run.steps t s ht
  exact mc.nn

variable {ps : List (Step α)}

/-- Path edges that are all among the first `i` sorted steps: `LightConn` gives `EdgeConn`. -/
theorem lightConn_edgeConn {l : α} {i : Nat}
    (hall : ∀ s ∈ rs, Num.lt l s.d = false → ∃ j, j < i ∧ ps[j]? = some s) {u v : Nat}
    (h : LightConn rs l u v) : EdgeConn (edgesOf ps) i u v := by
  induction h with
  | refl => exact Relation.ReflTransGen.refl
  | tail _ h2 ih =>
    obtain ⟨s, hs, hl, hor⟩ := h2
    obtain ⟨j, hji, hj⟩ := hall s hs hl
    exact Relation.ReflTransGen.tail ih ⟨j, (s.c1, s.c2), hji, by simp [edgesOf, hj], hor⟩

/-- Consecutive path edges that are all among the first `i` sorted steps chain up. -/
theorem prim_chain (run : PrimRun n data ord rs) (i : Nat) :
    ∀ (m i0 u a : Nat), ord[i0]? = some u → ord[i0 + m]? = some a →
      (∀ t' s, i0 ≤ t' → t' < i0 + m → rs[t']? = some s → ∃ j, j < i ∧ ps[j]? = some s) →
      EdgeConn (edgesOf ps) i u a := by
  intro m
  induction m with
  | zero =>
    intro i0 u a hu ha _
    rw [Nat.add_zero, hu] at ha
    cases ha
    exact Relation.ReflTransGen.refl
  | succ m ih =>
    intro i0 u a hu ha hall
    have hlen : i0 + (m + 1) < ord.length := (List.getElem?_eq_some_iff.mp ha).1
    have hv' : ord[i0 + m]? = some ord[i0 + m] := List.getElem?_eq_getElem (by omega)
    have h1 := ih i0 u _ hu hv' (fun t s h1 h2 h3 => hall t s h1 (by omega) h3)
    have htrs : i0 + m < rs.length := by rw [run.rlen, ← run.len]; omega
    have hs : rs[i0 + m]? = some rs[i0 + m] := by simp [htrs]
    obtain ⟨a', b', ha', hb', hor, _⟩ := run.steps _ _ hs
    rw [hv'] at ha'
    have : i0 + m + 1 = i0 + (m + 1) := by omega
    rw [this, ha] at hb'
    cases ha'
    cases hb'
    obtain ⟨j, hji, hj⟩ := hall _ _ (by omega) (by omega) hs
    exact Relation.ReflTransGen.tail h1
      ⟨j, ((rs[i0 + m]).c1, (rs[i0 + m]).c2), hji, by simp [edgesOf, hj], hor⟩

variable (L : OrderLaws α) (hnan : NoNaN n data) (run : PrimRun n data ord rs)
  (S : StableSorted rs ps)
include L hnan run S

omit hnan run in
/-- Every path edge strictly lighter than the `i`-th sorted step is among the first `i`. -/
theorem sorted_before_of_lt {i : Nat} {s0 s : Step α} (hs0 : ps[i]? = some s0) (hs : s ∈ rs)
    (hlt : Num.lt s.d s0.d = true) : ∃ j, j < i ∧ ps[j]? = some s := by
  obtain ⟨j, hj⟩ := List.mem_iff_getElem?.mp (S.perm.symm.subset hs)
  refine ⟨j, ?_, hj⟩
  apply Classical.byContradiction
  intro hc
  by_cases hji : j = i
  · subst hji
    rw [hj] at hs0
    cases hs0
    rw [L.irrefl] at hlt
    cases hlt
  · have hil := List.getElem?_eq_some_iff.mp hs0
    have hjl := List.getElem?_eq_some_iff.mp hj
    have := List.pairwise_iff_getElem.mp S.sorted i j hil.1 hjl.1 (by omega)
    rw [hil.2, hjl.2, hlt] at this
    cases this

/-- **Lower bound.**  Before the `i`-th sorted step, no entry between two different components is
strictly below its weight. -/
theorem mst_pair_lb {i : Nat} {s0 : Step α} (hs0 : ps[i]? = some s0) {u v : Nat} (hu : u < n)
    (hv : v < n) (hne : compAt (edgesOf ps) i u ≠ compAt (edgesOf ps) i v) :
    Num.lt (entry n data Num.infinity u v) s0.d = false := by
  cases hlt : Num.lt (entry n data Num.infinity u v) s0.d with
  | false => rfl
  | true =>
    exfalso
    apply hne
    have huv : u ≠ v := fun e => hne (e ▸ rfl)
    have hthr : Thr n data (entry n data Num.infinity u v) u v := ⟨hu, hv, huv, L.irrefl _⟩
    have hconn := (prim_interval L hnan run _ u v hu hv).mp (Relation.ReflTransGen.single hthr)
    apply compAt_of_conn
    refine lightConn_edgeConn ?_ hconn
    intro s hs hl
    apply sorted_before_of_lt L S hs0 hs
    rcases L.cotrans _ s.d _ (run.nn hs) hlt with h | h
    · rw [hl] at h; cases h
    · exact h

/-- **Attainment.**  Some entry between the components of the two endpoints of the `i`-th sorted
step is not above its weight. -/
theorem mst_pair_att {i : Nat} {s0 : Step α} (hs0 : ps[i]? = some s0) :
    ∃ u v, u < n ∧ v < n ∧ compAt (edgesOf ps) i u = compAt (edgesOf ps) i s0.c1 ∧
      compAt (edgesOf ps) i v = compAt (edgesOf ps) i s0.c2 ∧
      Num.lt s0.d (entry n data Num.infinity u v) = false := by
  obtain ⟨t, ht⟩ := List.mem_iff_getElem?.mp (S.perm.subset (List.mem_of_getElem? hs0))
  obtain ⟨a, b, ha, hb, hor, mc, hbn, hbT, hTn⟩ := run.step_at ht
  obtain ⟨u, huT, hatt⟩ := mc.att
  obtain ⟨i0, hi0, hu⟩ := mem_take_iff_getElem?.mp huT
  have hun := hTn u huT
  have han : a < n := run.lt_n a (List.mem_of_getElem? ha)
  have hub : u ≠ b := fun e => hbT (e ▸ huT)
  have hr : Reach n data s0.d u b := Relation.ReflTransGen.single ⟨hun, hbn, hub, hatt⟩
  obtain ⟨m, rfl⟩ : ∃ m, t = i0 + m := ⟨t - i0, by omega⟩
  have hchain : EdgeConn (edgesOf ps) i u a := by
    refine prim_chain run i m i0 u a hu ha ?_
    intro t' s h1 h2 hs
    have hle := reach_light L hnan run s0.d hu hb hr h1 (by omega) hs
    obtain ⟨j, hj⟩ := List.mem_iff_getElem?.mp (S.perm.symm.subset (List.mem_of_getElem? hs))
    exact ⟨j, S.stable h2 hs ht hle hj hs0, hj⟩
  have hc := compAt_of_conn _ _ hchain
  rcases hor with ⟨e1, e2⟩ | ⟨e1, e2⟩
  · exact ⟨u, b, hun, hbn, by rw [e1]; exact hc, by rw [e2], hatt⟩
  · exact ⟨b, u, hbn, hun, by rw [e1], by rw [e2]; exact hc, by rw [entry_symm]; exact hatt⟩

end

end Kodama
