/-
GREEDINESS OF THE SORTED REPLAY of the nearest-neighbour chain, for an approximate dissimilarity
relation `R` (`Lemmas/RoundChain.lean`, `RoundSort.lean`).

The raw steps of `nnchain_with` are neither sorted nor global minima: each merges a pair of RECIPROCAL
NEAREST NEIGHBOURS of the computed matrix (`ChainStepFacts.nn`).  `relabel` sorts them stably by height.
That the sorted list is a legal replay is `Rnn.runFrom_isort` (`Lemmas/RoundSort.lean`).  This file proves
that it is moreover GREEDY up to `R` — every step of the sorted replay is a global minimum of `R`-values of
the pairs then live (`Rnn.GMinRun`, `Lemmas/RoundGreedy.lean`).  The `R`-values are EXISTENTIAL: a pair of
clusters that is live in the sorted replay need never have been a matrix entry of the actual (raw) run; the
witness is then the value the Lance–Williams formula WOULD compute (`LWCompat.step`), which is `R`-related
to the two trees and, by reducibility (`LwGeOn`), not below the step.

* `Rnn.NnAt R σ s`     in state `σ`, for every other live cluster `y` each of the two clusters merged by
                       `s` has an `R`-value against `y` that is not below `s.d`;
* `Rnn.NnRun`, `Rnn.NnFrom`   positional / recursive forms for a list of steps;
* `Rnn.nnFrom_swap`    two adjacent steps `x, y` of a run with `y.d < x.d` commute, keeping `NnAt`:
                       `y` before `x` — against the two parts of `x` use `x`'s own `NnAt` and `y.d < x.d`;
                       `x` after `y` — against the merged cluster of `y` use `lw (va, vb, y.d)` and `LwGeOn`;
* `Rnn.nnFrom_isort`   hence the insertion sort of a run with `NnFrom` has `NnFrom`;
* `Rnn.gmin_of_sorted` a SORTED run with `NnFrom` that merges everything (`|live| = |steps| + 1`) is
                       `GMin` at every step: a live pair `{x, y}` untouched by the current step is still
                       live, unchanged, at the next one, which is at least as high;
* `roundInv_step_nn`, `roundLoop_nn`   the loop of `nnchain_with` (as `roundLoop`) with `NnRun` for the
                       raw steps in addition;
* `relabel_greedy_chain_sw`   ASSEMBLY (as `relabel_greedy_sw`, via `greedy_sw_core`).
-/
import Kodama.Lemmas.RoundGreedy
namespace Kodama
open Spec
variable {α : Type} [Num α]

namespace Rnn
open Crit MTree Finset

/-- In state `σ`, each of the two clusters merged by `s` has, against every other live cluster, an
`R`-value that is not below `s.d` (reciprocal nearest neighbours up to `R`). -/
def NnAt (R : MTree Nat → MTree Nat → α → Prop) (σ : IState) (s : Step α) : Prop :=
  ∀ y ∈ σ.live, y ≠ s.c1 → y ≠ s.c2 →
    (∃ v, R (σ.tree s.c1) (σ.tree y) v ∧ Num.lt v s.d = false) ∧
    (∃ v, R (σ.tree s.c2) (σ.tree y) v ∧ Num.lt v s.d = false)

/-- Every step of `L`, replayed from `n` singletons, satisfies `NnAt`. -/
def NnRun (R : MTree Nat → MTree Nat → α → Prop) (n : Nat) (L : List (Step α)) : Prop :=
  ∀ (i : Nat) (s : Step α), L[i]? = some s →
    NnAt R (IState.replay (IState.init n) (L.take i)) s

theorem NnRun.nil (R : MTree Nat → MTree Nat → α → Prop) (n : Nat) : NnRun R n [] := by
  intro i s h; simp at h

theorem NnRun.snoc {R : MTree Nat → MTree Nat → α → Prop} {n : Nat} {L : List (Step α)}
    {s : Step α} (h : NnRun R n L) (hs : NnAt R (IState.replay (IState.init n) L) s) :
    NnRun R n (L ++ [s]) := by
  intro i t hi
  by_cases c : i < L.length
  · rw [List.getElem?_append_left c] at hi
    rw [List.take_append_of_le_length (Nat.le_of_lt c)]
    exact h i t hi
  · have hlen : i < (L ++ [s]).length := (List.getElem?_eq_some_iff.mp hi).1
    simp only [List.length_append, List.length_singleton] at hlen
    have e : i = L.length := by omega
    subst e
    have : (L ++ [s])[L.length]? = some s := by simp
    rw [this] at hi
    have est : s = t := Option.some.inj hi
    subst est
    have e2 : (L ++ [s]).take L.length = L := by simp
    rw [e2]
    exact hs

/-- Recursive form of `NnRun`. -/
def NnFrom (R : MTree Nat → MTree Nat → α → Prop) : IState → List (Step α) → Prop
  | _, [] => True
  | σ, s :: rest => NnAt R σ s ∧ NnFrom R (σ.merge s.c1 s.c2) rest

theorem nnFrom_of_positional {R : MTree Nat → MTree Nat → α → Prop} :
    ∀ (L : List (Step α)) (σ : IState),
      (∀ (i : Nat) (s : Step α), L[i]? = some s → NnAt R (IState.replay σ (L.take i)) s) →
      NnFrom R σ L := by
  intro L
  induction L with
  | nil => intro _ _; trivial
  | cons x r ih =>
    intro σ h
    refine ⟨by simpa [IState.replay] using h 0 x rfl, ih _ ?_⟩
    intro i s hi
    have := h (i + 1) s (by simpa using hi)
    simpa only [List.take_succ_cons, IState.replay] using this

theorem nnFrom_of_nnRun {R : MTree Nat → MTree Nat → α → Prop} {n : Nat} {L : List (Step α)}
    (h : NnRun R n L) : NnFrom R (IState.init n) L :=
  nnFrom_of_positional L _ h

/-- Recursive form of `GMinRun`. -/
def GMinFrom (R : MTree Nat → MTree Nat → α → Prop) : IState → List (Step α) → Prop
  | _, [] => True
  | σ, s :: rest => GMinAt R σ s ∧ GMinFrom R (σ.merge s.c1 s.c2) rest

theorem gminFrom_get {R : MTree Nat → MTree Nat → α → Prop} :
    ∀ (L : List (Step α)) (σ : IState) (i : Nat) (s : Step α),
      GMinFrom R σ L → L[i]? = some s → GMinAt R (IState.replay σ (L.take i)) s := by
  intro L
  induction L with
  | nil => intro σ i s _ h; simp at h
  | cons x r ih =>
    intro σ i s h hi
    cases i with
    | zero =>
      simp only [List.getElem?_cons_zero, Option.some.injEq] at hi
      subst hi
      simpa [IState.replay] using h.1
    | succ j =>
      simp only [List.getElem?_cons_succ] at hi
      have := ih _ j s h.2 hi
      simpa only [List.take_succ_cons, IState.replay] using this

/-! ### Adjacent exchange keeps `NnAt` -/

/-- **Adjacent exchange.**  In a run, two consecutive steps `x, y` with `y.d < x.d` that both satisfy
`NnAt` still do after being exchanged. -/
theorem nnFrom_swap (L : OrderLaws α) {m : Method} {ok : α → Prop} (hge : LwGeOn ok m)
    {R : MTree Nat → MTree Nat → α → Prop} (C : LWCompat m R)
    (hRnan : ∀ s t v, R s t v → Num.isNaN v = false) (hRok : ∀ s t v, R s t v → ok v)
    {σ : IState} (hc : Clu σ) {pre : List (Step α)} {x y : Step α} {rest : List (Step α)}
    (h : RunFrom R σ pre (x :: y :: rest)) (hn : NnFrom R σ (x :: y :: rest))
    (hlt : Num.lt y.d x.d = true) : NnFrom R σ (y :: x :: rest) := by
  obtain ⟨hx, hy, _⟩ := h
  obtain ⟨nx, ny, nrest⟩ := hn
  obtain ⟨y1l, y1a⟩ := (IState.mem_merge_live σ _ _ _).mp hy.m1
  obtain ⟨y2l, y2a⟩ := (IState.mem_merge_live σ _ _ _).mp hy.m2
  have hxself : x.c1 ∈ (node (σ.tree x.c1) (σ.tree x.c2)).leaves := by
    rw [MTree.leaves_node]; exact mem_union_left _ (hc.self _ hx.m1)
  have y1b : y.c1 ≠ x.c2 := by
    intro e
    have := hy.mono x List.mem_cons_self (Or.inl (by rw [e, IState.merge_tree_self]; exact hxself))
    rw [hlt] at this; cases this
  have y2b : y.c2 ≠ x.c2 := by
    intro e
    have := hy.mono x List.mem_cons_self (Or.inr (by rw [e, IState.merge_tree_self]; exact hxself))
    rw [hlt] at this; cases this
  have t1 : (σ.merge x.c1 x.c2).tree y.c1 = σ.tree y.c1 := IState.merge_tree_of_ne _ _ _ _ y1b
  have t2 : (σ.merge x.c1 x.c2).tree y.c2 = σ.tree y.c2 := IState.merge_tree_of_ne _ _ _ _ y2b
  have hyh : R (σ.tree y.c1) (σ.tree y.c2) y.d := by rw [← t1, ← t2]; exact hy.height
  have hxnan : Num.isNaN x.d = false := hRnan _ _ _ hx.height
  have hynan : Num.isNaN y.d = false := hRnan _ _ _ hyh
  have hyx : Num.lt x.d y.d = false := L.asymm _ _ hlt
  -- what `x`'s `NnAt` says about the two parts of `y`
  obtain ⟨⟨va1, ra1, la1⟩, ⟨va2, ra2, la2⟩⟩ := nx y.c1 y1l y1a y1b
  obtain ⟨⟨vb1, rb1, lb1⟩, ⟨vb2, rb2, lb2⟩⟩ := nx y.c2 y2l y2a y2b
  -- anything not below `x.d` is not below `y.d`
  have hdown : ∀ v, Num.lt v x.d = false → Num.lt v y.d = false := fun v hv =>
    L.le_trans y.d x.d v hxnan hyx hv
  refine ⟨?_, ?_, ?_⟩
  · -- `y` in the state before `x`
    intro z hz hz1 hz2
    by_cases c1 : z = x.c1
    · subst c1
      exact ⟨⟨va1, C.symm _ _ _ ra1, hdown _ la1⟩, ⟨vb1, C.symm _ _ _ rb1, hdown _ lb1⟩⟩
    · by_cases c2 : z = x.c2
      · subst c2
        exact ⟨⟨va2, C.symm _ _ _ ra2, hdown _ la2⟩, ⟨vb2, C.symm _ _ _ rb2, hdown _ lb2⟩⟩
      · have hz' : z ∈ (σ.merge x.c1 x.c2).live := (IState.mem_merge_live σ _ _ _).mpr ⟨hz, c1⟩
        have tz : (σ.merge x.c1 x.c2).tree z = σ.tree z := IState.merge_tree_of_ne _ _ _ _ c2
        have := ny z hz' hz1 hz2
        rw [t1, t2, tz] at this
        exact this
  · -- `x` in the state after `y`
    have u1 : (σ.merge y.c1 y.c2).tree x.c1 = σ.tree x.c1 :=
      IState.merge_tree_of_ne _ _ _ _ (Ne.symm y2a)
    have u2 : (σ.merge y.c1 y.c2).tree x.c2 = σ.tree x.c2 :=
      IState.merge_tree_of_ne _ _ _ _ (Ne.symm y2b)
    intro z hz hz1 hz2
    obtain ⟨hzl, hzy1⟩ := (IState.mem_merge_live σ _ _ _).mp hz
    rw [u1, u2]
    by_cases c : z = y.c2
    · rw [c, IState.merge_tree_self]
      have pa := (σ.tree y.c1).leaves_nonempty.card_pos
      have pb := (σ.tree y.c2).leaves_nonempty.card_pos
      have dab := hc.disj _ y1l _ y2l hy.ne
      have key : ∀ (w : Nat) (hw : w ∈ σ.live) (hw1 : w ≠ y.c1) (hwz : w ≠ y.c2) (va vb : α),
          R (σ.tree w) (σ.tree y.c1) va → Num.lt va x.d = false →
          R (σ.tree w) (σ.tree y.c2) vb → Num.lt vb x.d = false →
          ∃ v, R (σ.tree w) (node (σ.tree y.c1) (σ.tree y.c2)) v ∧ Num.lt v x.d = false := by
        intro w hw hw1 hwz va vb ra la rb lb
        refine ⟨_, C.symm _ _ _ (C.step _ _ _ _ _ _ dab (hc.disj _ y1l _ hw (Ne.symm hw1))
          (hc.disj _ y2l _ hw (Ne.symm hwz)) (C.symm _ _ _ ra) (C.symm _ _ _ rb) hyh), ?_⟩
        exact hge _ _ _ y.d va vb x.d pa pb (hRok _ _ _ hyh) (hRok _ _ _ ra) (hRok _ _ _ rb)
          (hRok _ _ _ hx.height) hynan (hRnan _ _ _ ra) (hRnan _ _ _ rb) hxnan hyx la lb
      exact ⟨key x.c1 hx.m1 (Ne.symm y1a) (Ne.symm y2a) va1 vb1 ra1 la1 rb1 lb1,
        key x.c2 hx.m2 (Ne.symm y1b) (Ne.symm y2b) va2 vb2 ra2 la2 rb2 lb2⟩
    · rw [IState.merge_tree_of_ne _ _ _ _ c]
      exact nx z hzl hz1 hz2
  · rw [← IState.merge_comm σ x.c1 x.c2 y.c1 y.c2 y1b y2b (Ne.symm y2a)]
    exact nrest

theorem nnFrom_ins (L : OrderLaws α) {m : Method} {ok : α → Prop} (hge : LwGeOn ok m)
    {R : MTree Nat → MTree Nat → α → Prop} (C : LWCompat m R)
    (hRnan : ∀ s t v, R s t v → Num.isNaN v = false) (hRok : ∀ s t v, R s t v → ok v)
    (x : Step α) :
    ∀ (l : List (Step α)) (σ : IState) (pre : List (Step α)), Clu σ →
      RunFrom R σ pre (x :: l) → NnFrom R σ (x :: l) → NnFrom R σ (insG stepLe x l) := by
  intro l
  induction l with
  | nil => intro σ pre _ _ hn; exact hn
  | cons y r ih =>
    intro σ pre hc h hn
    unfold insG
    by_cases c : stepLe x y = true
    · rw [if_pos c]; exact hn
    · rw [if_neg c]
      have hlt : Num.lt y.d x.d = true := by
        simp only [stepLe, Bool.not_eq_true', Bool.not_eq_false] at c
        simpa using c
      have hs := runFrom_swap hc h hlt
      have hs' := nnFrom_swap L hge C hRnan hRok hc h hn hlt
      exact ⟨hs'.1, ih _ _ (hc.merge hs.1.m1 hs.1.m2 hs.1.ne) hs.2 hs'.2⟩

/-- **Sorting preserves `NnFrom`** (for a run). -/
theorem nnFrom_isort (L : OrderLaws α) {m : Method} {ok : α → Prop} (hge : LwGeOn ok m)
    {R : MTree Nat → MTree Nat → α → Prop} (C : LWCompat m R)
    (hRnan : ∀ s t v, R s t v → Num.isNaN v = false) (hRok : ∀ s t v, R s t v → ok v) :
    ∀ (l : List (Step α)) (σ : IState) (pre : List (Step α)), Clu σ →
      RunFrom R σ pre l → NnFrom R σ l → NnFrom R σ (isortG stepLe l) := by
  intro l
  induction l with
  | nil => intro σ pre _ _ hn; exact hn
  | cons x r ih =>
    intro σ pre hc h hn
    have hc' := hc.merge h.1.m1 h.1.m2 h.1.ne
    have h' : RunFrom R σ pre (x :: isortG stepLe r) := ⟨h.1, runFrom_isort _ _ _ hc' h.2⟩
    have hn' : NnFrom R σ (x :: isortG stepLe r) := ⟨hn.1, ih _ _ hc' h.2 hn.2⟩
    exact nnFrom_ins L hge C hRnan hRok x _ σ pre hc h' hn'

/-! ### A sorted complete run of reciprocal nearest neighbours is greedy -/

theorem length_merge_live {σ : IState} (hc : Clu σ) {a b : Nat} (ha : a ∈ σ.live) :
    (σ.merge a b).live.length + 1 = σ.live.length := by
  have e : (σ.merge a b).live = σ.live.erase a := by
    show σ.live.filter (fun x => decide (x ≠ a)) = _
    rw [hc.nodup.erase_eq_filter]
    apply List.filter_congr
    intro x _
    by_cases hxa : x = a <;> simp [hxa]
  rw [e, List.length_erase_of_mem ha]
  have : 0 < σ.live.length := List.length_pos_of_mem ha
  omega

/-- **The head of a sorted complete run with `NnFrom` is a global minimum.** -/
theorem gmin_head (L : OrderLaws α) {R : MTree Nat → MTree Nat → α → Prop}
    (hsym : ∀ s t v, R s t v → R t s v) (hRnan : ∀ s t v, R s t v → Num.isNaN v = false) :
    ∀ (l : List (Step α)) (σ : IState) (pre : List (Step α)) (s : Step α), Clu σ →
      RunFrom R σ pre (s :: l) → NnFrom R σ (s :: l) →
      (s :: l).Pairwise (fun a b => Num.lt b.d a.d = false) →
      σ.live.length = l.length + 2 → GMinAt R σ s := by
  intro l
  induction l with
  | nil =>
    intro σ pre s hc h hn _ hlen x hx y hy hxy
    -- two live clusters: they are the merged pair
    have hl := length_merge_live hc (b := s.c2) h.1.m1
    simp only [List.length_nil] at hlen
    have hone : (σ.merge s.c1 s.c2).live.length = 1 := by omega
    have hmem : ∀ z ∈ σ.live, z = s.c1 ∨ z = s.c2 := by
      intro z hz
      by_cases c : z = s.c1
      · exact Or.inl c
      · right
        have hz' : z ∈ (σ.merge s.c1 s.c2).live := (IState.mem_merge_live σ _ _ _).mpr ⟨hz, c⟩
        have h2' : s.c2 ∈ (σ.merge s.c1 s.c2).live :=
          (IState.mem_merge_live σ _ _ _).mpr ⟨h.1.m2, Ne.symm h.1.ne⟩
        obtain ⟨w, hw⟩ := List.length_eq_one_iff.mp hone
        rw [hw, List.mem_singleton] at hz' h2'
        rw [hz', h2']
    rcases hmem x hx with ex | ex <;> rcases hmem y hy with ey | ey
    · exact absurd (ex.trans ey.symm) hxy
    · rw [ex, ey]; exact ⟨s.d, h.1.height, L.irrefl _⟩
    · rw [ex, ey]; exact ⟨s.d, hsym _ _ _ h.1.height, L.irrefl _⟩
    · exact absurd (ex.trans ey.symm) hxy
  | cons s' l' ih =>
    intro σ pre s hc h hn hsort hlen x hx y hy hxy
    by_cases x1 : x = s.c1
    · by_cases y2 : y = s.c2
      · rw [x1, y2]; exact ⟨s.d, h.1.height, L.irrefl _⟩
      · rw [x1]; exact (hn.1 y hy (by rw [← x1]; exact Ne.symm hxy) y2).1
    · by_cases x2 : x = s.c2
      · by_cases y1 : y = s.c1
        · rw [x2, y1]; exact ⟨s.d, hsym _ _ _ h.1.height, L.irrefl _⟩
        · rw [x2]; exact (hn.1 y hy y1 (by rw [← x2]; exact Ne.symm hxy)).2
      · by_cases y1 : y = s.c1
        · obtain ⟨v, hv, hl⟩ := (hn.1 x hx x1 x2).1
          rw [y1]; exact ⟨v, hsym _ _ _ hv, hl⟩
        · by_cases y2 : y = s.c2
          · obtain ⟨v, hv, hl⟩ := (hn.1 x hx x1 x2).2
            rw [y2]; exact ⟨v, hsym _ _ _ hv, hl⟩
          · -- untouched by `s`: still live, unchanged, at the next step
            have hc' := hc.merge h.1.m1 h.1.m2 h.1.ne
            have hl := length_merge_live hc (b := s.c2) h.1.m1
            have hx' : x ∈ (σ.merge s.c1 s.c2).live := (IState.mem_merge_live σ _ _ _).mpr ⟨hx, x1⟩
            have hy' : y ∈ (σ.merge s.c1 s.c2).live := (IState.mem_merge_live σ _ _ _).mpr ⟨hy, y1⟩
            have hsort' := (List.pairwise_cons.mp hsort).2
            have hss' : Num.lt s'.d s.d = false :=
              (List.pairwise_cons.mp hsort).1 s' List.mem_cons_self
            simp only [List.length_cons] at hlen
            obtain ⟨v, hv, hlv⟩ := ih (σ.merge s.c1 s.c2) (s :: pre) s' hc' h.2 hn.2 hsort'
              (by omega) x hx' y hy' hxy
            rw [IState.merge_tree_of_ne _ _ _ _ x2, IState.merge_tree_of_ne _ _ _ _ y2] at hv
            have hs'nan : Num.isNaN s'.d = false := hRnan _ _ _ h.2.1.height
            exact ⟨v, hv, L.le_trans s.d s'.d v hs'nan hss' hlv⟩

/-- **A sorted complete run of reciprocal nearest neighbours is greedy.** -/
theorem gmin_of_sorted (L : OrderLaws α) {R : MTree Nat → MTree Nat → α → Prop}
    (hsym : ∀ s t v, R s t v → R t s v) (hRnan : ∀ s t v, R s t v → Num.isNaN v = false) :
    ∀ (l : List (Step α)) (σ : IState) (pre : List (Step α)), Clu σ →
      RunFrom R σ pre l → NnFrom R σ l →
      l.Pairwise (fun a b => Num.lt b.d a.d = false) →
      σ.live.length = l.length + 1 → GMinFrom R σ l := by
  intro l
  induction l with
  | nil => intro _ _ _ _ _ _ _; trivial
  | cons s r ih =>
    intro σ pre hc h hn hsort hlen
    simp only [List.length_cons] at hlen
    refine ⟨gmin_head L hsym hRnan r σ pre s hc h hn hsort (by omega), ?_⟩
    have hl := length_merge_live hc (b := s.c2) h.1.m1
    exact ih _ (s :: pre) (hc.merge h.1.m1 h.1.m2 h.1.ne) h.2 hn.2 (List.pairwise_cons.mp hsort).2
      (by omega)

end Rnn

/-! ### The loop of `nnchain_with` -/

open Crit MTree Rnn Finset in
/-- One outer iteration of `nnchain_with` preserves `RoundInv` (`roundInv_step`) and `NnRun` of the raw
steps: the merged pair is a pair of reciprocal nearest neighbours of the computed matrix
(`ChainStepFacts.nn`), whose entries are `R`-values of the cluster trees (`RoundInv.table`). -/
theorem roundInv_step_nn (L : OrderLaws α) (chk : Bool) (mc : MethodChain) {ok : α → Prop}
    (hge : ChainGeOn ok mc)
    {R : MTree Nat → MTree Nat → α → Prop} (C : LWCompat mc.intoMethod R)
    (hRnan : ∀ s t v, R s t v → Num.isNaN v = false) (hRok : ∀ s t v, R s t v → ok v)
    (n k : Nat) (live : List Nat) (st : State α) (dend : Dendrogram α) (M : Mat α) (σ : IState)
    (hk : k + 1 < n) (inv : RoundInv R n k live st dend M σ)
    (hnn : NnRun R n dend.steps.toList) :
    ∃ st' dend' M' a b, chainIter chk mc ⟨st, dend, M⟩ = .ok ⟨st', dend', M'⟩ ∧
      RoundInv R n (k + 1) (live.filter (· ≠ a)) st' dend' M' (σ.merge a b) ∧
      NnRun R n dend'.steps.toList := by
  obtain ⟨st', dend', M', a', b', e, inv'⟩ :=
    roundInv_step L chk mc hge C hRnan hRok n k live st dend M σ hk inv
  refine ⟨st', dend', M', a', b', e, inv', ?_⟩
  -- the facts of the iteration, by determinism
  have hlt := inv.chain.prim.rep.lt_n
  have hszn := inv.chain.prim.sizes_sz
  have hrowR : ∀ a ∈ live, ∀ b ∈ live, a ≠ b → ∀ x ∈ live, x ≠ a → x ≠ b → ∀ v,
      chainUpdFn mc st.sizes (st.sizes.getD a 0) (st.sizes.getD b 0) (M.dval a b) x
        (M.dval x a) (M.dval x b) = .ok v →
      R (node (σ.tree a) (σ.tree b)) (σ.tree x) v := by
    intro a ha b hb hab x hx hxa hxb v hv
    have hsa : a ∈ σ.live := by rw [inv.live_eq]; exact ha
    have hsb : b ∈ σ.live := by rw [inv.live_eq]; exact hb
    have hsx : x ∈ σ.live := by rw [inv.live_eq]; exact hx
    rw [chainUpdFn_eq mc _ _ _ _ x _ _ (by rw [hszn]; exact hlt x hx)] at hv
    injection hv with hv
    rw [← hv, inv.sizes a ha, inv.sizes b hb, inv.sizes x hx, M.dval_comm x a, M.dval_comm x b]
    exact C.step _ _ _ _ _ _ (inv.tab.disj a hsa b hsb hab)
      (inv.tab.disj a hsa x hsx (Ne.symm hxa)) (inv.tab.disj b hsb x hsx (Ne.symm hxb))
      (inv.table a ha x hx (Ne.symm hxa)) (inv.table b hb x hx (Ne.symm hxb))
      (inv.table a ha b hb hab)
  have hnanupd : UpdNoNaN mc live st M := fun a ha b hb hab x hx hxa hxb v hv =>
    hRnan _ _ _ (hrowR a ha b hb hab x hx hxa hxb v hv)
  have hokM : ∀ x ∈ live, ∀ y ∈ live, x ≠ y → ok (M.dval x y) := fun x hx y hy hxy =>
    hRok _ _ _ (inv.table x hx y hy hxy)
  obtain ⟨st'', dend'', M'', a, b, e', _, F⟩ :=
    chainIter_ok_local L chk mc hge n k live st dend M hk inv.chain hnanupd hokM
  rw [e] at e'
  have hdd : dend' = dend'' := by
    injection e' with e'
    injection e' with _ e2 _
  subst hdd
  have hab : a ≠ b := Nat.ne_of_lt F.lt
  generalize hs : Step.new a b (M.dval a b) (st.sizes.getD a 0 + st.sizes.getD b 0) = s
  have hc1 : s.c1 = a := by rw [← hs, Step.new_c1]; have := F.lt; omega
  have hc2 : s.c2 = b := by rw [← hs, Step.new_c2]; have := F.lt; omega
  have hd : s.d = M.dval a b := by rw [← hs, Step.new_d]
  have hsteps : dend'.steps.toList = dend.steps.toList ++ [s] := by
    rw [F.steps, hs]; simp
  rw [hsteps]
  refine hnn.snoc ?_
  rw [← inv.state]
  intro y hy hy1 hy2
  rw [inv.live_eq] at hy
  rw [hc1] at hy1
  rw [hc2] at hy2
  rw [hc1, hc2, hd]
  exact ⟨⟨M.dval a y, inv.table a F.ma y hy (Ne.symm hy1), F.nn a (Or.inl rfl) y hy hy1⟩,
    ⟨M.dval b y, inv.table b F.mb y hy (Ne.symm hy2), F.nn b (Or.inr rfl) y hy hy2⟩⟩

open Crit MTree Rnn in
/-- `roundLoop` with `NnRun` for the raw steps in addition. -/
theorem roundLoop_nn (L : OrderLaws α) (chk : Bool) (mc : MethodChain) {ok : α → Prop}
    (hge : ChainGeOn ok mc)
    {R : MTree Nat → MTree Nat → α → Prop} (C : LWCompat mc.intoMethod R)
    (hRnan : ∀ s t v, R s t v → Num.isNaN v = false) (hRok : ∀ s t v, R s t v → ok v)
    (data : Array α) (n : Nat) (h2 : 2 ≤ n) (hs : n < 2147483648)
    (hl : 2 * data.size = n * (n - 1)) (hnan : NoNaNData (squareData mc.intoMethod data))
    (hR : ∀ i j, i < n → j < n → i ≠ j →
      R (leaf i) (leaf j) ((init mc.intoMethod n data).D i j)) :
    ∃ s1 : ChainSt α,
      iterM (chainIter chk mc) (n - 1)
        ⟨{ (State.fresh n : State α) with chain := #[] }, Dendrogram.new n,
          { data := squareData mc.intoMethod data, n := n, acc := 0 }⟩ = .ok s1 ∧
      RoundLoopResult R n s1.dend s1.M ∧ NnRun R n s1.dend.steps.toList := by
  have hinv0 := roundInv_init mc data n h2 hs hl hnan hR
  have key := iterM_ok
    (fun j (s : ChainSt α) => ∃ live σ, RoundInv R n j live s.st s.dend s.M σ ∧
      NnRun R n s.dend.steps.toList)
    (chainIter chk mc) (n - 1) 0
    ⟨{ (State.fresh n : State α) with chain := #[] }, Dendrogram.new n,
      { data := squareData mc.intoMethod data, n := n, acc := 0 }⟩
    (by
      intro j s hj ⟨live, σ, hinv, hnn⟩
      obtain ⟨st, dend, M⟩ := s
      simp only [Nat.zero_add] at hinv hnn ⊢
      obtain ⟨st', dend', M', a, b, e, hinv', hnn'⟩ :=
        roundInv_step_nn L chk mc hge C hRnan hRok n j live st dend M σ (by omega) hinv hnn
      exact ⟨⟨st', dend', M'⟩, e, _, _, hinv', hnn'⟩)
    ⟨List.range n, IState.init n, by simpa using hinv0, by
      simpa [Dendrogram.new] using NnRun.nil R n⟩
  obtain ⟨s1, e, live, σ, hinv, hnn⟩ := key
  simp only [Nat.zero_add] at hinv
  refine ⟨s1, e, ⟨?_, hinv.run⟩, hnn⟩
  have hc := hinv.chain
  have hll := hc.prim.llen
  have hlen1 : live.length = 1 := by omega
  have hw := hc.work
  have hcs := hc.chain_sz
  rw [hlen1] at hw hcs
  exact
    { obs := hc.prim.obs
      steps_sz := hc.prim.steps_sz
      raw := ⟨by simp [rawOf, hc.prim.steps_sz], hc.prim.inRange, hc.prim.eff⟩
      heights := hc.heights
      mn := hc.prim.mn
      acc := by omega }

/-! ### Assembly -/

open Crit MTree Rnn Finset in
/-- **The returned steps of the nearest-neighbour chain are greedy up to `R`.**  Let `d` hold the raw steps
of a run (`RunH R n`) that form a spanning tree, heights not NaN, each merging reciprocal nearest
neighbours up to `R` (`NnRun`), and let `relabel` (for a method that sorts) return `d'`.  Then the
conclusion of `relabel_greedy_sw` holds. -/
theorem relabel_greedy_chain_sw (L : OrderLaws α) (m : Method) (hms : m.requiresSorting = true)
    {ok : α → Prop} (hge : LwGeOn ok m)
    {R : MTree Nat → MTree Nat → α → Prop} (C : LWCompat m R)
    (hRnan : ∀ s t v, R s t v → Num.isNaN v = false) (hRok : ∀ s t v, R s t v → ok v)
    (uf0 uf : UF) (d d' : Dendrogram α) (n : Nat)
    (h2 : 2 ≤ n) (hobs : d.obs = n) (hraw : RawTree n (rawOf d))
    (hnan : ∀ s ∈ d.steps.toList, Num.isNaN s.d = false)
    (hrun : RunH R n d.steps.toList) (hnn : NnRun R n d.steps.toList)
    (h : relabel m uf0 d = .ok (uf, d')) :
    WellFormed n d'.steps.toList ∧
    ∀ (i : Nat) (s' : Step α), d'.steps.toList[i]? = some s' →
      (∃ T₁ T₂ : MTree Nat, R T₁ T₂ s'.d ∧ Disjoint T₁.leaves T₂.leaves ∧
        ((Sw (clusterTree n d'.steps.toList s'.c1) T₁ ∧ Sw (clusterTree n d'.steps.toList s'.c2) T₂) ∨
         (Sw (clusterTree n d'.steps.toList s'.c1) T₂ ∧ Sw (clusterTree n d'.steps.toList s'.c2) T₁)) ∧
        s'.size = T₁.leaves.card + T₂.leaves.card) ∧
      ∀ p q : Nat, p < n + i → q < n + i → p ≠ q →
        ¬ UsedBefore d'.steps.toList i p → ¬ UsedBefore d'.steps.toList i q →
        ∃ (U V : MTree Nat) (v : α), R U V v ∧ Disjoint U.leaves V.leaves ∧
          Sw (clusterTree n d'.steps.toList p) U ∧ Sw (clusterTree n d'.steps.toList q) V ∧
          Num.lt v s'.d = false := by
  have hraw0 : RawTree n (edgesOf d.steps.toList) := hraw
  have hwf : WellFormed n d'.steps.toList := (relabel_wellFormed m uf0 uf d d' n h2 hobs hraw h).2
  refine ⟨hwf, ?_⟩
  -- the processed order is the insertion sort of the raw steps: a run, `NnFrom`, sorted
  have hproc : (processed m d.steps).toList = isortG stepLe d.steps.toList := by
    unfold processed; rw [if_pos hms]
    exact mergeSort_stepLe_eq_isortG L _ hnan
  have hsortedS : (isortG stepLe d.steps.toList).Pairwise (fun s t => Num.lt t.d s.d = false) := by
    rw [← mergeSort_stepLe_eq_isortG L _ hnan]
    have hsorted := pairwise_mergeSort_of_mem (stepLe (α := α)) d.steps.toList
      (stepLe_trans_of_mem L _ hnan) (fun a _ b _ => stepLe_total' L a b)
    refine hsorted.imp ?_
    intro s t hst
    simpa [stepLe] using hst
  have hrun0 := runFrom_of_runH hrun
  have hSrun : RunFrom R (IState.init n) [] (isortG stepLe d.steps.toList) :=
    runFrom_isort _ _ [] (Clu.init n) hrun0
  have hSnn : NnFrom R (IState.init n) (isortG stepLe d.steps.toList) :=
    nnFrom_isort L hge C hRnan hRok _ _ [] (Clu.init n) hrun0 (nnFrom_of_nnRun hnn)
  generalize hS : isortG stepLe d.steps.toList = S at hproc hsortedS hSrun hSnn
  have h' := relabel_presorted_of_mem L m uf0 d hnan _ h
  have hraw' : RawTree n (edgesOf (processed m d.steps).toList) := rawTree_processed m hraw0
  have hlen : S.length = n - 1 := by
    have := hraw'.len
    rw [hproc] at this
    simpa [edgesOf] using this
  have hlab := relabel_mergeorder m uf0 uf { d with steps := processed m d.steps } d' n (by omega)
    hobs hraw' (by show MergeTrace n (edgesOf (processed m d.steps).toList)
                   rw [hproc]; exact mergeTrace_of_runFrom n S hSrun)
    (processed_idem_of_mem L m d.steps hnan) h'
  simp only [hproc] at hlab
  have hgm : GMinRun R n S := by
    have hfrom := gmin_of_sorted L C.symm hRnan S (IState.init n) [] (Clu.init n) hSrun hSnn hsortedS
      (by simp [IState.init, hlen]; omega)
    intro i s hi
    exact gminFrom_get S _ i s hfrom hi
  exact greedy_sw_core n S d'.steps.toList hwf hSrun hgm hlen hlab

end Kodama
