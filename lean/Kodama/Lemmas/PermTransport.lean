/-
Renumbering the observations, at the level of step lists (no numbers involved except where stated):
`steps.map (mapStep f)` for a label map `f` (`Lemmas/SpecPerm.lean`: observations renumbered by a
permutation, internal labels fixed, the two children of a step re-sorted) is again well formed, has the
corresponding consumed / present labels, sizes, and — as finite sets — the images of the observation
sets.  Used by `Props/C11Rounding.lean`.
-/
import Kodama.Lemmas.SpecPerm
import Kodama.Lemmas.LabelAgree
import Mathlib.Data.Finset.Image
import Mathlib.Data.List.Perm.Basic
namespace Kodama.Spec
variable {α : Type}

theorem LabelMap.lt_add_iff {n : Nat} {f : Nat → Nat} (hf : LabelMap n f) (l i : Nat) :
    f l < n + i ↔ l < n + i := by
  by_cases hl : l < n
  · have := hf.lt l hl
    constructor <;> intro _ <;> omega
  · rw [hf.fix l (by omega)]

theorem LabelMap.surj' {n : Nat} {f : Nat → Nat} (hf : LabelMap n f) (l : Nat) : ∃ l', f l' = l := by
  by_cases hl : l < n
  · obtain ⟨l', _, h⟩ := hf.surj l hl; exact ⟨l', h⟩
  · exact ⟨l, hf.fix l (by omega)⟩

theorem LabelMap.injective {n : Nat} {f : Nat → Nat} (hf : LabelMap n f) : Function.Injective f :=
  fun a b h => hf.inj a b h

/-- The two labels of a mapped step are the images of the two labels of the step. -/
theorem mapStep_labels (f : Nat → Nat) (st : Step α) (l : Nat) :
    ((mapStep f st).c1 = l ∨ (mapStep f st).c2 = l) ↔ (f st.c1 = l ∨ f st.c2 = l) := by
  rcases mapStep_cases f st with ⟨e1, e2, _⟩ | ⟨e1, e2, _⟩ <;> rw [e1, e2]
  exact Or.comm

theorem usedBefore_mapStep {n : Nat} {f : Nat → Nat} (hf : LabelMap n f) (steps : List (Step α))
    (i l : Nat) : UsedBefore (steps.map (mapStep f)) i (f l) ↔ UsedBefore steps i l := by
  unfold UsedBefore
  constructor
  · rintro ⟨j, s', hj, hs', hl⟩
    rw [List.getElem?_map] at hs'
    cases hs : steps[j]? with
    | none => rw [hs] at hs'; cases hs'
    | some s =>
      rw [hs] at hs'
      simp only [Option.map_some, Option.some.injEq] at hs'
      subst hs'
      have := (mapStep_labels f s (f l)).mp hl
      exact ⟨j, s, hj, hs, this.imp (fun h => hf.inj _ _ h) (fun h => hf.inj _ _ h)⟩
  · rintro ⟨j, s, hj, hs, hl⟩
    refine ⟨j, mapStep f s, hj, by rw [List.getElem?_map, hs]; rfl, ?_⟩
    exact (mapStep_labels f s (f l)).mpr (hl.imp (fun h => by rw [h]) (fun h => by rw [h]))

theorem sz_mapStep {n : Nat} {f : Nat → Nat} (hf : LabelMap n f) (steps : List (Step α)) (l : Nat) :
    sz n (steps.map (mapStep f)) (f l) = sz n steps l := by
  unfold sz
  by_cases hl : l < n
  · rw [if_pos hl, if_pos (hf.lt l hl)]
  · rw [if_neg hl, if_neg (fun h => hl ((hf.lt_iff l).1 h)), hf.fix l (by omega), List.getElem?_map]
    cases steps[l - n]? with
    | none => rfl
    | some s => simp

/-- Renumbering keeps well-formedness. -/
theorem wellFormed_mapStep {n : Nat} {f : Nat → Nat} (hf : LabelMap n f) {steps : List (Step α)}
    (wf : WellFormed n steps) : WellFormed n (steps.map (mapStep f)) := by
  have get : ∀ (i : Nat) (s' : Step α), (steps.map (mapStep f))[i]? = some s' →
      ∃ s, steps[i]? = some s ∧ s' = mapStep f s := by
    intro i s' h
    rw [List.getElem?_map] at h
    cases hs : steps[i]? with
    | none => rw [hs] at h; cases h
    | some s =>
      rw [hs] at h
      simp only [Option.map_some, Option.some.injEq] at h
      exact ⟨s, rfl, h.symm⟩
  refine ⟨by rw [List.length_map]; exact wf.len, ?_, ?_, ?_⟩
  · intro i s' hi
    obtain ⟨s, hs, rfl⟩ := get i s' hi
    have o := wf.ordered i s hs
    have hne : f s.c1 ≠ f s.c2 := fun h => by have := hf.inj _ _ h; omega
    have b1 : f s.c1 < n + i := (hf.lt_add_iff _ _).mpr (by omega)
    have b2 : f s.c2 < n + i := (hf.lt_add_iff _ _).mpr o.2
    rcases mapStep_cases f s with ⟨e1, e2, h⟩ | ⟨e1, e2, h⟩ <;> rw [e1, e2] <;> constructor <;> omega
  · intro i s' hi
    obtain ⟨s, hs, rfl⟩ := get i s' hi
    have fr := wf.fresh i s hs
    have u1 : ¬ UsedBefore (steps.map (mapStep f)) i (f s.c1) :=
      fun h => fr.1 ((usedBefore_mapStep hf steps i s.c1).mp h)
    have u2 : ¬ UsedBefore (steps.map (mapStep f)) i (f s.c2) :=
      fun h => fr.2 ((usedBefore_mapStep hf steps i s.c2).mp h)
    rcases mapStep_cases f s with ⟨e1, e2, _⟩ | ⟨e1, e2, _⟩ <;> rw [e1, e2]
    · exact ⟨u1, u2⟩
    · exact ⟨u2, u1⟩
  · intro i s' hi
    obtain ⟨s, hs, rfl⟩ := get i s' hi
    have hsz := wf.size i s hs
    rw [mapStep_size, hsz]
    rcases mapStep_cases f s with ⟨e1, e2, _⟩ | ⟨e1, e2, _⟩ <;>
      rw [e1, e2, sz_mapStep hf, sz_mapStep hf]
    exact Nat.add_comm _ _

/-- As finite sets: the observations beneath the image of a label are the images of the observations
beneath the label. -/
theorem leaves_toFinset_mapStep {n : Nat} {f : Nat → Nat} (hf : LabelMap n f) (steps : List (Step α))
    (fuel l : Nat) :
    (leaves n (steps.map (mapStep f)) fuel (f l)).toFinset = (leaves n steps fuel l).toFinset.image f := by
  rw [List.toFinset_eq_of_perm _ _ (leaves_mapStep_gen hf steps fuel l)]
  ext x
  simp only [List.mem_toFinset, List.mem_map, Finset.mem_image]

end Kodama.Spec
