/-
Stage 1 of C03 (primitive): `argmin` returns a GLOBAL minimum over the live pairs.

`argmin_min`: under `OrderLaws α`, for an active list representing `live` (at least two live
indices), a valid matrix whose entries at live pairs are not NaN, the triple `(a, b, v)` returned by
`argmin` is a live pair `a < b`, `v` is its entry, and no live pair has a strictly smaller entry.
(First-wins on ties is not needed and not stated.)
-/
import Kodama.Lemmas.PrimInv
import Kodama.Laws
namespace Kodama
open Spec
variable {α : Type} [Num α]

/-- Inner loop of `argmin`: the result is an entry, it is `≤` the incoming minimum and `≤` every
entry of the row visited. -/
theorem argminRow_min (L : OrderLaws α) (chk : Bool) (M : Mat α) (hv : M.Valid) (row : Nat)
    (G : Nat → Nat → Prop)
    (hG : ∀ x y w, G x y → M.get chk x y = .ok w → Num.isNaN w = false) :
    ∀ (cols : List Nat) (min : Nat × Nat × α),
      (∀ c ∈ cols, row < c ∧ c < M.n ∧ G row c) →
      G min.1 min.2.1 → M.get chk min.1 min.2.1 = .ok min.2.2 →
      ∃ r, argminRow chk M row cols min = .ok r ∧ G r.1 r.2.1 ∧
        M.get chk r.1 r.2.1 = .ok r.2.2 ∧ Num.lt min.2.2 r.2.2 = false ∧
        ∀ c ∈ cols, ∀ w, M.get chk row c = .ok w → Num.lt w r.2.2 = false := by
  intro cols
  induction cols with
  | nil =>
    intro min _ hg hget
    exact ⟨min, rfl, hg, hget, L.irrefl _, by intro c hc; cases hc⟩
  | cons x xs ih =>
    intro min hc hg hget
    obtain ⟨hx1, hx2, hx3⟩ := hc x List.mem_cons_self
    obtain ⟨vx, hvx⟩ := Mat.get_ok chk M hv row x hx1 hx2
    have hnx : Num.isNaN vx = false := hG row x vx hx3 hvx
    have hnm : Num.isNaN min.2.2 = false := hG _ _ _ hg hget
    -- the minimum after visiting `x`
    let min1 : Nat × Nat × α := if Num.lt vx min.2.2 then (row, x, vx) else min
    have hmin1 : G min1.1 min1.2.1 ∧ M.get chk min1.1 min1.2.1 = .ok min1.2.2 ∧
        Num.lt min.2.2 min1.2.2 = false ∧ Num.lt vx min1.2.2 = false := by
      by_cases hlt : Num.lt vx min.2.2 = true
      · have e : min1 = (row, x, vx) := by simp only [min1, hlt, if_true]
        rw [e]
        exact ⟨hx3, hvx, L.asymm _ _ hlt, L.irrefl _⟩
      · have e : min1 = min := by simp only [min1, hlt]; rfl
        rw [e]
        exact ⟨hg, hget, L.irrefl _, by simpa using hlt⟩
    obtain ⟨g1, get1, le1, lex⟩ := hmin1
    have hn1 : Num.isNaN min1.2.2 = false := hG _ _ _ g1 get1
    obtain ⟨r, hr, gr, getr, ler, hall⟩ :=
      ih min1 (fun c hc' => hc c (List.mem_cons_of_mem _ hc')) g1 get1
    refine ⟨r, ?_, gr, getr, ?_, ?_⟩
    · unfold argminRow at hr ⊢
      simp only [List.foldlM, bind, Except.bind, hvx, pure, Except.pure]
      exact hr
    · -- r ≤ min1 ≤ min
      exact L.le_trans r.2.2 min1.2.2 min.2.2 hn1 ler le1
    · intro c hc' w hw
      rcases List.mem_cons.mp hc' with h | h
      · subst h
        rw [hvx] at hw
        have e : vx = w := by injection hw
        rw [← e]
        exact L.le_trans r.2.2 min1.2.2 vx hn1 ler lex
      · exact hall c h w hw

/-- The outer loop of `argmin` over a list of rows. -/
theorem argminRows_min (L : OrderLaws α) (chk : Bool) (n : Nat) (act : Active) (live : List Nat)
    (hrep : act.Rep live n) (M : Mat α) (hv : M.Valid) (hn : M.n = n)
    (hnn : ∀ x ∈ live, ∀ y ∈ live, x < y → ∀ w, M.get chk x y = .ok w → Num.isNaN w = false) :
    ∀ (rows : List Nat) (min : Nat × Nat × α), (∀ r ∈ rows, r ∈ live) →
      (min.1 < min.2.1 ∧ min.1 ∈ live ∧ min.2.1 ∈ live) →
      M.get chk min.1 min.2.1 = .ok min.2.2 →
      ∃ r, rows.foldlM (fun min r => do
            let cs ← act.range (some r) none
            argminRow chk M r (cs.drop 1) min) min = .ok r ∧
        (r.1 < r.2.1 ∧ r.1 ∈ live ∧ r.2.1 ∈ live) ∧
        M.get chk r.1 r.2.1 = .ok r.2.2 ∧ Num.lt min.2.2 r.2.2 = false ∧
        ∀ x ∈ rows, ∀ y ∈ live, x < y → ∀ w, M.get chk x y = .ok w → Num.lt w r.2.2 = false := by
  have hs := hrep.sorted
  have hlt := hrep.lt_n
  have hrange : ∀ r ∈ live, act.range (some r) none = .ok (live.filter (fun x => decide (r ≤ x))) := by
    intro r hr
    have := hrep.range (some r) none (by intro l hl; cases hl; exact Nat.le_of_lt (hlt r hr)) (by simp)
    simp only [Option.getD_none, Option.getD_some] at this
    rw [this]
    congr 1
    apply List.filter_congr
    intro x hx
    have := hlt x hx
    simp [this]
  let G : Nat → Nat → Prop := fun x y => x < y ∧ x ∈ live ∧ y ∈ live
  have hG : ∀ x y w, G x y → M.get chk x y = .ok w → Num.isNaN w = false :=
    fun x y w g hw => hnn x g.2.1 y g.2.2 g.1 w hw
  intro rows
  induction rows with
  | nil =>
    intro min _ hg hget
    exact ⟨min, rfl, hg, hget, L.irrefl _, by intro x hx; cases hx⟩
  | cons r0 rs ih =>
    intro min hrows hg hget
    have hr0 : r0 ∈ live := hrows r0 List.mem_cons_self
    have hd := sorted_filter_ge_drop live hs r0 hr0
    obtain ⟨m1, e1, g1, get1, le1, hall1⟩ := argminRow_min L chk M hv r0 G hG
      ((live.filter (fun x => decide (r0 ≤ x))).drop 1) min
      (by
        intro c hc
        have := hd.2 c hc
        exact ⟨this.1, by rw [hn]; exact hlt c this.2, this.1, hr0, this.2⟩)
      hg hget
    have hn1 : Num.isNaN m1.2.2 = false := hG _ _ _ g1 get1
    obtain ⟨r, hr, gr, getr, ler, hall⟩ :=
      ih m1 (fun c hc' => hrows c (List.mem_cons_of_mem _ hc')) g1 get1
    refine ⟨r, ?_, gr, getr, L.le_trans r.2.2 m1.2.2 min.2.2 hn1 ler le1, ?_⟩
    · simp only [List.foldlM, bind, Except.bind, hrange r0 hr0, e1]
      exact hr
    · intro x hx y hy hxy w hw
      rcases List.mem_cons.mp hx with h | h
      · subst h
        -- y is among the candidates of row x
        have hy' : y ∈ (live.filter (fun z => decide (x ≤ z))).drop 1 := by
          have hmem : y ∈ live.filter (fun z => decide (x ≤ z)) := by
            simp [List.mem_filter, hy]; omega
          cases hf : live.filter (fun z => decide (x ≤ z)) with
          | nil => rw [hf] at hmem; cases hmem
          | cons h t =>
            have hh := hd.1
            rw [hf] at hh hmem
            simp only [List.head?_cons, Option.some.injEq] at hh
            subst hh
            rcases List.mem_cons.mp hmem with e | e
            · omega
            · simpa using e
        exact L.le_trans r.2.2 m1.2.2 w hn1 ler (hall1 y hy' w hw)
      · exact hall x h y hy hxy w hw

/-- **Stage 1.** `argmin` returns a live pair `a < b` with its entry `v`, and `v` is a global
minimum of the entries at live pairs. -/
theorem argmin_min (L : OrderLaws α) (chk : Bool) (n : Nat) (act : Active) (live : List Nat)
    (hrep : act.Rep live n) (hlen : 2 ≤ live.length) (M : Mat α) (hv : M.Valid) (hn : M.n = n)
    (hnn : ∀ x ∈ live, ∀ y ∈ live, x < y → ∀ w, M.get chk x y = .ok w → Num.isNaN w = false) :
    ∃ a b v, argmin chk M act = .ok (some (a, b, v)) ∧ a < b ∧ a ∈ live ∧ b ∈ live ∧
      M.get chk a b = .ok v ∧
      ∀ x ∈ live, ∀ y ∈ live, x < y → ∀ w, M.get chk x y = .ok w → Num.lt w v = false := by
  have hs := hrep.sorted
  have hlt := hrep.lt_n
  obtain ⟨row, rest, hlive⟩ : ∃ row rest, live = row :: rest := by
    cases hl : live with
    | nil => rw [hl] at hlen; simp at hlen
    | cons a b => exact ⟨a, b, rfl⟩
  have hrow : row ∈ live := by rw [hlive]; exact List.mem_cons_self
  have hrange : ∀ r ∈ live, act.range (some r) none = .ok (live.filter (fun x => decide (r ≤ x))) := by
    intro r hr
    have := hrep.range (some r) none (by intro l hl; cases hl; exact Nat.le_of_lt (hlt r hr)) (by simp)
    simp only [Option.getD_none, Option.getD_some] at this
    rw [this]
    congr 1
    apply List.filter_congr
    intro x hx
    have := hlt x hx
    simp [this]
  have hfirst : live.filter (fun x => decide (row ≤ x)) = live := by
    apply List.filter_eq_self.mpr
    intro x hx
    rw [hlive] at hx hs
    rcases List.mem_cons.mp hx with h | h
    · simp [h]
    · have := (List.pairwise_cons.mp hs).1 x h; simp; omega
  obtain ⟨col, rest2, hrest⟩ : ∃ col rest2, rest = col :: rest2 := by
    cases hr : rest with
    | nil => rw [hlive, hr] at hlen; simp at hlen
    | cons a b => exact ⟨a, b, rfl⟩
  have hcol : col ∈ live := by rw [hlive, hrest]; simp
  have hrc : row < col := by
    rw [hlive, hrest] at hs
    exact (List.pairwise_cons.mp hs).1 col (by simp)
  obtain ⟨v0, hv0⟩ := Mat.get_ok chk M hv row col hrc (by rw [hn]; exact hlt col hcol)
  obtain ⟨⟨a, b, v⟩, e, hp, hget, _, hall⟩ := argminRows_min L chk n act live hrep M hv hn hnn live
    (row, col, v0) (fun r hr => hr) ⟨hrc, hrow, hcol⟩ hv0
  refine ⟨a, b, v, ?_, hp.1, hp.2.1, hp.2.2, hget, hall⟩
  have hr0 := hrange row hrow
  rw [hfirst] at hr0
  unfold argmin
  rw [hrep.iter]
  simp only [bind, Except.bind, List.drop_one] at e ⊢
  rw [hlive] at hr0 ⊢
  simp only [hr0, hrest, List.tail_cons, hv0]
  rw [← hrest, ← hlive, e]
  rfl

end Kodama
