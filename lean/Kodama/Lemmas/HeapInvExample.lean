/-
Non-vacuity of the heap invariants: a toy `Num Nat`, a concrete `heapify` / `pop` /
`set_priority` run checked by kernel evaluation (`rfl`), and the general theorems instantiated
on it (so their hypotheses are jointly satisfiable).
-/
import Kodama.Lemmas.HeapInvOps
namespace Kodama.HeapExample
open Kodama Heap

/-- Toy number type: `Nat` with its usual order (no NaN). Local instance only. -/
@[reducible] def toyNum : Num Nat where
  lt a b := decide (a < b)
  beq a b := decide (a = b)
  add := Nat.add
  sub := Nat.sub
  mul := Nat.mul
  div := Nat.div
  ofNat n := n
  half := 0
  quarter := 0
  sqrt a := a
  abs a := a
  maxValue := 1000
  infinity := 1000
  isNaN _ := false

attribute [local instance] toyNum

theorem toyLaws : OrderLaws Nat where
  asymm a b h := by
    have : a < b := by simpa [Num.lt] using h
    simp [Num.lt]; omega
  cotrans a b c _ h := by
    have : a < c := by simpa [Num.lt] using h
    simp only [Num.lt, decide_eq_true_eq]; omega

/-- An arbitrary (ill-formed) prior heap value whose `priorities` has length 6. -/
def junk : Heap Nat := ⟨#[7, 7], #[], #[0, 0, 0, 0, 0, 0], #[true]⟩

def newPrio : Array Nat → R (Array Nat) := fun _ => .ok #[5, 3, 4, 1, 2, 1]

/-- `heapify` from the junk value (observations 3 and 5 tie for the minimum). -/
def h1 : Heap Nat :=
  ⟨#[3, 4, 5, 1, 0, 2], #[4, 3, 5, 0, 1, 2], #[5, 3, 4, 1, 2, 1],
   #[false, false, false, false, false, false]⟩

example : heapifyWith true junk newPrio = .ok h1 := by rfl
example : heapifyWith false junk newPrio = .ok h1 := by rfl

/-- `pop` returns observation 3 (priority 1), marks it removed, re-heapifies. -/
def h2 : Heap Nat :=
  ⟨#[5, 4, 2, 1, 0], #[4, 3, 2, 5, 1, 0], #[5, 3, 4, 1, 2, 1],
   #[false, false, false, true, false, false]⟩

example : h1.peek = some 3 := by rfl
example : pop true h1 = .ok (some 3, h2) := by rfl
example : priority h2 5 = .ok 1 := by rfl
example : priority h2 3 = .error .assertFail := by rfl

/-- Tie behaviour of `sift_up`: lowering observation 4 (position 1, priority 2) to priority 1,
EQUAL to its parent's (observation 5 at the root), swaps them (`if prio[parent] < prio[o] break`
does not fire on a tie). -/
def h3 : Heap Nat :=
  ⟨#[4, 5, 2, 1, 0], #[4, 3, 2, 5, 0, 1], #[5, 3, 4, 1, 1, 1],
   #[false, false, false, true, false, false]⟩

example : setPriority true h2 4 1 = .ok h3 := by rfl

/-- The general theorem applies to this run: hypotheses are satisfiable. -/
example : ∃ h', heapifyWith true junk newPrio = .ok h' ∧ Inv h' ∧ h'.prio = #[5, 3, 4, 1, 2, 1] ∧
    (∀ o, h'.Live o ↔ o < 6) := by
  obtain ⟨h', e, i, p, _, _, l⟩ := heapifyWith_Inv toyLaws true junk newPrio #[5, 3, 4, 1, 2, 1]
    (by decide) rfl rfl (by intro a _; rfl)
  exact ⟨h', e, i, p, l⟩

theorem h1_Inv : Inv h1 := by
  obtain ⟨h', e, i, _⟩ := heapifyWith_Inv toyLaws true junk newPrio #[5, 3, 4, 1, 2, 1]
    (by decide) rfl rfl (by intro a _; rfl)
  have : h' = h1 := by
    have e' : heapifyWith true junk newPrio = .ok h1 := by rfl
    rw [e] at e'; exact Except.ok.inj e'
  rw [← this]; exact i

/-- The `pop` theorem applied to the concrete heap. -/
example : ∃ h', pop true h1 = .ok (some 3, h') ∧ Inv h' ∧ (∀ o', h'.Live o' ↔ h1.Live o' ∧ o' ≠ 3) := by
  obtain ⟨h', e, i, _, _, _, l⟩ := pop_Inv toyLaws true h1_Inv (o := 3) rfl
  exact ⟨h', e, i, l⟩

/-- `Ordered` genuinely fails on a mis-ordered heap (the predicate is not trivially true). -/
example : ¬ Ordered (⟨#[0, 1], #[0, 1], #[5, 3], #[false, false]⟩ : Heap Nat) := by
  intro h
  have := h 1 (by decide) (by decide)
  exact absurd this (by decide)

end Kodama.HeapExample
