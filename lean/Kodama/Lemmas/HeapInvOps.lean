/-
Invariants of the indexed binary min-heap, part 3: the public operations
`set_priority`, `pop`, `heapify`; bracket-form corollaries; a non-vacuity example.
-/
import Kodama.Lemmas.HeapInvSift
import Kodama.Model.State
import Kodama.Lemmas.Reset
set_option linter.unusedSectionVars false
set_option linter.unusedSimpArgs false
namespace Kodama
namespace Heap
variable {α : Type} [Num α]

/-! ### `set_priority` -/

/-- Replacing the priority array by one of the same size keeps `WF`. -/
theorem WF.withPrio {h : Heap α} (hw : WF h) (prio' : Array α) (hs : prio'.size = h.prio.size) :
    WF { h with prio := prio' } :=
  ⟨by simpa [hs] using hw.obs_size, by simpa [hs] using hw.removed_size,
    by simpa [hs] using hw.heap_le, hw.heap_obs,
    by intro o ho; simp only [hs] at ho; exact hw.removed_iff o ho,
    by simpa [hs] using hw.small⟩

theorem key_setPrio {h : Heap α} (hw : WF h) {po o : Nat} (hpo : h.heap[po]? = some o) (p : α)
    (k : Nat) (hk : k < h.heap.size) :
    ({ h with prio := h.prio.setIfInBounds o p } : Heap α).key k =
      if k = po then p else h.key k := by
  obtain ⟨ok, hok⟩ := hw.exists_heap hk
  have holt := hw.lt_of_heap hpo
  unfold key
  simp only [hok, Option.getD_some, Array.getElem?_setIfInBounds]
  by_cases e : k = po
  · subst e
    have : ok = o := by rw [hpo] at hok; exact (Option.some.inj hok).symm
    simp [this, holt]
  · have : ¬ o = ok := by
      intro e'; subst e'; exact e (hw.heap_inj hok hpo)
    simp [this, e]

/-- Totality of `set_priority` on a live observation. -/
theorem setPriority_WF (chk : Bool) {h : Heap α} (hw : WF h) {o : Nat} (hl : h.Live o) (p : α) :
    ∃ h', setPriority chk h o p = .ok h' ∧ WF h' ∧ h'.prio = h.prio.setIfInBounds o p ∧
      h'.removed = h.removed ∧ h'.heap.size = h.heap.size ∧ (∀ o', h'.Live o' ↔ h.Live o') := by
  have hlt := hw.live_lt hl
  have hr := (hw.removed_iff o hlt).mpr hl
  obtain ⟨po, hpo⟩ := hl
  have hpn := hw.pos_lt hpo
  have hold : h.prio[o]? = some h.prio[o] := by simp [hlt]
  have hset : h.prio.set o p hlt = h.prio.setIfInBounds o p := by simp [Array.setIfInBounds, hlt]
  have hw0 : WF ({ h with prio := h.prio.setIfInBounds o p } : Heap α) :=
    hw.withPrio _ (by simp)
  have hpo0 : ({ h with prio := h.prio.setIfInBounds o p } : Heap α).heap[po]? = some o := hpo
  unfold setPriority
  simp only [aget, hr, hold, guard', aset, hlt, hset, bind, Except.bind, Bool.not_false, if_true,
    dite_true]
  split
  · obtain ⟨h', hs, sl⟩ := siftUp_WF chk (fuelFor ({ h with prio := h.prio.setIfInBounds o p } : Heap α))
      _ o po hw0 hpo0 (by simp only [fuelFor]; omega)
    exact ⟨h', hs, sl.wf, sl.prio, sl.removed, sl.size, sl.live⟩
  · split
    · obtain ⟨h', hs, sl⟩ := siftDown_WF chk (fuelFor ({ h with prio := h.prio.setIfInBounds o p } : Heap α))
        _ o po hw0 hpo0 (by simp only [fuelFor]; omega)
      exact ⟨h', hs, sl.wf, sl.prio, sl.removed, sl.size, sl.live⟩
    · exact ⟨_, rfl, hw0, rfl, rfl, rfl, fun _ => Iff.rfl⟩

section SetPrioOrder
variable (L : OrderLaws α) {h h0 : Heap α} {po : Nat} {p : α}
  (ho : Ordered h) (hk : KeysOK h) (hsz : h0.heap.size = h.heap.size)
  (K : ∀ k, k < h.heap.size → h0.key k = if k = po then p else h.key k)
  (hpo : po < h.heap.size)
include L ho hk hsz K hpo

/-- children of `po` are `≥` the new key when the new key is `≤` the old one. -/
theorem setPrio_child (c : Num.lt (h.key po) p = false) (i : Nat) (h1 : 1 ≤ i)
    (h2 : i < h.heap.size) (h3 : (i - 1) / 2 = po) : Num.lt (h.key i) p = false := by
  have a := ho i h1 h2
  rw [h3] at a
  exact L.le_trans _ _ _ (hk po hpo) c a

/-- the new key is `≥` the parent of `po` when it is `≥` the old one. -/
theorem setPrio_parent (c : Num.lt p (h.key po) = false) (h1 : 1 ≤ po) :
    Num.lt p (h.key ((po - 1) / 2)) = false :=
  L.le_trans _ _ _ (hk po hpo) (ho po h1 hpo) c

theorem setPrio_grand (i : Nat) (h1 : 1 ≤ i) (h2 : i < h.heap.size) (h3 : (i - 1) / 2 = po)
    (h4 : 1 ≤ po) : Num.lt (h.key i) (h.key ((po - 1) / 2)) = false := by
  have a := ho i h1 h2
  rw [h3] at a
  exact L.le_trans _ _ _ (hk po hpo) (ho po h4 hpo) a

theorem setPrio_upInv (c : Num.lt (h.key po) p = false) : UpInv h0 po := by
  constructor
  · intro i h1 h2 h3
    rw [hsz] at h2
    rw [K i h2, K _ (by omega)]
    simp only [h3, if_false]
    by_cases e : (i - 1) / 2 = po
    · simp only [e, if_true]
      exact setPrio_child L ho hk hsz K hpo c i h1 h2 e
    · simp only [e, if_false]
      exact ho i h1 h2
  · intro i h1 h2 h3 h4
    rw [hsz] at h2
    have e1 : ¬ i = po := by omega
    have e2 : ¬ (po - 1) / 2 = po := by omega
    rw [K i h2, K _ (by omega)]
    simp only [e1, e2, if_false]
    exact setPrio_grand L ho hk hsz K hpo i h1 h2 h3 h4

theorem setPrio_downInv (c : Num.lt p (h.key po) = false) : DownInv h0 0 po := by
  constructor
  · intro i h1 h2 _ h4
    rw [hsz] at h2
    rw [K i h2, K _ (by omega)]
    simp only [h4, if_false]
    by_cases e : i = po
    · simp only [e, if_true]
      exact setPrio_parent L ho hk hsz K hpo c (by omega)
    · simp only [e, if_false]
      exact ho i h1 h2
  · intro i h1 h2 h3 h4 _
    rw [hsz] at h2
    have e1 : ¬ i = po := by omega
    have e2 : ¬ (po - 1) / 2 = po := by omega
    rw [K i h2, K _ (by omega)]
    simp only [e1, e2, if_false]
    exact setPrio_grand L ho hk hsz K hpo i h1 h2 h3 h4

theorem setPrio_ordered (c1 : Num.lt (h.key po) p = false) (c2 : Num.lt p (h.key po) = false) :
    Ordered h0 := by
  intro i h1 h2
  rw [hsz] at h2
  rw [K i h2, K _ (by omega)]
  by_cases e : i = po
  · have e2 : ¬ (po - 1) / 2 = po := by omega
    simp only [e, if_true, e2, if_false]
    exact setPrio_parent L ho hk hsz K hpo c2 (by omega)
  · simp only [e, if_false]
    by_cases e2 : (i - 1) / 2 = po
    · simp only [e2, if_true]
      exact setPrio_child L ho hk hsz K hpo c1 i h1 h2 e2
    · simp only [e2, if_false]
      exact ho i h1 h2

theorem setPrio_keysOK (hp : Num.isNaN p = false) : KeysOK h0 := by
  intro k hk'
  rw [hsz] at hk'
  rw [K k hk']
  split
  · exact hp
  · exact hk k hk'

end SetPrioOrder

/-- `set_priority` keeps the heap ordered (and the live priorities non-NaN). -/
theorem setPriority_ordered (L : OrderLaws α) (chk : Bool) {h h' : Heap α} (hw : WF h)
    (ho : Ordered h) (hn : NoNaN h) {o : Nat} (hl : h.Live o) {p : α}
    (hp : Num.isNaN p = false) (hr : setPriority chk h o p = .ok h') :
    Ordered h' ∧ NoNaN h' := by
  have hk := hw.keysOK_of_noNaN hn
  have hlt := hw.live_lt hl
  have hrm := (hw.removed_iff o hlt).mpr hl
  obtain ⟨po, hpo⟩ := hl
  have hpn := hw.pos_lt hpo
  have hold : h.prio[o]? = some h.prio[o] := by simp [hlt]
  have hkold : h.key po = h.prio[o] := hw.key_eq hpo hold
  have hset : h.prio.set o p hlt = h.prio.setIfInBounds o p := by simp [Array.setIfInBounds, hlt]
  have hw0 : WF ({ h with prio := h.prio.setIfInBounds o p } : Heap α) :=
    hw.withPrio _ (by simp)
  have hpo0 : ({ h with prio := h.prio.setIfInBounds o p } : Heap α).heap[po]? = some o := hpo
  have K := key_setPrio hw hpo p
  have hk0 := setPrio_keysOK L ho hk (h0 := { h with prio := h.prio.setIfInBounds o p }) rfl K hpn hp
  unfold setPriority at hr
  simp only [aget, hrm, hold, guard', aset, hlt, hset, bind, Except.bind, Bool.not_false, if_true,
    dite_true] at hr
  rw [← hkold] at hr
  have main : Ordered h' ∧ KeysOK h' ∧ WF h' ∧ h'.prio = h.prio.setIfInBounds o p ∧
      (∀ o', h'.Live o' ↔ h.Live o') := by
    split at hr
    · next c =>
      have c' := L.asymm _ _ c
      obtain ⟨h'', hs, sl⟩ := siftUp_WF chk
        (fuelFor ({ h with prio := h.prio.setIfInBounds o p } : Heap α)) _ o po hw0 hpo0
        (by simp only [fuelFor]; omega)
      have := siftUp_ordered L chk _ _ h' o po hw0 hk0 hpo0
        (setPrio_upInv L ho hk rfl K hpn c') hr
      rw [hs] at hr; cases hr
      exact ⟨this.1, this.2, sl.wf, sl.prio, sl.live⟩
    · next c =>
      have c' : Num.lt p (h.key po) = false := by simpa using c
      split at hr
      · obtain ⟨h'', hs, sl⟩ := siftDown_WF chk
          (fuelFor ({ h with prio := h.prio.setIfInBounds o p } : Heap α)) _ o po hw0 hpo0
          (by simp only [fuelFor]; omega)
        have := siftDown_ordered L chk _ _ h' o po 0 hw0 hk0 hpo0 (Nat.zero_le _)
          (setPrio_downInv L ho hk rfl K hpn c') hr
        rw [hs] at hr; cases hr
        exact ⟨(ordered_iff_from _).mpr this.1, this.2, sl.wf, sl.prio, sl.live⟩
      · next c2 =>
        have c2' : Num.lt (h.key po) p = false := by simpa using c2
        cases hr
        exact ⟨setPrio_ordered L ho hk rfl K hpn c2' c', hk0, hw0, rfl, fun _ => Iff.rfl⟩
  obtain ⟨m1, m2, m3, m4, m5⟩ := main
  exact ⟨m1, m3.noNaN_of_keysOK m2⟩

/-! ### `pop` -/

theorem Swapped.same {h : Heap α} (hw : WF h) (i : Nat) : Swapped h h i i :=
  ⟨rfl, rfl, rfl, hw, by intro k; by_cases e : k = i <;> simp [e],
    by intro k; by_cases e : k = i <;> simp [e], fun _ => Iff.rfl⟩

/-- Dropping the last heap slot and marking observation `o` removed. -/
def dropLast (hs : Heap α) (o : Nat) : Heap α :=
  { hs with heap := hs.heap.pop, removed := hs.removed.setIfInBounds o true }

theorem popLast_spec {hs : Heap α} (hw : WF hs) {o : Nat}
    (hlast : hs.heap[hs.heap.size - 1]? = some o) :
    WF (dropLast hs o) ∧
    (∀ o', (dropLast hs o).Live o'
      ↔ hs.Live o' ∧ o' ≠ o) ∧
    (∀ k, k < hs.heap.size - 1 →
      (dropLast hs o).key k
        = hs.key k) := by
  have hn := hw.pos_lt hlast
  have hlive : ∀ o', (dropLast hs o).Live o' ↔ hs.Live o' ∧ o' ≠ o := by
    intro o'
    unfold Live dropLast
    simp only [Array.getElem?_pop]
    constructor
    · rintro ⟨i, hi⟩
      split at hi
      · next hlt =>
        refine ⟨⟨i, hi⟩, ?_⟩
        intro e; subst e
        have := hw.heap_inj hi hlast
        omega
      · cases hi
    · rintro ⟨⟨i, hi⟩, hne⟩
      have hin := hw.pos_lt hi
      have : i ≠ hs.heap.size - 1 := by
        intro e; subst e; rw [hlast] at hi; exact hne (Option.some.inj hi).symm
      refine ⟨i, ?_⟩
      have : i < hs.heap.size - 1 := by omega
      simp [this, hi]
  refine ⟨⟨by simpa [dropLast] using hw.obs_size, by simpa [dropLast] using hw.removed_size,
    by simp only [dropLast, Array.size_pop]; have := hw.heap_le; omega, ?_, ?_, hw.small⟩, hlive, ?_⟩
  · intro i o' hi
    simp only [dropLast, Array.getElem?_pop] at hi
    split at hi
    · exact hw.heap_obs i o' hi
    · cases hi
  · intro o' ho'
    rw [hlive o']
    simp only [dropLast, Array.getElem?_setIfInBounds]
    have holt : o < hs.removed.size := by rw [hw.removed_size]; exact hw.lt_of_heap hlast
    by_cases e : o = o'
    · subst e; simp [holt]
    · have e' : o' ≠ o := fun x => e x.symm
      simp only [e, if_false, e', ne_eq, not_false_eq_true, and_true]
      exact hw.removed_iff o' ho'
  · intro k hk
    unfold key dropLast
    simp only [Array.getElem?_pop, hk, if_true]

theorem pop_empty (chk : Bool) {h : Heap α} (h0 : h.heap.size = 0) : pop chk h = .ok (none, h) := by
  simp [pop, h0, pure, Except.pure]

/-- `pop` with the do-block's join points made explicit. -/
theorem pop_eq (chk : Bool) (h : Heap α) : pop chk h =
    if h.heap.size = 0 then pure (none, h) else
    (if h.heap.size ≥ 2 then do
        let first ← aget h.heap 0
        let last ← aget h.heap (h.heap.size - 1)
        h.swap first last
      else pure h) >>= fun hs =>
    aget hs.heap (hs.heap.size - 1) >>= fun last =>
    aset hs.removed last true >>= fun removed =>
    (if ({ hs with heap := hs.heap.pop, removed := removed } : Heap α).heap.size ≥ 2 then do
        let first ← aget ({ hs with heap := hs.heap.pop, removed := removed } : Heap α).heap 0
        siftDown chk ({ hs with heap := hs.heap.pop, removed := removed } : Heap α).fuelFor
          ({ hs with heap := hs.heap.pop, removed := removed } : Heap α) first
      else pure ({ hs with heap := hs.heap.pop, removed := removed } : Heap α)) >>= fun h' =>
    pure (some last, h') := by
  unfold pop
  split
  · rfl
  · split
    · simp only [bind_assoc]
      congr; funext first; congr; funext last; congr; funext hs; congr; funext last; congr
      funext removed
      split <;> simp
    · simp only [pure_bind]
      congr; funext last; congr; funext removed
      split <;> simp

/-- Everything about a `pop` from a non-empty heap. -/
theorem pop_core (chk : Bool) {h : Heap α} (hw : WF h) {o : Nat} (hp : h.peek = some o) :
    ∃ h', pop chk h = .ok (some o, h') ∧ WF h' ∧ h'.prio = h.prio ∧
      h'.removed = h.removed.setIfInBounds o true ∧ h'.heap.size = h.heap.size - 1 ∧
      (∀ o', h'.Live o' ↔ h.Live o' ∧ o' ≠ o) ∧
      (OrderLaws α → Ordered h → KeysOK h → Ordered h' ∧ KeysOK h') := by
  have hp0 : h.heap[0]? = some o := hp
  have hn := hw.pos_lt hp0
  obtain ⟨ol, hol⟩ := hw.exists_heap (i := h.heap.size - 1) (by omega)
  -- the optional first swap
  have step1 : ∃ hs, (if h.heap.size ≥ 2 then do
        let first ← aget h.heap 0
        let last ← aget h.heap (h.heap.size - 1)
        h.swap first last
      else pure h) = .ok hs ∧ Swapped h hs 0 (h.heap.size - 1) := by
    by_cases h2 : h.heap.size ≥ 2
    · obtain ⟨hs, e, sw⟩ := swap_swapped hw hp0 hol
      refine ⟨hs, ?_, sw⟩
      simp [h2, aget, hp0, hol, e, bind, Except.bind]
    · have : h.heap.size - 1 = 0 := by omega
      rw [this]
      exact ⟨h, by simp [h2, pure, Except.pure], Swapped.same hw 0⟩
  obtain ⟨hs, e1, sw⟩ := step1
  have hlast : hs.heap[hs.heap.size - 1]? = some o := by
    rw [sw.size, sw.heap]; simp [hp0]
  obtain ⟨wfp, livep, keyp⟩ := popLast_spec sw.wf hlast
  have holt : o < hs.removed.size := by rw [sw.wf.removed_size]; exact sw.wf.lt_of_heap hlast
  have hset : hs.removed.set o true holt = hs.removed.setIfInBounds o true := by
    simp [Array.setIfInBounds, holt]
  have hpsz : (dropLast hs o).heap.size = h.heap.size - 1 := by
    simp [dropLast, sw.size]
  have keyp' : ∀ k, k < h.heap.size - 1 → (dropLast hs o).key k =
      if k = 0 then h.key (h.heap.size - 1) else h.key k := by
    intro k hk
    rw [keyp k (by rw [sw.size]; exact hk), sw.key k]
    have : ¬ k = h.heap.size - 1 := by omega
    simp only [this, if_false]
  have hkp : KeysOK h → KeysOK (dropLast hs o) := by
    intro hk k hk'
    rw [hpsz] at hk'
    rw [keyp' k hk']
    split
    · exact hk _ (by omega)
    · exact hk _ (by omega)
  -- the final sift
  have step3 : ∃ h', (if (dropLast hs o).heap.size ≥ 2 then do
        let first ← aget (dropLast hs o).heap 0
        siftDown chk (dropLast hs o).fuelFor (dropLast hs o) first
      else pure (dropLast hs o)) = .ok h' ∧ SameLive (dropLast hs o) h' ∧
      (OrderLaws α → Ordered h → KeysOK h → Ordered h' ∧ KeysOK h') := by
    by_cases h2 : (dropLast hs o).heap.size ≥ 2
    · obtain ⟨f, hf⟩ := wfp.exists_heap (i := 0) (by omega)
      obtain ⟨h', e, sl⟩ := siftDown_WF chk (dropLast hs o).fuelFor _ f 0 wfp hf
        (by simp only [fuelFor]; omega)
      refine ⟨h', by simp [h2, aget, hf, e, bind, Except.bind], sl, ?_⟩
      intro L ho hk
      have inv : DownInv (dropLast hs o) 0 0 := by
        constructor
        · intro i h1 hi _ h4
          rw [hpsz] at hi
          rw [keyp' i hi, keyp' _ (by omega)]
          have e1 : ¬ i = 0 := by omega
          simp only [e1, h4, if_false]
          exact ho i h1 (by omega)
        · intro i _ _ _ h4 _
          omega
      have := siftDown_ordered L chk _ _ h' f 0 0 wfp (hkp hk) hf (Nat.le_refl _) inv e
      exact ⟨(ordered_iff_from _).mpr this.1, this.2⟩
    · refine ⟨_, by simp [h2, pure, Except.pure], SameLive.refl wfp, ?_⟩
      intro _ _ hk
      refine ⟨?_, hkp hk⟩
      intro i h1 hi
      omega
  obtain ⟨h', e3, sl, hord⟩ := step3
  have hne0 : ¬ h.heap.size = 0 := by omega
  refine ⟨h', ?_, sl.wf, sl.prio.trans sw.prio, ?_, sl.size.trans hpsz, ?_, hord⟩
  · rw [pop_eq]
    simp only [hne0, if_false, bind_ok]
    refine ⟨hs, e1, o, by simp [aget, hlast], hs.removed.setIfInBounds o true,
      by simp [aset, holt, hset], h', e3, rfl⟩
  · rw [sl.removed]; simp [dropLast, sw.removed]
  · intro o'
    rw [sl.live o', livep o', sw.live o']

/-- Totality and structural spec of `pop` on a non-empty heap: it returns what `peek` returned,
removes exactly that observation from the live set and marks it removed; priorities unchanged. -/
theorem pop_WF (chk : Bool) {h : Heap α} (hw : WF h) {o : Nat} (hp : h.peek = some o) :
    ∃ h', pop chk h = .ok (some o, h') ∧ WF h' ∧ h'.prio = h.prio ∧
      h'.removed = h.removed.setIfInBounds o true ∧ h'.heap.size = h.heap.size - 1 ∧
      (∀ o', h'.Live o' ↔ h.Live o' ∧ o' ≠ o) := by
  obtain ⟨h', a, b, c, d, e, f, _⟩ := pop_core chk hw hp
  exact ⟨h', a, b, c, d, e, f⟩

/-- `pop` never panics on a well-formed heap. -/
theorem pop_total (chk : Bool) {h : Heap α} (hw : WF h) :
    ∃ r h', pop chk h = .ok (r, h') ∧ r = h.peek ∧ WF h' := by
  cases hp : h.peek with
  | none => exact ⟨none, h, pop_empty chk (peek_none.mp hp), rfl, hw⟩
  | some o =>
    obtain ⟨h', a, b, _⟩ := pop_core chk hw hp
    exact ⟨some o, h', a, rfl, b⟩

/-- `pop` keeps the heap ordered (and the live priorities non-NaN). -/
theorem pop_ordered (L : OrderLaws α) (chk : Bool) {h h' : Heap α} {r : Option Nat} (hw : WF h)
    (ho : Ordered h) (hn : NoNaN h) (hr : pop chk h = .ok (r, h')) : Ordered h' ∧ NoNaN h' := by
  cases hp : h.peek with
  | none =>
    rw [pop_empty chk (peek_none.mp hp)] at hr
    cases hr; exact ⟨ho, hn⟩
  | some o =>
    obtain ⟨h'', a, b, _, _, _, _, g⟩ := pop_core chk hw hp
    rw [a] at hr; cases hr
    have := g L ho (hw.keysOK_of_noNaN hn)
    exact ⟨this.1, b.noNaN_of_keysOK this.2⟩

/-! ### `heapify` -/

theorem heapifyLoop_WF (chk : Bool) : ∀ (l : List Nat) (h : Heap α), WF h →
    (∀ i ∈ l, i < h.heap.size) → ∃ h', heapifyLoop chk h l = .ok h' ∧ SameLive h h' := by
  intro l
  induction l with
  | nil => intro h hw _; exact ⟨h, rfl, SameLive.refl hw⟩
  | cons i is ih =>
    intro h hw hl
    have hi : i < h.heap.size := hl i List.mem_cons_self
    obtain ⟨o, ho⟩ := hw.exists_heap hi
    obtain ⟨h1, e1, sl1⟩ := siftDown_WF chk h.fuelFor h o i hw ho (by simp only [fuelFor]; omega)
    obtain ⟨h', e2, sl2⟩ := ih h1 sl1.wf (by
      intro j hj; rw [sl1.size]; exact hl j (List.mem_cons_of_mem _ hj))
    refine ⟨h', ?_, sl1.trans sl2⟩
    simp [heapifyLoop, aget, ho, e1, e2, bind, Except.bind]

theorem heapifyLoop_ordered (L : OrderLaws α) (chk : Bool) : ∀ (m : Nat) (h h' : Heap α), WF h →
    KeysOK h → OrderedFrom h m → m ≤ h.heap.size →
    heapifyLoop chk h (List.range m).reverse = .ok h' → Ordered h' ∧ KeysOK h' := by
  intro m
  induction m with
  | zero =>
    intro h h' hw hk ho _ hr
    simp [heapifyLoop, pure, Except.pure] at hr
    subst hr
    exact ⟨(ordered_iff_from _).mpr ho, hk⟩
  | succ m ih =>
    intro h h' hw hk ho hm hr
    rw [List.range_succ, List.reverse_append] at hr
    simp only [List.reverse_cons, List.reverse_nil, List.nil_append, List.cons_append] at hr
    have hi : m < h.heap.size := by omega
    obtain ⟨o, hoo⟩ := hw.exists_heap hi
    obtain ⟨h1, e1, sl1⟩ := siftDown_WF chk h.fuelFor h o m hw hoo (by simp only [fuelFor]; omega)
    have inv : DownInv h m m := by
      constructor
      · intro i h1 h2 h3 h4
        exact ho i h1 h2 (by omega)
      · intro i _ _ _ h4 h5
        omega
    have o1 := siftDown_ordered L chk _ _ h1 o m m hw hk hoo (Nat.le_refl _) inv e1
    have hr' : heapifyLoop chk h1 (List.range m).reverse = .ok h' := by
      simpa [heapifyLoop, aget, hoo, e1, bind, Except.bind] using hr
    exact ih h1 h' sl1.wf o1.2 o1.1 (by rw [sl1.size]; omega) hr'

/-- Totality and structural spec of `heapify`: from ANY prior heap value, with the closure
producing `prio'` (same length `N`), the result is well-formed, has priorities `prio'`, nothing
removed and live set `0..N-1`. -/
theorem heapifyWith_WF (chk : Bool) (h : Heap α) (f : Array α → R (Array α)) (prio' : Array α)
    (hN : h.prio.size < 2 ^ 62)
    (hf : f (Array.replicate h.prio.size Num.maxValue) = .ok prio')
    (hsz : prio'.size = h.prio.size) :
    ∃ h', heapifyWith chk h f = .ok h' ∧ WF h' ∧ h'.prio = prio' ∧
      h'.removed = Array.replicate h.prio.size false ∧ h'.heap.size = h.prio.size ∧
      (∀ o, h'.Live o ↔ o < h.prio.size) := by
  have hw0 : WF ({ (fresh h.prio.size : Heap α) with prio := prio' } : Heap α) :=
    (fresh_WF h.prio.size hN).withPrio prio' (by simp [hsz, fresh])
  obtain ⟨h', e, sl⟩ := heapifyLoop_WF chk (List.range (h.prio.size / 2)).reverse _ hw0 (by
    intro i hi
    simp only [List.mem_reverse, List.mem_range] at hi
    simp [fresh]; omega)
  refine ⟨h', ?_, sl.wf, sl.prio, sl.removed, by rw [sl.size]; simp [fresh], ?_⟩
  · unfold heapifyWith
    simp only [heapReset_eq_fresh, bind_ok]
    exact ⟨prio', by simpa [fresh] using hf, e⟩
  · intro o
    rw [sl.live o]
    exact fresh_live (α := α) h.prio.size o

/-- `heapify` establishes heap order when the new priorities are non-NaN. -/
theorem heapifyWith_ordered (L : OrderLaws α) (chk : Bool) (h h' : Heap α)
    (f : Array α → R (Array α)) (prio' : Array α) (hN : h.prio.size < 2 ^ 62)
    (hf : f (Array.replicate h.prio.size Num.maxValue) = .ok prio')
    (hsz : prio'.size = h.prio.size) (hnan : ∀ a ∈ prio', Num.isNaN a = false)
    (hr : heapifyWith chk h f = .ok h') : Ordered h' ∧ NoNaN h' := by
  have hw0 : WF ({ (fresh h.prio.size : Heap α) with prio := prio' } : Heap α) :=
    (fresh_WF h.prio.size hN).withPrio prio' (by simp [hsz, fresh])
  have hn0 : NoNaN ({ (fresh h.prio.size : Heap α) with prio := prio' } : Heap α) := by
    intro o a _ ha
    exact hnan a (Array.mem_of_getElem? ha)
  obtain ⟨h'', e, sl⟩ := heapifyLoop_WF chk (List.range (h.prio.size / 2)).reverse _ hw0 (by
    intro i hi
    simp only [List.mem_reverse, List.mem_range] at hi
    simp [fresh]; omega)
  have hr' : heapifyLoop chk ({ (fresh h.prio.size : Heap α) with prio := prio' } : Heap α)
      (List.range (h.prio.size / 2)).reverse = .ok h' := by
    unfold heapifyWith at hr
    simp only [heapReset_eq_fresh, bind_ok] at hr
    obtain ⟨p2, hp2, hr⟩ := hr
    have : p2 = prio' := by
      have : f (Array.replicate h.prio.size Num.maxValue) = .ok p2 := by simpa [fresh] using hp2
      rw [hf] at this; exact (Except.ok.inj this).symm
    subst this; exact hr
  have hfrom : OrderedFrom ({ (fresh h.prio.size : Heap α) with prio := prio' } : Heap α)
      (h.prio.size / 2) := by
    intro i h1 h2 h3
    simp [fresh] at h2
    omega
  have := heapifyLoop_ordered L chk (h.prio.size / 2) _ h' hw0 (hw0.keysOK_of_noNaN hn0) hfrom
    (by simp [fresh]; omega) hr'
  rw [e] at hr'; cases hr'
  exact ⟨this.1, sl.wf.noNaN_of_keysOK this.2⟩

/-! ### The bundled invariant and one preservation theorem per public operation -/

/-- Well-formed, heap-ordered, and no NaN among the live priorities. -/
structure Inv (h : Heap α) : Prop where
  wf : WF h
  ordered : Ordered h
  noNaN : NoNaN h

theorem fresh_Inv (L : OrderLaws α) (n : Nat) (hn : n < 2 ^ 62)
    (hmax : Num.isNaN (Num.maxValue : α) = false) : Inv (fresh n : Heap α) := by
  refine ⟨fresh_WF n hn, fresh_Ordered n (L.irrefl _), ?_⟩
  intro o a _ ha
  simp only [fresh, Array.getElem?_replicate] at ha
  split at ha
  · cases ha; exact hmax
  · cases ha

theorem setPriority_Inv (L : OrderLaws α) (chk : Bool) {h : Heap α} (hi : Inv h) {o : Nat}
    (hl : h.Live o) {p : α} (hp : Num.isNaN p = false) :
    ∃ h', setPriority chk h o p = .ok h' ∧ Inv h' ∧ h'.prio = h.prio.setIfInBounds o p ∧
      h'.removed = h.removed ∧ h'.heap.size = h.heap.size ∧ (∀ o', h'.Live o' ↔ h.Live o') := by
  obtain ⟨h', e, a, b, c, d, f⟩ := setPriority_WF chk hi.wf hl p
  have := setPriority_ordered L chk hi.wf hi.ordered hi.noNaN hl hp e
  exact ⟨h', e, ⟨a, this.1, this.2⟩, b, c, d, f⟩

theorem pop_Inv (L : OrderLaws α) (chk : Bool) {h : Heap α} (hi : Inv h) {o : Nat}
    (hp : h.peek = some o) :
    ∃ h', pop chk h = .ok (some o, h') ∧ Inv h' ∧ h'.prio = h.prio ∧
      h'.removed = h.removed.setIfInBounds o true ∧ h'.heap.size = h.heap.size - 1 ∧
      (∀ o', h'.Live o' ↔ h.Live o' ∧ o' ≠ o) := by
  obtain ⟨h', e, a, b, c, d, f⟩ := pop_WF chk hi.wf hp
  have := pop_ordered L chk hi.wf hi.ordered hi.noNaN e
  exact ⟨h', e, ⟨a, this.1, this.2⟩, b, c, d, f⟩

theorem heapifyWith_Inv (L : OrderLaws α) (chk : Bool) (h : Heap α) (f : Array α → R (Array α))
    (prio' : Array α) (hN : h.prio.size < 2 ^ 62)
    (hf : f (Array.replicate h.prio.size Num.maxValue) = .ok prio')
    (hsz : prio'.size = h.prio.size) (hnan : ∀ a ∈ prio', Num.isNaN a = false) :
    ∃ h', heapifyWith chk h f = .ok h' ∧ Inv h' ∧ h'.prio = prio' ∧
      h'.removed = Array.replicate h.prio.size false ∧ h'.heap.size = h.prio.size ∧
      (∀ o, h'.Live o ↔ o < h.prio.size) := by
  obtain ⟨h', e, a, b, c, d, g⟩ := heapifyWith_WF chk h f prio' hN hf hsz
  have := heapifyWith_ordered L chk h h' f prio' hN hf hsz hnan e
  exact ⟨h', e, ⟨a, this.1, this.2⟩, b, c, d, g⟩

/-- `peek` on an `Inv` heap is a minimum of the live priorities. -/
theorem Inv.peek_min (L : OrderLaws α) {h : Heap α} (hi : Inv h) {o : Nat}
    (hp : h.peek = some o) :
    ∀ o' a a', h.Live o' → h.prio[o]? = some a → h.prio[o']? = some a' → Num.lt a' a = false :=
  Heap.peek_min L hi.wf hi.ordered hi.noNaN hp

/-- Forward form: whenever `heapify` returns, the closure returned some `prio'`, and if that has
the right length the result is as in `heapifyWith_WF` (and `Inv` if `prio'` is NaN-free). -/
theorem heapifyWith_ok (chk : Bool) (h h' : Heap α) (f : Array α → R (Array α))
    (hN : h.prio.size < 2 ^ 62) (hr : heapifyWith chk h f = .ok h') :
    ∃ prio', f (Array.replicate h.prio.size Num.maxValue) = .ok prio' ∧
      (prio'.size = h.prio.size →
        WF h' ∧ h'.prio = prio' ∧ h'.removed = Array.replicate h.prio.size false ∧
        h'.heap.size = h.prio.size ∧ (∀ o, h'.Live o ↔ o < h.prio.size) ∧
        (OrderLaws α → (∀ a ∈ prio', Num.isNaN a = false) → Inv h')) := by
  have hr0 := hr
  unfold heapifyWith at hr
  simp only [heapReset_eq_fresh, bind_ok] at hr
  obtain ⟨prio', hf, _⟩ := hr
  have hf' : f (Array.replicate h.prio.size Num.maxValue) = .ok prio' := by simpa [fresh] using hf
  refine ⟨prio', hf', ?_⟩
  intro hsz
  obtain ⟨h'', e, a, b, c, d, g⟩ := heapifyWith_WF chk h f prio' hN hf' hsz
  rw [hr0] at e; cases e
  refine ⟨a, b, c, d, g, ?_⟩
  intro L hnan
  have := heapifyWith_ordered L chk h h' f prio' hN hf' hsz hnan hr0
  exact ⟨a, this.1, this.2⟩

/-- `sift_down` with the fuel the callers pass (`fuelFor`) never runs out. -/
theorem siftDown_fuelFor (chk : Bool) {h : Heap α} (hw : WF h) {o : Nat} (hl : h.Live o) :
    ∃ h', siftDown chk h.fuelFor h o = .ok h' ∧ SameLive h h' := by
  obtain ⟨p, hp⟩ := hl
  exact siftDown_WF chk _ h o p hw hp (by simp only [fuelFor]; omega)

/-- `sift_up` with the fuel the callers pass (`fuelFor`) never runs out. -/
theorem siftUp_fuelFor (chk : Bool) {h : Heap α} (hw : WF h) {o : Nat} (hl : h.Live o) :
    ∃ h', siftUp chk h.fuelFor h o = .ok h' ∧ SameLive h h' := by
  obtain ⟨p, hp⟩ := hl
  have := hw.pos_lt hp
  exact siftUp_WF chk _ h o p hw hp (by simp only [fuelFor]; omega)

theorem setIfInBounds_eq_set {β : Type} (a : Array β) (i : Nat) (v : β) (hi : i < a.size) :
    a.setIfInBounds i v = a.set i v hi := by
  simp [Array.setIfInBounds, hi]

/-! ### Bracket-index forms of the invariants -/

/-- `WF` in terms of plain `a[i]` indexing. -/
theorem WF.bracket {h : Heap α} (hw : WF h) :
    h.obs.size = h.prio.size ∧ h.removed.size = h.prio.size ∧ h.heap.size ≤ h.prio.size ∧
    h.prio.size < 2 ^ 62 ∧
    (∀ i (hi : i < h.heap.size), h.heap[i] < h.prio.size) ∧
    (∀ i j (hi : i < h.heap.size) (hj : j < h.heap.size), h.heap[i] = h.heap[j] → i = j) ∧
    h.heap.toList.Nodup ∧
    (∀ i (hi : i < h.heap.size) (ho : h.heap[i] < h.obs.size), h.obs[h.heap[i]] = i) ∧
    (∀ o (ho : o < h.removed.size), h.removed[o] = true ↔ o ∉ h.heap) := by
  have hinj : ∀ i j (hi : i < h.heap.size) (hj : j < h.heap.size),
      h.heap[i] = h.heap[j] → i = j := by
    intro i j hi hj e
    exact hw.heap_inj (i := i) (j := j) (o := h.heap[i]) (by simp [hi]) (by simp [hj, e])
  refine ⟨hw.obs_size, hw.removed_size, hw.heap_le, hw.small, ?_, hinj, ?_, ?_, ?_⟩
  · intro i hi
    exact hw.lt_of_heap (i := i) (by simp [hi])
  · rw [List.Nodup, List.pairwise_iff_getElem]
    intro i j hi hj hlt e
    simp only [Array.length_toList] at hi hj
    simp only [Array.getElem_toList] at e
    have := hinj i j hi hj e
    omega
  · intro i hi ho
    have := hw.heap_obs i h.heap[i] (by simp [hi])
    rw [Array.getElem?_eq_some_iff] at this
    exact this.2
  · intro o ho
    have ho' : o < h.prio.size := by rw [← hw.removed_size]; exact ho
    have := hw.removed_iff o ho'
    rw [live_iff_mem] at this
    rw [← this]
    simp [ho]

/-- Conversely, the bracket-form facts give `WF` (so `WF` says nothing more). -/
theorem WF.of_bracket {h : Heap α}
    (h1 : h.obs.size = h.prio.size) (h2 : h.removed.size = h.prio.size)
    (h3 : h.heap.size ≤ h.prio.size) (h4 : h.prio.size < 2 ^ 62)
    (h5 : ∀ i (hi : i < h.heap.size), ∃ ho : h.heap[i] < h.obs.size, h.obs[h.heap[i]] = i)
    (h6 : ∀ o (ho : o < h.removed.size), h.removed[o] = true ↔ o ∉ h.heap) : WF h := by
  refine ⟨h1, h2, h3, ?_, ?_, h4⟩
  · intro i o hi
    rw [Array.getElem?_eq_some_iff] at hi
    obtain ⟨hi1, hi2⟩ := hi
    obtain ⟨ho, e⟩ := h5 i hi1
    subst hi2
    simp [ho, e]
  · intro o ho
    have ho' : o < h.removed.size := by rw [h2]; exact ho
    rw [live_iff_mem]
    have := h6 o ho'
    constructor
    · intro hf
      have hf' : h.removed[o] = false := by
        rw [Array.getElem?_eq_some_iff] at hf; exact hf.2
      cases hm : decide (o ∈ h.heap) with
      | true => exact of_decide_eq_true hm
      | false =>
        have := this.mpr (of_decide_eq_false hm)
        rw [hf'] at this; cases this
    · intro hm
      have : ¬ h.removed[o] = true := fun e => (this.mp e) hm
      simp [ho']
      simpa using this

/-- `Ordered` in terms of plain indexing (the index bounds are provided by `WF`). -/
theorem Ordered.bracket {h : Heap α} (hw : WF h) (ho : Ordered h) (i : Nat) (h1 : 1 ≤ i)
    (hi : i < h.heap.size) :
    ∃ (b1 : h.heap[i] < h.prio.size) (b2 : h.heap[(i - 1) / 2]'(by omega) < h.prio.size),
      Num.lt h.prio[h.heap[i]] h.prio[h.heap[(i - 1) / 2]'(by omega)] = false := by
  have hq : (i - 1) / 2 < h.heap.size := by omega
  have e1 : h.heap[i]? = some h.heap[i] := by simp [hi]
  have e2 : h.heap[(i - 1) / 2]? = some h.heap[(i - 1) / 2] := by simp [hq]
  have b1 := hw.lt_of_heap e1
  have b2 := hw.lt_of_heap e2
  refine ⟨b1, b2, ?_⟩
  have := ho i h1 hi
  rwa [hw.key_eq e1 (a := h.prio[h.heap[i]]) (by simp [b1]),
    hw.key_eq e2 (a := h.prio[h.heap[(i - 1) / 2]]) (by simp [b2])] at this

/-- `peek_min` in terms of plain indexing and array membership. -/
theorem peek_min_bracket (L : OrderLaws α) {h : Heap α} (hi : Inv h) {o : Nat}
    (hp : h.peek = some o) (o' : Nat) (hm : o' ∈ h.heap) :
    ∃ (b : o < h.prio.size) (b' : o' < h.prio.size), Num.lt h.prio[o'] h.prio[o] = false := by
  have l' := (live_iff_mem h o').mpr hm
  have b := hi.wf.live_lt (peek_live hp)
  have b' := hi.wf.live_lt l'
  exact ⟨b, b', hi.peek_min L hp o' h.prio[o] h.prio[o'] l' (by simp [b]) (by simp [b'])⟩

/-- `priority` on a live observation, plain indexing. -/
theorem priority_bracket {h : Heap α} (hw : WF h) {o : Nat} (hm : o ∈ h.heap) :
    ∃ b : o < h.prio.size, h.priority o = .ok h.prio[o] := by
  have l := (live_iff_mem h o).mpr hm
  obtain ⟨a, ha, e⟩ := priority_ok hw l
  have b := hw.live_lt l
  refine ⟨b, ?_⟩
  rw [e]
  have : h.prio[o]? = some h.prio[o] := by simp [b]
  rw [this] at ha
  rw [Option.some.inj ha]

end Heap
end Kodama
