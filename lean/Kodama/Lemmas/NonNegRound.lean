/-
Non-negativity of the tables of a greedy run UNDER FLOATING-POINT ROUNDING for the three methods whose
update subtracts (median, centroid, Ward).

The update is `p − q` with `q` at most a fixed fraction of `p` WHEN THE MERGED PAIR IS A CLOSEST PAIR
(`c ≤ a`, `c ≤ b`):
  median    `p = ½(a+b) ≥ c`,                        `q = c/4`;
  centroid  `p = (sa·a+sb·b)/(sa+sb) ≥ c`,           `q = sa·sb·c/(sa+sb)² ≤ c/4`;
  Ward      `p = (sx+sa)·a+(sx+sb)·b ≥ (2sx+sa+sb)·c`, `q = sx·c ≤ p/2`   (numerator of the quotient).
So there is no catastrophic cancellation: a few rounding factors `(1±u)` on `p` and on `q` cannot make
the computed `q` exceed the computed `p`, and the computed difference of two finite numbers `p̂ ≥ q̂ ≥ 0`
is finite and `≥ 0`.

## The rounding model
`Round.SubModel` = the project's standard model `Round.Model` (`Lemmas/RoundModel.lean`: `+ × /` return
the exact result times `(1+δ)`, `|δ| ≤ u`, on finite arguments whose exact result is `0` or has
magnitude in `[lo, hi]`; sizes `≤ N` convert exactly; `<` is the order of the values) PLUS
  * `quarter`     the constant `0.25` is exact;
  * `sub_nonneg`  for finite `a ≥ b ≥ 0`: `a − b` is finite and `≥ 0`.
`sub_nonneg` is true of IEEE arithmetic WITHOUT any range condition (rounding is monotone and
`fl(0) = 0`, so `0 ≤ a − b ≤ a` gives `0 ≤ fl(a − b) ≤ a`; a difference is never subject to harmful
underflow) and follows from the standard-model law for `−` whenever the exact difference is in range
(`sub_nonneg_of_rel`).  Like `Round.Model` it is a HYPOTHESIS (trusted for IEEE binary32/64, not
proved).

## Results
* `runGood_strengthen`   the induction principle: a run-dependent value hypothesis `RunGood G` can be
      strengthened to `RunGood G'` if the initial table is in `G'` and every update OF A CLOSEST PAIR
      (sizes positive, `sa + sb + sx ≤ n`) with `G'` arguments and a `G` result has a `G'` result.
* `SubModel.median_nonneg`, `SubModel.centroid_nonneg`, `SubModel.ward_nonneg`   one update.
* `runGood_nonneg_rounded`   for median / centroid / Ward: if every table value of every greedy run
      of the specification is finite with magnitude `0` or in `[l, h]` (NO overflow / underflow along
      the run — the run-dependent hypothesis of the `generic_with` theorems) then every such value is
      `≥ 0`.
-/
import Kodama.Lemmas.SpecRunGood
import Kodama.Lemmas.GenericGreedySpec
import Kodama.Lemmas.ReduciblePos
import Kodama.Lemmas.RoundModel
import Kodama.Lemmas.WardClamp
import Mathlib.Tactic.Linarith
import Mathlib.Tactic.Ring
import Mathlib.Tactic.Positivity
set_option linter.unusedSectionVars false
namespace Kodama
open Spec

/-! ### The sizes of the live clusters add up to `n` -/

section SizeSum
variable {α : Type} [Num α]

/-- The recorded sizes of the live labels add up to `n`. -/
def SizeSum (n : Nat) (s : NState α) : Prop := (s.live.map s.size).sum = n

theorem init_SizeSum (m : Method) (n : Nat) (data : Array α) : SizeSum n (init m n data) := by
  unfold SizeSum init
  simp

theorem sum_filter_ne (f : Nat → Nat) (l : List Nat) (a : Nat) (hn : l.Nodup) (ha : a ∈ l) :
    ((l.filter (fun x => decide (x ≠ a))).map f).sum + f a = (l.map f).sum := by
  induction l with
  | nil => cases ha
  | cons x r ih =>
    rw [List.nodup_cons] at hn
    obtain ⟨hx, hr⟩ := hn
    rcases List.mem_cons.1 ha with rfl | ha'
    · have : r.filter (fun x => decide (x ≠ a)) = r := by
        apply List.filter_eq_self.2
        intro z hz
        have hza : z ≠ a := by intro h; apply hx; rw [← h]; exact hz
        simp [hza]
      rw [List.filter_cons_of_neg (by simp), this]
      simp only [List.map_cons, List.sum_cons]
      omega
    · have hxa : x ≠ a := by intro h; apply hx; rw [h]; exact ha'
      have := ih hr ha'
      rw [List.filter_cons_of_pos (by simp [hxa])]
      simp only [List.map_cons, List.sum_cons]
      omega

theorem sum_filter_two (f : Nat → Nat) (l : List Nat) (a b : Nat) (hn : l.Nodup) (ha : a ∈ l)
    (hb : b ∈ l) (hab : a ≠ b) :
    ((l.filter (fun x => decide (x ≠ a ∧ x ≠ b))).map f).sum + f a + f b = (l.map f).sum := by
  have e : l.filter (fun x => decide (x ≠ a ∧ x ≠ b))
      = (l.filter (fun x => decide (x ≠ a))).filter (fun x => decide (x ≠ b)) := by
    rw [List.filter_filter]
    congr 1
    funext x
    simp [Bool.and_comm]
  rw [e]
  have h1 := sum_filter_ne f l a hn ha
  have hb' : b ∈ l.filter (fun x => decide (x ≠ a)) := by
    simp [hb]; exact fun h => hab h.symm
  have h2 := sum_filter_ne f _ b (hn.filter _) hb'
  omega

theorem le_sum_of_mem (f : Nat → Nat) (l : List Nat) (x : Nat) (hx : x ∈ l) :
    f x ≤ (l.map f).sum := by
  induction l with
  | nil => cases hx
  | cons y r ih =>
    simp only [List.map_cons, List.sum_cons]
    rcases List.mem_cons.1 hx with rfl | h
    · omega
    · have := ih h; omega

/-- Three distinct live clusters have total size at most `n`. -/
theorem SizeSum.three_le {n : Nat} {s : NState α} (h : SizeSum n s) (hn : s.live.Nodup)
    {a b x : Nat} (ha : a ∈ s.live) (hb : b ∈ s.live) (hx : x ∈ s.live) (hab : a ≠ b)
    (hxa : x ≠ a) (hxb : x ≠ b) : s.size a + s.size b + s.size x ≤ n := by
  have h2 := sum_filter_two s.size s.live a b hn ha hb hab
  have hx' : x ∈ s.live.filter (fun x => decide (x ≠ a ∧ x ≠ b)) := by
    simp [hx, hxa, hxb]
  have := le_sum_of_mem s.size _ x hx'
  unfold SizeSum at h
  omega

theorem merge_SizeSum {m : Method} {n i : Nat} {s : NState α} {a b : Nat} (hi : StInv n i s)
    (ha : a ∈ s.live) (hb : b ∈ s.live) (hab : a ≠ b) (h : SizeSum n s) :
    SizeSum n (merge m s a b) := by
  unfold SizeSum at h ⊢
  show (((s.live.filter _) ++ [s.next]).map (merge m s a b).size).sum = n
  have h2 := sum_filter_two s.size s.live a b hi.nodup ha hb hab
  have e : (s.live.filter (fun x => decide (x ≠ a ∧ x ≠ b))).map (merge m s a b).size
      = (s.live.filter (fun x => decide (x ≠ a ∧ x ≠ b))).map s.size := by
    apply List.map_congr_left
    intro x hx
    have hx1 : x ∈ s.live := (List.mem_filter.1 hx).1
    have hxn : x ≠ s.next := by have := hi.lt x hx1; omega
    rw [merge_size, if_neg hxn]
  rw [List.map_append, List.sum_append, e]
  simp only [List.map_cons, List.map_nil, List.sum_cons, List.sum_nil, merge_size, if_true]
  omega

/-! ### Strengthening a run-dependent value hypothesis -/

/-- **Induction principle.**  If every table value of every greedy run lies in `G`, the initial table
lies in `G'`, and every update of a CLOSEST pair (`c` not above `a`, `b`; positive sizes with
`sa + sb + sx ≤ n`) whose arguments lie in `G'` and whose result lies in `G` has its result in `G'`,
then every table value of every greedy run lies in `G'`. -/
theorem runGood_strengthen {G G' : α → Prop} {m : Method} {n : Nat} {data : Array α}
    (hrun : RunGood G m n data) (h0 : TableGood G' (init m n data))
    (hstep : ∀ (a b c : α) (sa sb sx : Nat), 0 < sa → 0 < sb → 0 < sx → sa + sb + sx ≤ n →
      G' a → G' b → G' c → Num.lt a c = false → Num.lt b c = false →
      G (lw m a b c sa sb sx) → G' (lw m a b c sa sb sx)) :
    RunGood G' m n data := by
  have key : ∀ (l : List (Step α)) (s : NState α) (i : Nat), StInv n i s → SizePos s →
      SizeSum n s → TableGood G' s →
      (∀ l', GreedyFrom m s l' → TableGood G (replay m s l')) →
      GreedyFrom m s l → TableGood G' (replay m s l) := by
    intro l
    induction l with
    | nil => intro s i _ _ _ ht _ _; exact ht
    | cons st r ih =>
      intro s i hi hp hsum ht hG hg
      obtain ⟨ha, hr⟩ := hg
      simp only [replay]
      have h1 := ha.1
      have h2 := ha.2.1
      have h3 := ha.2.2.1
      have hmin := ha.2.2.2.1
      have h12 : st.c1 ≠ st.c2 := by omega
      have hG1 : TableGood G (merge m s st.c1 st.c2) := hG [st] ⟨ha, trivial⟩
      have hnext : s.next ∈ (merge m s st.c1 st.c2).live :=
        (mem_merge_live m s _ _ _).2 (Or.inr rfl)
      have upd : ∀ x ∈ s.live, x ≠ st.c1 → x ≠ st.c2 →
          G' (lw m (s.D st.c1 x) (s.D st.c2 x) (s.D st.c1 st.c2) (s.size st.c1) (s.size st.c2)
            (s.size x)) := by
        intro x hx hx1 hx2
        have hxn : x ≠ s.next := by have := hi.lt x hx; omega
        have hxl : x ∈ (merge m s st.c1 st.c2).live :=
          (mem_merge_live m s _ _ _).2 (Or.inl ⟨hx, hx1, hx2⟩)
        have hg := hG1 s.next hnext x hxl (Ne.symm hxn)
        rw [merge_D, if_pos rfl] at hg
        exact hstep _ _ _ _ _ _ (hp _ h1) (hp _ h2) (hp _ hx)
          (hsum.three_le hi.nodup h1 h2 hx h12 hx1 hx2)
          (ht _ h1 x hx (Ne.symm hx1)) (ht _ h2 x hx (Ne.symm hx2)) (ht _ h1 _ h2 h12)
          (hmin _ h1 x hx (Ne.symm hx1)) (hmin _ h2 x hx (Ne.symm hx2)) hg
      have ht' : TableGood G' (merge m s st.c1 st.c2) := by
        intro x hx y hy hxy
        rw [merge_D]
        rcases (mem_merge_live m s _ _ x).1 hx with ⟨hx1, hx2, hx3⟩ | hx1
        · have hxn : x ≠ s.next := by have := hi.lt x hx1; omega
          rcases (mem_merge_live m s _ _ y).1 hy with ⟨hy1, hy2, hy3⟩ | hy1
          · have hyn : y ≠ s.next := by have := hi.lt y hy1; omega
            rw [if_neg hxn, if_neg hyn]
            exact ht x hx1 y hy1 hxy
          · rw [if_neg hxn, if_pos hy1]
            exact upd x hx1 hx2 hx3
        · rcases (mem_merge_live m s _ _ y).1 hy with ⟨hy1, hy2, hy3⟩ | hy1
          · rw [if_pos hx1]
            exact upd y hy1 hy2 hy3
          · exact absurd (hx1.trans hy1.symm) hxy
      exact ih _ (i + 1) (merge_StInv hi ha) (merge_SizePos h1 hi.lt hp)
        (merge_SizeSum hi h1 h2 h12 hsum) ht'
        (fun l' hl' => hG (st :: l') ⟨ha, hl'⟩) hr
  intro l hg x hx y hy hxy
  exact key l _ 0 (init_StInv m n data) (init_SizePos m n data) (init_SizeSum m n data) h0
    (fun l' hl' => hrun l' hl') hg x hx y hy hxy

end SizeSum

/-! ### The rounding model with subtraction -/

namespace Round
variable {K : Type} [Field K] [LinearOrder K] [IsStrictOrderedRing K]

/-- The standard model extended to the two operations the subtracting formulas use: `−` obeys the same
law as `+ × /`, and the constant `0.25` is exact. -/
structure SubModel {α : Type} [Num α] (val : α → K) (fin : α → Prop) (u lo hi : K) (N : Nat) :
    Prop extends Model val fin u lo hi N where
  sub : ∀ a b, fin a → fin b → InRange lo hi (val a - val b) →
    fin (Num.sub a b) ∧ ∃ δ : K, |δ| ≤ u ∧ val (Num.sub a b) = (val a - val b) * (1 + δ)
  quarter : fin (Num.quarter : α) ∧ val (Num.quarter : α) = 1 / 4

/-! #### intervals -/

/-- `x = 0 ∨ l ≤ x ≤ h` scaled by a positive constant. -/
theorem In0.scale {l h x c : K} (hc : 0 < c) (hx : In0 l h x) : In0 (c * l) (c * h) (c * x) := by
  rcases hx with h0 | ⟨a, b⟩
  · exact Or.inl (by rw [h0, mul_zero])
  · exact Or.inr ⟨mul_le_mul_of_nonneg_left a hc.le, mul_le_mul_of_nonneg_left b hc.le⟩

theorem In0.of_inRange {l h x : K} (hx : InRange l h x) (h0 : 0 ≤ x) : In0 l h x := by
  rcases hx with hz | hr
  · exact Or.inl hz
  · rw [abs_of_nonneg h0] at hr; exact Or.inr hr

/-- Multiplication by a factor `s ∈ [1, m]`. -/
theorem In0.mulc {l h x s m : K} (hl : 0 ≤ l) (h1 : 1 ≤ s) (h2 : s ≤ m) (hx : In0 l h x) :
    In0 l (m * h) (s * x) := by
  rcases hx with h0 | ⟨a, b⟩
  · exact Or.inl (by rw [h0, mul_zero])
  · have hx0 : 0 ≤ x := le_trans hl a
    refine Or.inr ⟨?_, mul_le_mul h2 b hx0 (by linarith)⟩
    calc l ≤ x := a
      _ = 1 * x := (one_mul x).symm
      _ ≤ s * x := mul_le_mul_of_nonneg_right h1 hx0

/-- Division by a divisor `s ∈ [1, m]`. -/
theorem In0.divc {l h x s m : K} (hl : 0 ≤ l) (h1 : 1 ≤ s) (h2 : s ≤ m) (hx : In0 l h x) :
    In0 (l / m) h (x / s) := by
  have hs : 0 < s := by linarith
  have hm : 0 < m := by linarith
  rcases hx with h0 | ⟨a, b⟩
  · exact Or.inl (by rw [h0, zero_div])
  · have hx0 : 0 ≤ x := le_trans hl a
    refine Or.inr ⟨?_, ?_⟩
    · rw [div_le_div_iff₀ hm hs]
      exact mul_le_mul a h2 hs.le hx0
    · rw [div_le_iff₀ hs]
      calc x ≤ h := b
        _ = h * 1 := (mul_one h).symm
        _ ≤ h * s := mul_le_mul_of_nonneg_left h1 (le_trans hx0 b)

/-- The product of two `Near` pairs. -/
theorem Near.mul' {u A B x y : K} {k j : Nat} (hu : u < 1) (hA : 0 ≤ A) (hB : 0 ≤ B)
    (h1 : Near u k A x) (h2 : Near u j B y) : Near u (k + j) (A * B) (x * y) := by
  have hx := h1.nonneg hu hA
  have hy := h2.nonneg hu hB
  have hpk := pow_w_pos hu k
  have hpj := pow_w_pos hu j
  constructor
  · rw [pow_add]
    calc A * B * ((1 - u) ^ k * (1 - u) ^ j) = (A * (1 - u) ^ k) * (B * (1 - u) ^ j) := by ring
      _ ≤ x * y := mul_le_mul h1.1 h2.1 (mul_nonneg hB hpj.le) hx
  · rw [pow_add]
    calc x * y * ((1 - u) ^ k * (1 - u) ^ j) = (x * (1 - u) ^ k) * (y * (1 - u) ^ j) := by ring
      _ ≤ A * B := mul_le_mul h1.2 h2.2 (mul_nonneg hy hpj.le) hA

/-- A value within `k` factors of a quantity in `{0} ∪ [L, H]` lies in `{0} ∪ [L·w^k, H/w^k]`. -/
theorem near_in0 {u L H X z : K} {k : Nat} (hu : u < 1) (_hL : 0 ≤ L) (hn : Near u k X z)
    (r : In0 L H X) : In0 (L * (1 - u) ^ k) (H / (1 - u) ^ k) z := by
  have hp := pow_w_pos hu k
  rcases r with hz | ⟨r1, r2⟩
  · subst hz; exact Or.inl (hn.eq_zero hu)
  · refine Or.inr ⟨le_trans (mul_le_mul_of_nonneg_right r1 hp.le) hn.1, ?_⟩
    rw [le_div_iff₀ hp]
    exact le_trans hn.2 r2

/-- The range bookkeeping: every exact intermediate quantity is `0` or in `[Lm, Hm]`, and `[Lm, Hm]`
widened by 8 rounding factors stays inside the normal range `[lo, hi]`. -/
structure Rng (u lo hi Lm Hm : K) : Prop where
  Lm_pos : 0 < Lm
  Lm_le : Lm ≤ Hm
  lo_le : lo ≤ Lm * (1 - u) ^ 8
  hi_ge : Hm ≤ hi * (1 - u) ^ 8

theorem Rng.hi_pos {u lo hi Lm Hm : K} (R : Rng u lo hi Lm Hm) (hu : u < 1) : 0 < hi := by
  have p8 := pow_w_pos hu 8
  have : 0 < hi * (1 - u) ^ 8 := lt_of_lt_of_le (lt_of_lt_of_le R.Lm_pos R.Lm_le) R.hi_ge
  by_contra hneg
  have := mul_nonpos_of_nonpos_of_nonneg (not_lt.mp hneg) p8.le
  linarith

/-- `lo·4 ≤ L·w^k` whenever `Lm·4 ≤ L`, `k ≤ 8`. -/
theorem Rng.lo4 {u lo hi Lm Hm L : K} (R : Rng u lo hi Lm Hm) (h0 : 0 ≤ u) (hu : u < 1) {k : Nat}
    (hk : k ≤ 8) (hL : Lm * 4 ≤ L) : lo * 4 ≤ L * (1 - u) ^ k := by
  have pk := pow_w_pos hu k
  have w8k : (1 - u) ^ 8 ≤ (1 - u) ^ k := pow_w_anti h0 hu hk
  have e1 := R.lo_le
  have e2 : Lm * (1 - u) ^ 8 ≤ Lm * (1 - u) ^ k := mul_le_mul_of_nonneg_left w8k R.Lm_pos.le
  have e3 : Lm * 4 * (1 - u) ^ k ≤ L * (1 - u) ^ k := mul_le_mul_of_nonneg_right hL pk.le
  linarith

/-- `H/w^k ≤ hi` whenever `H ≤ Hm`, `k ≤ 8`. -/
theorem Rng.hik {u lo hi Lm Hm H : K} (R : Rng u lo hi Lm Hm) (h0 : 0 ≤ u) (hu : u < 1) {k : Nat}
    (hk : k ≤ 8) (hH : H ≤ Hm) : H / (1 - u) ^ k ≤ hi := by
  have pk := pow_w_pos hu k
  have w8k : (1 - u) ^ 8 ≤ (1 - u) ^ k := pow_w_anti h0 hu hk
  rw [div_le_iff₀ pk]
  have e2 : hi * (1 - u) ^ 8 ≤ hi * (1 - u) ^ k := mul_le_mul_of_nonneg_left w8k (R.hi_pos hu).le
  linarith [R.hi_ge]

theorem near_inRange {u lo hi Lm Hm X z : K} {k : Nat} (h0 : 0 ≤ u) (hu : u < 1)
    (R : Rng u lo hi Lm Hm) (hn : Near u k X z) (hk : k ≤ 8) (r : In0 Lm Hm X) :
    InRange lo hi z := by
  rcases r with hz | ⟨r1, r2⟩
  · subst hz; exact Or.inl (hn.eq_zero hu)
  · have hX0 : 0 ≤ X := le_trans R.Lm_pos.le r1
    have hn8 := hn.mono h0 hu hX0 hk
    have hz0 := hn8.nonneg hu hX0
    have p8 := pow_w_pos hu 8
    refine Or.inr ?_
    rw [abs_of_nonneg hz0]
    refine ⟨le_trans R.lo_le (le_trans (mul_le_mul_of_nonneg_right r1 p8.le) hn8.1), ?_⟩
    have : z * (1 - u) ^ 8 ≤ hi * (1 - u) ^ 8 := le_trans hn8.2 (le_trans r2 R.hi_ge)
    exact le_of_mul_le_mul_right this p8

/-! #### computed values -/

/-- `x` is a finite computed value within `k` rounding factors of the exact quantity `X ≥ 0`. -/
structure Ap {α : Type} [Num α] (val : α → K) (fin : α → Prop) (u : K) (k : Nat) (X : K) (x : α) :
    Prop where
  f : fin x
  nn : 0 ≤ X
  near : Near u k X (val x)

theorem Ap.val_nonneg {α : Type} [Num α] {val : α → K} {fin : α → Prop} {u : K} {x : α} {X : K}
    {k : Nat} (hu : u < 1) (h : Ap val fin u k X x) : 0 ≤ val x := h.near.nonneg hu h.nn

theorem Ap.mono {α : Type} [Num α] {val : α → K} {fin : α → Prop} {u : K} {x : α} {X : K}
    {k j : Nat} (h0 : 0 ≤ u) (hu : u < 1) (h : Ap val fin u k X x) (hkj : k ≤ j) :
    Ap val fin u j X x := ⟨h.f, h.nn, h.near.mono h0 hu h.nn hkj⟩

namespace Model
variable {α : Type} [Num α] {val : α → K} {fin : α → Prop} {u lo hi Lm Hm : K} {N : Nat}

theorem ap_exact {x : α} (fx : fin x) (h : 0 ≤ val x) : Ap val fin u 0 (val x) x :=
  ⟨fx, h, Near.refl u _⟩

theorem ap_ofNat (RM : Model val fin u lo hi N) {k : Nat} (hk : k ≤ N) :
    Ap val fin u 0 (k : K) (Num.ofNat k : α) := by
  obtain ⟨f, v⟩ := RM.ofNat k hk
  exact ⟨f, Nat.cast_nonneg k, by rw [v]; exact Near.refl u _⟩

theorem ap_half (RM : Model val fin u lo hi N) : Ap val fin u 0 (1 / 2) (Num.half : α) := by
  obtain ⟨f, v⟩ := RM.half
  exact ⟨f, by norm_num, by rw [v]; exact Near.refl u _⟩

theorem ap_mul (RM : Model val fin u lo hi N) (R : Rng u lo hi Lm Hm) {x y : α} {X Y : K}
    {k j : Nat} (hx : Ap val fin u k X x) (hy : Ap val fin u j Y y) (hkj : k + j ≤ 8)
    (r : In0 Lm Hm (X * Y)) : Ap val fin u (k + j + 1) (X * Y) (Num.mul x y) := by
  have h0 := RM.u_nonneg
  have hu := RM.u_lt_one
  have hn := Near.mul' hu hx.nn hy.nn hx.near hy.near
  obtain ⟨f, δ, hδ, e⟩ := RM.mul x y hx.f hy.f (near_inRange h0 hu R hn hkj r)
  refine ⟨f, mul_nonneg hx.nn hy.nn, ?_⟩
  rw [e]; exact hn.round h0 hu (mul_nonneg hx.nn hy.nn) hδ

theorem ap_add (RM : Model val fin u lo hi N) (R : Rng u lo hi Lm Hm) {x y : α} {X Y : K}
    {k : Nat} (hx : Ap val fin u k X x) (hy : Ap val fin u k Y y) (hk : k ≤ 8)
    (r : In0 Lm Hm (X + Y)) : Ap val fin u (k + 1) (X + Y) (Num.add x y) := by
  have h0 := RM.u_nonneg
  have hu := RM.u_lt_one
  have hn := hx.near.add hy.near
  obtain ⟨f, δ, hδ, e⟩ := RM.add x y hx.f hy.f (near_inRange h0 hu R hn hk r)
  refine ⟨f, add_nonneg hx.nn hy.nn, ?_⟩
  rw [e]; exact hn.round h0 hu (add_nonneg hx.nn hy.nn) hδ

theorem ap_div (RM : Model val fin u lo hi N) (R : Rng u lo hi Lm Hm) {x y : α} {X Y : K}
    {k j : Nat} (hx : Ap val fin u k X x) (hy : Ap val fin u j Y y) (hY : 0 < Y)
    (hkj : k + j ≤ 8) (r : In0 Lm Hm (X / Y)) :
    Ap val fin u (k + j + 1) (X / Y) (Num.div x y) := by
  have h0 := RM.u_nonneg
  have hu := RM.u_lt_one
  have hn := hx.near.div hu hx.nn hY hy.near
  have hy0 : val y ≠ 0 := ne_of_gt (hy.near.pos hu hY)
  obtain ⟨f, δ, hδ, e⟩ := RM.div x y hx.f hy.f hy0 (near_inRange h0 hu R hn hkj r)
  refine ⟨f, div_nonneg hx.nn hY.le, ?_⟩
  rw [e]; exact hn.round h0 hu (div_nonneg hx.nn hY.le) hδ

end Model

namespace SubModel
variable {α : Type} [Num α] {val : α → K} {fin : α → Prop} {u lo hi Lm Hm : K} {N : Nat}

theorem ap_quarter (RM : SubModel val fin u lo hi N) :
    Ap val fin u 0 (1 / 4) (Num.quarter : α) := by
  obtain ⟨f, v⟩ := RM.quarter
  exact ⟨f, by norm_num, by rw [v]; exact Near.refl u _⟩

/-- **Subtraction without catastrophic cancellation**: if the computed subtrahend is at most `3/4` of
the computed minuend, the computed difference is finite, non-negative, and of the magnitude of the
minuend. -/
theorem sub_frac (RM : SubModel val fin u lo hi N) {x y : α} {Lx Hx : K} (fx : fin x)
    (fy : fin y) (y0 : 0 ≤ val y) (hfrac : val y ≤ 3 / 4 * val x) (rx : In0 Lx Hx (val x))
    (hLx : 0 < Lx) (hlo : lo * 4 ≤ Lx) (hhi : Hx ≤ hi) :
    fin (Num.sub x y) ∧ In0 (Lx / 4 * (1 - u)) (Hx / (1 - u)) (val (Num.sub x y)) := by
  have h0 := RM.u_nonneg
  have hu := RM.u_lt_one
  have rd : In0 (Lx / 4) Hx (val x - val y) := by
    rcases rx with hz | ⟨r1, r2⟩
    · refine Or.inl ?_
      rw [hz] at hfrac ⊢
      have : val y = 0 := le_antisymm (by linarith) y0
      rw [this]; ring
    · exact Or.inr ⟨by linarith, by linarith⟩
  obtain ⟨f, δ, hδ, e⟩ := RM.sub x y fx fy
    (rd.inRange (by positivity) (by linarith) hhi)
  refine ⟨f, ?_⟩
  rw [e]; exact rd.round h0 hu (by positivity) hδ

/-- `1/3 ≤ (1−u)^10` for `u ≤ 1/16`. -/
theorem third_le_pow {u : K} (hu16 : u ≤ 1 / 16) {e : Nat} (he : e ≤ 10) :
    (1 : K) / 3 ≤ (1 - u) ^ e := by
  have h1 : (15 : K) / 16 ≤ 1 - u := by linarith
  have h2 : ((15 : K) / 16) ^ 10 ≤ ((15 : K) / 16) ^ e :=
    pow_le_pow_of_le_one (by norm_num) (by norm_num) he
  have h3 : ((15 : K) / 16) ^ e ≤ (1 - u) ^ e := pow_le_pow_left₀ (by norm_num) h1 e
  have h4 : (1 : K) / 3 ≤ ((15 : K) / 16) ^ 10 := by norm_num
  linarith

/-- `2/3 ≤ (1−u)^4` for `u ≤ 1/16`. -/
theorem two_thirds_le_pow {u : K} (hu16 : u ≤ 1 / 16) {e : Nat} (he : e ≤ 4) :
    (2 : K) / 3 ≤ (1 - u) ^ e := by
  have h1 : (15 : K) / 16 ≤ 1 - u := by linarith
  have h2 : ((15 : K) / 16) ^ 4 ≤ ((15 : K) / 16) ^ e :=
    pow_le_pow_of_le_one (by norm_num) (by norm_num) he
  have h3 : ((15 : K) / 16) ^ e ≤ (1 - u) ^ e := pow_le_pow_left₀ (by norm_num) h1 e
  have h4 : (2 : K) / 3 ≤ ((15 : K) / 16) ^ 4 := by norm_num
  linarith

/-- From bounds up to rounding factors to `q ≤ ¾·p`: if `q·w^e ≤ κ·T`, `T·w^e' ≤ p` and
`κ ≤ ¾·w^(e+e')`. -/
theorem frac_of {u q p T κ : K} {e e' : Nat} (hu : u < 1) (p0 : 0 ≤ p)
    (hq : q * (1 - u) ^ e ≤ κ * T) (hp : T * (1 - u) ^ e' ≤ p) (hκ0 : 0 ≤ κ)
    (hκ : κ ≤ 3 / 4 * (1 - u) ^ (e + e')) : q ≤ 3 / 4 * p := by
  have pe' := pow_w_pos hu e'
  have pee := pow_w_pos hu (e + e')
  have h1 : q * (1 - u) ^ (e + e') ≤ κ * p := by
    rw [pow_add]
    calc q * ((1 - u) ^ e * (1 - u) ^ e') = (q * (1 - u) ^ e) * (1 - u) ^ e' := by ring
      _ ≤ κ * T * (1 - u) ^ e' := mul_le_mul_of_nonneg_right hq pe'.le
      _ = κ * (T * (1 - u) ^ e') := by ring
      _ ≤ κ * p := mul_le_mul_of_nonneg_left hp hκ0
  have h2 : κ * p ≤ 3 / 4 * (1 - u) ^ (e + e') * p := mul_le_mul_of_nonneg_right hκ p0
  have h3 : q * (1 - u) ^ (e + e') ≤ (3 / 4 * p) * (1 - u) ^ (e + e') := by linarith
  exact le_of_mul_le_mul_right h3 pee

/-- **Median**: `½(a+b) − c/4` computed with rounding is finite and `≥ 0` when `c ≤ a, b`. -/
theorem median_nonneg (RM : SubModel val fin u lo hi N) (hu16 : u ≤ 1 / 16) {a b c : α}
    {l h : K} (fa : fin a) (fb : fin b) (fc : fin c) (hl : 0 < l) (hlh : l ≤ h)
    (ra : In0 l h (val a)) (rb : In0 l h (val b)) (rc : In0 l h (val c))
    (hca : val c ≤ val a) (hcb : val c ≤ val b)
    (R : Rng u lo hi Lm Hm) (hLm : Lm * 8 ≤ l) (hHm : 2 * h ≤ Hm) :
    fin (Gen.median a b c) ∧ 0 ≤ val (Gen.median a b c) := by
  have h0 := RM.u_nonneg
  have hu := RM.u_lt_one
  have hw : 0 < 1 - u := by linarith
  have hLp := R.Lm_pos
  have a0 := ra.nonneg hl.le
  have b0 := rb.nonneg hl.le
  have c0 := rc.nonneg hl.le
  have hh0 : 0 ≤ h := le_trans hl.le hlh
  have Aa := Model.ap_exact (u := u) fa a0
  have Ab := Model.ap_exact (u := u) fb b0
  have Ac := Model.ap_exact (u := u) fc c0
  have rab : In0 l (h + h) (val a + val b) := ra.add hl.le hh0 hh0 rb
  -- s = a + b, p = half * s, q = c * quarter
  have As : Ap val fin u 1 (val a + val b) (Num.add a b) :=
    RM.ap_add R Aa Ab (by norm_num) (rab.weaken (by linarith) (by linarith))
  have rp : In0 (1 / 2 * l) (1 / 2 * (h + h)) (1 / 2 * (val a + val b)) :=
    rab.scale (c := 1 / 2) (by norm_num)
  have Ap' : Ap val fin u 2 (1 / 2 * (val a + val b)) (Num.mul (Num.half : α) (Num.add a b)) :=
    RM.ap_mul R RM.ap_half As (by norm_num) (rp.weaken (by linarith) (by linarith))
  have rq : In0 (1 / 4 * l) (1 / 4 * h) (val c * (1 / 4)) := by
    have e : val c * (1 / 4 : K) = 1 / 4 * val c := mul_comm _ _
    rw [e]; exact rc.scale (c := 1 / 4) (by norm_num)
  have Aq : Ap val fin u 1 (val c * (1 / 4)) (Num.mul c (Num.quarter : α)) :=
    RM.ap_mul R Ac RM.ap_quarter (by norm_num) (rq.weaken (by linarith) (by linarith))
  have q0 := Aq.val_nonneg hu
  have hfrac : val (Num.mul c (Num.quarter : α)) ≤
      3 / 4 * val (Num.mul (Num.half : α) (Num.add a b)) := by
    refine frac_of (T := val c) (κ := 1 / 4) (e := 1) (e' := 2) hu (Ap'.val_nonneg hu) ?_ ?_
      (by norm_num) ?_
    · have := Aq.near.2; linarith
    · have hcp : val c ≤ 1 / 2 * (val a + val b) := by linarith
      exact le_trans (mul_le_mul_of_nonneg_right hcp (pow_w_pos hu 2).le) Ap'.near.1
    · have := third_le_pow hu16 (e := 1 + 2) (by norm_num); linarith
  have rpv := near_in0 hu (by positivity) Ap'.near rp
  obtain ⟨fr, rr⟩ := RM.sub_frac Ap'.f Aq.f q0 hfrac rpv (by positivity)
    (R.lo4 h0 hu (by norm_num) (by linarith)) (R.hik h0 hu (by norm_num) (by linarith))
  exact ⟨fr, rr.nonneg (by positivity)⟩

/-! #### exact inequalities used below (kept in small contexts so that the arithmetic tactics are
fast) -/

theorem le_sq_of_two_le {m : K} (h : 2 ≤ m) : m ≤ m * m :=
  le_mul_of_one_le_left (by linarith) (by linarith)

theorem one_le_sq_of_two_le {m : K} (h : 2 ≤ m) : 1 ≤ m * m :=
  le_trans (by linarith) (le_sq_of_two_le h)

theorem lm_facts {Lm l m : K} (hL : 0 < Lm) (hm : 2 ≤ m) (h : Lm * (4 * (m * m)) ≤ l) :
    Lm ≤ l ∧ Lm * m ≤ l ∧ Lm * (m * m) ≤ l ∧ Lm * 4 * m ≤ l := by
  have h1 := le_sq_of_two_le hm
  have h2 := one_le_sq_of_two_le hm
  have e1 : Lm * 1 ≤ Lm * (4 * (m * m)) := mul_le_mul_of_nonneg_left (by linarith) hL.le
  have e2 : Lm * m ≤ Lm * (4 * (m * m)) := mul_le_mul_of_nonneg_left (by linarith) hL.le
  have e3 : Lm * (m * m) ≤ Lm * (4 * (m * m)) := mul_le_mul_of_nonneg_left (by linarith) hL.le
  have e4 : Lm * (4 * m) ≤ Lm * (4 * (m * m)) := mul_le_mul_of_nonneg_left (by linarith) hL.le
  refine ⟨by linarith, by linarith, by linarith, ?_⟩
  have : Lm * 4 * m = Lm * (4 * m) := by ring
  linarith

theorem amgm_quarter {x y c : K} (c0 : 0 ≤ c) :
    x * y * c ≤ 1 / 4 * c * ((x + y) * (x + y)) := by
  have := mul_nonneg c0 (sq_nonneg (x - y))
  nlinarith

theorem mean_ge {x y a b c : K} (hx : 0 ≤ x) (hy : 0 ≤ y) (ha : c ≤ a) (hb : c ≤ b) :
    c * (x + y) ≤ x * a + y * b := by
  have e1 := mul_le_mul_of_nonneg_left ha hx
  have e2 := mul_le_mul_of_nonneg_left hb hy
  linarith

theorem ward_half {sx sa sb a b c : K} (hx : 0 ≤ sx) (hsa : 0 ≤ sa) (hsb : 0 ≤ sb) (a0 : 0 ≤ a)
    (b0 : 0 ≤ b) (ha : c ≤ a) (hb : c ≤ b) :
    sx * c ≤ 1 / 2 * ((sx + sa) * a + (sx + sb) * b) := by
  have e1 := mul_le_mul_of_nonneg_left ha hx
  have e2 := mul_le_mul_of_nonneg_left hb hx
  have e3 := mul_nonneg hsa a0
  have e4 := mul_nonneg hsb b0
  have : (sx + sa) * a + (sx + sb) * b = sx * a + sx * b + sa * a + sb * b := by ring
  rw [this]; linarith

/-- **Centroid**: `(sa·a+sb·b)/(sa+sb) − sa·sb·c/(sa+sb)²` computed with rounding is finite and `≥ 0`
when `c ≤ a, b` (`m` bounds the sizes: `sa + sb ≤ m`). -/
theorem centroid_nonneg (RM : SubModel val fin u lo hi N) (hu16 : u ≤ 1 / 16) {a b c : α}
    {sa sb : Nat} {l h m : K} (fa : fin a) (fb : fin b) (fc : fin c) (hl : 0 < l) (hlh : l ≤ h)
    (ra : In0 l h (val a)) (rb : In0 l h (val b)) (rc : In0 l h (val c))
    (hca : val c ≤ val a) (hcb : val c ≤ val b)
    (hsa : 0 < sa) (hsb : 0 < sb) (hN : sa + sb ≤ N) (hm : (sa : K) + (sb : K) ≤ m)
    (R : Rng u lo hi Lm Hm) (hLm1 : Lm ≤ 1) (hLm2 : Lm * (4 * (m * m)) ≤ l)
    (hHm1 : m * m ≤ Hm) (hHm2 : 2 * (m * m * h) ≤ Hm) :
    fin (Gen.centroid a b c sa sb) ∧ 0 ≤ val (Gen.centroid a b c sa sb) := by
  have h0 := RM.u_nonneg
  have hu := RM.u_lt_one
  have hLp := R.Lm_pos
  have a0 := ra.nonneg hl.le
  have b0 := rb.nonneg hl.le
  have c0 := rc.nonneg hl.le
  have hh0 : 0 ≤ h := le_trans hl.le hlh
  have hSa1 : (1 : K) ≤ (sa : K) := by exact_mod_cast hsa
  have hSb1 : (1 : K) ≤ (sb : K) := by exact_mod_cast hsb
  have hS2 : (2 : K) ≤ (sa : K) + (sb : K) := by linarith
  have hm2 : (2 : K) ≤ m := by linarith
  have hm0 : (0 : K) < m := by linarith
  have hmm : m ≤ m * m := le_sq_of_two_le hm2
  have hSam : (sa : K) ≤ m := by linarith
  have hSbm : (sb : K) ≤ m := by linarith
  have hmh : m * h ≤ m * m * h := mul_le_mul_of_nonneg_right hmm hh0
  obtain ⟨hLml, hLmm, hLmmm, hLm4m⟩ := lm_facts hLp hm2 hLm2
  have hSS1 : (1 : K) ≤ ((sa : K) + (sb : K)) * ((sa : K) + (sb : K)) :=
    one_le_sq_of_two_le hS2
  have hSSm : ((sa : K) + (sb : K)) * ((sa : K) + (sb : K)) ≤ m * m :=
    mul_le_mul hm hm (by linarith) (by linarith)
  have hP1 : (1 : K) ≤ (sa : K) * (sb : K) := one_le_mul_of_one_le_of_one_le hSa1 hSb1
  have hPm : (sa : K) * (sb : K) ≤ m * m := mul_le_mul hSam hSbm (by linarith) (by linarith)
  have Aa := Model.ap_exact (u := u) fa a0
  have Ab := Model.ap_exact (u := u) fb b0
  have Ac := Model.ap_exact (u := u) fc c0
  have Csa : Ap val fin u 0 (sa : K) (Num.ofNat sa : α) := RM.ap_ofNat (by omega)
  have Csb : Ap val fin u 0 (sb : K) (Num.ofNat sb : α) := RM.ap_ofNat (by omega)
  -- size_ab
  have Asab : Ap val fin u 1 ((sa : K) + (sb : K)) (Num.add (Num.ofNat sa : α) (Num.ofNat sb)) :=
    RM.ap_add R Csa Csb (by norm_num) (Or.inr ⟨by linarith, by linarith⟩)
  -- first term
  have r1 : In0 l (m * h) ((sa : K) * val a) := ra.mulc hl.le hSa1 hSam
  have r2 : In0 l (m * h) ((sb : K) * val b) := rb.mulc hl.le hSb1 hSbm
  have t1 : Ap val fin u 1 ((sa : K) * val a) (Num.mul (Num.ofNat sa : α) a) :=
    RM.ap_mul R Csa Aa (by norm_num) (r1.weaken hLml (by linarith))
  have t2 : Ap val fin u 1 ((sb : K) * val b) (Num.mul (Num.ofNat sb : α) b) :=
    RM.ap_mul R Csb Ab (by norm_num) (r2.weaken hLml (by linarith))
  have r3 : In0 l (m * h + m * h) ((sa : K) * val a + (sb : K) * val b) :=
    r1.add hl.le (by positivity) (by positivity) r2
  have t3 : Ap val fin u 2 ((sa : K) * val a + (sb : K) * val b)
      (Num.add (Num.mul (Num.ofNat sa : α) a) (Num.mul (Num.ofNat sb : α) b)) :=
    RM.ap_add R t1 t2 (by norm_num) (r3.weaken hLml (by linarith))
  have rP : In0 (l / m) (m * h + m * h)
      (((sa : K) * val a + (sb : K) * val b) / ((sa : K) + (sb : K))) :=
    r3.divc hl.le (by linarith) hm
  have Pp : Ap val fin u 4 (((sa : K) * val a + (sb : K) * val b) / ((sa : K) + (sb : K)))
      (Num.div (Num.add (Num.mul (Num.ofNat sa : α) a) (Num.mul (Num.ofNat sb : α) b))
        (Num.add (Num.ofNat sa : α) (Num.ofNat sb))) :=
    RM.ap_div R t3 Asab (by linarith) (by norm_num)
    (rP.weaken (by rw [le_div_iff₀ (by linarith)]; exact hLmm) (by linarith))
  -- second term
  have w1 : Ap val fin u 1 ((sa : K) * (sb : K)) (Num.mul (Num.ofNat sa : α) (Num.ofNat sb)) :=
    RM.ap_mul R Csa Csb (by norm_num) (Or.inr ⟨by linarith, by linarith⟩)
  have r5 : In0 l (m * m * h) ((sa : K) * (sb : K) * val c) := rc.mulc hl.le hP1 hPm
  have w2 : Ap val fin u 2 ((sa : K) * (sb : K) * val c)
      (Num.mul (Num.mul (Num.ofNat sa : α) (Num.ofNat sb)) c) :=
    RM.ap_mul R w1 Ac (by norm_num) (r5.weaken hLml (by linarith))
  have w3 : Ap val fin u 3 (((sa : K) + (sb : K)) * ((sa : K) + (sb : K)))
      (Num.mul (Num.add (Num.ofNat sa : α) (Num.ofNat sb))
        (Num.add (Num.ofNat sa : α) (Num.ofNat sb))) :=
    RM.ap_mul R Asab Asab (by norm_num) (Or.inr ⟨by linarith, by linarith⟩)
  have rQ : In0 (l / (m * m)) (m * m * h) ((sa : K) * (sb : K) * val c /
      (((sa : K) + (sb : K)) * ((sa : K) + (sb : K)))) := r5.divc hl.le hSS1 hSSm
  have Qq : Ap val fin u 6 ((sa : K) * (sb : K) * val c /
        (((sa : K) + (sb : K)) * ((sa : K) + (sb : K))))
      (Num.div (Num.mul (Num.mul (Num.ofNat sa : α) (Num.ofNat sb)) c)
        (Num.mul (Num.add (Num.ofNat sa : α) (Num.ofNat sb))
          (Num.add (Num.ofNat sa : α) (Num.ofNat sb)))) :=
    RM.ap_div R w2 w3 (by linarith) (by norm_num)
    (rQ.weaken (by rw [le_div_iff₀ (mul_pos hm0 hm0)]; exact hLmmm) (by linarith))
  have q0 := Qq.val_nonneg hu
  -- the comparison
  have hSpos : (0 : K) < (sa : K) + (sb : K) := by linarith
  have hfrac : val (Num.div (Num.mul (Num.mul (Num.ofNat sa : α) (Num.ofNat sb)) c)
        (Num.mul (Num.add (Num.ofNat sa : α) (Num.ofNat sb))
          (Num.add (Num.ofNat sa : α) (Num.ofNat sb)))) ≤
      3 / 4 * val (Num.div (Num.add (Num.mul (Num.ofNat sa : α) a) (Num.mul (Num.ofNat sb : α) b))
        (Num.add (Num.ofNat sa : α) (Num.ofNat sb))) := by
    refine frac_of (T := val c) (κ := 1 / 4) (e := 6) (e' := 4) hu
      (Pp.val_nonneg hu) ?_ ?_ (by norm_num) ?_
    · refine le_trans Qq.near.2 ?_
      rw [div_le_iff₀ (by linarith)]
      exact amgm_quarter c0
    · refine le_trans (mul_le_mul_of_nonneg_right ?_ (pow_w_pos hu _).le) Pp.near.1
      rw [le_div_iff₀ hSpos]
      exact mean_ge (by linarith) (by linarith) hca hcb
    · have := third_le_pow hu16 (e := 6 + 4) (by norm_num); linarith
  have rpv := near_in0 hu (by positivity) Pp.near rP
  obtain ⟨fr, rr⟩ := RM.sub_frac Pp.f Qq.f q0 hfrac rpv (by positivity)
    (R.lo4 h0 hu (by norm_num) (by
      rw [le_div_iff₀ hm0]; exact hLm4m))
    (R.hik h0 hu (by norm_num) (by linarith))
  exact ⟨fr, rr.nonneg (by positivity)⟩

/-- **Ward**: the (guarded, clamped) update computed with rounding is finite and `≥ 0` when
`c ≤ a, b` (`m` bounds the sizes: `sa + sb + sx ≤ m`). -/
theorem ward_nonneg (RM : SubModel val fin u lo hi N) (hu16 : u ≤ 1 / 16) {a b c : α}
    {sa sb sx : Nat} {l h m : K} (fa : fin a) (fb : fin b) (fc : fin c) (hl : 0 < l)
    (hlh : l ≤ h) (ra : In0 l h (val a)) (rb : In0 l h (val b)) (rc : In0 l h (val c))
    (hca : val c ≤ val a) (hcb : val c ≤ val b)
    (hsa : 0 < sa) (hsb : 0 < sb) (hsx : 0 < sx) (hN : sa + sb + sx ≤ N)
    (hm : (sa : K) + (sb : K) + (sx : K) ≤ m)
    (R : Rng u lo hi Lm Hm) (hLm1 : Lm ≤ 1) (hLm2 : Lm * (4 * (m * m)) ≤ l * (1 - u) ^ 4)
    (hHm1 : m * m ≤ Hm) (hHm2 : 2 * (m * m * h) ≤ Hm * (1 - u) ^ 4) :
    fin (Gen.ward a b c sa sb sx) ∧ 0 ≤ val (Gen.ward a b c sa sb sx) := by
  have a0 := ra.nonneg hl.le
  have b0 := rb.nonneg hl.le
  rcases Gen.ward_cases a b c sa sb sx with e | e | e
  · rw [e]; exact ⟨fa, a0⟩
  · rw [e]; exact ⟨fb, b0⟩
  rw [e]
  have h0 := RM.u_nonneg
  have hu := RM.u_lt_one
  have hw : 0 < 1 - u := by linarith
  have hLp := R.Lm_pos
  have c0 := rc.nonneg hl.le
  have hh0 : 0 ≤ h := le_trans hl.le hlh
  have p4 := pow_w_pos hu 4
  have p41 : (1 - u) ^ 4 ≤ 1 := pow_w_le_one h0 hu 4
  have hSa1 : (1 : K) ≤ (sa : K) := by exact_mod_cast hsa
  have hSb1 : (1 : K) ≤ (sb : K) := by exact_mod_cast hsb
  have hSx1 : (1 : K) ≤ (sx : K) := by exact_mod_cast hsx
  have hm3 : (3 : K) ≤ m := by linarith
  have hm0 : (0 : K) < m := by linarith
  have hmm : m ≤ m * m := le_sq_of_two_le (by linarith)
  have hmh : m * h ≤ m * m * h := mul_le_mul_of_nonneg_right hmm hh0
  have hlw : l * (1 - u) ^ 4 ≤ l := mul_le_of_le_one_right hl.le p41
  have hHw : Hm * (1 - u) ^ 4 ≤ Hm :=
    mul_le_of_le_one_right (le_trans hLp.le R.Lm_le) p41
  obtain ⟨hLmlw, -, -, hLm4m⟩ := lm_facts hLp (by linarith : (2 : K) ≤ m) hLm2
  have hLml : Lm ≤ l := le_trans hLmlw hlw
  have Aa := Model.ap_exact (u := u) fa a0
  have Ab := Model.ap_exact (u := u) fb b0
  have Ac := Model.ap_exact (u := u) fc c0
  have Csa : Ap val fin u 0 (sa : K) (Num.ofNat sa : α) := RM.ap_ofNat (by omega)
  have Csb : Ap val fin u 0 (sb : K) (Num.ofNat sb : α) := RM.ap_ofNat (by omega)
  have Csx : Ap val fin u 0 (sx : K) (Num.ofNat sx : α) := RM.ap_ofNat (by omega)
  have Asxa : Ap val fin u 1 ((sx : K) + (sa : K)) (Num.add (Num.ofNat sx : α) (Num.ofNat sa)) :=
    RM.ap_add R Csx Csa (by norm_num) (Or.inr ⟨by linarith, by linarith⟩)
  have Asxb : Ap val fin u 1 ((sx : K) + (sb : K)) (Num.add (Num.ofNat sx : α) (Num.ofNat sb)) :=
    RM.ap_add R Csx Csb (by norm_num) (Or.inr ⟨by linarith, by linarith⟩)
  have r1 : In0 l (m * h) (((sx : K) + (sa : K)) * val a) :=
    ra.mulc hl.le (by linarith) (by linarith)
  have r2 : In0 l (m * h) (((sx : K) + (sb : K)) * val b) :=
    rb.mulc hl.le (by linarith) (by linarith)
  have t1 : Ap val fin u 2 (((sx : K) + (sa : K)) * val a)
      (Num.mul (Num.add (Num.ofNat sx : α) (Num.ofNat sa)) a) :=
    RM.ap_mul R Asxa Aa (by norm_num) (r1.weaken hLml (by linarith))
  have t2 : Ap val fin u 2 (((sx : K) + (sb : K)) * val b)
      (Num.mul (Num.add (Num.ofNat sx : α) (Num.ofNat sb)) b) :=
    RM.ap_mul R Asxb Ab (by norm_num) (r2.weaken hLml (by linarith))
  have r3 : In0 l (m * h + m * h)
      (((sx : K) + (sa : K)) * val a + ((sx : K) + (sb : K)) * val b) :=
    r1.add hl.le (by positivity) (by positivity) r2
  have Pp : Ap val fin u 3 (((sx : K) + (sa : K)) * val a + ((sx : K) + (sb : K)) * val b)
      (Num.add (Num.mul (Num.add (Num.ofNat sx : α) (Num.ofNat sa)) a)
        (Num.mul (Num.add (Num.ofNat sx : α) (Num.ofNat sb)) b)) :=
    RM.ap_add R t1 t2 (by norm_num) (r3.weaken hLml (by linarith))
  have r4 : In0 l (m * h) ((sx : K) * val c) := rc.mulc hl.le hSx1 (by linarith)
  have Qq : Ap val fin u 1 ((sx : K) * val c) (Num.mul (Num.ofNat sx : α) c) :=
    RM.ap_mul R Csx Ac (by norm_num) (r4.weaken hLml (by linarith))
  have q0 := Qq.val_nonneg hu
  have hfrac : val (Num.mul (Num.ofNat sx : α) c) ≤
      3 / 4 * val (Num.add (Num.mul (Num.add (Num.ofNat sx : α) (Num.ofNat sa)) a)
        (Num.mul (Num.add (Num.ofNat sx : α) (Num.ofNat sb)) b)) := by
    refine frac_of (T := ((sx : K) + (sa : K)) * val a + ((sx : K) + (sb : K)) * val b)
      (κ := 1 / 2) (e := 1) (e' := 3) hu (Pp.val_nonneg hu) ?_ Pp.near.1
      (by norm_num) ?_
    · refine le_trans Qq.near.2 ?_
      exact ward_half (by linarith) (by linarith) (by linarith) a0 b0 hca hcb
    · have := two_thirds_le_pow hu16 (e := 1 + 3) (by norm_num); linarith
  have rpv := near_in0 hu (by positivity) Pp.near r3
  obtain ⟨fnum, rnum⟩ := RM.sub_frac Pp.f Qq.f q0 hfrac rpv (by positivity)
    (R.lo4 h0 hu (by norm_num) (by
      have : Lm * 4 ≤ Lm * 4 * m := le_mul_of_one_le_right (by linarith) (by linarith)
      linarith))
    (R.hik h0 hu (by norm_num) (by linarith))
  have num0 := rnum.nonneg (by positivity)
  -- the denominator
  have Ad1 : Ap val fin u 1 ((sa : K) + (sb : K)) (Num.add (Num.ofNat sa : α) (Num.ofNat sb)) :=
    RM.ap_add R Csa Csb (by norm_num) (Or.inr ⟨by linarith, by linarith⟩)
  have AD : Ap val fin u 2 ((sa : K) + (sb : K) + (sx : K))
      (Num.add (Num.add (Num.ofNat sa : α) (Num.ofNat sb)) (Num.ofNat sx)) :=
    RM.ap_add R Ad1 (Csx.mono h0 hu (by norm_num)) (by norm_num)
      (Or.inr ⟨by linarith, by linarith⟩)
  -- the quotient
  have rv := rnum.divc (by positivity) (by linarith : (1 : K) ≤ (sa : K) + (sb : K) + (sx : K)) hm
  have Av := RM.ap_div R (Model.ap_exact (u := u) fnum num0) AD (by linarith) (by norm_num)
    (rv.weaken (by
        rw [le_div_iff₀ (by linarith)]
        have e : l * (1 - u) ^ 3 / 4 * (1 - u) = l * (1 - u) ^ 4 / 4 := by ring
        rw [e]
        linarith)
      (by
        rw [div_le_iff₀ hw, div_le_iff₀ (pow_w_pos hu _)]
        have e : Hm * (1 - u) * (1 - u) ^ 3 = Hm * (1 - u) ^ 4 := by ring
        rw [e]
        linarith))
  exact ⟨Av.f, Av.val_nonneg hu⟩

/-- **One Lance–Williams update of a closest pair, median / centroid / Ward, under rounding**: the
computed value is finite and `≥ 0`.  `m` bounds the sizes (`sa + sb + sx ≤ m`); every exact
intermediate quantity lies in `{0} ∪ [Lm, Hm]`. -/
theorem lw_nonneg (RM : SubModel val fin u lo hi N) (hu16 : u ≤ 1 / 16) (mt : Method)
    (hmt : mt = .median ∨ mt = .centroid ∨ mt = .ward) {a b c : α} {sa sb sx : Nat} {l h m : K}
    (fa : fin a) (fb : fin b) (fc : fin c) (hl : 0 < l) (hlh : l ≤ h)
    (ra : In0 l h (val a)) (rb : In0 l h (val b)) (rc : In0 l h (val c))
    (hca : Num.lt a c = false) (hcb : Num.lt b c = false)
    (hsa : 0 < sa) (hsb : 0 < sb) (hsx : 0 < sx) (hN : sa + sb + sx ≤ N)
    (hm : (sa : K) + (sb : K) + (sx : K) ≤ m)
    (R : Rng u lo hi Lm Hm) (hLm1 : Lm ≤ 1) (hLm2 : Lm * (4 * (m * m)) ≤ l * (1 - u) ^ 4)
    (hHm1 : m * m ≤ Hm) (hHm2 : 2 * (m * m * h) ≤ Hm * (1 - u) ^ 4) :
    fin (Spec.lw mt a b c sa sb sx) ∧ 0 ≤ val (Spec.lw mt a b c sa sb sx) := by
  have h0 := RM.u_nonneg
  have hu := RM.u_lt_one
  have hca' : val c ≤ val a := (RM.toModel.lt_false fa fc).mp hca
  have hcb' : val c ≤ val b := (RM.toModel.lt_false fb fc).mp hcb
  have p41 : (1 - u) ^ 4 ≤ 1 := pow_w_le_one h0 hu 4
  have hh0 : 0 ≤ h := le_trans hl.le hlh
  have hSx1 : (1 : K) ≤ (sx : K) := by exact_mod_cast hsx
  have hSa1 : (1 : K) ≤ (sa : K) := by exact_mod_cast hsa
  have hSb1 : (1 : K) ≤ (sb : K) := by exact_mod_cast hsb
  have hm3 : (3 : K) ≤ m := by linarith
  have hlw : l * (1 - u) ^ 4 ≤ l := mul_le_of_le_one_right hl.le p41
  have hHw : Hm * (1 - u) ^ 4 ≤ Hm :=
    mul_le_of_le_one_right (le_trans R.Lm_pos.le R.Lm_le) p41
  have hmm1 := one_le_sq_of_two_le (by linarith : (2 : K) ≤ m)
  have hmm2 : (2 : K) ≤ m * m := le_trans (by linarith) (le_sq_of_two_le (by linarith : (2 : K) ≤ m))
  rcases hmt with rfl | rfl | rfl
  · refine RM.median_nonneg hu16 fa fb fc hl hlh ra rb rc hca' hcb' R ?_ ?_
    · have : Lm * 8 ≤ Lm * (4 * (m * m)) :=
        mul_le_mul_of_nonneg_left (by linarith) R.Lm_pos.le
      linarith
    · have : h * 1 ≤ h * (m * m) := mul_le_mul_of_nonneg_left hmm1 hh0
      have e : m * m * h = h * (m * m) := by ring
      linarith
  · exact RM.centroid_nonneg hu16 fa fb fc hl hlh ra rb rc hca' hcb' hsa hsb (by omega)
      (by linarith) R hLm1 (by linarith) hHm1 (by linarith)
  · exact RM.ward_nonneg hu16 fa fb fc hl hlh ra rb rc hca' hcb' hsa hsb hsx hN hm R hLm1 hLm2
      hHm1 hHm2

end SubModel
end Round

/-! ### The run-level statement -/

section Run
open Round
variable {K : Type} [Field K] [LinearOrder K] [IsStrictOrderedRing K]
variable {α : Type} [Num α] {val : α → K} {fin : α → Prop} {u lo hi Lm Hm : K} {N : Nat}

/-- **Median / centroid / Ward under rounding: no overflow / underflow along the greedy runs implies
non-negativity.**  If every table value of every greedy run of the specification is finite with
magnitude `0` or in `[l, h]`, then every such value is `≥ 0` (it lies in `{0} ∪ [l, h]`).
Hypotheses: the extended standard model with `u ≤ 1/16`; `n ≤ N` (sizes convert exactly); the
squares of the input entries neither overflow nor underflow (`hdata`); the range bookkeeping
`Rng u lo hi Lm Hm` with `Lm ≤ 1`, `Lm·4n² ≤ l·(1−u)⁴`, `n² ≤ Hm`, `2n²·h ≤ Hm·(1−u)⁴`
(e.g. `Lm = min 1 (l·(1−u)⁴/(4n²))`, `Hm = max n² (2n²·h/(1−u)⁴)`: the conditions say that `[l, h]`
widened by the factor `4n²` and 12 rounding factors stays normal). -/
theorem runGood_nonneg_rounded (RM : SubModel val fin u lo hi N) (hu16 : u ≤ 1 / 16) (mt : Method)
    (hmt : mt = .median ∨ mt = .centroid ∨ mt = .ward) {n : Nat} {data : Array α} {l h : K}
    (hl : 0 < l) (hlh : l ≤ h) (hnN : n ≤ N) (R : Rng u lo hi Lm Hm) (hLm1 : Lm ≤ 1)
    (hLm2 : Lm * (4 * ((n : K) * (n : K))) ≤ l * (1 - u) ^ 4)
    (hHm1 : (n : K) * (n : K) ≤ Hm) (hHm2 : 2 * ((n : K) * (n : K) * h) ≤ Hm * (1 - u) ^ 4)
    (h2 : 2 ≤ n) (hs : n < 2147483648) (hlen : 2 * data.size = n * (n - 1))
    (hdata : ∀ x ∈ data.toList, fin x ∧ InRange lo hi (val x * val x))
    (hrun : RunGood (fun v => fin v ∧ InRange l h (val v)) mt n data) :
    RunGood (fun v => fin v ∧ In0 l h (val v)) mt n data := by
  have hsq : mt.onSquares = true := by rcases hmt with rfl | rfl | rfl <;> rfl
  refine runGood_strengthen hrun ?_ ?_
  · -- the initial table consists of computed squares
    have hsqr : TableGood (fun v : α => ∃ e ∈ data.toList, v = Num.mul e e) (init mt n data) := by
      refine init_TableGood (G := fun v : α => ∃ e ∈ data.toList, v = Num.mul e e) mt data n h2 hs
        hlen ?_
      apply squareData_good (G := fun v : α => ∃ e ∈ data.toList, v = Num.mul e e)
      intro v hv
      simp only [hsq, if_true]
      exact ⟨v, hv, rfl⟩
    intro x hx y hy hxy
    obtain ⟨f, r⟩ := hrun [] trivial x hx y hy hxy
    obtain ⟨e, he, ev⟩ := hsqr x hx y hy hxy
    refine ⟨f, In0.of_inRange r ?_⟩
    show 0 ≤ val ((init mt n data).D x y)
    rw [ev]
    obtain ⟨fe, re⟩ := hdata e he
    obtain ⟨_, δ, hδ, eq⟩ := RM.mul e e fe fe re
    rw [eq]
    have := (abs_le.mp hδ).1
    exact mul_nonneg (mul_self_nonneg _) (by linarith [RM.u_lt_one])
  · intro a b c sa sb sx hsa hsb hsx hsum ⟨fa, ra⟩ ⟨fb, rb⟩ ⟨fc, rc⟩ hca hcb ⟨_, rg⟩
    have hsumK : (sa : K) + (sb : K) + (sx : K) ≤ (n : K) := by exact_mod_cast hsum
    obtain ⟨f, nn⟩ := RM.lw_nonneg hu16 mt hmt fa fb fc hl hlh ra rb rc hca hcb hsa hsb hsx
      (by omega) hsumK R hLm1 hLm2 hHm1 hHm2
    exact ⟨f, In0.of_inRange rg nn⟩

end Run

end Kodama
