/-
Invariants for `genericWith`, part 4: the initial nearest-neighbour scan inside `heapify`
establishes `QInv` for the full live set `0..n`.  Row `n-1` is never initialised: it keeps the
sentinel priority `max_value` (and `nearest[n-1] = 0`).
-/
import Kodama.Lemmas.GenericInv
set_option linter.unusedSectionVars false
set_option linter.unusedSimpArgs false
set_option linter.unusedVariables false
namespace Kodama
open Spec
variable {α : Type} [Num α]

/-- Body of `for col in (row + 1)..n`. -/
def initScanStep (chk : Bool) (M : Mat α) (row : Nat) (acc : Nat × α) (col : Nat) : R (Nat × α) := do
  let v ← M.get chk row col
  pure (if Num.lt v acc.2 then (col, v) else acc)

theorem genericInitRow_eq (chk : Bool) (M : Mat α) (n : Nat) (dists : Array α)
    (nearest : Array Nat) (row : Nat) :
    genericInitRow chk M n (dists, nearest) row = (do
      let v0 ← M.get chk row (row + 1)
      let (min, minDist) ← ((List.range n).drop (row + 1)).foldlM (initScanStep chk M row)
        (row + 1, v0)
      let dists ← aset dists row minDist
      let nearest ← aset nearest row min
      pure (dists, nearest)) := rfl

theorem mem_drop_range (n k x : Nat) (h : x ∈ (List.range n).drop k) : k ≤ x ∧ x < n := by
  obtain ⟨i, hi⟩ := List.mem_iff_getElem?.mp h
  rw [List.getElem?_drop] at hi
  obtain ⟨h1, h2⟩ := List.getElem?_eq_some_iff.mp hi
  simp at h1 h2
  omega

section
variable {G : α → Prop} {n : Nat} {M : Mat α}

theorem initScan_ok (chk : Bool) (hM : MGood G n M) (row : Nat) (hrow : row + 1 < n) (v0 : α)
    (g0 : G v0) :
    ∃ c p, ((List.range n).drop (row + 1)).foldlM (initScanStep chk M row) (row + 1, v0)
        = .ok (c, p) ∧ row < c ∧ c < n ∧ G p := by
  obtain ⟨⟨c, p⟩, e, h⟩ := foldlM_ok (fun (acc : Nat × α) => row < acc.1 ∧ acc.1 < n ∧ G acc.2)
    (initScanStep chk M row) ((List.range n).drop (row + 1))
    (by
      intro acc col hcol ⟨h1, h2, h3⟩
      have hc := mem_drop_range n (row + 1) col hcol
      obtain ⟨v, hv, gv⟩ := hM.get chk row col (by omega) hc.2
      refine ⟨_, by simp only [initScanStep, bind, Except.bind, hv, pure, Except.pure]; rfl, ?_⟩
      split
      · exact ⟨by simp only []; omega, hc.2, gv⟩
      · exact ⟨h1, h2, h3⟩)
    (row + 1, v0) ⟨by simp only []; omega, hrow, g0⟩
  exact ⟨c, p, e, h⟩

theorem genericInitRow_ok (chk : Bool) (hM : MGood G n M) (row : Nat) (hrow : row + 1 < n)
    (dists : Array α) (nearest : Array Nat) (hd : dists.size = n) (hn : nearest.size = n) :
    ∃ p c, genericInitRow chk M n (dists, nearest) row
        = .ok (dists.set row p (by omega), nearest.set row c (by omega)) ∧
      G p ∧ row < c ∧ c < n := by
  obtain ⟨v0, hv0, g0⟩ := hM.get chk row (row + 1) (by omega) hrow
  obtain ⟨c, p, e, h1, h2, h3⟩ := initScan_ok chk hM row hrow v0 g0
  have hrd : row < dists.size := by omega
  have hrn : row < nearest.size := by omega
  refine ⟨p, c, ?_, h3, h1, h2⟩
  rw [genericInitRow_eq]
  simp only [bind, Except.bind, hv0, e, aset, hrd, hrn, dite_true, pure, Except.pure]

/-- State of the `(dists, nearest)` pair after rows `0..j` have been scanned. -/
structure InitInv (G : α → Prop) (n j : Nat) (s : Array α × Array Nat) : Prop where
  dsz : s.1.size = n
  nsz : s.2.size = n
  done : ∀ i, i < j → ∃ p, s.1[i]? = some p ∧ G p
  rest : ∀ i, j ≤ i → i < n → s.1[i]? = some Num.maxValue
  near : ∀ i, i < j → ∃ c, s.2[i]? = some c ∧ i < c ∧ c < n

theorem genericInitFold_ok (chk : Bool) (hM : MGood G n M) (h2 : 2 ≤ n) :
    ∃ init, (List.range (n - 1)).foldlM (genericInitRow chk M n)
        (Array.replicate n Num.maxValue, Array.replicate n 0) = .ok init ∧
      InitInv G n (n - 1) init := by
  have key := foldlM_ok_idx (fun j s => InitInv G n j s) (genericInitRow chk M n)
    (List.range (n - 1)) 0 (Array.replicate n Num.maxValue, Array.replicate n 0)
    (by
      intro j s x hx inv
      obtain ⟨d, nr⟩ := s
      simp only [Nat.zero_add] at inv ⊢
      obtain ⟨hj1, hj2⟩ := List.getElem?_eq_some_iff.mp hx
      simp at hj1 hj2
      subst hj2
      obtain ⟨p, c, e, gp, hc1, hc2⟩ := genericInitRow_ok chk hM j (by omega) d nr inv.dsz inv.nsz
      have hjd : j < d.size := by have := inv.dsz; simp only [] at this; omega
      have hjn : j < nr.size := by have := inv.nsz; simp only [] at this; omega
      refine ⟨_, e, ?_⟩
      refine ⟨by simpa using inv.dsz, by simpa using inv.nsz, ?_, ?_, ?_⟩
      · intro i hi
        simp only [Array.getElem?_set]
        by_cases e' : j = i
        · subst e'; exact ⟨p, by simp [hjd], gp⟩
        · obtain ⟨p', h1, h2⟩ := inv.done i (by omega)
          exact ⟨p', by simp [e', h1], h2⟩
      · intro i hi hin
        simp only [Array.getElem?_set]
        have e' : ¬ j = i := by omega
        simp only [e', if_false]
        exact inv.rest i (by omega) hin
      · intro i hi
        simp only [Array.getElem?_set]
        by_cases e' : j = i
        · subst e'; exact ⟨c, by simp [hjn], hc1, hc2⟩
        · obtain ⟨c', h1, h2⟩ := inv.near i (by omega)
          exact ⟨c', by simp [e', h1], h2⟩)
    ⟨by simp, by simp, by intro i hi; omega, by intro i _ hi; simp [hi], by intro i hi; omega⟩
  obtain ⟨init, e, inv⟩ := key
  exact ⟨init, e, by simpa using inv⟩

/-- Initialisation: the scan followed by `heapify` gives `QInv` on the full live set. -/
theorem genericInit_ok (L : OrderLaws α) (gs : GoodSet G) (chk : Bool)
    (hmax : Num.isNaN (Num.maxValue : α) = false) (hM : MGood G n M) (h2 : 2 ≤ n)
    (hs : n < 2147483648) :
    ∃ init q, (List.range (n - 1)).foldlM (genericInitRow chk M n)
        (Array.replicate n Num.maxValue, Array.replicate n 0) = .ok init ∧
      (Heap.fresh n : Heap α).heapifyWith chk (fun _ => pure init.1) = .ok q ∧
      QInv G n (List.range n) q init.2 := by
  obtain ⟨init, e, inv⟩ := genericInitFold_ok chk hM h2
  have hfsz : (Heap.fresh n : Heap α).prio.size = n := by simp [Heap.fresh]
  obtain ⟨q, eq, qinv, qprio, _, _, qlive⟩ := Heap.heapifyWith_Inv L chk (Heap.fresh n : Heap α)
    (fun _ => pure init.1) init.1 (by rw [hfsz]; omega) rfl (by rw [hfsz]; exact inv.dsz)
    (by
      intro a ha
      obtain ⟨i, hi, rfl⟩ := Array.mem_iff_getElem.mp ha
      have hin : i < n := by rw [← inv.dsz]; exact hi
      by_cases hlast : i < n - 1
      · obtain ⟨p, h1, gp⟩ := inv.done i hlast
        have : init.1[i] = p := by
          have := Array.getElem?_eq_some_iff.mp h1
          exact this.2
        rw [this]; exact gs.notNaN p gp
      · have h1 := inv.rest i (by omega) hin
        have : init.1[i] = Num.maxValue := (Array.getElem?_eq_some_iff.mp h1).2
        rw [this]; exact hmax)
  rw [hfsz] at qlive
  refine ⟨init, q, e, eq, ?_⟩
  refine ⟨qinv, by rw [qprio]; exact inv.dsz, fun o => by rw [qlive o, List.mem_range], inv.nsz,
    ?_, ?_, ?_⟩
  · intro x hx y hy hxy
    rw [List.mem_range] at hx hy
    obtain ⟨c, h1, h2, h3⟩ := inv.near x (by omega)
    exact ⟨c, h1, h2, Or.inl (List.mem_range.mpr h3)⟩
  · intro x hx y hy hxy
    rw [List.mem_range] at hx hy
    rw [qprio]
    exact inv.done x (by omega)
  · intro x hx hall
    rw [List.mem_range] at hx
    have := hall (n - 1) (List.mem_range.mpr (by omega))
    rw [qprio]
    exact inv.rest x (by omega) hx

end
end Kodama
