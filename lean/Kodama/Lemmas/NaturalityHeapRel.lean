/-
Naturality, part 8: `LinkageHeap` relationally (priorities related by `VR`, shape identical).
-/
import Kodama.Lemmas.NaturalityRel
set_option linter.unusedSectionVars false
namespace Kodama
variable {α β : Type} [Num α] [Num β]

/-! ## The heap, relationally -/

/-- Replace the priorities. -/
def reprio (p' : Array β) (q : Heap α) : Heap β := ⟨q.heap, q.obs, p', q.removed⟩

@[simp] theorem reprio_heap (p' : Array β) (q : Heap α) : (reprio p' q).heap = q.heap := rfl
@[simp] theorem reprio_obs (p' : Array β) (q : Heap α) : (reprio p' q).obs = q.obs := rfl
@[simp] theorem reprio_prio (p' : Array β) (q : Heap α) : (reprio p' q).prio = p' := rfl
@[simp] theorem reprio_removed (p' : Array β) (q : Heap α) : (reprio p' q).removed = q.removed := rfl

/-- Same shape, priorities unchanged on both sides. -/
def HR (p : Array α) (p' : Array β) (q : Heap α) (q' : Heap β) : Prop :=
  q.prio = p ∧ q' = reprio p' q

/-- Same shape, priorities related. -/
def HeapR (h : α → β) (q : Heap α) (q' : Heap β) : Prop :=
  ∃ p', AR h q.prio p' ∧ q' = reprio p' q

theorem HR.toHeapR {h : α → β} {p : Array α} {p' : Array β} (r : AR h p p') {q : Heap α}
    {q' : Heap β} (hr : HR p p' q q') : HeapR h q q' :=
  ⟨p', hr.1 ▸ r, hr.2⟩

theorem Heap.swap_rel (p' : Array β) (q : Heap α) (o1 o2 : Nat) :
    RelR (HR q.prio p') (q.swap o1 o2) ((reprio p' q).swap o1 o2) := by
  unfold Heap.swap
  simp only [reprio_obs, reprio_heap]
  refine RelR.bind_same (fun p1 => ?_)
  refine RelR.bind_same (fun p2 => ?_)
  refine RelR.bind_same (fun heap => ?_)
  refine RelR.bind_same (fun obs => ?_)
  exact RelR.pure ⟨rfl, rfl⟩

/-- `(label, priority)` pairs. -/
def PR (h : α → β) (a : Nat × α) (b : Nat × β) : Prop := b.1 = a.1 ∧ VR h a.2 b.2

theorem Heap.siftDown_rel {h : α → β} (H : OrdHom h) (S : SentinelSafe h) (chk : Bool)
    (fuel : Nat) (q : Heap α) (p' : Array β) (r : AR h q.prio p') (o : Nat) :
    RelR (HR q.prio p') (Heap.siftDown chk fuel q o) (Heap.siftDown chk fuel (reprio p' q) o) := by
  induction fuel generalizing q with
  | zero => rfl
  | succ fuel ih =>
    unfold Heap.siftDown
    simp only [reprio_obs, reprio_heap, reprio_prio]
    refine RelR.bind_same (fun i => ?_)
    refine RelR.bind_same (fun t1 => ?_)
    refine RelR.bind_same (fun li => ?_)
    refine RelR.bind_same (fun t2 => ?_)
    refine RelR.bind_same (fun ri => ?_)
    refine RelR.bind (aget_rel r o) (fun po po' rpo => ?_)
    have pick : ∀ (l o' : Nat) (a b : α) (a' b' : β), VR h a a' → VR h b b' →
        RelR (PR h) (pure (if Num.lt a b = true then (l, a) else (o', b)) : R (Nat × α))
          (pure (if Num.lt a' b' = true then (l, a') else (o', b'))) := by
      intro l o' a b a' b' ra rb
      rw [VR.lt H S ra rb]
      split
      · exact ⟨rfl, ra⟩
      · exact ⟨rfl, rb⟩
    cases q.heap[li]?
    case' some l =>
      simp only
      refine RelR.bind (aget_rel r l) (fun pl pl' rpl => ?_)
      refine RelR.bind (pick _ _ _ _ _ _ rpl rpo) ?second
    case' none =>
      simp only
      refine RelR.bind (ρ := PR h) (RelR.pure ⟨rfl, rpo⟩) ?second
    all_goals
      intro x x' rx
      obtain ⟨x1, x2⟩ := x
      obtain ⟨x1', x2'⟩ := x'
      obtain ⟨e, rx2⟩ := rx
      simp only at e rx2
      subst e
      cases q.heap[ri]?
      case' some r1 =>
        simp only
        refine RelR.bind (aget_rel r r1) (fun pr pr' rpr => ?_)
        refine RelR.bind (pick r1 x1' _ _ _ _ rpr rx2) ?third
      case' none =>
        simp only
        refine RelR.bind (ρ := PR h) (RelR.pure ⟨rfl, rx2⟩) ?third
    all_goals
      intro y y' ry
      rw [ry.1]
      refine RelR.ite (RelR.pure ⟨rfl, rfl⟩) ?_
      refine RelR.bind (Heap.swap_rel p' q o y.1) (fun q1 q1' hq1 => ?_)
      obtain ⟨e1, rfl⟩ := hq1
      have := ih q1 (e1 ▸ r)
      rw [e1] at this
      exact this


theorem Heap.siftUp_rel {h : α → β} (H : OrdHom h) (S : SentinelSafe h) (chk : Bool)
    (fuel : Nat) (q : Heap α) (p' : Array β) (r : AR h q.prio p') (o : Nat) :
    RelR (HR q.prio p') (Heap.siftUp chk fuel q o) (Heap.siftUp chk fuel (reprio p' q) o) := by
  induction fuel generalizing q with
  | zero => rfl
  | succ fuel ih =>
    unfold Heap.siftUp
    simp only [reprio_obs, reprio_heap, reprio_prio]
    refine RelR.bind_same (fun i => ?_)
    refine RelR.ite (RelR.pure ⟨rfl, rfl⟩) ?_
    refine RelR.bind_same (fun po => ?_)
    refine RelR.bind (aget_rel r po) (fun ppo ppo' r1 => ?_)
    refine RelR.bind (aget_rel r o) (fun pp pp' r2 => ?_)
    rw [VR.lt H S r1 r2]
    refine RelR.ite (RelR.pure ⟨rfl, rfl⟩) ?_
    refine RelR.bind (Heap.swap_rel p' q o po) (fun q1 q1' hq1 => ?_)
    obtain ⟨e1, rfl⟩ := hq1
    have := ih q1 (e1 ▸ r)
    rw [e1] at this
    exact this

theorem Heap.pop_rel {h : α → β} (H : OrdHom h) (S : SentinelSafe h) (chk : Bool)
    (q : Heap α) (p' : Array β) (r : AR h q.prio p') :
    RelR (fun a a' => a'.1 = a.1 ∧ HR q.prio p' a.2 a'.2) (q.pop chk) ((reprio p' q).pop chk) := by
  unfold Heap.pop
  simp only [reprio_heap]
  refine RelR.ite (RelR.pure ⟨rfl, rfl, rfl⟩) ?_
  refine RelR.ite ?g1 ?g2
  case' g1 =>
    refine RelR.bind_same (fun first => ?_)
    refine RelR.bind_same (fun last => ?_)
    refine RelR.bind (Heap.swap_rel p' q first last) ?t1
  case' g2 =>
    refine RelR.bind (ρ := HR q.prio p') (RelR.pure ⟨rfl, rfl⟩) ?t2
  all_goals
    intro q1 q1' hq1
    obtain ⟨e1, rfl⟩ := hq1
    simp only [reprio_heap, reprio_removed]
    refine RelR.bind_same (fun last => ?_)
    refine RelR.bind_same (fun removed => ?_)
    refine RelR.ite ?_ (RelR.pure ⟨rfl, e1, rfl⟩)
    refine RelR.bind_same (fun first => ?_)
    have := Heap.siftDown_rel H S chk
      ({ q1 with heap := q1.heap.pop, removed := removed } : Heap α).fuelFor
      { q1 with heap := q1.heap.pop, removed := removed } p' (e1 ▸ r) first
    refine RelR.bind this (fun q2 q2' hq2 => ?_)
    exact RelR.pure ⟨rfl, hq2.1.trans e1, hq2.2⟩

theorem Heap.heapifyLoop_rel {h : α → β} (H : OrdHom h) (S : SentinelSafe h) (chk : Bool)
    (q : Heap α) (p' : Array β) (r : AR h q.prio p') (l : List Nat) :
    RelR (HR q.prio p') (Heap.heapifyLoop chk q l) (Heap.heapifyLoop chk (reprio p' q) l) := by
  induction l generalizing q with
  | nil => exact RelR.pure ⟨rfl, rfl⟩
  | cons i is ih =>
    unfold Heap.heapifyLoop
    simp only [reprio_heap]
    refine RelR.bind_same (fun o => ?_)
    refine RelR.bind (Heap.siftDown_rel H S chk _ q p' r o) (fun q1 q1' hq1 => ?_)
    obtain ⟨e1, rfl⟩ := hq1
    have := ih q1 (e1 ▸ r)
    rw [e1] at this
    exact this

theorem Heap.priority_rel {h : α → β} (q : Heap α) (p' : Array β) (r : AR h q.prio p') (o : Nat) :
    RelR (VR h) (q.priority o) ((reprio p' q).priority o) := by
  unfold Heap.priority
  simp only [reprio_removed, reprio_prio]
  refine RelR.bind_same (fun r1 => ?_)
  refine RelR.bind_same (fun _ => ?_)
  exact aget_rel r o

theorem Heap.setPriority_rel {h : α → β} (H : OrdHom h) (S : SentinelSafe h) (chk : Bool)
    (q : Heap α) (p' : Array β) (r : AR h q.prio p') (o : Nat) {x : α} {y : β} (rv : VR h x y) :
    RelR (HeapR h) (q.setPriority chk o x) ((reprio p' q).setPriority chk o y) := by
  unfold Heap.setPriority
  simp only [reprio_removed, reprio_prio]
  refine RelR.bind_same (fun r1 => ?_)
  refine RelR.bind_same (fun _ => ?_)
  refine RelR.bind (aget_rel r o) (fun old old' rold => ?_)
  refine RelR.bind (aset_rel r o rv) (fun prio prio' rprio => ?_)
  rw [VR.lt H S rv rold, VR.lt H S rold rv]
  refine RelR.ite ?_ (RelR.ite ?_ ?_)
  · exact (Heap.siftUp_rel H S chk _ { q with prio := prio } prio' rprio o).mono
      (fun a a' ha => HR.toHeapR rprio ha)
  · exact (Heap.siftDown_rel H S chk _ { q with prio := prio } prio' rprio o).mono
      (fun a a' ha => HR.toHeapR rprio ha)
  · exact RelR.pure ⟨prio', rprio, rfl⟩

theorem Heap.heapifyWith_rel {h : α → β} (H : OrdHom h) (S : SentinelSafe h) (chk : Bool)
    (q : Heap α) (p' : Array β) (hsz : p'.size = q.prio.size) (init : Array α) (init' : Array β)
    (ri : AR h init init') :
    RelR (HeapR h) (q.heapifyWith chk (fun _ => pure init))
      ((reprio p' q).heapifyWith chk (fun _ => pure init')) := by
  unfold Heap.heapifyWith
  simp only [reprio_prio, hsz, heapReset_eq_fresh]
  refine RelR.bind (ρ := AR h) (RelR.pure ri) (fun prio prio' rprio => ?_)
  exact (Heap.heapifyLoop_rel H S chk { (Heap.fresh q.prio.size : Heap α) with prio := prio }
    prio' rprio _).mono (fun a a' ha => HR.toHeapR rprio ha)

end Kodama
