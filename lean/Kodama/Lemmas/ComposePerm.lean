/-
The sentinel hypothesis `GenericSafe m data` (`Lemmas/ComposeExact.lean`) is inherited by a
renumbered matrix: if `data'` is `data` with rows and columns renumbered by a permutation `π`
(characterised entrywise, as in `Props/C11.lean`) and both have a valid shape, then every slot of
`data'` is a slot of `data`, so the same good set works.  Used by `Props/C11Generic.lean`.
(`InfSafe` is an entrywise statement and is inherited directly: `infSafe_perm`.)
-/
import Kodama.Lemmas.ComposeExact
import Kodama.Lemmas.SpecPerm
import Kodama.Lemmas.PrimGreedySim
namespace Kodama
open Spec
variable {K : Type} [Field K] [LinearOrder K] [Num K]

omit [Field K] [LinearOrder K] [Num K] in
/-- Every slot of a condensed array of valid shape is `Spec.entry` of a pair `i < j < n`. -/
theorem slot_is_entry (n : Nat) (data : Array K) (dflt : K) (hl : 2 * data.size = n * (n - 1))
    (k : Nat) (hk : k < data.size) :
    ∃ i j, i < j ∧ j < n ∧ entry n data dflt i j = data[k] := by
  obtain ⟨hlen, -, -, hb⟩ := C07_bij n
  have hk' : k < (pairs n).length := by omega
  obtain ⟨h1, h2, h3⟩ := hb k hk'
  refine ⟨_, _, h1, h2, ?_⟩
  rw [entry_eq n data dflt _ _ h1 h2, h3]
  simp [Array.getD, hk]

omit [Field K] [LinearOrder K] [Num K] in
/-- `Spec.entry` of two distinct observations `< n` is a slot of the array. -/
theorem entry_is_slot (n : Nat) (data : Array K) (dflt : K) (hl : 2 * data.size = n * (n - 1))
    (a b : Nat) (ha : a < n) (hb : b < n) (hab : a ≠ b) :
    ∃ k, ∃ h : k < data.size, entry n data dflt a b = data[k] := by
  have key : ∀ x y, x < y → y < n → ∃ k, ∃ h : k < data.size, entry n data dflt x y = data[k] := by
    intro x y hxy hyn
    have h1 := idxN_lt n x y hxy hyn
    have hlt : Gen.idxN n x y < data.size := by omega
    refine ⟨_, hlt, ?_⟩
    rw [entry_eq n data dflt x y hxy hyn]
    simp [Array.getD, hlt]
  rcases Nat.lt_or_gt_of_ne hab with h | h
  · exact key a b h hb
  · rw [Spec.entry_symm]; exact key b a h ha

omit [Field K] in
theorem genericSafe_perm {n : Nat} {π ρ : Nat → Nat} {m : Method} {data data' : Array K}
    (hπ : IsPerm n π ρ) (hl : 2 * data.size = n * (n - 1)) (hl' : 2 * data'.size = n * (n - 1))
    (hperm : ∀ i j, i < n → j < n →
      entry n data' Num.infinity i j = entry n data Num.infinity (π i) (π j))
    (S : GenericSafe m data) : GenericSafe m data' := by
  obtain ⟨G, hG, hcl, hin⟩ := S
  refine ⟨G, hG, hcl, ?_⟩
  -- the good set contains `sq` of every slot of `data`
  have hslot : ∀ k (h : k < data.size), G (if m.onSquares then Num.mul data[k] data[k] else data[k]) := by
    intro k hk
    have hk' : k < (squareData m data).size := by rw [squareData_size]; exact hk
    have := hin k hk'
    unfold squareData at this
    cases hsq : m.onSquares
    · simpa [hsq] using this
    · simpa [hsq] using this
  refine squareData_good m data' ?_
  intro v hv
  obtain ⟨k, hk, rfl⟩ := List.getElem_of_mem hv
  have hk' : k < data'.size := by simpa using hk
  obtain ⟨i, j, hij, hjn, e⟩ := slot_is_entry n data' Num.infinity hl' k hk'
  have hin' : i < n := by omega
  have hne : π i ≠ π j := by
    intro e'
    have := congrArg ρ e'
    rw [hπ.left i hin', hπ.left j hjn] at this
    omega
  obtain ⟨k₂, hk₂, e₂⟩ := entry_is_slot n data Num.infinity hl (π i) (π j) (hπ.lt i hin')
    (hπ.lt j hjn) hne
  have : data'.toList[k] = data[k₂] := by
    rw [Array.getElem_toList, ← e, hperm i j hin' hjn, e₂]
  rw [this]
  exact hslot k₂ hk₂

omit [Field K] in
theorem infSafe_perm {n : Nat} {π ρ : Nat → Nat} {data data' : Array K} (hπ : IsPerm n π ρ)
    (hperm : ∀ i j, i < n → j < n →
      entry n data' Num.infinity i j = entry n data Num.infinity (π i) (π j))
    (h : InfSafe n data) : InfSafe n data' := by
  intro u v hu hv huv
  rw [hperm u v hu hv]
  refine h _ _ (hπ.lt u hu) (hπ.lt v hv) ?_
  intro e
  have := congrArg ρ e
  rw [hπ.left u hu, hπ.left v hv] at this
  exact huv this

end Kodama

namespace Kodama
open Spec

/-- Inputs in a good set (for a method that does not work on squares) have no NaN entry. -/
theorem noNaN_of_good {α : Type} [Num α] {G : α → Prop} (gs : GoodSet G) (m : Method)
    (hm : m.onSquares = false) (n : Nat) (data : Array α) (hl : 2 * data.size = n * (n - 1))
    (hin : ∀ i (h : i < (squareData m data).size), G (squareData m data)[i]) : NoNaN n data := by
  intro u v hu hv huv
  obtain ⟨k, hk, e⟩ := entry_is_slot n data Num.infinity hl u v hu hv huv
  rw [e]
  have hk' : k < (squareData m data).size := by rw [squareData_size]; exact hk
  have := hin k hk'
  unfold squareData at this
  simp only [hm] at this
  exact gs.notNaN _ (by simpa using this)

end Kodama
