/- Helper lemmas for C18 (model of the `locations` tool): ranges, split trees, job lists, codec. -/
import Kodama.Model.Locations
namespace Kodama.Loc
open Spec

/-! ### Ranges -/

theorem range'_cut (k lo hi : Nat) :
    List.range' lo (cut k lo hi - lo) ++ List.range' (cut k lo hi) (hi - cut k lo hi)
      = List.range' lo (hi - lo) := by
  unfold cut
  have h1 : lo + min k (hi - lo) - lo = min k (hi - lo) := by omega
  have h2 : hi - (lo + min k (hi - lo)) = (hi - lo) - min k (hi - lo) := by omega
  rw [h1, h2, List.range'_append_1]
  congr 1
  omega

theorem flatMap_single {α β : Type} (g : α → β) (l : List α) :
    l.flatMap (fun x => [g x]) = l.map g := by
  rw [List.map_eq_flatMap]

theorem flatMap_congr' {α β : Type} (l : List α) (f g : α → List β)
    (h : ∀ a, a ∈ l → f a = g a) : l.flatMap f = l.flatMap g := by
  rw [List.flatMap_def, List.flatMap_def, List.map_congr_left h]

/-! ### Fork–join evaluation -/

theorem parRange_eq {β : Type} (g : Nat → List β) (s : Split) :
    ∀ lo hi, parRange g s lo hi = (List.range' lo (hi - lo)).flatMap g := by
  induction s with
  | leaf => intro lo hi; rfl
  | node k l r ihl ihr =>
    intro lo hi
    simp only [parRange]
    rw [ihl, ihr, ← List.flatMap_append, range'_cut]

/-! ### The row-major enumeration as nested ranges -/

theorem pairsUpTo_eq (n : Nat) : ∀ r, pairsUpTo n r = (List.range r).flatMap (rowPairs n) := by
  intro r
  induction r with
  | zero => rfl
  | succ r ih =>
    rw [pairsUpTo, ih, List.range_succ, List.flatMap_append, List.flatMap_singleton]

theorem pairs_eq (n : Nat) : pairs n = (List.range n).flatMap (rowPairs n) := by
  unfold pairs
  rw [pairsUpTo_eq]
  cases n with
  | zero => rfl
  | succ m =>
    rw [List.range_succ, List.flatMap_append, List.flatMap_singleton]
    have : rowPairs (m + 1) m = [] := by simp [rowPairs]
    rw [this, List.append_nil]
    rfl

theorem row_eq {β : Type} (n i : Nat) (f : Nat → Nat → β) :
    (List.range' (i + 1) (n - (i + 1))).map (f i) = (rowPairs n i).map (fun p => f p.1 p.2) := by
  rw [List.range'_eq_map_range]
  simp [rowPairs, List.map_map, Function.comp_def]

theorem nested_eq_spec {β : Type} (n : Nat) (f : Nat → Nat → β) :
    (List.range' 0 (n - 0)).flatMap (fun i => (List.range' (i + 1) (n - (i + 1))).map (f i))
      = matrixSpec n f := by
  unfold matrixSpec
  rw [pairs_eq, List.map_flatMap, Nat.sub_zero, ← List.range_eq_range']
  apply flatMap_congr'
  intro i _
  exact row_eq n i f

theorem parMatrix_eq {β : Type} (s : Sched) (n : Nat) (f : Nat → Nat → β) :
    parMatrix s n f = matrixSpec n f := by
  unfold parMatrix
  rw [parRange_eq]
  rw [← nested_eq_spec]
  apply flatMap_congr'
  intro i _
  rw [parRange_eq, flatMap_single]

/-! ### Job lists executed in any order -/

theorem jobs_flatMap {β : Type} (g : Nat → List β) (s : Split) :
    ∀ lo hi, (s.jobs lo hi).flatMap (fun o => (List.range' o.1 (o.2 - o.1)).flatMap g)
      = (List.range' lo (hi - lo)).flatMap g := by
  induction s with
  | leaf => intro lo hi; simp [Split.jobs]
  | node k l r ihl ihr =>
    intro lo hi
    simp only [Split.jobs]
    rw [List.flatMap_append, ihl, ihr, ← List.flatMap_append, range'_cut]

theorem allJobs_flatMap {β : Type} (s : Sched) (n : Nat) (f : Nat → Nat → β) :
    (allJobs s n).flatMap (jobWork f) = matrixSpec n f := by
  unfold allJobs
  rw [List.flatMap_assoc]
  have h1 : ∀ o : Nat × Nat,
      ((List.range' o.1 (o.2 - o.1)).flatMap fun i =>
          ((s.inner i).jobs (i + 1) n).map fun c => (i, c.1, c.2)).flatMap (jobWork f)
        = (List.range' o.1 (o.2 - o.1)).flatMap
            (fun i => (List.range' (i + 1) (n - (i + 1))).map (f i)) := by
    intro o
    rw [List.flatMap_assoc]
    apply flatMap_congr'
    intro i _
    rw [List.flatMap_map]
    have := jobs_flatMap (fun j => [f i j]) (s.inner i) (i + 1) n
    simp only [flatMap_single] at this
    exact this
  simp only [h1]
  rw [jobs_flatMap (fun i => (List.range' (i + 1) (n - (i + 1))).map (f i)) s.outer 0 n]
  exact nested_eq_spec n f

theorem lookup_done {γ β : Type} (jobs : List γ) (work : γ → List β) (i : Nat)
    (hi : i < jobs.length) :
    ∀ ord : List Nat, i ∈ ord →
      (ord.filterMap fun a => jobs[a]?.map fun j => (a, work j)).lookup i = some (work jobs[i]) := by
  intro ord
  induction ord with
  | nil => intro h; cases h
  | cons a t ih =>
    intro hmem
    rw [List.filterMap_cons]
    by_cases hia : i = a
    · subst hia
      rw [List.getElem?_eq_getElem hi]
      simp
    · have hit : i ∈ t := by
        cases hmem with
        | head => exact absurd rfl hia
        | tail _ h => exact h
      cases hja : jobs[a]? with
      | none => simpa using ih hit
      | some j =>
        have : (i == a) = false := by simpa using hia
        simp only [Option.map_some, List.lookup_cons, this]
        exact ih hit

theorem flatMap_by_index {γ β : Type} (work : γ → List β) :
    ∀ jobs : List γ,
      (List.range jobs.length).flatMap (fun i => ((jobs[i]?).map work).getD []) = jobs.flatMap work := by
  intro jobs
  induction jobs with
  | nil => rfl
  | cons j t ih =>
    rw [List.length_cons, List.range_succ_eq_map, List.flatMap_cons, List.flatMap_cons,
      List.flatMap_map]
    simp only [List.getElem?_cons_zero, Option.map_some, Option.getD_some, Nat.succ_eq_add_one,
      List.getElem?_cons_succ]
    rw [ih]

theorem runJobs_eq {γ β : Type} (jobs : List γ) (work : γ → List β) (ord : List Nat)
    (hall : ∀ i, i < jobs.length → i ∈ ord) : runJobs jobs work ord = jobs.flatMap work := by
  unfold runJobs
  rw [← flatMap_by_index work jobs]
  apply flatMap_congr'
  intro i hi
  have hi' : i < jobs.length := List.mem_range.mp hi
  rw [lookup_done jobs work i hi' ord (hall i hi'), List.getElem?_eq_getElem hi']
  rfl

/-! ### Codec -/

theorem decodeWord_encodeWord (w : Nat) (h : w < 18446744073709551616) :
    decodeLE (encodeWord w) = some [w] := by
  simp only [encodeWord, decodeLE, decodeWord, Option.map_some]
  congr 2
  omega

theorem decodeLE_append_word (w : Nat) (rest : List Nat) (h : w < 18446744073709551616) :
    decodeLE (encodeWord w ++ rest) = (decodeLE rest).map (w :: ·) := by
  simp only [encodeWord, List.cons_append, List.nil_append, decodeLE, decodeWord]
  congr 2
  funext l
  congr 1
  omega

theorem decodeLE_encodeLE (ws : List Nat) (h : ∀ w, w ∈ ws → w < 18446744073709551616) :
    decodeLE (encodeLE ws) = some ws := by
  induction ws with
  | nil => rfl
  | cons w t ih =>
    have : encodeLE (w :: t) = encodeWord w ++ encodeLE t := by simp [encodeLE]
    rw [this, decodeLE_append_word w _ (h w (List.mem_cons_self ..)),
      ih (fun x hx => h x (List.mem_cons_of_mem _ hx))]
    rfl

theorem decodeLE_isSome_iff : ∀ bs : List Nat, (decodeLE bs).isSome ↔ bs.length % 8 = 0
  | [] => by simp [decodeLE]
  | [_] => by simp [decodeLE]
  | [_, _] => by simp [decodeLE]
  | [_, _, _] => by simp [decodeLE]
  | [_, _, _, _] => by simp [decodeLE]
  | [_, _, _, _, _] => by simp [decodeLE]
  | [_, _, _, _, _, _] => by simp [decodeLE]
  | [_, _, _, _, _, _, _] => by simp [decodeLE]
  | _ :: _ :: _ :: _ :: _ :: _ :: _ :: _ :: rest => by
    have ih := decodeLE_isSome_iff rest
    simp only [decodeLE, Option.isSome_map, List.length_cons]
    rw [ih]
    omega

theorem decodeLE_length : ∀ (bs ws : List Nat), decodeLE bs = some ws → 8 * ws.length = bs.length
  | [], ws, h => by simp [decodeLE] at h; subst h; rfl
  | [_], _, h => by simp [decodeLE] at h
  | [_, _], _, h => by simp [decodeLE] at h
  | [_, _, _], _, h => by simp [decodeLE] at h
  | [_, _, _, _], _, h => by simp [decodeLE] at h
  | [_, _, _, _, _], _, h => by simp [decodeLE] at h
  | [_, _, _, _, _, _], _, h => by simp [decodeLE] at h
  | [_, _, _, _, _, _, _], _, h => by simp [decodeLE] at h
  | _ :: _ :: _ :: _ :: _ :: _ :: _ :: _ :: rest, ws, h => by
    simp only [decodeLE, Option.map_eq_some_iff] at h
    obtain ⟨ws', h1, h2⟩ := h
    have := decodeLE_length rest ws' h1
    subst h2
    simp only [List.length_cons]
    omega

/-- Loading and saving again reproduces the file (bytes are `< 256`). -/
theorem encodeLE_decodeLE : ∀ (bs ws : List Nat), (∀ b, b ∈ bs → b < 256) →
    decodeLE bs = some ws → encodeLE ws = bs
  | [], ws, _, h => by simp [decodeLE] at h; subst h; rfl
  | [_], _, _, h => by simp [decodeLE] at h
  | [_, _], _, _, h => by simp [decodeLE] at h
  | [_, _, _], _, _, h => by simp [decodeLE] at h
  | [_, _, _, _], _, _, h => by simp [decodeLE] at h
  | [_, _, _, _, _], _, _, h => by simp [decodeLE] at h
  | [_, _, _, _, _, _], _, _, h => by simp [decodeLE] at h
  | [_, _, _, _, _, _, _], _, _, h => by simp [decodeLE] at h
  | b0 :: b1 :: b2 :: b3 :: b4 :: b5 :: b6 :: b7 :: rest, ws, hb, h => by
    simp only [decodeLE, Option.map_eq_some_iff] at h
    obtain ⟨ws', h1, h2⟩ := h
    have ih := encodeLE_decodeLE rest ws' (fun b hbm => hb b (by simp [hbm])) h1
    subst h2
    have e : ∀ w t, encodeLE (w :: t) = encodeWord w ++ encodeLE t := by intros; simp [encodeLE]
    rw [e, ih]
    have h0 := hb b0 (by simp)
    have h1 := hb b1 (by simp)
    have h2 := hb b2 (by simp)
    have h3 := hb b3 (by simp)
    have h4 := hb b4 (by simp)
    have h5 := hb b5 (by simp)
    have h6 := hb b6 (by simp)
    have h7 := hb b7 (by simp)
    simp only [encodeWord, decodeWord, List.cons_append, List.nil_append]
    congr 1; · omega
    congr 1; · omega
    congr 1; · omega
    congr 1; · omega
    congr 1; · omega
    congr 1; · omega
    congr 1; · omega
    congr 1; omega

end Kodama.Loc
