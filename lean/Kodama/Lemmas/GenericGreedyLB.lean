/-
C03 for `generic_with`, part 1: the LOWER-BOUND invariant `LB` of Müllner's generic algorithm and
the fact that the pair popped after the repair loop is a GLOBAL minimum.

* `LB chk M live prio`   for every live row `x` and every live column `y > x`:
                         `prio[x] ≤ M[x, y]` (`Num.lt (M[x,y]) prio[x] = false`).
* `BeqLe α`              hypothesis about `==` vs. `<`: `a == b → ¬ (b < a)` (true of IEEE floats).
* `LBClosed G m`         hypothesis used only for the five methods whose range 1 does NOT lower the
                         priority (single, complete, average, weighted, Ward): the update of two
                         values `≥ p` is `≥ p` (for Ward additionally `p ≥` the merged distance).
                         Proved for single and complete; follows from `Spec.Reducible` for the four
                         methods that do not read the merged distance (`lbClosed_of_reducible`);
                         proved for the clamped average and the guarded, clamped Ward from
                         `OrderLaws` alone (`lbClosed_average`, `lbClosed_ward`).
* `rescanFold_min`       the rescan of a row computes a lower bound of the row.
* `genericRepair_lb`     the repair loop keeps `LB` and ends with an exact top row.
* `generic_pop_min`      an exact top row `a` gives a globally minimal entry `M[a, nearest a]`.
-/
import Kodama.Lemmas.GenericRun
import Kodama.Lemmas.PrimGreedySim
set_option linter.unusedSectionVars false
set_option linter.unusedSimpArgs false
set_option linter.unusedVariables false
namespace Kodama
open Spec
variable {α : Type} [Num α]

/-! ### Hypotheses -/

/-- `==` is compatible with `<`: equal values are not strictly ordered (true of IEEE floats:
`a == b` excludes NaN and means numerically equal). -/
def BeqLe (α : Type) [Num α] : Prop := ∀ a b : α, Num.beq a b = true → Num.lt b a = false

/-- The update of method `m` never falls below a common lower bound `p` of its two arguments
(all values good; positive sizes; for the methods that read the merged distance: that distance is
good and `≤ p`).  True in exact arithmetic for single, complete, average, weighted, Ward; for the
clamped average and the guarded, clamped Ward in every ordered number type (`lbClosed_average`,
`lbClosed_ward`); not under float rounding for weighted; not needed for centroid and median. -/
def LBClosed (G : α → Prop) (m : Method) : Prop :=
  ∀ (sizes : Array Nat) (sa sb : Nat) (dist : α) (x : Nat) (va vb v p : α),
    (∀ i (h : i < sizes.size), 0 < sizes[i]) →
    (usesSizes m = true → 0 < sa ∧ 0 < sb) →
    (usesDist m = true → G dist ∧ Num.lt p dist = false) →
    G va → G vb → G p → updFn m sizes sa sb dist x va vb = .ok v →
    Num.lt va p = false → Num.lt vb p = false → Num.lt v p = false

theorem lbClosed_single (G : α → Prop) : LBClosed G .single := by
  intro sizes sa sb dist x va vb v p _ _ _ _ _ _ h h1 h2
  simp only [updFn, Gen.single, pure, Except.pure, Except.ok.injEq] at h
  subst h
  split <;> assumption

theorem lbClosed_complete (G : α → Prop) : LBClosed G .complete := by
  intro sizes sa sb dist x va vb v p _ _ _ _ _ _ h h1 h2
  simp only [updFn, Gen.complete, pure, Except.pure, Except.ok.injEq] at h
  subst h
  split <;> assumption

/-- For the methods that do not read the merged distance the update is `lw` with any `dab`. -/
theorem updFn_eq_noDist (m : Method) (hm : usesDist m = false) (sizes : Array Nat) (sa sb : Nat)
    (dist d' : α) (x : Nat) (va vb : α) (sx : Nat) :
    updFn m sizes sa sb dist x va vb = .ok (lw m va vb d' sa sb sx) := by
  cases m <;> first | (simp [usesDist] at hm; done) | simp [updFn, lw, pure, Except.pure]

/-- `Spec.Reducible` gives `LBClosed` for the methods that do not read the merged distance
(instantiate the merged distance of `Reducible` with the bound itself). -/
theorem lbClosed_of_reducible {G : α → Prop} (gs : GoodSet G) {m : Method}
    (hm : usesDist m = false) (hred : Reducible α m) : LBClosed G m := by
  intro sizes sa sb dist x va vb v p _ _ _ gva gvb gp h h1 h2
  rw [updFn_eq_noDist m hm sizes sa sb dist p x va vb 0] at h
  injection h with h
  subst h
  exact hred va vb p sa sb 0 (gs.notNaN _ gva) (gs.notNaN _ gvb) (gs.notNaN _ gp) h1 h2

/-- The CLAMPED average (`method::average` after the `fix:` commit) is `LBClosed` in every ordered
number type and for every good set — no exact arithmetic (`Spec.reducible_average`). -/
theorem lbClosed_average (L : OrderLaws α) {G : α → Prop} (gs : GoodSet G) : LBClosed G .average :=
  lbClosed_of_reducible gs rfl (reducible_average L)

/-- The guarded, CLAMPED Ward update (`method::ward` after the second `fix:` commit) is `LBClosed` in
every ordered number type and for every good set — no exact arithmetic.  `LBClosed` supplies exactly
the guarded situation: the merged distance is `≤ p` and both arguments are `≥ p`, so
`¬ least < dist` and the clamp keeps the result `≥ least ≥ p` (`Gen.ward_not_lt`). -/
theorem lbClosed_ward (L : OrderLaws α) {G : α → Prop} (gs : GoodSet G) : LBClosed G .ward := by
  intro sizes sa sb dist x va vb v p _ _ hd gva gvb gp h h1 h2
  cases hx : aget sizes x with
  | error e => simp [updFn, hx, bind, Except.bind] at h
  | ok sx =>
    simp only [updFn, hx, bind, Except.bind, pure, Except.pure, Except.ok.injEq] at h
    subst h
    exact Gen.ward_not_lt L sa sb sx (gs.notNaN _ gva) (gs.notNaN _ gvb) (gs.notNaN _ gp)
      (hd rfl).2 h1 h2

/-! ### Order helpers -/

/-- `v < p`, `p ≤ w` (`p` not NaN) give `v ≤ w`. -/
theorem OrderLaws.le_of_lt_le (L : OrderLaws α) {v p w : α} (hp : Num.isNaN p = false)
    (h1 : Num.lt v p = true) (h2 : Num.lt w p = false) : Num.lt w v = false := by
  cases h : Num.lt w v
  · rfl
  · rcases L.cotrans w p v hp h with h' | h'
    · rw [h2] at h'; cases h'
    · rw [L.asymm v p h1] at h'; cases h'

/-! ### The lower-bound invariant -/

/-- Every live row's priority is a lower bound of the row's entries at live columns. -/
def LB (chk : Bool) (M : Mat α) (live : List Nat) (prio : Array α) : Prop :=
  ∀ x ∈ live, ∀ y ∈ live, x < y → ∀ p v, prio[x]? = some p → M.get chk x y = .ok v →
    Num.lt v p = false

theorem LB.mono {chk : Bool} {M : Mat α} {live live' : List Nat} {prio : Array α}
    (h : LB chk M live prio) (hsub : ∀ x ∈ live', x ∈ live) : LB chk M live' prio :=
  fun x hx y hy hxy p v hp hv => h x (hsub x hx) y (hsub y hy) hxy p v hp hv

/-- One entry `(r, c)` of the matrix changes to `v`, the priorities of the rows `≠ r` stay, and the
new priority of row `r` is a lower bound of `v` and of the old entries of the row. -/
theorem LB.update_entry {chk : Bool} {n : Nat} {M M1 : Mat α} {full : List Nat}
    {prio prio' : Array α} (r c : Nat) (v : α)
    (hget : ∀ r' c', r' < c' → c' < n →
      M1.get chk r' c' = if r' = r ∧ c' = c then .ok v else M.get chk r' c')
    (hlt : ∀ z ∈ full, z < n) (hlb : LB chk M full prio)
    (hother : ∀ z, z ≠ r → prio'[z]? = prio[z]?)
    (hrow : ∀ p', prio'[r]? = some p' → Num.lt v p' = false ∧
      ∀ y ∈ full, r < y → y ≠ c → ∀ w, M.get chk r y = .ok w → Num.lt w p' = false) :
    LB chk M1 full prio' := by
  intro z hz y hy hzy p w hp hw
  rw [hget z y hzy (hlt y hy)] at hw
  by_cases hzr : z = r
  · subst hzr
    obtain ⟨h1, h2⟩ := hrow p hp
    by_cases hyc : y = c
    · subst hyc
      simp only [and_self, if_true] at hw
      injection hw with hw
      rw [← hw]; exact h1
    · have : ¬ (z = z ∧ y = c) := fun e => hyc e.2
      rw [if_neg this] at hw
      exact h2 y hy hzy hyc w hw
  · have : ¬ (z = r ∧ y = c) := fun e => hzr e.1
    rw [if_neg this] at hw
    rw [hother z hzr] at hp
    exact hlb z hz y hy hzy p w hp hw

/-- … the priorities do not change (the new entry is not below the priority of its row). -/
theorem LB.keep {chk : Bool} {n : Nat} {M M1 : Mat α} {full : List Nat} {prio : Array α}
    (r c : Nat) (v : α)
    (hget : ∀ r' c', r' < c' → c' < n →
      M1.get chk r' c' = if r' = r ∧ c' = c then .ok v else M.get chk r' c')
    (hlt : ∀ z ∈ full, z < n) (hlb : LB chk M full prio) (hr : r ∈ full)
    (hv : ∀ p, prio[r]? = some p → Num.lt v p = false) :
    LB chk M1 full prio :=
  LB.update_entry r c v hget hlt hlb (fun _ _ => rfl)
    (fun p' hp' => ⟨hv p' hp', fun y hy hry _ w hw => hlb r hr y hy hry p' w hp' hw⟩)

/-- … the priority of row `r` is lowered to the new entry `v < p`. -/
theorem LB.lower (L : OrderLaws α) {chk : Bool} {n : Nat} {M M1 : Mat α} {full : List Nat}
    {prio : Array α} (r c : Nat) (v p : α)
    (hget : ∀ r' c', r' < c' → c' < n →
      M1.get chk r' c' = if r' = r ∧ c' = c then .ok v else M.get chk r' c')
    (hlt : ∀ z ∈ full, z < n) (hlb : LB chk M full prio) (hr : r ∈ full)
    (hp : prio[r]? = some p) (hpn : Num.isNaN p = false) (hvp : Num.lt v p = true) :
    LB chk M1 full (prio.setIfInBounds r v) := by
  have hrn : r < prio.size := by
    have := (Array.getElem?_eq_some_iff.mp hp).1; exact this
  apply LB.update_entry r c v hget hlt hlb
  · intro z hz
    rw [Array.getElem?_setIfInBounds]
    have : ¬ r = z := fun e => hz e.symm
    simp [this]
  · intro p' hp'
    have e : p' = v := by
      rw [Array.getElem?_setIfInBounds] at hp'
      simp [hrn] at hp'
      exact hp'.symm
    subst e
    refine ⟨L.irrefl _, ?_⟩
    intro y hy hry _ w hw
    exact L.le_of_lt_le hpn hvp (hlb r hr y hy hry p w hp hw)

/-! ### The rescan computes a lower bound of the row -/

/-- The running minimum of the rescan: the result is not NaN, `≤` the start value and `≤` every
entry visited. -/
theorem rescanFold_min (L : OrderLaws α) (chk : Bool) (M : Mat α) (a : Nat) :
    ∀ (l : List Nat) (acc r : α × Array Nat),
      (∀ x ∈ l, ∀ v, M.get chk a x = .ok v → Num.isNaN v = false) →
      Num.isNaN acc.1 = false →
      l.foldlM (rescanStep chk M a) acc = .ok r →
      Num.isNaN r.1 = false ∧ Num.lt acc.1 r.1 = false ∧
        ∀ x ∈ l, ∀ v, M.get chk a x = .ok v → Num.lt v r.1 = false := by
  intro l
  induction l with
  | nil =>
    intro acc r _ hacc h
    have : acc = r := by simpa [List.foldlM, pure, Except.pure] using h
    subst this
    exact ⟨hacc, L.irrefl _, fun x hx => by cases hx⟩
  | cons x xs ih =>
    intro acc r hnn hacc h
    simp only [List.foldlM] at h
    obtain ⟨acc1, h1, h2⟩ := bind_ok.mp h
    unfold rescanStep at h1
    obtain ⟨v, hv, h1⟩ := bind_ok.mp h1
    have hvn : Num.isNaN v = false := hnn x List.mem_cons_self v hv
    have hnn' : ∀ y ∈ xs, ∀ w, M.get chk a y = .ok w → Num.isNaN w = false :=
      fun y hy => hnn y (List.mem_cons_of_mem _ hy)
    by_cases hlt : Num.lt v acc.1 = true
    · rw [if_pos hlt] at h1
      obtain ⟨nr, _, h1⟩ := bind_ok.mp h1
      have e : (v, nr) = acc1 := pure_ok.mp h1
      subst e
      obtain ⟨r1, r2, r3⟩ := ih (v, nr) r hnn' hvn h2
      refine ⟨r1, L.le_trans r.1 v acc.1 hvn r2 (L.asymm _ _ hlt), ?_⟩
      intro y hy w hw
      rcases List.mem_cons.mp hy with e | e
      · subst e
        rw [hv] at hw; injection hw with hw
        rw [← hw]; exact r2
      · exact r3 y e w hw
    · rw [if_neg hlt] at h1
      have e : acc = acc1 := pure_ok.mp h1
      subst e
      obtain ⟨r1, r2, r3⟩ := ih acc r hnn' hacc h2
      refine ⟨r1, r2, ?_⟩
      intro y hy w hw
      rcases List.mem_cons.mp hy with e | e
      · subst e
        rw [hv] at hw; injection hw with hw
        rw [← hw]
        exact L.le_trans r.1 acc.1 v hacc r2 (by simpa using hlt)
      · exact r3 y e w hw

/-! ### The repair loop keeps `LB` and ends with an exact top row -/

theorem genericRepair_lb {G : α → Prop} {n : Nat} {M : Mat α} (L : OrderLaws α) (gs : GoodSet G)
    (chk : Bool) (hmax : Num.isNaN (Num.maxValue : α) = false) (hM : MGood G n M) (act : Active)
    (live : List Nat) (hrep : act.Rep live n) (h2 : 2 ≤ live.length) :
    ∀ (fuel : Nat) (st st' : State α), st.active = act →
      QInv G n live st.queue st.nearest → LB chk M live st.queue.prio →
      genericRepair chk M fuel st = .ok st' →
      LB chk M live st'.queue.prio ∧
        ∃ a, st'.queue.peek = some a ∧ Exact chk M st'.queue st'.nearest a := by
  intro fuel
  induction fuel with
  | zero => intro st st' _ _ _ h; cases h
  | succ fuel ih =>
    intro st st' hact hq hlb h
    subst hact
    have hnd := hrep.nodup
    have hne : ∃ x, x ∈ live := by
      match live, h2 with
      | u :: _, _ => exact ⟨u, List.mem_cons_self⟩
    obtain ⟨x0, hx0⟩ := hne
    obtain ⟨a, hpeek, _⟩ := hq.peek_some hx0
    obtain ⟨ha, y, hy, hay⟩ := hq.peek_has_larger L gs h2 hnd hpeek
    obtain ⟨c, hc, hac, hcl⟩ := hq.near a ha y hy hay
    have hcl' : c ∈ live := by
      rcases hcl with h | h
      · exact h
      · exact absurd h (by simp)
    obtain ⟨v, hv, gv⟩ := hM.get chk a c hac (hrep.lt_n c hcl')
    obtain ⟨p, hp, hprio⟩ := Heap.priority_ok hq.inv.wf ((hq.qlive a).mpr ha)
    rw [genericRepair_succ] at h
    simp only [bind, Except.bind, hpeek, unwrap, aget, hc, hv, hprio] at h
    by_cases hbeq : Num.beq v p = true
    · rw [if_pos hbeq] at h
      have e : st = st' := pure_ok.mp h
      subst e
      exact ⟨hlb, a, hpeek, c, v, p, hc, hv, hp, hbeq⟩
    · rw [if_neg hbeq] at h
      rw [hrep.range_from a ha] at h
      obtain ⟨mn, nr', hfold, hsz', hother, c', hc', hc'l, hac', gmn, hget'⟩ :=
        rescan_ok gs chk hM live hrep.sorted hrep.lt_n st.nearest hq.nsz a y ha hy hay
      simp only [hfold] at h
      obtain ⟨q', hset, hq', hprio'⟩ := hq.setPrio L gs chk ha hy hay gmn
      simp only [hset] at h
      have hq'' : QInv G n live q' nr' :=
        hq'.changeNear nr' hsz' hother hc' hc'l hac' _ (fun _ _ _ _ hB => hB)
      apply ih { st with nearest := nr', queue := q' } st' rfl hq'' ?_ h
      -- `LB` after the rescan
      simp only [hprio']
      obtain ⟨hhead, hdrop⟩ := sorted_filter_ge_drop live hrep.sorted a ha
      obtain ⟨_, _, hmin⟩ := rescanFold_min L chk M a _ (Num.maxValue, st.nearest) (mn, nr')
        (by
          intro x hx w hw
          have hxm := hdrop x hx
          obtain ⟨w', hw', gw'⟩ := hM.get chk a x hxm.1 (hrep.lt_n x hxm.2)
          rw [hw'] at hw; injection hw with hw
          rw [← hw]; exact gs.notNaN _ gw')
        hmax hfold
      intro x hx z hz hxz p1 w hp1 hw
      by_cases hxa : x = a
      · subst hxa
        have han : x < st.queue.prio.size := by rw [hq.psz]; exact hrep.lt_n x ha
        have e : p1 = mn := by
          rw [Array.getElem?_setIfInBounds] at hp1
          simp [han] at hp1
          exact hp1.symm
        subst e
        have hzm : z ∈ (live.filter (fun u => decide (x ≤ u))).drop 1 := by
          apply mem_drop_one_of_ne_head hhead
          · simp [List.mem_filter, hz]; omega
          · omega
        exact hmin z hzm w hw
      · rw [Array.getElem?_setIfInBounds] at hp1
        have : ¬ a = x := fun e => hxa e.symm
        simp only [this, if_false] at hp1
        exact hlb x hx z hz hxz p1 w hp1 hw

/-! ### The popped pair is a global minimum -/

/-- If the top row `a` of the heap is exact (`dis[[a, nearest[a]]] == priority(a)`, the exit
condition of the repair loop) and `LB` holds, then `b = nearest[a]` is a live column `> a` and
`dis[[a, b]]` is a minimum over ALL live pairs; moreover every live priority is `≥ dis[[a, b]]`. -/
theorem generic_pop_min {G : α → Prop} {n : Nat} {M : Mat α} (L : OrderLaws α) (hbeq : BeqLe α)
    (gs : GoodSet G) (chk : Bool) (hM : MGood G n M) (live : List Nat) (q : Heap α)
    (nr : Array Nat) (hq : QInv G n live q nr) (hlb : LB chk M live q.prio)
    (h2 : 2 ≤ live.length) (hnd : live.Nodup) {a : Nat} (hpeek : q.peek = some a)
    (hex : Exact chk M q nr a) :
    ∃ b dist, nr[a]? = some b ∧ a < b ∧ a ∈ live ∧ b ∈ live ∧ M.get chk a b = .ok dist ∧ G dist ∧
      (∀ x ∈ live, ∀ y ∈ live, x < y → ∀ w, M.get chk x y = .ok w → Num.lt w dist = false) ∧
      (∀ x ∈ live, ∀ px, q.prio[x]? = some px → Num.lt px dist = false) := by
  obtain ⟨ha, y, hy, hay⟩ := hq.peek_has_larger L gs h2 hnd hpeek
  obtain ⟨b, hnb, hab, hbl⟩ := hq.near a ha y hy hay
  have hb : b ∈ live := by
    rcases hbl with h | h
    · exact h
    · exact absurd h (by simp)
  obtain ⟨c, v, p, e1, e2, e3, e4⟩ := hex
  rw [hnb] at e1; cases e1
  obtain ⟨p', hp', gp⟩ := hq.pgood a ha y hy hay
  rw [e3] at hp'; cases hp'
  have hpn := gs.notNaN p gp
  have hvp : Num.lt p v = false := hbeq v p e4
  obtain ⟨v', hv', gv⟩ := hM.get chk a b hab (hq.lt_n hb)
  rw [e2] at hv'; cases hv'
  have hprio : ∀ x ∈ live, ∀ px, q.prio[x]? = some px → Num.lt px v = false := by
    intro x hx px hpx
    have h1 := hq.inv.peek_min L hpeek x p px ((hq.qlive x).mpr hx) e3 hpx
    exact L.le_trans v p px hpn hvp h1
  refine ⟨b, v, hnb, hab, ha, hb, e2, gv, ?_, hprio⟩
  intro x hx z hz hxz w hw
  obtain ⟨px, hpx, gpx⟩ := hq.pgood x hx z hz hxz
  have h1 := hprio x hx px hpx
  have h2' := hlb x hx z hz hxz px w hpx hw
  exact L.le_trans v px w (gs.notNaN px gpx) h1 h2'

end Kodama
