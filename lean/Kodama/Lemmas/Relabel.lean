/- What `relabel` does to the heights: it sorts them (stably) and changes nothing else about them. -/
import Kodama.Model.Relabel
import Kodama.Laws
import Kodama.Lemmas.Except
import Kodama.Lemmas.Sort
namespace Kodama
variable {α : Type} [Num α]

def heights (steps : Array (Step α)) : List α := steps.toList.map (·.d)

theorem relabelStep_heights (obs : Nat) (uf uf' : UF) (steps steps' : Array (Step α)) (i : Nat)
    (h : relabelStep obs (uf, steps) i = .ok (uf', steps')) : heights steps' = heights steps := by
  unfold relabelStep at h
  simp only [bind_ok, pure_ok] at h
  obtain ⟨s, hs, r1, _, r2, _, uf1, _, sz1, _, sz2, _, st2, hset, heq⟩ := h
  obtain ⟨hi, hsi⟩ := aget_ok.mp hs
  obtain ⟨_, hst⟩ := aset_ok.mp hset
  have : steps' = st2 := by
    have := congrArg Prod.snd heq; simpa using this.symm
  subst this; subst hst
  unfold heights
  simp only [Array.toList_set]
  apply List.ext_getElem
  · simp
  · intro k h1 h2
    simp only [List.getElem_map, List.getElem_set]
    split
    · next hk =>
      subst hk
      have : ∀ t : Step α, (Step.setClusters t r1 r2).d = t.d := by
        intro t; unfold Step.setClusters; split <;> rfl
      simp [this, ← hsi]
    · rfl

theorem relabelFold_heights (obs : Nat) (l : List Nat) :
    ∀ (uf uf' : UF) (steps steps' : Array (Step α)),
      l.foldlM (relabelStep obs) (uf, steps) = .ok (uf', steps') → heights steps' = heights steps := by
  intro uf uf' steps steps' h
  have := foldlM_inv (fun (s : UF × Array (Step α)) => heights s.2 = heights steps)
    (relabelStep obs) l
    (fun s x s' _ hs hstep => by
      obtain ⟨u1, st1⟩ := s
      obtain ⟨u2, st2⟩ := s'
      simp only at hs ⊢
      rw [relabelStep_heights obs u1 u2 st1 st2 x hstep, hs])
    (uf, steps) (uf', steps') rfl h
  exact this

/-- `a ≤ b` on heights, as a Prop. -/
def HLe (a b : α) : Prop := Num.lt b a = false

theorem sortSteps_sorted (L : OrderLaws α) (steps steps' : Array (Step α))
    (h : sortSteps steps = .ok steps') : (heights steps').Pairwise HLe := by
  unfold sortSteps at h
  split at h
  · cases h
  · next hn =>
    simp only [pure_ok] at h
    subst h
    unfold heights
    simp only [List.pairwise_map]
    by_cases hsz : steps.size ≥ 2
    · have hnan : ∀ s ∈ steps.toList, Num.isNaN s.d = false := by
        intro s hs
        have : ¬ (steps.any (fun s => Num.isNaN s.d) = true) := fun h' => hn ⟨hsz, h'⟩
        simp only [Array.any_eq_true, not_exists, Bool.not_eq_true] at this
        obtain ⟨i, hi, rfl⟩ := List.getElem_of_mem hs
        simpa using this i (by simpa using hi)
      have := pairwise_mergeSort_of_mem (stepLe (α := α)) steps.toList
        (by
          intro a _ b hb c _ h1 h2
          simp only [stepLe, Bool.not_eq_true'] at h1 h2 ⊢
          exact L.le_trans a.d b.d c.d (hnan b hb) h1 h2)
        (by
          intro a _ b _
          simp only [stepLe, Bool.or_eq_true, Bool.not_eq_true']
          exact L.le_total a.d b.d)
      refine List.Pairwise.imp ?_ this
      intro a b hab
      simpa [stepLe, HLe] using hab
    · -- fewer than two steps: nothing to compare
      have hlen : (steps.toList.mergeSort stepLe).length ≤ 1 := by
        simp only [List.length_mergeSort, Array.length_toList]; omega
      match hm : steps.toList.mergeSort stepLe, hlen with
      | [], _ => simp
      | [a], _ => simp
      | _ :: _ :: _, hl => simp at hl

theorem relabel_sorted (L : OrderLaws α) (m : Method) (hm : m.requiresSorting = true)
    (d d' : Dendrogram α) (uf0 uf : UF) (h : relabel m uf0 d = .ok (uf, d')) :
    (heights d'.steps).Pairwise HLe := by
  unfold relabel at h
  simp only [hm, if_true, bind_ok, pure_ok] at h
  obtain ⟨sorted, hsort, ⟨uf', steps'⟩, hfold, heq⟩ := h
  have hd : d'.steps = steps' := by
    have := congrArg Prod.snd heq; simp at this; rw [← this]
  rw [hd, relabelFold_heights d.obs _ _ _ _ _ hfold]
  exact sortSteps_sorted L _ _ hsort

theorem sqrtSteps_sorted (S : MonoSqrt α) (m : Method) (d : Dendrogram α)
    (h : (heights d.steps).Pairwise HLe) : (heights (sqrtSteps m d).steps).Pairwise HLe := by
  unfold sqrtSteps
  split
  · unfold heights at h ⊢
    simp only [Array.toList_map, List.map_map, List.pairwise_map] at h ⊢
    refine List.Pairwise.imp ?_ h
    intro a b hab
    exact S.mono _ _ hab
  · exact h

end Kodama
