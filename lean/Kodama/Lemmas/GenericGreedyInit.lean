/-
C03 for `generic_with`, part 3: the initial nearest-neighbour scan establishes the lower-bound
invariant `LB` (every priority written is the exact minimum of its row).
-/
import Kodama.Lemmas.GenericGreedyLB
set_option linter.unusedSectionVars false
set_option linter.unusedSimpArgs false
set_option linter.unusedVariables false
namespace Kodama
open Spec
variable {α : Type} [Num α]

/-- The running minimum of the initial scan of one row. -/
theorem initScanFold_min (L : OrderLaws α) (chk : Bool) (M : Mat α) (row : Nat) :
    ∀ (l : List Nat) (acc r : Nat × α),
      (∀ c ∈ l, ∀ v, M.get chk row c = .ok v → Num.isNaN v = false) →
      Num.isNaN acc.2 = false →
      l.foldlM (initScanStep chk M row) acc = .ok r →
      Num.isNaN r.2 = false ∧ Num.lt acc.2 r.2 = false ∧
        ∀ c ∈ l, ∀ v, M.get chk row c = .ok v → Num.lt v r.2 = false := by
  intro l
  induction l with
  | nil =>
    intro acc r _ hacc h
    have : acc = r := by simpa [List.foldlM, pure, Except.pure] using h
    subst this
    exact ⟨hacc, L.irrefl _, fun x hx => by cases hx⟩
  | cons x xs ih =>
    intro acc r hnn hacc h
    simp only [List.foldlM] at h
    obtain ⟨acc1, h1, h2⟩ := bind_ok.mp h
    unfold initScanStep at h1
    obtain ⟨v, hv, h1⟩ := bind_ok.mp h1
    have hvn : Num.isNaN v = false := hnn x List.mem_cons_self v hv
    have hnn' : ∀ y ∈ xs, ∀ w, M.get chk row y = .ok w → Num.isNaN w = false :=
      fun y hy => hnn y (List.mem_cons_of_mem _ hy)
    have e := pure_ok.mp h1
    by_cases hlt : Num.lt v acc.2 = true
    · rw [if_pos hlt] at e
      subst e
      obtain ⟨r1, r2, r3⟩ := ih (x, v) r hnn' hvn h2
      refine ⟨r1, L.le_trans r.2 v acc.2 hvn r2 (L.asymm _ _ hlt), ?_⟩
      intro y hy w hw
      rcases List.mem_cons.mp hy with e | e
      · subst e
        rw [hv] at hw; injection hw with hw
        rw [← hw]; exact r2
      · exact r3 y e w hw
    · rw [if_neg hlt] at e
      subst e
      obtain ⟨r1, r2, r3⟩ := ih acc r hnn' hacc h2
      refine ⟨r1, r2, ?_⟩
      intro y hy w hw
      rcases List.mem_cons.mp hy with e | e
      · subst e
        rw [hv] at hw; injection hw with hw
        rw [← hw]
        exact L.le_trans r.2 acc.2 v hacc r2 (by simpa using hlt)
      · exact r3 y e w hw

theorem mem_drop_range' (n k x : Nat) (h1 : k ≤ x) (h2 : x < n) : x ∈ (List.range n).drop k := by
  apply List.mem_iff_getElem?.mpr
  refine ⟨x - k, ?_⟩
  rw [List.getElem?_drop]
  have : k + (x - k) = x := by omega
  rw [this]
  simp [h2]

/-- **`LB` initially.**  After the scan every priority that is not the untouched sentinel is a
lower bound of its row; the rows with a larger neighbour have good (hence non-sentinel)
priorities. -/
theorem genericInit_lb {G : α → Prop} {n : Nat} {M : Mat α} (L : OrderLaws α) (gs : GoodSet G)
    (chk : Bool) (hM : MGood G n M) (init : Array α × Array Nat)
    (e : (List.range (n - 1)).foldlM (genericInitRow chk M n)
        (Array.replicate n Num.maxValue, Array.replicate n 0) = .ok init)
    (hgood : ∀ x y, x < y → y < n → ∃ p, init.1[x]? = some p ∧ G p) :
    LB chk M (List.range n) init.1 := by
  let P : Array α × Array Nat → Prop := fun s =>
    ∀ row p, s.1[row]? = some p → p = Num.maxValue ∨
      ∀ col v, row < col → col < n → M.get chk row col = .ok v → Num.lt v p = false
  have key : P init := by
    apply foldlM_inv P (genericInitRow chk M n) (List.range (n - 1)) ?_ _ init ?_ e
    · intro s row s' hrow hP h
      obtain ⟨d, nr⟩ := s
      have hrow' : row + 1 < n := by have := List.mem_range.mp hrow; omega
      rw [genericInitRow_eq] at h
      obtain ⟨v0, hv0, h⟩ := bind_ok.mp h
      obtain ⟨⟨c, p⟩, hfold, h⟩ := bind_ok.mp h
      simp only [] at h
      obtain ⟨d', hd', h⟩ := bind_ok.mp h
      obtain ⟨nr', _, h⟩ := bind_ok.mp h
      have es := pure_ok.mp h
      subst es
      obtain ⟨hdn, hd'⟩ := aset_ok.mp hd'
      subst hd'
      obtain ⟨v0', hv0', g0⟩ := hM.get chk row (row + 1) (by omega) hrow'
      rw [hv0] at hv0'; cases hv0'
      obtain ⟨_, _, hmin⟩ := initScanFold_min L chk M row _ (row + 1, v0) (c, p)
        (by
          intro col hcol w hw
          have hc := mem_drop_range n (row + 1) col hcol
          obtain ⟨w', hw', gw⟩ := hM.get chk row col (by omega) hc.2
          rw [hw] at hw'; cases hw'
          exact gs.notNaN _ gw)
        (gs.notNaN _ g0) hfold
      intro r q hq
      simp only [Array.getElem?_set] at hq
      by_cases hr : row = r
      · subst hr
        simp only [if_true, Option.some.injEq] at hq
        subst hq
        right
        intro col v hc1 hc2 hv
        exact hmin col (mem_drop_range' n (row + 1) col (by omega) hc2) v hv
      · simp only [hr, if_false] at hq
        exact hP r q hq
    · intro row p hp
      left
      simp only [Array.getElem?_replicate] at hp
      split at hp
      · cases hp; rfl
      · cases hp
  intro x hx y hy hxy p v hp hv
  have hyn : y < n := List.mem_range.mp hy
  rcases key x p hp with h | h
  · exfalso
    obtain ⟨p', hp', gp⟩ := hgood x y hxy hyn
    rw [hp] at hp'; cases hp'
    have := gs.ltMax p gp
    rw [h, L.irrefl] at this
    cases this
  · exact h y v hxy hyn hv

end Kodama
