/- Component maps of `Spec.RawTree`: processing edges from the left, appending an edge at the end. -/
import Kodama.Spec.RawTree
namespace Kodama.Spec

/-- The component map after processing all of `es`. -/
def compAfter (c : Nat → Nat) (es : List (Nat × Nat)) : Nat → Nat :=
  es.foldl (fun c e => joinComp c e.1 e.2) c

@[simp] theorem compAfter_nil (c : Nat → Nat) : compAfter c [] = c := rfl

@[simp] theorem compAfter_cons (c : Nat → Nat) (e : Nat × Nat) (es : List (Nat × Nat)) :
    compAfter c (e :: es) = compAfter (joinComp c e.1 e.2) es := rfl

theorem compAfter_append (c : Nat → Nat) (es fs : List (Nat × Nat)) :
    compAfter c (es ++ fs) = compAfter (compAfter c es) fs := by
  simp [compAfter, List.foldl_append]

theorem allEff_append_singleton (c : Nat → Nat) (es : List (Nat × Nat)) (u v : Nat) :
    AllEff c (es ++ [(u, v)]) ↔ AllEff c es ∧ compAfter c es u ≠ compAfter c es v := by
  induction es generalizing c with
  | nil => simp [AllEff]
  | cons e es ih =>
    obtain ⟨a, b⟩ := e
    simp only [List.cons_append, AllEff, compAfter_cons, ih, and_assoc]

end Kodama.Spec
