/- Facts about strictly increasing lists (the abstract view of the active list). -/
namespace Kodama

/-- In a strictly increasing list, the elements `≥ r` with `r` itself a member: `r` comes first and
everything after it is strictly larger. -/
theorem sorted_filter_ge_drop (l : List Nat) (hs : l.Pairwise (· < ·)) (r : Nat) (hr : r ∈ l) :
    (l.filter (fun x => decide (r ≤ x))).head? = some r ∧
    ∀ x ∈ (l.filter (fun x => decide (r ≤ x))).drop 1, r < x ∧ x ∈ l := by
  induction l with
  | nil => cases hr
  | cons a l ih =>
    rw [List.pairwise_cons] at hs
    by_cases hra : r = a
    · subst hra
      have : (List.filter (fun x => decide (r ≤ x)) (r :: l)) = r :: l := by
        apply List.filter_eq_self.mpr
        intro x hx
        rcases List.mem_cons.mp hx with h | h
        · simp [h]
        · have := hs.1 x h; simp; omega
      rw [this]
      refine ⟨rfl, ?_⟩
      intro x hx
      simp only [List.drop_one, List.tail_cons] at hx
      exact ⟨hs.1 x hx, List.mem_cons_of_mem _ hx⟩
    · have hrl : r ∈ l := by
        rcases List.mem_cons.mp hr with h | h
        · exact absurd h hra
        · exact h
      have har : a < r := hs.1 r hrl
      have : ¬ r ≤ a := by omega
      rw [List.filter_cons]
      simp only [this, decide_false, Bool.false_eq_true, if_false]
      obtain ⟨h1, h2⟩ := ih hs.2 hrl
      exact ⟨h1, fun x hx => ⟨(h2 x hx).1, List.mem_cons_of_mem _ (h2 x hx).2⟩⟩

/-- Filtering a strictly increasing list by a window keeps members and bounds. -/
theorem mem_filter_window (l : List Nat) (lo hi x : Nat)
    (hx : x ∈ l.filter (fun x => decide (lo ≤ x) && decide (x < hi))) : x ∈ l ∧ lo ≤ x ∧ x < hi := by
  simp only [List.mem_filter, Bool.and_eq_true, decide_eq_true_eq] at hx
  exact hx

/-- Window `[a, b)` of a strictly increasing list containing `a`: after dropping the first element
(`a` itself) every remaining element is strictly between `a` and `b`. -/
theorem sorted_window_drop (l : List Nat) (hs : l.Pairwise (· < ·)) (a b : Nat) (ha : a ∈ l) :
    ∀ x ∈ (l.filter (fun x => decide (a ≤ x) && decide (x < b))).drop 1, a < x ∧ x < b ∧ x ∈ l := by
  intro x hx
  -- the window is the `< b` part of the `≥ a` part
  have e : l.filter (fun x => decide (a ≤ x) && decide (x < b))
      = (l.filter (fun x => decide (a ≤ x))).filter (fun x => decide (x < b)) := by
    rw [List.filter_filter]
    congr 1; funext y; exact Bool.and_comm _ _
  rw [e] at hx
  obtain ⟨hh, hd⟩ := sorted_filter_ge_drop l hs a ha
  -- case on the `≥ a` list
  cases hge : l.filter (fun x => decide (a ≤ x)) with
  | nil => rw [hge] at hh; cases hh
  | cons y ys =>
    rw [hge] at hh hx hd
    simp only [List.head?_cons, Option.some.injEq] at hh
    subst hh
    rw [List.filter_cons] at hx
    by_cases hyb : y < b
    · simp only [hyb, decide_true, if_true, List.drop_one, List.tail_cons] at hx
      have hxm := List.mem_filter.mp hx
      have := hd x (by simpa using hxm.1)
      exact ⟨this.1, by simpa using hxm.2, this.2⟩
    · -- y ≥ b: then nothing in ys is < b either, so the filtered list is empty
      simp only [hyb, decide_false, Bool.false_eq_true, if_false] at hx
      have hx' := List.mem_of_mem_drop hx
      have hxm := List.mem_filter.mp hx'
      have := hd x (by simpa using hxm.1)
      have hxb : x < b := by simpa using hxm.2
      omega

theorem sum_map_filter_ne (f : Nat → Nat) (l : List Nat) (hnd : l.Nodup) (a : Nat) (ha : a ∈ l) :
    ((l.filter (fun x => decide (x ≠ a))).map f).sum + f a = (l.map f).sum := by
  induction l with
  | nil => cases ha
  | cons y l ih =>
    rw [List.nodup_cons] at hnd
    by_cases hya : y = a
    · subst hya
      have h1 : List.filter (fun x => decide (x ≠ y)) l = l := by
        apply List.filter_eq_self.mpr
        intro x hx
        have : x ≠ y := fun h => hnd.1 (h ▸ hx)
        simp [this]
      rw [List.filter_cons]
      have : decide (y ≠ y) = false := by simp
      rw [this]
      simp only [Bool.false_eq_true, if_false, h1, List.map_cons, List.sum_cons]
      omega
    · have hm : a ∈ l := by
        rcases List.mem_cons.mp ha with h | h
        · exact absurd h.symm hya
        · exact h
      have := ih hnd.2 hm
      rw [List.filter_cons]
      have hd : decide (y ≠ a) = true := by simp [hya]
      rw [if_pos hd]
      simp only [List.map_cons, List.sum_cons]
      omega

end Kodama
