/-
Value invariant of the main loop of `mst_with` (on top of the bookkeeping invariant `MstInv`):
the vertices are added in an order `ord` (Prim order), the raw step recorded when `ord[t+1]` is
added joins `ord[t]` and `ord[t+1]` (a Hamiltonian PATH, not the tree edge), and its weight is — up
to order-equivalence — the minimum weight crossing the cut `(ord[0..t], rest)`, attained at the new
vertex.

Number laws: `OrderLaws`; input hypotheses `NoNaN` and `InfTop` (the sentinel `infinity` the slots
are initialised with is not NaN and not below any entry).
-/
import Kodama.Lemmas.MstPrimScan
import Kodama.Lemmas.MstRun
namespace Kodama
open Spec
variable {α : Type} [Num α]

/-- The sentinel `T::infinity()` is not NaN and no off-diagonal entry lies strictly above it. -/
def InfTop (n : Nat) (data : Array α) : Prop :=
  Num.isNaN (Num.infinity : α) = false ∧
  ∀ u v, u < n → v < n → u ≠ v →
    Num.lt (Num.infinity : α) (entry n data Num.infinity u v) = false

/-- `w` is a minimum (in the sense of `OrderLaws`: a lower bound that is reached up to
order-equivalence) of the entries crossing the cut `(T, complement)`, reached at vertex `b`. -/
structure IsMinCross (n : Nat) (data : Array α) (T : List Nat) (b : Nat) (w : α) : Prop where
  nn : Num.isNaN w = false
  lb : ∀ u ∈ T, ∀ x, x < n → x ∉ T → Num.lt (entry n data Num.infinity u x) w = false
  att : ∃ u ∈ T, Num.lt w (entry n data Num.infinity u b) = false

/-- Raw steps `rs` along the vertex order `ord`: step `t` joins `ord[t]` and `ord[t+1]` with the
minimum crossing weight of the cut after `ord[0..t]`. -/
def PathSteps (n : Nat) (data : Array α) (ord : List Nat) (rs : List (Step α)) : Prop :=
  ∀ (t : Nat) (s : Step α), rs[t]? = some s → ∃ a b, ord[t]? = some a ∧ ord[t + 1]? = some b ∧
    ((s.c1 = a ∧ s.c2 = b) ∨ (s.c1 = b ∧ s.c2 = a)) ∧
    IsMinCross n data (ord.take (t + 1)) b s.d

/-- Value invariant after `k` merges. -/
structure ValInv (n : Nat) (data : Array α) (k : Nat) (live : List Nat) (st : State α)
    (dend : Dendrogram α) (cluster : Nat) (ord : List Nat) : Prop where
  len : ord.length = k + 1
  nodup : ord.Nodup
  last : ord[k]? = some cluster
  mem : ∀ x, x < n → (x ∈ ord ↔ x ∉ live)
  lt_n : ∀ x ∈ ord, x < n
  steps : PathSteps n data ord dend.steps.toList
  md_nn : ∀ (x : Nat) (w : α), st.minDists[x]? = some w → Num.isNaN w = false
  md_lb : ∀ x ∈ live, ∀ w : α, st.minDists[x]? = some w → ∀ u ∈ ord, u ≠ cluster →
    Num.lt (entry n data Num.infinity u x) w = false
  md_ub : ∀ x ∈ live, ∀ w : α, st.minDists[x]? = some w →
    ∃ u ∈ ord, Num.lt w (entry n data Num.infinity u x) = false

/-- One iteration, explicitly: the two scans, then the merge. -/
theorem mstIter_eq (chk : Bool) (n k : Nat) (live : List Nat) (st : State α) (dend : Dendrogram α)
    (M : Mat α) (cluster : Nat) (hk : k + 1 < n) (inv : MstInv n k live st dend M cluster) :
    ∃ m0 lrest sc1 sc2 act' hm0,
      live = m0 :: lrest ∧
      (live.filter (fun x => decide (x < cluster))).foldlM (mstScanStep chk cluster true)
        (⟨st.minDists, m0, st.minDists[m0]'hm0, M⟩ : MstScan α) = .ok sc1 ∧
      (live.filter (fun x => decide (cluster ≤ x) && decide (x < n))).foldlM
        (mstScanStep chk cluster false) sc1 = .ok sc2 ∧
      sc2.minObs ∈ live ∧
      act'.Rep (live.filter (· ≠ sc2.minObs)) n ∧
      mstIter chk (st, dend, M, cluster) = .ok
        ({ st with minDists := sc2.minDists, sizes := st.sizes.setIfInBounds cluster 2, active := act' },
         { dend with steps := dend.steps.push (Step.new sc2.minObs cluster sc2.minDist 2) },
         sc2.M, sc2.minObs) := by
  have hsorted := inv.rep.sorted
  have hltn := inv.rep.lt_n
  obtain ⟨m0, lrest, hlive⟩ : ∃ m0 lrest, live = m0 :: lrest := by
    cases hl : live with
    | nil => have := inv.llen; rw [hl] at this; simp at this; omega
    | cons a b => exact ⟨a, b, rfl⟩
  have hm0 : m0 ∈ live := by rw [hlive]; exact List.mem_cons_self
  have hm0n : m0 < n := hltn m0 hm0
  have hr1 := inv.rep.range none (some cluster) (by simp) (by intro u hu; cases hu; exact Nat.le_of_lt inv.cl_lt)
  have hr2 := inv.rep.range (some cluster) none (by intro l hl; cases hl; exact Nat.le_of_lt inv.cl_lt) (by simp)
  simp only [Option.getD_none, Option.getD_some, Nat.zero_le, decide_true, Bool.true_and] at hr1 hr2
  obtain ⟨r1, hr1def⟩ : ∃ r1, r1 = live.filter (fun x => decide (x < cluster)) := ⟨_, rfl⟩
  obtain ⟨r2, hr2def⟩ : ∃ r2, r2 = live.filter (fun x => decide (cluster ≤ x) && decide (x < n)) := ⟨_, rfl⟩
  rw [← hr1def] at hr1
  rw [← hr2def] at hr2
  have hr1mem : ∀ x ∈ r1, x < n ∧ (if true then x < cluster else cluster < x) := by
    intro x hx
    simp only [hr1def, List.mem_filter, decide_eq_true_eq] at hx
    exact ⟨hltn x hx.1, by simpa using hx.2⟩
  have hr2mem : ∀ x ∈ r2, x < n ∧ (if false then x < cluster else cluster < x) := by
    intro x hx
    simp only [hr2def, List.mem_filter, Bool.and_eq_true, decide_eq_true_eq] at hx
    have hne : x ≠ cluster := fun h => inv.cl_not (h ▸ hx.1)
    refine ⟨hx.2.2, ?_⟩
    simp only [Bool.false_eq_true, if_false]
    omega
  have hmd0 : m0 < st.minDists.size := by rw [inv.md_sz]; exact hm0n
  obtain ⟨sc1, e1, a1, a2, a3, a4, a5⟩ := mstScan_ok chk n cluster true r1
    (⟨st.minDists, m0, st.minDists[m0], M⟩ : MstScan α) inv.mvalid inv.mn inv.md_sz inv.cl_lt hr1mem
  simp only [] at a2 a3 a4 a5
  have hv1 : sc1.M.Valid := ⟨by rw [a3]; exact inv.mvalid.two_le, by rw [a3]; exact inv.mvalid.small,
    by rw [a2, a3]; exact inv.mvalid.size⟩
  obtain ⟨sc2, e2, b1, b2, b3, b4, b5⟩ := mstScan_ok chk n cluster false r2 sc1 hv1
    (by rw [a3]; exact inv.mn) a1 inv.cl_lt hr2mem
  have hmin_live : sc2.minObs ∈ live := by
    have h1 : sc1.minObs ∈ live := by
      rcases a5 with h | h
      · rw [h]; exact hm0
      · rw [hr1def] at h; exact (List.mem_filter.mp h).1
    rcases b5 with h | h
    · rw [h]; exact h1
    · rw [hr2def] at h; exact (List.mem_filter.mp h).1
  have hmin_n : sc2.minObs < n := hltn _ hmin_live
  have hs1 : st.sizes[sc2.minObs]? = some 1 := inv.sizes_live _ hmin_live
  have hs2 : st.sizes[cluster]? = some 1 := inv.sizes_cl
  have hclsz : cluster < st.sizes.size := by rw [inv.sizes_sz]; exact inv.cl_lt
  have hs2' : st.sizes[cluster] = 1 := by
    have := Array.getElem?_eq_some_iff.mp hs2
    obtain ⟨_, h⟩ := this; exact h
  obtain ⟨act', hrem, hrep'⟩ := inv.rep.remove chk sc2.minObs hmin_n
  have hpush : dend.steps.size < dend.obs - 1 := by rw [inv.steps_sz, inv.obs]; omega
  refine ⟨m0, lrest, sc1, sc2, act', hmd0, hlive, by rw [← hr1def]; exact e1,
    by rw [← hr2def]; exact e2, hmin_live, hrep', ?_⟩
  unfold mstIter
  simp only [bind, Except.bind, inv.rep.iter, hlive, List.head?_cons, unwrap, aget, hmd0,
    getElem?_pos, hr1, hr2, e1, e2, State.merge, hs1, uadd, aset, hclsz,
    dite_true, Dendrogram.push, guard', hpush, decide_true, if_true, pure, Except.pure]
  have h2 : (1 + 1 < usizeMod) := by unfold usizeMod; omega
  simp only [hs2', h2, if_true, hrem]
  simp [Array.setIfInBounds, hclsz]

theorem Rep_live_unique {s : Active} {l l' : List Nat} {n : Nat} (h : s.Rep l n)
    (h' : s.Rep l' n) : l = l' := by
  have e := h.iter
  rw [h'.iter] at e
  cases e; rfl

/-- The value invariant is re-established by one iteration. -/
theorem mstIter_val (L : OrderLaws α) (chk : Bool) (n k : Nat) (data : Array α) (live : List Nat)
    (st : State α) (dend : Dendrogram α) (M : Mat α) (cluster : Nat) (ord : List Nat)
    (hnan : NoNaN n data) (hk : k + 1 < n) (inv : MstInv n k live st dend M cluster)
    (hdata : M.data = data) (val : ValInv n data k live st dend cluster ord) :
    ∃ st' dend' M' cluster' live' ord',
      mstIter chk (st, dend, M, cluster) = .ok (st', dend', M', cluster') ∧
      MstInv n (k + 1) live' st' dend' M' cluster' ∧ M'.data = data ∧
      ValInv n data (k + 1) live' st' dend' cluster' ord' := by
  obtain ⟨st', dend', M', cluster', live', e, inv', hdata'⟩ :=
    mstIter_ok chk n k live st dend M cluster hk inv
  refine ⟨st', dend', M', cluster', live', ord ++ [cluster'], e, inv', by rw [hdata', hdata], ?_⟩
  obtain ⟨m0, lrest, sc1, sc2, act', hm0, hlive, e1, e2, hmin_live, hrep', e'⟩ :=
    mstIter_eq chk n k live st dend M cluster hk inv
  rw [e'] at e
  simp only [Except.ok.injEq, Prod.mk.injEq] at e
  obtain ⟨est, edend, eM, ecl⟩ := e
  subst ecl
  have hltn := inv.rep.lt_n
  have hnd : live.Nodup := inv.rep.nodup
  have h2 := inv.mvalid.two_le
  have hs := inv.mvalid.small
  have hl := inv.mvalid.size
  rw [inv.mn] at h2 hs hl
  rw [hdata] at hl
  -- the live list afterwards
  have hlive' : live' = live.filter (· ≠ sc2.minObs) := by
    have h1 := inv'.rep
    rw [← est] at h1
    exact Rep_live_unique h1 hrep'
  have hmem' : ∀ x, x ∈ live' ↔ x ∈ live ∧ x ≠ sc2.minObs := by
    intro x; simp [hlive', List.mem_filter]
  -- scan invariant
  have hinv0 : ScanInv n data st.minDists (fun y => entry n data Num.infinity y cluster)
      (fun _ => False) (⟨st.minDists, m0, st.minDists[m0], M⟩ : MstScan α) :=
    ⟨inv.md_sz, inv.mn, hdata, fun x hx => hx.elim, fun x _ => rfl, by simp, fun y hy => hy.elim,
      val.md_nn⟩
  have hne_cl : ∀ x ∈ live, x ≠ cluster := fun x hx h => inv.cl_not (h ▸ hx)
  have hinv1 := ScanInv.fold L chk h2 hs hl inv.cl_lt _ _ _ _ hinv0 (hnd.filter _)
    (by
      intro x hx
      simp only [List.mem_filter, decide_eq_true_eq] at hx
      exact ⟨hltn x hx.1, by simpa using hx.2, fun h => h,
        hnan x cluster (hltn x hx.1) inv.cl_lt (hne_cl x hx.1)⟩) e1
  have hinv2 := ScanInv.fold L chk h2 hs hl inv.cl_lt _ _ _ _ hinv1 (hnd.filter _)
    (by
      intro x hx
      simp only [List.mem_filter, Bool.and_eq_true, decide_eq_true_eq] at hx
      have hne := hne_cl x hx.1
      refine ⟨hx.2.2, ?_, ?_, hnan x cluster hx.2.2 inv.cl_lt hne⟩
      · simp only [Bool.false_eq_true, if_false]; omega
      · rintro (h | h)
        · simp only [List.mem_filter, decide_eq_true_eq] at h; omega
        · exact h) e2
  have fin : ScanInv n data st.minDists (fun y => entry n data Num.infinity y cluster)
      (fun y => y ∈ live) sc2 := by
    refine hinv2.congr (fun y => ?_)
    simp only [List.mem_filter, Bool.and_eq_true, decide_eq_true_eq, or_false]
    constructor
    · rintro (h | h)
      · exact h.1
      · exact h.1
    · intro h
      have := hltn y h
      have := hne_cl y h
      by_cases hc : y < cluster
      · exact Or.inr ⟨h, hc⟩
      · exact Or.inl ⟨h, by omega, by omega⟩
  -- the slots after the scan
  have hslot : ∀ x ∈ live, ∃ hx : x < st.minDists.size, sc2.minDists[x]? =
      some (Gen.single (entry n data Num.infinity x cluster) st.minDists[x]) := by
    intro x hx
    have hxs : x < st.minDists.size := by rw [inv.md_sz]; exact hltn x hx
    exact ⟨hxs, fin.upd x hx _ (by simp [hxs])⟩
  have hmlb : ∀ x ∈ live, ∀ w : α, sc2.minDists[x]? = some w → ∀ u ∈ ord,
      Num.lt (entry n data Num.infinity u x) w = false := by
    intro x hx w hw u hu
    obtain ⟨hxs, hsl⟩ := hslot x hx
    rw [hsl] at hw
    cases hw
    have hxn := hltn x hx
    by_cases huc : u = cluster
    · subst huc
      apply single_le_of_le_left L _ _ _ (hnan x u hxn inv.cl_lt (hne_cl x hx))
      rw [entry_symm]; exact L.irrefl _
    · exact single_le_of_le_right L _ _ _ (val.md_nn x _ (by simp [hxs]))
        (val.md_lb x hx _ (by simp [hxs]) u hu huc)
  have hmub : ∀ x ∈ live, ∀ w : α, sc2.minDists[x]? = some w → ∃ u ∈ ord,
      Num.lt w (entry n data Num.infinity u x) = false := by
    intro x hx w hw
    obtain ⟨hxs, hsl⟩ := hslot x hx
    rw [hsl] at hw
    cases hw
    rcases single_cases (entry n data Num.infinity x cluster) st.minDists[x] with e0 | e0
    · refine ⟨cluster, List.mem_of_getElem? val.last, ?_⟩
      rw [e0, entry_symm]; exact L.irrefl _
    · rw [e0]
      exact val.md_ub x hx _ (by simp [hxs])
  have hmin_n : sc2.minObs < n := hltn _ hmin_live
  have hmin_notin : sc2.minObs ∉ ord := fun h => ((val.mem _ hmin_n).1 h) hmin_live
  have hcl_in : cluster ∈ ord := List.mem_of_getElem? val.last
  refine
    { len := by simp [val.len]
      nodup := by
        rw [List.nodup_append]
        refine ⟨val.nodup, by simp, ?_⟩
        intro a ha b hb
        simp only [List.mem_singleton] at hb
        subst hb
        exact fun h => hmin_notin (h ▸ ha)
      last := by
        rw [List.getElem?_append_right (by rw [val.len]; omega)]
        simp [val.len]
      mem := by
        intro x hx
        rw [List.mem_append, hmem', val.mem x hx]
        simp only [List.mem_singleton]
        constructor
        · rintro (h | h)
          · exact fun h' => h h'.1
          · exact fun h' => h'.2 h
        · intro h
          by_cases hxl : x ∈ live
          · right
            exact Classical.byContradiction (fun hne => h ⟨hxl, hne⟩)
          · exact Or.inl hxl
      lt_n := by
        intro x hx
        rcases List.mem_append.mp hx with h | h
        · exact val.lt_n x h
        · simp only [List.mem_singleton] at h; rw [h]; exact hmin_n
      steps := ?_
      md_nn := by rw [← est]; exact fin.nn
      md_lb := by
        intro x hx w hw u hu hne
        rw [← est] at hw
        have hx' := (hmem' x).1 hx
        rcases List.mem_append.mp hu with h | h
        · exact hmlb x hx'.1 w hw u h
        · simp only [List.mem_singleton] at h; exact absurd h hne
      md_ub := by
        intro x hx w hw
        rw [← est] at hw
        have hx' := (hmem' x).1 hx
        obtain ⟨u, hu, h⟩ := hmub x hx'.1 w hw
        exact ⟨u, List.mem_append_left _ hu, h⟩ }
  -- the recorded steps
  intro t s hts
  rw [← edend] at hts
  simp only [Array.toList_push] at hts
  by_cases htk : t < k
  · rw [List.getElem?_append_left (by simp [inv.steps_sz, htk])] at hts
    obtain ⟨a, b, ha, hb, hor, hmc⟩ := val.steps t s hts
    refine ⟨a, b, ?_, ?_, hor, ?_⟩
    · rw [List.getElem?_append_left (by rw [val.len]; omega)]; exact ha
    · rw [List.getElem?_append_left (by rw [val.len]; omega)]; exact hb
    · rw [List.take_append_of_le_length (by rw [val.len]; omega)]; exact hmc
  · have htl := (List.getElem?_eq_some_iff.mp hts).1
    simp only [List.length_append, Array.length_toList, inv.steps_sz, List.length_cons,
      List.length_nil] at htl
    have : t = k := by omega
    subst this
    rw [List.getElem?_append_right (by simp [inv.steps_sz])] at hts
    simp only [Array.length_toList, inv.steps_sz, Nat.sub_self, List.getElem?_cons_zero,
      Option.some.injEq] at hts
    subst hts
    refine ⟨cluster, sc2.minObs, ?_, ?_, ?_, ?_⟩
    · rw [List.getElem?_append_left (by rw [val.len]; omega)]; exact val.last
    · rw [List.getElem?_append_right (by rw [val.len]; omega)]
      simp [val.len]
    · simp only [Step.new]
      split
      · exact Or.inl ⟨rfl, rfl⟩
      · exact Or.inr ⟨rfl, rfl⟩
    · have hd : (Step.new sc2.minObs cluster sc2.minDist 2).d = sc2.minDist := by
        simp only [Step.new]; split <;> rfl
      rw [hd, List.take_append_of_le_length (by rw [val.len]; omega),
        List.take_of_length_le (by rw [val.len]; omega)]
      have hwnn : Num.isNaN sc2.minDist = false := fin.nn _ _ fin.cur
      refine ⟨hwnn, ?_, ?_⟩
      · intro u hu x hx hxn
        have hxl : x ∈ live := Classical.byContradiction (fun h => hxn ((val.mem x hx).2 h))
        obtain ⟨hxs, hsl⟩ := hslot x hxl
        have h1 := fin.low x hxl _ hsl
        have h2' := hmlb x hxl _ hsl u hu
        exact L.le_trans _ _ _ (fin.nn _ _ hsl) h1 h2'
      · exact hmub _ hmin_live _ fin.cur

/-- What the value invariant says at the end of the loop: the raw steps are a Hamiltonian path in
Prim order with minimum-crossing weights. -/
structure PrimRun (n : Nat) (data : Array α) (ord : List Nat) (rs : List (Step α)) : Prop where
  len : ord.length = n
  nodup : ord.Nodup
  lt_n : ∀ x ∈ ord, x < n
  all : ∀ x, x < n → x ∈ ord
  rlen : rs.length = n - 1
  steps : PathSteps n data ord rs

/-- The loop of `mst_with` with the value invariant. -/
theorem mstLoop_val (L : OrderLaws α) (chk : Bool) (data : Array α) (n : Nat) (h2 : 2 ≤ n)
    (hs : n < 2147483648) (hl : 2 * data.size = n * (n - 1)) (hnan : NoNaN n data)
    (hinf : InfTop n data) :
    ∃ act0, (State.fresh n : State α).active.remove chk 0 = .ok act0 ∧
    ∃ st1 dend1 M1 c1 ord,
      iterM (mstIter chk) (n - 1)
        ({ (State.fresh n : State α) with active := act0 }, Dendrogram.new n,
          { data := data, n := n, acc := 0 }, 0) = .ok (st1, dend1, M1, c1) ∧
      MstLoopResult n data st1 dend1 M1 ∧ PrimRun n data ord dend1.steps.toList := by
  have hrep0 : (State.fresh n : State α).active.Rep (List.range n) n := Active.rep_fresh n
  obtain ⟨act0, hrem, hrep1⟩ := hrep0.remove chk 0 (by omega)
  refine ⟨act0, hrem, ?_⟩
  let live0 := (List.range n).filter (· ≠ 0)
  let st0 : State α := { (State.fresh n : State α) with active := act0 }
  let M0 : Mat α := { data := data, n := n, acc := 0 }
  have hlen0 : live0.length + 1 = n := by
    have := filter_ne_length 0 (List.range n) List.nodup_range (by simp; omega)
    simpa [live0] using this
  have hinv0 : MstInv n 0 live0 st0 (Dendrogram.new n) M0 0 :=
    { rep := hrep1
      llen := by omega
      cl_lt := by omega
      cl_not := by simp [live0]
      sizes_sz := by simp [st0, State.fresh]
      sizes_live := by
        intro x hx
        have : x < n := by
          have := (List.mem_filter.mp hx).1; simpa using this
        simp [st0, State.fresh, this]
      sizes_cl := by
        have : 0 < n := by omega
        simp [st0, State.fresh, this]
      md_sz := by simp [st0, State.fresh]
      obs := rfl
      steps_sz := rfl
      mvalid := ⟨h2, hs, hl⟩
      mn := rfl
      acc := by
        have : live0.length = n - 1 := by omega
        rw [this]
        have : n - 1 + 1 = n := by omega
        rw [this]; simp only [M0, Nat.mul_zero, Nat.zero_add]; exact Nat.mul_comm _ _
      eff := by simp [rawOf, Dendrogram.new, AllEff]
      inRange := by simp [rawOf, Dendrogram.new]
      comp := ⟨0, by simp [live0], by omega,
        by
          intro x hx hnot
          simp only [rawOf, Dendrogram.new, List.map_nil, compAfter_nil, id]
          by_cases h0 : x = 0
          · exact h0
          · exfalso; apply hnot; simp [live0, hx, h0],
        by intro x _; simp [rawOf, Dendrogram.new]⟩ }
  have hmem0 : ∀ x, x ∈ live0 ↔ x < n ∧ x ≠ 0 := by
    intro x; simp [live0, List.mem_filter]
  have hmd0 : ∀ (x : Nat) (w : α), st0.minDists[x]? = some w → w = Num.infinity := by
    intro x w hw
    simp only [st0, State.fresh] at hw
    have := Array.getElem?_eq_some_iff.mp hw
    obtain ⟨_, h⟩ := this
    simpa using h.symm
  have hval0 : ValInv n data 0 live0 st0 (Dendrogram.new n) 0 [0] :=
    { len := rfl
      nodup := by simp
      last := rfl
      mem := by
        intro x hx
        rw [hmem0]
        simp only [List.mem_singleton]
        constructor
        · intro h h'; exact h'.2 h
        · intro h
          exact Classical.byContradiction (fun hne => h ⟨hx, hne⟩)
      lt_n := by intro x hx; simp only [List.mem_singleton] at hx; omega
      steps := by intro t s hts; simp [Dendrogram.new] at hts
      md_nn := by intro x w hw; rw [hmd0 x w hw]; exact hinf.1
      md_lb := by
        intro x _ w _ u hu hne
        simp only [List.mem_singleton] at hu
        exact absurd hu hne
      md_ub := by
        intro x hx w hw
        rw [hmd0 x w hw]
        have hx' := (hmem0 x).1 hx
        exact ⟨0, by simp, hinf.2 0 x (by omega) hx'.1 (Ne.symm hx'.2)⟩ }
  have key := iterM_ok
    (fun j (s : State α × Dendrogram α × Mat α × Nat) =>
      ∃ live ord, MstInv n j live s.1 s.2.1 s.2.2.1 s.2.2.2 ∧ s.2.2.1.data = data ∧
        ValInv n data j live s.1 s.2.1 s.2.2.2 ord)
    (mstIter chk) (n - 1) 0 (st0, Dendrogram.new n, M0, 0)
    (by
      intro j s hj ⟨live, ord, hinv, hd, hval⟩
      obtain ⟨st, dend, M, cl⟩ := s
      simp only [Nat.zero_add] at hinv hval ⊢
      obtain ⟨st', dend', M', cl', live', ord', e, hinv', hd', hval'⟩ :=
        mstIter_val L chk n j data live st dend M cl ord hnan (by omega) hinv hd hval
      exact ⟨(st', dend', M', cl'), e, live', ord', hinv', hd', hval'⟩)
    ⟨live0, [0], by simpa using hinv0, rfl, by simpa using hval0⟩
  obtain ⟨⟨st1, dend1, M1, c1⟩, e, live, ord, hinv, hd, hval⟩ := key
  simp only [Nat.zero_add] at hinv hd hval
  refine ⟨st1, dend1, M1, c1, ord, e, ?_, ?_⟩
  · have hl0 : live.length = 0 := by have := hinv.llen; omega
    exact
      { obs := hinv.obs
        steps_sz := hinv.steps_sz
        raw := ⟨by simp [rawOf, hinv.steps_sz], hinv.inRange, hinv.eff⟩
        data_eq := hd
        mn := hinv.mn
        acc := by have := hinv.acc; rw [hl0] at this; simpa using this }
  · have hl0 : live = [] := by
      have := hinv.llen
      exact List.eq_nil_of_length_eq_zero (by omega)
    exact
      { len := by rw [hval.len]; omega
        nodup := hval.nodup
        lt_n := hval.lt_n
        all := by intro x hx; rw [hval.mem x hx, hl0]; simp
        rlen := by simp [hinv.steps_sz]
        steps := hval.steps }

/-- `mstWith` on a valid matrix without NaN: the loop leaves a Prim path, then `relabel`. -/
theorem mstWith_prim (L : OrderLaws α) (chk : Bool) (st : State α) (d : Dendrogram α)
    (data : Array α) (n : Nat) (h2 : 2 ≤ n) (hs : n < 2147483648)
    (hl : 2 * data.size = n * (n - 1)) (hnan : NoNaN n data) (hinf : InfTop n data) :
    ∃ st1 dend1 M1 ord, MstLoopResult n data st1 dend1 M1 ∧
      PrimRun n data ord dend1.steps.toList ∧
      mstWith chk st d data n =
        (relabel .single st1.set dend1 >>= fun r => pure ({ st1 with set := r.1 }, r.2, M1)) := by
  obtain ⟨act0, hrem, st1, dend1, M1, c1, ord, hloop, hres, hrun⟩ :=
    mstLoop_val L chk data n h2 hs hl hnan hinf
  refine ⟨st1, dend1, M1, ord, hres, hrun, ?_⟩
  unfold mstWith
  rw [Mat.new_ok chk data n h2 hs hl]
  have hn0 : ¬ n = 0 := by omega
  simp only [bind, Except.bind, hn0, if_false, State.reset_eq_fresh, dendrogramReset_eq, hrem,
    hloop]

end Kodama
