/-
Single linkage at specification level: along any greedy run of `Spec.Naive` with `m = .single`
the table entry `D x y` is the minimum of the input matrix over `leaves x × leaves y`
(lower bound + attained), heights never decrease, and the clusters alive after the steps of height
`≤ h` are the connected components of the threshold graph `entry u v ≤ h`.

Number laws: `OrderLaws` (asymmetry and co-transitivity of `<` through non-NaN middle elements) and
the input hypothesis `NoNaN n data` (no off-diagonal entry of the matrix is NaN).  No arithmetic.
-/
import Kodama.Lemmas.SpecReplay
import Kodama.Lemmas.SpecWellFormed
import Kodama.Laws
import Mathlib.Logic.Relation
namespace Kodama.Spec

/-! ### observations beneath a label, as a relation -/

section Under
variable {α : Type}

/-- `Under n steps u l`: observation `u` lies beneath label `l` of the stepwise dendrogram. -/
inductive Under (n : Nat) (steps : List (Step α)) : Nat → Nat → Prop
  | obs (u : Nat) : u < n → Under n steps u u
  | left (u k : Nat) (st : Step α) :
      steps[k]? = some st → Under n steps u st.c1 → Under n steps u (n + k)
  | right (u k : Nat) (st : Step α) :
      steps[k]? = some st → Under n steps u st.c2 → Under n steps u (n + k)

variable {n : Nat} {steps : List (Step α)} {u l k : Nat} {st : Step α}

theorem Under.lt_n (h : Under n steps u l) : u < n := by
  induction h <;> assumption

theorem Under.eq_of_lt (h : Under n steps u l) (hl : l < n) : u = l := by
  cases h with
  | obs _ => rfl
  | left k st _ _ => omega
  | right k st _ _ => omega

theorem Under.node (h : Under n steps u (n + k)) (hst : steps[k]? = some st) :
    Under n steps u st.c1 ∨ Under n steps u st.c2 := by
  generalize hl : n + k = l at h
  cases h with
  | obs hu => omega
  | left k' st' hs hu =>
    have : k' = k := by omega
    subst this
    rw [hst] at hs
    cases hs
    exact Or.inl hu
  | right k' st' hs hu =>
    have : k' = k := by omega
    subst this
    rw [hst] at hs
    cases hs
    exact Or.inr hu

theorem under_node_iff (hst : steps[k]? = some st) :
    Under n steps u (n + k) ↔ Under n steps u st.c1 ∨ Under n steps u st.c2 :=
  ⟨fun h => h.node hst, fun h => h.elim (Under.left u k st hst) (Under.right u k st hst)⟩

theorem Under.index_lt (h : Under n steps u l) (hl : n ≤ l) : l - n < steps.length := by
  cases h with
  | obs hu => omega
  | left k st hs _ =>
    rcases List.getElem?_eq_some_iff.1 hs with ⟨h, -⟩
    omega
  | right k st hs _ =>
    rcases List.getElem?_eq_some_iff.1 hs with ⟨h, -⟩
    omega

/-- `Under` is membership in `Spec.leaves` (enough fuel, labels ordered as in a well-formed list). -/
theorem mem_leaves_iff
    (hord : ∀ (i : Nat) (s : Step α), steps[i]? = some s → s.c1 < s.c2 ∧ s.c2 < n + i)
    (fuel : Nat) : ∀ l, l < n + fuel → (u ∈ leaves n steps fuel l ↔ Under n steps u l) := by
  induction fuel with
  | zero =>
    intro l hl
    have hl' : l < n := by omega
    simp only [leaves, hl', if_true, List.mem_singleton]
    exact ⟨fun h => by subst h; exact Under.obs _ hl', fun h => h.eq_of_lt hl'⟩
  | succ f ih =>
    intro l hl
    by_cases hl' : l < n
    · simp only [leaves, hl', if_true, List.mem_singleton]
      exact ⟨fun h => by subst h; exact Under.obs _ hl', fun h => h.eq_of_lt hl'⟩
    · obtain ⟨k, rfl⟩ : ∃ k, l = n + k := ⟨l - n, by omega⟩
      simp only [leaves, hl', if_false, Nat.add_sub_cancel_left]
      cases hs : steps[k]? with
      | none =>
        simp only [List.not_mem_nil, false_iff]
        intro h
        have := h.index_lt (by omega)
        have : steps[k]? ≠ none := by
          rw [ne_eq, List.getElem?_eq_none_iff]; omega
        exact this hs
      | some s =>
        have ho := hord k s hs
        simp only [List.mem_append]
        rw [ih s.c1 (by omega), ih s.c2 (by omega), under_node_iff hs]

end Under

variable {α : Type} [Num α]

/-! ### `Gen.single` is a minimum -/

theorem single_cases (p q : α) : Gen.single p q = p ∨ Gen.single p q = q := by
  unfold Gen.single
  by_cases h : Num.lt p q = true
  · simp [h]
  · simp [h]

theorem single_le_of_le_left (L : OrderLaws α) (e p q : α) (hp : Num.isNaN p = false)
    (h : Num.lt e p = false) : Num.lt e (Gen.single p q) = false := by
  unfold Gen.single
  by_cases hpq : Num.lt p q = true
  · simpa [hpq] using h
  · have hpq' : Num.lt p q = false := by simpa using hpq
    simp only [hpq', Bool.false_eq_true, if_false]
    exact L.le_trans q p e hp hpq' h

theorem single_le_of_le_right (L : OrderLaws α) (e p q : α) (hq : Num.isNaN q = false)
    (h : Num.lt e q = false) : Num.lt e (Gen.single p q) = false := by
  unfold Gen.single
  by_cases hpq : Num.lt p q = true
  · simp only [hpq, if_true]
    exact L.le_trans p q e hq (L.asymm p q hpq) h
  · have hpq' : Num.lt p q = false := by simpa using hpq
    simpa [hpq'] using h

/-! ### the single-linkage invariant -/

/-- No off-diagonal entry of the input matrix is NaN. -/
def NoNaN (n : Nat) (data : Array α) : Prop :=
  ∀ u v, u < n → v < n → u ≠ v → Num.isNaN (entry n data Num.infinity u v) = false

/-- Invariant of the state `s` before step `i` of a single-linkage run over `steps`. -/
structure SInv (n : Nat) (data : Array α) (steps : List (Step α)) (i : Nat) (s : NState α) :
    Prop where
  cover : ∀ u, u < n → ∃ x ∈ s.live, Under n steps u x
  disj : ∀ x ∈ s.live, ∀ y ∈ s.live, ∀ u, Under n steps u x → Under n steps u y → x = y
  sub : ∀ l, l < n + i → ∃ x ∈ s.live, ∀ u, Under n steps u l → Under n steps u x
  nonempty : ∀ x ∈ s.live, ∃ u, Under n steps u x
  lb : ∀ x ∈ s.live, ∀ y ∈ s.live, x ≠ y → ∀ u v, Under n steps u x → Under n steps v y →
    Num.lt (entry n data Num.infinity u v) (s.D x y) = false
  att : ∀ x ∈ s.live, ∀ y ∈ s.live, x ≠ y → ∃ u v, Under n steps u x ∧ Under n steps v y ∧
    s.D x y = entry n data Num.infinity u v

theorem init_single_D (n : Nat) (data : Array α) (x y : Nat) :
    (init .single n data).D x y = entry n data Num.infinity x y := rfl

theorem init_SInv (L : OrderLaws α) (n : Nat) (data : Array α) (steps : List (Step α)) :
    SInv n data steps 0 (init .single n data) where
  cover := by
    intro u hu
    exact ⟨u, by simpa [init] using hu, Under.obs u hu⟩
  disj := by
    intro x hx y hy u h1 h2
    have hx' : x < n := by simpa [init] using hx
    have hy' : y < n := by simpa [init] using hy
    rw [← h1.eq_of_lt hx', ← h2.eq_of_lt hy']
  sub := by
    intro l hl
    exact ⟨l, by simpa [init] using hl, fun u h => h⟩
  nonempty := by
    intro x hx
    have hx' : x < n := by simpa [init] using hx
    exact ⟨x, Under.obs x hx'⟩
  lb := by
    intro x hx y hy _ u v h1 h2
    have hx' : x < n := by simpa [init] using hx
    have hy' : y < n := by simpa [init] using hy
    rw [h1.eq_of_lt hx', h2.eq_of_lt hy', init_single_D]
    exact L.irrefl _
  att := by
    intro x hx y hy _
    have hx' : x < n := by simpa [init] using hx
    have hy' : y < n := by simpa [init] using hy
    exact ⟨x, y, Under.obs x hx', Under.obs y hy', rfl⟩

/-- Table entries between distinct live clusters are not NaN (they are matrix entries). -/
theorem SInv.notNaN {n : Nat} {data : Array α} {steps : List (Step α)} {i : Nat} {s : NState α}
    (hs : SInv n data steps i s) (hnan : NoNaN n data) (x : Nat) (hx : x ∈ s.live) (y : Nat)
    (hy : y ∈ s.live) (hxy : x ≠ y) : Num.isNaN (s.D x y) = false := by
  obtain ⟨u, v, hu, hv, e⟩ := hs.att x hx y hy hxy
  rw [e]
  refine hnan u v hu.lt_n hv.lt_n ?_
  rintro rfl
  exact hxy (hs.disj x hx y hy u hu hv)

theorem merge_single_D_new (s : NState α) (a b y : Nat) :
    (merge .single s a b).D s.next y = Gen.single (s.D a y) (s.D b y) := by
  rw [merge_D]; simp [lw]

theorem merge_single_D_new' (s : NState α) (a b x : Nat) (hx : x ≠ s.next) :
    (merge .single s a b).D x s.next = Gen.single (s.D a x) (s.D b x) := by
  rw [merge_D]; simp [lw, hx]

theorem merge_D_old (m : Method) (s : NState α) (a b x y : Nat) (hx : x ≠ s.next)
    (hy : y ≠ s.next) : (merge m s a b).D x y = s.D x y := by
  rw [merge_D]; simp [hx, hy]

theorem merge_SInv (L : OrderLaws α) {n : Nat} {data : Array α} {steps : List (Step α)} {i : Nat}
    {s : NState α} {st : Step α} (hnan : NoNaN n data) (hst : steps[i]? = some st)
    (hinv : StInv n i s) (hs : SInv n data steps i s) (ha : Admissible .single s st) :
    SInv n data steps (i + 1) (merge .single s st.c1 st.c2) := by
  obtain ⟨ha1, ha2, ha3, -, -, -⟩ := ha
  have hnext : s.next = n + i := hinv.next
  have hU : ∀ u, Under n steps u s.next ↔ Under n steps u st.c1 ∨ Under n steps u st.c2 := by
    intro u; rw [hnext]; exact under_node_iff hst
  have hne : ∀ x ∈ s.live, x ≠ s.next := fun x hx => Nat.ne_of_lt (hinv.lt x hx)
  have hab : st.c1 ≠ st.c2 := by omega
  -- the new live list
  have hmem : ∀ x, x ∈ (merge .single s st.c1 st.c2).live ↔
      (x ∈ s.live ∧ x ≠ st.c1 ∧ x ≠ st.c2) ∨ x = s.next := mem_merge_live _ _ _ _
  -- lower bound / attainment for a pair (new, old)
  have lbNew : ∀ y ∈ s.live, y ≠ st.c1 → y ≠ st.c2 → ∀ u v, Under n steps u s.next →
      Under n steps v y →
      Num.lt (entry n data Num.infinity u v) (Gen.single (s.D st.c1 y) (s.D st.c2 y)) = false := by
    intro y hy hy1 hy2 u v hu hv
    rcases (hU u).1 hu with hu' | hu'
    · exact single_le_of_le_left L _ _ _ (hs.notNaN hnan _ ha1 _ hy (Ne.symm hy1))
        (hs.lb _ ha1 _ hy (Ne.symm hy1) u v hu' hv)
    · exact single_le_of_le_right L _ _ _ (hs.notNaN hnan _ ha2 _ hy (Ne.symm hy2))
        (hs.lb _ ha2 _ hy (Ne.symm hy2) u v hu' hv)
  have attNew : ∀ y ∈ s.live, y ≠ st.c1 → y ≠ st.c2 → ∃ u v, Under n steps u s.next ∧
      Under n steps v y ∧
      Gen.single (s.D st.c1 y) (s.D st.c2 y) = entry n data Num.infinity u v := by
    intro y hy hy1 hy2
    rcases single_cases (s.D st.c1 y) (s.D st.c2 y) with e | e
    · obtain ⟨u, v, hu, hv, e'⟩ := hs.att _ ha1 _ hy (Ne.symm hy1)
      exact ⟨u, v, (hU u).2 (Or.inl hu), hv, e.trans e'⟩
    · obtain ⟨u, v, hu, hv, e'⟩ := hs.att _ ha2 _ hy (Ne.symm hy2)
      exact ⟨u, v, (hU u).2 (Or.inr hu), hv, e.trans e'⟩
  refine ⟨?_, ?_, ?_, ?_, ?_, ?_⟩
  · -- cover
    intro u hu
    obtain ⟨x, hx, hux⟩ := hs.cover u hu
    by_cases h1 : x = st.c1
    · exact ⟨s.next, (hmem _).2 (Or.inr rfl), (hU u).2 (Or.inl (h1 ▸ hux))⟩
    · by_cases h2 : x = st.c2
      · exact ⟨s.next, (hmem _).2 (Or.inr rfl), (hU u).2 (Or.inr (h2 ▸ hux))⟩
      · exact ⟨x, (hmem _).2 (Or.inl ⟨hx, h1, h2⟩), hux⟩
  · -- disj
    intro x hx y hy u hux huy
    rcases (hmem x).1 hx with ⟨hx0, hx1, hx2⟩ | rfl
    · rcases (hmem y).1 hy with ⟨hy0, -, -⟩ | rfl
      · exact hs.disj x hx0 y hy0 u hux huy
      · rcases (hU u).1 huy with h | h
        · exact absurd (hs.disj x hx0 _ ha1 u hux h) hx1
        · exact absurd (hs.disj x hx0 _ ha2 u hux h) hx2
    · rcases (hmem y).1 hy with ⟨hy0, hy1, hy2⟩ | rfl
      · rcases (hU u).1 hux with h | h
        · exact absurd (hs.disj y hy0 _ ha1 u huy h) hy1
        · exact absurd (hs.disj y hy0 _ ha2 u huy h) hy2
      · rfl
  · -- sub
    intro l hl
    by_cases hl' : l = n + i
    · exact ⟨s.next, (hmem _).2 (Or.inr rfl), fun u h => by rw [hnext]; exact hl' ▸ h⟩
    · obtain ⟨x, hx, hsub⟩ := hs.sub l (by omega)
      by_cases h1 : x = st.c1
      · exact ⟨s.next, (hmem _).2 (Or.inr rfl), fun u h => (hU u).2 (Or.inl (h1 ▸ hsub u h))⟩
      · by_cases h2 : x = st.c2
        · exact ⟨s.next, (hmem _).2 (Or.inr rfl), fun u h => (hU u).2 (Or.inr (h2 ▸ hsub u h))⟩
        · exact ⟨x, (hmem _).2 (Or.inl ⟨hx, h1, h2⟩), hsub⟩
  · -- nonempty
    intro x hx
    rcases (hmem x).1 hx with ⟨hx0, -, -⟩ | rfl
    · exact hs.nonempty x hx0
    · obtain ⟨u, hu⟩ := hs.nonempty _ ha1
      exact ⟨u, (hU u).2 (Or.inl hu)⟩
  · -- lb
    intro x hx y hy hxy u v hu hv
    rcases (hmem x).1 hx with ⟨hx0, hx1, hx2⟩ | rfl
    · rcases (hmem y).1 hy with ⟨hy0, -, -⟩ | rfl
      · rw [merge_D_old _ _ _ _ _ _ (hne x hx0) (hne y hy0)]
        exact hs.lb x hx0 y hy0 hxy u v hu hv
      · rw [merge_single_D_new' _ _ _ _ (hne x hx0), entry_symm]
        exact lbNew x hx0 hx1 hx2 v u hv hu
    · rcases (hmem y).1 hy with ⟨hy0, hy1, hy2⟩ | rfl
      · rw [merge_single_D_new]
        exact lbNew y hy0 hy1 hy2 u v hu hv
      · exact absurd rfl hxy
  · -- att
    intro x hx y hy hxy
    rcases (hmem x).1 hx with ⟨hx0, hx1, hx2⟩ | rfl
    · rcases (hmem y).1 hy with ⟨hy0, -, -⟩ | rfl
      · rw [merge_D_old _ _ _ _ _ _ (hne x hx0) (hne y hy0)]
        exact hs.att x hx0 y hy0 hxy
      · rw [merge_single_D_new' _ _ _ _ (hne x hx0)]
        obtain ⟨u, v, hu, hv, e⟩ := attNew x hx0 hx1 hx2
        exact ⟨v, u, hv, hu, by rw [e, entry_symm]⟩
    · rcases (hmem y).1 hy with ⟨hy0, hy1, hy2⟩ | rfl
      · rw [merge_single_D_new]
        exact attNew y hy0 hy1 hy2
      · exact absurd rfl hxy

/-! ### the invariant along a run -/

theorem stInv_at {m : Method} {n : Nat} {data : Array α} {steps : List (Step α)}
    (hg : GreedyFrom m (init m n data) steps) (i : Nat) (hi : i ≤ steps.length) :
    StInv n i (stateAt m (init m n data) steps i) := by
  have := stateAt_StInv (init_StInv m n data) hg i hi
  rwa [Nat.zero_add] at this

theorem stateAt_SInv (L : OrderLaws α) {n : Nat} {data : Array α} {steps : List (Step α)}
    (hnan : NoNaN n data) (hg : GreedyFrom .single (init .single n data) steps) (i : Nat)
    (hi : i ≤ steps.length) :
    SInv n data steps i (stateAt .single (init .single n data) steps i) := by
  induction i with
  | zero => simpa using init_SInv L n data steps
  | succ j ih =>
    have hj : j < steps.length := by omega
    have hst : steps[j]? = some steps[j] := by simp [hj]
    rw [stateAt_succ _ _ _ _ _ hst]
    exact merge_SInv L hnan hst (stInv_at hg j (by omega)) (ih (by omega))
      ((greedyFrom_iff _ _ _).1 hg j _ hst)

theorem getElem?_lt {β : Type} {l : List β} {k : Nat} {x : β} (h : l[k]? = some x) :
    k < l.length := by
  rcases List.getElem?_eq_some_iff.1 h with ⟨h, -⟩; exact h

/-- The height of step `k` is the table entry of its pair (single linkage: no square root). -/
theorem single_height {n : Nat} {data : Array α} {steps : List (Step α)}
    (hg : GreedyFrom .single (init .single n data) steps) {k : Nat} {st : Step α}
    (hst : steps[k]? = some st) :
    st.d = (stateAt .single (init .single n data) steps k).D st.c1 st.c2 :=
  ((greedyFrom_iff _ _ _).1 hg k st hst).2.2.2.2.1

/-- The height of a step is an entry of the matrix between its two members. -/
theorem single_height_attained (L : OrderLaws α) {n : Nat} {data : Array α}
    {steps : List (Step α)} (hnan : NoNaN n data)
    (hg : GreedyFrom .single (init .single n data) steps) {k : Nat} {st : Step α}
    (hst : steps[k]? = some st) :
    ∃ u v, Under n steps u st.c1 ∧ Under n steps v st.c2 ∧ u ≠ v ∧
      st.d = entry n data Num.infinity u v := by
  have hk := getElem?_lt hst
  have hs := stateAt_SInv L hnan hg k (by omega)
  have ha := (greedyFrom_iff _ _ _).1 hg k st hst
  have hne : st.c1 ≠ st.c2 := by have := ha.2.2.1; omega
  obtain ⟨u, v, hu, hv, e⟩ := hs.att _ ha.1 _ ha.2.1 hne
  refine ⟨u, v, hu, hv, ?_, (single_height hg hst).trans e⟩
  rintro rfl
  exact hne (hs.disj _ ha.1 _ ha.2.1 u hu hv)

theorem single_height_notNaN (L : OrderLaws α) {n : Nat} {data : Array α}
    {steps : List (Step α)} (hnan : NoNaN n data)
    (hg : GreedyFrom .single (init .single n data) steps) {k : Nat} {st : Step α}
    (hst : steps[k]? = some st) : Num.isNaN st.d = false := by
  obtain ⟨u, v, hu, hv, huv, e⟩ := single_height_attained L hnan hg hst
  rw [e]; exact hnan u v hu.lt_n hv.lt_n huv

/-! ### heights never decrease -/

/-- After an admissible single-linkage merge no live pair is strictly closer than the merged pair
was (uses no number law: `Gen.single` returns one of its arguments). -/
theorem merge_single_ge {n i : Nat} {s : NState α} {st : Step α} (hinv : StInv n i s)
    (ha : Admissible .single s st) :
    ∀ x ∈ (merge .single s st.c1 st.c2).live, ∀ y ∈ (merge .single s st.c1 st.c2).live, x ≠ y →
      Num.lt ((merge .single s st.c1 st.c2).D x y) (s.D st.c1 st.c2) = false := by
  obtain ⟨ha1, ha2, ha3, hmin, -, -⟩ := ha
  have hne : ∀ x ∈ s.live, x ≠ s.next := fun x hx => Nat.ne_of_lt (hinv.lt x hx)
  have key : ∀ y ∈ s.live, y ≠ st.c1 → y ≠ st.c2 →
      Num.lt (Gen.single (s.D st.c1 y) (s.D st.c2 y)) (s.D st.c1 st.c2) = false := by
    intro y hy h1 h2
    rcases single_cases (s.D st.c1 y) (s.D st.c2 y) with e | e <;> rw [e]
    · exact hmin _ ha1 _ hy (Ne.symm h1)
    · exact hmin _ ha2 _ hy (Ne.symm h2)
  intro x hx y hy hxy
  rcases (mem_merge_live _ _ _ _ x).1 hx with ⟨hx0, hx1, hx2⟩ | rfl
  · rcases (mem_merge_live _ _ _ _ y).1 hy with ⟨hy0, -, -⟩ | rfl
    · rw [merge_D_old _ _ _ _ _ _ (hne x hx0) (hne y hy0)]
      exact hmin x hx0 y hy0 hxy
    · rw [merge_single_D_new' _ _ _ _ (hne x hx0)]
      exact key x hx0 hx1 hx2
  · rcases (mem_merge_live _ _ _ _ y).1 hy with ⟨hy0, hy1, hy2⟩ | rfl
    · rw [merge_single_D_new]
      exact key y hy0 hy1 hy2
    · exact absurd rfl hxy

theorem single_heights_adjacent {n : Nat} {data : Array α} {steps : List (Step α)}
    (hg : GreedyFrom .single (init .single n data) steps) {k : Nat} {st st' : Step α}
    (hst : steps[k]? = some st) (hst' : steps[k + 1]? = some st') :
    Num.lt st'.d st.d = false := by
  have hk := getElem?_lt hst'
  have ha := (greedyFrom_iff _ _ _).1 hg k st hst
  have ha' := (greedyFrom_iff _ _ _).1 hg (k + 1) st' hst'
  rw [single_height hg hst, single_height hg hst']
  rw [stateAt_succ _ _ _ _ _ hst] at ha' ⊢
  exact merge_single_ge (stInv_at hg k (by omega)) ha _ ha'.1 _ ha'.2.1
    (by have := ha'.2.2.1; omega)

/-- Heights are non-decreasing along a greedy single-linkage run. -/
theorem single_heights_mono (L : OrderLaws α) {n : Nat} {data : Array α}
    {steps : List (Step α)} (hnan : NoNaN n data)
    (hg : GreedyFrom .single (init .single n data) steps) {j : Nat} {stj : Step α}
    (hj : steps[j]? = some stj) :
    ∀ (k : Nat) (stk : Step α), j ≤ k → steps[k]? = some stk → Num.lt stk.d stj.d = false := by
  intro k
  induction k with
  | zero =>
    intro stk hjk hk
    have : j = 0 := by omega
    subst this
    rw [hj] at hk; cases hk
    exact L.irrefl _
  | succ k ih =>
    intro stk hjk hk
    by_cases hjk' : j = k + 1
    · subst hjk'
      rw [hj] at hk; cases hk
      exact L.irrefl _
    · have hk' : k < steps.length := by have := getElem?_lt hk; omega
      have hsk : steps[k]? = some steps[k] := by simp [hk']
      have h1 := ih steps[k] (by omega) hsk
      have h2 := single_heights_adjacent hg hsk hk
      exact L.le_trans _ _ _ (single_height_notNaN L hnan hg hsk) h1 h2

/-! ### threshold graph -/

/-- Edge of the threshold graph at level `h`: two distinct observations with `entry ≤ h`
(exactly: `¬ h < entry`). -/
def Thr (n : Nat) (data : Array α) (h : α) (u v : Nat) : Prop :=
  u < n ∧ v < n ∧ u ≠ v ∧ Num.lt h (entry n data Num.infinity u v) = false

/-- Connectivity in the threshold graph. -/
def Reach (n : Nat) (data : Array α) (h : α) : Nat → Nat → Prop :=
  Relation.ReflTransGen (Thr n data h)

theorem Thr.symm {n : Nat} {data : Array α} {h : α} {u v : Nat} (e : Thr n data h u v) :
    Thr n data h v u := by
  obtain ⟨h1, h2, h3, h4⟩ := e
  exact ⟨h2, h1, Ne.symm h3, by rwa [entry_symm]⟩

theorem Reach.symm {n : Nat} {data : Array α} {h : α} {u v : Nat} (e : Reach n data h u v) :
    Reach n data h v u := by
  induction e with
  | refl => exact Relation.ReflTransGen.refl
  | tail _ h2 ih => exact Relation.ReflTransGen.head h2.symm ih

theorem Reach.lt_n {n : Nat} {data : Array α} {h : α} {u v : Nat} (e : Reach n data h u v)
    (hu : u < n) : v < n := by
  induction e with
  | refl => exact hu
  | tail _ h2 _ => exact h2.2.1

/-- All observations beneath a cluster created at height `≤ h` are connected at level `h`. -/
theorem under_reach (L : OrderLaws α) {n : Nat} {data : Array α} {steps : List (Step α)}
    (hnan : NoNaN n data) (hg : GreedyFrom .single (init .single n data) steps) (h : α) :
    ∀ (k : Nat) (st : Step α), steps[k]? = some st → Num.lt h st.d = false →
      ∀ u v, Under n steps u (n + k) → Under n steps v (n + k) → Reach n data h u v := by
  intro k
  induction k using Nat.strongRecOn with
  | ind k ih =>
    intro st hst hle u v hu hv
    have hk := getElem?_lt hst
    have hord := greedy_ordered hg k st hst
    -- every member of the pair is internally connected
    have conn : ∀ c, c < n + k → ∀ u v, Under n steps u c → Under n steps v c →
        Reach n data h u v := by
      intro c hc u v hu hv
      by_cases hcn : c < n
      · rw [hu.eq_of_lt hcn, hv.eq_of_lt hcn]; exact Relation.ReflTransGen.refl
      · obtain ⟨k', rfl⟩ : ∃ k', c = n + k' := ⟨c - n, by omega⟩
        have hk' : k' < steps.length := by omega
        have hst' : steps[k']? = some steps[k'] := by simp [hk']
        have hm := single_heights_mono L hnan hg hst' k st (by omega) hst
        have hle' := L.le_trans _ _ _ (single_height_notNaN L hnan hg hst) hm hle
        exact ih k' (by omega) _ hst' hle' u v hu hv
    obtain ⟨u0, v0, hu0, hv0, hne0, e0⟩ := single_height_attained L hnan hg hst
    have edge : Thr n data h u0 v0 := ⟨hu0.lt_n, hv0.lt_n, hne0, by rw [← e0]; exact hle⟩
    have r12 : Reach n data h u0 v0 := Relation.ReflTransGen.single edge
    have c1 := conn st.c1 (by omega)
    have c2 := conn st.c2 (by omega)
    rcases hu.node hst with hu' | hu' <;> rcases hv.node hst with hv' | hv'
    · exact c1 u v hu' hv'
    · exact ((c1 u u0 hu' hu0).trans r12).trans (c2 v0 v hv0 hv')
    · exact ((c2 u v0 hu' hv0).trans r12.symm).trans (c1 u0 v hu0 hv')
    · exact c2 u v hu' hv'

/-- Two observations lie in the same live cluster before step `i`. -/
def SameAt (n : Nat) (data : Array α) (steps : List (Step α)) (i : Nat) (u v : Nat) : Prop :=
  ∃ x ∈ (stateAt .single (init .single n data) steps i).live,
    Under n steps u x ∧ Under n steps v x

/-- If the run is over, or its next step is strictly above `h`, every threshold edge at level `h`
lies inside a live cluster. -/
theorem thr_sameAt (L : OrderLaws α) {n : Nat} {data : Array α} {steps : List (Step α)}
    (hnan : NoNaN n data) (hv : GreedyValid .single n data steps) (h : α) (i : Nat)
    (hcut : i = steps.length ∨ ∃ st, steps[i]? = some st ∧ Num.lt h st.d = true)
    {u v : Nat} (e : Thr n data h u v) : SameAt n data steps i u v := by
  obtain ⟨hlen, hg⟩ := hv
  obtain ⟨hu, hv', huv, hle⟩ := e
  have hi : i ≤ steps.length := by
    rcases hcut with h | ⟨st, hst, -⟩
    · omega
    · have := getElem?_lt hst; omega
  have hs := stateAt_SInv L hnan hg i hi
  have hinv := stInv_at hg i hi
  obtain ⟨x, hx, hux⟩ := hs.cover u hu
  obtain ⟨y, hy, hvy⟩ := hs.cover v hv'
  by_cases hxy : x = y
  · subst hxy; exact ⟨x, hx, hux, hvy⟩
  · exfalso
    rcases hcut with hend | ⟨st, hst, hgt⟩
    · -- one live cluster only
      have hl := hinv.len
      have h1 : (stateAt .single (init .single n data) steps i).live.length = 1 := by omega
      obtain ⟨z, hz⟩ := List.length_eq_one_iff.1 h1
      rw [hz] at hx hy
      simp at hx hy
      exact hxy (hx.trans hy.symm)
    · have ha := (greedyFrom_iff _ _ _).1 hg i st hst
      have hmin := ha.2.2.2.1 x hx y hy hxy
      have hlb := hs.lb x hx y hy hxy u v hux hvy
      have h1 := L.le_trans _ _ _ (hs.notNaN hnan x hx y hy hxy) hmin hlb
      have h2 := L.le_trans _ _ _ (hnan u v hu hv' huv) h1 hle
      rw [single_height hg hst, h2] at hgt
      cases hgt

theorem sameAt_trans (L : OrderLaws α) {n : Nat} {data : Array α} {steps : List (Step α)}
    (hnan : NoNaN n data) (hg : GreedyFrom .single (init .single n data) steps) (i : Nat)
    (hi : i ≤ steps.length) {u v w : Nat} (h1 : SameAt n data steps i u v)
    (h2 : SameAt n data steps i v w) : SameAt n data steps i u w := by
  obtain ⟨x, hx, hux, hvx⟩ := h1
  obtain ⟨y, hy, hvy, hwy⟩ := h2
  have := (stateAt_SInv L hnan hg i hi).disj x hx y hy v hvx hvy
  subst this
  exact ⟨x, hx, hux, hwy⟩

theorem reach_sameAt (L : OrderLaws α) {n : Nat} {data : Array α} {steps : List (Step α)}
    (hnan : NoNaN n data) (hv : GreedyValid .single n data steps) (h : α) (i : Nat)
    (hcut : i = steps.length ∨ ∃ st, steps[i]? = some st ∧ Num.lt h st.d = true)
    {u v : Nat} (hu : u < n) (e : Reach n data h u v) : SameAt n data steps i u v := by
  have hi : i ≤ steps.length := by
    rcases hcut with h | ⟨st, hst, -⟩
    · omega
    · have := getElem?_lt hst; omega
  induction e with
  | refl =>
    obtain ⟨x, hx, hux⟩ := (stateAt_SInv L hnan hv.2 i hi).cover u hu
    exact ⟨x, hx, hux, hux⟩
  | tail _ h2 ih => exact sameAt_trans L hnan hv.2 i hi ih (thr_sameAt L hnan hv h i hcut h2)

/-- The cut index of level `h`: all steps before it are `≤ h`, and it is the end of the run or a
step strictly above `h`. -/
theorem exists_cut (steps : List (Step α)) (h : α) :
    ∃ i, i ≤ steps.length ∧
      (∀ k st, k < i → steps[k]? = some st → Num.lt h st.d = false) ∧
      (i = steps.length ∨ ∃ st, steps[i]? = some st ∧ Num.lt h st.d = true) := by
  have key : ∀ j, j ≤ steps.length →
      (∃ i, i ≤ steps.length ∧
        (∀ k st, k < i → steps[k]? = some st → Num.lt h st.d = false) ∧
        (∃ st, steps[i]? = some st ∧ Num.lt h st.d = true)) ∨
      (∀ k st, k < j → steps[k]? = some st → Num.lt h st.d = false) := by
    intro j
    induction j with
    | zero => intro _; right; intro k st hk; omega
    | succ j ih =>
      intro hj
      rcases ih (by omega) with hl | hr
      · exact Or.inl hl
      · have hj' : j < steps.length := by omega
        have hst : steps[j]? = some steps[j] := by simp [hj']
        cases hc : Num.lt h steps[j].d with
        | true => exact Or.inl ⟨j, by omega, hr, _, hst, hc⟩
        | false =>
          right
          intro k st hk hks
          by_cases hkj : k = j
          · subst hkj; rw [hst] at hks; cases hks; exact hc
          · exact hr k st (by omega) hks
  rcases key steps.length (Nat.le_refl _) with ⟨i, h1, h2, h3⟩ | hr
  · exact ⟨i, h1, h2, Or.inr h3⟩
  · exact ⟨steps.length, Nat.le_refl _, hr, Or.inl rfl⟩

/-! ### counting -/

theorem filter_length_of_cut {β : Type} (p : β → Bool) (l : List β) :
    ∀ i, i ≤ l.length → (∀ k x, k < i → l[k]? = some x → p x = true) →
      (∀ k x, i ≤ k → l[k]? = some x → p x = false) → (l.filter p).length = i := by
  induction l with
  | nil => intro i hi _ _; simp at hi; simp [hi]
  | cons x r ih =>
    intro i hi h1 h2
    cases i with
    | zero =>
      have hx : p x = false := h2 0 x (Nat.le_refl _) (by simp)
      rw [List.filter_cons_of_neg (by simp [hx])]
      exact ih 0 (Nat.zero_le _) (fun k y hk => by omega)
        (fun k y _ hy => h2 (k + 1) y (Nat.zero_le _) (by simpa using hy))
    | succ i =>
      have hx : p x = true := h1 0 x (Nat.succ_pos _) (by simp)
      rw [List.filter_cons_of_pos hx, List.length_cons]
      congr 1
      exact ih i (by simpa using hi)
        (fun k y hk hy => h1 (k + 1) y (by omega) (by simpa using hy))
        (fun k y hk hy => h2 (k + 1) y (by omega) (by simpa using hy))

/-- Choose one representative per element of a duplicate-free list. -/
theorem choose_reps (P R : Nat → Nat → Prop) (l : List Nat) (hnd : l.Nodup)
    (hne : ∀ x ∈ l, ∃ u, P x u)
    (hR : ∀ x ∈ l, ∀ y ∈ l, ∀ u v, P x u → P y v → R u v → x = y) :
    ∃ reps : List Nat, reps.length = l.length ∧ (∀ r ∈ reps, ∃ x ∈ l, P x r) ∧
      (∀ x ∈ l, ∃ r ∈ reps, P x r) ∧ reps.Pairwise (fun r r' => ¬ R r r') := by
  induction l with
  | nil => exact ⟨[], rfl, by simp, by simp, List.Pairwise.nil⟩
  | cons x t ih =>
    rw [List.nodup_cons] at hnd
    obtain ⟨u, hu⟩ := hne x List.mem_cons_self
    obtain ⟨reps, h1, h2, h3, h4⟩ := ih hnd.2
      (fun y hy => hne y (List.mem_cons_of_mem _ hy))
      (fun y hy z hz => hR y (List.mem_cons_of_mem _ hy) z (List.mem_cons_of_mem _ hz))
    refine ⟨u :: reps, by simp [h1], ?_, ?_, ?_⟩
    · intro r hr
      rcases List.mem_cons.1 hr with rfl | hr
      · exact ⟨x, List.mem_cons_self, hu⟩
      · obtain ⟨y, hy, hp⟩ := h2 r hr
        exact ⟨y, List.mem_cons_of_mem _ hy, hp⟩
    · intro y hy
      rcases List.mem_cons.1 hy with rfl | hy
      · exact ⟨u, List.mem_cons_self, hu⟩
      · obtain ⟨r, hr, hp⟩ := h3 y hy
        exact ⟨r, List.mem_cons_of_mem _ hr, hp⟩
    · rw [List.pairwise_cons]
      refine ⟨?_, h4⟩
      intro r hr hRur
      obtain ⟨y, hy, hp⟩ := h2 r hr
      have := hR x List.mem_cons_self y (List.mem_cons_of_mem _ hy) u r hu hp hRur
      exact hnd.1 (this ▸ hy)

/-- The number of steps of height `≤ h` plus the number of threshold components at `h` is `n`. -/
theorem single_count (L : OrderLaws α) {n : Nat} {data : Array α} {steps : List (Step α)}
    (hnan : NoNaN n data) (hv : GreedyValid .single n data steps) (h : α) :
    ∃ reps : List Nat,
      (steps.filter (fun st => !Num.lt h st.d)).length + reps.length = n ∧
      (∀ r ∈ reps, r < n) ∧
      reps.Pairwise (fun r r' => ¬ Reach n data h r r') ∧
      (∀ u, u < n → ∃ r ∈ reps, Reach n data h u r) := by
  obtain ⟨i, hi, hbelow, hcut⟩ := exists_cut steps h
  have hg := hv.2
  -- steps from the cut onwards are strictly above `h`
  have habove : ∀ k st, i ≤ k → steps[k]? = some st → Num.lt h st.d = true := by
    intro k st hik hst
    rcases hcut with hend | ⟨sti, hsti, hgt⟩
    · have := getElem?_lt hst; omega
    · have hm := single_heights_mono L hnan hg hsti k st hik hst
      rcases L.cotrans h st.d sti.d (single_height_notNaN L hnan hg hst) hgt with h' | h'
      · exact h'
      · rw [hm] at h'; cases h'
  have hcount : (steps.filter (fun st => !Num.lt h st.d)).length = i := by
    apply filter_length_of_cut _ _ i hi
    · intro k st hk hst; simp [hbelow k st hk hst]
    · intro k st hk hst; simp [habove k st hk hst]
  have hs := stateAt_SInv L hnan hg i hi
  have hinv := stInv_at hg i hi
  -- observations beneath one live label are connected at level `h`
  have hconn : ∀ x ∈ (stateAt .single (init .single n data) steps i).live, ∀ u v,
      Under n steps u x → Under n steps v x → Reach n data h u v := by
    intro x hx u v hu hv'
    by_cases hxn : x < n
    · rw [hu.eq_of_lt hxn, hv'.eq_of_lt hxn]; exact Relation.ReflTransGen.refl
    · obtain ⟨k, rfl⟩ : ∃ k, x = n + k := ⟨x - n, by omega⟩
      have hki : k < i := by have := hinv.lt _ hx; have := hinv.next; omega
      have hk : k < steps.length := by omega
      have hst : steps[k]? = some steps[k] := by simp [hk]
      exact under_reach L hnan hg h k _ hst (hbelow k _ hki hst) u v hu hv'
  obtain ⟨reps, h1, h2, h3, h4⟩ := choose_reps (fun x u => Under n steps u x) (Reach n data h)
    _ hinv.nodup hs.nonempty (by
      intro x hx y hy u v hu hv' hr
      obtain ⟨z, hz, huz, hvz⟩ := reach_sameAt L hnan hv h i hcut hu.lt_n hr
      rw [hs.disj x hx z hz u hu huz, hs.disj y hy z hz v hv' hvz])
  refine ⟨reps, ?_, ?_, h4, ?_⟩
  · have := hinv.len; omega
  · intro r hr
    obtain ⟨x, _, hp⟩ := h2 r hr
    exact hp.lt_n
  · intro u hu
    obtain ⟨x, hx, hux⟩ := hs.cover u hu
    obtain ⟨r, hr, hrx⟩ := h3 x hx
    exact ⟨r, hr, hconn x hx u r hux hrx⟩

end Kodama.Spec
