/-
In EXACT arithmetic the clamp of the repaired `method::average` is a no-op.

For a linearly ordered field `K` whose `Num K` instance computes the field operations (`FieldLaws K`)
and sizes that are not both zero, the size-weighted mean of `a` and `b` is a convex combination, hence
`≥ min a b`, so `mean < least` is false and

    Gen.average a b sa sb = (sa·a + sb·b) / (sa + sb)          (`FieldLaws.average_eq_mean`).

This is the single place where the exact-arithmetic theorems (C02, C03, C06, C11 for average) meet the
clamp: every proof that used to unfold `Gen.average` into the quotient rewrites with this lemma first.
With BOTH sizes `0` the statement is false (`0/0 = 0` in a field, and the clamp then returns
`max 0 (min a b)`), whence the hypothesis `0 < sa + sb`; `FieldLaws.average_eq_mean_pos` is the form
for `0 < sa`, `0 < sb`.

IEEE floats do NOT satisfy `FieldLaws`; for them the clamp is not a no-op — it is precisely what
repairs reducibility (`Gen.average_not_lt`, `Kodama/Lemmas/AverageClamp.lean`).
-/
import Kodama.Lemmas.AverageClamp
import Kodama.Lemmas.FieldNum
import Mathlib.Tactic.Linarith
namespace Kodama
variable {K : Type} [Field K] [LinearOrder K] [IsStrictOrderedRing K] [Num K]

omit [IsStrictOrderedRing K] in
theorem FieldLaws.averageMean_eq (F : FieldLaws K) (a b : K) (sa sb : Nat) :
    Gen.averageMean a b sa sb = ((sa : K) * a + (sb : K) * b) / ((sa : K) + (sb : K)) := by
  simp only [Gen.averageMean, F.add, F.mul, F.div, F.ofNat]

omit [IsStrictOrderedRing K] in
theorem FieldLaws.averageLeast_le (F : FieldLaws K) (a b : K) :
    Gen.averageLeast a b ≤ a ∧ Gen.averageLeast a b ≤ b := by
  unfold Gen.averageLeast
  rw [F.lt]
  by_cases h : a < b
  · simp only [h, decide_true, if_true]; exact ⟨le_rfl, h.le⟩
  · simp only [h, decide_false]; exact ⟨not_lt.1 h, le_rfl⟩

/-- A convex combination is not below the smaller argument. -/
theorem FieldLaws.averageLeast_le_mean (F : FieldLaws K) (a b : K) (sa sb : Nat)
    (h : 0 < sa + sb) : Gen.averageLeast a b ≤ Gen.averageMean a b sa sb := by
  obtain ⟨h1, h2⟩ := F.averageLeast_le a b
  rw [F.averageMean_eq]
  have ha : (0 : K) ≤ (sa : K) := Nat.cast_nonneg sa
  have hb : (0 : K) ≤ (sb : K) := Nat.cast_nonneg sb
  have hs : (0 : K) < (sa : K) + (sb : K) := by
    have : (0 : K) < ((sa + sb : Nat) : K) := Nat.cast_pos.mpr h
    rwa [Nat.cast_add] at this
  rw [le_div_iff₀ hs]
  have e1 := mul_le_mul_of_nonneg_left h1 ha
  have e2 := mul_le_mul_of_nonneg_left h2 hb
  linarith

/-- **Exact arithmetic: the clamp is a no-op** (sizes not both zero). -/
theorem FieldLaws.average_eq_mean (F : FieldLaws K) (a b : K) (sa sb : Nat) (h : 0 < sa + sb) :
    Gen.average a b sa sb = ((sa : K) * a + (sb : K) * b) / ((sa : K) + (sb : K)) := by
  rw [Gen.average_of_not_lt, F.averageMean_eq]
  rw [F.lt, decide_eq_false_iff_not, not_lt]
  exact F.averageLeast_le_mean a b sa sb h

theorem FieldLaws.average_eq_mean_pos (F : FieldLaws K) (a b : K) (sa sb : Nat) (hsa : 0 < sa)
    (_hsb : 0 < sb) :
    Gen.average a b sa sb = ((sa : K) * a + (sb : K) * b) / ((sa : K) + (sb : K)) :=
  F.average_eq_mean a b sa sb (by omega)

/-- The same, stated on the operations of the `Num` instance (for `rw` under `Gen.average`). -/
theorem FieldLaws.average_eq_averageMean (F : FieldLaws K) (a b : K) (sa sb : Nat)
    (h : 0 < sa + sb) : Gen.average a b sa sb = Gen.averageMean a b sa sb := by
  rw [F.average_eq_mean a b sa sb h, F.averageMean_eq]

end Kodama
