/-
From the index-based greedy run (`Rnn.GreedyIFrom`, `Lemmas/RnnState.lean`) to the label-based
specification `Spec.GreedyFrom` (`Spec/Naive.lean`), with labels handed out IN THE ORDER OF THE LIST
(`moFrom`, which is `mergeOrder` of `Lemmas/PrimGreedyLabels.lean` when started from the identity).

`Sim R σ lab st`: the spec state `st` is the index state `σ` seen through the labelling `lab`
(live labels = labels of live indices, sizes = cluster cardinalities, every table entry is the
`R`-value of the two cluster trees).  `Sim.merge` preserves it (this is where `Spec.LwSymm` enters:
the spec orders the two merged LABELS, the tree of the index state orders the two INDICES), and a
`MinOk` step of the index state is an `Admissible` step of the spec.
-/
import Kodama.Lemmas.RnnState
import Kodama.Lemmas.PrimGreedySim
namespace Kodama.Rnn
open Kodama.Crit MTree Finset

variable {α : Type} [Num α]

/-- The raw steps relabelled in list order starting from the labelling `lab` and next label `nxt`,
heights `Spec.post`-ed. -/
def moFrom (m : Method) (lab : Nat → Nat) (nxt : Nat) : List (Step α) → List (Step α)
  | [] => []
  | s :: rest => Step.new (lab s.c1) (lab s.c2) (Spec.post m s.d) s.size ::
      moFrom m (fun x => if x = s.c2 then nxt else lab x) (nxt + 1) rest

theorem moFrom_length (m : Method) (lab : Nat → Nat) (nxt : Nat) (L : List (Step α)) :
    (moFrom m lab nxt L).length = L.length := by
  induction L generalizing lab nxt with
  | nil => rfl
  | cons s r ih => simp [moFrom, ih]

/-- The spec state `st` is the index state `σ` seen through the labelling `lab`. -/
structure Sim (R : MTree Nat → MTree Nat → α → Prop) (σ : IState) (lab : Nat → Nat)
    (st : Spec.NState α) : Prop where
  nodup : σ.live.Nodup
  inj : ∀ x ∈ σ.live, ∀ y ∈ σ.live, lab x = lab y → x = y
  live : ∀ l, l ∈ st.live ↔ ∃ x ∈ σ.live, lab x = l
  lt : ∀ x ∈ σ.live, lab x < st.next
  dsymm : Spec.DSymm st
  disj : ∀ x ∈ σ.live, ∀ y ∈ σ.live, x ≠ y → Disjoint (σ.tree x).leaves (σ.tree y).leaves
  size : ∀ x ∈ σ.live, st.size (lab x) = (σ.tree x).leaves.card
  table : ∀ x ∈ σ.live, ∀ y ∈ σ.live, x ≠ y → R (σ.tree x) (σ.tree y) (st.D (lab x) (lab y))

omit [Num α] in
theorem Sim.tab {R : MTree Nat → MTree Nat → α → Prop} {σ : IState} {lab : Nat → Nat}
    {st : Spec.NState α} (h : Sim R σ lab st) : Tab R σ :=
  ⟨h.nodup, h.disj, fun x hx y hy hxy => ⟨_, h.table x hx y hy hxy⟩⟩

theorem minmax_cases (la lb : Nat) :
    (min la lb = la ∧ max la lb = lb) ∨ (min la lb = lb ∧ max la lb = la) := by
  by_cases c : la ≤ lb
  · exact Or.inl ⟨Nat.min_eq_left c, Nat.max_eq_right c⟩
  · exact Or.inr ⟨Nat.min_eq_right (by omega), Nat.max_eq_left (by omega)⟩

/-- One merge preserves the simulation. -/
theorem Sim.merge {m : Method} {R : MTree Nat → MTree Nat → α → Prop} (C : LWCompat m R)
    (hsym : Spec.LwSymm α m) {σ : IState} {lab : Nat → Nat} {st : Spec.NState α}
    (h : Sim R σ lab st) {a b : Nat} (ha : a ∈ σ.live) (hb : b ∈ σ.live) (hab : a ≠ b) :
    Sim R (σ.merge a b) (fun x => if x = b then st.next else lab x)
      (Spec.merge m st (min (lab a) (lab b)) (max (lab a) (lab b))) := by
  generalize hlab' : (fun x => if x = b then st.next else lab x) = lab'
  have hl'b : lab' b = st.next := by rw [← hlab']; exact if_pos rfl
  have hl'ne : ∀ x, x ≠ b → lab' x = lab x := by intro x hx; rw [← hlab']; exact if_neg hx
  have htab' := h.tab.merge C ha hb hab
  generalize hla : lab a = la
  generalize hlb : lab b = lb
  have hlab_ne : la ≠ lb := by
    intro e; apply hab; apply h.inj a ha b hb; rw [hla, hlb, e]
  have hmm := minmax_cases la lb
  have hmem : ∀ x, x ∈ (σ.merge a b).live ↔ x ∈ σ.live ∧ x ≠ a := IState.mem_merge_live σ a b
  have hds := h.dsymm
  have labmem : ∀ x ∈ σ.live, lab x ∈ st.live := fun x hx => (h.live _).mpr ⟨x, hx, rfl⟩
  have hla_mem : la ∈ st.live := by rw [← hla]; exact labmem a ha
  have hlb_mem : lb ∈ st.live := by rw [← hlb]; exact labmem b hb
  -- the new row
  have hzb : ∀ z ∈ σ.live, z ≠ a → z ≠ b →
      R (node (σ.tree a) (σ.tree b)) (σ.tree z)
        (Spec.lw m (st.D (min la lb) (lab z)) (st.D (max la lb) (lab z))
          (st.D (min la lb) (max la lb)) (st.size (min la lb)) (st.size (max la lb))
          (st.size (lab z))) := by
    intro z hz hza hzb
    rw [← lw_merge_eq hsym hds la lb (lab z), hds (lab z) la, hds (lab z) lb, ← hla, ← hlb,
      h.size a ha, h.size b hb, h.size z hz]
    exact C.step _ _ _ _ _ _ (h.disj a ha b hb hab) (h.disj a ha z hz (Ne.symm hza))
      (h.disj b hb z hz (Ne.symm hzb)) (h.table a ha z hz (Ne.symm hza))
      (h.table b hb z hz (Ne.symm hzb)) (h.table a ha b hb hab)
  refine ⟨htab'.nodup, ?_, ?_, ?_, Spec.merge_DSymm m st _ _ hds, htab'.disj, ?_, ?_⟩
  · -- inj
    intro x hx y hy e
    obtain ⟨hx1, _⟩ := (hmem x).mp hx
    obtain ⟨hy1, _⟩ := (hmem y).mp hy
    have lx := h.lt x hx1
    have ly := h.lt y hy1
    by_cases cx : x = b
    · by_cases cy : y = b
      · rw [cx, cy]
      · rw [cx, hl'b, hl'ne y cy] at e; omega
    · by_cases cy : y = b
      · rw [cy, hl'b, hl'ne x cx] at e; omega
      · rw [hl'ne x cx, hl'ne y cy] at e; exact h.inj x hx1 y hy1 e
  · -- live
    intro l
    rw [Spec.mem_merge_live]
    constructor
    · rintro (⟨h1, h2, h3⟩ | h1)
      · obtain ⟨x, hx, rfl⟩ := (h.live l).mp h1
        have hxa : x ≠ a := by
          rintro rfl
          rcases hmm with ⟨c1, c2⟩ | ⟨c1, c2⟩
          · exact h2 (by rw [c1, hla])
          · exact h3 (by rw [c2, hla])
        have hxb : x ≠ b := by
          rintro rfl
          rcases hmm with ⟨c1, c2⟩ | ⟨c1, c2⟩
          · exact h3 (by rw [c2, hlb])
          · exact h2 (by rw [c1, hlb])
        exact ⟨x, (hmem x).mpr ⟨hx, hxa⟩, hl'ne x hxb⟩
      · exact ⟨b, (hmem b).mpr ⟨hb, Ne.symm hab⟩, hl'b.trans h1.symm⟩
    · rintro ⟨x, hx, rfl⟩
      obtain ⟨hx1, hx2⟩ := (hmem x).mp hx
      by_cases hxb : x = b
      · rw [hxb]; exact Or.inr hl'b
      · rw [hl'ne x hxb]
        have n1 : lab x ≠ la := fun e => hx2 (h.inj x hx1 a ha (by rw [hla, e]))
        have n2 : lab x ≠ lb := fun e => hxb (h.inj x hx1 b hb (by rw [hlb, e]))
        refine Or.inl ⟨labmem x hx1, ?_, ?_⟩
        · rcases hmm with ⟨c1, _⟩ | ⟨c1, _⟩ <;> rw [c1] <;> assumption
        · rcases hmm with ⟨_, c2⟩ | ⟨_, c2⟩ <;> rw [c2] <;> assumption
  · -- lt
    intro x hx
    obtain ⟨hx1, _⟩ := (hmem x).mp hx
    have := h.lt x hx1
    show lab' x < st.next + 1
    by_cases hxb : x = b
    · rw [hxb, hl'b]; omega
    · rw [hl'ne x hxb]; omega
  · -- size
    intro x hx
    obtain ⟨hx1, hx2⟩ := (hmem x).mp hx
    rw [Spec.merge_size]
    by_cases hxb : x = b
    · rw [hxb, hl'b, if_pos rfl, IState.merge_tree_self, leaves_node,
        card_union_of_disjoint (h.disj a ha b hb hab), ← h.size a ha, ← h.size b hb, hla, hlb]
      rcases hmm with ⟨c1, c2⟩ | ⟨c1, c2⟩ <;> rw [c1, c2]
      exact Nat.add_comm _ _
    · have lx : lab x ≠ st.next := by have := h.lt x hx1; omega
      rw [hl'ne x hxb, if_neg lx, IState.merge_tree_of_ne _ _ _ _ hxb]
      exact h.size x hx1
  · -- table
    intro x hx y hy hxy
    obtain ⟨hx1, hx2⟩ := (hmem x).mp hx
    obtain ⟨hy1, hy2⟩ := (hmem y).mp hy
    have lx : lab x ≠ st.next := by have := h.lt x hx1; omega
    have ly : lab y ≠ st.next := by have := h.lt y hy1; omega
    rw [Spec.merge_D]
    by_cases hxb : x = b
    · have hyb : y ≠ b := fun e => hxy (hxb.trans e.symm)
      rw [hxb, hl'b, hl'ne y hyb, if_pos rfl, IState.merge_tree_self,
        IState.merge_tree_of_ne _ _ _ _ hyb]
      exact hzb y hy1 hy2 hyb
    · by_cases hyb : y = b
      · rw [hyb, hl'b, hl'ne x hxb, if_neg lx, if_pos rfl, IState.merge_tree_self,
          IState.merge_tree_of_ne _ _ _ _ hxb]
        exact C.symm _ _ _ (hzb x hx1 hx2 hxb)
      · rw [hl'ne x hxb, hl'ne y hyb, if_neg lx, if_neg ly,
          IState.merge_tree_of_ne _ _ _ _ hxb, IState.merge_tree_of_ne _ _ _ _ hyb]
        exact h.table x hx1 y hy1 hxy

/-- A globally-closest-pair step of the index state is an admissible greedy step of the spec. -/
theorem Sim.admissible {m : Method} {R : MTree Nat → MTree Nat → α → Prop}
    (hu : ∀ s t v w, R s t v → R s t w → v = w) {σ : IState} {lab : Nat → Nat}
    {st : Spec.NState α} (h : Sim R σ lab st) {s : Step α} (hs : MinOk R σ s) :
    Spec.Admissible m st (Step.new (lab s.c1) (lab s.c2) (Spec.post m s.d) s.size) := by
  generalize hla : lab s.c1 = la
  generalize hlb : lab s.c2 = lb
  have hlab_ne : la ≠ lb := by
    intro e; apply hs.ne; apply h.inj _ hs.m1 _ hs.m2; rw [hla, hlb, e]
  have hmm := minmax_cases la lb
  have hds := h.dsymm
  have hla_mem : la ∈ st.live := by rw [← hla]; exact (h.live _).mpr ⟨_, hs.m1, rfl⟩
  have hlb_mem : lb ∈ st.live := by rw [← hlb]; exact (h.live _).mpr ⟨_, hs.m2, rfl⟩
  have hd0 : st.D la lb = s.d := by
    rw [← hla, ← hlb]
    exact hu _ _ _ _ (h.table _ hs.m1 _ hs.m2 hs.ne) hs.height
  have hdc : st.D (min la lb) (max la lb) = s.d := by
    rcases hmm with ⟨e1, e2⟩ | ⟨e1, e2⟩ <;> rw [e1, e2]
    · exact hd0
    · rw [hds]; exact hd0
  have hszc : st.size (min la lb) + st.size (max la lb) = s.size := by
    have e1 := h.size _ hs.m1
    have e2 := h.size _ hs.m2
    rw [hla] at e1; rw [hlb] at e2
    rw [hs.size, ← e1, ← e2]
    rcases hmm with ⟨c1, c2⟩ | ⟨c1, c2⟩ <;> rw [c1, c2]
    exact Nat.add_comm _ _
  refine ⟨?_, ?_, ?_, ?_, ?_, ?_⟩
  · rw [Step.new_c1]; rcases hmm with ⟨c1, _⟩ | ⟨c1, _⟩ <;> rw [c1] <;> assumption
  · rw [Step.new_c2]; rcases hmm with ⟨_, c2⟩ | ⟨_, c2⟩ <;> rw [c2] <;> assumption
  · rw [Step.new_c1, Step.new_c2]; omega
  · intro x hx y hy hxy
    rw [Step.new_c1, Step.new_c2, hdc]
    obtain ⟨x', hx', rfl⟩ := (h.live x).mp hx
    obtain ⟨y', hy', rfl⟩ := (h.live y).mp hy
    have hne' : x' ≠ y' := fun e => hxy (by rw [e])
    exact hs.min x' hx' y' hy' hne' _ (h.table x' hx' y' hy' hne')
  · rw [Step.new_c1, Step.new_c2, hdc]; exact Step.new_d _ _ _ _
  · rw [Step.new_c1, Step.new_c2, hszc]; exact Step.new_size _ _ _ _

/-- **Transfer.**  An index-based greedy run is a greedy run of the label-based specification. -/
theorem greedyFrom_of_greedyI {m : Method} {R : MTree Nat → MTree Nat → α → Prop}
    (C : LWCompat m R) (hu : ∀ s t v w, R s t v → R s t w → v = w) (hsym : Spec.LwSymm α m) :
    ∀ (L : List (Step α)) (σ : IState) (lab : Nat → Nat) (st : Spec.NState α),
      Sim R σ lab st → GreedyIFrom R σ L → Spec.GreedyFrom m st (moFrom m lab st.next L) := by
  intro L
  induction L with
  | nil => intro _ _ _ _ _; trivial
  | cons s r ih =>
    intro σ lab st hsim hg
    obtain ⟨hs, hr⟩ := hg
    have hadm := hsim.admissible (m := m) hu hs
    refine ⟨hadm, ?_⟩
    have hsim' := hsim.merge C hsym hs.m1 hs.m2 hs.ne
    have := ih _ _ _ hsim' hr
    simp only [Step.new_c1, Step.new_c2]
    exact this

/-- The initial states correspond. -/
theorem sim_init {R : MTree Nat → MTree Nat → α → Prop} (m : Method) (n : Nat) (data : Array α)
    (hR : ∀ i j, i ≠ j → R (leaf i) (leaf j) ((Spec.init m n data).D i j)) :
    Sim R (IState.init n) id (Spec.init m n data) where
  nodup := List.nodup_range
  inj := fun _ _ _ _ e => e
  live := by
    intro l
    simp only [Spec.init, IState.init, id]
    constructor
    · intro h; exact ⟨l, h, rfl⟩
    · rintro ⟨x, hx, rfl⟩; exact hx
  lt := by intro x hx; exact List.mem_range.mp hx
  dsymm := Spec.init_DSymm m n data
  disj := by
    intro x _ y _ hxy
    simp only [IState.init, leaves_leaf, disjoint_singleton]; exact hxy
  size := by intro x _; simp [IState.init, Spec.init]
  table := by intro x _ y _ hxy; exact hR x y hxy

/-! ### `moFrom` from the identity is `mergeOrder` -/

theorem moFrom_eq_drop (m : Method) (n : Nat) (L : List (Step α)) :
    ∀ (pre : List (Step α)),
      moFrom m (labAt n (edgesOf (pre ++ L)) pre.length) (n + pre.length) L
        = (mergeOrder m n (pre ++ L)).drop pre.length := by
  induction L with
  | nil =>
    intro pre
    simp [moFrom, mergeOrder_length]
  | cons s r ih =>
    intro pre
    have hlen : pre.length < (mergeOrder m n (pre ++ s :: r)).length := by
      simp [mergeOrder_length]
    rw [List.drop_eq_getElem_cons hlen]
    have hget : (mergeOrder m n (pre ++ s :: r))[pre.length]?
        = some (moStep m n (edgesOf (pre ++ s :: r)) pre.length s) := by
      rw [mergeOrder_get]; simp
    have hget' : (mergeOrder m n (pre ++ s :: r))[pre.length]
        = moStep m n (edgesOf (pre ++ s :: r)) pre.length s := by
      have := List.getElem?_eq_getElem hlen
      rw [hget] at this
      exact (Option.some.inj this).symm
    rw [hget']
    simp only [moFrom, moStep]
    congr 1
    have e : pre ++ s :: r = (pre ++ [s]) ++ r := by simp
    have ih' := ih (pre ++ [s])
    rw [← e] at ih'
    simp only [List.length_append, List.length_singleton] at ih'
    rw [← ih']
    congr 1
    funext x
    have he : (edgesOf (pre ++ s :: r))[pre.length]? = some (s.c1, s.c2) := by
      simp [edgesOf]
    rw [labAt_succ he]

theorem moFrom_eq_mergeOrder (m : Method) (n : Nat) (L : List (Step α)) :
    moFrom m id n L = mergeOrder m n L := by
  have := moFrom_eq_drop m n L []
  simp only [List.nil_append, List.length_nil, Nat.add_zero, List.drop_zero, labAt] at this
  exact this

end Kodama.Rnn
