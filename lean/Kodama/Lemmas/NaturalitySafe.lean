/-
Naturality, final form used by C09 / C10:

`runWith_natural_safe` — observable naturality (dendrogram, matrix left behind, panic class) for
every entry point and ARBITRARY prior objects on both sides, where the only things assumed about
the sentinels are
  * `SentinelSafe h₂` (comparisons of data with `T::max_value()` agree) for the calls that go
    through `generic`,
  * `h₂ ∞ = ∞` for the calls that go through `mst`.
`h₂ MAX = MAX` is the special case `SentinelSafe.of_fix`.
-/
import Kodama.Lemmas.NaturalityGenericRel
namespace Kodama
variable {α β : Type} [Num α] [Num β]

theorem SentinelSafe.comp {γ : Type} [Num γ] {f : α → β} {g : β → γ} (F : SentinelSafe f)
    (G : SentinelSafe g) : SentinelSafe (g ∘ f) :=
  ⟨fun x => by simp only [Function.comp, G.lt_r, F.lt_r],
   fun x => by simp only [Function.comp, G.lt_l, F.lt_l],
   fun x => by simp only [Function.comp, G.beq_r, F.beq_r],
   by rw [G.lt_mm, F.lt_mm]⟩

theorem runWith_natural_safe {m : Method} {h h₂ : α → β} (A : Hom m h h₂) {alg : Alg}
    (hmax : usesMax alg m = true → SentinelSafe h₂)
    (hinf : usesInf alg m = true → h₂ Num.infinity = Num.infinity)
    (chk : Bool) (st : State α) (st' : State β) (d : Dendrogram α) (d' : Dendrogram β)
    (data : Array α) (n : Nat) :
    out <$> runWith chk alg m st' d' (data.map h) n
      = mapOut h h₂ <$> (out <$> runWith chk alg m st d data n) := by
  cases hu : usesMax alg m
  · exact runWith_natural_out A (fun e => by rw [hu] at e; cases e) hinf chk st st' d d' data n
  · have S := hmax hu
    have key := (genericWith_rel A.ord S A.upd A.sq chk st st' d d' data n).out_eq
    cases alg <;> simp only [usesMax] at hu
    · cases hu
    · cases hu
    · exact key
    · cases hu
    · have e : dispatch m = .generic := by simpa using hu
      simp only [runWith, linkageWith, e]
      exact key

end Kodama
