/- Reasoning about `Except Panic` do-blocks. -/
import Kodama.Basic
namespace Kodama

theorem bind_ok {α β : Type} {e : R α} {f : α → R β} {r : β} :
    (e >>= f) = .ok r ↔ ∃ x, e = .ok x ∧ f x = .ok r := by
  cases e with
  | error p => simp [bind, Except.bind]
  | ok x => simp [bind, Except.bind]

theorem bind_error {α β : Type} {e : R α} {f : α → R β} {p : Panic} (h : e = .error p) :
    (e >>= f) = .error p := by
  subst h; rfl

theorem pure_ok {α : Type} {x r : α} : (pure x : R α) = .ok r ↔ x = r := by
  simp [pure, Except.pure]

theorem map_ok {α β : Type} {e : R α} {f : α → β} {r : β} :
    (f <$> e) = .ok r ↔ ∃ x, e = .ok x ∧ f x = r := by
  cases e with
  | error p => simp [Functor.map, Except.map]
  | ok x => simp [Functor.map, Except.map]

theorem aget_ok {α : Type} {a : Array α} {i : Nat} {v : α} :
    aget a i = .ok v ↔ ∃ h : i < a.size, a[i] = v := by
  unfold aget
  by_cases h : i < a.size
  · simp [h]
  · simp [h]

theorem aset_ok {α : Type} {a b : Array α} {i : Nat} {v : α} :
    aset a i v = .ok b ↔ ∃ h : i < a.size, b = a.set i v h := by
  unfold aset
  by_cases h : i < a.size
  · simp [h, eq_comm]
  · simp [h]

theorem guard_ok {b : Bool} {p : Panic} : guard' b p = .ok () ↔ b = true := by
  unfold guard'; cases b <;> simp

/-- Invariant preservation through `foldlM`. -/
theorem foldlM_inv {σ β : Type} (P : σ → Prop) (f : σ → β → R σ) (l : List β)
    (hstep : ∀ s x s', x ∈ l → P s → f s x = .ok s' → P s') :
    ∀ s s', P s → l.foldlM f s = .ok s' → P s' := by
  induction l with
  | nil => intro s s' hs h; simp [List.foldlM, pure, Except.pure] at h; subst h; exact hs
  | cons x xs ih =>
    intro s s' hs h
    simp only [List.foldlM] at h
    obtain ⟨s1, h1, h2⟩ := bind_ok.mp h
    exact ih (fun s x s' hx => hstep s x s' (List.mem_cons_of_mem _ hx)) s1 s'
      (hstep s x s1 List.mem_cons_self hs h1) h2

end Kodama
