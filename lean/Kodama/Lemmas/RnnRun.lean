/-
Assembly of the nearest-neighbour-chain correctness theorem:

  loop (`chainLoop_rnn`: a run of reciprocal-nearest-neighbour merges, execution order)
  → stable sort by height (`Rnn.rnnFrom_isort`: still such a run; `Rnn.mergeSort_eq_isort`)
  → sorted complete run is greedy (`Rnn.greedyI_of_sorted`)
  → label-based spec (`Rnn.greedyFrom_of_greedyI`, `Rnn.moFrom_eq_mergeOrder`)
  → `relabel` of the raw dendrogram = `relabel` of the already sorted one, whose union–find labels are
    the merge-order labels (`relabel_eq_mergeOrder` of the completed `primitive` proof).

`nnchain_greedy` is stated for an arbitrary relation `R` with `LWCompat`/uniqueness; the property
files instantiate it.
-/
import Kodama.Lemmas.RnnChain
import Kodama.Lemmas.RnnSort
import Kodama.Lemmas.PrimGreedyRun
namespace Kodama
open Spec
variable {α : Type} [Num α]

namespace Rnn
open Crit MTree

/-- Every step of a run is `StepOk` in the state reached by the steps before it. -/
theorem rnnFrom_get {R : MTree Nat → MTree Nat → α → Prop} :
    ∀ (L : List (Step α)) (σ : IState) (i : Nat) (s : Step α), RnnFrom R σ L → L[i]? = some s →
      StepOk R (IState.replay σ (L.take i)) s := by
  intro L
  induction L with
  | nil => intro σ i s _ h; simp at h
  | cons x r ih =>
    intro σ i s h hi
    cases i with
    | zero =>
      simp only [List.getElem?_cons_zero, Option.some.injEq] at hi
      subst hi
      exact h.1
    | succ j =>
      simp only [List.getElem?_cons_succ] at hi
      simp only [List.take_succ_cons, IState.replay]
      exact ih _ j s h.2 hi

omit [Num α] in
/-- The live indices of the index state are `liveAt` of the raw edges. -/
theorem replay_live (n : Nat) (L : List (Step α)) :
    ∀ i, i ≤ L.length →
      (IState.replay (IState.init n) (L.take i)).live = liveAt n (edgesOf L) i := by
  intro i
  induction i with
  | zero => intro _; rfl
  | succ i ih =>
    intro hi
    have hi' : i < L.length := by omega
    have he : (edgesOf L)[i]? = some (L[i].c1, L[i].c2) := by simp [edgesOf, hi']
    rw [liveAt_succ he, ← ih (by omega), List.take_add_one, List.getElem?_eq_getElem hi',
      IState.replay_append]
    rfl

/-- A run from `n` singletons is a merge trace in the sense of `Lemmas/PrimGreedyLabels.lean`. -/
theorem mergeTrace_of_rnn {R : MTree Nat → MTree Nat → α → Prop} (n : Nat) (L : List (Step α))
    (h : RnnFrom R (IState.init n) L) : MergeTrace n (edgesOf L) := by
  intro i e he
  have hi : i < L.length := by
    have := (List.getElem?_eq_some_iff.mp he).1
    simpa [edgesOf] using this
  have hs : L[i]? = some L[i] := List.getElem?_eq_getElem hi
  have hee : e = (L[i].c1, L[i].c2) := by
    simp [edgesOf, hs] at he; exact he.symm
  have ok := rnnFrom_get L _ i _ h hs
  rw [hee, ← replay_live n L i (by omega)]
  exact ⟨ok.m1, ok.m2, ok.ne⟩

end Rnn

open Crit MTree Rnn in
/-- The stably sorted raw steps of a run of reciprocal-nearest-neighbour merges, relabelled in
(sorted) merge order, are a greedy-valid dendrogram. -/
theorem sorted_rnn_greedyValid (L : OrderLaws α) (hnan : ∀ x : α, Num.isNaN x = false)
    {m : Method} {R : MTree Nat → MTree Nat → α → Prop} (RL : RLaws m R) (hsym : LwSymm α m)
    (n : Nat) (data : Array α)
    (hR : ∀ i j, i ≠ j → R (leaf i) (leaf j) ((init m n data).D i j))
    (raw : List (Step α)) (hlen : raw.length = n - 1) (h1 : 1 ≤ n)
    (hrun : RnnFrom R (IState.init n) raw) :
    RnnFrom R (IState.init n) (raw.mergeSort stepLe) ∧
    GreedyValid m n data (mergeOrder m n (raw.mergeSort stepLe)) := by
  have hsim := sim_init (R := R) m n data hR
  have hS : RnnFrom R (IState.init n) (raw.mergeSort stepLe) := by
    rw [mergeSort_eq_isort L hnan]
    exact rnnFrom_isort RL L hnan raw _ hsim.tab hrun
  refine ⟨hS, ?_, ?_⟩
  · rw [mergeOrder_length, List.length_mergeSort, hlen]
  · have hsorted : (raw.mergeSort stepLe).Pairwise (fun s t => stepLe s t = true) :=
      List.pairwise_mergeSort (fun a b c => stepLe_trans L hnan a b c)
        (fun a b => stepLe_total L a b) _
    have hg := greedyI_of_sorted RL L hnan (raw.mergeSort stepLe) (IState.init n)
      List.nodup_range
      (by simp only [List.length_mergeSort, hlen, IState.init, List.length_range]; omega)
      hS hsorted
    have := greedyFrom_of_greedyI RL.compat RL.unique hsym _ _ _ _ hsim hg
    rw [← moFrom_eq_mergeOrder]
    exact this

/-- Sorting a sorted array again changes nothing. -/
theorem processed_idem (L : OrderLaws α) (hnan : ∀ x : α, Num.isNaN x = false) (m : Method)
    (steps : Array (Step α)) : processed m (processed m steps) = processed m steps := by
  by_cases hm : m.requiresSorting = true
  · apply processed_of_pairwise
    have : (processed m steps).toList = steps.toList.mergeSort stepLe := by
      unfold processed; rw [if_pos hm]
    rw [this]
    have hsorted : (steps.toList.mergeSort stepLe).Pairwise (fun s t => stepLe s t = true) :=
      List.pairwise_mergeSort (fun a b c => Rnn.stepLe_trans L hnan a b c)
        (fun a b => Rnn.stepLe_total L a b) _
    refine hsorted.imp ?_
    intro s t hst
    simpa [stepLe] using hst
  · unfold processed; simp [hm]

/-- `relabel` of a dendrogram and of the same dendrogram with its steps already in processed order
coincide (no NaN among the heights). -/
theorem relabel_presorted (L : OrderLaws α) (hnan : ∀ x : α, Num.isNaN x = false) (m : Method)
    (uf0 : UF) (d : Dendrogram α) (r : UF × Dendrogram α) (h : relabel m uf0 d = .ok r) :
    relabel m uf0 { d with steps := processed m d.steps } = .ok r := by
  obtain ⟨steps0, st', h0, hfold, heq⟩ := (relabel_ok_iff m uf0 d r).mp h
  have e0 := presort_ok h0
  subst e0
  refine (relabel_ok_iff m uf0 _ r).mpr ⟨processed m d.steps, st', ?_, hfold, heq⟩
  have := presort_total (m := m) (steps := processed m d.steps)
    (Or.inr (Or.inr (fun s _ => hnan s.d)))
  rw [processed_idem L hnan] at this
  exact this

open Crit MTree Rnn in
/-- **Correctness of the nearest-neighbour chain algorithm**, abstract form: for every relation `R`
that the method's Lance–Williams formula propagates (`LWCompat`) and that is functional, under
`OrderLaws`, absence of NaN, reducibility of the update (`ChainReducible`) and its symmetry
(`LwSymm`), `nnchainWith` returns normally and the returned steps are a greedy run of the
label-based specification, ties included. -/
theorem nnchain_greedy (L : OrderLaws α) (hnan : ∀ x : α, Num.isNaN x = false) (chk : Bool)
    (mc : MethodChain) (hred : ChainReducible α mc) (hsym : LwSymm α mc.intoMethod)
    {R : MTree Nat → MTree Nat → α → Prop} (C : LWCompat mc.intoMethod R)
    (hu : ∀ s t v w, R s t v → R s t w → v = w)
    (st : State α) (d : Dendrogram α) (data : Array α) (n : Nat) (h2 : 2 ≤ n)
    (hs : n < 2147483648) (hl : 2 * data.size = n * (n - 1))
    (hR : ∀ i j, i ≠ j → R (leaf i) (leaf j) ((init mc.intoMethod n data).D i j)) :
    ∃ st' d' M', nnchainWith chk mc st d data n = .ok (st', d', M') ∧
      GreedyValid mc.intoMethod n data d'.steps.toList := by
  have RL := rlaws_of_reducible C hu hred hnan
  have hnd : NoNaNData (squareData mc.intoMethod data) := fun _ _ => hnan _
  have hl' : 2 * (squareData mc.intoMethod data).size = n * (n - 1) := by
    rw [squareData_size]; exact hl
  obtain ⟨s1, hloop, hres⟩ := chainLoop_rnn L chk mc hred C hu data n h2 hs hl hnd hR
  -- `nnchainWith` is the loop followed by `relabel` and `sqrt`
  have heq : nnchainWith chk mc st d data n =
      (relabel mc.intoMethod s1.st.set s1.dend >>= fun r =>
        pure ({ s1.st with set := r.1 }, sqrtSteps mc.intoMethod r.2, s1.M)) := by
    unfold nnchainWith
    simp only []
    rw [Mat.new_ok chk (squareData mc.intoMethod data) n h2 hs hl']
    have hn0 : ¬ n = 0 := by omega
    simp only [bind, Except.bind, hn0, if_false, State.reset_eq_fresh, dendrogramReset_eq, hloop]
  have hraw : RawTree n (s1.dend.steps.toList.map (fun s => (s.c1, s.c2))) := hres.res.raw
  have hlen : s1.dend.steps.toList.length = n - 1 := by simp [hres.res.steps_sz]
  -- the sorted run is greedy
  obtain ⟨hS, hgv⟩ := sorted_rnn_greedyValid L hnan RL hsym n data hR s1.dend.steps.toList hlen
    (by omega) hres.run
  -- `relabel`
  obtain ⟨⟨uf, d'⟩, hr⟩ := relabel_total mc.intoMethod s1.st.set s1.dend n h2 hres.res.obs hraw
    (Or.inr (Or.inr (fun s _ => hnan s.d)))
  have hr' := relabel_presorted L hnan mc.intoMethod s1.st.set s1.dend _ hr
  have hms : mc.intoMethod.requiresSorting = true := by cases mc <;> rfl
  have hproc : (processed mc.intoMethod s1.dend.steps).toList
      = s1.dend.steps.toList.mergeSort stepLe := by
    unfold processed; rw [if_pos hms]
  have hraw' : RawTree n (edgesOf (processed mc.intoMethod s1.dend.steps).toList) :=
    rawTree_processed mc.intoMethod hraw
  have hmo := relabel_eq_mergeOrder mc.intoMethod s1.st.set uf
    { s1.dend with steps := processed mc.intoMethod s1.dend.steps } d' n h2 hres.res.obs hraw'
    (by rw [hproc]; exact mergeTrace_of_rnn n _ hS)
    (processed_idem L hnan _ _)
    (by rw [hproc]; exact greedyValid_wellFormed hgv) hr'
  refine ⟨{ s1.st with set := uf }, sqrtSteps mc.intoMethod d', s1.M, ?_, ?_⟩
  · rw [heq, hr]; rfl
  · rw [hmo]
    simp only [hproc]
    exact hgv

end Kodama
