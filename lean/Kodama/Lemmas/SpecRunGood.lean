/-
The RUN-DEPENDENT value hypothesis of the `generic_with` theorems, specification form.

* `Spec.RunGood G m n data`   every table value (at a pair of distinct live labels) of every state
                              reached by a greedy-valid partial run of the label-based specification
                              (`Spec/Naive.lean`: `init`, `merge`, `Admissible`, `GreedyFrom`) from the
                              initial state lies in `G`.  It mentions neither the algorithm nor its
                              data structures.  It is the `G`-version of `Spec.NoNaNRun`
                              (`RunGood.noNaNRun`).
* `runGoodB`, `runGood_of_check`   a bounded exhaustive exploration of ALL greedy runs (at each state:
                              every live pair that is a minimum of the table), with a Boolean good-value
                              test `g`; if it returns `true`, `RunGood (g · = true)` holds.  For a
                              tie-free input there is exactly one run.  Used for the concrete
                              non-vacuity examples (`decide`).
-/
import Kodama.Lemmas.PrimGreedySpec
namespace Kodama.Spec
variable {α : Type} [Num α]

/-- **Run-dependent value hypothesis (specification form).**  Every state reached from the initial
state by a greedy-valid partial run `l` of the specification holds a good value at every pair of
distinct live labels.  (Take `l = []`: the — squared, for the methods on squares — input entries are
good.) -/
def RunGood (G : α → Prop) (m : Method) (n : Nat) (data : Array α) : Prop :=
  ∀ l : List (Step α), GreedyFrom m (init m n data) l →
    ∀ x ∈ (replay m (init m n data) l).live, ∀ y ∈ (replay m (init m n data) l).live, x ≠ y →
      G ((replay m (init m n data) l).D x y)

theorem RunGood.mono {G G' : α → Prop} {m : Method} {n : Nat} {data : Array α}
    (h : RunGood G m n data) (hG : ∀ v, G v → G' v) : RunGood G' m n data :=
  fun l hl x hx y hy hxy => hG _ (h l hl x hx y hy hxy)

theorem RunGood.noNaNRun {G : α → Prop} {m : Method} {n : Nat} {data : Array α}
    (h : RunGood G m n data) (hG : ∀ v, G v → Num.isNaN v = false) : NoNaNRun m n data :=
  h.mono hG

/-! ### A checker: bounded exhaustive exploration of all greedy runs -/

/-- The live pairs `x < y` whose table value is a minimum over all live pairs: exactly the pairs an
admissible greedy step may merge. -/
def minPairs (s : NState α) : List (Nat × Nat) :=
  (s.live.flatMap fun x => s.live.map fun y => (x, y)).filter fun p =>
    decide (p.1 < p.2) &&
      s.live.all fun x => s.live.all fun y => x == y || !(Num.lt (s.D x y) (s.D p.1 p.2))

/-- All live off-diagonal table values pass the Boolean test `g`. -/
def tableGoodB (g : α → Bool) (s : NState α) : Bool :=
  s.live.all fun x => s.live.all fun y => x == y || g (s.D x y)

/-- Explore every greedy run of length `≤ k` from `s`, testing every table on the way; at depth `k`
no further admissible step may exist. -/
def runGoodB (g : α → Bool) (m : Method) : Nat → NState α → Bool
  | 0, s => tableGoodB g s && (minPairs s).isEmpty
  | k + 1, s => tableGoodB g s && (minPairs s).all fun p => runGoodB g m k (merge m s p.1 p.2)

theorem mem_minPairs_of_admissible {m : Method} {s : NState α} {st : Step α}
    (h : Admissible m s st) : (st.c1, st.c2) ∈ minPairs s := by
  obtain ⟨h1, h2, h3, hmin, -, -⟩ := h
  unfold minPairs
  rw [List.mem_filter]
  refine ⟨?_, ?_⟩
  · rw [List.mem_flatMap]
    exact ⟨st.c1, h1, List.mem_map.mpr ⟨st.c2, h2, rfl⟩⟩
  · simp only [Bool.and_eq_true, decide_eq_true_eq, List.all_eq_true, Bool.or_eq_true, beq_iff_eq,
      Bool.not_eq_true']
    refine ⟨h3, ?_⟩
    intro x hx y hy
    by_cases e : x = y
    · exact Or.inl e
    · exact Or.inr (hmin x hx y hy e)

theorem tableGoodB_spec {g : α → Bool} {s : NState α} (h : tableGoodB g s = true) :
    ∀ x ∈ s.live, ∀ y ∈ s.live, x ≠ y → g (s.D x y) = true := by
  intro x hx y hy hxy
  unfold tableGoodB at h
  simp only [List.all_eq_true, Bool.or_eq_true, beq_iff_eq] at h
  rcases h x hx y hy with e | e
  · exact absurd e hxy
  · exact e

theorem runGoodB_sound (g : α → Bool) (m : Method) :
    ∀ (k : Nat) (s : NState α), runGoodB g m k s = true →
      ∀ l : List (Step α), GreedyFrom m s l →
        ∀ x ∈ (replay m s l).live, ∀ y ∈ (replay m s l).live, x ≠ y →
          g ((replay m s l).D x y) = true := by
  intro k
  induction k with
  | zero =>
    intro s h l hl
    simp only [runGoodB, Bool.and_eq_true, List.isEmpty_iff] at h
    cases l with
    | nil => exact tableGoodB_spec h.1
    | cons st r =>
      have := mem_minPairs_of_admissible hl.1
      rw [h.2] at this
      cases this
  | succ k ih =>
    intro s h l hl
    simp only [runGoodB, Bool.and_eq_true, List.all_eq_true] at h
    cases l with
    | nil => exact tableGoodB_spec h.1
    | cons st r =>
      have hm := mem_minPairs_of_admissible hl.1
      exact ih _ (h.2 _ hm) r hl.2

/-- If the exploration succeeds on the initial state, `RunGood` holds for the set of values passing
the test. -/
theorem runGood_of_check (g : α → Bool) (m : Method) (n : Nat) (data : Array α) (k : Nat)
    (h : runGoodB g m k (init m n data) = true) : RunGood (fun v => g v = true) m n data :=
  fun l hl => runGoodB_sound g m k _ h l hl

end Kodama.Spec
