/-
`dis[[r, c]]` of the model reads the entry `Spec.entry` of the ORIGINAL matrix (the specification
looks the pair up in the row-major enumeration; the model computes the index formula).
-/
import Kodama.Props.C07
import Kodama.Spec.Naive
namespace Kodama
open Spec
variable {α : Type}

/-- The first (and only) position of the pair `(r, c)` in the enumeration is the index formula. -/
theorem findIdx_pairs (n r c : Nat) (hrc : r < c) (hcn : c < n) :
    (pairs n).findIdx? (· == (r, c)) = some (Gen.idxN n r c) := by
  have hl := C07_layout n r c hrc hcn
  obtain ⟨hlt, he⟩ := List.getElem?_eq_some_iff.mp hl
  rw [List.findIdx?_eq_some_iff_getElem]
  refine ⟨hlt, by simp [he], ?_⟩
  intro j hj hp
  have hjl : j < (pairs n).length := by omega
  have hpj : (pairs n)[j] = (r, c) := by simpa using hp
  have := ((C07_bij n).2.2.2 j hjl).2.2
  rw [hpj] at this
  simp only at this
  omega

/-- `Spec.entry` for `r < c < n` is the slot of the condensed array given by the index formula. -/
theorem entry_eq_getD (n : Nat) (data : Array α) (dflt : α) (r c : Nat) (hrc : r < c)
    (hcn : c < n) : entry n data dflt r c = data.getD (Gen.idxN n r c) dflt := by
  unfold entry
  simp only [hrc, if_true, findIdx_pairs n r c hrc hcn]

/-- The model's read `dis[[r, c]]` returns the specification's entry. -/
theorem mget_entry (chk : Bool) (M : Mat α) (hv : M.Valid) (dflt : α) (r c : Nat) (hrc : r < c)
    (hcn : c < M.n) : M.get chk r c = .ok (entry M.n M.data dflt r c) := by
  unfold Mat.get
  rw [Mat.idx_ok chk M r c hrc hcn hv.small]
  have h1 := idxN_lt M.n r c hrc hcn
  have h2 := hv.size
  have hlt : Gen.idxN M.n r c < M.data.size := by omega
  rw [entry_eq_getD M.n M.data dflt r c hrc hcn]
  simp [bind, Except.bind, aget, hlt]

end Kodama
