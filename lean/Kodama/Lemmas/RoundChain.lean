/-
The main loop of `nnchain_with` for an APPROXIMATE dissimilarity relation.

`Lemmas/RnnChain.lean` proves that the loop performs a run of reciprocal-nearest-neighbour merges of
the `R`-dissimilarities for every relation `R` on merge trees that the method's update propagates
(`Crit.LWCompat`) AND that is functional, under the GLOBAL hypothesis `ChainReducible α m`.  Neither
is available for a rounding-error relation ("`val v` is within `k` rounding factors of the exact
criterion" — many `v` qualify) over a number type that only satisfies the standard model on its
finite, range-safe values.  This file redoes the loop with what IS available:

* `ChainGe α m`        the `ge` clause of `ChainReducible` alone (for the clamped average: a theorem
                       from `OrderLaws`, `chainGe_average`); `ChainGeOn ok m` the same on a domain `ok`
                       of values containing every `R`-related value (needed for weighted linkage on
                       floats: `ChainReducibleOn`, `Lemmas/ChainOn.lean`, `Lemmas/WeightedMono.lean`);
* `UpdNoNaN m live st M`  no update of the CURRENT matrix produces a NaN (local; discharged from the
                       relation: `R … v → isNaN v = false`);
* `chainIter_ok_local` one outer iteration (`chainIter_ok_ext` with these two hypotheses; same proof);
* `StepH R σ pre s`    what is recorded about a raw step `s` in index state `σ` after the raw steps
                       `pre`: it merges two distinct live indices, ITS HEIGHT IS `R`-RELATED TO THE
                       TWO MERGED TREES, its size is the merged size, and it is AT LEAST AS HIGH AS
                       EVERY EARLIER STEP INSIDE THE TWO MERGED CLUSTERS (`mono`: parent ≥ child,
                       transitively — what makes the stable sort by height a legal replay);
* `RoundInv`           the loop invariant: `ChainInv`, the matrix holds `R`-values of the cluster
                       trees (F1), sizes are cardinalities, every live index belongs to its own cluster,
                       every recorded step inside a live cluster is at most as high as every current
                       entry of that cluster's row (`inside`), and all recorded steps satisfy `StepH`;
* `roundLoop`          the whole loop: total, `ChainLoopResult`, and `StepH` for every raw step.
-/
import Kodama.Lemmas.RnnChain
import Kodama.Lemmas.ChainOn
namespace Kodama
open Spec
variable {α : Type} [Num α]

/-- The `ge` clause of `ChainReducible α m` (`Lemmas/ChainIter.lean`). -/
def ChainGe (α : Type) [Num α] (m : MethodChain) : Prop :=
  ∀ (sizes : Array Nat) (sa sb : Nat) (dab : α) (x : Nat) (va vb v t : α),
    0 < sa → 0 < sb → Num.isNaN dab = false → Num.isNaN va = false → Num.isNaN vb = false →
    Num.isNaN t = false → Num.lt t dab = false → Num.lt va t = false → Num.lt vb t = false →
    chainUpdFn m sizes sa sb dab x va vb = .ok v → Num.lt v t = false

/-- The clamped average satisfies `ChainGe` in every ordered number type (no rounding model). -/
theorem chainGe_average (L : OrderLaws α) : ChainGe α .average := by
  intro sizes sa sb dab x va vb v t _ _ _ na nb _ _ h1 h2 h
  simp only [chainUpdFn, updFn, pure, Except.pure, Except.ok.injEq] at h
  subst h
  exact Gen.average_not_lt L sa sb na nb h1 h2

theorem ChainReducible.chainGe {m : MethodChain} (h : ChainReducible α m) : ChainGe α m := h.ge

/-- `ChainGe` restricted to a domain `ok` of values — the `ge` clause of `ChainReducibleOn`
(`Lemmas/ChainOn.lean`).  This is the form in which reducibility of the WEIGHTED update is true of IEEE
floats (monotone rounding; the unrestricted form fails by overflow at `t = −max_value`). -/
def ChainGeOn (ok : α → Prop) (m : MethodChain) : Prop :=
  ∀ (sizes : Array Nat) (sa sb : Nat) (dab : α) (x : Nat) (va vb v t : α),
    0 < sa → 0 < sb → ok dab → ok va → ok vb → ok t →
    Num.isNaN dab = false → Num.isNaN va = false → Num.isNaN vb = false →
    Num.isNaN t = false → Num.lt t dab = false → Num.lt va t = false → Num.lt vb t = false →
    chainUpdFn m sizes sa sb dab x va vb = .ok v → Num.lt v t = false

theorem ChainGe.on {m : MethodChain} (h : ChainGe α m) (ok : α → Prop) : ChainGeOn ok m :=
  fun sizes sa sb dab x va vb v t hsa hsb _ _ _ _ => h sizes sa sb dab x va vb v t hsa hsb

theorem ChainReducibleOn.chainGeOn {ok : α → Prop} {m : MethodChain}
    (h : ChainReducibleOn α ok m) : ChainGeOn ok m := h.ge

/-- No Lance–Williams update of the current matrix produces a NaN. -/
def UpdNoNaN (m : MethodChain) (live : List Nat) (st : State α) (M : Mat α) : Prop :=
  ∀ a ∈ live, ∀ b ∈ live, a ≠ b → ∀ x ∈ live, x ≠ a → x ≠ b → ∀ v,
    chainUpdFn m st.sizes (st.sizes.getD a 0) (st.sizes.getD b 0) (M.dval a b) x
      (M.dval x a) (M.dval x b) = .ok v → Num.isNaN v = false

/-- One outer iteration of `nnchainWith`, with all its effects exported — `chainIter_ok_ext`
(`Lemmas/RnnChain.lean`) with the GLOBAL hypothesis `ChainReducible α m` split into its `ge` clause
(`ChainGeOn ok`, on a domain `ok` that contains the entries of the current matrix; for the clamped
average `ChainGe`, a theorem in every ordered number type) and a LOCAL no-NaN hypothesis on the updates
of the current matrix (`UpdNoNaN`).  Same proof. -/
theorem chainIter_ok_local (L : OrderLaws α) (chk : Bool) (m : MethodChain) {ok : α → Prop}
    (hge : ChainGeOn ok m)
    (n k : Nat) (live : List Nat) (st : State α) (dend : Dendrogram α) (M : Mat α)
    (hk : k + 1 < n) (inv : ChainInv n k live st dend M)
    (hnanupd : UpdNoNaN m live st M)
    (hokM : ∀ x ∈ live, ∀ y ∈ live, x ≠ y → ok (M.dval x y)) :
    ∃ st' dend' M' a b, chainIter chk m ⟨st, dend, M⟩ = .ok ⟨st', dend', M'⟩ ∧
      ChainInv n (k + 1) (live.filter (· ≠ a)) st' dend' M' ∧
      ChainStepFacts m n live st dend M st' dend' M' a b := by
  have hrep := inv.prim.rep
  have hv := inv.prim.mvalid
  have hn := inv.prim.mn
  have hlt := hrep.lt_n
  have hnd : live.Nodup := hrep.nodup
  have hlen : 2 ≤ live.length := by have := inv.prim.llen; omega
  have hnsmall : n < 2147483648 := by have := hv.small; rw [hn] at this; exact this
  -- 1. restart or pop
  obtain ⟨chain0, a0, b0, min0, M1, rest0, e1, d1, n1, htop0, hch0, hmin0, hsz0, hacc1⟩ :=
    chainStart_ok L chk n live st M hrep hlen hv hn inv.nonan inv.chain
  have hv1 : M1.Valid := hv.of_eq n1 (by rw [d1])
  have hD1 : M1.dval = M.dval := by funext x y; exact Mat.dval_congr d1 n1 x y
  have hfuel : live.length ≤ M1.data.size + 2 + chain0.size := by
    have h1 := hrep.length_le
    have h2 := hv.size
    rw [hn] at h2
    have h3 : 2 * (n - 1) ≤ n * (n - 1) := Nat.mul_le_mul_right _ (by omega)
    rw [d1]; omega
  -- 2. grow the chain to a reciprocal pair
  obtain ⟨a', b', min', chain', M2, rest', e2, d2, n2, htop', hch', hmin', halla', p, hszp, hacc2⟩ :=
    chainGrow_ok L chk n st.active live hrep (M1.data.size + 2) chain0 a0 b0 min0 M1 rest0 hv1
      (by rw [n1, hn]) (by intro x hx y hy hxy; rw [hD1]; exact inv.nonan x hx y hy hxy) htop0
      (hch0.congr hD1) (by rw [hD1]; exact hmin0) hfuel
  rw [hD1] at hch' hmin' halla'
  have hd2' : M2.data = M.data := by rw [d2, d1]
  have hn2' : M2.n = n := by rw [n2, n1, hn]
  have hv2 : M2.Valid := hv.of_eq (by rw [hn2', hn]) (by rw [hd2'])
  have hD2 : M2.dval = M.dval := by
    funext x y; exact Mat.dval_congr hd2' (by rw [hn2', hn]) x y
  have ha' : a' ∈ live := hch'.mem a' List.mem_cons_self
  have hb' : b' ∈ live := hch'.mem b' (List.mem_cons_of_mem _ List.mem_cons_self)
  have hnd' := List.nodup_cons.mp hch'.nodup
  have hnd'' := List.nodup_cons.mp hnd'.2
  have hab' : a' ≠ b' := fun h => hnd'.1 (h ▸ List.mem_cons_self)
  have hrest : ChainL M.dval live rest' := hch'.tail.tail
  have hheadnn := hch'.head_nn
  -- the merged pair, smaller index first
  have hpair_eq : (if a' > b' then (b', a') else (a', b')) = (min a' b', max a' b') := by
    split <;> simp only [Prod.mk.injEq] <;> omega
  have hlohi : min a' b' < max a' b' := by omega
  have hlo : min a' b' ∈ live := by
    by_cases h : a' ≤ b'
    · rw [Nat.min_eq_left h]; exact ha'
    · rw [Nat.min_eq_right (by omega)]; exact hb'
  have hhi : max a' b' ∈ live := by
    by_cases h : a' ≤ b'
    · rw [Nat.max_eq_right h]; exact hb'
    · rw [Nat.max_eq_left (by omega)]; exact ha'
  have hlo_or : min a' b' = a' ∨ min a' b' = b' := by omega
  have hhi_or : max a' b' = a' ∨ max a' b' = b' := by omega
  generalize hlodef : min a' b' = lo at *
  generalize hhidef : max a' b' = hi at *
  have hdab : M.dval lo hi = M.dval a' b' := by
    rw [← hlodef, ← hhidef]; exact Mat.dval_minmax M a' b'
  have hlon : lo < n := hlt lo hlo
  have hhin : hi < n := hlt hi hhi
  have hdabnan : Num.isNaN (M.dval lo hi) = false := inv.nonan lo hlo hi hhi (by omega)
  -- both merged clusters have all their distances ≥ d(lo,hi)
  have hpairnn : ∀ c, (c = a' ∨ c = b') → ∀ x ∈ live, x ≠ c →
      Num.lt (M.dval c x) (M.dval lo hi) = false := by
    intro c hc x hx hxc
    rw [hdab]
    rcases hc with h | h
    · rw [h] at hxc ⊢; rw [← hmin']; exact halla' x hx hxc
    · rw [h] at hxc ⊢; rw [Mat.dval_comm M a' b']; exact hheadnn b' List.mem_cons_self x hx hxc
  have hnotin : ∀ c ∈ rest', c ≠ lo ∧ c ≠ hi := by
    intro c hc
    have h1 : c ≠ a' := fun h => hnd'.1 (h ▸ List.mem_cons_of_mem _ hc)
    have h2 : c ≠ b' := fun h => hnd''.1 (h ▸ hc)
    constructor
    · rcases hlo_or with h | h <;> rw [h] <;> assumption
    · rcases hhi_or with h | h <;> rw [h] <;> assumption
  -- every link below the merged pair is ≥ d(lo,hi)
  have hthr : ∀ t q pp r, rest' = t ++ q :: pp :: r →
      Num.lt (M.dval pp q) (M.dval lo hi) = false := by
    intro t q pp r e
    have hpm : pp ∈ rest' := by rw [e]; simp
    have hqm : q ∈ rest' := by rw [e]; simp
    have hpq : q ≠ pp := by
      intro h
      have hn' := hrest.nodup
      rw [e] at hn'
      have := (List.nodup_append.mp hn').2.1
      rw [h] at this
      exact (List.nodup_cons.mp this).1 List.mem_cons_self
    rw [hdab, Mat.dval_comm M a' b']
    exact hheadnn pp (List.mem_cons_of_mem _ hpm) q (hrest.mem q hqm) hpq
  -- 3. the Lance–Williams update
  have hsz := inv.prim.sizes_sz
  obtain ⟨M3, e3, n3, s3, acc3, hupd, hframe⟩ :=
    chainUpdate_spec chk m n live ({ st with chain := chain' } : State α) hrep hsz lo hi hlohi hlo hhi
      M2 hv2 hn2'
  simp only [hD2] at hupd hframe
  have hv3 : M3.Valid := hv2.of_eq (by rw [n3, hn2']) s3
  have hsa : 0 < st.sizes.getD lo 0 := inv.sizes_pos lo hlo
  have hsb : 0 < st.sizes.getD hi 0 := inv.sizes_pos hi hhi
  have hloor : lo = a' ∨ lo = b' := hlo_or
  have hhior : hi = a' ∨ hi = b' := hhi_or
  -- the new entries are not NaN
  have hnewnan : ∀ x ∈ live, x ≠ lo → x ≠ hi → Num.isNaN (M3.dval x hi) = false := by
    intro x hx hxlo hxhi
    exact hnanupd lo hlo hi hhi (Nat.ne_of_lt hlohi) x hx hxlo hxhi _ (hupd x hx hxlo hxhi)
  -- 4. merge
  obtain ⟨st', s, act', hmerge, hst', hs, hrep'⟩ := merge_ok chk n k live
    ({ st with chain := chain' } : State α) dend hrep hsz inv.prim.sizes_sum hnsmall inv.prim.obs
    inv.prim.steps_sz hk lo hi hlo hhi (by omega) min'
  have hmem' : ∀ x, x ∈ live.filter (· ≠ lo) ↔ x ∈ live ∧ x ≠ lo := by
    intro x; simp [List.mem_filter]
  have hlen' := filter_ne_length lo live hnd hlo
  have hhisz : hi < st.sizes.size := by rw [hsz]; exact hhin
  have hsizes' : st'.sizes = st.sizes.set hi (st.sizes.getD lo 0 + st.sizes.getD hi 0) hhisz := by
    rw [hst', hs]
  have hchain' : st'.chain = chain' := by rw [hst']
  have htop2 : topFirst chain'.pop.pop = rest' := by
    rw [topFirst_pop, topFirst_pop, htop']; rfl
  have hclen : chain'.size = rest'.length + 2 := by
    rw [← topFirst_length, htop']; rfl
  refine ⟨st', { dend with steps := dend.steps.push (Step.new lo hi min' s) }, M3, lo, hi, ?_,
    ?_, ?_⟩
  rotate_left 2
  · exact
      { lt := hlohi
        ma := hlo
        mb := hhi
        steps := by rw [hmin', ← hdab, hs]
        obs := rfl
        sizes := by
          intro x
          rw [hsizes', chain_getD_set]
        nn := fun c hc x hx hxc => hpairnn c (by rcases hc with h | h <;> rw [h] <;> [exact hloor; exact hhior]) x hx hxc
        upd := hupd
        frame := hframe }
  · rw [chainIter_eq]
    simp only [bind, Except.bind, e1, e2, hpair_eq, e3, hmerge]
    rfl
  · exact
      { prim := by
          apply PrimInv.step inv.prim lo hi hlohi hlo hhi st' min' s M3 hhisz _ hsizes' hv3
            (by rw [n3])
          rw [hst']; exact hrep'
        sizes_pos := by
          intro x hx
          have hx' := (hmem' x).mp hx
          rw [hsizes', chain_getD_set]
          by_cases hxh : x = hi
          · rw [if_pos hxh]; omega
          · rw [if_neg hxh]; exact inv.sizes_pos x hx'.1
        nonan := by
          intro x hx y hy hxy
          have hx' := (hmem' x).mp hx
          have hy' := (hmem' y).mp hy
          by_cases hyh : y = hi
          · subst hyh
            exact hnewnan x hx'.1 hx'.2 hxy
          · by_cases hxh : x = hi
            · subst hxh
              rw [Mat.dval_comm]
              exact hnewnan y hy'.1 hy'.2 hyh
            · rw [hframe x y (hlt x hx'.1) (hlt y hy'.1) hxy (fun h => hyh h.1) (fun h => hxh h.1)]
              exact inv.nonan x hx'.1 y hy'.1 hxy
        chain := by
          intro _
          rw [hchain', htop2]
          exact
            { mem := fun c hc => (hmem' c).mpr ⟨hrest.mem c hc, (hnotin c hc).1⟩
              nodup := hrest.nodup
              nn := by
                intro t q pp r e c hc x hx hxc
                have hx' := (hmem' x).mp hx
                have hpm : pp ∈ rest' := by rw [e]; simp
                have hqm : q ∈ rest' := by rw [e]; simp
                have hcm : c ∈ rest' := by
                  rw [e]
                  exact List.mem_append_right _ (List.mem_cons_of_mem _ hc)
                have hpq : pp ≠ q := by
                  intro h
                  have hn' := hrest.nodup
                  rw [e] at hn'
                  have := (List.nodup_append.mp hn').2.1
                  rw [h] at this
                  exact (List.nodup_cons.mp this).1 List.mem_cons_self
                have hpl := hrest.mem pp hpm
                have hql := hrest.mem q hqm
                have hcl := hrest.mem c hcm
                have hold := hrest.nn t q pp r e c hc
                rw [hframe pp q (hlt pp hpl) (hlt q hql) hpq (fun h => (hnotin q hqm).2 h.1)
                  (fun h => (hnotin pp hpm).2 h.1)]
                by_cases hxh : x = hi
                · subst hxh
                  apply hge st.sizes _ _ (M.dval lo x) c (M.dval c lo) (M.dval c x) _
                    (M.dval pp q) hsa hsb (hokM lo hlo x hhi (by omega))
                    (hokM c hcl lo hlo (hnotin c hcm).1) (hokM c hcl x hhi (hnotin c hcm).2)
                    (hokM pp hpl q hql hpq) hdabnan
                    (inv.nonan c hcl lo hlo (hnotin c hcm).1) (inv.nonan c hcl x hhi (hnotin c hcm).2)
                    (inv.nonan pp hpl q hql hpq) (hthr t q pp r e)
                    (hold lo hlo (fun h => (hnotin c hcm).1 h.symm))
                    (hold x hhi (fun h => (hnotin c hcm).2 h.symm))
                    (hupd c hcl (hnotin c hcm).1 (hnotin c hcm).2)
                · rw [hframe c x (hlt c hcl) (hlt x hx'.1) (fun h => hxc h.symm)
                    (fun h => hxh h.1) (fun h => (hnotin c hcm).2 h.1)]
                  exact hold x hx'.1 hxc }
        heights := by
          intro s0 hs0
          simp only [Array.toList_push, List.mem_append, List.mem_singleton] at hs0
          rcases hs0 with h | h
          · exact inv.heights s0 h
          · have hd : s0.d = min' := by rw [h]; unfold Step.new; split <;> rfl
            rw [hd, hmin']
            exact inv.nonan a' ha' b' hb' hab'
        chain_sz := by
          rw [hchain']
          have := hch'.length_le
          simp only [List.length_cons] at this
          omega
        work := by
          rw [hchain', hszp]
          have hle : chain0.size + p ≤ live.length := by
            have := hch'.length_le
            simp only [List.length_cons] at this
            omega
          exact chainWork_step M.acc M3.acc live.length (live.filter (· ≠ lo)).length st.chain.size
            chain0.size p (7 * (n * (n + 1))) inv.work (by omega) hsz0 hle hlen' }




/-! ### What is recorded about the raw steps -/

namespace Rnn
open Crit MTree Finset

/-- The raw step `s`, recorded in index state `σ` after the raw steps `pre`: two distinct live indices,
height `R`-related to the two merged trees, merged size, and at least as high as every earlier step
inside the two merged clusters. -/
structure StepH (R : MTree Nat → MTree Nat → α → Prop) (σ : IState) (pre : List (Step α))
    (s : Step α) : Prop where
  m1 : s.c1 ∈ σ.live
  m2 : s.c2 ∈ σ.live
  ne : s.c1 ≠ s.c2
  height : R (σ.tree s.c1) (σ.tree s.c2) s.d
  size : s.size = (σ.tree s.c1).leaves.card + (σ.tree s.c2).leaves.card
  mono : ∀ t ∈ pre, (t.c1 ∈ (σ.tree s.c1).leaves ∨ t.c1 ∈ (σ.tree s.c2).leaves) →
    Num.lt s.d t.d = false

/-- Every step of `L`, replayed from `n` singletons, satisfies `StepH`. -/
def RunH (R : MTree Nat → MTree Nat → α → Prop) (n : Nat) (L : List (Step α)) : Prop :=
  ∀ (i : Nat) (s : Step α), L[i]? = some s →
    StepH R (IState.replay (IState.init n) (L.take i)) (L.take i) s

theorem RunH.nil (R : MTree Nat → MTree Nat → α → Prop) (n : Nat) : RunH R n [] := by
  intro i s h; simp at h

theorem RunH.snoc {R : MTree Nat → MTree Nat → α → Prop} {n : Nat} {L : List (Step α)}
    {s : Step α} (h : RunH R n L) (hs : StepH R (IState.replay (IState.init n) L) L s) :
    RunH R n (L ++ [s]) := by
  intro i t hi
  by_cases c : i < L.length
  · rw [List.getElem?_append_left c] at hi
    rw [List.take_append_of_le_length (Nat.le_of_lt c)]
    exact h i t hi
  · have hlen : i < (L ++ [s]).length := (List.getElem?_eq_some_iff.mp hi).1
    simp only [List.length_append, List.length_singleton] at hlen
    have e : i = L.length := by omega
    subst e
    have : (L ++ [s])[L.length]? = some s := by simp
    rw [this] at hi
    have est : s = t := Option.some.inj hi
    subst est
    have e2 : (L ++ [s]).take L.length = L := by simp
    rw [e2]
    exact hs

end Rnn

/-! ### The loop invariant -/

open Crit MTree Rnn in
/-- Invariant of the outer loop after `k` merges, for a relation `R` that need not be functional. -/
structure RoundInv (R : MTree Nat → MTree Nat → α → Prop) (n k : Nat) (live : List Nat)
    (st : State α) (dend : Dendrogram α) (M : Mat α) (σ : IState) : Prop where
  chain : ChainInv n k live st dend M
  state : σ = IState.replay (IState.init n) dend.steps.toList
  live_eq : σ.live = live
  tab : Tab R σ
  table : ∀ x ∈ live, ∀ y ∈ live, x ≠ y → R (σ.tree x) (σ.tree y) (M.dval x y)
  sizes : ∀ x ∈ live, st.sizes.getD x 0 = (σ.tree x).leaves.card
  self : ∀ x ∈ live, x ∈ (σ.tree x).leaves
  inside : ∀ x ∈ live, ∀ t ∈ dend.steps.toList, t.c1 ∈ (σ.tree x).leaves →
    ∀ y ∈ live, y ≠ x → Num.lt (M.dval x y) t.d = false
  run : RunH R n dend.steps.toList

open Crit MTree Rnn Finset in
/-- One outer iteration preserves `RoundInv`. -/
theorem roundInv_step (L : OrderLaws α) (chk : Bool) (mc : MethodChain) {ok : α → Prop}
    (hge : ChainGeOn ok mc)
    {R : MTree Nat → MTree Nat → α → Prop} (C : LWCompat mc.intoMethod R)
    (hRnan : ∀ s t v, R s t v → Num.isNaN v = false) (hRok : ∀ s t v, R s t v → ok v)
    (n k : Nat) (live : List Nat) (st : State α) (dend : Dendrogram α) (M : Mat α) (σ : IState)
    (hk : k + 1 < n) (inv : RoundInv R n k live st dend M σ) :
    ∃ st' dend' M' a b, chainIter chk mc ⟨st, dend, M⟩ = .ok ⟨st', dend', M'⟩ ∧
      RoundInv R n (k + 1) (live.filter (· ≠ a)) st' dend' M' (σ.merge a b) := by
  have hlt := inv.chain.prim.rep.lt_n
  have hszn := inv.chain.prim.sizes_sz
  -- every update of the current matrix is `R`-related to the merged trees
  have hrowR : ∀ a ∈ live, ∀ b ∈ live, a ≠ b → ∀ x ∈ live, x ≠ a → x ≠ b → ∀ v,
      chainUpdFn mc st.sizes (st.sizes.getD a 0) (st.sizes.getD b 0) (M.dval a b) x
        (M.dval x a) (M.dval x b) = .ok v →
      R (node (σ.tree a) (σ.tree b)) (σ.tree x) v := by
    intro a ha b hb hab x hx hxa hxb v hv
    have hsa : a ∈ σ.live := by rw [inv.live_eq]; exact ha
    have hsb : b ∈ σ.live := by rw [inv.live_eq]; exact hb
    have hsx : x ∈ σ.live := by rw [inv.live_eq]; exact hx
    rw [chainUpdFn_eq mc _ _ _ _ x _ _ (by rw [hszn]; exact hlt x hx)] at hv
    injection hv with hv
    rw [← hv, inv.sizes a ha, inv.sizes b hb, inv.sizes x hx, M.dval_comm x a, M.dval_comm x b]
    exact C.step _ _ _ _ _ _ (inv.tab.disj a hsa b hsb hab)
      (inv.tab.disj a hsa x hsx (Ne.symm hxa)) (inv.tab.disj b hsb x hsx (Ne.symm hxb))
      (inv.table a ha x hx (Ne.symm hxa)) (inv.table b hb x hx (Ne.symm hxb))
      (inv.table a ha b hb hab)
  have hnanupd : UpdNoNaN mc live st M := fun a ha b hb hab x hx hxa hxb v hv =>
    hRnan _ _ _ (hrowR a ha b hb hab x hx hxa hxb v hv)
  have hokM : ∀ x ∈ live, ∀ y ∈ live, x ≠ y → ok (M.dval x y) := fun x hx y hy hxy =>
    hRok _ _ _ (inv.table x hx y hy hxy)
  obtain ⟨st', dend', M', a, b, e, cinv', F⟩ :=
    chainIter_ok_local L chk mc hge n k live st dend M hk inv.chain hnanupd hokM
  refine ⟨st', dend', M', a, b, e, ?_⟩
  have hab : a ≠ b := Nat.ne_of_lt F.lt
  have hsa : a ∈ σ.live := by rw [inv.live_eq]; exact F.ma
  have hsb : b ∈ σ.live := by rw [inv.live_eq]; exact F.mb
  have hnn := inv.chain.nonan
  have hdabnan : Num.isNaN (M.dval a b) = false := hnn a F.ma b F.mb hab
  have hpa : 0 < st.sizes.getD a 0 := inv.chain.sizes_pos a F.ma
  have hpb : 0 < st.sizes.getD b 0 := inv.chain.sizes_pos b F.mb
  -- the recorded step
  generalize hs : Step.new a b (M.dval a b) (st.sizes.getD a 0 + st.sizes.getD b 0) = s
  have hc1 : s.c1 = a := by rw [← hs, Step.new_c1]; have := F.lt; omega
  have hc2 : s.c2 = b := by rw [← hs, Step.new_c2]; have := F.lt; omega
  have hd : s.d = M.dval a b := by rw [← hs, Step.new_d]
  have hsz : s.size = st.sizes.getD a 0 + st.sizes.getD b 0 := by rw [← hs, Step.new_size]
  have hsteps : dend'.steps.toList = dend.steps.toList ++ [s] := by
    rw [F.steps, hs]; simp
  -- every earlier step inside one of the two merged clusters is at most as high as the new one
  have hbelow : ∀ t ∈ dend.steps.toList,
      (t.c1 ∈ (σ.tree a).leaves ∨ t.c1 ∈ (σ.tree b).leaves) → Num.lt (M.dval a b) t.d = false := by
    intro t ht hin
    rcases hin with h | h
    · exact inv.inside a F.ma t ht h b F.mb (Ne.symm hab)
    · rw [M.dval_comm]; exact inv.inside b F.mb t ht h a F.ma hab
  have hok : StepH R σ dend.steps.toList s := by
    refine ⟨by rw [hc1]; exact hsa, by rw [hc2]; exact hsb, by rw [hc1, hc2]; exact hab,
      by rw [hc1, hc2, hd]; exact inv.table a F.ma b F.mb hab,
      by rw [hc1, hc2, hsz, inv.sizes a F.ma, inv.sizes b F.mb], ?_⟩
    intro t ht hin
    rw [hc1, hc2] at hin
    rw [hd]
    exact hbelow t ht hin
  have hmem' : ∀ x, x ∈ live.filter (· ≠ a) ↔ x ∈ live ∧ x ≠ a := by
    intro x; simp [List.mem_filter]
  have hrow : ∀ x ∈ live, x ≠ a → x ≠ b →
      R (node (σ.tree a) (σ.tree b)) (σ.tree x) (M'.dval x b) := fun x hx hxa hxb =>
    hrowR a F.ma b F.mb hab x hx hxa hxb _ (F.upd x hx hxa hxb)
  -- the new row is at least as high as the merge
  have hnewge : ∀ x ∈ live, x ≠ a → x ≠ b → Num.lt (M'.dval x b) (M.dval a b) = false := by
    intro x hx hxa hxb
    refine hge st.sizes _ _ (M.dval a b) x (M.dval x a) (M.dval x b) _ (M.dval a b) hpa hpb
      (hokM a F.ma b F.mb hab) (hokM x hx a F.ma hxa) (hokM x hx b F.mb hxb) (hokM a F.ma b F.mb hab)
      hdabnan (hnn x hx a F.ma hxa) (hnn x hx b F.mb hxb) hdabnan (L.irrefl _) ?_ ?_
      (F.upd x hx hxa hxb)
    · rw [M.dval_comm]; exact F.nn a (Or.inl rfl) x hx hxa
    · rw [M.dval_comm]; exact F.nn b (Or.inr rfl) x hx hxb
  exact
    { chain := cinv'
      state := by
        rw [hsteps, IState.replay_append, ← inv.state]
        simp only [IState.replay, hc1, hc2]
      live_eq := by
        show σ.live.filter (fun x => decide (x ≠ a)) = _
        rw [inv.live_eq]
      tab := inv.tab.merge C hsa hsb hab
      table := by
        intro x hx y hy hxy
        obtain ⟨hx1, hx2⟩ := (hmem' x).mp hx
        obtain ⟨hy1, hy2⟩ := (hmem' y).mp hy
        by_cases hxb : x = b
        · have hyb : y ≠ b := fun e => hxy (hxb.trans e.symm)
          rw [hxb, IState.merge_tree_self, IState.merge_tree_of_ne _ _ _ _ hyb, M'.dval_comm]
          exact hrow y hy1 hy2 hyb
        · by_cases hyb : y = b
          · rw [hyb, IState.merge_tree_self, IState.merge_tree_of_ne _ _ _ _ hxb]
            exact C.symm _ _ _ (hrow x hx1 hx2 hxb)
          · rw [IState.merge_tree_of_ne _ _ _ _ hxb, IState.merge_tree_of_ne _ _ _ _ hyb,
              F.frame x y (hlt x hx1) (hlt y hy1) hxy (fun h => hyb h.1) (fun h => hxb h.1)]
            exact inv.table x hx1 y hy1 hxy
      sizes := by
        intro x hx
        obtain ⟨hx1, hx2⟩ := (hmem' x).mp hx
        rw [F.sizes x]
        by_cases hxb : x = b
        · rw [if_pos hxb, hxb, IState.merge_tree_self, leaves_node,
            card_union_of_disjoint (inv.tab.disj a hsa b hsb hab), inv.sizes a F.ma,
            inv.sizes b F.mb]
        · rw [if_neg hxb, IState.merge_tree_of_ne _ _ _ _ hxb]
          exact inv.sizes x hx1
      self := by
        intro x hx
        obtain ⟨hx1, hx2⟩ := (hmem' x).mp hx
        by_cases hxb : x = b
        · rw [hxb, IState.merge_tree_self, leaves_node]
          exact mem_union_right _ (inv.self b F.mb)
        · rw [IState.merge_tree_of_ne _ _ _ _ hxb]
          exact inv.self x hx1
      inside := by
        intro x hx t ht hin y hy hyx
        obtain ⟨hx1, hx2⟩ := (hmem' x).mp hx
        obtain ⟨hy1, hy2⟩ := (hmem' y).mp hy
        rw [hsteps, List.mem_append, List.mem_singleton] at ht
        by_cases hxb : x = b
        · -- the merged cluster: everything inside is at most `d(a,b)`, the new row at least
          subst hxb
          rw [IState.merge_tree_self, leaves_node, mem_union] at hin
          have htd : Num.lt (M.dval a x) t.d = false := by
            rcases ht with ht | ht
            · exact hbelow t ht hin
            · rw [ht, hd]; exact L.irrefl _
          rw [M'.dval_comm]
          exact L.le_trans t.d (M.dval a x) (M'.dval y x) hdabnan htd (hnewge y hy1 hy2 hyx)
        · rw [IState.merge_tree_of_ne _ _ _ _ hxb] at hin
          have hsx : x ∈ σ.live := by rw [inv.live_eq]; exact hx1
          have htold : t ∈ dend.steps.toList := by
            rcases ht with ht | ht
            · exact ht
            · exfalso
              rw [ht, hc1] at hin
              exact (Finset.disjoint_left.mp (inv.tab.disj a hsa x hsx (Ne.symm hx2)))
                (inv.self a F.ma) hin
          by_cases hyb : y = b
          · subst hyb
            have hva := inv.inside x hx1 t htold hin a F.ma (Ne.symm hx2)
            have hvb := inv.inside x hx1 t htold hin y F.mb (Ne.symm hxb)
            have htnan : Num.isNaN t.d = false := inv.chain.heights t htold
            have htok : ok t.d := by
              obtain ⟨j, hj⟩ := List.getElem?_of_mem htold
              exact hRok _ _ _ (inv.run j t hj).height
            cases hth : Num.lt t.d (M.dval a y)
            · exact hge st.sizes _ _ (M.dval a y) x (M.dval x a) (M.dval x y) _ t.d hpa hpb
                (hokM a F.ma y F.mb hab) (hokM x hx1 a F.ma hx2) (hokM x hx1 y F.mb hxb) htok
                hdabnan (hnn x hx1 a F.ma hx2) (hnn x hx1 y F.mb hxb) htnan hth hva hvb
                (F.upd x hx1 hx2 hxb)
            · exact L.le_trans t.d (M.dval a y) (M'.dval x y) hdabnan (L.asymm _ _ hth)
                (hnewge x hx1 hx2 hxb)
          · rw [F.frame x y (hlt x hx1) (hlt y hy1) (Ne.symm hyx) (fun h => hyb h.1)
              (fun h => hxb h.1)]
            exact inv.inside x hx1 t htold hin y hy1 hyx
      run := by
        rw [hsteps]
        refine inv.run.snoc ?_
        rw [← inv.state]
        exact hok }

open Crit MTree Rnn Finset in
/-- The invariant holds before the first iteration. -/
theorem roundInv_init (mc : MethodChain) {R : MTree Nat → MTree Nat → α → Prop}
    (data : Array α) (n : Nat) (h2 : 2 ≤ n) (hs : n < 2147483648)
    (hl : 2 * data.size = n * (n - 1)) (hnan : NoNaNData (squareData mc.intoMethod data))
    (hR : ∀ i j, i < n → j < n → i ≠ j →
      R (leaf i) (leaf j) ((init mc.intoMethod n data).D i j)) :
    RoundInv R n 0 (List.range n) ({ (State.fresh n : State α) with chain := #[] })
      (Dendrogram.new n) ({ data := squareData mc.intoMethod data, n := n, acc := 0 } : Mat α)
      (IState.init n) where
  chain := chainInv_init _ n h2 hs (by rw [squareData_size]; exact hl) hnan
  state := by simp [Dendrogram.new, IState.replay]
  live_eq := rfl
  tab :=
    { nodup := List.nodup_range
      disj := by
        intro x _ y _ hxy
        simp only [IState.init, leaves_leaf, disjoint_singleton]; exact hxy
      ex := fun x hx y hy hxy =>
        ⟨_, hR x y (List.mem_range.mp hx) (List.mem_range.mp hy) hxy⟩ }
  table := by
    intro x hx y hy hxy
    rw [init_dval mc.intoMethod data n h2 hs hl x y (List.mem_range.mp hx) (List.mem_range.mp hy) hxy]
    exact hR x y (List.mem_range.mp hx) (List.mem_range.mp hy) hxy
  sizes := by
    intro x hx
    have : x < n := List.mem_range.mp hx
    simp [State.fresh, Array.getD, this, IState.init]
  self := by intro x _; simp [IState.init]
  inside := by intro x _ t ht; simp [Dendrogram.new] at ht
  run := by simp [Dendrogram.new, RunH.nil]

/-- What the main loop of `nnchainWith` leaves behind. -/
structure RoundLoopResult (R : Crit.MTree Nat → Crit.MTree Nat → α → Prop) (n : Nat)
    (dend : Dendrogram α) (M : Mat α) : Prop where
  res : ChainLoopResult n dend M
  run : Rnn.RunH R n dend.steps.toList

open Crit MTree Rnn in
/-- **The loop of `nnchain_with` for an approximate relation**: total; every raw step merges two live
clusters whose trees are `R`-related to the recorded height, and is at least as high as every earlier
step inside the two merged clusters. -/
theorem roundLoop (L : OrderLaws α) (chk : Bool) (mc : MethodChain) {ok : α → Prop}
    (hge : ChainGeOn ok mc)
    {R : MTree Nat → MTree Nat → α → Prop} (C : LWCompat mc.intoMethod R)
    (hRnan : ∀ s t v, R s t v → Num.isNaN v = false) (hRok : ∀ s t v, R s t v → ok v)
    (data : Array α) (n : Nat) (h2 : 2 ≤ n) (hs : n < 2147483648)
    (hl : 2 * data.size = n * (n - 1)) (hnan : NoNaNData (squareData mc.intoMethod data))
    (hR : ∀ i j, i < n → j < n → i ≠ j →
      R (leaf i) (leaf j) ((init mc.intoMethod n data).D i j)) :
    ∃ s1 : ChainSt α,
      iterM (chainIter chk mc) (n - 1)
        ⟨{ (State.fresh n : State α) with chain := #[] }, Dendrogram.new n,
          { data := squareData mc.intoMethod data, n := n, acc := 0 }⟩ = .ok s1 ∧
      RoundLoopResult R n s1.dend s1.M := by
  have hinv0 := roundInv_init mc data n h2 hs hl hnan hR
  have key := iterM_ok
    (fun j (s : ChainSt α) => ∃ live σ, RoundInv R n j live s.st s.dend s.M σ)
    (chainIter chk mc) (n - 1) 0
    ⟨{ (State.fresh n : State α) with chain := #[] }, Dendrogram.new n,
      { data := squareData mc.intoMethod data, n := n, acc := 0 }⟩
    (by
      intro j s hj ⟨live, σ, hinv⟩
      obtain ⟨st, dend, M⟩ := s
      simp only [Nat.zero_add] at hinv ⊢
      obtain ⟨st', dend', M', a, b, e, hinv'⟩ :=
        roundInv_step L chk mc hge C hRnan hRok n j live st dend M σ (by omega) hinv
      exact ⟨⟨st', dend', M'⟩, e, _, _, hinv'⟩)
    ⟨List.range n, IState.init n, by simpa using hinv0⟩
  obtain ⟨s1, e, live, σ, hinv⟩ := key
  simp only [Nat.zero_add] at hinv
  refine ⟨s1, e, ?_, hinv.run⟩
  have hc := hinv.chain
  have hll := hc.prim.llen
  have hlen1 : live.length = 1 := by omega
  have hw := hc.work
  have hcs := hc.chain_sz
  rw [hlen1] at hw hcs
  exact
    { obs := hc.prim.obs
      steps_sz := hc.prim.steps_sz
      raw := ⟨by simp [rawOf, hc.prim.steps_sz], hc.prim.inRange, hc.prim.eff⟩
      heights := hc.heights
      mn := hc.prim.mn
      acc := by omega }

end Kodama
