/-
GREEDINESS OF THE RAW MERGE ORDER for an approximate dissimilarity relation `R`
(`Lemmas/RoundPrimitive.lean`, `RoundGeneric.lean`), and its transport to the RETURNED dendrogram.

`RoundCore` keeps, for the raw steps recorded so far, only `Rnn.StepH` ("the recorded height is an
`R`-value of the two merged trees") — the fact that the merged pair was a GLOBAL MINIMUM of the live
matrix entries (`MergeFacts.min`) is used to maintain `below` and then forgotten.  This file keeps it:

* `Rnn.GMinAt R σ s`   in index state `σ`, every pair of distinct live clusters has an `R`-value
                       (a computed matrix entry) that is NOT BELOW the height of the raw step `s`;
* `Rnn.GMinRun R n L`  every raw step of `L` satisfies `GMinAt` in the state reached by the steps before
                       it;
* `GreedyCore R n L`   `GMinRun` and "the raw heights are non-decreasing in execution order";
* `greedyCore_step`    a step satisfying `MergeFacts` from a state satisfying `RoundCore` preserves
                       `GreedyCore` (`MergeFacts.min` + `RoundCore.table` for `GMinAt`;
                       `RoundCore.below` at the merged pair for sortedness);
* `roundPrimLoop_greedy`, `primitiveWith_greedy`   the loop of `primitive_with` (as `roundPrimLoop`,
                       `primitiveWith_round`) with `GreedyCore` for the raw steps in addition;
* `Rnn.label_of_unused`  the labels `< n + i` that no returned step before `i` consumes are exactly the
                       merge-order labels `labAt … i x` of the indices `x` live before raw step `i`;
* `greedy_sw_core`     the part of the assembly that does not depend on how the (sorted) run was obtained
                       (also used for the nearest-neighbour chain, `Lemmas/RoundGreedyChain.lean`);
* `relabel_greedy_sw`  ASSEMBLY: the raw steps are sorted, so the stable sort of `relabel` is the
                       identity (`processed_of_pairwise`) and `relabel` hands out the merge-order labels
                       (`relabel_mergeorder`); hence for every returned step `s'` at position `i`
                       – (as `relabel_round_sw`) two disjoint trees `T₁`, `T₂`, `R T₁ T₂ s'.d`, that are
                         (`Sw`) the cluster trees of the two labels of `s'`;
                       – for every two DISTINCT labels `p`, `q < n + i` not consumed by the returned
                         steps before `i` (the clusters present after steps `0..i−1`): two disjoint
                         trees `U`, `V` that are (`Sw`) the cluster trees of `p`, `q`, and a value `v`
                         with `R U V v` and `¬ (v < s'.d)`.
-/
import Kodama.Lemmas.RoundGeneric
namespace Kodama
open Spec
variable {α : Type} [Num α]

namespace Rnn
open Crit MTree Finset

/-- In index state `σ` every pair of distinct live clusters has an `R`-value that is not below the
height of the step `s`. -/
def GMinAt (R : MTree Nat → MTree Nat → α → Prop) (σ : IState) (s : Step α) : Prop :=
  ∀ x ∈ σ.live, ∀ y ∈ σ.live, x ≠ y → ∃ v, R (σ.tree x) (σ.tree y) v ∧ Num.lt v s.d = false

/-- Every step of `L`, replayed from `n` singletons, satisfies `GMinAt`. -/
def GMinRun (R : MTree Nat → MTree Nat → α → Prop) (n : Nat) (L : List (Step α)) : Prop :=
  ∀ (i : Nat) (s : Step α), L[i]? = some s →
    GMinAt R (IState.replay (IState.init n) (L.take i)) s

theorem GMinRun.nil (R : MTree Nat → MTree Nat → α → Prop) (n : Nat) : GMinRun R n [] := by
  intro i s h; simp at h

theorem GMinRun.snoc {R : MTree Nat → MTree Nat → α → Prop} {n : Nat} {L : List (Step α)}
    {s : Step α} (h : GMinRun R n L) (hs : GMinAt R (IState.replay (IState.init n) L) s) :
    GMinRun R n (L ++ [s]) := by
  intro i t hi
  by_cases c : i < L.length
  · rw [List.getElem?_append_left c] at hi
    rw [List.take_append_of_le_length (Nat.le_of_lt c)]
    exact h i t hi
  · have hlen : i < (L ++ [s]).length := (List.getElem?_eq_some_iff.mp hi).1
    simp only [List.length_append, List.length_singleton] at hlen
    have e : i = L.length := by omega
    subst e
    have : (L ++ [s])[L.length]? = some s := by simp
    rw [this] at hi
    have est : s = t := Option.some.inj hi
    subst est
    have e2 : (L ++ [s]).take L.length = L := by simp
    rw [e2]
    exact hs

end Rnn

/-- What is kept about the raw steps IN ADDITION to `RoundCore`: every raw step merged a pair whose
entry was a global minimum of the live (computed) entries, and the raw heights are non-decreasing in
execution order. -/
structure GreedyCore (R : Crit.MTree Nat → Crit.MTree Nat → α → Prop) (n : Nat)
    (steps : List (Step α)) : Prop where
  gmin : Rnn.GMinRun R n steps
  sorted : steps.Pairwise (fun s t => Num.lt t.d s.d = false)

theorem GreedyCore.nil (R : Crit.MTree Nat → Crit.MTree Nat → α → Prop) (n : Nat) :
    GreedyCore R n ([] : List (Step α)) :=
  ⟨Rnn.GMinRun.nil R n, List.Pairwise.nil⟩

open Crit MTree Rnn in
/-- **A merge step preserves `GreedyCore`** (given `RoundCore` BEFORE the step). -/
theorem greedyCore_step {m : Method} {R : MTree Nat → MTree Nat → α → Prop}
    {n : Nat} {live : List Nat} {sizes sizes' : Array Nat} {steps steps' : List (Step α)}
    {M M' : Mat α} {σ : IState} {a b : Nat}
    (inv : RoundCore R n live sizes steps M σ)
    (F : MergeFacts m n live sizes sizes' steps steps' M M' a b)
    (g : GreedyCore R n steps) : GreedyCore R n steps' := by
  have hab : a ≠ b := Nat.ne_of_lt F.lt
  have hd : (Step.new a b (M.dval a b) (sizes.getD a 0 + sizes.getD b 0)).d = M.dval a b := by
    rw [Step.new_d]
  rw [F.hsteps]
  refine ⟨g.gmin.snoc ?_, ?_⟩
  · rw [← inv.state]
    intro x hx y hy hxy
    rw [inv.live_eq] at hx hy
    exact ⟨M.dval x y, inv.table x hx y hy hxy, by rw [hd]; exact F.min x hx y hy hxy⟩
  · rw [List.pairwise_append]
    refine ⟨g.sorted, List.pairwise_singleton _ _, ?_⟩
    intro t ht s' hs'
    rw [List.mem_singleton] at hs'
    rw [hs', hd]
    exact inv.below t ht a F.ma b F.mb hab

/-! ### `primitive_with` -/

open Crit MTree Rnn in
/-- `roundPrimLoop` with `GreedyCore` for the raw steps in addition. -/
theorem roundPrimLoop_greedy (L : OrderLaws α) (chk : Bool) (m : Method) {ok : α → Prop}
    (hge : LwGeOn ok m)
    {R : MTree Nat → MTree Nat → α → Prop} (C : LWCompat m R)
    (hRnan : ∀ s t v, R s t v → Num.isNaN v = false) (hRok : ∀ s t v, R s t v → ok v)
    (data : Array α) (n : Nat) (h2 : 2 ≤ n) (hs : n < 2147483648)
    (hl : 2 * data.size = n * (n - 1))
    (hR : ∀ i j, i < n → j < n → i ≠ j → R (leaf i) (leaf j) ((init m n data).D i j)) :
    ∃ st1 dend1 M1,
      iterM (primitiveIter chk m) (n - 1)
        ((State.fresh n : State α), Dendrogram.new n,
          { data := squareData m data, n := n, acc := 0 }) = .ok (st1, dend1, M1) ∧
      RoundPrimResult R n dend1 M1 ∧ GreedyCore R n dend1.steps.toList := by
  have hl' : 2 * (squareData m data).size = n * (n - 1) := by rw [squareData_size]; exact hl
  have hinv0 : RoundInvP R n 0 (List.range n) (State.fresh n : State α) (Dendrogram.new n)
      ({ data := squareData m data, n := n, acc := 0 } : Mat α) (IState.init n) :=
    ⟨primInv_init_fresh (squareData m data) n h2 hs hl', roundCore_init m data n h2 hs hl hR⟩
  have key := iterM_ok
    (fun j (s : State α × Dendrogram α × Mat α) =>
      ∃ live σ, RoundInvP R n j live s.1 s.2.1 s.2.2 σ ∧ GreedyCore R n s.2.1.steps.toList)
    (primitiveIter chk m) (n - 1) 0
    ((State.fresh n : State α), Dendrogram.new n, { data := squareData m data, n := n, acc := 0 })
    (by
      intro j s hj ⟨live, σ, hinv, hg⟩
      obtain ⟨st, dend, M⟩ := s
      simp only [Nat.zero_add] at hinv hg ⊢
      have hnn : NoNaNLive M live :=
        fun x hx y hy hxy => hRnan _ _ _ (hinv.core.table x hx y hy hxy)
      obtain ⟨st', dend', M', a, b, e, pinv', F⟩ :=
        primIter_facts L chk m n j live st dend M (by omega) hinv.prim hnn
      exact ⟨(st', dend', M'), e, _, _,
        ⟨pinv', roundCore_step L m hge C hRnan hRok hinv.prim.rep.lt_n hinv.core F⟩,
        greedyCore_step hinv.core F hg⟩)
    ⟨List.range n, IState.init n, by simpa using hinv0, by
      simpa [Dendrogram.new] using GreedyCore.nil R n⟩
  obtain ⟨⟨st1, dend1, M1⟩, e, live, σ, hinv, hg⟩ := key
  simp only [Nat.zero_add] at hinv hg
  refine ⟨st1, dend1, M1, e, ?_, hg⟩
  have hp := hinv.prim
  exact
    { obs := hp.obs
      steps_sz := hp.steps_sz
      raw := ⟨by simp [rawOf, hp.steps_sz], hp.inRange, hp.eff⟩
      heights := by
        intro s hs'
        obtain ⟨j, hj⟩ := List.getElem?_of_mem hs'
        exact hRnan _ _ _ (hinv.core.run j s hj).height
      mn := hp.mn
      run := hinv.core.run }

open Crit MTree Rnn in
/-- `primitiveWith_round` with `GreedyCore` for the raw steps in addition. -/
theorem primitiveWith_greedy (L : OrderLaws α) (chk : Bool) (m : Method) {ok : α → Prop}
    (hge : LwGeOn ok m)
    {R : MTree Nat → MTree Nat → α → Prop} (C : LWCompat m R)
    (hRnan : ∀ s t v, R s t v → Num.isNaN v = false) (hRok : ∀ s t v, R s t v → ok v)
    (st : State α) (d : Dendrogram α) (data : Array α) (n : Nat) (h2 : 2 ≤ n)
    (hs : n < 2147483648) (hl : 2 * data.size = n * (n - 1))
    (hR : ∀ i j, i < n → j < n → i ≠ j → R (leaf i) (leaf j) ((init m n data).D i j)) :
    ∃ (st1 : State α) (dend1 : Dendrogram α) (M1 : Mat α) (uf : UF) (d' : Dendrogram α),
      RoundPrimResult R n dend1 M1 ∧ GreedyCore R n dend1.steps.toList ∧
      relabel m st1.set dend1 = .ok (uf, d') ∧
      primitiveWith chk m st d data n = .ok ({ st1 with set := uf }, sqrtSteps m d', M1) := by
  have hl' : 2 * (squareData m data).size = n * (n - 1) := by rw [squareData_size]; exact hl
  obtain ⟨st1, dend1, M1, hloop, hres, hg⟩ :=
    roundPrimLoop_greedy L chk m hge C hRnan hRok data n h2 hs hl hR
  obtain ⟨⟨uf, d'⟩, hr⟩ := relabel_total m st1.set dend1 n h2 hres.obs hres.raw
    (Or.inr (Or.inr hres.heights))
  refine ⟨st1, dend1, M1, uf, d', hres, hg, hr, ?_⟩
  unfold primitiveWith
  simp only []
  rw [Mat.new_ok chk (squareData m data) n h2 hs hl']
  have hn0 : ¬ n = 0 := by omega
  simp only [bind, Except.bind, hn0, if_false, State.reset_eq_fresh, dendrogramReset_eq, hloop, hr,
    pure, Except.pure]

/-! ### Labels not yet consumed = labels of the live indices -/

namespace Rnn

omit [Num α] in
/-- Along a merge trace `S` whose relabelled form `D` carries the merge-order labels, every label
`p < n + i` that is not consumed by a step of `D` before `i` is the label of an index that is live
before raw step `i`. -/
theorem label_of_unused (n : Nat) (S D : List (Step α))
    (htr : MergeTrace n (edgesOf S))
    (hlab : ∀ (i : Nat) (s0 : Step α), S[i]? = some s0 → ∃ s', D[i]? = some s' ∧
      s'.c1 = min (labAt n (edgesOf S) i s0.c1) (labAt n (edgesOf S) i s0.c2) ∧
      s'.c2 = max (labAt n (edgesOf S) i s0.c1) (labAt n (edgesOf S) i s0.c2)) :
    ∀ i, i ≤ S.length → ∀ p, p < n + i → ¬ UsedBefore D i p →
      ∃ x ∈ liveAt n (edgesOf S) i, labAt n (edgesOf S) i x = p := by
  intro i
  induction i with
  | zero =>
    intro _ p hp _
    exact ⟨p, List.mem_range.mpr (by omega), rfl⟩
  | succ i ih =>
    intro hi p hp hun
    have hi' : i < S.length := by omega
    have hs0 : S[i]? = some S[i] := List.getElem?_eq_getElem hi'
    generalize S[i] = s0 at hs0
    have he : (edgesOf S)[i]? = some (s0.c1, s0.c2) := by simp [edgesOf, hs0]
    obtain ⟨m1, m2, mne⟩ := htr i _ he
    simp only at m1 m2 mne
    obtain ⟨s', hs', c1, c2⟩ := hlab i s0 hs0
    rw [liveAt_succ he]
    by_cases hpe : p = n + i
    · refine ⟨s0.c2, List.mem_filter.mpr ⟨m2, by simpa using Ne.symm mne⟩, ?_⟩
      rw [labAt_succ he]; simp [hpe]
    · have hun' : ¬ UsedBefore D i p := by
        rintro ⟨j, t, hj, ht, hc⟩
        exact hun ⟨j, t, by omega, ht, hc⟩
      obtain ⟨x, hx, hxp⟩ := ih (by omega) p (by omega) hun'
      have hnot : s'.c1 ≠ p ∧ s'.c2 ≠ p := by
        constructor
        · intro e; exact hun ⟨i, s', by omega, hs', Or.inl e⟩
        · intro e; exact hun ⟨i, s', by omega, hs', Or.inr e⟩
      have hx1 : x ≠ s0.c1 := by
        intro e
        rw [e] at hxp
        rcases minmax_cases (labAt n (edgesOf S) i s0.c1) (labAt n (edgesOf S) i s0.c2) with
          ⟨e1, e2⟩ | ⟨e1, e2⟩
        · exact hnot.1 (by rw [c1, e1, hxp])
        · exact hnot.2 (by rw [c2, e2, hxp])
      have hx2 : x ≠ s0.c2 := by
        intro e
        rw [e] at hxp
        rcases minmax_cases (labAt n (edgesOf S) i s0.c1) (labAt n (edgesOf S) i s0.c2) with
          ⟨e1, e2⟩ | ⟨e1, e2⟩
        · exact hnot.2 (by rw [c2, e2, hxp])
        · exact hnot.1 (by rw [c1, e1, hxp])
      refine ⟨x, List.mem_filter.mpr ⟨hx, by simpa using hx1⟩, ?_⟩
      rw [labAt_succ he]
      simp only [hx2, if_false]
      exact hxp

end Rnn

/-! ### Assembly -/

open Crit MTree Rnn Finset in
/-- **Core of the assembly.**  `S` is a run from `n` singletons (`RunFrom`) of length `n − 1` in which
every step is a global minimum of the `R`-values of the pairs live when it is made (`GMinRun`), and `D`
is a well-formed dendrogram whose step `i` carries the merge-order labels and the height of `S[i]`.  Then
for every step `s'` of `D` at position `i`: its height is an `R`-value of (`Sw`) the cluster trees of its
two labels, and every two distinct labels `p`, `q < n + i` not consumed before `i` have (`Sw`) cluster
trees `U`, `V` with an `R`-value `v` not below `s'.d`. -/
theorem greedy_sw_core {R : MTree Nat → MTree Nat → α → Prop} (n : Nat)
    (S D : List (Step α)) (hwf : WellFormed n D)
    (hSrun : RunFrom R (IState.init n) [] S) (hg : GMinRun R n S) (hlen : S.length = n - 1)
    (hlab : ∀ (i : Nat) (s0 : Step α), S[i]? = some s0 → ∃ s', D[i]? = some s' ∧
      s'.c1 = min (labAt n (edgesOf S) i s0.c1) (labAt n (edgesOf S) i s0.c2) ∧
      s'.c2 = max (labAt n (edgesOf S) i s0.c1) (labAt n (edgesOf S) i s0.c2) ∧ s'.d = s0.d) :
    ∀ (i : Nat) (s' : Step α), D[i]? = some s' →
      (∃ T₁ T₂ : MTree Nat, R T₁ T₂ s'.d ∧ Disjoint T₁.leaves T₂.leaves ∧
        ((Sw (clusterTree n D s'.c1) T₁ ∧ Sw (clusterTree n D s'.c2) T₂) ∨
         (Sw (clusterTree n D s'.c1) T₂ ∧ Sw (clusterTree n D s'.c2) T₁)) ∧
        s'.size = T₁.leaves.card + T₂.leaves.card) ∧
      ∀ p q : Nat, p < n + i → q < n + i → p ≠ q →
        ¬ UsedBefore D i p → ¬ UsedBefore D i q →
        ∃ (U V : MTree Nat) (v : α), R U V v ∧ Disjoint U.leaves V.leaves ∧
          Sw (clusterTree n D p) U ∧ Sw (clusterTree n D q) V ∧
          Num.lt v s'.d = false := by
  have htr : MergeTrace n (edgesOf S) := mergeTrace_of_runFrom n S hSrun
  have hord : LabelsOrdered n D := by
    intro i st hi
    have := hwf.ordered i st hi
    omega
  have hlive : ∀ (i : Nat) (s : Step α), S[i]? = some s →
      s.c1 ∈ (IState.replay (IState.init n) (S.take i)).live ∧
      s.c2 ∈ (IState.replay (IState.init n) (S.take i)).live := fun i s hi =>
    ⟨(runFrom_get S _ [] i s hSrun hi).m1, (runFrom_get S _ [] i s hSrun hi).m2⟩
  have hlab' : ∀ (i : Nat) (s0 : Step α), S[i]? = some s0 → ∃ s', D[i]? = some s' ∧
      s'.c1 = min (labAt n (edgesOf S) i s0.c1) (labAt n (edgesOf S) i s0.c2) ∧
      s'.c2 = max (labAt n (edgesOf S) i s0.c1) (labAt n (edgesOf S) i s0.c2) := fun i s0 hi => by
    obtain ⟨s', a, b, c, _⟩ := hlab i s0 hi
    exact ⟨s', a, b, c⟩
  have hct := clusterTree_replay n S D hlive hord hlab'
  have hunused := label_of_unused n S D htr hlab'
  intro i s' hi
  have hiD : i < D.length := (List.getElem?_eq_some_iff.mp hi).1
  have hDlen : D.length = n - 1 := hwf.len
  have hiS : i < S.length := by omega
  have hs0 : S[i]? = some S[i] := List.getElem?_eq_getElem hiS
  generalize S[i] = s0 at hs0
  obtain ⟨s'', e'', c1, c2, hd⟩ := hlab i s0 hs0
  rw [hi] at e''
  have es : s' = s'' := Option.some.inj e''
  subst es
  have hst := runFrom_get S _ [] i s0 hSrun hs0
  have hclu := clu_replay S _ [] (Clu.init n) hSrun i
  have hgm := hg i s0 hs0
  have hτlive := replay_live n S i (by omega)
  have hcti := hct i (by omega)
  generalize IState.replay (IState.init n) (S.take i) = τ at hst hclu hgm hτlive hcti
  have hA := hcti s0.c1 hst.m1
  have hB := hcti s0.c2 hst.m2
  have hdisj := hclu.disj _ hst.m1 _ hst.m2 hst.ne
  refine ⟨⟨τ.tree s0.c1, τ.tree s0.c2, by rw [hd]; exact hst.height, hdisj, ?_, ?_⟩, ?_⟩
  · rcases minmax_cases (labAt n (edgesOf S) i s0.c1) (labAt n (edgesOf S) i s0.c2) with
      ⟨e1, e2⟩ | ⟨e1, e2⟩
    · left; rw [c1, c2, e1, e2]; exact ⟨hA, hB⟩
    · right; rw [c1, c2, e1, e2]; exact ⟨hB, hA⟩
  · have hA' := hA.leaves_eq
    have hB' := hB.leaves_eq
    have hlt := fun x (hx : x ∈ τ.live) => by
      rw [hτlive] at hx
      exact liveAt_lt n (edgesOf S) i x hx
    have la_lt := labAt_lt n (edgesOf S) i s0.c1 (hlt _ hst.m1)
    have lb_lt := labAt_lt n (edgesOf S) i s0.c2 (hlt _ hst.m2)
    rw [clusterTree_leaves n _ hord D.length _ (Or.inr ⟨by omega, by omega⟩)]
      at hA' hB'
    have hsz := hwf.size i s' hi
    have ho := hwf.ordered i s' hi
    have l1 : s'.c1 < n + D.length := by omega
    have l2 : s'.c2 < n + D.length := by omega
    rw [Spec.sz_eq_length_leaves n _ hwf D.length s'.c1 l1 (by omega),
      Spec.sz_eq_length_leaves n _ hwf D.length s'.c2 l2 (by omega),
      ← List.toFinset_card_of_nodup (Spec.leaves_nodup n _ hwf _ l1),
      ← List.toFinset_card_of_nodup (Spec.leaves_nodup n _ hwf _ l2)] at hsz
    rw [hsz]
    rcases minmax_cases (labAt n (edgesOf S) i s0.c1) (labAt n (edgesOf S) i s0.c2) with
      ⟨e1, e2⟩ | ⟨e1, e2⟩
    · rw [c1, c2, e1, e2, hA', hB']
    · rw [c1, c2, e1, e2, hA', hB', Nat.add_comm]
  · intro p q hp hq hpq hup huq
    obtain ⟨x, hx, hxp⟩ := hunused i (by omega) p hp hup
    obtain ⟨y, hy, hyq⟩ := hunused i (by omega) q hq huq
    rw [← hτlive] at hx hy
    have hxy : x ≠ y := by
      intro e; rw [e, hyq] at hxp; exact hpq hxp.symm
    obtain ⟨v, hv, hlt⟩ := hgm x hx y hy hxy
    refine ⟨τ.tree x, τ.tree y, v, hv, hclu.disj x hx y hy hxy, ?_, ?_, by rw [hd]; exact hlt⟩
    · rw [← hxp]; exact hcti x hx
    · rw [← hyq]; exact hcti y hy

open Crit MTree Rnn Finset in
/-- **The returned steps are greedy up to `R`** (`primitive_with`, `generic_with`).  Let `d` hold the raw
steps of a run (`RunH R n`) that form a spanning tree, with heights NON-DECREASING in execution order,
each a global minimum of the `R`-values of the live pairs when it was made (`GreedyCore`), and let
`relabel` return `d'`.  The stable sort is then the identity (`processed_of_pairwise`), `relabel` hands
out the merge-order labels (`relabel_mergeorder`), and `greedy_sw_core` applies: for every returned step
`s'` at position `i`
* (as `relabel_round_sw`) there are two disjoint merge trees `T₁`, `T₂` with `R T₁ T₂ s'.d` that are —
  up to the order of children — the cluster trees of the two labels of `s'`;
* for every two distinct labels `p`, `q < n + i` not consumed by the returned steps before `i` there are
  two disjoint merge trees `U`, `V` that are — up to the order of children — the cluster trees of `p`,
  `q`, and a value `v` with `R U V v` that is not below `s'.d`. -/
theorem relabel_greedy_sw (m : Method)
    {R : MTree Nat → MTree Nat → α → Prop} (uf0 uf : UF) (d d' : Dendrogram α) (n : Nat)
    (h2 : 2 ≤ n) (hobs : d.obs = n) (hraw : RawTree n (rawOf d))
    (hrun : RunH R n d.steps.toList) (hg : GreedyCore R n d.steps.toList)
    (h : relabel m uf0 d = .ok (uf, d')) :
    WellFormed n d'.steps.toList ∧
    ∀ (i : Nat) (s' : Step α), d'.steps.toList[i]? = some s' →
      (∃ T₁ T₂ : MTree Nat, R T₁ T₂ s'.d ∧ Disjoint T₁.leaves T₂.leaves ∧
        ((Sw (clusterTree n d'.steps.toList s'.c1) T₁ ∧ Sw (clusterTree n d'.steps.toList s'.c2) T₂) ∨
         (Sw (clusterTree n d'.steps.toList s'.c1) T₂ ∧ Sw (clusterTree n d'.steps.toList s'.c2) T₁)) ∧
        s'.size = T₁.leaves.card + T₂.leaves.card) ∧
      ∀ p q : Nat, p < n + i → q < n + i → p ≠ q →
        ¬ UsedBefore d'.steps.toList i p → ¬ UsedBefore d'.steps.toList i q →
        ∃ (U V : MTree Nat) (v : α), R U V v ∧ Disjoint U.leaves V.leaves ∧
          Sw (clusterTree n d'.steps.toList p) U ∧ Sw (clusterTree n d'.steps.toList q) V ∧
          Num.lt v s'.d = false := by
  have hraw0 : RawTree n (edgesOf d.steps.toList) := hraw
  have hwf : WellFormed n d'.steps.toList := (relabel_wellFormed m uf0 uf d d' n h2 hobs hraw h).2
  refine ⟨hwf, ?_⟩
  have hproc : processed m d.steps = d.steps := processed_of_pairwise m d.steps hg.sorted
  have hSrun : RunFrom R (IState.init n) [] d.steps.toList := runFrom_of_runH hrun
  have hlen : d.steps.toList.length = n - 1 := by
    have := hraw0.len
    simpa [edgesOf] using this
  have hlab := relabel_mergeorder m uf0 uf d d' n (by omega) hobs hraw0
    (mergeTrace_of_runFrom n _ hSrun) hproc h
  exact greedy_sw_core n d.steps.toList d'.steps.toList hwf hSrun hg.gmin hlen hlab

end Kodama
