/-
Two step lists that agree on the LABELS of their first `i` steps (heights and sizes may differ) have
the same consumed labels, the same present labels and the same observation sets beneath every label
below `n + i`.  Used to compare the outputs of two different entry points under rounding, where the
heights are only equal up to rounding (`Props/C06Rounding.lean`).
-/
import Kodama.Spec.WellFormed
namespace Kodama.Spec
variable {α β : Type}

/-- The first `i` steps of the two lists merge the same labels. -/
def LabAgree (i : Nat) (L : List (Step α)) (L' : List (Step β)) : Prop :=
  ∀ j, j < i → (L[j]?).map (fun s => (s.c1, s.c2)) = (L'[j]?).map (fun s => (s.c1, s.c2))

theorem LabAgree.mono {i k : Nat} {L : List (Step α)} {L' : List (Step β)} (h : LabAgree i L L')
    (hk : k ≤ i) : LabAgree k L L' := fun j hj => h j (by omega)

theorem LabAgree.symm {i : Nat} {L : List (Step α)} {L' : List (Step β)} (h : LabAgree i L L') :
    LabAgree i L' L := fun j hj => (h j hj).symm

/-- From one side's step to the other side's step with the same labels. -/
theorem LabAgree.get {i j : Nat} {L : List (Step α)} {L' : List (Step β)} (h : LabAgree i L L')
    (hj : j < i) {s : Step α} (hs : L[j]? = some s) :
    ∃ s' : Step β, L'[j]? = some s' ∧ s'.c1 = s.c1 ∧ s'.c2 = s.c2 := by
  have := h j hj
  rw [hs] at this
  cases hs' : L'[j]? with
  | none => rw [hs'] at this; cases this
  | some s' =>
    rw [hs'] at this
    simp only [Option.map_some, Option.some.injEq, Prod.mk.injEq] at this
    exact ⟨s', rfl, this.1.symm, this.2.symm⟩

theorem LabAgree.get_none {i j : Nat} {L : List (Step α)} {L' : List (Step β)} (h : LabAgree i L L')
    (hj : j < i) (hs : L[j]? = none) : L'[j]? = none := by
  have := h j hj
  rw [hs] at this
  cases hs' : L'[j]? with
  | none => rfl
  | some s' => rw [hs'] at this; cases this

theorem usedBefore_lab {i : Nat} {L : List (Step α)} {L' : List (Step β)} (h : LabAgree i L L')
    {k : Nat} (hk : k ≤ i) (l : Nat) : UsedBefore L k l ↔ UsedBefore L' k l := by
  unfold UsedBefore
  constructor
  · rintro ⟨j, s, hj, hs, hl⟩
    obtain ⟨s', hs', e1, e2⟩ := h.get (by omega) hs
    exact ⟨j, s', hj, hs', by rw [e1, e2]; exact hl⟩
  · rintro ⟨j, s, hj, hs, hl⟩
    obtain ⟨s', hs', e1, e2⟩ := h.symm.get (by omega) hs
    exact ⟨j, s', hj, hs', by rw [e1, e2]; exact hl⟩

/-- `leaves` of a label below `n + i` only looks at the LABELS of the steps before `i`. -/
theorem leaves_lab {n i : Nat} {L : List (Step α)} {L' : List (Step β)} (h : LabAgree i L L')
    (hord : ∀ (j : Nat) (s : Step α), j < i → L[j]? = some s → s.c1 < s.c2 ∧ s.c2 < n + j) :
    ∀ (f f' l : Nat), l < n + i → l + 1 - n ≤ f → l + 1 - n ≤ f' →
      leaves n L f l = leaves n L' f' l := by
  intro f
  induction f with
  | zero =>
    intro f' l hl hf hf'
    have : l < n := by omega
    cases f' <;> simp [leaves, this]
  | succ f ih =>
    intro f' l hl hf hf'
    by_cases hln : l < n
    · cases f' <;> simp [leaves, hln]
    · obtain ⟨f'', rfl⟩ : ∃ f'', f' = f'' + 1 := ⟨f' - 1, by omega⟩
      simp only [leaves, hln, if_false]
      cases hs : L[l - n]? with
      | none => rw [h.get_none (by omega) hs]
      | some s =>
        obtain ⟨s', hs', e1, e2⟩ := h.get (by omega) hs
        have := hord (l - n) s (by omega) hs
        rw [hs']
        simp only [e1, e2]
        rw [ih f'' s.c1 (by omega) (by omega) (by omega), ih f'' s.c2 (by omega) (by omega) (by omega)]

end Kodama.Spec
