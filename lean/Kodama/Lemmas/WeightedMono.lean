/-
WEIGHTED linkage (`Gen.weighted a b = ½·(a + b)`, `Kodama/Generated/Method.lean`) is reducible ON A
DOMAIN of values — from four textbook facts about `+` and `½·` (`HalfAddLaws`).

Why a law bundle.  Reducibility of the midpoint, `a ≥ t ∧ b ≥ t ⇒ ½·(a + b) ≥ t`, cannot follow from
`OrderLaws` alone: it is a statement about `add` and `mul half`.  Several older file headers say it is
"false for IEEE floats under rounding".  That is NOT so: rounding never breaks it.  With `fl` =
round-to-nearest (monotone),

    a ≥ t, b ≥ t  ⇒  fl(a + b) ≥ fl(t + b) ≥ fl(t + t) = 2t   (doubling is exact, also for subnormals)
                  ⇒  fl(½·fl(a + b)) ≥ fl(½·2t) = t            (halving a double is exact).

The ONLY float failures are at the edge of the range: overflow of `t + t` to `−∞` for `t < −max_value/2`
(`a = b = t = −max_value`: `a + b = −∞`, `½·(−∞) = −∞ < t`), and `∞ + (−∞) = NaN` for the no-NaN
clause.  (Underflow is harmless here: `t + t` and `½·(t + t)` are exact for every finite `t`.)  Hence
the laws carry a domain guard `ok` ("finite, of moderate magnitude, non-negative" for dissimilarities),
and the reducibility that follows is `ChainReducibleOn α ok .weighted` (`Lemmas/ChainOn.lean`), not the
unrestricted `ChainReducible α .weighted`.

The bundle `HalfAddLaws α ok` — every field quantifies over `ok` values only:
  * `add_mono_left`, `add_mono_right`   `+` is monotone in each argument;
  * `half_mono`      `½·` is monotone (stated on sums of `ok` values, the only place it is used);
  * `half_double`    `½·(t + t)` is not below `t` (for floats it IS `t`);
  * `mid_notNaN`     the midpoint of two `ok` values is not NaN;
  * `mid_ok`         … and is `ok` again (closure of the domain).
Derived here, with `OrderLaws`: `HalfAddLaws.mid_ge` (the midpoint of two values not below `t` is not
below `t`), `chainReducibleOn_weighted`, and — from the laws on the TRIVIAL domain —
`chainReducible_weighted_of_unguarded : ChainReducible α .weighted`.

TRUST.  For exact arithmetic the bundle is a theorem (`halfAddLaws_of_fieldLaws`,
`Lemmas/WeightedExact.lean`, `ok := fun _ => True`).  For IEEE `f32`/`f64` it is NOT proved in Lean
(`Float` is opaque): it is an assumption, SAMPLED by `kodama-laws` (`check_HalfAddLaws_*`,
`Kodama/LawsSample.lean`) on `ok := moderate` (not NaN, `0 ≤ v ≤ 2^(bias/2)`): no counterexample.  The
sampler also runs the laws with NO guard: the monotonicity laws still hold on the whole grid (a NaN on
either side makes `<` false), `half_double` and `mid_ge` fail exactly at `t = −max_value`, `mid_notNaN`
fails at `∞ + (−∞)`.  So `chainReducible_weighted_of_unguarded` does NOT apply to floats (its
hypothesis is false there, by overflow only); floats are covered through the guarded laws and
`chainReducibleOn_weighted`.
-/
import Kodama.Lemmas.ChainOn
namespace Kodama
open Spec
variable {α : Type} [Num α]

/-- What the weighted update needs of `+` and `½·`, on a domain `ok` of values.  (`¬ u < v`, i.e.
"`u ≥ v`", is written `Num.lt u v = false`.) -/
structure HalfAddLaws (α : Type) [Num α] (ok : α → Prop) : Prop where
  /-- `a ≥ t ⇒ a + b ≥ t + b` -/
  add_mono_left : ∀ a b t : α, ok a → ok b → ok t → Num.lt a t = false →
    Num.lt (Num.add a b) (Num.add t b) = false
  /-- `b ≥ t ⇒ a + b ≥ a + t` -/
  add_mono_right : ∀ a b t : α, ok a → ok b → ok t → Num.lt b t = false →
    Num.lt (Num.add a b) (Num.add a t) = false
  /-- `a + b ≥ c + d ⇒ ½·(a + b) ≥ ½·(c + d)` -/
  half_mono : ∀ a b c d : α, ok a → ok b → ok c → ok d →
    Num.lt (Num.add a b) (Num.add c d) = false →
    Num.lt (Num.mul Num.half (Num.add a b)) (Num.mul Num.half (Num.add c d)) = false
  /-- `½·(t + t) ≥ t` (exact doubling and halving; false of floats only when `t + t` overflows to `−∞`) -/
  half_double : ∀ t : α, ok t → Num.lt (Num.mul Num.half (Num.add t t)) t = false
  /-- no NaN is created (for floats: no `∞ + (−∞)`) -/
  mid_notNaN : ∀ a b : α, ok a → ok b → Num.isNaN (Num.mul Num.half (Num.add a b)) = false
  /-- the domain is closed under the midpoint -/
  mid_ok : ∀ a b : α, ok a → ok b → ok (Num.mul Num.half (Num.add a b))

/-- **The computed midpoint of two values that are not below `t` is not below `t`** — on the domain
of the laws.  `½(a+b) ≥ ½(t+b) ≥ ½(t+t) ≥ t`; the two middle terms are not NaN, so `≥` chains. -/
theorem HalfAddLaws.mid_ge {ok : α → Prop} (H : HalfAddLaws α ok) (L : OrderLaws α) (a b t : α)
    (ha : ok a) (hb : ok b) (ht : ok t) (h1 : Num.lt a t = false) (h2 : Num.lt b t = false) :
    Num.lt (Num.mul Num.half (Num.add a b)) t = false := by
  have s1 : Num.lt (Num.mul Num.half (Num.add a b)) (Num.mul Num.half (Num.add t b)) = false :=
    H.half_mono a b t b ha hb ht hb (H.add_mono_left a b t ha hb ht h1)
  have s2 : Num.lt (Num.mul Num.half (Num.add t b)) (Num.mul Num.half (Num.add t t)) = false :=
    H.half_mono t b t t ht hb ht ht (H.add_mono_right t b t ht hb ht h2)
  have s3 := H.half_double t ht
  have s23 : Num.lt (Num.mul Num.half (Num.add t b)) t = false :=
    L.le_trans t _ _ (H.mid_notNaN t t ht ht) s3 s2
  exact L.le_trans t _ _ (H.mid_notNaN t b ht hb) s23 s1

theorem chainUpdFn_weighted (sizes : Array Nat) (sa sb : Nat) (dab : α) (x : Nat) (va vb v : α)
    (h : chainUpdFn .weighted sizes sa sb dab x va vb = .ok v) :
    v = Num.mul Num.half (Num.add va vb) := by
  simp only [chainUpdFn, updFn, Gen.weighted, pure, Except.pure, Except.ok.injEq] at h
  exact h.symm

/-- **Weighted linkage is reducible on the domain of the laws.** -/
theorem chainReducibleOn_weighted {ok : α → Prop} (L : OrderLaws α) (H : HalfAddLaws α ok) :
    ChainReducibleOn α ok .weighted where
  ge := by
    intro sizes sa sb dab x va vb v t _ _ _ oa ob ot _ _ _ _ _ h1 h2 h
    rw [chainUpdFn_weighted sizes sa sb dab x va vb v h]
    exact H.mid_ge L va vb t oa ob ot h1 h2
  nan := by
    intro sizes sa sb dab x va vb v _ _ _ oa ob _ _ _ _ _ h
    rw [chainUpdFn_weighted sizes sa sb dab x va vb v h]
    exact H.mid_notNaN va vb oa ob
  closed := by
    intro sizes sa sb dab x va vb v _ _ _ oa ob _ _ _ _ _ h
    rw [chainUpdFn_weighted sizes sa sb dab x va vb v h]
    exact H.mid_ok va vb oa ob

/-- From the UNGUARDED laws (`ok := fun _ => True`): the unrestricted `ChainReducible α .weighted`, so
that every theorem with that hypothesis (`C01_nnchain`, `C03_nnchain_…`, `C12_…`, `C14_…`) applies.
True of exact arithmetic; NOT of IEEE floats, where the unguarded `half_double` fails at
`t = −max_value` (overflow of `t + t`) and the unguarded `mid_notNaN` at `∞ + (−∞)` — for floats use
`chainReducibleOn_weighted` with a guarded domain. -/
theorem chainReducible_weighted_of_unguarded (L : OrderLaws α)
    (H : HalfAddLaws α (fun _ => True)) : ChainReducible α .weighted :=
  chainReducible_of_on_univ (chainReducibleOn_weighted L H)

/-- The laws restrict to any smaller domain that is closed under the midpoint. -/
theorem HalfAddLaws.restrict {ok ok' : α → Prop} (H : HalfAddLaws α ok) (hsub : ∀ v, ok' v → ok v)
    (hcl : ∀ a b, ok' a → ok' b → ok' (Num.mul Num.half (Num.add a b))) : HalfAddLaws α ok' where
  add_mono_left := fun a b t ha hb ht => H.add_mono_left a b t (hsub a ha) (hsub b hb) (hsub t ht)
  add_mono_right := fun a b t ha hb ht => H.add_mono_right a b t (hsub a ha) (hsub b hb) (hsub t ht)
  half_mono := fun a b c d ha hb hc hd =>
    H.half_mono a b c d (hsub a ha) (hsub b hb) (hsub c hc) (hsub d hd)
  half_double := fun t ht => H.half_double t (hsub t ht)
  mid_notNaN := fun a b ha hb => H.mid_notNaN a b (hsub a ha) (hsub b hb)
  mid_ok := hcl

end Kodama
